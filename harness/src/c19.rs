//! C19: modular inverse, perfect power, Kronecker symbol, primes.
use crate::common::*;
use num::{BigInt, One, Zero};
use number_theory_elementary::{kronecker_symbol_i64, primes, Primes};
use rust_number_theory::inverse::{inv, zmod};
use rust_number_theory::perfect_power::{is_perfect_power, perfect_power};

fn do_inv(ctx: &mut Ctx, a: &BigInt, m: &BigInt) {
    let ans = run(|| match inv(a, m) {
        Ok(x) => format!("ok {x}"),
        Err(g) => format!("err {g}"),
    });
    ctx.emit("inv", &[a.to_string(), m.to_string()], ans);
}
/// the generic `zmod` at machine integers (same specification; overflow near the type's bounds would be a
/// panic in the dev profile)
fn do_zmod_machine(ctx: &mut Ctx, x: i128, m: i128, wide: bool) {
    let ans = if wide {
        run(|| zmod::<i128>(&x, &m).to_string())
    } else {
        let (x, m) = (x as i64, m as i64);
        run(|| zmod::<i64>(&x, &m).to_string())
    };
    ctx.emit(if wide { "zmod.i128" } else { "zmod.i64" }, &[x.to_string(), m.to_string()], ans);
}
fn gen_zmod_machine(ctx: &mut Ctx) {
    let m64 = [1i64, 2, 3, 7, 1 << 31, (1 << 62) - 1, 1 << 62, (1 << 62) + 1, i64::MAX / 2, i64::MAX / 2 + 1, i64::MAX - 1, i64::MAX];
    let x64 = [0i64, 1, 5, -1, -5, i64::MAX, i64::MAX - 1, i64::MIN + 1, i64::MIN, (1 << 62) + 3, -(1 << 62) - 3];
    for &m in &m64 {
        for &x in &x64 {
            do_zmod_machine(ctx, x as i128, m as i128, false);
        }
    }
    let m128 = [1i128, 3, 1 << 64, (1 << 126) - 1, 1 << 126, i128::MAX / 2 + 1, i128::MAX - 1, i128::MAX];
    let x128 = [0i128, 1, -1, 5, i128::MAX, i128::MIN + 1, i128::MIN, (1 << 126) + 3, -(1 << 126) - 3];
    for &m in &m128 {
        for &x in &x128 {
            do_zmod_machine(ctx, x, m, true);
        }
    }
    for _ in 0..ctx.pick(200, 3000) {
        let m = (ctx.rng.next() >> (ctx.rng.below(63) as u32)) as i64 & i64::MAX;
        let x = ctx.rng.next() as i64;
        if m > 0 {
            do_zmod_machine(ctx, x as i128, m as i128, false);
        }
    }
}
fn do_zmod(ctx: &mut Ctx, x: &BigInt, m: &BigInt) {
    let ans = run(|| zmod::<BigInt>(x, m).to_string());
    ctx.emit("zmod", &[x.to_string(), m.to_string()], ans);
}
fn do_pp(ctx: &mut Ctx, n: &BigInt) {
    let ans = run(|| {
        let (b, k) = perfect_power(n);
        format!("{b} {k}")
    });
    ctx.emit("pp", &[n.to_string()], ans);
}
fn do_ispp(ctx: &mut Ctx, n: &BigInt, k: u32) {
    let ans = run(|| match is_perfect_power(n, k) {
        Some(x) => format!("some {x}"),
        None => "none".into(),
    });
    ctx.emit("ispp", &[n.to_string(), k.to_string()], ans);
}
fn do_kron(ctx: &mut Ctx, a: i64, b: i64) {
    let ans = run(|| kronecker_symbol_i64(a, b).to_string());
    ctx.emit("kron", &[a.to_string(), b.to_string()], ans);
}
fn do_kronrow(ctx: &mut Ctx, a: i64, bb: i64) {
    let ans = run(|| {
        (-bb..=bb).map(|b| kronecker_symbol_i64(a, b).to_string()).collect::<Vec<_>>().join(",")
    });
    ctx.emit("kronrow", &[a.to_string(), bb.to_string()], ans);
}
fn do_primes(ctx: &mut Ctx, bound: usize) {
    let ans = run(|| {
        let v = primes(bound);
        if v.is_empty() {
            "_".into()
        } else {
            v.iter().map(|x| x.to_string()).collect::<Vec<_>>().join(",")
        }
    });
    ctx.emit("primes", &[bound.to_string()], ans);
}
fn do_primesiter(ctx: &mut Ctx, cnt: usize) {
    let ans = run(|| {
        let v: Vec<usize> = Primes::new().take(cnt).collect();
        if v.is_empty() {
            "_".into()
        } else {
            v.iter().map(|x| x.to_string()).collect::<Vec<_>>().join(",")
        }
    });
    ctx.emit("primesiter", &[cnt.to_string()], ans);
}

pub fn replay(ctx: &mut Ctx, f: &[&str]) -> bool {
    match (f[0], f.len()) {
        ("inv", 3) => do_inv(ctx, &parse_int(f[1]), &parse_int(f[2])),
        ("zmod", 3) => do_zmod(ctx, &parse_int(f[1]), &parse_int(f[2])),
        ("zmod.i64" | "zmod.i128", 3) => {
            use num::ToPrimitive;
            match (parse_int(f[1]).to_i128(), parse_int(f[2]).to_i128()) {
                (Some(x), Some(m)) => do_zmod_machine(ctx, x, m, f[0] == "zmod.i128"),
                _ => return false,
            }
        }
        ("pp", 2) => do_pp(ctx, &parse_int(f[1])),
        ("ispp", 3) => do_ispp(ctx, &parse_int(f[1]), f[2].parse().unwrap()),
        ("kron", 3) => do_kron(ctx, f[1].parse().unwrap(), f[2].parse().unwrap()),
        ("kronrow", 3) => do_kronrow(ctx, f[1].parse().unwrap(), f[2].parse().unwrap()),
        ("primes", 2) => do_primes(ctx, f[1].parse().unwrap()),
        ("primesiter", 2) => do_primesiter(ctx, f[1].parse().unwrap()),
        _ => return false,
    }
    true
}

pub fn generate(ctx: &mut Ctx) {
    gen_zmod_machine(ctx);
    // modular inverse: exhaustive small box, then random large
    let box_ = ctx.pick(60, 400) as i64;
    for m in 1..=box_ {
        for a in -box_..=box_ {
            do_inv(ctx, &a.into(), &m.into());
        }
    }
    for _ in 0..ctx.pick(1500, 20000) {
        let bits = [8u64, 32, 64, 65, 128, 256, 1024][ctx.rng.below(7) as usize];
        let mut m = ctx.rng.bits(bits) + BigInt::one();
        let mut a = ctx.rng.int(bits + 8);
        if ctx.rng.chance(1, 3) {
            // force a common factor
            let gb = 1 + ctx.rng.below(40);
            let g = ctx.rng.bits(gb) + BigInt::one();
            m *= &g;
            a *= &g;
        }
        do_inv(ctx, &a, &m);
        let x = ctx.rng.int(bits + 8);
        do_zmod(ctx, &x, &m);
    }
    // perfect powers: exhaustive small, random b^k and neighbours
    for n in -2i64..ctx.pick(3000, 1 << 17) as i64 {
        do_pp(ctx, &n.into());
    }
    for _ in 0..ctx.pick(150, 3000) {
        let klim = if ctx.rng.chance(1, 8) { 200 } else { 12 };
        let k = 1 + ctx.rng.below(klim) as u32;
        let maxbits = ctx.pick(600, 2000) as u64;
        let bbits = 1 + ctx.rng.below((maxbits / k as u64).max(1));
        let b = ctx.rng.bits(bbits) + BigInt::from(2);
        let n = num::pow(b, k as usize);
        let d = ctx.rng.range(-1, 1);
        let n = n + BigInt::from(d);
        do_pp(ctx, &n);
        let kk = 1 + ctx.rng.below(k as u64 + 3) as u32;
        if n >= BigInt::zero() {
            do_ispp(ctx, &n, kk);
        }
    }
    // Kronecker: full rows on a grid, extremes, random 62-bit with smooth b
    let bb = ctx.pick(200, 1500) as i64;
    for a in -bb..=bb {
        do_kronrow(ctx, a, bb);
    }
    let ext = [i64::MIN, i64::MIN + 1, i64::MAX, i64::MAX - 1, 0, 1, -1, 2, -2];
    for &a in &ext {
        for &b in &ext {
            do_kron(ctx, a, b);
        }
        do_kronrow(ctx, a, 40);
    }
    let small_primes: Vec<i64> = primes(2000).into_iter().map(|p| p as i64).collect();
    for _ in 0..ctx.pick(3000, 60000) {
        let a = (ctx.rng.next() as i64) >> ctx.rng.below(63);
        // smooth b so that the spec can factor it
        let mut b: i64 = 1;
        loop {
            let lim = if ctx.rng.chance(1, 2) { 6 } else { small_primes.len() as u64 };
            let p = small_primes[ctx.rng.below(lim) as usize];
            match b.checked_mul(p) {
                Some(v) if ctx.rng.chance(7, 8) => b = v,
                _ => break,
            }
        }
        if ctx.rng.chance(1, 2) {
            b = -b;
        }
        do_kron(ctx, a, b);
    }
    // sieve and iterator
    let sb = ctx.pick(400, 3000);
    for bound in 0..=sb {
        do_primes(ctx, bound);
    }
    for bound in [10_000usize, 65_536, 100_000] {
        if ctx.thorough || bound <= 10_000 {
            do_primes(ctx, bound);
        }
    }
    for cnt in [0usize, 1, 2, 15, 100, ctx.pick(1000, 10000)] {
        do_primesiter(ctx, cnt);
    }
}
