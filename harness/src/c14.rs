//! C14: number-field element arithmetic (algebraic.rs) and multiplication tables
//! (order.rs: get_mult_table / to_z_basis / to_z_basis_int, mult_table.rs: mul / trace / norm / inv).
//!
//! An order is passed as a rational basis `S`; every case rebuilds it with `Order::from_basis(S)`
//! (the field is private). The generators always send `order.basis()`, i.e. the stored form.
use crate::c09::{pq, pz, show_pq, show_pz};
use crate::common::*;
use num::traits::Pow;
use num::{BigInt, BigRational, One, Signed, Zero};
use rust_number_theory::algebraic::Algebraic;
use rust_number_theory::integral_basis::find_integral_basis;
use rust_number_theory::mult_table::MultTable;
use rust_number_theory::order::{non_monic_initial_order, Order};

pub type QM = Vec<Vec<BigRational>>;
pub type Table = Vec<Vec<Vec<BigInt>>>;

/// element of Q[x]/(f) with the given expression (no reduction, no check: fields are public)
pub fn alg(f: &[BigInt], a: &[BigRational]) -> Algebraic {
    Algebraic { min_poly: pz(f), expr: pq(a) }
}
pub fn theta(f: &[BigInt]) -> Algebraic {
    Algebraic::new(pz(f))
}
pub fn show_table(t: &Table) -> String {
    if t.is_empty() {
        return "_".into();
    }
    t.iter().map(|m| show_mat(m)).collect::<Vec<_>>().join("|")
}
pub fn parse_table(s: &str) -> Table {
    if s == "_" || s.is_empty() {
        return vec![];
    }
    s.split('|').map(parse_mat).collect()
}
fn flag(b: bool) -> char {
    if b {
        '1'
    } else {
        '0'
    }
}
pub fn rat(n: i64) -> BigRational {
    BigRational::from(BigInt::from(n))
}

// ---------------------------------------------------------------- alg.*

fn do_bin(ctx: &mut Ctx, op: &str, f: &[BigInt], a: &[BigRational], b: &[BigRational]) {
    let (x, y) = (alg(f, a), alg(f, b));
    let ans = run(|| {
        let r = match op {
            "alg.add" => &x + &y,
            "alg.sub" => &x - &y,
            "alg.mul" => &x * &y,
            _ => unreachable!(),
        };
        show_pq(&r.expr)
    });
    ctx.emit(op, &[show_pz(&x.min_poly), show_pq(&x.expr), show_pq(&y.expr)], ans);
}
fn do_pow(ctx: &mut Ctx, f: &[BigInt], a: &[BigRational], e: u64) {
    let x = alg(f, a);
    let ans = run(|| show_pq(&Pow::pow(&x, e).expr));
    ctx.emit("alg.pow", &[show_pz(&x.min_poly), show_pq(&x.expr), e.to_string()], ans);
}
fn do_powbig(ctx: &mut Ctx, f: &[BigInt], a: &[BigRational], e: &BigInt) {
    let x = alg(f, a);
    let ans = run(|| show_pq(&Pow::pow(&x, e.clone()).expr));
    ctx.emit("alg.powbig", &[show_pz(&x.min_poly), show_pq(&x.expr), e.to_string()], ans);
}
fn do_ascoefs(ctx: &mut Ctx, f: &[BigInt], a: &[BigRational]) {
    let x = alg(f, a);
    let ans = run(|| show_rats(&x.as_coefs()));
    ctx.emit("alg.ascoefs", &[show_pz(&x.min_poly), show_pq(&x.expr)], ans);
}
fn do_withexpr(ctx: &mut Ctx, f: &[BigInt], a: &[BigRational]) {
    let (pf, pa) = (pz(f), pq(a));
    let ans = run(|| show_pq(&Algebraic::with_expr(pf.clone(), pa.clone()).expr));
    ctx.emit("alg.withexpr", &[show_pz(&pf), show_pq(&pa)], ans);
}
/// ring laws of Q[x]/(f) and the exponent laws, evaluated on the implementation
fn do_alg_laws(ctx: &mut Ctx, f: &[BigInt], a: &[BigRational], b: &[BigRational], c: &[BigRational], s: u64, t: u64) {
    let (x, y, z) = (alg(f, a), alg(f, b), alg(f, c));
    let ans = run(|| {
        let zero = Algebraic::from_int(pz(f), 0);
        let one = Algebraic::from_int(pz(f), 1);
        let minus = Algebraic::from_int(pz(f), -1);
        let mut o = String::new();
        o.push(flag(&x + &y == &y + &x));
        o.push(flag(&x * &y == &y * &x));
        o.push(flag(&(&x + &y) + &z == &x + &(&y + &z)));
        o.push(flag(&(&x * &y) * &z == &x * &(&y * &z)));
        o.push(flag(&x * &(&y + &z) == &(&x * &y) + &(&x * &z)));
        o.push(flag(&x + &zero == x && &x * &one == x && &x * &zero == zero && &one * &x == x));
        o.push(flag(&x - &y == &x + &(&minus * &y) && &x - &x == zero));
        o.push(flag(Pow::pow(&x, s + t) == &Pow::pow(&x, s) * &Pow::pow(&x, t)));
        o.push(flag(Pow::pow(&(&x * &y), s) == &Pow::pow(&x, s) * &Pow::pow(&y, s)));
        o.push(flag(Pow::pow(&x, 1u64) == x && Pow::pow(&x, 0u64) == one));
        o.push(flag(Pow::pow(&Pow::pow(&x, s), t) == Pow::pow(&x, s * t)));
        // owned operators and the BigInt exponent agree with the by-reference / u64 ones
        o.push(flag(
            x.clone() + y.clone() == &x + &y && x.clone() - y.clone() == &x - &y && x.clone() * y.clone() == &x * &y,
        ));
        o.push(flag(Pow::pow(&x, BigInt::from(s)) == Pow::pow(&x, s)));
        o
    });
    ctx.emit(
        "alg.laws",
        &[show_pz(&x.min_poly), show_pq(&x.expr), show_pq(&y.expr), show_pq(&z.expr), s.to_string(), t.to_string()],
        ans,
    );
}

// ---------------------------------------------------------------- orders: coordinates

fn do_toz(ctx: &mut Ctx, s: &QM, f: &[BigInt], a: &[BigRational]) {
    let x = alg(f, a);
    let ans = run(|| show_rats(&Order::from_basis(s).to_z_basis(&x)));
    ctx.emit("ord.tozbasis", &[show_ratmat(s), show_pq(&x.expr)], ans);
}
fn do_tozint(ctx: &mut Ctx, s: &QM, f: &[BigInt], a: &[BigRational]) {
    let x = alg(f, a);
    let ans = run(|| show_ints(&Order::from_basis(s).to_z_basis_int(&x)));
    ctx.emit("ord.tozbasisint", &[show_ratmat(s), show_pq(&x.expr)], ans);
}

// ---------------------------------------------------------------- mt.*

fn table_of(s: &QM, f: &[BigInt]) -> MultTable {
    Order::from_basis(s).get_mult_table(&theta(f))
}
/// the table as nested vectors, read back through `mul` on unit vectors (the field is private)
fn table_entries(t: &MultTable) -> Table {
    let n = t.deg();
    let unit = |i: usize| -> Vec<BigInt> { (0..n).map(|k| if k == i { BigInt::one() } else { BigInt::zero() }).collect() };
    (0..n).map(|i| (0..n).map(|j| t.mul(&unit(i), &unit(j))).collect()).collect()
}
fn do_table(ctx: &mut Ctx, s: &QM, f: &[BigInt]) {
    let ans = run(|| {
        let t = table_of(s, f);
        // `Debug` of the table is the only direct view; unit-vector products read the same entries
        let e = table_entries(&t);
        assert_eq!(format!("{:?}", t), format!("MultTable {{ table: {:?} }}", e), "assertion: table read-back");
        show_table(&e)
    });
    ctx.emit("mt.table", &[show_ratmat(s), show_ints(f)], ans);
}
fn do_tmul(ctx: &mut Ctx, s: &QM, f: &[BigInt], a: &[BigInt], b: &[BigInt]) {
    let ans = run(|| show_ints(&table_of(s, f).mul(a, b)));
    ctx.emit("mt.mul", &[show_ratmat(s), show_ints(f), show_ints(a), show_ints(b)], ans);
}
fn do_ttrace(ctx: &mut Ctx, s: &QM, f: &[BigInt], a: &[BigInt]) {
    let ans = run(|| table_of(s, f).trace(a).to_string());
    ctx.emit("mt.trace", &[show_ratmat(s), show_ints(f), show_ints(a)], ans);
}
fn do_tnorm(ctx: &mut Ctx, s: &QM, f: &[BigInt], a: &[BigInt]) {
    let ans = run(|| table_of(s, f).norm(a).to_string());
    ctx.emit("mt.norm", &[show_ratmat(s), show_ints(f), show_ints(a)], ans);
}
fn do_tinv(ctx: &mut Ctx, s: &QM, f: &[BigInt], a: &[BigInt]) {
    let ans = run(|| {
        let (b, d) = table_of(s, f).inv(a);
        format!("{} {}", show_ints(&b), d)
    });
    ctx.emit("mt.inv", &[show_ratmat(s), show_ints(f), show_ints(a)], ans);
}
fn vadd(a: &[BigInt], b: &[BigInt]) -> Vec<BigInt> {
    a.iter().zip(b).map(|(x, y)| x + y).collect()
}
fn vscale(k: &BigInt, a: &[BigInt]) -> Vec<BigInt> {
    a.iter().map(|x| k * x).collect()
}
/// laws of the table arithmetic evaluated on the implementation (`-` = law not applicable)
fn do_tlaws(ctx: &mut Ctx, s: &QM, f: &[BigInt], a: &[BigInt], b: &[BigInt], c: &[BigInt]) {
    let ans = run(|| {
        let t = table_of(s, f);
        let n = t.deg();
        let e0: Vec<BigInt> = (0..n).map(|k| if k == 0 { BigInt::one() } else { BigInt::zero() }).collect();
        let k = BigInt::from(-7);
        let mut o = String::new();
        o.push(flag(t.mul(a, b) == t.mul(b, a)));
        o.push(flag(t.mul(&t.mul(a, b), c) == t.mul(a, &t.mul(b, c))));
        o.push(flag(t.mul(a, &vadd(b, c)) == vadd(&t.mul(a, b), &t.mul(a, c))));
        o.push(flag(t.norm(&t.mul(a, b)) == t.norm(a) * t.norm(b)));
        o.push(flag(t.trace(&vadd(a, b)) == t.trace(a) + t.trace(b)));
        o.push(flag(t.trace(&vscale(&k, a)) == &k * t.trace(a)));
        o.push(flag(t.mul(a, &e0) == a.to_vec() && t.mul(&e0, a) == a.to_vec()));
        o.push(flag(t.trace(&e0) == BigInt::from(n) && t.norm(&vscale(&k, &e0)) == Pow::pow(&k, n)));
        if t.norm(a).is_zero() {
            o.push('-');
        } else {
            let (y, d) = t.inv(a);
            o.push(flag(t.mul(a, &y) == vscale(&d, &e0) && d == t.norm(a).abs()));
        }
        o
    });
    ctx.emit("mt.laws", &[show_ratmat(s), show_ints(f), show_ints(a), show_ints(b), show_ints(c)], ans);
}

// ---------------------------------------------------------------- mtr.* (raw tables)

fn do_rmul(ctx: &mut Ctx, t: &Table, a: &[BigInt], b: &[BigInt]) {
    let ans = run(|| show_ints(&MultTable::new(t.clone()).mul(a, b)));
    ctx.emit("mtr.mul", &[show_table(t), show_ints(a), show_ints(b)], ans);
}
fn do_rtrace(ctx: &mut Ctx, t: &Table, a: &[BigInt]) {
    let ans = run(|| MultTable::new(t.clone()).trace(a).to_string());
    ctx.emit("mtr.trace", &[show_table(t), show_ints(a)], ans);
}
fn do_rnorm(ctx: &mut Ctx, t: &Table, a: &[BigInt]) {
    let ans = run(|| MultTable::new(t.clone()).norm(a).to_string());
    ctx.emit("mtr.norm", &[show_table(t), show_ints(a)], ans);
}
fn do_rinv(ctx: &mut Ctx, t: &Table, a: &[BigInt]) {
    let ans = run(|| {
        let (b, d) = MultTable::new(t.clone()).inv(a);
        format!("{} {}", show_ints(&b), d)
    });
    ctx.emit("mtr.inv", &[show_table(t), show_ints(a)], ans);
}

pub fn replay(ctx: &mut Ctx, f: &[&str]) -> bool {
    match (f[0], f.len()) {
        ("alg.add" | "alg.sub" | "alg.mul", 4) => do_bin(ctx, f[0], &parse_ints(f[1]), &parse_rats(f[2]), &parse_rats(f[3])),
        ("alg.pow", 4) => match f[3].parse::<u64>() {
            Ok(e) => do_pow(ctx, &parse_ints(f[1]), &parse_rats(f[2]), e),
            Err(_) => return false,
        },
        ("alg.powbig", 4) => do_powbig(ctx, &parse_ints(f[1]), &parse_rats(f[2]), &parse_int(f[3])),
        ("alg.ascoefs", 3) => do_ascoefs(ctx, &parse_ints(f[1]), &parse_rats(f[2])),
        ("alg.withexpr", 3) => do_withexpr(ctx, &parse_ints(f[1]), &parse_rats(f[2])),
        ("alg.laws", 7) => match (f[5].parse::<u64>(), f[6].parse::<u64>()) {
            (Ok(s), Ok(t)) => do_alg_laws(ctx, &parse_ints(f[1]), &parse_rats(f[2]), &parse_rats(f[3]), &parse_rats(f[4]), s, t),
            _ => return false,
        },
        // the element lives in some Q[x]/(f); only its expression matters for the coordinates
        ("ord.tozbasis", 3) => do_toz(ctx, &parse_ratmat(f[1]), &[BigInt::zero(), BigInt::one()], &parse_rats(f[2])),
        ("ord.tozbasisint", 3) => do_tozint(ctx, &parse_ratmat(f[1]), &[BigInt::zero(), BigInt::one()], &parse_rats(f[2])),
        ("mt.table", 3) => do_table(ctx, &parse_ratmat(f[1]), &parse_ints(f[2])),
        ("mt.mul", 5) => do_tmul(ctx, &parse_ratmat(f[1]), &parse_ints(f[2]), &parse_ints(f[3]), &parse_ints(f[4])),
        ("mt.trace", 4) => do_ttrace(ctx, &parse_ratmat(f[1]), &parse_ints(f[2]), &parse_ints(f[3])),
        ("mt.norm", 4) => do_tnorm(ctx, &parse_ratmat(f[1]), &parse_ints(f[2]), &parse_ints(f[3])),
        ("mt.inv", 4) => do_tinv(ctx, &parse_ratmat(f[1]), &parse_ints(f[2]), &parse_ints(f[3])),
        ("mt.laws", 6) => do_tlaws(
            ctx,
            &parse_ratmat(f[1]),
            &parse_ints(f[2]),
            &parse_ints(f[3]),
            &parse_ints(f[4]),
            &parse_ints(f[5]),
        ),
        ("mtr.mul", 4) => do_rmul(ctx, &parse_table(f[1]), &parse_ints(f[2]), &parse_ints(f[3])),
        ("mtr.trace", 3) => do_rtrace(ctx, &parse_table(f[1]), &parse_ints(f[2])),
        ("mtr.norm", 3) => do_rnorm(ctx, &parse_table(f[1]), &parse_ints(f[2])),
        ("mtr.inv", 3) => do_rinv(ctx, &parse_table(f[1]), &parse_ints(f[2])),
        _ => return false,
    }
    true
}

// ---------------------------------------------------------------- generators

/// random f of degree exactly n (n >= 0): `bits` bounds the coefficients, leading coefficient 1 if `monic`
pub fn rand_f(ctx: &mut Ctx, n: usize, bits: u64, monic: bool) -> Vec<BigInt> {
    let mut f: Vec<BigInt> = (0..n).map(|_| if ctx.rng.chance(1, 5) { BigInt::zero() } else { ctx.rng.int(bits) }).collect();
    // a zero constant term makes f divisible by x: keep that rare (reducible moduli have their own generator)
    if n >= 1 && f[0].is_zero() && ctx.rng.chance(9, 10) {
        f[0] = BigInt::from(ctx.rng.range(1, 5));
    }
    let lc = if monic {
        BigInt::one()
    } else {
        let mut l = ctx.rng.int(bits.min(6));
        if l.is_zero() || l.is_one() {
            l = BigInt::from(ctx.rng.range(2, 7));
        }
        l
    };
    f.push(lc);
    f
}
/// f(x) = k^n g(x / k) for a random small monic g: Z[theta] has index k^(n(n-1)/2) in Z[theta / k],
/// so the maximal order has denominators
pub fn rand_scaled(ctx: &mut Ctx, n: usize) -> Vec<BigInt> {
    let g = rand_f(ctx, n, 3, true);
    let k = BigInt::from(ctx.rng.range(2, 3));
    (0..=n).map(|i| &g[i] * num::pow(k.clone(), n - i)).collect()
}
/// product of two random polynomials of total degree n (n >= 2): reducible modulus
pub fn rand_reducible(ctx: &mut Ctx, n: usize, bits: u64, monic: bool) -> Vec<BigInt> {
    let k = 1 + ctx.rng.below(n as u64 - 1) as usize;
    let g = rand_f(ctx, k, bits, monic);
    let h = if ctx.rng.chance(1, 4) && 2 * k == n { g.clone() } else { rand_f(ctx, n - k, bits, monic) };
    (&pz(&g) * &pz(&h)).dat
}
/// rational with numerator up to `bits` bits and a small denominator
pub fn small_den_rat(ctx: &mut Ctx, bits: u64) -> BigRational {
    let n = ctx.rng.int(bits);
    let d = if ctx.rng.chance(1, 2) { 1 } else { ctx.rng.range(1, 12) };
    BigRational::new(n, BigInt::from(d))
}
/// element of Q[x]/(f) of degree < n (canonical after from_raw)
pub fn rand_elem(ctx: &mut Ctx, n: usize, bits: u64) -> Vec<BigRational> {
    let len = if ctx.rng.chance(3, 4) { n } else { ctx.rng.below(n as u64 + 1) as usize };
    let v: Vec<BigRational> =
        (0..len).map(|_| if ctx.rng.chance(1, 6) { BigRational::zero() } else { small_den_rat(ctx, bits) }).collect();
    pq(&v).dat
}
pub fn rand_coords(ctx: &mut Ctx, n: usize, bits: u64) -> Vec<BigInt> {
    (0..n).map(|_| if ctx.rng.chance(1, 6) { BigInt::zero() } else { ctx.rng.int(bits) }).collect()
}
pub fn identity_q(n: usize) -> QM {
    (0..n).map(|i| (0..n).map(|j| if i == j { rat(1) } else { rat(0) }).collect()).collect()
}
/// Z + m O for the order with stored basis `s` (first vector 1): again closed under multiplication
pub fn conductor_suborder(s: &QM, m: i64) -> QM {
    let mm = rat(m);
    s.iter().enumerate().map(|(i, r)| if i == 0 { r.clone() } else { r.iter().map(|x| x * &mm).collect() }).collect()
}
/// `Order::from_basis(b).basis()`, None on a panic
pub fn stored(b: &QM) -> Option<QM> {
    std::panic::catch_unwind(std::panic::AssertUnwindSafe(|| Order::from_basis(b).basis())).ok()
}
/// the element with integer coordinates `a` in the basis `s`, as a polynomial expression
pub fn elem_of(s: &QM, a: &[BigInt]) -> Vec<BigRational> {
    let n = s.len();
    let mut v = vec![BigRational::zero(); n];
    for i in 0..n {
        for j in 0..n {
            v[j] += BigRational::from(a[i].clone()) * &s[i][j];
        }
    }
    pq(&v).dat
}

/// orders of Q[x]/(f) to test tables on: (name, stored basis)
fn orders_for(ctx: &mut Ctx, f: &[BigInt], with_maximal: bool) -> Vec<QM> {
    let n = f.len() - 1;
    let th = theta(f);
    let monic = f[n].is_one();
    let mut out: Vec<QM> = vec![];
    if let Ok(o) = std::panic::catch_unwind(std::panic::AssertUnwindSafe(|| Order::singly_gen(&th).basis())) {
        // for non-monic f the power basis is not closed under multiplication: assertion path
        if monic || ctx.rng.chance(1, 4) {
            out.push(o);
        }
    }
    if let Ok(o) = std::panic::catch_unwind(std::panic::AssertUnwindSafe(|| non_monic_initial_order(&th).basis())) {
        if !monic || ctx.rng.chance(1, 3) {
            out.push(o.clone());
        }
        if ctx.rng.chance(1, 2) {
            let m = ctx.rng.range(2, 6);
            if let Some(sub) = stored(&conductor_suborder(&o, m)) {
                out.push(sub);
            }
        }
    }
    if with_maximal {
        if let Ok(o) = std::panic::catch_unwind(std::panic::AssertUnwindSafe(|| find_integral_basis(&th).basis())) {
            out.push(o);
        }
    }
    out
}

fn table_cases(ctx: &mut Ctx, s: &QM, f: &[BigInt], reps: usize, bits: u64) {
    let n = s.len();
    do_table(ctx, s, f);
    // not a ring (the integrality assertion fires): one product is enough to see the same panic
    let closed = std::panic::catch_unwind(std::panic::AssertUnwindSafe(|| table_of(s, f))).is_ok();
    if !closed {
        let a = rand_coords(ctx, n, 4);
        do_tmul(ctx, s, f, &a, &a);
        do_tnorm(ctx, s, f, &a);
        return;
    }
    for r in 0..reps {
        let bb = if r == 0 { 3 } else { bits };
        let a = rand_coords(ctx, n, bb);
        let b = rand_coords(ctx, n, bb);
        let c = rand_coords(ctx, n, bb.min(20));
        do_tmul(ctx, s, f, &a, &b);
        do_ttrace(ctx, s, f, &a);
        do_tnorm(ctx, s, f, &a);
        do_tinv(ctx, s, f, &a);
        do_tlaws(ctx, s, f, &a, &b, &c);
        // coordinates: a member (integral), a random element (rational coordinates)
        let member = elem_of(s, &a);
        do_tozint(ctx, s, f, &member);
        do_toz(ctx, s, f, &member);
        let other = rand_elem(ctx, n, bb);
        do_toz(ctx, s, f, &other);
        do_tozint(ctx, s, f, &other);
    }
}

/// `Pow<BigInt>` with exponents beyond a machine word: elements of finite multiplicative order and
/// unipotent elements (1 + nilpotent) keep the result small whatever the exponent
fn gen_pow_beyond_word(ctx: &mut Ctx) {
    let iv = |v: &[i64]| v.iter().map(|&x| BigInt::from(x)).collect::<Vec<_>>();
    let rv = |v: &[i64]| v.iter().map(|&x| BigRational::from(BigInt::from(x))).collect::<Vec<_>>();
    let cases: Vec<(Vec<BigInt>, Vec<BigRational>)> = vec![
        (iv(&[1, 0, 1]), rv(&[0, 1])),          // i
        (iv(&[1, 0, 1]), rv(&[0, -1])),         // -i
        (iv(&[1, 1, 1]), rv(&[0, 1])),          // primitive cube root of unity
        (iv(&[1, 0, 0, 0, 1]), rv(&[0, 1])),    // primitive 8th root
        (iv(&[1, 1, 1, 1, 1]), rv(&[0, 0, 1])), // zeta_5^2
        (iv(&[0, 0, 1]), rv(&[1, 1])),          // 1 + theta, theta^2 = 0
        (iv(&[0, 0, 0, 1]), rv(&[1, 1])),       // 1 + theta, theta^3 = 0
        (iv(&[0, 0, 0, 2]), rv(&[1, 0, 1])),    // non-monic modulus
        (iv(&[-1, 0, 1]), rv(&[0, 1])),         // theta^2 = 1 (reducible modulus)
        (iv(&[1, 0, 1]), rv(&[1])),             // 1
        (iv(&[1, 0, 1]), rv(&[-1])),            // -1
    ];
    let one = BigInt::one();
    let exps: Vec<BigInt> = vec![
        &one << 64,
        (&one << 64) + 1,
        (&one << 64) + 3,
        (&one << 64) - 1,
        &one << 65,
        (&one << 65) + (&one << 64) + 2,
        (&one << 70) + 5,
        &one << 128,
        (&one << 128) + (&one << 64) + 7,
        (&one << 63) + 1,
    ];
    for (f, a) in &cases {
        for e in &exps {
            if ctx.thorough || ctx.rng.chance(1, 2) {
                do_powbig(ctx, f, a, e);
            }
        }
    }
}

pub fn generate(ctx: &mut Ctx) {
    gen_pow_beyond_word(ctx);
    // ---- quotient ring, exhaustive small: deg f = 2, coefficients in [-1, 1], lc in {1, 2, -1}
    let lcs: Vec<i64> = if ctx.thorough { vec![1, 2, -1, 3] } else { vec![1, 2] };
    let small = crate::c09::all_vecs(2, 1);
    let elems: Vec<Vec<BigRational>> =
        small.iter().map(|v| pq(&v.iter().map(|x| BigRational::from(x.clone())).collect::<Vec<_>>()).dat).collect();
    for lo in &small {
        for lc in &lcs {
            let mut f = lo.clone();
            f.push(BigInt::from(*lc));
            for a in &elems {
                for b in &elems {
                    do_bin(ctx, "alg.mul", &f, a, b);
                }
                do_pow(ctx, &f, a, 5);
            }
        }
    }
    // ---- quotient ring, random
    let cnt = ctx.pick(1200, 12000);
    for i in 0..cnt {
        let n = 1 + ctx.rng.below(6) as usize;
        let fbits = [3u64, 8, 20, 40][ctx.rng.below(4) as usize];
        let monic = ctx.rng.chance(1, 2);
        let f = if n >= 2 && ctx.rng.chance(1, 4) { rand_reducible(ctx, n, fbits.min(12), monic) } else { rand_f(ctx, n, fbits, monic) };
        let n = f.len() - 1;
        let ebits = [4u64, 16, 40, 40][ctx.rng.below(4) as usize];
        let a = rand_elem(ctx, n, ebits);
        let b = rand_elem(ctx, n, ebits);
        let c = rand_elem(ctx, n, ebits.min(16));
        for op in ["alg.add", "alg.sub", "alg.mul"] {
            do_bin(ctx, op, &f, &a, &b);
        }
        do_bin(ctx, "alg.mul", &f, &a, &a);
        do_ascoefs(ctx, &f, &a);
        if i % 4 == 0 {
            do_withexpr(ctx, &f, &a);
        }
        let e = ctx.rng.below(if i % 4 == 0 { 40 } else { 12 });
        let small_a = rand_elem(ctx, n, 8);
        do_pow(ctx, &f, &small_a, e);
        if i % 3 == 0 {
            do_powbig(ctx, &f, &small_a, &BigInt::from(e + 1));
            let e2 = ctx.rng.below(5);
            do_pow(ctx, &f, &a, e2);
        }
        let (s, t) = (ctx.rng.below(7), ctx.rng.below(7));
        if i % 2 == 0 {
            do_alg_laws(ctx, &f, &a, &b, &c, s.min(4), t.min(4));
        } else {
            let sb = rand_elem(ctx, n, 8);
            do_alg_laws(ctx, &f, &small_a, &sb, &c, s, t);
        }
    }
    // ---- quotient ring, edge cases
    {
        let lin = vec![BigInt::from(-3), BigInt::from(2)]; // 2x - 3: elements are constants
        let x = vec![rat(0), rat(1)];
        let k = vec![BigRational::new(BigInt::from(5), BigInt::from(3))];
        let z: Vec<BigRational> = vec![];
        for (a, b) in [(&k, &k), (&k, &z), (&z, &x), (&x, &k), (&k, &x), (&x, &x)] {
            for op in ["alg.add", "alg.sub", "alg.mul"] {
                do_bin(ctx, op, &lin, a, b);
            }
        }
        do_pow(ctx, &lin, &k, 7);
        do_pow(ctx, &lin, &x, 2); // theta of a linear f is not reduced: assertion
        do_pow(ctx, &lin, &x, 0);
        do_powbig(ctx, &lin, &k, &BigInt::from(-3));
        do_ascoefs(ctx, &lin, &k);
        do_ascoefs(ctx, &lin, &x); // usize underflow
        do_withexpr(ctx, &lin, &k);
        do_withexpr(ctx, &lin, &x);
        do_withexpr(ctx, &lin, &z); // the zero element: degree sentinel usize::MAX
        do_withexpr(ctx, &[], &k);
        do_withexpr(ctx, &[], &z);
        do_withexpr(ctx, &[BigInt::from(5)], &k);
        do_alg_laws(ctx, &lin, &k, &k, &z, 3, 4);
        // constant and zero modulus
        let cst = vec![BigInt::from(5)];
        let zero_f: Vec<BigInt> = vec![];
        for f in [&cst, &zero_f] {
            do_bin(ctx, "alg.mul", f, &k, &k);
            do_bin(ctx, "alg.mul", f, &z, &k);
            do_bin(ctx, "alg.add", f, &k, &x);
            do_pow(ctx, f, &k, 0);
            do_pow(ctx, f, &k, 1);
        }
        do_ascoefs(ctx, &cst, &z);
        do_ascoefs(ctx, &cst, &k);
        // unreduced operands in degree 3
        let f3 = vec![BigInt::from(1), BigInt::from(1), BigInt::from(0), BigInt::from(1)];
        let big = vec![rat(1), rat(0), rat(0), rat(2)];
        let ok = vec![rat(1), rat(2), rat(3)];
        do_bin(ctx, "alg.mul", &f3, &big, &ok);
        do_bin(ctx, "alg.mul", &f3, &ok, &big);
        do_bin(ctx, "alg.mul", &f3, &z, &big);
        do_bin(ctx, "alg.add", &f3, &big, &ok);
        do_pow(ctx, &f3, &big, 3);
        do_powbig(ctx, &f3, &ok, &BigInt::from(0));
        do_powbig(ctx, &f3, &ok, &(BigInt::from(1) << 6));
        do_ascoefs(ctx, &f3, &big);
        // zero element
        do_bin(ctx, "alg.mul", &f3, &z, &z);
        do_pow(ctx, &f3, &z, 0);
        do_pow(ctx, &f3, &z, 5);
        do_ascoefs(ctx, &f3, &z);
    }

    // ---- orders and their tables
    let cnt = ctx.pick(220, 2500);
    for i in 0..cnt {
        let n = 2 + ctx.rng.below(5) as usize;
        let monic = ctx.rng.chance(1, 2);
        let fbits = if n <= 3 { [3u64, 10, 24][ctx.rng.below(3) as usize] } else { [3u64, 8][ctx.rng.below(2) as usize] };
        let reducible = ctx.rng.chance(1, 6);
        let scaled = !reducible && n <= 4 && i % 5 == 0;
        let f = if reducible {
            rand_reducible(ctx, n, 4, monic)
        } else if scaled {
            rand_scaled(ctx, n)
        } else {
            rand_f(ctx, n, fbits, monic)
        };
        let n = f.len() - 1;
        // computed maximal orders only for small fields (round 2 may be slow or panic on unlucky input)
        let with_max = scaled || (!reducible && n <= 4 && fbits <= 3 && i % 3 == 0);
        let orders = orders_for(ctx, &f, with_max);
        let ebits = if n <= 3 { 40 } else if n <= 4 { 24 } else { 12 };
        for s in &orders {
            table_cases(ctx, s, &f, if n <= 4 { 2 } else { 1 }, ebits);
        }
        // a zero divisor of a reducible modulus, the zero element, the unit
        if let Some(s) = orders.first() {
            let mut zero = vec![BigInt::zero(); n];
            do_tinv(ctx, s, &f, &zero);
            do_tnorm(ctx, s, &f, &zero);
            do_ttrace(ctx, s, &f, &zero);
            zero[0] = BigInt::from(-1);
            do_tinv(ctx, s, &f, &zero);
            do_tnorm(ctx, s, &f, &zero);
        }
        if i % 8 == 0 {
            // a lattice that is not a ring: the integrality assertion of get_mult_table
            let b: QM = (0..n).map(|_| (0..n).map(|_| small_den_rat(ctx, 4)).collect()).collect();
            if let Some(s) = stored(&b) {
                do_table(ctx, &s, &f);
                let a = rand_coords(ctx, n, 4);
                do_tmul(ctx, &s, &f, &a, &a);
                let el = rand_elem(ctx, n, 6);
                do_toz(ctx, &s, &f, &el);
            }
        }
    }
    // zero divisors: f = g h monic, element g(theta) in Z[theta]
    for _ in 0..ctx.pick(6, 60) {
        let (dg, dh) = (1 + ctx.rng.below(2) as usize, 1 + ctx.rng.below(2) as usize);
        let g = rand_f(ctx, dg, 3, true);
        let h = rand_f(ctx, dh, 3, true);
        let f = (&pz(&g) * &pz(&h)).dat;
        let n = f.len() - 1;
        let s = identity_q(n);
        let mut a = g.clone();
        a.resize(n, BigInt::zero());
        do_tinv(ctx, &s, &f, &a);
        do_tnorm(ctx, &s, &f, &a);
        do_tlaws(ctx, &s, &f, &a, &a, &a);
    }
    // fixed examples of the repository's tests: Z[i] from 1 + 6i, the quintic 6x^5 - ...
    {
        let f: Vec<BigInt> = [37, -2, 1].iter().map(|x| BigInt::from(*x)).collect();
        let s = identity_q(2);
        table_cases(ctx, &s, &f, 1, 6);
        let f5: Vec<BigInt> = [5, 6, -7, 6, -7, 6].iter().map(|x| BigInt::from(*x)).collect();
        for s in orders_for(ctx, &f5, false) {
            table_cases(ctx, &s, &f5, 1, 6);
        }
        // degree 1: the only order is Z
        let lin = vec![BigInt::from(4), BigInt::from(1)];
        let s1: QM = vec![vec![rat(1)]];
        table_cases(ctx, &s1, &lin, 1, 10);
    }

    // ---- raw tables: shapes the debug assertions and the index arithmetic react to
    let gauss: Table = vec![
        vec![vec![BigInt::from(1), BigInt::from(0)], vec![BigInt::from(0), BigInt::from(1)]],
        vec![vec![BigInt::from(0), BigInt::from(1)], vec![BigInt::from(-1), BigInt::from(0)]],
    ];
    let empty: Table = vec![];
    let v = |xs: &[i64]| -> Vec<BigInt> { xs.iter().map(|x| BigInt::from(*x)).collect() };
    for (a, b) in [(v(&[2, 3]), v(&[4, 1])), (v(&[2]), v(&[4, 1])), (v(&[2, 3, 4]), v(&[4, 1, 1])), (v(&[2]), v(&[4])), (v(&[]), v(&[]))] {
        do_rmul(ctx, &gauss, &a, &b);
        do_rtrace(ctx, &gauss, &a);
        do_rnorm(ctx, &gauss, &a);
        do_rinv(ctx, &gauss, &a);
    }
    do_rinv(ctx, &gauss, &v(&[0, 0]));
    do_rmul(ctx, &empty, &v(&[]), &v(&[]));
    do_rmul(ctx, &empty, &v(&[1]), &v(&[1]));
    do_rtrace(ctx, &empty, &v(&[]));
    do_rnorm(ctx, &empty, &v(&[]));
    do_rinv(ctx, &empty, &v(&[]));
    for _ in 0..ctx.pick(40, 600) {
        // arbitrary (commutative, non-associative) integer tables: the formulas are still bilinear / determinants
        let n = 1 + ctx.rng.below(4) as usize;
        let mut t: Table = (0..n).map(|_| (0..n).map(|_| rand_coords(ctx, n, 6)).collect()).collect();
        // commutative (w_i w_j = w_j w_i): `trace` reads table[j][i][j], `norm` reads table[i][j][k]
        for i in 0..n {
            for j in 0..i {
                t[i][j] = t[j][i].clone();
            }
        }
        let a = rand_coords(ctx, n, 20);
        let b = rand_coords(ctx, n, 20);
        do_rmul(ctx, &t, &a, &b);
        do_rtrace(ctx, &t, &a);
        do_rnorm(ctx, &t, &a);
        do_rinv(ctx, &t, &a);
    }
}
