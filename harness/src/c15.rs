//! C15: orders as canonical lattices (order.rs: from_basis / singly_gen / trivial_order_monic /
//! non_monic_initial_order / discriminant / index / union).
//!
//! An order argument is any rational basis `B`; every case builds the order with
//! `Order::from_basis(B)` (the `basis` field is private).
use crate::c09::{pq, show_pq, show_pz};
use crate::c14::{alg, conductor_suborder, identity_q, rand_elem, rand_f, rand_scaled, rat, small_den_rat, stored, theta, QM};
use crate::common::*;
use num::{BigInt, BigRational, One, Signed, Zero};
use rust_number_theory::discriminant::discriminant;
use rust_number_theory::integral_basis::find_integral_basis;
use rust_number_theory::order::{index, non_monic_initial_order, trivial_order_monic, union, Order};
use std::panic::{catch_unwind, AssertUnwindSafe};

type IM = Vec<Vec<BigInt>>;

fn flag(b: bool) -> char {
    if b {
        '1'
    } else {
        '0'
    }
}
fn ob(b: &QM) -> Order {
    Order::from_basis(b)
}

fn do_frombasis(ctx: &mut Ctx, b: &QM) {
    let ans = run(|| show_ratmat(&ob(b).basis()));
    ctx.emit("ord.frombasis", &[show_ratmat(b)], ans);
}
fn do_same(ctx: &mut Ctx, b1: &QM, b2: &QM) {
    let ans = run(|| if ob(b1) == ob(b2) { "1".into() } else { "0".into() });
    ctx.emit("ord.same", &[show_ratmat(b1), show_ratmat(b2)], ans);
}
fn do_singlygen(ctx: &mut Ctx, f: &[BigInt], a: &[BigRational]) {
    let x = alg(f, a);
    let ans = run(|| show_ratmat(&Order::singly_gen(&x).basis()));
    ctx.emit("ord.singlygen", &[show_pz(&x.min_poly), show_pq(&x.expr)], ans);
}
fn do_trivial(ctx: &mut Ctx, f: &[BigInt]) {
    let th = theta(f);
    let ans = run(|| show_ratmat(&trivial_order_monic(&th).basis()));
    ctx.emit("ord.trivial", &[show_pz(&th.min_poly)], ans);
}
fn do_nonmonic(ctx: &mut Ctx, f: &[BigInt]) {
    let th = theta(f);
    let ans = run(|| show_ratmat(&non_monic_initial_order(&th).basis()));
    ctx.emit("ord.nonmonic", &[show_pz(&th.min_poly)], ans);
}
fn do_disc(ctx: &mut Ctx, b: &QM, f: &[BigInt]) {
    let th = theta(f);
    let ans = run(|| ob(b).discriminant(&th).to_string());
    ctx.emit("ord.disc", &[show_ratmat(b), show_pz(&th.min_poly)], ans);
}
fn do_index(ctx: &mut Ctx, a: &QM, b: &QM) {
    let ans = run(|| index(&ob(a), &ob(b)).to_string());
    ctx.emit("ord.index", &[show_ratmat(a), show_ratmat(b)], ans);
}
fn do_chain(ctx: &mut Ctx, a: &QM, b: &QM, c: &QM) {
    let ans = run(|| {
        let (oa, obb, oc) = (ob(a), ob(b), ob(c));
        format!("{} {} {}", index(&oa, &obb), index(&obb, &oc), index(&oa, &oc))
    });
    ctx.emit("ord.chain", &[show_ratmat(a), show_ratmat(b), show_ratmat(c)], ans);
}
fn do_discindex(ctx: &mut Ctx, a: &QM, b: &QM, f: &[BigInt]) {
    let th = theta(f);
    let ans = run(|| {
        let (oa, obb) = (ob(a), ob(b));
        format!("{} {} {}", oa.discriminant(&th), obb.discriminant(&th), index(&oa, &obb))
    });
    ctx.emit("ord.discindex", &[show_ratmat(a), show_ratmat(b), show_pz(&th.min_poly)], ans);
}
fn do_union(ctx: &mut Ctx, a: &QM, b: &QM) {
    let ans = run(|| show_ratmat(&union(&ob(a), &ob(b)).basis()));
    ctx.emit("ord.union", &[show_ratmat(a), show_ratmat(b)], ans);
}
fn do_unionlaws(ctx: &mut Ctx, a: &QM, b: &QM) {
    let ans = run(|| {
        let (oa, obb) = (ob(a), ob(b));
        let u = union(&oa, &obb);
        let mut o = String::new();
        o.push(flag(u == union(&obb, &oa)));
        o.push(flag(union(&oa, &oa) == oa && union(&obb, &obb) == obb));
        o.push(flag(union(&u, &oa) == u && union(&obb, &u) == u && union(&u, &u) == u));
        o.push(flag(index(&u, &oa).is_positive() && index(&u, &obb).is_positive()));
        o.push(flag(Order::from_basis(&u.basis()) == u));
        o
    });
    ctx.emit("ord.unionlaws", &[show_ratmat(a), show_ratmat(b)], ans);
}
fn do_absorb(ctx: &mut Ctx, a: &QM, b: &QM) {
    let ans = run(|| {
        let (oa, obb) = (ob(a), ob(b));
        let mut o = String::new();
        o.push(flag(union(&oa, &obb) == oa));
        o.push(flag(union(&obb, &oa) == oa));
        o
    });
    ctx.emit("ord.absorb", &[show_ratmat(a), show_ratmat(b)], ans);
}
fn do_sgdisc(ctx: &mut Ctx, f: &[BigInt]) {
    let th = theta(f);
    let ans = run(|| format!("{} {}", Order::singly_gen(&th).discriminant(&th), discriminant(&th.min_poly)));
    ctx.emit("ord.sgdisc", &[show_pz(&th.min_poly)], ans);
}

pub fn replay(ctx: &mut Ctx, f: &[&str]) -> bool {
    match (f[0], f.len()) {
        ("ord.frombasis", 2) => do_frombasis(ctx, &parse_ratmat(f[1])),
        ("ord.same", 3) => do_same(ctx, &parse_ratmat(f[1]), &parse_ratmat(f[2])),
        ("ord.singlygen", 3) => do_singlygen(ctx, &parse_ints(f[1]), &parse_rats(f[2])),
        ("ord.trivial", 2) => do_trivial(ctx, &parse_ints(f[1])),
        ("ord.nonmonic", 2) => do_nonmonic(ctx, &parse_ints(f[1])),
        ("ord.disc", 3) => do_disc(ctx, &parse_ratmat(f[1]), &parse_ints(f[2])),
        ("ord.index", 3) => do_index(ctx, &parse_ratmat(f[1]), &parse_ratmat(f[2])),
        ("ord.chain", 4) => do_chain(ctx, &parse_ratmat(f[1]), &parse_ratmat(f[2]), &parse_ratmat(f[3])),
        ("ord.discindex", 4) => do_discindex(ctx, &parse_ratmat(f[1]), &parse_ratmat(f[2]), &parse_ints(f[3])),
        ("ord.union", 3) => do_union(ctx, &parse_ratmat(f[1]), &parse_ratmat(f[2])),
        ("ord.unionlaws", 3) => do_unionlaws(ctx, &parse_ratmat(f[1]), &parse_ratmat(f[2])),
        ("ord.absorb", 3) => do_absorb(ctx, &parse_ratmat(f[1]), &parse_ratmat(f[2])),
        ("ord.sgdisc", 2) => do_sgdisc(ctx, &parse_ints(f[1])),
        _ => return false,
    }
    true
}

// ---------------------------------------------------------------- generators

/// random non-singular n x n rational matrix (a few retries; generator-side use of the determinant only)
fn rand_basis(ctx: &mut Ctx, n: usize, bits: u64) -> QM {
    for _ in 0..8 {
        let b = rand_basis_any(ctx, n, bits);
        if !number_theory_linear::determinant(&b).is_zero() {
            return b;
        }
    }
    identity_q(n)
}
fn rand_basis_any(ctx: &mut Ctx, n: usize, bits: u64) -> QM {
    let common = ctx.rng.chance(1, 3);
    let d = BigInt::from(ctx.rng.range(1, 12));
    (0..n)
        .map(|_| {
            (0..n)
                .map(|_| {
                    if ctx.rng.chance(1, 5) {
                        BigRational::zero()
                    } else if common {
                        BigRational::new(ctx.rng.int(bits), d.clone())
                    } else {
                        small_den_rat(ctx, bits)
                    }
                })
                .collect()
        })
        .collect()
}
fn identity_i(n: usize) -> IM {
    (0..n).map(|i| (0..n).map(|j| if i == j { BigInt::one() } else { BigInt::zero() }).collect()).collect()
}
/// random unimodular integer matrix: product of elementary operations applied to the identity
fn rand_unimodular(ctx: &mut Ctx, n: usize) -> IM {
    let mut u = identity_i(n);
    for _ in 0..(2 * n + 2) {
        let i = ctx.rng.below(n as u64) as usize;
        let j = ctx.rng.below(n as u64) as usize;
        match ctx.rng.below(3) {
            0 => u.swap(i, j),
            1 => {
                if i != j {
                    let c = ctx.rng.small(3);
                    for t in 0..n {
                        let v = &c * &u[j][t];
                        u[i][t] += v;
                    }
                }
            }
            _ => {
                for t in 0..n {
                    u[i][t] = -&u[i][t];
                }
            }
        }
    }
    u
}
/// integer matrix of determinant ± d_1 … d_n: unimodular times lower triangular with diagonal d
fn rand_index_matrix(ctx: &mut Ctx, n: usize, maxd: i64) -> IM {
    let mut l = vec![vec![BigInt::zero(); n]; n];
    for i in 0..n {
        for j in 0..i {
            l[i][j] = ctx.rng.small(3);
        }
        l[i][i] = BigInt::from(if ctx.rng.chance(1, 2) { 1 } else { ctx.rng.range(1, maxd) });
    }
    let u = rand_unimodular(ctx, n);
    let mut m = vec![vec![BigInt::zero(); n]; n];
    for i in 0..n {
        for j in 0..n {
            for k in 0..n {
                let v = &u[i][k] * &l[k][j];
                m[i][j] += v;
            }
        }
    }
    m
}
fn mul_iq(m: &IM, a: &QM) -> QM {
    let n = a.len();
    let w = a[0].len();
    (0..m.len())
        .map(|i| {
            (0..w)
                .map(|j| {
                    let mut s = BigRational::zero();
                    for k in 0..n {
                        s += BigRational::from(m[i][k].clone()) * &a[k][j];
                    }
                    s
                })
                .collect()
        })
        .collect()
}

fn lattice_cases(ctx: &mut Ctx, a: &QM) {
    let n = a.len();
    do_frombasis(ctx, a);
    // same module, other basis
    let u = rand_unimodular(ctx, n);
    let a2 = mul_iq(&u, a);
    do_same(ctx, a, &a2);
    do_frombasis(ctx, &a2);
    // the stored form is a fixed point
    if let Some(s) = stored(a) {
        do_frombasis(ctx, &s);
        do_same(ctx, a, &s);
    }
    // chain A > B > C with prescribed indices, in other bases
    let m1 = rand_index_matrix(ctx, n, 5);
    let b = mul_iq(&m1, a);
    let m2 = rand_index_matrix(ctx, n, 4);
    let c = mul_iq(&m2, &b);
    do_index(ctx, a, &b);
    do_index(ctx, &a2, &b);
    do_chain(ctx, a, &b, &c);
    do_same(ctx, a, &b); // equal only when the index is 1
    do_index(ctx, &b, a); // wrong way round: 1 / index
    do_absorb(ctx, a, &b);
    do_absorb(ctx, &a2, &c);
    do_union(ctx, a, &b);
    // two sub-lattices of A: their sum sits between them and A
    let m3 = rand_index_matrix(ctx, n, 6);
    let b2 = mul_iq(&m3, a);
    do_union(ctx, &b, &b2);
    do_union(ctx, &b2, &b);
    do_unionlaws(ctx, &b, &b2);
    do_union(ctx, &b2, &c);
}

/// orders of the field of f: (bigger, smaller) pairs and single lattices
fn field_cases(ctx: &mut Ctx, f: &[BigInt], with_max: bool) {
    let n = f.len() - 1;
    let th = theta(f);
    let monic = f[n].is_one();
    do_trivial(ctx, f);
    do_nonmonic(ctx, f);
    do_singlygen(ctx, f, &[rat(0), rat(1)]);
    if monic {
        do_sgdisc(ctx, f);
    } else if ctx.rng.chance(1, 3) {
        do_sgdisc(ctx, f);
    }
    let start = match catch_unwind(AssertUnwindSafe(|| non_monic_initial_order(&th).basis())) {
        Ok(s) => s,
        Err(_) => return,
    };
    do_disc(ctx, &start, f);
    let m = ctx.rng.range(2, 5);
    let sub = conductor_suborder(&start, m);
    do_disc(ctx, &sub, f);
    do_discindex(ctx, &start, &sub, f);
    let m2 = ctx.rng.range(2, 3);
    let sub2 = conductor_suborder(&sub, m2);
    do_chain(ctx, &start, &sub, &sub2);
    do_union(ctx, &sub, &sub2);
    if monic {
        // Z[c theta] inside Z[theta]
        let c = ctx.rng.range(2, 4);
        do_singlygen(ctx, f, &[rat(0), rat(c)]);
        if let Ok(sg) = catch_unwind(AssertUnwindSafe(|| Order::singly_gen(&alg(f, &[rat(0), rat(c)])).basis())) {
            do_discindex(ctx, &start, &sg, f);
        }
    }
    // Z[alpha] for a random element
    let alpha = rand_elem(ctx, n, 3);
    do_singlygen(ctx, f, &alpha);
    let ialpha: Vec<BigRational> = alpha.iter().map(|x| BigRational::from(x.numer().clone())).collect();
    do_singlygen(ctx, f, &pq(&ialpha).dat);
    // a lattice of the field that is not an order: the discriminant need not be integral
    let latt: QM = rand_basis(ctx, n, 4);
    do_disc(ctx, &latt, f);
    let mi = rand_index_matrix(ctx, n, 4);
    do_discindex(ctx, &latt, &mul_iq(&mi, &latt), f);
    if with_max {
        if let Ok(maxo) = catch_unwind(AssertUnwindSafe(|| find_integral_basis(&th).basis())) {
            do_frombasis(ctx, &maxo);
            do_disc(ctx, &maxo, f);
            do_discindex(ctx, &maxo, &start, f);
            do_discindex(ctx, &maxo, &sub, f);
            do_chain(ctx, &maxo, &start, &sub);
            do_absorb(ctx, &maxo, &start);
            do_union(ctx, &start, &maxo);
        }
    }
}

pub fn generate(ctx: &mut Ctx) {
    // ---- exhaustive small: 2 x 2 bases with entries in {-1, 0, 1, 1/2}
    let vals = [rat(-1), rat(0), rat(1), BigRational::new(BigInt::from(1), BigInt::from(2))];
    for code in 0..256usize {
        let b: QM = vec![
            vec![vals[code & 3].clone(), vals[(code >> 2) & 3].clone()],
            vec![vals[(code >> 4) & 3].clone(), vals[(code >> 6) & 3].clone()],
        ];
        do_frombasis(ctx, &b);
        if code % 5 == 0 {
            let e = identity_q(2);
            do_union(ctx, &b, &e);
            do_index(ctx, &b, &e);
        }
    }
    // ---- random lattices
    let cnt = ctx.pick(300, 4000);
    for i in 0..cnt {
        let n = 1 + ctx.rng.below(6) as usize;
        let bits = if n <= 3 { [3u64, 12, 40][ctx.rng.below(3) as usize] } else { [3u64, 10, 20][ctx.rng.below(3) as usize] };
        let a = rand_basis(ctx, n, bits);
        lattice_cases(ctx, &a);
        if i % 4 == 0 {
            // unrelated lattices: index is just the quotient of determinants (or an explicit panic)
            let b = rand_basis_any(ctx, n, 3);
            do_index(ctx, &a, &b);
            do_union(ctx, &a, &b);
            do_unionlaws(ctx, &a, &b);
            do_same(ctx, &a, &b);
        }
        if i % 6 == 0 {
            // singular "basis": a repeated row / a zero row
            let mut s = a.clone();
            if n >= 2 {
                s[n - 1] = s[0].clone();
            } else {
                s[0][0] = BigRational::zero();
            }
            do_frombasis(ctx, &s);
            do_index(ctx, &a, &s);
            do_union(ctx, &a, &s);
        }
    }
    // ---- orders of number fields
    let cnt = ctx.pick(220, 3000);
    for i in 0..cnt {
        let n = 2 + ctx.rng.below(if i % 3 == 0 { 5 } else { 3 }) as usize;
        let monic = ctx.rng.chance(1, 2);
        let fbits = if n <= 3 { [3u64, 10, 30][ctx.rng.below(3) as usize] } else { [3u64, 8][ctx.rng.below(2) as usize] };
        let scaled = n <= 4 && i % 4 == 1;
        let f = if scaled { rand_scaled(ctx, n) } else { rand_f(ctx, n, fbits, monic) };
        let with_max = scaled || (n <= 4 && fbits <= 3 && i % 2 == 0);
        field_cases(ctx, &f, with_max);
    }
    // ---- fixed examples of the repository's tests
    {
        let f: Vec<BigInt> = [37, -2, 1].iter().map(|x| BigInt::from(*x)).collect();
        let half = BigRational::new(BigInt::from(1), BigInt::from(2));
        let third = BigRational::new(BigInt::from(1), BigInt::from(3));
        let o = identity_q(2);
        let o1: QM = vec![vec![rat(1), rat(0)], vec![half.clone(), half.clone()]];
        let o2: QM = vec![vec![rat(1), rat(0)], vec![&third * &rat(2), third.clone()]];
        do_index(ctx, &o1, &o);
        do_index(ctx, &o2, &o);
        do_union(ctx, &o1, &o2);
        do_unionlaws(ctx, &o1, &o2);
        for b in [&o, &o1, &o2] {
            do_disc(ctx, b, &f);
        }
        do_discindex(ctx, &o1, &o, &f);
        let f5: Vec<BigInt> = [5, 6, -7, 6, -7, 6].iter().map(|x| BigInt::from(*x)).collect();
        field_cases(ctx, &f5, false);
    }
    // ---- edge cases
    {
        let empty: QM = vec![];
        let one: QM = vec![vec![rat(1)]];
        let e2 = identity_q(2);
        let e3 = identity_q(3);
        do_frombasis(ctx, &empty);
        do_frombasis(ctx, &vec![vec![rat(0)]]);
        do_frombasis(ctx, &vec![vec![rat(-3)]]);
        do_frombasis(ctx, &vec![vec![rat(1), rat(2), rat(5)], vec![rat(3), rat(4), BigRational::new(BigInt::from(1), BigInt::from(7))]]); // rows longer than the dimension
        do_frombasis(ctx, &vec![vec![rat(1), rat(2)], vec![rat(3)]]); // ragged
        do_union(ctx, &empty, &one);
        do_union(ctx, &one, &empty);
        do_union(ctx, &empty, &empty);
        do_union(ctx, &e2, &e3);
        do_index(ctx, &e2, &e3);
        do_index(ctx, &empty, &empty);
        do_same(ctx, &e2, &e3);
        // degree 1, constant and zero minimal polynomial
        let lin = vec![BigInt::from(-3), BigInt::from(1)];
        let lin2 = vec![BigInt::from(-3), BigInt::from(2)];
        let cst = vec![BigInt::from(5)];
        let zero_f: Vec<BigInt> = vec![];
        for f in [&lin, &lin2, &cst, &zero_f] {
            do_trivial(ctx, f);
            do_nonmonic(ctx, f);
            do_singlygen(ctx, f, &[rat(0), rat(1)]);
            do_singlygen(ctx, f, &[rat(2)]);
            do_sgdisc(ctx, f);
            do_disc(ctx, &one, f);
            do_disc(ctx, &empty, f);
        }
        do_disc(ctx, &e2, &lin); // dimension differs from the degree
    }
}
