//! C16: ideal arithmetic in the maximal order (ideal.rs, `MultTable::get_inv_diff`).
//! Also hosts what C17 shares: the number fields, table/ideal (de)serialisation.
//!
//! The HNF of an `Ideal` is a private field without accessor; it is read from the (public, derived)
//! `Debug` rendering and every extraction is confirmed through `Ideal::new(HNF::new(rows)) == ideal`.
use crate::common::*;
use num::{BigInt, One, Signed, Zero};
use number_theory_linear::hnf::HNF;
use rust_number_theory::algebraic::Algebraic;
use rust_number_theory::ideal::Ideal;
use rust_number_theory::integral_basis::find_integral_basis;
use rust_number_theory::mult_table::MultTable;
use rust_number_theory::order::Order;
use rust_number_theory::polynomial::Polynomial;
use rust_number_theory::prime_decomp::decompose;
use std::panic::{catch_unwind, AssertUnwindSafe};

pub type Rows = Vec<Vec<BigInt>>;

/// a multiplication table together with its wire form (blocks `T[i]` separated by `|`)
pub struct Tab {
    pub mt: MultTable,
    pub s: String,
}
impl Tab {
    pub fn from_table(mt: MultTable) -> Tab {
        let n = mt.deg();
        let unit = |i: usize| {
            let mut v = vec![BigInt::zero(); n];
            v[i] = BigInt::one();
            v
        };
        // table[i][j] = w_i * w_j
        let blocks: Vec<String> = (0..n)
            .map(|i| show_mat(&(0..n).map(|j| mt.mul(&unit(i), &unit(j))).collect::<Vec<_>>()))
            .collect();
        let s = if blocks.is_empty() { "_".to_string() } else { blocks.join("|") };
        Tab { mt, s }
    }
    pub fn parse(s: &str) -> Tab {
        let table: Vec<Rows> = if s == "_" || s.is_empty() { vec![] } else { s.split('|').map(parse_mat).collect() };
        Tab { mt: MultTable::new(table), s: s.to_string() }
    }
}

/// rows of the HNF of an ideal (from its `Debug` form), confirmed by reconstruction
pub fn ideal_rows(i: &Ideal) -> Rows {
    let s = format!("{:?}", i);
    let a = s.find("HNF(").expect("debug form of Ideal") + 4;
    let rest = &s[a..];
    let b = rest.find(')').expect("debug form of Ideal");
    let body = rest[..b].trim();
    let inner = body.strip_prefix('[').and_then(|x| x.strip_suffix(']')).expect("debug form of HNF").trim();
    let rows: Rows = if inner.is_empty() {
        vec![]
    } else {
        inner
            .split("], [")
            .map(|r| {
                r.trim_matches(|c| c == '[' || c == ']')
                    .split(", ")
                    .filter(|x| !x.is_empty())
                    .map(|x| x.parse::<BigInt>().expect("entry of HNF"))
                    .collect()
            })
            .collect()
    };
    assert!(HNF::new(&rows).as_vecs() == rows, "harness: HNF read back from Debug is not normal");
    rows
}
pub fn mk_ideal<'a>(rows: &Rows, t: &'a Tab) -> Ideal<'a> {
    Ideal::new(HNF::new(rows), &t.mt)
}
fn show_ideal(i: &Ideal) -> String {
    show_mat(&ideal_rows(i))
}

/// a number field Q(theta), its maximal order as computed by the library, and the table
pub struct Field {
    pub f: Vec<BigInt>,
    pub theta: Algebraic,
    pub order: Order,
    pub tab: Tab,
}
pub fn make_field(f: &[BigInt]) -> Option<Field> {
    let theta = Algebraic::new(Polynomial::from_raw(f.to_vec()));
    let r = catch_unwind(AssertUnwindSafe(|| {
        let order = find_integral_basis(&theta);
        let mt = order.get_mult_table(&theta);
        (order, mt)
    }));
    match r {
        Ok((order, mt)) => Some(Field { f: f.to_vec(), theta, order, tab: Tab::from_table(mt) }),
        Err(_) => None,
    }
}
pub fn field_from_wire(f: &[BigInt], b: &str, t: &str) -> Field {
    let theta = Algebraic::new(Polynomial::from_raw(f.to_vec()));
    let order = Order::from_basis(&parse_ratmat(b));
    Field { f: f.to_vec(), theta, order, tab: Tab::parse(t) }
}
pub fn ints(v: &[i64]) -> Vec<BigInt> {
    v.iter().map(|&c| BigInt::from(c)).collect()
}
fn is_square(d: i64) -> bool {
    let r = (d as f64).sqrt().round() as i64;
    (r - 1..=r + 1).any(|x| x * x == d)
}
fn is_cube(d: i64) -> bool {
    let r = (d.abs() as f64).cbrt().round() as i64;
    (r - 1..=r + 1).any(|x| x * x * x == d.abs())
}
/// remainder of a by the monic b over F_p (coefficient vectors, low degree first)
fn rem_mod_p(a: &[i64], b: &[i64], p: i64) -> Vec<i64> {
    let mut r: Vec<i64> = a.iter().map(|x| x.rem_euclid(p)).collect();
    let db = b.len() - 1;
    while r.len() > db {
        let c = *r.last().unwrap();
        let off = r.len() - 1 - db;
        for (k, bk) in b.iter().enumerate() {
            r[off + k] = (r[off + k] - c * bk).rem_euclid(p);
        }
        r.pop();
    }
    r
}
/// monic f of degree ≤ 5 with no monic divisor of degree 1..deg/2 over F_p
fn irreducible_mod(f: &[i64], p: i64) -> bool {
    let n = f.len() - 1;
    for d in 1..=n / 2 {
        let count = p.pow(d as u32);
        for code in 0..count {
            let mut g: Vec<i64> = vec![];
            let mut x = code;
            for _ in 0..d {
                g.push(x % p);
                x /= p;
            }
            g.push(1);
            if rem_mod_p(f, &g, p).iter().all(|&c| c == 0) {
                return false;
            }
        }
    }
    true
}
/// irreducible modulo 2, 3, 5 or 7, hence irreducible over Q
fn irreducible_mod_some_prime(f: &[i64]) -> bool {
    [2i64, 3, 5, 7].iter().any(|&p| irreducible_mod(f, p))
}
/// the library factors the discriminant by trial division: keep it below 10^13
fn small_discriminant(f: &[i64]) -> bool {
    let poly = Polynomial::from_raw(ints(f));
    match catch_unwind(AssertUnwindSafe(|| rust_number_theory::discriminant::discriminant(&poly))) {
        Ok(d) => d.abs() < BigInt::from(10_000_000_000_000i64),
        Err(_) => false,
    }
}
/// the monic irreducible polynomials (low degree first) the fields are taken from:
/// x^2 ± d (d not a square, some with even index: d ≡ 3 mod 4 for x^2 + d, x^2 + 3k^2, x^2 − 5),
/// pure cubics x^3 − d (d not a cube; d ≡ ±1 mod 9 and d with square factors have index > 1),
/// fixed quartics and quintics (x^4+1 = Φ_8, x^4−x−1 and x^3−x−1, x^3+x^2−2x−1 irreducible mod 2,
/// x^5−x−1 irreducible mod 5, the others Eisenstein), and random monic polynomials of degree 3, 4, 5 irreducible modulo a prime
pub fn fields(ctx: &mut Ctx, nquad: usize, ncub: usize, nrand: usize) -> Vec<Vec<BigInt>> {
    let mut out: Vec<Vec<BigInt>> = vec![];
    let quad_fixed: [i64; 14] = [1, 5, -5, 3, 12, 27, -2, 7, -13, 23, 147, 75, -3, 363];
    for &d in quad_fixed.iter().take(nquad.min(14)) {
        out.push(ints(&[d, 0, 1]));
    }
    let mut extra = nquad.saturating_sub(14);
    while extra > 0 {
        let d = ctx.rng.range(-200, 200);
        if d != 0 && !is_square(-d) {
            out.push(ints(&[d, 0, 1]));
            extra -= 1;
        }
    }
    let cub_fixed: [i64; 14] = [2, 3, 10, 19, 17, -19, 12, 25, 49, 5, 45, 6, 28, 26];
    for &d in cub_fixed.iter().take(ncub.min(14)) {
        out.push(ints(&[-d, 0, 0, 1]));
    }
    let mut extra = ncub.saturating_sub(14);
    while extra > 0 {
        let d = ctx.rng.range(-60, 60);
        if d != 0 && !is_cube(d) {
            out.push(ints(&[-d, 0, 0, 1]));
            extra -= 1;
        }
    }
    for v in [
        vec![1, 0, 0, 0, 1],
        vec![-1, -1, 0, 0, 1],
        vec![-2, 0, 0, 0, 1],
        vec![-1, -1, 0, 0, 0, 1],
        vec![-1, -1, 0, 1],
        vec![-1, -2, 1, 1],
        vec![3, 0, 0, 0, 1],
        vec![-5, 0, 0, 0, 1],
        vec![-2, 0, 0, 0, 0, 1],
        vec![5, 5, 0, 0, 0, 1],
        vec![12, 0, 0, 0, 1],
    ] {
        out.push(ints(&v));
    }
    let mut left = nrand;
    let mut round = 0;
    while left > 0 {
        // degrees 3, 3, 4, 5, 3, 3, 4, 5, …
        let deg = [3usize, 3, 4, 5][round % 4];
        let mut c: Vec<i64> = (0..deg).map(|_| ctx.rng.range(-4, 4)).collect();
        c.push(1);
        if irreducible_mod_some_prime(&c) && small_discriminant(&c) {
            out.push(ints(&c));
            left -= 1;
            round += 1;
        }
    }
    out
}

// ---------------------------------------------------------------- running the implementation

fn do_principal(ctx: &mut Ctx, t: &Tab, x: &[BigInt]) {
    let ans = run(|| {
        let i = Ideal::principal(x, &t.mt);
        format!("{}|{}", show_ideal(&i), i.norm())
    });
    ctx.emit("id.principal", &[t.s.clone(), show_ints(x)], ans);
}
fn do_add(ctx: &mut Ctx, t: &Tab, i: &Rows, j: &Rows) {
    let ans = run(|| show_ideal(&(&mk_ideal(i, t) + &mk_ideal(j, t))));
    ctx.emit("id.add", &[t.s.clone(), show_mat(i), show_mat(j)], ans);
}
fn do_mul(ctx: &mut Ctx, t: &Tab, i: &Rows, j: &Rows) {
    let ans = run(|| {
        let (a, b) = (mk_ideal(i, t), mk_ideal(j, t));
        let p = &a * &b;
        format!("{}|{}|{}|{}", show_ideal(&p), p.norm(), a.norm(), b.norm())
    });
    ctx.emit("id.mul", &[t.s.clone(), show_mat(i), show_mat(j)], ans);
}
fn do_norm(ctx: &mut Ctx, t: &Tab, i: &Rows) {
    let ans = run(|| mk_ideal(i, t).norm().to_string());
    ctx.emit("id.norm", &[t.s.clone(), show_mat(i)], ans);
}
fn do_capz(ctx: &mut Ctx, t: &Tab, i: &Rows) {
    let ans = run(|| mk_ideal(i, t).cap_z().to_string());
    ctx.emit("id.capz", &[t.s.clone(), show_mat(i)], ans);
}
fn do_contains(ctx: &mut Ctx, t: &Tab, i: &Rows, x: &[BigInt]) {
    let ans = run(|| if mk_ideal(i, t).contains(x) { "1".into() } else { "0".into() });
    ctx.emit("id.contains", &[t.s.clone(), show_mat(i), show_ints(x)], ans);
}
fn do_inv(ctx: &mut Ctx, t: &Tab, i: &Rows) {
    let ans = run(|| {
        let dd = t.mt.get_inv_diff();
        let r = mk_ideal(i, t).inv(&dd);
        format!("{}|{}", r.denom(), show_ideal(r.numer()))
    });
    ctx.emit("id.inv", &[t.s.clone(), show_mat(i)], ans);
}
fn do_invdiff(ctx: &mut Ctx, t: &Tab, disc: &BigInt) {
    let ans = run(|| {
        let dd = t.mt.get_inv_diff();
        format!("{}|{}", dd.denom(), show_ideal(dd.numer()))
    });
    ctx.emit("id.invdiff", &[t.s.clone(), disc.to_string()], ans);
}
fn do_laws(ctx: &mut Ctx, t: &Tab, i: &Rows, j: &Rows, k: &Rows) {
    let ans = run(|| {
        let (a, b, c) = (mk_ideal(i, t), mk_ideal(j, t), mk_ideal(k, t));
        let flag = |x: bool| if x { "1" } else { "0" };
        let ab = &a * &b;
        let bc = &b * &c;
        let bpc = &b + &c;
        let apb = &a + &b;
        [
            flag(ab == &b * &a),
            flag(&ab * &c == &a * &bc),
            flag(&a * &bpc == &ab + &(&a * &c)),
            flag(apb == &b + &a),
            flag(&apb + &c == &a + &bpc),
        ]
        .join(",")
    });
    ctx.emit("id.laws", &[t.s.clone(), show_mat(i), show_mat(j), show_mat(k)], ans);
}

pub fn replay(ctx: &mut Ctx, f: &[&str]) -> bool {
    match (f[0], f.len()) {
        ("id.principal", 3) => do_principal(ctx, &Tab::parse(f[1]), &parse_ints(f[2])),
        ("id.add", 4) => do_add(ctx, &Tab::parse(f[1]), &parse_mat(f[2]), &parse_mat(f[3])),
        ("id.mul", 4) => do_mul(ctx, &Tab::parse(f[1]), &parse_mat(f[2]), &parse_mat(f[3])),
        ("id.norm", 3) => do_norm(ctx, &Tab::parse(f[1]), &parse_mat(f[2])),
        ("id.capz", 3) => do_capz(ctx, &Tab::parse(f[1]), &parse_mat(f[2])),
        ("id.contains", 4) => do_contains(ctx, &Tab::parse(f[1]), &parse_mat(f[2]), &parse_ints(f[3])),
        ("id.inv", 3) => do_inv(ctx, &Tab::parse(f[1]), &parse_mat(f[2])),
        ("id.invdiff", 3) => do_invdiff(ctx, &Tab::parse(f[1]), &parse_int(f[2])),
        ("id.laws", 5) => do_laws(ctx, &Tab::parse(f[1]), &parse_mat(f[2]), &parse_mat(f[3]), &parse_mat(f[4])),
        _ => return false,
    }
    true
}

// ---------------------------------------------------------------- generators

/// random element: mostly small coordinates, sometimes sparse, sometimes large
fn rand_elem(ctx: &mut Ctx, n: usize) -> Vec<BigInt> {
    loop {
        let style = ctx.rng.below(10);
        let v: Vec<BigInt> = (0..n)
            .map(|_| match style {
                0..=4 => BigInt::from(ctx.rng.range(-4, 4)),
                5..=6 => BigInt::from(ctx.rng.range(-30, 30)),
                7 => {
                    if ctx.rng.chance(1, 2) {
                        BigInt::zero()
                    } else {
                        BigInt::from(ctx.rng.range(-9, 9))
                    }
                }
                8 => BigInt::from(ctx.rng.range(-100000, 100000)),
                _ => ctx.rng.int(45),
            })
            .collect();
        if v.iter().any(|c| !c.is_zero()) {
            return v;
        }
    }
}
fn rows_of<F: FnOnce() -> Rows>(f: F) -> Option<Rows> {
    catch_unwind(AssertUnwindSafe(f)).ok()
}
fn comb(ctx: &mut Ctx, rows: &Rows, n: usize) -> Vec<BigInt> {
    let mut v = vec![BigInt::zero(); n];
    for r in rows {
        let c = BigInt::from(ctx.rng.range(-3, 3));
        for (a, b) in v.iter_mut().zip(r) {
            *a += &c * b;
        }
    }
    v
}

fn one_field(ctx: &mut Ctx, fld: &Field, pool_size: usize, ntriples: usize) {
    let t = &fld.tab;
    let n = t.mt.deg();
    let disc = catch_unwind(AssertUnwindSafe(|| fld.order.discriminant(&fld.theta))).unwrap_or_else(|_| BigInt::zero());
    do_invdiff(ctx, t, &disc);
    // elements and the ideals generated by 1..3 of them
    let elems: Vec<Vec<BigInt>> = (0..4).map(|_| rand_elem(ctx, n)).collect();
    let mut pool: Vec<Rows> = vec![];
    let push = |pool: &mut Vec<Rows>, r: Option<Rows>| {
        if let Some(r) = r {
            if !r.is_empty() && !pool.contains(&r) {
                pool.push(r);
            }
        }
    };
    for x in &elems {
        do_principal(ctx, t, x);
    }
    let pr = |x: &[BigInt]| rows_of(|| ideal_rows(&Ideal::principal(x, &t.mt)));
    let sum = |a: &Rows, b: &Rows| rows_of(|| ideal_rows(&(&mk_ideal(a, t) + &mk_ideal(b, t))));
    let prod = |a: &Rows, b: &Rows| rows_of(|| ideal_rows(&(&mk_ideal(a, t) * &mk_ideal(b, t))));
    let gens: Vec<Rows> = elems.iter().filter_map(|x| pr(x)).collect();
    // prime ideals above small primes not dividing the index
    let mut primes: Vec<Rows> = vec![];
    for p in [2u32, 3, 5, 7, 11, 13] {
        let pb = BigInt::from(p);
        if let Ok(l) = catch_unwind(AssertUnwindSafe(|| {
            decompose(&fld.theta, &fld.order, &t.mt, &pb).iter().map(|(i, _)| ideal_rows(i)).collect::<Vec<_>>()
        })) {
            primes.extend(l);
        }
    }
    if gens.len() >= 3 {
        push(&mut pool, Some(gens[0].clone()));
        push(&mut pool, sum(&gens[0], &gens[1]));
        push(&mut pool, sum(&gens[1], &gens[2]).and_then(|s| sum(&s, &gens[3 % gens.len()])));
    }
    for _ in 0..3 {
        if !primes.is_empty() {
            let q = primes[ctx.rng.below(primes.len() as u64) as usize].clone();
            push(&mut pool, Some(q));
        }
    }
    if !primes.is_empty() {
        let q = primes[ctx.rng.below(primes.len() as u64) as usize].clone();
        let q2 = prod(&q, &q);
        if ctx.rng.chance(1, 2) {
            push(&mut pool, q2.as_ref().and_then(|s| prod(s, &q)));
        } else {
            push(&mut pool, q2);
        }
        let r = primes[ctx.rng.below(primes.len() as u64) as usize].clone();
        push(&mut pool, prod(&q, &r));
    }
    // integers and the unit ideal
    let mut m = vec![BigInt::zero(); n];
    m[0] = BigInt::from(ctx.rng.range(2, 12));
    push(&mut pool, pr(&m));
    m[0] = BigInt::one();
    push(&mut pool, pr(&m));
    while pool.len() < pool_size && gens.len() >= 2 {
        let x = rand_elem(ctx, n);
        do_principal(ctx, t, &x);
        let a = pr(&x);
        let b = gens[ctx.rng.below(gens.len() as u64) as usize].clone();
        let before = pool.len();
        if ctx.rng.chance(1, 2) {
            push(&mut pool, a.as_ref().and_then(|a| sum(a, &b)));
        } else {
            push(&mut pool, a);
        }
        if pool.len() == before && ctx.rng.chance(1, 4) {
            break;
        }
    }
    pool.truncate(pool_size.max(4));
    // one ideal at a time
    for i in &pool {
        do_norm(ctx, t, i);
        do_capz(ctx, t, i);
        do_inv(ctx, t, i);
        // members: combinations of the basis, a basis vector, the integer generator and a proper divisor of it
        let x = comb(ctx, i, n);
        do_contains(ctx, t, i, &x);
        let r = i[ctx.rng.below(i.len() as u64) as usize].clone();
        do_contains(ctx, t, i, &r);
        let mut z = vec![BigInt::zero(); n];
        z[0] = i[0][0].clone();
        do_contains(ctx, t, i, &z);
        for q in [2u32, 3, 5, 7] {
            if (&i[0][0] % BigInt::from(q)).is_zero() && i[0][0].abs() > BigInt::from(q) {
                z[0] = &i[0][0] / BigInt::from(q);
                do_contains(ctx, t, i, &z);
                break;
            }
        }
        // a member plus a unit vector, random elements, the generators
        let mut y = comb(ctx, i, n);
        let k = ctx.rng.below(n as u64) as usize;
        y[k] += 1;
        do_contains(ctx, t, i, &y);
        let x = rand_elem(ctx, n);
        do_contains(ctx, t, i, &x);
        let e = elems[ctx.rng.below(elems.len() as u64) as usize].clone();
        do_contains(ctx, t, i, &e);
    }
    // all pairs (random orientation, the diagonal included), some triples
    for a in 0..pool.len() {
        for b in a..pool.len() {
            let (i, j) = if ctx.rng.chance(1, 2) { (&pool[a], &pool[b]) } else { (&pool[b], &pool[a]) };
            do_add(ctx, t, i, j);
            do_mul(ctx, t, i, j);
        }
    }
    for _ in 0..ntriples {
        let pick = |ctx: &mut Ctx| ctx.rng.below(pool.len() as u64) as usize;
        let (a, b, c) = (pick(ctx), pick(ctx), pick(ctx));
        do_laws(ctx, t, &pool[a], &pool[b], &pool[c]);
    }
}

/// Many small fields, few operations each: the inverse different (its common denominator needs a field
/// whose inverse trace matrix has incomparable denominators — about one small cubic in forty), the
/// inverse of ideals above the small primes (ramified and index primes included), and membership of
/// elements that are members by construction (generator, generator·w_j, combinations of the basis) in
/// principal ideals and ideals (p, x) — orders with a non-power integral basis are the interesting ones.
fn sweep_field(ctx: &mut Ctx, fld: &Field, rounds: usize) {
    let t = &fld.tab;
    let n = t.mt.deg();
    let disc = catch_unwind(AssertUnwindSafe(|| fld.order.discriminant(&fld.theta))).unwrap_or_else(|_| BigInt::zero());
    do_invdiff(ctx, t, &disc);
    let pr = |x: &[BigInt]| rows_of(|| ideal_rows(&Ideal::principal(x, &t.mt)));
    let sum = |a: &Rows, b: &Rows| rows_of(|| ideal_rows(&(&mk_ideal(a, t) + &mk_ideal(b, t))));
    for round in 0..rounds {
        let x: Vec<BigInt> = (0..n).map(|_| BigInt::from(ctx.rng.range(-5, 5))).collect();
        if x.iter().all(|c| c.is_zero()) {
            continue;
        }
        let px = match pr(&x) {
            Some(r) if !r.is_empty() => r,
            _ => continue,
        };
        let ideal = if round % 2 == 0 {
            px
        } else {
            let mut m = vec![BigInt::zero(); n];
            m[0] = BigInt::from([2u32, 3, 5, 2, 7, 4][ctx.rng.below(6) as usize]);
            match pr(&m).and_then(|pm| sum(&pm, &px)) {
                Some(r) if !r.is_empty() => r,
                _ => continue,
            }
        };
        // members by construction
        do_contains(ctx, t, &ideal, &x);
        let j = ctx.rng.below(n as u64) as usize;
        let mut w = vec![BigInt::zero(); n];
        w[j] = BigInt::one();
        if let Ok(xw) = catch_unwind(AssertUnwindSafe(|| t.mt.mul(&x, &w))) {
            do_contains(ctx, t, &ideal, &xw);
        }
        let c = comb(ctx, &ideal, n);
        do_contains(ctx, t, &ideal, &c);
        if round % 3 == 0 {
            do_inv(ctx, t, &ideal);
            do_capz(ctx, t, &ideal);
            do_norm(ctx, t, &ideal);
        }
    }
}

pub fn generate(ctx: &mut Ctx) {
    // fields with a non-power integral basis (Dedekind's cubic and relatives: 2 divides the index for
    // every generator) and one whose inverse trace matrix has denominators 4, 5, 10
    for v in [vec![-8i64, -2, -1, 1], vec![8, -2, 1, 1], vec![-4, -2, -2, 1], vec![-12, 1, 1, 1], vec![10, -7, 0, 1]] {
        if let Some(fld) = make_field(&ints(&v)) {
            sweep_field(ctx, &fld, ctx.pick(60, 400));
        }
    }
    let mut left = ctx.pick(90, 900);
    let mut tries = 0;
    while left > 0 && tries < 100000 {
        tries += 1;
        let deg = if ctx.rng.chance(1, 5) { 4 } else { 3 };
        let mut c: Vec<i64> = (0..deg).map(|_| ctx.rng.range(-6, 6)).collect();
        c.push(1);
        if irreducible_mod_some_prime(&c) && small_discriminant(&c) {
            if let Some(fld) = make_field(&ints(&c)) {
                sweep_field(ctx, &fld, 4);
            }
            left -= 1;
        }
    }
    let (nq, nc, nr) = (ctx.pick(12, 60), ctx.pick(10, 40), ctx.pick(8, 120));
    let list = fields(ctx, nq, nc, nr);
    let (pool_size, ntriples) = (ctx.pick(9, 14), ctx.pick(12, 60));
    for f in &list {
        match make_field(f) {
            Some(fld) => one_field(ctx, &fld, pool_size, ntriples),
            None => eprintln!("ntvh: maximal order of {} not computed (panic)", show_ints(f)),
        }
    }
    // outside the property (model correspondence only): zero element, zero ideal, wrong length
    if let Some(fld) = make_field(&ints(&[5, 0, 1])) {
        let t = &fld.tab;
        do_principal(ctx, t, &ints(&[0, 0]));
        do_principal(ctx, t, &ints(&[1, 2, 3]));
        let zero: Rows = vec![];
        let two: Rows = vec![ints(&[2, 0]), ints(&[1, 1])];
        do_add(ctx, t, &zero, &two);
        do_mul(ctx, t, &zero, &two);
        do_norm(ctx, t, &zero);
        do_capz(ctx, t, &zero);
        do_inv(ctx, t, &zero);
        do_contains(ctx, t, &two, &ints(&[0, 0]));
        do_contains(ctx, t, &zero, &ints(&[0, 0]));
        do_contains(ctx, t, &zero, &ints(&[1, 0]));
        // the library's own test: x = (2, 1 + sqrt(-5)) is its own inverse numerator with denominator 2
        do_inv(ctx, t, &two);
        do_mul(ctx, t, &two, &two);
    }
}
