//! C10: gcd in Z[x] (`resultant::resultant_gcd`).
use crate::c04::{nonzero, pair, pmul, poly_deg, pick_bits, pscale, small_polys, KINDS};
use crate::c09::{pz, show_pz};
use crate::common::*;
use num::BigInt;
use rust_number_theory::resultant::resultant_gcd;

fn do_gcd(ctx: &mut Ctx, f: &[BigInt], g: &[BigInt]) {
    let (pf, pg) = (pz(f), pz(g));
    let ans = run(|| show_pz(&resultant_gcd(&pf, &pg)));
    ctx.emit("gcd", &[show_pz(&pf), show_pz(&pg)], ans);
}

pub fn replay(ctx: &mut Ctx, f: &[&str]) -> bool {
    match (f[0], f.len()) {
        ("gcd", 3) => do_gcd(ctx, &parse_ints(f[1]), &parse_ints(f[2])),
        _ => return false,
    }
    true
}

pub fn generate(ctx: &mut Ctx) {
    // exhaustive small pairs (zero and constants included)
    let small = if ctx.thorough { small_polys(4, 2) } else { small_polys(3, 2) };
    for f in &small {
        for g in &small {
            do_gcd(ctx, f, g);
        }
    }
    if !ctx.thorough {
        let s4 = small_polys(4, 1);
        for f in &s4 {
            for g in &s4 {
                if f.len() == 4 || g.len() == 4 {
                    do_gcd(ctx, f, g);
                }
            }
        }
    }
    // structured random pairs
    let n = ctx.pick(5000, 60000);
    for i in 0..n {
        let (f, g) = pair(ctx, i as u64 % KINDS);
        do_gcd(ctx, &f, &g);
        if i % 3 == 0 {
            do_gcd(ctx, &g, &f);
        }
        // h f1, h g1 with deg h in 0..=6, arbitrary contents and signs
        let bits = pick_bits(ctx).min(32);
        let dh = ctx.rng.below(7) as usize;
        let h = poly_deg(ctx, dh, bits, i % 6 == 0);
        let (d1, d2) = (ctx.rng.below(7) as usize, ctx.rng.below(7) as usize);
        let (f1, g1) = (poly_deg(ctx, d1, bits, false), poly_deg(ctx, d2, bits, i % 4 == 0));
        let (c1, c2) = (nonzero(ctx, 12), nonzero(ctx, 12));
        let (a, b) = (pscale(&pmul(&h, &f1), &c1), pscale(&pmul(&h, &g1), &c2));
        do_gcd(ctx, &a, &b);
        if i % 5 == 0 {
            // gcd with zero, and of a polynomial with itself / its negative
            do_gcd(ctx, &a, &[]);
            do_gcd(ctx, &[], &b);
            do_gcd(ctx, &a, &a);
            do_gcd(ctx, &a, &pscale(&a, &BigInt::from(-1)));
        }
    }
    do_gcd(ctx, &[], &[]);
}
