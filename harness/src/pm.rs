//! Primitives of src/poly_mod/prim.rs (shared by C12, C11, C08): runners, replay, generators and the
//! harness-side helpers (primes, irreducible polynomials, non-residues) used to build valid inputs.
use crate::c09::{pz, show_pz, PZ};
use crate::common::*;
use num::{BigInt, Integer, One, Signed, Zero};
use rust_number_theory::poly_mod::{
    differential, divide_by_x_a, modinv, modpow, poly_coprime_witness, poly_div, poly_divrem, poly_ext_gcd, poly_gcd,
    poly_mod, poly_mod_sub, poly_modpow, poly_mul, poly_of_mod,
};

pub fn big(s: &str) -> BigInt {
    s.parse().unwrap()
}
/// lists of polynomials on the wire: `;`-separated, `_` = empty list
pub fn show_polys(v: &[PZ]) -> String {
    if v.is_empty() {
        return "_".into();
    }
    v.iter().map(show_pz).collect::<Vec<_>>().join(";")
}
pub fn parse_polys(s: &str) -> Vec<PZ> {
    parse_mat(s).iter().map(|r| pz(r)).collect()
}

// ------------------------------------------------------------------------------------ runners

pub fn do_modpow(ctx: &mut Ctx, x: &BigInt, e: &BigInt, m: &BigInt) {
    let ans = run(|| modpow(x, e, m).to_string());
    ctx.emit("pm.modpow", &[x.to_string(), e.to_string(), m.to_string()], ans);
}
pub fn do_modinv(ctx: &mut Ctx, x: &BigInt, p: &BigInt) {
    let ans = run(|| modinv(x, p).to_string());
    ctx.emit("pm.modinv", &[x.to_string(), p.to_string()], ans);
}
/// pm.polymod / pm.polydiv / pm.polymul / pm.diff: polynomial and a scalar
pub fn do_poly_scalar(ctx: &mut Ctx, op: &str, f: &[BigInt], s: &BigInt) {
    let pf = pz(f);
    let ans = run(|| {
        let r = match op {
            "pm.polymod" => poly_mod(&pf, s),
            "pm.polydiv" => poly_div(&pf, s),
            "pm.polymul" => poly_mul(&pf, s),
            "pm.diff" => differential(&pf, s),
            _ => unreachable!(),
        };
        show_pz(&r)
    });
    ctx.emit(op, &[show_pz(&pf), s.to_string()], ans);
}
pub fn do_ofmod(ctx: &mut Ctx, f: &[BigInt], a: &BigInt, p: &BigInt) {
    let pf = pz(f);
    let ans = run(|| poly_of_mod(&pf, a, p).to_string());
    ctx.emit("pm.ofmod", &[show_pz(&pf), a.to_string(), p.to_string()], ans);
}
pub fn do_modsub(ctx: &mut Ctx, a: &[BigInt], b: &[BigInt], p: &BigInt) {
    let (pa, pb) = (pz(a), pz(b));
    let ans = run(|| show_pz(&poly_mod_sub(&pa, &pb, p)));
    ctx.emit("pm.modsub", &[show_pz(&pa), show_pz(&pb), p.to_string()], ans);
}
pub fn do_divrem(ctx: &mut Ctx, a: &[BigInt], b: &[BigInt], p: &BigInt) {
    let (pa, pb) = (pz(a), pz(b));
    let ans = run(|| {
        let (q, r) = poly_divrem::<BigInt>(&pa, &pb, p);
        format!("{} {}", show_pz(&q), show_pz(&r))
    });
    ctx.emit("pm.divrem", &[show_pz(&pa), show_pz(&pb), p.to_string()], ans);
}
/// Euclid in the implementation recurses without bound when a leading coefficient vanishes mod p
/// (or p is composite); such inputs would overflow the stack of the harness and are never run.
fn euclid_safe(a: &PZ, b: &PZ, p: &BigInt) -> bool {
    let ok = |f: &PZ| f.dat.last().map_or(true, |c| !c.mod_floor(p).is_zero());
    p > &BigInt::one() && ok(a) && ok(b)
}
pub fn do_gcd(ctx: &mut Ctx, a: &[BigInt], b: &[BigInt], p: &BigInt) {
    let (pa, pb) = (pz(a), pz(b));
    if !euclid_safe(&pa, &pb, p) {
        return;
    }
    let ans = run(|| show_pz(&poly_gcd::<BigInt>(&pa, &pb, p)));
    ctx.emit("pm.gcd", &[show_pz(&pa), show_pz(&pb), p.to_string()], ans);
}
pub fn do_extgcd(ctx: &mut Ctx, a: &[BigInt], b: &[BigInt], p: &BigInt) {
    let (pa, pb) = (pz(a), pz(b));
    if !euclid_safe(&pa, &pb, p) {
        return;
    }
    let ans = run(|| {
        let (g, u, v) = poly_ext_gcd::<BigInt>(&pa, &pb, p);
        format!("{} {} {}", show_pz(&g), show_pz(&u), show_pz(&v))
    });
    ctx.emit("pm.extgcd", &[show_pz(&pa), show_pz(&pb), p.to_string()], ans);
}
pub fn do_witness(ctx: &mut Ctx, a: &[BigInt], b: &[BigInt], p: &BigInt) {
    let (pa, pb) = (pz(a), pz(b));
    if !euclid_safe(&pa, &pb, p) {
        return;
    }
    let ans = run(|| {
        let (u, v) = poly_coprime_witness::<BigInt>(&pa, &pb, p);
        format!("{} {}", show_pz(&u), show_pz(&v))
    });
    ctx.emit("pm.witness", &[show_pz(&pa), show_pz(&pb), p.to_string()], ans);
}
pub fn do_modpowpoly(ctx: &mut Ctx, x: &[BigInt], e: &BigInt, g: &[BigInt], p: &BigInt) {
    let (px, pg) = (pz(x), pz(g));
    let ans = run(|| show_pz(&poly_modpow::<BigInt>(&px, e, &pg, p)));
    ctx.emit("pm.modpowpoly", &[show_pz(&px), e.to_string(), show_pz(&pg), p.to_string()], ans);
}
pub fn do_divxa(ctx: &mut Ctx, f: &[BigInt], a: &BigInt, p: &BigInt) {
    let pf = pz(f);
    let ans = run(|| show_pz(&divide_by_x_a(&pf, a, p)));
    ctx.emit("pm.divxa", &[show_pz(&pf), a.to_string(), p.to_string()], ans);
}

pub fn replay(ctx: &mut Ctx, f: &[&str]) -> bool {
    match (f[0], f.len()) {
        ("pm.modpow", 4) => do_modpow(ctx, &parse_int(f[1]), &parse_int(f[2]), &parse_int(f[3])),
        ("pm.modinv", 3) => do_modinv(ctx, &parse_int(f[1]), &parse_int(f[2])),
        ("pm.polymod" | "pm.polydiv" | "pm.polymul" | "pm.diff", 3) => {
            do_poly_scalar(ctx, f[0], &parse_ints(f[1]), &parse_int(f[2]))
        }
        ("pm.ofmod", 4) => do_ofmod(ctx, &parse_ints(f[1]), &parse_int(f[2]), &parse_int(f[3])),
        ("pm.modsub", 4) => do_modsub(ctx, &parse_ints(f[1]), &parse_ints(f[2]), &parse_int(f[3])),
        ("pm.divrem", 4) => do_divrem(ctx, &parse_ints(f[1]), &parse_ints(f[2]), &parse_int(f[3])),
        ("pm.gcd", 4) => do_gcd(ctx, &parse_ints(f[1]), &parse_ints(f[2]), &parse_int(f[3])),
        ("pm.extgcd", 4) => do_extgcd(ctx, &parse_ints(f[1]), &parse_ints(f[2]), &parse_int(f[3])),
        ("pm.witness", 4) => do_witness(ctx, &parse_ints(f[1]), &parse_ints(f[2]), &parse_int(f[3])),
        ("pm.modpowpoly", 5) => {
            do_modpowpoly(ctx, &parse_ints(f[1]), &parse_int(f[2]), &parse_ints(f[3]), &parse_int(f[4]))
        }
        ("pm.divxa", 4) => do_divxa(ctx, &parse_ints(f[1]), &parse_int(f[2]), &parse_int(f[3])),
        _ => return false,
    }
    true
}

// ------------------------------------------------------------------------------------ helpers

fn mulmod(a: u64, b: u64, m: u64) -> u64 {
    ((a as u128 * b as u128) % m as u128) as u64
}
fn powmod(mut b: u64, mut e: u64, m: u64) -> u64 {
    let mut r = 1 % m;
    b %= m;
    while e > 0 {
        if e & 1 == 1 {
            r = mulmod(r, b, m);
        }
        b = mulmod(b, b, m);
        e >>= 1;
    }
    r
}
/// deterministic Miller–Rabin for u64 (first 12 prime bases)
pub fn is_prime_u64(n: u64) -> bool {
    if n < 2 {
        return false;
    }
    for p in [2u64, 3, 5, 7, 11, 13, 17, 19, 23, 29, 31, 37] {
        if n % p == 0 {
            return n == p;
        }
    }
    let (mut d, mut s) = (n - 1, 0);
    while d % 2 == 0 {
        d /= 2;
        s += 1;
    }
    'bases: for a in [2u64, 3, 5, 7, 11, 13, 17, 19, 23, 29, 31, 37] {
        let mut x = powmod(a, d, n);
        if x == 1 || x == n - 1 {
            continue;
        }
        for _ in 0..s - 1 {
            x = mulmod(x, x, n);
            if x == n - 1 {
                continue 'bases;
            }
        }
        return false;
    }
    true
}
pub fn next_prime(mut n: u64) -> u64 {
    while !is_prime_u64(n) {
        n += 1;
    }
    n
}
/// primes beyond a machine word known to the oracle: 2^64+13, 2^89-1, 2^107-1, 2^127-1
pub fn big_primes() -> Vec<BigInt> {
    vec![
        big("18446744073709551629"),
        (BigInt::one() << 89) - 1,
        (BigInt::one() << 107) - 1,
        (BigInt::one() << 127) - 1,
    ]
}
pub const M61: u64 = (1u64 << 61) - 1;
/// a prime: small / medium / word-size / (optionally) beyond a word
pub fn rand_prime(ctx: &mut Ctx, allow_big: bool) -> BigInt {
    match ctx.rng.below(if allow_big { 12 } else { 10 }) {
        0 => BigInt::from(2),
        1 => BigInt::from(3),
        2 => BigInt::from([5u64, 7, 11, 13][ctx.rng.below(4) as usize]),
        3 => BigInt::from(next_prime(17 + ctx.rng.below(200))),
        4 => BigInt::from(next_prime(1000 + ctx.rng.below(100000))),
        5 => BigInt::from([101u64, 257, 65537, 2147483647][ctx.rng.below(4) as usize]),
        6 => BigInt::from(next_prime(1 << (20 + ctx.rng.below(40)))),
        7 => BigInt::from(next_prime(ctx.rng.below(M61))),
        8 => BigInt::from(M61),
        9 => BigInt::from(next_prime((1u64 << 63) + ctx.rng.below(1 << 62))),
        _ => {
            let b = big_primes();
            b[ctx.rng.below(b.len() as u64) as usize].clone()
        }
    }
}
/// uniform-ish residue in [0, p)
pub fn rand_res(ctx: &mut Ctx, p: &BigInt) -> BigInt {
    (ctx.rng.bits(p.bits() + 8)).mod_floor(p)
}
/// polynomial of exact degree `deg` with coefficients in [0, p), leading coefficient non-zero
pub fn rand_poly_p(ctx: &mut Ctx, deg: usize, p: &BigInt) -> Vec<BigInt> {
    let mut v: Vec<BigInt> =
        (0..deg).map(|_| if ctx.rng.chance(1, 5) { BigInt::zero() } else { rand_res(ctx, p) }).collect();
    let mut lc = rand_res(ctx, p);
    if lc.is_zero() {
        lc = BigInt::one();
    }
    v.push(lc);
    v
}
pub fn rand_monic_p(ctx: &mut Ctx, deg: usize, p: &BigInt) -> Vec<BigInt> {
    let mut v = rand_poly_p(ctx, deg, p);
    v[deg] = BigInt::one();
    v
}
/// adds p·(random small polynomial of degree ≤ deg f, leading term excluded unless `top`) so that the
/// polynomial is no longer reduced (negative and large coefficients) but its residue is unchanged
pub fn add_noise(ctx: &mut Ctx, f: &[BigInt], p: &BigInt, top: bool, bits: u64) -> Vec<BigInt> {
    let n = f.len();
    f.iter()
        .enumerate()
        .map(|(i, c)| if i + 1 < n || top { c + p * ctx.rng.int(bits) } else { c.clone() })
        .collect()
}
pub fn mul_z(a: &[BigInt], b: &[BigInt]) -> Vec<BigInt> {
    (&pz(a) * &pz(b)).dat
}
pub fn reduce(f: &[BigInt], p: &BigInt) -> Vec<BigInt> {
    pz(&f.iter().map(|c| c.mod_floor(p)).collect::<Vec<_>>()).dat
}
/// Euler's criterion (p an odd prime)
pub fn is_qr(n: &BigInt, p: &BigInt) -> bool {
    let e: BigInt = (p - 1) / 2;
    n.mod_floor(p).modpow(&e, p).is_one()
}
pub fn non_residue(ctx: &mut Ctx, p: &BigInt) -> BigInt {
    loop {
        let n = rand_res(ctx, p);
        if !n.is_zero() && !is_qr(&n, p) {
            return n;
        }
    }
}

// --- small prime fields: polynomials as Vec<u64>, low degree first
pub fn rem_small(a: &[u64], b: &[u64], p: u64) -> Vec<u64> {
    let mut r = a.to_vec();
    let db = b.len() - 1;
    let inv = powmod(b[db], p - 2, p);
    while r.len() > db {
        let top = *r.last().unwrap();
        if top != 0 {
            let c = mulmod(top, inv, p);
            let off = r.len() - 1 - db;
            for j in 0..=db {
                r[off + j] = (r[off + j] + p - mulmod(c, b[j], p)) % p;
            }
        }
        r.pop();
    }
    while r.last() == Some(&0) {
        r.pop();
    }
    r
}
/// every coefficient vector of length `len` over [0, p)
pub fn all_small(len: usize, p: u64) -> Vec<Vec<u64>> {
    let mut out: Vec<Vec<u64>> = vec![vec![]];
    for _ in 0..len {
        let mut next = Vec::with_capacity(out.len() * p as usize);
        for v in &out {
            for c in 0..p {
                let mut w = v.clone();
                w.push(c);
                next.push(w);
            }
        }
        out = next;
    }
    out
}
/// monic irreducible polynomials over F_p by degree (index d-1 ↦ degree d), by a sieve of trial divisions
pub fn irreducibles(p: u64, maxdeg: usize) -> Vec<Vec<Vec<u64>>> {
    let mut by_deg: Vec<Vec<Vec<u64>>> = vec![];
    for d in 1..=maxdeg {
        let mut found = vec![];
        for mut v in all_small(d, p) {
            v.push(1);
            let reducible = by_deg
                .iter()
                .take(d / 2)
                .any(|irr: &Vec<Vec<u64>>| irr.iter().any(|g| rem_small(&v, g, p).is_empty()));
            if !reducible {
                found.push(v);
            }
        }
        by_deg.push(found);
    }
    by_deg
}
pub fn to_big(v: &[u64]) -> Vec<BigInt> {
    v.iter().map(|&c| BigInt::from(c)).collect()
}

// ------------------------------------------------------------------------------------ generators

/// possibly unreduced variant of f with the same residues (the leading coefficient stays a unit)
fn dress(ctx: &mut Ctx, f: Vec<BigInt>, p: &BigInt) -> Vec<BigInt> {
    if ctx.rng.chance(1, 3) {
        add_noise(ctx, &f, p, true, 12)
    } else {
        f
    }
}

pub const ALL_PRIMS: [&str; 14] = [
    "pm.modpow", "pm.modinv", "pm.polymod", "pm.polydiv", "pm.polymul", "pm.diff", "pm.ofmod", "pm.modsub",
    "pm.divrem", "pm.gcd", "pm.extgcd", "pm.witness", "pm.modpowpoly", "pm.divxa",
];

/// Emits cases for the listed primitive ops (`n` rounds each).
pub fn generate_prims(ctx: &mut Ctx, which: &[&str], n: usize) {
    let has = |s: &str| which.contains(&s);
    for i in 0..n {
        let p = rand_prime(ctx, true);
        let da = ctx.rng.below(9) as usize;
        let db = ctx.rng.below(6) as usize;
        let a0 = rand_poly_p(ctx, da, &p);
        let b0 = rand_poly_p(ctx, db, &p);
        let a = dress(ctx, a0.clone(), &p);
        let b = dress(ctx, b0.clone(), &p);
        let x = if ctx.rng.chance(1, 4) { ctx.rng.int(80) } else { rand_res(ctx, &p) };
        if has("pm.modpow") {
            let eb = 1 + ctx.rng.below(130);
            let e = if i % 7 == 0 { BigInt::from(ctx.rng.range(-2, 3)) } else { ctx.rng.bits(eb) };
            let mb = 1 + ctx.rng.below(70);
            let m = if i % 5 == 0 { ctx.rng.bits(mb) + 1 } else { p.clone() };
            do_modpow(ctx, &x, &e, &m);
        }
        if has("pm.modinv") {
            do_modinv(ctx, &x, &p);
        }
        for op in ["pm.polymod", "pm.diff"] {
            if has(op) {
                do_poly_scalar(ctx, op, &a, &p);
                let wild = crate::c09::rand_poly(ctx, 8, 90);
                do_poly_scalar(ctx, op, &wild, &p);
            }
        }
        for op in ["pm.polydiv", "pm.polymul"] {
            if has(op) {
                let wild = crate::c09::rand_poly(ctx, 8, 90);
                let s = if ctx.rng.chance(1, 2) { p.clone() } else { ctx.rng.int(40) };
                if !(op == "pm.polydiv" && s.is_zero()) {
                    do_poly_scalar(ctx, op, &wild, &s);
                }
            }
        }
        if has("pm.ofmod") {
            do_ofmod(ctx, &a, &x, &p);
            let y = rand_res(ctx, &p);
            do_ofmod(ctx, &a0, &y, &p);
        }
        if has("pm.modsub") {
            do_modsub(ctx, &a, &b, &p);
            do_modsub(ctx, &a0, &a0, &p);
        }
        if has("pm.divrem") {
            do_divrem(ctx, &a, &b, &p);
            do_divrem(ctx, &b, &a, &p);
            do_divrem(ctx, &mul_z(&a, &b), &b, &p);
            if i % 6 == 0 {
                // leading coefficient divisible by p / composite modulus: no property, model only
                let mut bad = b.clone();
                let k = bad.len() - 1;
                bad[k] = &p * ctx.rng.range(1, 3);
                do_divrem(ctx, &a, &bad, &p);
                do_divrem(ctx, &a, &b, &(&p * 15));
            }
        }
        // pairs with a planted common factor
        let dc = ctx.rng.below(3) as usize;
        let common = rand_poly_p(ctx, dc, &p);
        let ac = dress(ctx, reduce(&mul_z(&a0, &common), &p), &p);
        let bc = dress(ctx, reduce(&mul_z(&b0, &common), &p), &p);
        if has("pm.gcd") {
            do_gcd(ctx, &a, &b, &p);
            do_gcd(ctx, &ac, &bc, &p);
            do_gcd(ctx, &bc, &ac, &p);
            if i % 8 == 0 {
                do_gcd(ctx, &a, &[], &p);
                do_gcd(ctx, &[], &a, &p);
                do_gcd(ctx, &a, &a, &p);
            }
        }
        if has("pm.extgcd") {
            do_extgcd(ctx, &a, &b, &p);
            do_extgcd(ctx, &ac, &bc, &p);
            do_extgcd(ctx, &b, &a, &p);
        }
        if has("pm.witness") {
            do_witness(ctx, &a, &b, &p);
            do_witness(ctx, &b, &a, &p);
            if i % 4 == 0 {
                do_witness(ctx, &ac, &bc, &p);
            }
        }
        if has("pm.modpowpoly") {
            let e = match i % 4 {
                0 => BigInt::from(ctx.rng.below(6)),
                1 => p.clone(),
                2 => (&p - 1) / 2,
                _ => {
                    let k = 1 + ctx.rng.below(200);
                    ctx.rng.bits(k)
                }
            };
            let g = if db >= 1 { b.clone() } else { rand_monic_p(ctx, 2, &p) };
            do_modpowpoly(ctx, &a, &e, &g, &p);
            if i % 8 == 0 {
                do_modpowpoly(ctx, &a, &e, &[BigInt::from(3)], &p);
                do_modpowpoly(ctx, &[], &e, &g, &p);
            }
        }
        if has("pm.divxa") {
            let r = rand_res(ctx, &p);
            let lin = vec![(-&r).mod_floor(&p), BigInt::one()];
            let f = dress(ctx, reduce(&mul_z(&a0, &lin), &p), &p);
            do_divxa(ctx, &f, &r, &p);
            if i % 8 == 0 {
                do_divxa(ctx, &a, &r, &p); // usually not a root: debug assertion
                do_divxa(ctx, &[], &r, &p); // zero polynomial: capacity overflow
                do_divxa(ctx, &[BigInt::from(5)], &r, &p);
            }
        }
    }
}

/// signed magnitude helper used by callers: |x|
#[allow(dead_code)]
pub fn mag(x: &BigInt) -> BigInt {
    x.abs()
}
