//! C17: decomposition of a rational prime in the maximal order (prime_decomp/simple.rs), with the
//! random history of the modular factorization captured and replayed, and the process-level
//! `rust-number-theory <config>` with to_find = prime-decomposition (only when RNT_BIN is set).
use crate::c16::{field_from_wire, fields, ideal_rows, ints, make_field, Field, Tab};
use crate::common::*;
use num::{BigInt, One, Zero};
use rust_number_theory::prime_decomp::decompose;

/// op line: pd.decompose f B T p draws => H:e|H:e|… ; returns the answer
fn do_decompose(ctx: &mut Ctx, fld: &Field, p: &BigInt, seed: u64, script: Vec<Vec<u8>>) -> String {
    let (ans, log) = run_rng(seed, script, || {
        let r = decompose(&fld.theta, &fld.order, &fld.tab.mt, p);
        if r.is_empty() {
            return "_".into();
        }
        r.iter().map(|(i, e)| format!("{}:{}", show_mat(&ideal_rows(i)), e)).collect::<Vec<_>>().join("|")
    });
    ctx.emit(
        "pd.decompose",
        &[show_ints(&fld.f), show_ratmat(&fld.order.basis()), fld.tab.s.clone(), p.to_string(), log],
        ans.clone(),
    );
    ans
}

/// all `"norm": "N"` … `"e": E` pairs of the CLI's JSON, as `N:E|N:E|…`
fn cli_factors(out: &str) -> String {
    let mut items = vec![];
    let mut rest = out;
    while let Some(i) = rest.find("\"norm\":") {
        rest = &rest[i + 7..];
        let a = match rest.find('"') {
            Some(a) => a,
            None => break,
        };
        let b = match rest[a + 1..].find('"') {
            Some(b) => b,
            None => break,
        };
        let norm = rest[a + 1..a + 1 + b].to_string();
        rest = &rest[a + 1 + b..];
        let j = match rest.find("\"e\":") {
            Some(j) => j,
            None => break,
        };
        rest = &rest[j + 4..];
        let e: String = rest.trim_start().chars().take_while(|c| c.is_ascii_digit()).collect();
        items.push(format!("{norm}:{e}"));
    }
    if items.is_empty() {
        "noanswer".into()
    } else {
        items.join("|")
    }
}

/// process level: one prime per configuration; `reference` is the in-process answer for the same input
fn do_cli(ctx: &mut Ctx, fld: &Field, p: &BigInt, reference: &str) {
    let cfg = format!(
        "to_find = {}\n[input.polynomial_and_primes]\npolynomial = {}\nprimes = ['{}']\n",
        to_find_list("prime-decomposition", &["factorization-mod-p", "discriminant"], variant_of(&[show_ints(&fld.f), p.to_string()]) / 3 + 1),
        toml_list_z(&fld.f, variant_of(&[show_ints(&fld.f), p.to_string()]) % 3),
        p
    );
    if let Some(out) = run_cli(&cfg) {
        let ans = if out.starts_with("panic") { out } else { cli_factors(&out) };
        ctx.emit(
            "cli.pd",
            &[show_ints(&fld.f), show_ratmat(&fld.order.basis()), fld.tab.s.clone(), p.to_string(), reference.to_string()],
            ans,
        );
    }
}

pub fn replay(ctx: &mut Ctx, f: &[&str]) -> bool {
    match (f[0], f.len()) {
        ("pd.decompose", 6) => {
            let fld = field_from_wire(&parse_ints(f[1]), f[2], f[3]);
            do_decompose(ctx, &fld, &parse_int(f[4]), 0, parse_chunks(f[5]));
        }
        ("cli.pd", 6) => {
            let fld = field_from_wire(&parse_ints(f[1]), f[2], f[3]);
            do_cli(ctx, &fld, &parse_int(f[4]), f[5]);
        }
        _ => return false,
    }
    true
}

fn small_primes(bound: u32) -> Vec<BigInt> {
    (2..=bound).filter(|&q| (2..q).take_while(|d| d * d <= q).all(|d| q % d != 0)).map(BigInt::from).collect()
}
/// primes beyond a machine word that the oracle knows to be prime
fn big_primes() -> Vec<BigInt> {
    vec![
        "18446744073709551629".parse().unwrap(),
        (BigInt::one() << 89) - 1,
        (BigInt::one() << 107) - 1,
    ]
}

pub fn generate(ctx: &mut Ctx) {
    let (nq, nc, nr) = (ctx.pick(14, 60), ctx.pick(12, 40), ctx.pick(10, 100));
    let list = fields(ctx, nq, nc, nr);
    let primes = small_primes(ctx.pick(60, 200) as u32);
    // command-line runs: fields without / with primes dividing the index
    let (mut cli_plain, mut cli_index) = (ctx.pick(2, 6), ctx.pick(2, 6));
    for f in list.iter() {
        let fld = match make_field(f) {
            Some(fld) => fld,
            None => {
                eprintln!("ntvh: maximal order of {} not computed (panic)", show_ints(f));
                continue;
            }
        };
        let mut answers = vec![];
        for p in primes.iter().chain(big_primes().iter()) {
            let seed = ctx.rng.next();
            let ans = do_decompose(ctx, &fld, p, seed, vec![]);
            // a second history for the same input now and then
            if ctx.rng.chance(1, 8) {
                let seed = ctx.rng.next();
                do_decompose(ctx, &fld, p, seed, vec![]);
            }
            answers.push((p.clone(), ans));
        }
        // the command line on a few fields: the primes below 14, two beyond a machine word and every
        // prime dividing the index
        let refused = answers.iter().any(|(_, a)| a.starts_with("panic"));
        let take = if refused { &mut cli_index } else { &mut cli_plain };
        if *take > 0 && (refused || f.len() != 3 || ctx.rng.chance(1, 3)) {
            *take -= 1;
            for (p, ans) in answers.iter().filter(|(p, a)| p < &BigInt::from(14) || p.bits() > 64 || a.starts_with("panic")).take(10) {
                do_cli(ctx, &fld, p, ans);
            }
        }
    }
    // primes beyond a machine word that RAMIFY: x^2 - q, x^3 - q, x^2 + q x + q at p = q (Eisenstein at q, so
    // Z[theta] is q-maximal and q does not divide the index of the order handed over, Z[theta] itself;
    // find_integral_basis is not used here: it would factor the discriminant by trial division)
    for q in big_primes() {
        for f in [
            vec![-q.clone(), BigInt::zero(), BigInt::one()],
            vec![-q.clone(), BigInt::zero(), BigInt::zero(), BigInt::one()],
            vec![q.clone(), q.clone(), BigInt::one()],
        ] {
            let theta = rust_number_theory::algebraic::Algebraic::new(rust_number_theory::polynomial::Polynomial::from_raw(f.clone()));
            let built = std::panic::catch_unwind(std::panic::AssertUnwindSafe(|| {
                let order = rust_number_theory::order::trivial_order_monic(&theta);
                let mt = order.get_mult_table(&theta);
                (order, mt)
            }));
            if let Ok((order, mt)) = built {
                let fld = Field { f: f.clone(), theta, order, tab: Tab::from_table(mt) };
                let seed = ctx.rng.next();
                do_decompose(ctx, &fld, &q, seed, vec![]);
                // and an unramified small prime in the same field
                let seed = ctx.rng.next();
                do_decompose(ctx, &fld, &BigInt::from(7), seed, vec![]);
            }
        }
    }
    // the library's own tests: Z[i] with p = 3, 5; Q with p = 5 (degree 1)
    if let Some(fld) = make_field(&ints(&[2, 1])) {
        let seed = ctx.rng.next();
        do_decompose(ctx, &fld, &BigInt::from(5), seed, vec![]);
        do_decompose(ctx, &fld, &BigInt::from(2), seed, vec![]);
    }
}
