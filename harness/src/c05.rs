//! C05: discriminant (discriminant.rs) and its metamorphic laws.
use crate::c04::{pair, pmul, poly_deg, pick_bits, small_polys, KINDS};
use crate::c09::{all_vecs, pz, show_pz, PZ};
use crate::common::*;
use num::{BigInt, One, Zero};
use rust_number_theory::discriminant::discriminant;
use rust_number_theory::polynomial::Polynomial;
use rust_number_theory::resultant::{resultant, resultant_gcd};

/// `disc f` ⇒ `disc(f) gcd(f, f')`
fn do_disc(ctx: &mut Ctx, f: &[BigInt]) {
    let pf = pz(f);
    let ans = run(|| {
        let d = discriminant(&pf);
        let g = resultant_gcd(&pf, &pf.differential());
        format!("{} {}", d, show_pz(&g))
    });
    ctx.emit("disc", &[show_pz(&pf)], ans);
}
/// as `disc`, the list handed over as `Polynomial { dat }` without normalisation (what the CLI does)
/// process level: `rust-number-theory <config>` with to_find = discriminant
fn do_cli_disc(ctx: &mut Ctx, f: &[BigInt]) {
    let mut v = variant_of(&[show_ints(f)]);
    if f.is_empty() {
        v = match v { 1 | 2 => 0, 5 => 3, x => x };
    }
    // `resultant` needs two polynomials: only when the configuration lists a second one (variants 3, 4, 5)
    let before: &[&str] = if v >= 3 { &["resultant", "factorization-mod-p"] } else { &["factorization-mod-p", "prime-decomposition"] };
    let cfg = format!("to_find = {}\n[input]\npolynomials = {}\n", to_find_list("discriminant", before, v), toml_polys(&[f], v));
    if let Some(out) = run_cli(&cfg) {
        let ans = if out.starts_with("panic") { out } else { json_field(&out, "discriminant").unwrap_or_else(|| "noanswer".into()) };
        ctx.emit("cli.disc", &[show_ints(f)], ans);
    }
}
fn do_disc_raw(ctx: &mut Ctx, f: &[BigInt]) {
    let pf = Polynomial { dat: f.to_vec() };
    let ans = run(|| {
        let d = discriminant(&pf);
        let g = resultant_gcd(&pf, &pf.differential());
        format!("{} {}", d, show_pz(&g))
    });
    ctx.emit("disc.raw", &[show_ints(f)], ans);
}
/// f(x + c) by Horner, computed with the implementation's ring operations
fn shift(f: &PZ, c: &BigInt) -> PZ {
    let xc = pz(&[c.clone(), BigInt::one()]);
    let mut acc = PZ { dat: vec![] };
    for a in f.dat.iter().rev() {
        acc = &(&acc * &xc) + &pz(&[a.clone()]);
    }
    acc
}
fn do_shift(ctx: &mut Ctx, f: &[BigInt], c: &BigInt) {
    let pf = pz(f);
    let ans = run(|| {
        let g = shift(&pf, c);
        format!("{} {}", discriminant(&pf), discriminant(&g))
    });
    ctx.emit("disc.shift", &[show_pz(&pf), c.to_string()], ans);
}
fn do_neg(ctx: &mut Ctx, f: &[BigInt]) {
    let pf = pz(f);
    let ans = run(|| {
        let g = pz(&pf.dat.iter().enumerate().map(|(i, a)| if i % 2 == 1 { -a } else { a.clone() }).collect::<Vec<_>>());
        format!("{} {}", discriminant(&pf), discriminant(&g))
    });
    ctx.emit("disc.neg", &[show_pz(&pf)], ans);
}
/// `disc.mul f g` ⇒ `disc(fg) disc(f) disc(g) Res(f, g)`
fn do_mul(ctx: &mut Ctx, f: &[BigInt], g: &[BigInt]) {
    let (pf, pg) = (pz(f), pz(g));
    let ans = run(|| {
        let fg = &pf * &pg;
        format!("{} {} {} {}", discriminant(&fg), discriminant(&pf), discriminant(&pg), resultant(&pf, &pg))
    });
    ctx.emit("disc.mul", &[show_pz(&pf), show_pz(&pg)], ans);
}

pub fn replay(ctx: &mut Ctx, f: &[&str]) -> bool {
    match (f[0], f.len()) {
        ("cli.disc", 2) => do_cli_disc(ctx, &parse_ints(f[1])),
        ("disc", 2) => do_disc(ctx, &parse_ints(f[1])),
        ("disc.raw", 2) => do_disc_raw(ctx, &parse_ints(f[1])),
        ("disc.shift", 3) => do_shift(ctx, &parse_ints(f[1]), &parse_int(f[2])),
        ("disc.neg", 2) => do_neg(ctx, &parse_ints(f[1])),
        ("disc.mul", 3) => do_mul(ctx, &parse_ints(f[1]), &parse_ints(f[2])),
        _ => return false,
    }
    true
}

/// process-level cases (only when RNT_BIN is set)
fn generate_cli(ctx: &mut Ctx) {
    let iv = |v: &[i64]| v.iter().map(|x| BigInt::from(*x)).collect::<Vec<_>>();
    for f in [iv(&[3, -2, 1, 2]), iv(&[1, 1, 0]), iv(&[24, 1771, 31, 0, 0]), iv(&[1, 9, 0, 1]), iv(&[5, 1])] {
        do_cli_disc(ctx, &f);
    }
    for _ in 0..ctx.pick(40, 400) {
        let mut f = crate::c09::rand_poly(ctx, 7, 40);
        while f.len() < 2 || f.last().map_or(true, |c| c == &BigInt::from(0)) {
            f.push(BigInt::from(1 + ctx.rng.below(5) as i64));
        }
        if ctx.rng.chance(1, 3) {
            f.push(BigInt::from(0));
        }
        do_cli_disc(ctx, &f);
    }
}

pub fn generate(ctx: &mut Ctx) {
    generate_cli(ctx);
    // the unit tests of discriminant.rs
    let iv = |v: &[i64]| v.iter().map(|x| BigInt::from(*x)).collect::<Vec<_>>();
    for f in [iv(&[24, 1771]), iv(&[24, 1771, 31]), iv(&[1, 9, 0, 1]), iv(&[3, -2, 1, 2])] {
        do_disc(ctx, &f);
    }
    // exhaustive small polynomials (zero and constants included: outside the domain, model only)
    let (len, m) = if ctx.thorough { (7, 2) } else { (5, 2) };
    let small = small_polys(len, m);
    for f in &small {
        do_disc(ctx, f);
        do_neg(ctx, f);
        do_shift(ctx, f, &BigInt::from(1));
        do_shift(ctx, f, &BigInt::from(-3));
    }
    // product formula on all small pairs
    let ps = if ctx.thorough { small_polys(4, 2) } else { small_polys(4, 1) };
    for (i, f) in ps.iter().enumerate() {
        for (j, g) in ps.iter().enumerate() {
            if ctx.thorough && (i + j) % 5 != 0 {
                continue;
            }
            do_mul(ctx, f, g);
        }
    }
    // un-normalised lists
    for len in 1..=4 {
        for f in all_vecs(len, 1) {
            if f.last().map_or(false, |c| c.is_zero()) {
                do_disc_raw(ctx, &f);
            }
        }
    }
    // random: every degree 1..=12 in turn (all residues mod 4), large and negative coefficients
    let n = ctx.pick(4000, 30000);
    for i in 0..n {
        let deg = 1 + i % 12;
        let bits = pick_bits(ctx);
        let sparse = i % 5 == 0;
        let mut f = poly_deg(ctx, deg, bits, sparse);
        if i % 3 == 0 && f[deg] > BigInt::zero() {
            f[deg] = -f[deg].clone();
        }
        do_disc(ctx, &f);
        do_neg(ctx, &f);
        let c = ctx.rng.int(if i % 4 == 0 { 40 } else { 6 });
        do_shift(ctx, &f, &c);
        // repeated factors: h^2 k, h^3, h h k'
        if i % 2 == 0 {
            let dh = 1 + ctx.rng.below(3) as usize;
            let h = poly_deg(ctx, dh, bits.min(16), false);
            let dk = ctx.rng.below((12 - 2 * dh) as u64 + 1) as usize;
            let k = poly_deg(ctx, dk, bits.min(16), false);
            let mut r = pmul(&pmul(&h, &h), &k);
            if i % 8 == 0 && r.len() + h.len() - 1 <= 13 {
                r = pmul(&r, &h);
            }
            do_disc(ctx, &r);
            do_neg(ctx, &r);
            do_shift(ctx, &r, &c);
        }
        // product formula
        if i % 2 == 1 {
            let (f1, g1) = pair(ctx, i as u64 % KINDS);
            if f1.len() + g1.len() <= 12 {
                do_mul(ctx, &f1, &g1);
            } else {
                let (df, dg) = (1 + ctx.rng.below(6) as usize, 1 + ctx.rng.below(6) as usize);
                let (a, b) = (poly_deg(ctx, df, bits.min(32), false), poly_deg(ctx, dg, bits.min(32), false));
                do_mul(ctx, &a, &b);
            }
        }
    }
    // zero and constants explicitly
    do_disc(ctx, &[]);
    do_disc(ctx, &[BigInt::from(7)]);
    do_disc(ctx, &[BigInt::from(-7)]);
    do_shift(ctx, &[], &BigInt::from(2));
    do_neg(ctx, &[]);
    do_mul(ctx, &[], &iv(&[1, 1]));
    do_mul(ctx, &iv(&[3]), &iv(&[1, 1]));
}
