//! C09: polynomial arithmetic (polynomial.rs).
use crate::common::*;
use num::{BigInt, BigRational, One, Zero};
use rust_number_theory::polynomial::{
    div_exact, div_rem_bigint, div_rem_bigrational, pseudo_div_rem_bigint, Polynomial,
};

pub type PZ = Polynomial<BigInt>;
pub type PQ = Polynomial<BigRational>;

pub fn pz(v: &[BigInt]) -> PZ {
    Polynomial::from_raw(v.to_vec())
}
pub fn pq(v: &[BigRational]) -> PQ {
    Polynomial::from_raw(v.to_vec())
}
pub fn show_pz(p: &PZ) -> String {
    show_ints(&p.dat)
}
pub fn show_pq(p: &PQ) -> String {
    show_rats(&p.dat)
}

fn bin_z(ctx: &mut Ctx, op: &str, a: &[BigInt], b: &[BigInt]) {
    let (pa, pb) = (pz(a), pz(b));
    let ans = run(|| {
        let r = match op {
            "z.add" => &pa + &pb,
            "z.sub" => &pa - &pb,
            "z.mul" => &pa * &pb,
            // the operator impls on owned values are separate code
            "z.add.o" => pa.clone() + pb.clone(),
            "z.sub.o" => pa.clone() - pb.clone(),
            "z.mul.o" => pa.clone() * pb.clone(),
            _ => unreachable!(),
        };
        show_pz(&r)
    });
    ctx.emit(op, &[show_pz(&pa), show_pz(&pb)], ans);
    // every third case also through the owned impl
    if !op.ends_with(".o") && (a.len() + 2 * b.len() + ctx.lines.len()) % 3 == 0 {
        let o = format!("{op}.o");
        bin_z(ctx, &o, a, b);
    }
}
fn bin_q(ctx: &mut Ctx, op: &str, a: &[BigRational], b: &[BigRational]) {
    let (pa, pb) = (pq(a), pq(b));
    let ans = run(|| {
        let r = match op {
            "q.add" => &pa + &pb,
            "q.sub" => &pa - &pb,
            "q.mul" => &pa * &pb,
            "q.add.o" => pa.clone() + pb.clone(),
            "q.sub.o" => pa.clone() - pb.clone(),
            "q.mul.o" => pa.clone() * pb.clone(),
            _ => unreachable!(),
        };
        show_pq(&r)
    });
    ctx.emit(op, &[show_pq(&pa), show_pq(&pb)], ans);
    if !op.ends_with(".o") && (a.len() + 2 * b.len() + ctx.lines.len()) % 3 == 0 {
        let o = format!("{op}.o");
        bin_q(ctx, &o, a, b);
    }
}
fn do_neg(ctx: &mut Ctx, a: &[BigInt]) {
    let pa = pz(a);
    let ans = run(|| show_pz(&(-&pa)));
    ctx.emit("z.neg", &[show_pz(&pa)], ans);
    let ans = run(|| show_pz(&(-pa.clone())));
    ctx.emit("z.neg.o", &[show_pz(&pa)], ans);
}
fn do_fromraw(ctx: &mut Ctx, a: &[BigInt]) {
    let ans = run(|| show_pz(&pz(a)));
    ctx.emit("z.fromraw", &[show_ints(a)], ans);
}
fn do_of_z(ctx: &mut Ctx, a: &[BigInt], x: &BigInt) {
    let pa = pz(a);
    let ans = run(|| pa.of(x).to_string());
    ctx.emit("z.of", &[show_pz(&pa), x.to_string()], ans);
}
fn do_of_q(ctx: &mut Ctx, a: &[BigRational], x: &BigRational) {
    let pa = pq(a);
    let ans = run(|| show_rat(&pa.of(x)));
    ctx.emit("q.of", &[show_pq(&pa), show_rat(x)], ans);
}
fn do_diff(ctx: &mut Ctx, a: &[BigInt]) {
    let pa = pz(a);
    let ans = run(|| show_pz(&pa.differential()));
    ctx.emit("z.diff", &[show_pz(&pa)], ans);
}
fn do_contpp(ctx: &mut Ctx, a: &[BigInt]) {
    let pa = pz(a);
    let ans = run(|| {
        let (c, pp) = pa.cont_pp();
        format!("{} {}", c, show_pz(&pp))
    });
    ctx.emit("z.contpp", &[show_pz(&pa)], ans);
}
fn do_pseudo(ctx: &mut Ctx, a: &[BigInt], b: &[BigInt]) {
    let (pa, pb) = (pz(a), pz(b));
    let ans = run(|| {
        let (q, r) = pseudo_div_rem_bigint(&pa, &pb);
        format!("{} {}", show_pz(&q), show_pz(&r))
    });
    ctx.emit("z.pseudo", &[show_pz(&pa), show_pz(&pb)], ans);
}
fn do_divmonic(ctx: &mut Ctx, a: &[BigInt], b: &[BigInt]) {
    let (pa, pb) = (pz(a), pz(b));
    let ans = run(|| {
        let (q, r) = div_rem_bigint(&pa, &pb);
        format!("{} {}", show_pz(&q), show_pz(&r))
    });
    ctx.emit("z.divmonic", &[show_pz(&pa), show_pz(&pb)], ans);
}
fn do_divexact(ctx: &mut Ctx, a: &[BigInt], b: &[BigInt]) {
    let (pa, pb) = (pz(a), pz(b));
    let ans = run(|| match div_exact(&pa, &pb) {
        Some(q) => format!("some {}", show_pz(&q)),
        None => "none".into(),
    });
    ctx.emit("z.divexact", &[show_pz(&pa), show_pz(&pb)], ans);
}
fn do_divrem_q(ctx: &mut Ctx, a: &[BigRational], b: &[BigRational]) {
    let (pa, pb) = (pq(a), pq(b));
    let ans = run(|| {
        let (q, r) = div_rem_bigrational(&pa, &pb);
        format!("{} {}", show_pq(&q), show_pq(&r))
    });
    ctx.emit("q.divrem", &[show_pq(&pa), show_pq(&pb)], ans);
}
fn flag(b: bool) -> char {
    if b {
        '1'
    } else {
        '0'
    }
}
/// ring laws, evaluation homomorphism and product rule, evaluated on the implementation
fn do_laws_z(ctx: &mut Ctx, a: &[BigInt], b: &[BigInt], c: &[BigInt], x: &BigInt) {
    let (pa, pb, pc) = (pz(a), pz(b), pz(c));
    let ans = run(|| {
        let zero = PZ::zero();
        let one = pz(&[BigInt::one()]);
        let mut s = String::new();
        s.push(flag(&pa + &pb == &pb + &pa));
        s.push(flag(&pa * &pb == &pb * &pa));
        s.push(flag(&(&pa + &pb) + &pc == &pa + &(&pb + &pc)));
        s.push(flag(&(&pa * &pb) * &pc == &pa * &(&pb * &pc)));
        s.push(flag(&pa * &(&pb + &pc) == &(&pa * &pb) + &(&pa * &pc)));
        s.push(flag(&pa + &zero == pa && &pa * &one == pa && (&pa * &zero).dat.is_empty()));
        s.push(flag((&pa + &(-&pa)).dat.is_empty() && &pa - &pb == &pa + &(-&pb)));
        s.push(flag((&pa + &pb).of(x) == pa.of(x) + pb.of(x)));
        s.push(flag((&pa * &pb).of(x) == pa.of(x) * pb.of(x)));
        s.push(flag((&pa * &pb).differential() == &(&pa.differential() * &pb) + &(&pa * &pb.differential())));
        s.push(flag(zero.of(x).is_zero()));
        s
    });
    ctx.emit("z.laws", &[show_pz(&pa), show_pz(&pb), show_pz(&pc), x.to_string()], ans);
}
fn do_laws_q(ctx: &mut Ctx, a: &[BigRational], b: &[BigRational], c: &[BigRational], x: &BigRational) {
    let (pa, pb, pc) = (pq(a), pq(b), pq(c));
    let ans = run(|| {
        let zero = PQ::zero();
        let mut s = String::new();
        s.push(flag(&pa + &pb == &pb + &pa));
        s.push(flag(&pa * &pb == &pb * &pa));
        s.push(flag(&(&pa + &pb) + &pc == &pa + &(&pb + &pc)));
        s.push(flag(&(&pa * &pb) * &pc == &pa * &(&pb * &pc)));
        s.push(flag(&pa * &(&pb + &pc) == &(&pa * &pb) + &(&pa * &pc)));
        s.push(flag((&pa + &(-&pa)).dat.is_empty() && &pa - &pb == &pa + &(-&pb)));
        s.push(flag((&pa + &pb).of(x) == pa.of(x) + pb.of(x)));
        s.push(flag((&pa * &pb).of(x) == pa.of(x) * pb.of(x)));
        s.push(flag(zero.of(x).is_zero()));
        s
    });
    ctx.emit("q.laws", &[show_pq(&pa), show_pq(&pb), show_pq(&pc), show_rat(x)], ans);
}

pub fn replay(ctx: &mut Ctx, f: &[&str]) -> bool {
    let n = f.len();
    match (f[0], n) {
        ("z.add.o" | "z.sub.o" | "z.mul.o", 3) => {
            let (pa, pb) = (pz(&parse_ints(f[1])), pz(&parse_ints(f[2])));
            let ans = run(|| {
                show_pz(&match f[0] {
                    "z.add.o" => pa.clone() + pb.clone(),
                    "z.sub.o" => pa.clone() - pb.clone(),
                    _ => pa.clone() * pb.clone(),
                })
            });
            ctx.emit(f[0], &[show_pz(&pa), show_pz(&pb)], ans);
        }
        ("q.add.o" | "q.sub.o" | "q.mul.o", 3) => {
            let (pa, pb) = (pq(&parse_rats(f[1])), pq(&parse_rats(f[2])));
            let ans = run(|| {
                show_pq(&match f[0] {
                    "q.add.o" => pa.clone() + pb.clone(),
                    "q.sub.o" => pa.clone() - pb.clone(),
                    _ => pa.clone() * pb.clone(),
                })
            });
            ctx.emit(f[0], &[show_pq(&pa), show_pq(&pb)], ans);
        }
        ("z.neg.o", 2) => {
            let pa = pz(&parse_ints(f[1]));
            let ans = run(|| show_pz(&(-pa.clone())));
            ctx.emit("z.neg.o", &[show_pz(&pa)], ans);
        }
        ("z.add" | "z.sub" | "z.mul", 3) => {
            let n = ctx.lines.len();
            bin_z(ctx, f[0], &parse_ints(f[1]), &parse_ints(f[2]));
            ctx.lines.truncate(n + 1);
        }
        ("q.add" | "q.sub" | "q.mul", 3) => {
            let n = ctx.lines.len();
            bin_q(ctx, f[0], &parse_rats(f[1]), &parse_rats(f[2]));
            ctx.lines.truncate(n + 1);
        }
        ("z.neg", 2) => {
            let n = ctx.lines.len();
            do_neg(ctx, &parse_ints(f[1]));
            ctx.lines.truncate(n + 1);
        }
        ("z.fromraw", 2) => do_fromraw(ctx, &parse_ints(f[1])),
        ("z.of", 3) => do_of_z(ctx, &parse_ints(f[1]), &parse_int(f[2])),
        ("q.of", 3) => do_of_q(ctx, &parse_rats(f[1]), &parse_rat(f[2])),
        ("z.diff", 2) => do_diff(ctx, &parse_ints(f[1])),
        ("z.contpp", 2) => do_contpp(ctx, &parse_ints(f[1])),
        ("z.pseudo", 3) => do_pseudo(ctx, &parse_ints(f[1]), &parse_ints(f[2])),
        ("z.divmonic", 3) => do_divmonic(ctx, &parse_ints(f[1]), &parse_ints(f[2])),
        ("z.divexact", 3) => do_divexact(ctx, &parse_ints(f[1]), &parse_ints(f[2])),
        ("q.divrem", 3) => do_divrem_q(ctx, &parse_rats(f[1]), &parse_rats(f[2])),
        ("z.laws", 5) => do_laws_z(ctx, &parse_ints(f[1]), &parse_ints(f[2]), &parse_ints(f[3]), &parse_int(f[4])),
        ("q.laws", 5) => do_laws_q(ctx, &parse_rats(f[1]), &parse_rats(f[2]), &parse_rats(f[3]), &parse_rat(f[4])),
        _ => return false,
    }
    true
}

/// random integer polynomial: `len` coefficients (possibly with trailing zeros before from_raw)
pub fn rand_poly(ctx: &mut Ctx, maxlen: u64, maxbits: u64) -> Vec<BigInt> {
    let len = ctx.rng.below(maxlen + 1);
    let bits = match ctx.rng.below(4) {
        0 => 2,
        1 => 8.min(maxbits),
        2 => 64.min(maxbits),
        _ => maxbits,
    };
    (0..len)
        .map(|_| if ctx.rng.chance(1, 6) { BigInt::zero() } else { ctx.rng.int(bits) })
        .collect()
}
pub fn rand_rat(ctx: &mut Ctx, bits: u64) -> BigRational {
    let n = ctx.rng.int(bits);
    let dbits = if ctx.rng.chance(1, 2) { 0 } else { 1 + ctx.rng.below(bits.min(20)) };
    let d = ctx.rng.bits(dbits) + BigInt::one();
    BigRational::new(n, d)
}
pub fn rand_poly_q(ctx: &mut Ctx, maxlen: u64, bits: u64) -> Vec<BigRational> {
    let len = ctx.rng.below(maxlen + 1);
    (0..len)
        .map(|_| if ctx.rng.chance(1, 6) { BigRational::zero() } else { rand_rat(ctx, bits) })
        .collect()
}
/// all coefficient vectors of length `len` with entries in [-m, m]
pub fn all_vecs(len: usize, m: i64) -> Vec<Vec<BigInt>> {
    let mut out: Vec<Vec<BigInt>> = vec![vec![]];
    for _ in 0..len {
        let mut next = vec![];
        for v in &out {
            for c in -m..=m {
                let mut w = v.clone();
                w.push(BigInt::from(c));
                next.push(w);
            }
        }
        out = next;
    }
    out
}

pub fn generate(ctx: &mut Ctx) {
    // exhaustive small polynomials (length 0..=L, entries in [-m, m])
    let (l, m) = if ctx.thorough { (3usize, 2i64) } else { (3, 1) };
    let mut small: Vec<Vec<BigInt>> = vec![];
    for len in 0..=l {
        small.extend(all_vecs(len, m));
    }
    // canonical ones only (others are covered by z.fromraw)
    for v in &small {
        do_fromraw(ctx, v);
    }
    let canon: Vec<Vec<BigInt>> = small.iter().filter(|v| v.last().map_or(true, |c| !c.is_zero())).cloned().collect();
    for a in &canon {
        do_neg(ctx, a);
        do_diff(ctx, a);
        do_contpp(ctx, a);
        for x in -2..=2 {
            do_of_z(ctx, a, &BigInt::from(x));
        }
        for b in &canon {
            for op in ["z.add", "z.sub", "z.mul"] {
                bin_z(ctx, op, a, b);
            }
            do_pseudo(ctx, a, b);
            do_divexact(ctx, a, b);
            do_divmonic(ctx, a, b);
        }
    }
    // random large
    let n = ctx.pick(1200, 20000);
    for i in 0..n {
        let bits = if i % 3 == 0 { 128 } else { 40 };
        let a = rand_poly(ctx, 21, bits);
        let b = rand_poly(ctx, if i % 2 == 0 { 21 } else { 6 }, bits);
        let c = rand_poly(ctx, 8, bits);
        let x = ctx.rng.int(20);
        for op in ["z.add", "z.sub", "z.mul"] {
            bin_z(ctx, op, &a, &b);
        }
        do_neg(ctx, &a);
        do_diff(ctx, &a);
        do_contpp(ctx, &a);
        do_of_z(ctx, &a, &x);
        do_laws_z(ctx, &a, &b, &c, &x);
        // cancellation in add/sub: equal leading parts
        let mut b2 = a.clone();
        if !b2.is_empty() {
            let k = ctx.rng.below(b2.len() as u64) as usize;
            b2[k] += BigInt::from(ctx.rng.range(-1, 1));
        }
        bin_z(ctx, "z.sub", &a, &b2);
        let nb: Vec<BigInt> = b2.iter().map(|c| -c).collect();
        bin_z(ctx, "z.add", &a, &nb);
        // division: arbitrary pair, multiple, near multiple, monic divisor
        do_pseudo(ctx, &a, &b);
        do_divexact(ctx, &a, &b);
        let prod = (&pz(&a) * &pz(&b)).dat;
        do_divexact(ctx, &prod, &b);
        do_pseudo(ctx, &prod, &b);
        let mut near = prod.clone();
        if !near.is_empty() {
            let k = ctx.rng.below(near.len() as u64) as usize;
            near[k] += BigInt::from(if ctx.rng.chance(1, 2) { 1 } else { -1 });
            do_divexact(ctx, &near, &b);
            // multiply by a scalar so that divisibility of leading coefficients holds longer
            let lcb = pz(&b).dat.last().cloned().unwrap_or_else(BigInt::one);
            let scaled: Vec<BigInt> = near.iter().map(|c| c * &lcb).collect();
            do_divexact(ctx, &scaled, &b);
        }
        let mut mb = rand_poly(ctx, 6, bits);
        mb.push(BigInt::one());
        do_divmonic(ctx, &a, &mb);
        if i % 16 == 0 {
            do_divmonic(ctx, &a, &b);
        }
        // rationals
        let qa = rand_poly_q(ctx, 10, 30);
        let qb = rand_poly_q(ctx, 6, 30);
        let qc = rand_poly_q(ctx, 4, 30);
        let qx = rand_rat(ctx, 12);
        for op in ["q.add", "q.sub", "q.mul"] {
            bin_q(ctx, op, &qa, &qb);
        }
        do_of_q(ctx, &qa, &qx);
        do_divrem_q(ctx, &qa, &qb);
        let qprod = (&pq(&qa) * &pq(&qb)).dat;
        do_divrem_q(ctx, &qprod, &qb);
        if i % 4 == 0 {
            do_laws_q(ctx, &qa, &qb, &qc, &qx);
        }
    }
    // zero / constant edge cases
    let z: Vec<BigInt> = vec![];
    let k: Vec<BigInt> = vec![BigInt::from(-3)];
    for (a, b) in [(&z, &z), (&z, &k), (&k, &z), (&k, &k)] {
        for op in ["z.add", "z.sub", "z.mul"] {
            bin_z(ctx, op, a, b);
        }
        do_pseudo(ctx, a, b);
        do_divexact(ctx, a, b);
        do_divmonic(ctx, a, b);
    }
    do_of_z(ctx, &z, &BigInt::from(3));
    do_of_q(ctx, &[], &BigRational::from(BigInt::from(3)));
    do_divrem_q(ctx, &[], &[]);
}
