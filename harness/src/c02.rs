//! C02 / C03: Hermite normal form, transformation matrix, kernel (hnf.rs).
use crate::common::*;
use num::{BigInt, Zero};
use number_theory_linear::hnf::{hnf_with_u, HNF};

pub type M = Vec<Vec<BigInt>>;

fn do_hnfu(ctx: &mut Ctx, a: &M) {
    let ans = run(|| {
        let (h, u, k) = hnf_with_u(a);
        format!("{}|{}|{}", show_mat(&h.as_vecs()), k, show_mat(&u))
    });
    ctx.emit("hnfu", &[show_mat(a)], ans);
}
fn do_hnfnew(ctx: &mut Ctx, a: &M) {
    let ans = run(|| show_mat(&HNF::new(a).as_vecs()));
    ctx.emit("hnfnew", &[show_mat(a)], ans);
}
fn do_kernel(ctx: &mut Ctx, a: &M) {
    let ans = run(|| show_mat(&HNF::kernel(a)));
    ctx.emit("kernel", &[show_mat(a)], ans);
}
fn do_same(ctx: &mut Ctx, a: &M, b: &M) {
    let ans = run(|| if HNF::new(a) == HNF::new(b) { "1".into() } else { "0".into() });
    ctx.emit("hnfsame", &[show_mat(a), show_mat(b)], ans);
}
fn do_union(ctx: &mut Ctx, a: &M, b: &M) {
    // arguments of union are HNFs
    let ans = run(|| {
        let (ha, hb) = (HNF::new(a), HNF::new(b));
        show_mat(&HNF::union(&ha, &hb).as_vecs())
    });
    // the operands as normal forms (what `union` receives); if computing them panics the case is
    // reported on the raw operands instead — nothing outside `run` may bring the harness down
    let forms = std::panic::catch_unwind(|| (HNF::new(a).as_vecs(), HNF::new(b).as_vecs()));
    match forms {
        Ok((ha, hb)) => ctx.emit("union", &[show_mat(&ha), show_mat(&hb)], ans),
        Err(_) => {
            let ans = run(|| show_mat(&HNF::new(a).as_vecs()));
            ctx.emit("hnfnew", &[show_mat(a)], ans);
            let ans = run(|| show_mat(&HNF::new(b).as_vecs()));
            ctx.emit("hnfnew", &[show_mat(b)], ans);
        }
    }
}
fn do_det(ctx: &mut Ctx, a: &M) {
    let ans = run(|| HNF::new(a).determinant().to_string());
    ctx.emit("hnfdet", &[show_mat(a)], ans);
}

pub fn replay(ctx: &mut Ctx, f: &[&str]) -> bool {
    match (f[0], f.len()) {
        ("hnfu", 2) => do_hnfu(ctx, &parse_mat(f[1])),
        ("hnfnew", 2) => do_hnfnew(ctx, &parse_mat(f[1])),
        ("kernel", 2) => do_kernel(ctx, &parse_mat(f[1])),
        ("hnfsame", 3) => do_same(ctx, &parse_mat(f[1]), &parse_mat(f[2])),
        ("union", 3) => do_union(ctx, &parse_mat(f[1]), &parse_mat(f[2])),
        ("hnfdet", 2) => do_det(ctx, &parse_mat(f[1])),
        _ => return false,
    }
    true
}

/// `==` on normal forms of every pair of 1 x 2 and a sample of 2 x 3 matrices over a small range:
/// equality of the stored forms must be equality of lattices, also for rank-deficient (wide) forms
fn gen_eq_pairs(ctx: &mut Ctx) {
    let one_by_two = all_mats(1, 2, 3);
    for a in &one_by_two {
        for b in &one_by_two {
            do_same(ctx, a, b);
        }
    }
    let two_by_three = all_mats(2, 3, 1);
    let cnt = ctx.pick(600, 6000);
    for _ in 0..cnt {
        let a = &two_by_three[ctx.rng.below(two_by_three.len() as u64) as usize];
        let b = &two_by_three[ctx.rng.below(two_by_three.len() as u64) as usize];
        do_same(ctx, a, b);
    }
}

pub fn all_mats(n: usize, m: usize, r: i64) -> Vec<M> {
    let cells = n * m;
    let base = (2 * r + 1) as u64;
    let total = base.pow(cells as u32);
    let mut out = Vec::with_capacity(total as usize);
    for code in 0..total {
        let mut c = code;
        let mut mat = vec![vec![BigInt::zero(); m]; n];
        for i in 0..n {
            for j in 0..m {
                mat[i][j] = BigInt::from((c % base) as i64 - r);
                c /= base;
            }
        }
        out.push(mat);
    }
    out
}

/// random n x m matrix of prescribed rank bound: product of n x r and r x m, or plain random
pub fn rand_mat(ctx: &mut Ctx, n: usize, m: usize, bits: u64) -> M {
    let style = ctx.rng.below(10);
    let mut a: M = (0..n).map(|_| (0..m).map(|_| ctx.rng.int(bits)).collect()).collect();
    match style {
        0..=2 => {
            // forced rank deficiency: some rows are combinations of the others
            let r = 1 + ctx.rng.below(n.min(m) as u64) as usize;
            for i in r..n {
                let mut row = vec![BigInt::zero(); m];
                for t in 0..r {
                    let c = ctx.rng.small(3);
                    for j in 0..m {
                        row[j] += &c * &a[t][j];
                    }
                }
                a[i] = row;
            }
            // shuffle rows
            for i in (1..n).rev() {
                let j = ctx.rng.below(i as u64 + 1) as usize;
                a.swap(i, j);
            }
        }
        3 => {
            // zero rows / zero columns
            let i = ctx.rng.below(n as u64) as usize;
            a[i] = vec![BigInt::zero(); m];
            let j = ctx.rng.below(m as u64) as usize;
            for row in a.iter_mut() {
                row[j] = BigInt::zero();
            }
        }
        4 => {
            // rows that are huge multiples of one another
            if n >= 2 {
                let f = ctx.rng.bits(200) + BigInt::from(1);
                a[1] = a[0].iter().map(|x| x * &f).collect();
            }
        }
        _ => {}
    }
    a
}

/// a different generating set of the same lattice: unimodular row operations, permutation, appended combinations
pub fn same_lattice(ctx: &mut Ctx, a: &M) -> M {
    let mut b = a.clone();
    let n = b.len();
    let m = b[0].len();
    for _ in 0..(2 * n + 2) {
        let i = ctx.rng.below(n as u64) as usize;
        let j = ctx.rng.below(n as u64) as usize;
        match ctx.rng.below(3) {
            0 => b.swap(i, j),
            1 => {
                if i != j {
                    let c = ctx.rng.small(4);
                    for t in 0..m {
                        let v = &c * &b[j][t];
                        b[i][t] += v;
                    }
                }
            }
            _ => {
                for t in 0..m {
                    b[i][t] = -&b[i][t];
                }
            }
        }
    }
    let extra = ctx.rng.below(3);
    for _ in 0..extra {
        let mut row = vec![BigInt::zero(); m];
        for r in a {
            let c = ctx.rng.small(3);
            for t in 0..m {
                row[t] += &c * &r[t];
            }
        }
        let pos = ctx.rng.below(b.len() as u64 + 1) as usize;
        b.insert(pos, row);
    }
    if ctx.rng.chance(1, 3) {
        b.push(vec![BigInt::zero(); m]);
    }
    b
}

fn all_ops(ctx: &mut Ctx, a: &M) {
    do_hnfu(ctx, a);
    do_hnfnew(ctx, a);
    do_kernel(ctx, a);
    do_det(ctx, a);
}

pub fn generate(ctx: &mut Ctx) {
    gen_eq_pairs(ctx);
    // exhaustive small shapes
    let shapes: Vec<(usize, usize, i64)> = if ctx.thorough {
        vec![(1, 1, 3), (1, 3, 2), (3, 1, 2), (2, 2, 2), (2, 3, 1), (3, 2, 1), (3, 3, 1), (4, 2, 1)]
    } else {
        vec![(1, 1, 3), (1, 3, 1), (3, 1, 1), (2, 2, 2), (2, 3, 1), (3, 2, 1)]
    };
    for (n, m, r) in shapes {
        for a in all_mats(n, m, r) {
            do_hnfu(ctx, &a);
            do_kernel(ctx, &a);
        }
    }
    // random
    let cnt = ctx.pick(500, 8000);
    for i in 0..cnt {
        let n = 1 + ctx.rng.below(if i % 5 == 0 { 10 } else { 6 }) as usize;
        let m = 1 + ctx.rng.below(8) as usize;
        let bits = [3u64, 8, 64, 66, 512][ctx.rng.below(if ctx.thorough { 5 } else { 4 }) as usize];
        let a = rand_mat(ctx, n, m, bits);
        all_ops(ctx, &a);
        let b = same_lattice(ctx, &a);
        do_same(ctx, &a, &b);
        // a near miss: one entry changed (mostly in the last columns) — almost always another lattice,
        // and for wide matrices the normal forms then differ only to the right of the diagonal
        {
            let mut c = a.clone();
            let (r, col) = (ctx.rng.below(n as u64) as usize, if ctx.rng.chance(2, 3) { m - 1 } else { ctx.rng.below(m as u64) as usize });
            c[r][col] += BigInt::from(1 + ctx.rng.below(3) as i64);
            do_same(ctx, &a, &c);
        }
        do_hnfu(ctx, &b);
        if i % 2 == 0 {
            let cn = 1 + ctx.rng.below(4) as usize;
            let c = rand_mat(ctx, cn, m, bits.min(64));
            do_union(ctx, &a, &c);
            do_union(ctx, &c, &a);
            do_union(ctx, &a, &a);
            // union with a sub-lattice is the lattice itself
            let mut sub = same_lattice(ctx, &a);
            for r in sub.iter_mut() {
                for x in r.iter_mut() {
                    *x *= 3;
                }
            }
            do_union(ctx, &a, &sub);
        }
    }
    // square full rank with known index, tall matrices with n > rank (kernel emphasis)
    for _ in 0..ctx.pick(100, 1500) {
        let m = 1 + ctx.rng.below(5) as usize;
        let n = m + 1 + ctx.rng.below(5) as usize;
        let a = rand_mat(ctx, n, m, 10);
        do_kernel(ctx, &a);
        do_hnfu(ctx, &a);
    }
    // 0 x 0 and zero matrices
    do_hnfu(ctx, &vec![]);
    do_hnfu(ctx, &vec![vec![BigInt::zero(); 3]; 2]);
    do_kernel(ctx, &vec![vec![BigInt::zero(); 3]; 2]);
    do_hnfnew(ctx, &vec![vec![BigInt::zero(); 1]; 1]);
}
