//! C12: `find_linear_factors` (poly_mod/linear.rs), with the random shifts captured and replayed.
use crate::c09::{pz, show_pz};
use crate::common::*;
use crate::pm::*;
use num::{BigInt, Integer, One, Zero};
use rust_number_theory::poly_mod::find_linear_factors;

/// op line: pm.roots f p planted draws => roots ; `planted` = `-` or the multiset the harness built in
fn do_roots(ctx: &mut Ctx, f: &[BigInt], p: &BigInt, planted: Option<&[BigInt]>, script: Vec<Vec<u8>>) {
    let seed = ctx.rng.next();
    run_roots(ctx, f, p, planted.map(show_ints).unwrap_or_else(|| "-".into()), seed, script);
}
fn run_roots(ctx: &mut Ctx, f: &[BigInt], p: &BigInt, planted: String, seed: u64, script: Vec<Vec<u8>>) {
    let pf = pz(f);
    let (ans, log) = run_rng(seed, script, || show_ints(&find_linear_factors::<BigInt>(&pf, p.clone())));
    ctx.emit("pm.roots", &[show_pz(&pf), p.to_string(), planted.clone(), log], ans);
    // the same generic routine at machine integers (what fits): i128 for p < 2^62, i64 for p < 2^30
    use num::ToPrimitive;
    let fits = |bits: u64| p.bits() <= bits && pf.dat.iter().all(|c| c.bits() <= bits);
    if fits(61) && (ctx.lines.len() % 3 == 0) {
        run_roots_machine(ctx, &pf.dat, p, &planted, true);
    }
    if fits(29) && (ctx.lines.len() % 3 == 1) {
        run_roots_machine(ctx, &pf.dat, p, &planted, false);
    }
    let _ = 0u8.to_u8();
}
fn run_roots_machine(ctx: &mut Ctx, f: &[BigInt], p: &BigInt, planted: &str, wide: bool) {
    use num::ToPrimitive;
    let seed = ctx.rng.next();
    let (ans, _log) = if wide {
        let pf = rust_number_theory::polynomial::Polynomial::from_raw(f.iter().map(|c| c.to_i128().unwrap()).collect::<Vec<i128>>());
        let pp = p.to_i128().unwrap();
        run_rng(seed, vec![], || {
            show_ints(&find_linear_factors::<i128>(&pf, pp).into_iter().map(BigInt::from).collect::<Vec<_>>())
        })
    } else {
        let pf = rust_number_theory::polynomial::Polynomial::from_raw(f.iter().map(|c| c.to_i64().unwrap()).collect::<Vec<i64>>());
        let pp = p.to_i64().unwrap();
        run_rng(seed, vec![], || {
            show_ints(&find_linear_factors::<i64>(&pf, pp).into_iter().map(BigInt::from).collect::<Vec<_>>())
        })
    };
    ctx.emit(if wide { "pm.roots.i128" } else { "pm.roots.i64" }, &[show_ints(f), p.to_string(), planted.to_string()], ans);
}

pub fn replay(ctx: &mut Ctx, f: &[&str]) -> bool {
    match (f[0], f.len()) {
        ("pm.roots", 5) => {
            let script = parse_chunks(f[4]);
            let n = ctx.lines.len();
            run_roots(ctx, &parse_ints(f[1]), &parse_int(f[2]), f[3].to_string(), 0, script);
            ctx.lines.truncate(n + 1);
        }
        ("pm.roots.i128" | "pm.roots.i64", 4) => {
            run_roots_machine(ctx, &parse_ints(f[1]), &parse_int(f[2]), f[3], f[0] == "pm.roots.i128");
        }
        _ => return false,
    }
    true
}

/// (x - r) mod p
fn lin(r: &BigInt, p: &BigInt) -> Vec<BigInt> {
    vec![(-r).mod_floor(p), BigInt::one()]
}
/// c · ∏ (x - r) · g reduced mod p
fn build(c: &BigInt, roots: &[BigInt], g: &[BigInt], p: &BigInt) -> Vec<BigInt> {
    let mut f = vec![c.clone()];
    for r in roots {
        f = reduce(&mul_z(&f, &lin(r, p)), p);
    }
    reduce(&mul_z(&f, g), p)
}
/// a root-free cofactor over F_p (p odd): 1, an irreducible quadratic x² − n, or a product of two
fn rootfree(ctx: &mut Ctx, p: &BigInt, maxdeg: usize) -> Vec<BigInt> {
    let quad = |ctx: &mut Ctx| vec![(-non_residue(ctx, p)).mod_floor(p), BigInt::zero(), BigInt::one()];
    match ctx.rng.below(4) {
        0 | 1 if maxdeg >= 2 => quad(ctx),
        2 if maxdeg >= 4 => {
            let (a, b) = (quad(ctx), quad(ctx));
            reduce(&mul_z(&a, &b), p)
        }
        _ => vec![BigInt::one()],
    }
}
/// a chunk of the right length that `gen_biguint_below(p)` rejects (all bits set)
fn rejected_chunk(p: &BigInt) -> Vec<u8> {
    vec![0xff; encode_below(p, &BigInt::zero()).len()]
}
/// a shift that does not separate r1 from r2: r1 − a and r2 − a are both squares or both non-squares
fn non_splitting(ctx: &mut Ctx, roots: &[BigInt], p: &BigInt) -> Option<BigInt> {
    for _ in 0..200 {
        let a = rand_res(ctx, p);
        if roots.iter().any(|r| (r - &a).mod_floor(p).is_zero()) {
            continue;
        }
        let first = is_qr(&(&roots[0] - &a), p);
        if roots.iter().all(|r| is_qr(&(r - &a), p) == first) {
            return Some(a);
        }
    }
    None
}

const PRIMS: [&str; 9] = [
    "pm.polymod", "pm.modinv", "pm.modpow", "pm.ofmod", "pm.divxa", "pm.modpowpoly", "pm.gcd", "pm.divrem", "pm.modsub",
];

pub fn generate(ctx: &mut Ctx) {
    generate_prims(ctx, &PRIMS, ctx.pick(120, 1500));
    let zero = BigInt::zero();
    // 1. every polynomial of bounded length over the small prime fields
    let small: [(u64, usize, usize); 6] = [(2, 9, 12), (3, 6, 8), (5, 4, 6), (7, 4, 5), (11, 3, 4), (13, 3, 4)];
    for (p, lq, lt) in small {
        let pb = BigInt::from(p);
        for v in all_small(ctx.pick(lq, lt), p) {
            let mut f = to_big(&v);
            if ctx.rng.chance(1, 8) {
                f = add_noise(ctx, &f, &pb, true, 10);
            }
            do_roots(ctx, &f, &pb, None, vec![]);
        }
    }
    // 2. planted roots with multiplicities and a root-free cofactor; primes of every size
    for i in 0..ctx.pick(700, 12000) {
        let p = loop {
            let p = rand_prime(ctx, i % 10 == 0);
            if p > BigInt::from(2) || i % 7 == 0 {
                break p;
            }
        };
        let two = p == BigInt::from(2);
        let nroots = ctx.rng.below(7) as usize;
        let mut roots: Vec<BigInt> = vec![];
        for _ in 0..nroots {
            let r = rand_res(ctx, &p);
            let e = match ctx.rng.below(8) {
                0 => 3,
                1 => 2,
                2 => 1 + ctx.rng.below(5) as usize,
                _ => 1,
            };
            for _ in 0..e {
                if roots.len() < 12 {
                    roots.push(r.clone());
                }
            }
        }
        let g = if two {
            // x² + x + 1 is the only irreducible quadratic over F_2
            if ctx.rng.chance(1, 2) { vec![BigInt::one(); 3] } else { vec![BigInt::one()] }
        } else {
            rootfree(ctx, &p, 12 - roots.len())
        };
        let mut c = rand_res(ctx, &p);
        if c.is_zero() {
            c = BigInt::one();
        }
        let mut f = build(&c, &roots, &g, &p);
        if ctx.rng.chance(1, 4) {
            f = add_noise(ctx, &f, &p, true, 70);
        }
        // scripted histories
        let mut script = vec![];
        if !two {
            match ctx.rng.below(6) {
                0 if !roots.is_empty() => {
                    // the drawn shift is a root (possibly a multiple one), several times over
                    for _ in 0..1 + ctx.rng.below(3) {
                        let r = roots[ctx.rng.below(roots.len() as u64) as usize].clone();
                        script.push(encode_range(&zero, &p, &r));
                    }
                }
                1 if !roots.is_empty() => {
                    // repeated shifts that do not split the set of roots
                    for _ in 0..1 + ctx.rng.below(4) {
                        if let Some(a) = non_splitting(ctx, &roots, &p) {
                            script.push(encode_range(&zero, &p, &a));
                        }
                    }
                }
                2 => {
                    // rejected samples in front of an accepted one, shift 0 and p − 1
                    script.push(rejected_chunk(&p));
                    script.push(rejected_chunk(&p));
                    script.push(encode_range(&zero, &p, &zero));
                    script.push(encode_range(&zero, &p, &(&p - 1)));
                }
                _ => {}
            }
        }
        do_roots(ctx, &f, &p, Some(&roots), script);
    }
    // 3. fixed cases: the library's own tests, a triple root hit by the shift, zero polynomial, constants
    let p23 = BigInt::from(23);
    let x2: Vec<BigInt> = vec![zero.clone(), zero.clone(), BigInt::one()];
    do_roots(ctx, &x2, &p23, Some(&[zero.clone(), zero.clone()]), vec![]);
    do_roots(ctx, &x2, &p23, Some(&[zero.clone(), zero.clone()]), vec![encode_range(&zero, &p23, &zero)]);
    let p = BigInt::from(104743);
    let f: Vec<BigInt> = [65696851i64, 38350500, -1304055, 1139835, 219113, 99535].iter().map(|&c| BigInt::from(c)).collect();
    let known: Vec<BigInt> = [15570, 20660, 69738].iter().map(|&c| BigInt::from(c)).collect();
    do_roots(ctx, &f, &p, Some(&known), vec![]);
    for p in [2u64, 3, 5, 101, M61] {
        let p = BigInt::from(p);
        do_roots(ctx, &[], &p, None, vec![]); // outside the property: f ≡ 0
        do_roots(ctx, &[p.clone(), p.clone() * 3], &p, None, vec![]); // f ≡ 0 but f ≠ 0
        do_roots(ctx, &[BigInt::from(1)], &p, Some(&[]), vec![]);
        do_roots(ctx, &[BigInt::from(-1)], &p, Some(&[]), vec![]);
        let seven = BigInt::from(7).mod_floor(&p);
        let cube = build(&BigInt::one(), &[seven.clone(), seven.clone(), seven.clone()], &[BigInt::one()], &p);
        let script = if p > BigInt::from(2) { vec![encode_range(&zero, &p, &seven); 3] } else { vec![] };
        do_roots(ctx, &cube, &p, Some(&[seven.clone(), seven.clone(), seven.clone()]), script);
    }
}
