//! C06: integral basis (integral_basis/mod.rs, integral_basis/round2.rs) = the maximal order.
//! `round2::one_step` is private (`mod round2;`): it is reached through `integral_basis::verif::one_step`.
use crate::c09::pz;
use crate::common::*;
use num::{BigInt, Integer, One, Signed, ToPrimitive, Zero};
use rust_number_theory::algebraic::Algebraic;
use rust_number_theory::discriminant::discriminant;
use rust_number_theory::integral_basis::find_integral_basis;
use rust_number_theory::order::{index, non_monic_initial_order};

type P = Vec<BigInt>;

fn iv(v: &[i64]) -> P {
    v.iter().map(|x| BigInt::from(*x)).collect()
}

// ---------------------------------------------------------------- running the implementation

/// `ib.basis f` ⇒ `B|disc|index`
fn do_basis(ctx: &mut Ctx, f: &[BigInt]) {
    let pf = pz(f);
    let ans = run(|| {
        let theta = Algebraic::new(pf.clone());
        let o = find_integral_basis(&theta);
        let idx = index(&o, &non_monic_initial_order(&theta));
        let d = o.discriminant(&theta);
        format!("{}|{}|{}", show_ratmat(&o.basis()), d, idx)
    });
    ctx.emit("ib.basis", &[show_ints(&pf.dat)], ans);
}
/// the same on an input outside the property's domain (only the model is compared)
fn do_any(ctx: &mut Ctx, f: &[BigInt]) {
    let n = ctx.lines.len();
    do_basis(ctx, f);
    let l = ctx.lines[n].replacen("ib.basis", "ib.any", 1);
    ctx.lines[n] = l;
}
fn field_disc(f: &[BigInt]) -> BigInt {
    let theta = Algebraic::new(pz(f));
    find_integral_basis(&theta).discriminant(&theta)
}
/// `ib.disc f expected` ⇒ discriminant of the computed order
fn do_disc(ctx: &mut Ctx, f: &[BigInt], expected: &BigInt) {
    let pf = pz(f);
    let ans = run(|| field_disc(&pf.dat).to_string());
    ctx.emit("ib.disc", &[show_ints(&pf.dat), expected.to_string()], ans);
}
/// `ib.same f g` ⇒ the two discriminants (f, g define the same field)
fn do_same(ctx: &mut Ctx, f: &[BigInt], g: &[BigInt]) {
    let (pf, pg) = (pz(f), pz(g));
    let ans = run(|| format!("{} {}", field_disc(&pf.dat), field_disc(&pg.dat)));
    ctx.emit("ib.same", &[show_ints(&pf.dat), show_ints(&pg.dat)], ans);
}
/// process level: `rust-number-theory <config>` with to_find = integral_basis ⇒ `reduced_index discriminant`
fn do_cli(ctx: &mut Ctx, f: &[BigInt]) {
    let v = variant_of(&[show_ints(f)]);
    let before: &[&str] = if v >= 3 { &["resultant", "prime-decomposition"] } else { &["prime-decomposition", "factorization-mod-p"] };
    let cfg = format!("to_find = {}\n[input]\npolynomials = {}\n", to_find_list("integral_basis", before, v), toml_polys(&[f], v));
    if let Some(out) = run_cli(&cfg) {
        let ans = if out.starts_with("panic") {
            out
        } else {
            match (json_field(&out, "reduced_index"), json_field(&out, "discriminant")) {
                (Some(i), Some(d)) => format!("{i} {d}"),
                _ => "noanswer".into(),
            }
        };
        ctx.emit("cli.ib", &[show_ints(f)], ans);
    }
}

fn replay_onestep(ctx: &mut Ctx, f: &[BigInt], b: &[Vec<num::BigRational>], p: &BigInt) {
    let pf = pz(f);
    let theta = Algebraic::new(pf.clone());
    let ans = run(|| {
        let o = rust_number_theory::order::Order::from_basis(b);
        let (o2, h) = rust_number_theory::integral_basis::verif::one_step(&theta, &o, p);
        format!("{}|{}", show_ratmat(&o2.basis()), h)
    });
    ctx.emit("ib.onestep", &[show_ints(&pf.dat), show_ratmat(b), p.to_string()], ans);
}

pub fn replay(ctx: &mut Ctx, f: &[&str]) -> bool {
    if f[0] == "ib.onestep" && f.len() == 4 {
        replay_onestep(ctx, &parse_ints(f[1]), &parse_ratmat(f[2]), &parse_int(f[3]));
        return true;
    }
    match (f[0], f.len()) {
        ("ib.basis", 2) => do_basis(ctx, &parse_ints(f[1])),
        ("ib.any", 2) => do_any(ctx, &parse_ints(f[1])),
        ("ib.disc", 3) => do_disc(ctx, &parse_ints(f[1]), &parse_int(f[2])),
        ("ib.same", 3) => do_same(ctx, &parse_ints(f[1]), &parse_ints(f[2])),
        ("cli.ib", 2) => do_cli(ctx, &parse_ints(f[1])),
        _ => return false,
    }
    true
}

// ---------------------------------------------------------------- polynomial helpers (harness side)

fn pmul(a: &[BigInt], b: &[BigInt]) -> P {
    if a.is_empty() || b.is_empty() {
        return vec![];
    }
    let mut out = vec![BigInt::zero(); a.len() + b.len() - 1];
    for (i, x) in a.iter().enumerate() {
        for (j, y) in b.iter().enumerate() {
            out[i + j] += x * y;
        }
    }
    out
}
fn primitive(f: &[BigInt]) -> P {
    let g = f.iter().fold(BigInt::zero(), |g, c| g.gcd(c));
    if g.is_zero() || g.is_one() {
        f.to_vec()
    } else {
        f.iter().map(|c| c / &g).collect()
    }
}
/// minimal polynomial of θ + k: f(x − k)
fn shift(f: &[BigInt], k: i64) -> P {
    let lin = vec![BigInt::from(-k), BigInt::one()];
    let mut acc: P = vec![];
    for a in f.iter().rev() {
        acc = pmul(&acc, &lin);
        if acc.is_empty() {
            acc = vec![a.clone()];
        } else {
            acc[0] += a;
        }
    }
    acc
}
/// minimal polynomial of −θ: f(−x)
fn negate(f: &[BigInt]) -> P {
    f.iter().enumerate().map(|(i, a)| if i % 2 == 1 { -a } else { a.clone() }).collect()
}
/// minimal polynomial of cθ: c^n f(x / c), made primitive
fn scale(f: &[BigInt], c: i64) -> P {
    let n = f.len() - 1;
    let c = BigInt::from(c);
    primitive(&f.iter().enumerate().map(|(i, a)| a * num::pow(c.clone(), n - i)).collect::<Vec<_>>())
}
/// minimal polynomial of 1/θ: x^n f(1 / x)
fn reverse(f: &[BigInt]) -> P {
    f.iter().rev().cloned().collect()
}

/// f mod q (q a small prime not dividing the leading coefficient) has no factor of degree 1..=n/2
fn irreducible_mod(f: &[BigInt], q: i64) -> bool {
    let fm: Vec<i64> = f.iter().map(|c| c.mod_floor(&BigInt::from(q)).to_i64().unwrap()).collect();
    let n = fm.len() - 1;
    if fm[n] == 0 {
        return false;
    }
    if n == 1 {
        return true;
    }
    for d in 1..=n / 2 {
        // all monic g of degree d
        let total = (q as u64).pow(d as u32);
        for code in 0..total {
            let mut g = vec![0i64; d + 1];
            let mut c = code;
            for gi in g.iter_mut().take(d) {
                *gi = (c % q as u64) as i64;
                c /= q as u64;
            }
            g[d] = 1;
            // remainder of fm by g
            let mut r = fm.clone();
            for i in (d..=n).rev() {
                let coef = r[i];
                if coef != 0 {
                    for j in 0..=d {
                        r[i - d + j] = (r[i - d + j] - coef * g[j]).rem_euclid(q);
                    }
                }
            }
            if r.iter().take(d).all(|x| *x == 0) {
                return false;
            }
        }
    }
    true
}
/// sufficient test: primitive and irreducible modulo one of a few small primes
fn certainly_irreducible(f: &[BigInt]) -> bool {
    if f.len() < 2 || primitive(f) != f {
        return false;
    }
    [2i64, 3, 5, 7, 11, 13].iter().any(|q| {
        let max_d = (f.len() - 1) / 2;
        (*q as u64).pow(max_d as u32) <= 3000 && irreducible_mod(f, *q)
    })
}
/// the trial division inside `find_integral_basis` (and in the model) runs up to the square root of
/// the cofactor left after the small primes: keep that below `bound` iterations
fn tractable(ctx: &Ctx, f: &[BigInt]) -> bool {
    let mut d = discriminant(&pz(f)).abs();
    if d.is_zero() {
        return false;
    }
    for p in 2..2000u32 {
        let p = BigInt::from(p);
        while (&d % &p).is_zero() {
            d /= &p;
        }
    }
    let bound = if ctx.thorough { 400_000u64 } else { 60_000u64 };
    d <= BigInt::from(bound) * BigInt::from(bound)
}

// ---------------------------------------------------------------- closed forms

/// (squarefree part with sign, square root of the rest) of a non-zero integer
fn squarefree_part(d: i64) -> (i64, i64) {
    let mut core = d;
    let mut s = 1;
    let mut p = 2;
    while p * p <= core.abs() {
        while core % (p * p) == 0 {
            core /= p * p;
            s *= p;
        }
        p += 1;
    }
    (core, s)
}
/// discriminant of Q(sqrt d), d ≠ 0, 1 squarefree
fn quad_disc(d: i64) -> i64 {
    if d.rem_euclid(4) == 1 {
        d
    } else {
        4 * d
    }
}
/// discriminant of Q(cbrt m), m not a cube: m = a b^2 c^3 (a, b squarefree, coprime):
/// −27 a²b² unless a² ≡ b² mod 9, then −3 a²b² (Dedekind)
fn cubic_disc(m: i64) -> i64 {
    let mut m = m.abs();
    let (mut a, mut b) = (1i64, 1i64);
    let mut p = 2;
    while m > 1 {
        let mut e = 0;
        while m % p == 0 {
            m /= p;
            e += 1;
        }
        match e % 3 {
            1 => a *= p,
            2 => b *= p,
            _ => {}
        }
        p += 1;
    }
    let ab2 = a * a * b * b;
    if (a * a - b * b).rem_euclid(9) == 0 {
        -3 * ab2
    } else {
        -27 * ab2
    }
}
fn is_cube(m: i64) -> bool {
    let r = (m.abs() as f64).cbrt().round() as i64;
    (r - 1..=r + 1).any(|t| t * t * t == m.abs())
}
fn is_square(m: i64) -> bool {
    if m < 0 {
        return false;
    }
    let r = (m as f64).sqrt().round() as i64;
    (r - 1..=r + 1).any(|t| t >= 0 && t * t == m)
}
/// Φ_n, n ≤ 12
fn cyclotomic(n: u32) -> P {
    match n {
        1 => iv(&[-1, 1]),
        2 => iv(&[1, 1]),
        3 => iv(&[1, 1, 1]),
        4 => iv(&[1, 0, 1]),
        5 => iv(&[1, 1, 1, 1, 1]),
        6 => iv(&[1, -1, 1]),
        7 => iv(&[1, 1, 1, 1, 1, 1, 1]),
        8 => iv(&[1, 0, 0, 0, 1]),
        9 => iv(&[1, 0, 0, 1, 0, 0, 1]),
        10 => iv(&[1, -1, 1, -1, 1]),
        11 => iv(&[1, 1, 1, 1, 1, 1, 1, 1, 1, 1, 1]),
        12 => iv(&[1, 0, -1, 0, 1]),
        _ => unreachable!(),
    }
}
/// disc Q(ζ_n) = (−1)^(φ/2) n^φ / Π_{p | n} p^(φ/(p−1)) (n > 2), 1 for n ≤ 2
fn cyclotomic_disc(n: u32) -> BigInt {
    if n <= 2 {
        return BigInt::one();
    }
    let phi = (1..=n).filter(|k| k.gcd(&n) == 1).count() as u32;
    let mut d = num::pow(BigInt::from(n), phi as usize);
    for p in 2..=n {
        if n % p == 0 && (2..p).all(|q| p % q != 0) {
            d /= num::pow(BigInt::from(p), (phi / (p - 1)) as usize);
        }
    }
    if (phi / 2) % 2 == 1 {
        -d
    } else {
        d
    }
}
fn gcd_i(a: i64, b: i64) -> i64 {
    a.gcd(&b)
}

// ---------------------------------------------------------------- generators

/// the generator changes of the property: θ+k, −θ, cθ, 1/θ (same field ⇒ same discriminant)
fn generator_changes(ctx: &mut Ctx, f: &[BigInt], how_many: usize) -> Vec<P> {
    let mut out = vec![];
    for _ in 0..how_many {
        let g = match ctx.rng.below(6) {
            0 => shift(f, if ctx.rng.chance(1, 2) { ctx.rng.range(1, 4) } else { -ctx.rng.range(1, 4) }),
            1 => negate(f),
            2 | 3 => scale(f, ctx.rng.range(2, 6)),
            4 => reverse(f),
            _ => {
                // two in a row
                let c = ctx.rng.range(2, 4);
                let k = ctx.rng.range(-2, 2);
                let g = shift(&scale(f, c), k);
                if ctx.rng.chance(1, 2) {
                    reverse(&g)
                } else {
                    g
                }
            }
        };
        if g.len() == f.len() && !g[0].is_zero() {
            out.push(g);
        }
    }
    out
}

/// random primitive polynomial of degree `deg` with coefficients in [−5, 5], irreducible modulo a small prime
fn random_irreducible(ctx: &mut Ctx, deg: usize) -> Option<P> {
    for _ in 0..200 {
        let mut f: P = (0..=deg).map(|_| ctx.rng.small(5)).collect();
        if ctx.rng.chance(1, 2) {
            f[deg] = BigInt::one();
        }
        if f[deg].is_zero() || f[0].is_zero() {
            continue;
        }
        if certainly_irreducible(&f) && tractable(ctx, &f) {
            return Some(f);
        }
    }
    None
}

/// `ib.onestep f B p` ⇒ `B'|howmany`: the private Round 2 step through the feature-guarded wrapper,
/// chained from the starting order for every prime whose square divides its discriminant
fn do_onestep_chain(ctx: &mut Ctx, f: &[BigInt]) {
    let pf = pz(f);
    let theta = Algebraic::new(pf.clone());
    let start = match std::panic::catch_unwind(std::panic::AssertUnwindSafe(|| {
        let o = non_monic_initial_order(&theta);
        let d = o.discriminant(&theta);
        (o, d)
    })) {
        Ok(x) => x,
        Err(_) => return,
    };
    let (mut o, d) = start;
    if d.is_zero() || d.abs() > BigInt::from(1u64 << 62) {
        return;
    }
    let fac = rust_number_theory::factorize::factorize(&d.abs());
    for (p, e) in fac {
        if e < 2 {
            continue;
        }
        for _ in 0..6 {
            let basis = o.basis();
            let mut next = None;
            let ans = run(|| {
                let (o2, h) = rust_number_theory::integral_basis::verif::one_step(&theta, &o, &p);
                let s = format!("{}|{}", show_ratmat(&o2.basis()), h);
                next = Some((o2, h));
                s
            });
            ctx.emit("ib.onestep", &[show_ints(&pf.dat), show_ratmat(&basis), p.to_string()], ans);
            match next {
                Some((o2, h)) if h > 0 => o = o2,
                _ => break,
            }
        }
    }
}

fn full(ctx: &mut Ctx, f: &[BigInt]) {
    do_basis(ctx, f);
    if ctx.lines.len() % 3 == 0 {
        do_onestep_chain(ctx, f);
    }
}

pub fn generate(ctx: &mut Ctx) {
    // a pool of base polynomials whose generator is changed below
    let mut pool: Vec<P> = vec![];

    // 1. the unit tests of integral_basis/mod.rs with their hard-coded discriminants
    let tests: Vec<(P, i64)> = vec![
        (iv(&[5, 6, -7, 6, -7, 6]), 7601837),
        (iv(&[37, 2, 1]), -4),
        (iv(&[4, 3, 2, 1]), -200),
        (iv(&[5, 4, 3, 2, 1]), 10800),
        (iv(&[6, 5, 4, 3, 2, 1]), 1037232),
        (iv(&[7, 6, 5, 4, 3, 2, 1]), -9834496),
        (iv(&[8, 7, 6, 5, 4, 3, 2, 1]), -241864704),
    ];
    for (f, d) in &tests {
        full(ctx, f);
        do_disc(ctx, f, &BigInt::from(*d));
        do_cli(ctx, f);
        if f.len() <= 6 {
            pool.push(f.clone());
        }
    }
    // the CLI normalises lists that end in zero coefficients
    do_cli(ctx, &iv(&[-2, 0, 1, 0]));
    do_cli(ctx, &iv(&[37, 2, 1, 0, 0]));
    // order.rs tests: 1 + 6i
    full(ctx, &iv(&[37, -2, 1]));
    do_disc(ctx, &iv(&[37, -2, 1]), &BigInt::from(-4));

    // outside the domain (model comparison only): repeated roots, reducible, not primitive
    for f in [
        iv(&[1, 2, 1]),
        iv(&[0, 0, 1]),
        iv(&[-1, 0, 1]),
        iv(&[0, -1, 0, 1]),
        iv(&[2, 0, 2]),
        iv(&[4, 0, 0, 2]),
        iv(&[-4, 0, 0, 0, 1]),
        iv(&[4, 0, 0, 0, 1]),
        iv(&[6, 5, 1]),
        iv(&[-6, 1, 1, 6]),
        iv(&[1, 0, 2, 0, 1]),
        iv(&[3, 6]),
        iv(&[-16, 0, 0, 0, 0, 0, 0, 0, 1]),
    ] {
        do_any(ctx, &f);
    }

    // 2. degree 1 (the field is Q)
    for f in [iv(&[-1, 1]), iv(&[1, 1]), iv(&[3, 2]), iv(&[0, 1]), iv(&[7, -5])] {
        full(ctx, &f);
        do_disc(ctx, &f, &BigInt::one());
    }

    // 3. quadratic fields: x^2 − d, every non-square d in a range
    let dmax = ctx.pick(60, 300) as i64;
    for d in -dmax..=dmax {
        if d == 0 || is_square(d) {
            continue;
        }
        let f = iv(&[-d, 0, 1]);
        let (core, _) = squarefree_part(d);
        full(ctx, &f);
        do_disc(ctx, &f, &BigInt::from(quad_disc(core)));
    }
    // x^2 + bx + c
    let bmax = ctx.pick(6, 12) as i64;
    for b in -bmax..=bmax {
        for c in -bmax..=bmax {
            let dd = b * b - 4 * c;
            if dd == 0 || is_square(dd) {
                continue;
            }
            let f = iv(&[c, b, 1]);
            let (core, _) = squarefree_part(dd);
            if (b + c) % 3 == 0 || ctx.thorough {
                full(ctx, &f);
            }
            do_disc(ctx, &f, &BigInt::from(quad_disc(core)));
        }
    }
    // prime-power (and composite) indices: the generator kω + m of Q(sqrt d0), index k
    let ks: Vec<i64> = vec![2, 4, 8, 16, 32, 64, 1024, 3, 9, 27, 81, 243, 5, 25, 125, 625, 7, 49, 6, 12, 30, 36, 210, 1000];
    let d0s: Vec<i64> = vec![-1, 2, -3, 5, -7, 13, -15, 17, 21, 33, -163, 101];
    for (ki, &k) in ks.iter().enumerate() {
        for (di, &d0) in d0s.iter().enumerate() {
            if !ctx.thorough && (ki + di) % 3 != 0 {
                continue;
            }
            // ω² − tω + nn = 0
            let (t, nn) = if d0.rem_euclid(4) == 1 { (1, (1 - d0) / 4) } else { (0, -d0) };
            let m = ctx.rng.range(-3, 3);
            let f = iv(&[m * m + t * k * m + nn * k * k, -(2 * m + t * k), 1]);
            full(ctx, &f);
            do_disc(ctx, &f, &BigInt::from(quad_disc(d0)));
            // non-monic companion: the reversed polynomial (generator 1/(kω + m))
            if !f[0].is_zero() {
                let r = reverse(&f);
                full(ctx, &r);
                do_disc(ctx, &r, &BigInt::from(quad_disc(d0)));
            }
        }
    }

    // 4. pure cubic fields x^3 − m (m ≡ ±1 mod 9 included, cube factors included)
    let mmax = ctx.pick(60, 250) as i64;
    for m in -mmax..=mmax {
        if m == 0 || is_cube(m) {
            continue;
        }
        if !ctx.thorough && m < 0 && m % 3 != 0 {
            continue;
        }
        let f = iv(&[-m, 0, 0, 1]);
        full(ctx, &f);
        do_disc(ctx, &f, &BigInt::from(cubic_disc(m)));
        if m.abs() <= 12 {
            pool.push(f);
        }
    }
    for m in [2 * 27, 3 * 64, 10 * 125, 19 * 8, 17 * 27, 28 * 8, 26 * 27, 4 * 125, 9 * 8, 12 * 27, 2 * 729] {
        let f = iv(&[-m, 0, 0, 1]);
        full(ctx, &f);
        do_disc(ctx, &f, &BigInt::from(cubic_disc(m)));
    }

    // 5. cyclotomic fields (Φ_11 has degree 10: thorough tier only)
    for n in 1..=12u32 {
        if n == 11 && !ctx.thorough {
            continue;
        }
        let f = cyclotomic(n);
        full(ctx, &f);
        do_disc(ctx, &f, &cyclotomic_disc(n));
        do_cli(ctx, &f);
        if n >= 3 && f.len() <= 7 {
            pool.push(f);
        }
    }

    // 6. biquadratic fields Q(sqrt a, sqrt b): x^4 − 2(a + b)x^2 + (a − b)^2, disc = D(a) D(b) D(c)
    let sf: Vec<i64> = vec![-7, -6, -5, -3, -2, -1, 2, 3, 5, 6, 7, 10, 13, -11, 17, 21];
    for (i, &a) in sf.iter().enumerate() {
        for (j, &b) in sf.iter().enumerate() {
            if j <= i {
                continue;
            }
            if !ctx.thorough && (i + j) % 3 != 0 {
                continue;
            }
            let g = gcd_i(a, b);
            let c = a * b / (g * g);
            let f = iv(&[(a - b) * (a - b), 0, -2 * (a + b), 0, 1]);
            full(ctx, &f);
            do_disc(ctx, &f, &BigInt::from(quad_disc(a) * quad_disc(b) * quad_disc(c)));
            if a.abs() <= 3 && b.abs() <= 3 {
                pool.push(f);
            }
        }
    }

    // 7. non-monic polynomials
    let nonmonic: Vec<P> = vec![
        iv(&[3, -2, 1, 2]),
        iv(&[5, 6, -7, 6, -7, 6]),
        iv(&[1, 0, 2]),
        iv(&[1, 1, 2]),
        iv(&[3, 0, 0, 2]),
        iv(&[2, 0, 0, 3]),
        iv(&[1, 0, 0, 4]),
        iv(&[-2, 0, 0, 9]),
        iv(&[1, 1, 1, 1, 4]),
        iv(&[1, 0, 0, 0, 2]),
        iv(&[7, 0, 3, 0, 4]),
        iv(&[1, 2, 3, 4, 5]),
        iv(&[1, -1, 1, -1, 1, 6]),
        iv(&[5, 0, 0, 0, 0, 3]),
        iv(&[2, -1]),
        iv(&[-2, 0, -1]),
        iv(&[2, 0, 0, -1]),
        iv(&[3, -2, 1, -2]),
        iv(&[-1, -1, -1, -1, -1]),
    ];
    for f in &nonmonic {
        full(ctx, f);
        do_cli(ctx, f);
        if f.len() >= 3 {
            pool.push(f.clone());
        }
    }
    do_disc(ctx, &iv(&[1, 0, 2]), &BigInt::from(-8));
    do_disc(ctx, &iv(&[3, 0, 0, 2]), &BigInt::from(cubic_disc(12)));
    do_disc(ctx, &iv(&[1, 0, 0, 4]), &BigInt::from(cubic_disc(2)));
    do_disc(ctx, &iv(&[-2, 0, 0, 9]), &BigInt::from(cubic_disc(6)));
    do_disc(ctx, &iv(&[1, 0, 0, 0, 2]), &BigInt::from(2048));
    do_disc(ctx, &iv(&[-2, 0, -1]), &BigInt::from(-8));
    do_disc(ctx, &iv(&[2, 0, 0, -1]), &BigInt::from(cubic_disc(2)));

    // 7b. pure fields x^n − a with a = ± p^k q: several Round 2 iterations at the same prime
    // (x^n − a is irreducible iff a is no l-th power for the primes l | n and, for 4 | n, a ∉ −4Z^4)
    for n in 3..=ctx.pick(5, 6) {
        for &pp in &[2i64, 3, 5] {
            for k in 1..=ctx.pick(6, 9) as u32 {
                for &q in &[1i64, -1, 3, 7, -10] {
                    if !ctx.thorough && (n + k as usize + (q.unsigned_abs() as usize)) % 2 == 0 {
                        continue;
                    }
                    let a = pp.pow(k) * q;
                    let nth_power = |l: u32| {
                        let r = (a.abs() as f64).powf(1.0 / l as f64).round() as i64;
                        (r - 1..=r + 1).any(|t| t.pow(l) == a || (l % 2 == 1 && t.pow(l) == -a))
                    };
                    let reducible = match n {
                        3 => nth_power(3),
                        4 => is_square(a) || (a < 0 && a % 4 == 0 && is_square(-a / 4) && is_square(((-a / 4) as f64).sqrt().round() as i64)),
                        5 => nth_power(5),
                        _ => is_square(a) || nth_power(3),
                    };
                    if reducible {
                        continue;
                    }
                    let mut f = vec![BigInt::zero(); n + 1];
                    f[0] = BigInt::from(-a);
                    f[n] = BigInt::one();
                    if tractable(ctx, &f) {
                        full(ctx, &f);
                        if k <= 2 && q.abs() <= 3 && n <= 4 {
                            pool.push(f);
                        }
                    }
                }
            }
        }
    }

    // 8. random irreducible polynomials, coefficients in [−5, 5]
    let maxdeg = ctx.pick(5, 6);
    let nrand = ctx.pick(500, 5000);
    for i in 0..nrand {
        // degree 2 rarely (section 3 covers it), the others evenly
        let deg = if i % 10 == 0 { 2 } else { 3 + i % (maxdeg - 2) };
        if let Some(f) = random_irreducible(ctx, deg) {
            full(ctx, &f);
            if i % 4 == 0 {
                pool.push(f.clone());
            }
            if i % 16 == 0 {
                do_cli(ctx, &f);
            }
        }
    }

    gen_cli_big_shift(ctx);
    // a large prime whose square divides the discriminant of the starting order (index q, q^3): the
    // Round 2 step then works modulo a prime of 22 bits and its square
    {
        let q = BigInt::from(3000017u64);
        // x^2 + x + (1 + 3 q^2)/4: Q(sqrt(-3)), discriminant -3, index q
        let c0 = (BigInt::one() + BigInt::from(3) * &q * &q) / BigInt::from(4);
        let f2 = vec![c0, BigInt::one(), BigInt::one()];
        do_disc(ctx, &f2, &BigInt::from(-3));
        do_basis(ctx, &f2);
        // (x - 1000)^3 - q^2 (x - 1000) - q^3: the field of x^3 - x - 1 (discriminant -23), index q^3
        let base = vec![-(&q * &q * &q), -(&q * &q), BigInt::zero(), BigInt::one()];
        let f3 = shift(&base, 1000);
        do_disc(ctx, &f3, &BigInt::from(-23));
        if ctx.thorough {
            do_basis(ctx, &f3);
        }
    }
    // 9. changes of generator on the pool: θ+k, −θ, cθ (c ≤ 6: large prime-power indices), 1/θ
    let per = ctx.pick(3, 6);
    let pool2 = pool.clone();
    for f in &pool2 {
        if !certainly_irreducible_or_known(f) {
            continue;
        }
        for g in generator_changes(ctx, f, per) {
            if !tractable(ctx, &g) {
                continue;
            }
            full(ctx, &g);
            do_same(ctx, f, &g);
        }
    }
    // every change once on a few fixed fields (deterministic part)
    for f in [iv(&[-2, 0, 0, 1]), iv(&[1, 1, 0, 1]), iv(&[1, 1, 1, 1, 1]), iv(&[1, -1, 0, 0, 1]), iv(&[3, -2, 1, 2]), iv(&[1, 0, -1, 0, 1])] {
        let mut gs = vec![negate(&f), reverse(&f)];
        for k in [-3i64, -1, 1, 2] {
            gs.push(shift(&f, k));
        }
        for c in 2..=6i64 {
            gs.push(scale(&f, c));
        }
        for g in gs {
            full(ctx, &g);
            do_same(ctx, &f, &g);
        }
    }
}

/// the same fields through the command line with a generator shifted far away: coefficients beyond
/// 2^53 and 2^64 (the configuration carries them as decimal strings; nothing may round them)
fn gen_cli_big_shift(ctx: &mut Ctx) {
    for f in [iv(&[-77, 0, 1]), iv(&[-2, 0, 0, 1]), iv(&[3, 0, 1]), iv(&[1, 1, 0, 1])] {
        for k in [1_000_003i64, 1_000_000_000, 94_906_267, 3_037_000_501] {
            let g = shift(&f, k);
            do_cli(ctx, &g);
            if f.len() == 3 {
                do_same(ctx, &f, &g);
            }
        }
    }
}

/// pool members are irreducible by construction (families) or by the modular test (random ones)
fn certainly_irreducible_or_known(f: &[BigInt]) -> bool {
    f.len() >= 3 && !f[0].is_zero() && f.last().map_or(false, |c| !c.is_zero()) && !f.iter().any(|c| c.abs() > BigInt::from(1_000_000))
}
