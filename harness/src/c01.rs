//! C01: integer factorisation (ecm.rs, ecm_parallel.rs, factorize.rs, rfactor), with the random
//! history (curves, points and the Miller–Rabin bases drawn inside the drivers) captured and replayed.
//!
//! Op lines (see lean/NTV/Driver/C01.lean):
//!   ecm.add p q a n | ecm.mul p e a n | ecm.oneshot p a n b1 b2 prof
//!   ecmp.simplify batch n | ecmp.adds batch n | ecmp.oneshot batch n b1 b2 prof
//!   ecm.ecm n b1 b2 prof draws | ecmp.ecm n b1 b2 prof draws | selectb n
//!   ecm.factorize n b expected prof draws | ecmp.factorize … | td.factorize n expected
//!   rfactor mode n   (only when RFACTOR_BIN points to a built `rfactor`)
//! `prof` is the profile of *this* binary (dev: overflow checks + debug assertions; release: neither).
use crate::common::*;
use num::{ToPrimitive, BigInt, One, Signed, Zero};
use rust_number_theory::ecm::verif as ev;
use rust_number_theory::ecm_parallel::verif as pv;
use rust_number_theory::{ecm, ecm_parallel, factorize};

type P3 = (BigInt, BigInt, BigInt);

fn prof() -> &'static str {
    if cfg!(debug_assertions) {
        "dev"
    } else {
        "release"
    }
}

fn big(x: u64) -> BigInt {
    BigInt::from(x)
}
fn show_pt(p: &P3) -> String {
    format!("{},{},{}", p.0, p.1, p.2)
}
fn show_pts(v: &[P3]) -> String {
    if v.is_empty() {
        return "_".into();
    }
    v.iter().map(show_pt).collect::<Vec<_>>().join(";")
}
fn parse_pt(s: &str) -> P3 {
    let v = parse_ints(s);
    (v[0].clone(), v[1].clone(), v[2].clone())
}
fn show_res_pt(r: Result<P3, BigInt>) -> String {
    match r {
        Ok(p) => format!("ok {}", show_pt(&p)),
        Err(d) => format!("err {d}"),
    }
}
fn show_res_pts(r: Result<Vec<P3>, BigInt>) -> String {
    match r {
        Ok(v) => format!("ok {}", show_pts(&v)),
        Err(d) => format!("err {d}"),
    }
}
fn show_res_unit(r: Result<(), BigInt>) -> String {
    match r {
        Ok(()) => "ok".into(),
        Err(d) => format!("err {d}"),
    }
}
fn show_pairs(v: &[(BigInt, u64)]) -> String {
    if v.is_empty() {
        return "_".into();
    }
    v.iter().map(|(p, e)| format!("{p}:{e}")).collect::<Vec<_>>().join(",")
}

// ------------------------------------------------------------------ deterministic helpers (u64)

fn mulmod(a: u64, b: u64, m: u64) -> u64 {
    ((a as u128 * b as u128) % m as u128) as u64
}
fn powmod(mut b: u64, mut e: u64, m: u64) -> u64 {
    let mut r = 1 % m;
    b %= m;
    while e > 0 {
        if e & 1 == 1 {
            r = mulmod(r, b, m);
        }
        b = mulmod(b, b, m);
        e >>= 1;
    }
    r
}
/// deterministic Miller–Rabin, exact below 2^64 (first twelve prime bases)
fn is_prime_u64(n: u64) -> bool {
    if n < 2 {
        return false;
    }
    for p in [2u64, 3, 5, 7, 11, 13, 17, 19, 23, 29, 31, 37] {
        if n % p == 0 {
            return n == p;
        }
    }
    let (mut d, mut c) = (n - 1, 0);
    while d % 2 == 0 {
        d /= 2;
        c += 1;
    }
    'outer: for a in [2u64, 3, 5, 7, 11, 13, 17, 19, 23, 29, 31, 37] {
        let mut x = powmod(a, d, n);
        if x == 1 || x == n - 1 {
            continue;
        }
        for _ in 1..c {
            x = mulmod(x, x, n);
            if x == n - 1 {
                continue 'outer;
            }
        }
        return false;
    }
    true
}
fn next_prime(mut n: u64) -> u64 {
    while !is_prime_u64(n) {
        n += 1;
    }
    n
}
/// random prime with exactly `bits` bits (bits >= 2)
fn rand_prime(ctx: &mut Ctx, bits: u64) -> u64 {
    loop {
        let lo = 1u64 << (bits - 1);
        let p = next_prime(lo + ctx.rng.below(lo));
        if p >> (bits - 1) == 1 {
            return p;
        }
    }
}
/// exact factorisation of a product of known primes, as the `expected` argument
fn expected_of(primes: &[BigInt]) -> String {
    let mut v: Vec<BigInt> = primes.to_vec();
    v.sort();
    let mut out: Vec<(BigInt, u64)> = vec![];
    for p in v {
        match out.last_mut() {
            Some((q, e)) if *q == p => *e += 1,
            _ => out.push((p, 1)),
        }
    }
    show_pairs(&out)
}
fn is_carmichael(n: u64) -> bool {
    if n % 2 == 0 || is_prime_u64(n) {
        return false;
    }
    let mut m = n;
    let mut p = 3;
    while p * p <= m {
        if m % p == 0 {
            m /= p;
            if m % p == 0 || (n - 1) % (p - 1) != 0 {
                return false;
            }
        }
        p += 2;
    }
    m == 1 || (n - 1) % (m - 1) == 0
}

// ------------------------------------------------------------------ single operations

fn do_add(ctx: &mut Ctx, p: &P3, q: &P3, a: &BigInt, n: &BigInt) {
    let ans = run(|| show_res_pt(ev::point_add(p, q, a, n)));
    ctx.emit("ecm.add", &[show_pt(p), show_pt(q), a.to_string(), n.to_string()], ans);
}
fn do_mul(ctx: &mut Ctx, p: &P3, e: &BigInt, a: &BigInt, n: &BigInt) {
    let ans = run(|| show_res_pt(ev::point_mul(p, e, a, n)));
    ctx.emit("ecm.mul", &[show_pt(p), e.to_string(), a.to_string(), n.to_string()], ans);
}
fn do_oneshot(ctx: &mut Ctx, p: &P3, a: &BigInt, n: &BigInt, b1: u64, b2: u64) {
    let ans = run(|| show_res_unit(ev::oneshot(p, a, n, b1, b2)));
    ctx.emit(
        "ecm.oneshot",
        &[show_pt(p), a.to_string(), n.to_string(), b1.to_string(), b2.to_string(), prof().into()],
        ans,
    );
}
fn do_simplify(ctx: &mut Ctx, pts: &[P3], n: &BigInt) {
    let ans = run(|| show_res_pts(pv::many_simplify(pts, n)));
    ctx.emit("ecmp.simplify", &[show_pts(pts), n.to_string()], ans);
}
fn show_triples(ts: &[(P3, P3, BigInt)]) -> String {
    if ts.is_empty() {
        return "_".into();
    }
    ts.iter().map(|(p, q, a)| format!("{},{},{}", show_pt(p), show_pt(q), a)).collect::<Vec<_>>().join(";")
}
fn parse_triples(s: &str) -> Vec<(P3, P3, BigInt)> {
    parse_mat(s)
        .into_iter()
        .map(|r| ((r[0].clone(), r[1].clone(), r[2].clone()), (r[3].clone(), r[4].clone(), r[5].clone()), r[6].clone()))
        .collect()
}
fn do_adds(ctx: &mut Ctx, ts: &[(P3, P3, BigInt)], n: &BigInt) {
    let ans = run(|| show_res_pts(pv::many_adds(ts, n)));
    ctx.emit("ecmp.adds", &[show_triples(ts), n.to_string()], ans);
}
fn show_joint(j: &[(P3, BigInt)]) -> String {
    if j.is_empty() {
        return "_".into();
    }
    j.iter().map(|(p, a)| format!("{},{}", show_pt(p), a)).collect::<Vec<_>>().join(";")
}
fn parse_joint(s: &str) -> Vec<(P3, BigInt)> {
    parse_mat(s).into_iter().map(|r| ((r[0].clone(), r[1].clone(), r[2].clone()), r[3].clone())).collect()
}
fn do_oneshot_par(ctx: &mut Ctx, j: &[(P3, BigInt)], n: &BigInt, b1: u64, b2: u64) {
    let ans = run(|| show_res_unit(pv::oneshot(j, n, b1, b2)));
    ctx.emit(
        "ecmp.oneshot",
        &[show_joint(j), n.to_string(), b1.to_string(), b2.to_string(), prof().into()],
        ans,
    );
}
fn do_ecm(ctx: &mut Ctx, par: bool, n: &BigInt, b1: u64, b2: u64, script: Vec<Vec<u8>>, seed: Option<u64>) {
    let seed = seed.unwrap_or_else(|| ctx.rng.next());
    let (ans, log) = run_rng(seed, script, || {
        let conf = ecm::ECMConfig { b1, b2, verbose: false };
        let (fac, count) = if par { ecm_parallel::ecm(n, conf) } else { ecm::ecm(n, conf) };
        format!("{fac} {count}")
    });
    ctx.emit(
        if par { "ecmp.ecm" } else { "ecm.ecm" },
        &[n.to_string(), b1.to_string(), b2.to_string(), prof().into(), log],
        ans,
    );
}
fn do_selectb(ctx: &mut Ctx, n: &BigInt) {
    let ans = run(|| ev::select_b(n).to_string());
    ctx.emit("selectb", &[n.to_string()], ans);
}
/// `select_b(d)` for every divisor d of n with 1000 < d < n, as `d:b,…` (`_` = none): the batched
/// driver chooses its bound per work item, and `select_b` is floating-point code above 1000 (not
/// modelled), so the model looks the values up in this table. Divisors come from the expected
/// factorisation, or from trial division for small n.
fn btab_for(n: &BigInt, expected: &str) -> String {
    let mut pf: Vec<(BigInt, u32)> = vec![];
    if expected != "_" && !expected.is_empty() {
        for item in expected.split(',') {
            if let Some((p, e)) = item.split_once(':') {
                if let (Ok(p), Ok(e)) = (p.parse::<BigInt>(), e.parse::<u32>()) {
                    pf.push((p, e));
                }
            }
        }
    } else if n > &BigInt::from(1000) && n < &(BigInt::from(1) << 44) {
        let mut m = n.to_u64().unwrap();
        let mut d = 2u64;
        while d * d <= m {
            let mut e = 0;
            while m % d == 0 {
                m /= d;
                e += 1;
            }
            if e > 0 {
                pf.push((big(d), e));
            }
            d += 1;
        }
        if m > 1 {
            pf.push((big(m), 1));
        }
    }
    let mut divs: Vec<BigInt> = vec![BigInt::from(1)];
    for (p, e) in &pf {
        let mut next = vec![];
        for d in &divs {
            let mut q = d.clone();
            for _ in 0..=*e {
                next.push(q.clone());
                q *= p;
            }
        }
        divs = next;
        if divs.len() > 4096 {
            return "_".into();
        }
    }
    divs.sort();
    divs.dedup();
    let thousand = BigInt::from(1000);
    let items: Vec<String> =
        divs.iter().filter(|d| *d > &thousand && *d < n).map(|d| format!("{}:{}", d, ev::select_b(d))).collect();
    if items.is_empty() {
        "_".into()
    } else {
        items.join(",")
    }
}

fn do_factorize(ctx: &mut Ctx, par: bool, n: &BigInt, expected: &str, script: Vec<Vec<u8>>, seed: Option<u64>) {
    let b = ev::select_b(n);
    let seed = seed.unwrap_or_else(|| ctx.rng.next());
    let (ans, log) = run_rng(seed, script, || {
        let (r, st) = if par { ecm_parallel::factorize_verbose(n, false) } else { ecm::factorize_verbose(n, false) };
        format!("{}|{}", show_pairs(&r), st.curve_count)
    });
    if par {
        let btab = btab_for(n, expected);
        ctx.emit("ecmp.factorize", &[n.to_string(), b.to_string(), expected.to_string(), prof().into(), log, btab], ans);
    } else {
        ctx.emit("ecm.factorize", &[n.to_string(), b.to_string(), expected.to_string(), prof().into(), log], ans);
    }
}
fn do_trial(ctx: &mut Ctx, n: &BigInt, expected: &str) {
    let ans = run(|| show_pairs(&factorize::factorize(n)));
    ctx.emit("td.factorize", &[n.to_string(), expected.to_string()], ans);
}
/// all three entry points on one n (trial division only when `td`)
fn all_three(ctx: &mut Ctx, n: &BigInt, expected: &str, td: bool) {
    do_factorize(ctx, false, n, expected, vec![], None);
    do_factorize(ctx, true, n, expected, vec![], None);
    if td {
        do_trial(ctx, n, expected);
    }
}
/// `rfactor [--json] n` as a process (stdout with `\n` escaped); only when RFACTOR_BIN is set
fn do_rfactor(ctx: &mut Ctx, mode: &str, n: &BigInt) -> bool {
    let Ok(bin) = std::env::var("RFACTOR_BIN") else { return false };
    let mut cmd = std::process::Command::new(bin);
    if mode == "json" {
        cmd.arg("--json");
    }
    if std::env::var("NTV_DRY").is_ok() {
        ctx.emit("rfactor", &[mode.to_string(), n.to_string()], "dry".into());
        return true;
    }
    cmd.arg(n.to_string());
    let ans = match output_with_timeout(cmd) {
        Some(Ok(o)) if o.status.success() => String::from_utf8_lossy(&o.stdout).replace('\n', "\\n"),
        Some(Ok(_)) => "panic other".to_string(),
        Some(Err(_)) => return false,
        None => "panic timeout".to_string(),
    };
    ctx.emit("rfactor", &[mode.to_string(), n.to_string()], ans);
    true
}

pub fn replay(ctx: &mut Ctx, f: &[&str]) -> bool {
    match (f[0], f.len()) {
        ("cli.fact", 2) => do_cli_fact(ctx, &parse_int(f[1])),
        ("ecm.add", 5) => do_add(ctx, &parse_pt(f[1]), &parse_pt(f[2]), &parse_int(f[3]), &parse_int(f[4])),
        ("ecm.mul", 5) => do_mul(ctx, &parse_pt(f[1]), &parse_int(f[2]), &parse_int(f[3]), &parse_int(f[4])),
        ("ecm.oneshot", 7) => do_oneshot(
            ctx,
            &parse_pt(f[1]),
            &parse_int(f[2]),
            &parse_int(f[3]),
            f[4].parse().unwrap(),
            f[5].parse().unwrap(),
        ),
        ("ecmp.simplify", 3) => {
            let pts: Vec<P3> = parse_mat(f[1]).into_iter().map(|r| (r[0].clone(), r[1].clone(), r[2].clone())).collect();
            do_simplify(ctx, &pts, &parse_int(f[2]))
        }
        ("ecmp.adds", 3) => do_adds(ctx, &parse_triples(f[1]), &parse_int(f[2])),
        ("ecmp.oneshot", 6) => {
            do_oneshot_par(ctx, &parse_joint(f[1]), &parse_int(f[2]), f[3].parse().unwrap(), f[4].parse().unwrap())
        }
        ("ecm.ecm" | "ecmp.ecm", 6) => do_ecm(
            ctx,
            f[0] == "ecmp.ecm",
            &parse_int(f[1]),
            f[2].parse().unwrap(),
            f[3].parse().unwrap(),
            parse_chunks(f[5]),
            Some(0),
        ),
        ("selectb", 2) => do_selectb(ctx, &parse_int(f[1])),
        ("ecm.factorize" | "ecmp.factorize", 6) | ("ecmp.factorize", 7) => {
            // the table of bounds (7th field of the batched op) is recomputed, not read back
            do_factorize(ctx, f[0] == "ecmp.factorize", &parse_int(f[1]), f[3], parse_chunks(f[5]), Some(0))
        }
        ("td.factorize", 2) => do_trial(ctx, &parse_int(f[1]), "_"),
        ("td.factorize", 3) => do_trial(ctx, &parse_int(f[1]), f[2]),
        ("rfactor", 3) => {
            // needs RFACTOR_BIN; without it the line is skipped
            do_rfactor(ctx, f[1], &parse_int(f[2]));
        }
        _ => return false,
    }
    true
}

// ------------------------------------------------------------------ generators

/// moduli for the point arithmetic: small composites (inversions fail often), primes, prime powers, a few large
fn moduli(ctx: &mut Ctx) -> Vec<BigInt> {
    let mut v: Vec<BigInt> = [
        1u64, 2, 3, 4, 5, 6, 7, 8, 9, 10, 12, 15, 16, 21, 25, 27, 33, 35, 45, 49, 55, 63, 77, 81, 91, 105, 121, 125, 143,
        169, 221, 243, 343, 385, 561, 1001, 1105, 2047, 3125, 65537, 455839, 1000003, 4294967297,
    ]
    .iter()
    .map(|&x| big(x))
    .collect();
    v.push(big(65537) * big(1000003));
    v.push((BigInt::one() << 61) - 1);
    v.push(((BigInt::one() << 61) - 1) * ((BigInt::one() << 31) - 1));
    v.push(((BigInt::one() << 89) - 1) * big(3) * big(3));
    for _ in 0..6 {
        let p = rand_prime(ctx, 12);
        let q = rand_prime(ctx, 20);
        v.push(big(p) * big(q));
    }
    v
}
fn below(ctx: &mut Ctx, n: &BigInt) -> BigInt {
    if n.is_zero() {
        return BigInt::zero();
    }
    ctx.rng.bits(n.bits() + 16) % n
}
fn rand_affine(ctx: &mut Ctx, n: &BigInt) -> P3 {
    (below(ctx, n), below(ctx, n), BigInt::one())
}
/// a point in one of the shapes the code can meet (or be handed through the wrappers)
fn rand_any(ctx: &mut Ctx, n: &BigInt) -> P3 {
    match ctx.rng.below(10) {
        0 => (BigInt::zero(), BigInt::one(), BigInt::zero()),
        1 => (below(ctx, n), below(ctx, n), BigInt::zero()),
        2 => (below(ctx, n), below(ctx, n), below(ctx, n)),
        3 => (below(ctx, n) - n, n + below(ctx, n), -below(ctx, n)),
        _ => rand_affine(ctx, n),
    }
}

fn gen_points(ctx: &mut Ctx, mods: &[BigInt]) {
    let reps = ctx.pick(8, 60);
    for n in mods {
        for _ in 0..reps {
            let a = below(ctx, n);
            let p = rand_affine(ctx, n);
            // Q in relation to P: random, equal, opposite, a multiple of P (same curve), infinite, odd shapes
            let q = match ctx.rng.below(8) {
                0 => p.clone(),
                1 => (p.0.clone(), zmod_big(&(-&p.1), n), BigInt::one()),
                2 | 3 | 4 => {
                    let k = big(2 + ctx.rng.below(9));
                    match ev::point_mul(&p, &k, &a, n) {
                        Ok(q) => q,
                        Err(_) => rand_affine(ctx, n),
                    }
                }
                5 => rand_any(ctx, n),
                6 => (p.0.clone(), below(ctx, n), BigInt::one()),
                _ => rand_affine(ctx, n),
            };
            do_add(ctx, &p, &q, &a, n);
            if ctx.rng.chance(1, 4) {
                let p2 = rand_any(ctx, n);
                do_add(ctx, &p2, &q, &a, n);
            }
            let e = match ctx.rng.below(6) {
                0 => BigInt::from(ctx.rng.range(-2, 2)),
                1 => ctx.rng.bits(64),
                _ => big(ctx.rng.below(40)),
            };
            do_mul(ctx, &p, &e, &a, n);
            if ctx.rng.chance(1, 6) {
                let p2 = rand_any(ctx, n);
                do_mul(ctx, &p2, &e, &a, n);
            }
        }
    }
}
fn zmod_big(x: &BigInt, n: &BigInt) -> BigInt {
    let r = x % n;
    if r.is_negative() {
        r + n
    } else {
        r
    }
}

fn gen_oneshot(ctx: &mut Ctx, mods: &[BigInt]) {
    let reps = ctx.pick(4, 30);
    let b1s = [0u64, 1, 2, 3, 4, 5, 6, 7, 10, 11, 12, 13, 17, 18, 30];
    for n in mods {
        for _ in 0..reps {
            let a = below(ctx, n);
            let p = if ctx.rng.chance(1, 8) { rand_any(ctx, n) } else { rand_affine(ctx, n) };
            let b1 = b1s[ctx.rng.below(b1s.len() as u64) as usize];
            let b2 = match ctx.rng.below(5) {
                0 => 0,
                1 => ctx.rng.below(40),
                2 => ctx.rng.below(2000),
                _ => 100 * b1,
            };
            do_oneshot(ctx, &p, &a, n, b1, b2);
            let k = ctx.rng.below(5) as usize;
            let j: Vec<(P3, BigInt)> = (0..k)
                .map(|_| {
                    let p = if ctx.rng.chance(1, 10) { rand_any(ctx, n) } else { rand_affine(ctx, n) };
                    (p, below(ctx, n))
                })
                .collect();
            do_oneshot_par(ctx, &j, n, b1.min(12), b2.min(600));
        }
    }
    // the u64 boundary: `b1 + 1` overflows (dev: panic; release: wraps to an empty stage 1)
    for n in [big(15), big(1001), big(65537)] {
        let a = below(ctx, &n);
        let p = rand_affine(ctx, &n);
        do_oneshot(ctx, &p, &a, &n, u64::MAX, 100);
        let p2 = rand_affine(ctx, &n);
        do_oneshot_par(ctx, &[(p.clone(), a.clone()), (p2, a.clone())], &n, u64::MAX, 100);
    }
}

fn gen_batched(ctx: &mut Ctx, mods: &[BigInt]) {
    let reps = ctx.pick(6, 40);
    for n in mods {
        for _ in 0..reps {
            let k = ctx.rng.below(7) as usize;
            let pts: Vec<P3> = (0..k).map(|_| rand_any(ctx, n)).collect();
            do_simplify(ctx, &pts, n);
            // mostly invertible z: units only
            let pts: Vec<P3> = (0..k)
                .map(|_| {
                    let mut p = rand_any(ctx, n);
                    if ctx.rng.chance(5, 6) {
                        for _ in 0..8 {
                            if num::Integer::gcd(&p.2, n).is_one() {
                                break;
                            }
                            p.2 = below(ctx, n);
                        }
                    }
                    p
                })
                .collect();
            do_simplify(ctx, &pts, n);
            let k = ctx.rng.below(6) as usize;
            let ts: Vec<(P3, P3, BigInt)> = (0..k)
                .map(|_| {
                    let a = below(ctx, n);
                    let p = rand_affine(ctx, n);
                    let q = match ctx.rng.below(6) {
                        0 => p.clone(),
                        1 => (p.0.clone(), zmod_big(&(-&p.1), n), BigInt::one()),
                        2 => match ev::point_mul(&p, &big(2 + ctx.rng.below(7)), &a, n) {
                            Ok(q) => q,
                            Err(_) => rand_affine(ctx, n),
                        },
                        3 => rand_any(ctx, n),
                        _ => rand_affine(ctx, n),
                    };
                    if ctx.rng.chance(1, 12) {
                        (rand_any(ctx, n), q, a)
                    } else {
                        (p, q, a)
                    }
                })
                .collect();
            do_adds(ctx, &ts, n);
        }
    }
}

fn gen_selectb(ctx: &mut Ctx) {
    for n in -5i64..=1005 {
        do_selectb(ctx, &BigInt::from(n));
    }
    for bits in [11u64, 16, 32, 64, 65, 128, 256, 521, 1024, 1440, 1470, 1500, 2000, 4096, 20000, 100000] {
        do_selectb(ctx, &(BigInt::one() << (bits - 1)));
        do_selectb(ctx, &((BigInt::one() << bits) - 1));
    }
    for _ in 0..ctx.pick(100, 2000) {
        let bits = 11 + ctx.rng.below(3000);
        let n = ctx.rng.bits(bits) + 1001;
        do_selectb(ctx, &n);
    }
}

/// composite numbers on which `ecm` is called directly (never a prime: it would not return)
fn gen_ecm(ctx: &mut Ctx) {
    let mut ns: Vec<u64> = vec![6, 10, 12, 15, 18, 21, 24, 35, 45, 48, 77, 91, 133, 143, 162, 221, 561, 1001, 1105, 2047, 4033];
    for _ in 0..ctx.pick(40, 600) {
        // smallest prime factor below 1000 so that even b1 < 4 finds it in reasonable time
        let pb = 2 + ctx.rng.below(8);
        let p = rand_prime(ctx, pb);
        let m = 2 + ctx.rng.below(1 << 20);
        ns.push(p * m);
    }
    for &n in &ns {
        let nb = big(n);
        // `ecm` never returns on p^2 and p^3 (every non-unit cube vanishes) and is not meant for perfect
        // powers at all: the drivers strip them first
        if rust_number_theory::perfect_power::perfect_power(&nb).1 >= 2 || is_prime_u64(n) {
            continue;
        }
        let sb = ev::select_b(&nb);
        for b1 in [sb, 1 + ctx.rng.below(16), 0] {
            let b2 = if ctx.rng.chance(1, 4) { ctx.rng.below(500) } else { 100 * b1 };
            do_ecm(ctx, false, &nb, b1, b2, vec![], None);
            do_ecm(ctx, true, &nb, b1, b2, vec![], None);
        }
    }
    // the two products of the repository's own tests, with its B1 = 1000 and with select_b
    for n in [big(133), big(65537) * big(1000003)] {
        do_ecm(ctx, false, &n, 1000, 100000, vec![], None);
        do_ecm(ctx, true, &n, 100, 10000, vec![], None);
        let sb = ev::select_b(&n);
        do_ecm(ctx, false, &n, sb, 100 * sb, vec![], None);
    }
}

fn gen_factorize(ctx: &mut Ctx) {
    // documented panic for n <= 0
    for n in [-1000003i64, -12, -3, -2, -1, 0] {
        all_three(ctx, &BigInt::from(n), "_", true);
    }
    // every n up to a bound
    let bound = ctx.pick(3000, 100_000) as u64;
    for n in 1..=bound {
        all_three(ctx, &big(n), "_", true);
    }
    // prime powers
    for (p, kmax) in [(2u64, 70u32), (3, 42), (5, 28), (7, 23), (11, 12), (13, 9), (101, 6), (1009, 5), (65537, 4)] {
        for k in 1..=kmax {
            let n = num::pow::pow(big(p), k as usize);
            if n > big(bound) {
                // trial division strips p after p steps: cheap for every entry of this table
                all_three(ctx, &n, &format!("{p}:{k}"), true);
            }
        }
    }
    for bits in [16u64, 20, 24, 31, 32] {
        for k in [2usize, 3, 5] {
            let p = rand_prime(ctx, bits);
            let n = num::pow::pow(big(p), k);
            all_three(ctx, &n, &format!("{p}:{k}"), bits <= 20);
        }
    }
    // composites that are strong pseudoprimes to every small fixed base set (2..17, 2..37): the
    // drivers must split them whatever shortcut the primality test takes
    for (n, exp) in [
        ("341550071728321", "10670053:1,32010157:1"),
        ("3825123056546413051", "149491:1,747451:1,34233211:1"),
        ("2049303430369926", "2:1,3:1,10670053:1,32010157:1"),
        ("3215031751", "151:1,751:1,28351:1"),
    ] {
        let nb: BigInt = n.parse().unwrap();
        all_three(ctx, &nb, exp, false);
    }
    // a small composite times a large prime: the batched driver must size its batches by the item
    // being split (a batch sized for the 131-bit input never separates 3 from 5: D15)
    for (k, e) in [(61u32, "3:1,5:1,2305843009213693951:1"), (89, "3:1,5:1,618970019642690137449562111:1"), (127, "3:1,5:1,170141183460469231731687303715884105727:1")] {
        let n = ((BigInt::from(1) << k) - 1) * 15;
        do_factorize(ctx, true, &n, e, vec![], None);
        do_factorize(ctx, false, &n, e, vec![], None);
    }
    // high powers of small primes times a small composite: the joint gcd of a batch is n itself on
    // practically every batch; the batched inversion must fall back on a single coordinate (D17)
    {
        let n = (BigInt::from(1) << 100) * 15;
        do_factorize(ctx, true, &n, "2:100,3:1,5:1", vec![], None);
        do_factorize(ctx, false, &n, "2:100,3:1,5:1", vec![], None);
        let n = num::pow::pow(BigInt::from(3), 50) * num::pow::pow(BigInt::from(5), 49) * 7;
        do_factorize(ctx, true, &n, "3:50,5:49,7:1", vec![], None);
        let n = (BigInt::from(1) << 70) * 3 * 49;
        do_factorize(ctx, true, &n, "2:70,3:1,7:2", vec![], None);
    }
    {
        let n = ((BigInt::from(1) << 107) - 1) * 105;
        do_factorize(ctx, true, &n, "3:1,5:1,7:1,162259276829213363391578010288127:1", vec![], None);
    }
    // even numbers: 2^a * m
    for _ in 0..ctx.pick(40, 600) {
        let a = 1 + ctx.rng.below(40) as usize;
        let m = 1 + ctx.rng.below(1 << 16);
        let n = (big(m)) << a;
        all_three(ctx, &n, "_", true);
    }
    // Carmichael numbers
    let cb = ctx.pick(120_000, 3_000_000) as u64;
    let mut n = bound | 1;
    while n < cb {
        if is_carmichael(n) {
            all_three(ctx, &big(n), "_", true);
        }
        n += 2;
    }
    // Chernick Carmichael numbers (6k+1)(12k+1)(18k+1) with three large prime factors: a random
    // Miller-Rabin base almost never shares a factor with them, so only the strong (square-root-of-1)
    // part of the test can reject them; also 2 * such a number (left on the work stack as a cofactor)
    {
        let mut k = 1000u64;
        let mut found = 0;
        let want = ctx.pick(6, 40);
        while found < want {
            let (p, q, r) = (6 * k + 1, 12 * k + 1, 18 * k + 1);
            if is_prime_u64(p) && is_prime_u64(q) && is_prime_u64(r) {
                let n = big(p) * big(q) * big(r);
                let exp = expected_of(&[big(p), big(q), big(r)]);
                do_factorize(ctx, false, &n, &exp, vec![], None);
                do_factorize(ctx, true, &n, &exp, vec![], None);
                if found % 3 == 0 {
                    let n2 = &n * 2;
                    let exp2 = expected_of(&[big(2), big(p), big(q), big(r)]);
                    do_factorize(ctx, false, &n2, &exp2, vec![], None);
                    do_factorize(ctx, true, &n2, &exp2, vec![], None);
                }
                found += 1;
            }
            k += 1;
        }
    }
    // semiprimes p*q of growing size
    let maxbits = ctx.pick(32, 40) as u64;
    let per = ctx.pick(6, 15);
    let mut bits = 8;
    while bits <= maxbits {
        for i in 0..per {
            let p = rand_prime(ctx, bits);
            let q = if i % 3 == 2 { p } else { rand_prime(ctx, if i % 3 == 1 { (bits / 2).max(3) } else { bits }) };
            let n = big(p) * big(q);
            let td = p.min(q) < (1 << 21);
            all_three(ctx, &n, &expected_of(&[big(p), big(q)]), td);
        }
        bits += if bits < 24 { 4 } else { 8 };
    }
    // smooth x rough: several small primes (with repetitions) times one large prime
    for _ in 0..ctx.pick(30, 200) {
        let mut primes: Vec<BigInt> = vec![];
        for _ in 0..1 + ctx.rng.below(6) {
            let p = next_prime(2 + ctx.rng.below(100));
            for _ in 0..1 + ctx.rng.below(3) {
                primes.push(big(p));
            }
        }
        let rb = 10 + ctx.rng.below(maxbits - 12);
        let r = rand_prime(ctx, rb);
        primes.push(big(r));
        let n: BigInt = primes.iter().product();
        all_three(ctx, &n, &expected_of(&primes), rb <= 40);
    }
    // products of three primes of moderate size
    for _ in 0..ctx.pick(12, 80) {
        let ps: Vec<BigInt> = (0..3)
            .map(|_| {
                let b = 10 + ctx.rng.below(10);
                big(rand_prime(ctx, b))
            })
            .collect();
        let n: BigInt = ps.iter().product();
        all_three(ctx, &n, &expected_of(&ps), true);
    }
    // 2 * (large known prime): the doubling in the first curve meets the factor 2 at once, whatever B1
    let two = big(2);
    // (2203 and above: select_b is clamped to u64::MAX / 100, B2 = 100 * B1 just fits)
    let mut mers = vec![(61u32, true), (89, true), (107, true), (127, true), (521, false), (607, false), (1279, false), (2203, false)];
    if ctx.thorough {
        mers.extend([(2281, false), (3217, false), (4253, false)]);
    }
    for (e, par) in mers {
        let p: BigInt = (BigInt::one() << e) - 1;
        let n = &two * &p;
        let exp = expected_of(&[two.clone(), p.clone()]);
        do_factorize(ctx, false, &n, &exp, vec![], None);
        if par {
            do_factorize(ctx, true, &n, &exp, vec![], None);
        }
        // the prime itself: twenty Miller–Rabin rounds, no curve
        do_factorize(ctx, false, &p, &expected_of(&[p.clone()]), vec![], None);
        if par {
            do_factorize(ctx, true, &p, &expected_of(&[p.clone()]), vec![], None);
        }
    }
}

/// chunk making `gen_bigint_range(1, n)` return v
fn enc(n: &BigInt, v: u64) -> Vec<u8> {
    encode_range(&BigInt::one(), n, &big(v))
}

/// scripted histories: the first draws are chosen, the rest comes from the seeded fallback
fn gen_scripted(ctx: &mut Ctx) {
    let dev = cfg!(debug_assertions);
    // (n = p*q, witness base w for the Miller–Rabin calls that precede the curves)
    for (p, q) in [(3u64, 5u64), (7, 13), (11, 13), (17, 19), (3, 331), (29, 31), (5, 199)] {
        let n = big(p * q);
        let w = 2u64; // 2 is a Miller–Rabin witness for each of these n
        // ecm called directly: [dev: debug_assert draws w], then a, x, y
        let pre = |v: &mut Vec<Vec<u8>>| {
            if dev {
                v.push(enc(&n, w));
            }
        };
        // y = p: the first doubling (k = 2) has den = 2p, not invertible: factor p on the first curve
        let mut s = vec![];
        pre(&mut s);
        s.extend([enc(&n, 1), enc(&n, 2), enc(&n, p)]);
        do_ecm(ctx, false, &n, 4, 400, s, None);
        // draws all equal to 1, then all equal to n - 1
        for v in [1, p * q - 1] {
            let mut s = vec![];
            pre(&mut s);
            s.extend([enc(&n, v), enc(&n, v), enc(&n, v)]);
            do_ecm(ctx, false, &n, 4, 400, s.clone(), None);
            let mut s = vec![];
            pre(&mut s);
            s.extend([enc(&n, v), enc(&n, v), enc(&n, v), enc(&n, v), enc(&n, v), enc(&n, v)]);
            do_ecm(ctx, true, &n, 4, 400, s, None);
        }
        // batch of two curves failing at different primes in the same inversion: gcd = n, must retry
        let mut s = vec![];
        pre(&mut s);
        s.extend([enc(&n, 1), enc(&n, 2), enc(&n, 1), enc(&n, p), enc(&n, 1), enc(&n, q)]);
        do_ecm(ctx, true, &n, 4, 400, s, None);
        // batch where only the second curve fails (factor q)
        let mut s = vec![];
        pre(&mut s);
        s.extend([enc(&n, 1), enc(&n, 2), enc(&n, 2), enc(&n, 1), enc(&n, 1), enc(&n, q)]);
        do_ecm(ctx, true, &n, 4, 400, s, None);
        // same histories through the drivers: is_prime(n) draws w first
        if p * q <= 1000 {
            for par in [false, true] {
                let mut s = vec![enc(&n, w)];
                pre(&mut s);
                if par {
                    s.extend([enc(&n, 1), enc(&n, 2), enc(&n, 1), enc(&n, p), enc(&n, 1), enc(&n, q)]);
                } else {
                    s.extend([enc(&n, 1), enc(&n, 2), enc(&n, p)]);
                }
                do_factorize(ctx, par, &n, &expected_of(&[big(p), big(q)]), s, None);
            }
        }
        // a singular cubic modulo p: y^2 = x^3 (a = 0 mod p is not reachable with a in [1,n) unless a = p):
        // a = p, point (1, 1)
        let mut s = vec![];
        pre(&mut s);
        s.extend([enc(&n, p), enc(&n, 1), enc(&n, 1)]);
        do_ecm(ctx, false, &n, 4, 400, s, None);
    }
    // Miller–Rabin sees only the liars 1 and n-1 for a while before a witness: still composite
    for n in [15u64, 91, 561] {
        let nb = big(n);
        let mut s = vec![];
        for i in 0..19 {
            s.push(enc(&nb, if i % 2 == 0 { 1 } else { n - 1 }));
        }
        s.push(enc(&nb, 2));
        do_factorize(ctx, false, &nb, "_", s.clone(), None);
        do_factorize(ctx, true, &nb, "_", s, None);
    }
}

/// `rust-number-theory <config>` with to_find = factorization and an integer input: stdout is a JSON
/// object {"p": e, …} in insertion (= increasing) order; rendered `p:e,…`
fn do_cli_fact(ctx: &mut Ctx, n: &BigInt) {
    // other commands of the same run are refused for an integer input (stderr) and must not stop the loop
    let tf = to_find_list("factorization", &["discriminant", "prime-decomposition", "resultant", "integral_basis", "factorization-mod-p"], variant_of(&[n.to_string()]) + 1);
    let cfg = format!("to_find = {}\n[input]\ninteger = '{}'\n", tf, n);
    if let Some(out) = run_cli(&cfg) {
        let ans = if out.starts_with("panic") {
            out
        } else {
            let mut items = vec![];
            let mut ok = out.trim_start().starts_with('{');
            for line in out.lines() {
                let l = line.trim().trim_end_matches(',');
                if l == "{" || l == "}" || l.is_empty() || l == "{}" {
                    continue;
                }
                match l.split_once(':') {
                    Some((k, v)) => items.push(format!("{}:{}", k.trim().trim_matches('"'), v.trim())),
                    None => ok = false,
                }
            }
            if !ok {
                "noanswer".into()
            } else if items.is_empty() {
                "_".into()
            } else {
                items.join(",")
            }
        };
        ctx.emit("cli.fact", &[n.to_string()], ans);
    }
}

fn gen_rfactor(ctx: &mut Ctx) {
    // the main binary's integer factorisation (same library driver behind another front end)
    let two64: BigInt = BigInt::from(1) << 64;
    let mut cs: Vec<BigInt> = (1..=ctx.pick(30, 120) as u64).map(big).collect();
    cs.extend([
        big(30030),
        big(1000003) * big(65537),
        big(600851475143),
        &two64 + big(1),
        &two64 + big(6),
        &two64 * big(3) + big(12),
        &two64 + big(1048575),
        (&two64 - big(59)) * big(2),
        (&two64 - big(59)) * big(1000003),
        (BigInt::from(1) << 89) - 1,
        ((BigInt::from(1) << 127) - 1) * 15,
        (BigInt::from(1) << 100) * 15,
    ]);
    for n in &cs {
        do_cli_fact(ctx, n);
    }
    if std::env::var("RFACTOR_BIN").is_err() {
        return;
    }
    for n in cs.iter().skip(cs.len() - 8) {
        do_rfactor(ctx, "plain", n);
        do_rfactor(ctx, "json", n);
    }
    let mut ns: Vec<BigInt> = (1..=ctx.pick(40, 200) as u64).map(big).collect();
    ns.extend([big(1024), big(30030), big(1000003), big(1000003) * big(65537), big(1) << 40, big(600851475143)]);
    for n in ns {
        do_rfactor(ctx, "plain", &n);
        do_rfactor(ctx, "json", &n);
    }
}

pub fn generate(ctx: &mut Ctx) {
    let mods = moduli(ctx);
    gen_points(ctx, &mods);
    gen_oneshot(ctx, &mods);
    gen_batched(ctx, &mods);
    gen_selectb(ctx);
    gen_ecm(ctx);
    gen_scripted(ctx);
    gen_factorize(ctx);
    gen_rfactor(ctx);
}
