//! C20: LLL (lll.rs), short vectors of a positive-definite form (cholesky.rs), roots of unity
//! (class/roots_of_unity.rs on top of embeddings.rs / numerical_roots.rs).
//! The code is f64; only integer-valued inputs are used and outputs are printed as exact integers
//! (`nonint` otherwise) so that the Lean side can check them in exact arithmetic.
//! Debugging aids (environment): `C20_ONLY=lll|enum|muk` restricts generation to one family,
//! `C20_BIG=<n>` overrides the entry-size caps of the lll generators, `C20_TRACE` prints each muk case
//! before it runs, `C20_UNGUARDED` passes even an invalid root set on to `find_muk` (may exhaust
//! memory), `C20_DEBUG` prints the order basis, the numerical roots and panic messages of muk.
use crate::common::*;
use num::{BigInt, BigRational, Complex, One, Signed, ToPrimitive, Zero};
use number_theory_linear::cholesky::Cholesky;
use number_theory_linear::lll;
use rust_number_theory::algebraic::Algebraic;
use rust_number_theory::class::roots_of_unity::find_muk;
use rust_number_theory::embeddings::CEmbeddings;
use rust_number_theory::integral_basis::find_integral_basis;
use rust_number_theory::numerical_roots::find_roots_reim;
use rust_number_theory::polynomial::Polynomial;

pub type M = Vec<Vec<BigInt>>;

const TWO53: f64 = 9007199254740992.0;

/// exact conversion of an integer below 2^53 in absolute value
fn to_f64_exact(x: &BigInt) -> f64 {
    let v = x.to_f64().expect("f64");
    // below 2^53 every integer is a double; above, only those with enough trailing zero bits
    assert!(v.abs() < TWO53 || num::FromPrimitive::from_f64(v).as_ref() == Some(x), "entry not exactly representable");
    v
}
fn mat_f64(a: &M) -> Vec<Vec<f64>> {
    a.iter().map(|r| r.iter().map(to_f64_exact).collect()).collect()
}
/// an f64 that is an exact integer below 2^53, as that integer
fn int_of(v: f64) -> Option<i64> {
    if v.is_finite() && v.fract() == 0.0 && v.abs() < TWO53 {
        Some(v as i64)
    } else {
        None
    }
}
/// nearest integer if within 1e-6
fn near_int(v: f64) -> Option<i64> {
    if !v.is_finite() || v.abs() >= TWO53 {
        return None;
    }
    let r = v.round();
    if (v - r).abs() <= 1e-6 {
        Some(r as i64)
    } else {
        None
    }
}

/// exact determinant (Bareiss, fraction free)
pub fn det(a: &M) -> BigInt {
    let n = a.len();
    if n == 0 {
        return BigInt::one();
    }
    let mut m = a.clone();
    let mut sign = 1;
    let mut prev = BigInt::one();
    for c in 0..n {
        let p = match (c..n).find(|&r| !m[r][c].is_zero()) {
            Some(p) => p,
            None => return BigInt::zero(),
        };
        if p != c {
            m.swap(p, c);
            sign = -sign;
        }
        for i in c + 1..n {
            for j in c + 1..n {
                let v = &m[i][j] * &m[c][c] - &m[i][c] * &m[c][j];
                m[i][j] = v / &prev;
            }
            m[i][c] = BigInt::zero();
        }
        prev = m[c][c].clone();
    }
    &m[n - 1][n - 1] * BigInt::from(sign)
}

fn max_abs(a: &M) -> BigInt {
    a.iter().flat_map(|r| r.iter()).map(|x| x.abs()).max().unwrap_or_else(BigInt::zero)
}

fn do_lll(ctx: &mut Ctx, b: &M) {
    let ans = run(|| {
        let bf = mat_f64(b);
        let (red, h) = lll(&bf);
        let mut ok = true;
        let rows: Vec<String> = red
            .iter()
            .map(|r| {
                r.iter()
                    .map(|&v| match int_of(v) {
                        Some(i) => i.to_string(),
                        None => {
                            ok = false;
                            String::new()
                        }
                    })
                    .collect::<Vec<_>>()
                    .join(",")
            })
            .collect();
        let bs = if ok { rows.join(";") } else { "nonint".to_string() };
        format!("{}|{}", bs, show_mat(&h))
    });
    ctx.emit("lll", &[show_mat(b)], ans);
}

/// lll of a valid (square, dimension >= 2, non-singular, exactly representable) basis; others are dropped
/// the same basis scaled by 2^k (exact in f64): LLL is scale invariant, and scaling by a power of two
/// is exact in binary floating point, so the implementation must return the same H and 2^k·(H·B).
/// The answer is reported with the scale divided out again, in the format of `lll`.
fn do_lll_scaled(ctx: &mut Ctx, b: &M, k: i32) {
    let ans = run(|| {
        let s = 2f64.powi(k);
        let bf: Vec<Vec<f64>> = mat_f64(b).iter().map(|r| r.iter().map(|v| v * s).collect()).collect();
        let (red, h) = lll(&bf);
        let mut ok = true;
        let rows: Vec<String> = red
            .iter()
            .map(|r| {
                r.iter()
                    .map(|&v| match int_of(v / s) {
                        Some(i) if (i as f64) * s == v => i.to_string(),
                        _ => {
                            ok = false;
                            String::new()
                        }
                    })
                    .collect::<Vec<_>>()
                    .join(",")
            })
            .collect();
        let bs = if ok { rows.join(";") } else { "nonint".to_string() };
        format!("{}|{}", bs, show_mat(&h))
    });
    ctx.emit("lll.scaled", &[show_mat(b), k.to_string()], ans);
}

/// bases on which every floating-point operation of `lll` is exact or far from a decision boundary:
/// unitriangular bases of Z^n with huge power-of-two entries (multipliers beyond 2^63: the reduced basis
/// is a signed permutation matrix), and strongly skew 2 x 2 / 3 x 3 bases with small determinant
/// (a long row almost in the span of the earlier ones). Op `lll.x`: the oracle is applied whatever the
/// size of the intermediate integers of the exact replay.
fn gen_lll_extreme(ctx: &mut Ctx) {
    let p2 = |k: u32| BigInt::from(1) << k;
    let one = BigInt::one;
    let zero = BigInt::zero;
    let mut cases: Vec<M> = vec![];
    for k in [40u32, 62, 63, 64, 70, 100, 130] {
        cases.push(vec![vec![one(), zero()], vec![p2(k), one()]]);
        cases.push(vec![vec![one(), zero()], vec![-p2(k), one()]]);
        cases.push(vec![vec![one(), zero(), zero()], vec![p2(k), one(), zero()], vec![p2(k / 2), -p2(k), one()]]);
    }
    let iv = |rows: &[&[i64]]| -> M { rows.iter().map(|r| r.iter().map(|&x| BigInt::from(x)).collect()).collect() };
    cases.push(iv(&[&[3, 0], &[1_000_000_000, 1]]));
    cases.push(iv(&[&[9, 0], &[4_000_000_000, 1]]));
    cases.push(iv(&[&[6, 0], &[250_000_000, 1]]));
    cases.push(iv(&[&[4, 1], &[2_000_000_001, 500_000_003]]));
    cases.push(iv(&[&[2, 0, 0], &[1, 3, 0], &[400_000_001, -500_000_003, 1]]));
    cases.push(iv(&[&[5, 0], &[3_000_000_007, 1]]));
    cases.push(iv(&[&[7, 0], &[123_456_789_012, 1]]));
    for b in &cases {
        let ans = run(|| {
            let bf = mat_f64(b);
            let (red, h) = lll(&bf);
            let mut ok = true;
            let rows: Vec<String> = red
                .iter()
                .map(|r| {
                    r.iter()
                        .map(|&v| match int_of(v) {
                            Some(i) => i.to_string(),
                            None => {
                                ok = false;
                                String::new()
                            }
                        })
                        .collect::<Vec<_>>()
                        .join(",")
                })
                .collect();
            let bs = if ok { rows.join(";") } else { "nonint".to_string() };
            format!("{}|{}", bs, show_mat(&h))
        });
        ctx.emit("lll.x", &[show_mat(b)], ans);
    }
}

fn lll_case(ctx: &mut Ctx, b: &M) -> bool {
    let n = b.len();
    if n < 2 || b.iter().any(|r| r.len() != n) || max_abs(b) >= BigInt::from(1u64 << 52) || det(b).is_zero() {
        return false;
    }
    do_lll(ctx, b);
    // the same basis at another scale now and then (entries of size 2^-40 … 2^30 times the integers)
    if max_abs(b) < BigInt::from(1u64 << 20) && ctx.rng.chance(1, 6) {
        let k = [-40, -30, -20, -20, -10, 10, 30][ctx.rng.below(7) as usize];
        do_lll_scaled(ctx, b, k);
    }
    true
}

fn rat_to_f64_exact(c: &BigRational) -> f64 {
    // denominator must be a power of two and the value exactly representable
    let d = c.denom();
    assert!(d.is_positive() && (d & (d - BigInt::one())).is_zero(), "bound is not dyadic");
    let v = to_f64_exact(c.numer()) / to_f64_exact(d);
    assert!(BigRational::from_float(v).map(|r| &r == c).unwrap_or(false), "bound not exact");
    v
}

fn do_enum(ctx: &mut Ctx, q: &M, c: &BigRational) {
    let ans = run(|| {
        let qf = mat_f64(q);
        let cf = rat_to_f64_exact(c);
        let vecs = Cholesky::find(&qf).find_short_vectors(cf);
        if vecs.is_empty() {
            return "_".to_string();
        }
        vecs.iter()
            .map(|(val, x)| {
                let xs = x.iter().map(|t| t.to_string()).collect::<Vec<_>>().join(",");
                let vs = match near_int(*val) {
                    Some(i) => i.to_string(),
                    None => "nonint".to_string(),
                };
                format!("{xs}:{vs}")
            })
            .collect::<Vec<_>>()
            .join(";")
    });
    ctx.emit("enum", &[show_mat(q), show_rat(c)], ans);
}

fn do_chval(ctx: &mut Ctx, q: &M, x: &[BigInt]) {
    let ans = run(|| {
        let qf = mat_f64(q);
        let xf: Vec<f64> = x.iter().map(to_f64_exact).collect();
        match near_int(Cholesky::find(&qf).find_value(&xf)) {
            Some(i) => i.to_string(),
            None => "nonint".to_string(),
        }
    });
    ctx.emit("chval", &[show_mat(q), show_ints(x)], ans);
}

/// Are `roots_re`, `roots_im` (one per conjugate pair) the complete, correctly classified root set of
/// the squarefree polynomial `f`?  Every listed value must be an approximate root, the complex ones
/// must be genuinely non-real, the counts must add up to the degree and all deg(f) values (with the
/// conjugates) must be pairwise distinct.  `find_muk` is only called on embeddings built from a valid
/// root set: on a wrong one (e.g. a real root reported as a complex pair) the embedding "lattice" is
/// degenerate and the enumeration can exhaust memory, which would abort the whole harness.
fn roots_valid(f: &[BigInt], roots_re: &[f64], roots_im: &[Complex<f64>]) -> bool {
    let cf: Vec<f64> = f.iter().map(|b| b.to_f64().unwrap()).collect();
    let deg = cf.len() - 1;
    if roots_re.len() + 2 * roots_im.len() != deg {
        return false;
    }
    let eval = |z: Complex<f64>| -> (f64, f64) {
        // value and a scale (sum of |c_i| |z|^i) for a relative test
        let mut v = Complex::new(0.0, 0.0);
        let mut sc = 0.0;
        for c in cf.iter().rev() {
            v = v * z + Complex::new(*c, 0.0);
            sc = sc * z.norm() + c.abs();
        }
        (v.norm(), sc)
    };
    let mut all: Vec<Complex<f64>> = roots_re.iter().map(|&x| Complex::new(x, 0.0)).collect();
    for z in roots_im {
        if !(z.im.abs() > 1e-6) {
            return false;
        }
        all.push(*z);
        all.push(z.conj());
    }
    for z in &all {
        let (v, sc) = eval(*z);
        if !(v <= 1e-6 * sc) {
            return false;
        }
    }
    for i in 0..all.len() {
        for j in 0..i {
            if !((all[i] - all[j]).norm() > 1e-6) {
                return false;
            }
        }
    }
    true
}

/// `nroots f seed` ⇒ `r|s|valid`: `numerical_roots::find_roots_reim` on its own: number of real roots,
/// of complex pairs, and whether every returned value is a finite root of f (relative residual 1e-6),
/// complex ones genuinely non-real, all pairwise distinct
fn do_nroots(ctx: &mut Ctx, f: &[BigInt], seed: u64) {
    let (ans, _log) = run_rng(seed, vec![], || {
        let poly_f = Polynomial::from_raw(f.iter().map(|b| b.to_f64().unwrap()).collect());
        let (re, im) = find_roots_reim(poly_f);
        format!("{}|{}|{}", re.len(), im.len(), if roots_valid(f, &re, &im) { "valid" } else { "invalid" })
    });
    ctx.emit("nroots", &[show_ints(f), seed.to_string()], ans);
}
/// squarefree integer polynomials for the root finder: x^n ± c, trinomials, cyclotomic products x^n - 1,
/// products of distinct linear factors (all roots real), and the degree-16 fields Q(zeta_32), Q(zeta_17)
fn gen_nroots(ctx: &mut Ctx) {
    let mut polys: Vec<Vec<BigInt>> = vec![];
    let mono = |n: usize, c0: i64, c1: i64| -> Vec<BigInt> {
        let mut v = vec![BigInt::zero(); n + 1];
        v[0] = BigInt::from(c0);
        v[1] += BigInt::from(c1);
        v[n] += BigInt::from(1);
        v
    };
    for n in 2..=20usize {
        polys.push(mono(n, 1, 0));
        polys.push(mono(n, -2, 0));
        polys.push(mono(n, -1, -1));
        polys.push(mono(n, -1, 0));
    }
    for n in 2..=9i64 {
        // (x-1)(x-2)...(x-n)
        let mut v = vec![BigInt::from(1)];
        for r in 1..=n {
            let mut w = vec![BigInt::zero(); v.len() + 1];
            for (i, c) in v.iter().enumerate() {
                w[i + 1] += c;
                w[i] -= c * BigInt::from(r);
            }
            v = w;
        }
        polys.push(v);
    }
    // Phi_17 = 1 + x + ... + x^16
    polys.push(vec![BigInt::from(1); 17]);
    let reps = ctx.pick(12, 120);
    for f in &polys {
        let extra = if f.len() == 17 { 4 } else { 1 };
        for _ in 0..reps * extra {
            let seed = ctx.rng.next();
            do_nroots(ctx, f, seed);
        }
    }
}

fn do_muk(ctx: &mut Ctx, f: &[BigInt], kind: &str, seed: u64) {
    let (ans, _log) = run_rng(seed, vec![], || {
        let poly = Polynomial::from_raw(f.to_vec());
        let poly_f = Polynomial::from_raw(f.iter().map(|b| b.to_f64().unwrap()).collect());
        let theta = Algebraic::new(poly);
        let o = find_integral_basis(&theta);
        let (roots_re, roots_im) = find_roots_reim(poly_f);
        if std::env::var("C20_DEBUG").is_ok() {
            eprintln!("order basis {:?}", o.basis().iter().map(|r| show_rats(r)).collect::<Vec<_>>());
            eprintln!("roots_re {roots_re:?}\nroots_im {roots_im:?}");
        }
        if !roots_valid(f, &roots_re, &roots_im) && std::env::var("C20_UNGUARDED").is_err() {
            // find_roots_reim returned a wrong root set: reported as such (never passed on, see above)
            return format!("badroots:r={},s={}", roots_re.len(), roots_im.len());
        }
        let emb = CEmbeddings::new(&roots_re, &roots_im, &o);
        find_muk(&emb).to_string()
    });
    if ans.starts_with("panic") && std::env::var("C20_DEBUG").is_ok() {
        eprintln!("panic message: {}", last_panic());
    }
    ctx.emit("muk", &[show_ints(f), kind.to_string(), seed.to_string()], ans);
}

pub fn replay(ctx: &mut Ctx, f: &[&str]) -> bool {
    match (f[0], f.len()) {
        ("lll", 2) => do_lll(ctx, &parse_mat(f[1])),
        ("lll.x", 2) => {
            let b = parse_mat(f[1]);
            let ans = run(|| {
                let (red, h) = lll(&mat_f64(&b));
                let mut ok = true;
                let rows: Vec<String> = red
                    .iter()
                    .map(|r| r.iter().map(|&v| match int_of(v) { Some(i) => i.to_string(), None => { ok = false; String::new() } }).collect::<Vec<_>>().join(","))
                    .collect();
                format!("{}|{}", if ok { rows.join(";") } else { "nonint".to_string() }, show_mat(&h))
            });
            ctx.emit("lll.x", &[show_mat(&b)], ans);
        }
        ("lll.scaled", 3) => match f[2].parse::<i32>() {
            Ok(k) => do_lll_scaled(ctx, &parse_mat(f[1]), k),
            Err(_) => return false,
        },
        ("enum", 3) => do_enum(ctx, &parse_mat(f[1]), &parse_rat(f[2])),
        ("chval", 3) => do_chval(ctx, &parse_mat(f[1]), &parse_ints(f[2])),
        ("nroots", 3) => match f[2].parse::<u64>() {
            Ok(seed) => do_nroots(ctx, &parse_ints(f[1]), seed),
            Err(_) => return false,
        },
        ("muk", 4) => match f[3].parse::<u64>() {
            Ok(seed) => do_muk(ctx, &parse_ints(f[1]), f[2], seed),
            Err(_) => return false,
        },
        _ => return false,
    }
    true
}

// ------------------------------------------------------------------------------------ generators

fn mat_mul(a: &M, b: &M) -> M {
    let n = a.len();
    let m = b[0].len();
    let mut out = vec![vec![BigInt::zero(); m]; n];
    for i in 0..n {
        for k in 0..b.len() {
            if a[i][k].is_zero() {
                continue;
            }
            for j in 0..m {
                let v = &a[i][k] * &b[k][j];
                out[i][j] += v;
            }
        }
    }
    out
}
fn transpose(a: &M) -> M {
    let n = a.len();
    let m = a[0].len();
    (0..m).map(|j| (0..n).map(|i| a[i][j].clone()).collect()).collect()
}
fn identity(n: usize) -> M {
    (0..n).map(|i| (0..n).map(|j| if i == j { BigInt::one() } else { BigInt::zero() }).collect()).collect()
}
fn rand_entries(ctx: &mut Ctx, n: usize, bound: i64) -> M {
    (0..n).map(|_| (0..n).map(|_| BigInt::from(ctx.rng.range(-bound, bound))).collect()).collect()
}
/// random unimodular matrix: product of `steps` elementary operations with multipliers up to `m`
fn rand_unimodular(ctx: &mut Ctx, n: usize, steps: usize, m: i64) -> M {
    let mut u = identity(n);
    for _ in 0..steps {
        let i = ctx.rng.below(n as u64) as usize;
        let j = ctx.rng.below(n as u64) as usize;
        match ctx.rng.below(4) {
            0 => u.swap(i, j),
            1 => {
                for t in 0..n {
                    u[i][t] = -&u[i][t];
                }
            }
            _ => {
                if i != j {
                    let c = BigInt::from(ctx.rng.range(-m, m));
                    for t in 0..n {
                        let v = &c * &u[j][t];
                        u[i][t] += v;
                    }
                }
            }
        }
    }
    u
}
/// the implementation's own output, used only as a source of reduced *inputs*
fn reduce_with_impl(b: &M) -> Option<M> {
    let bf = mat_f64(b);
    let r = std::panic::catch_unwind(|| lll(&bf)).ok()?;
    let mut out = vec![];
    for row in r.0 {
        let mut o = vec![];
        for v in row {
            o.push(BigInt::from(int_of(v)?));
        }
        out.push(o);
    }
    Some(out)
}

fn all_square(n: usize, r: i64) -> Vec<M> {
    crate::c02::all_mats(n, n, r)
}

fn gen_lll(ctx: &mut Ctx) {
    // exhaustive small domains
    for a in all_square(2, if ctx.thorough { 4 } else { 3 }) {
        lll_case(ctx, &a);
    }
    if ctx.thorough {
        for a in all_square(3, 1) {
            lll_case(ctx, &a);
        }
    } else {
        // every 7th 3 x 3 matrix with entries in [-1, 1]
        for (i, a) in all_square(3, 1).into_iter().enumerate() {
            if i % 7 == 0 {
                lll_case(ctx, &a);
            }
        }
    }
    // identity, scaled / signed / permuted identities
    for n in 2..=8 {
        lll_case(ctx, &identity(n));
        let mut p = identity(n);
        p.reverse();
        lll_case(ctx, &p);
        let d: M = (0..n)
            .map(|i| (0..n).map(|j| if i == j { BigInt::from(-((n - i) as i64) * 3) } else { BigInt::zero() }).collect())
            .collect();
        lll_case(ctx, &d);
    }
    // the unit test of lll.rs
    lll_case(ctx, &parse_mat("1,1,1;-1,0,2;3,5,6"));

    // Entry sizes. The property is explored for entries up to 10^4. The well-conditioned families
    // (plain random, dominant diagonal, fed-back outputs) go up to 2^30 in the thorough tier; the
    // ill-conditioned ones (nearly dependent rows, unimodular images, knapsack, near-multiples) stay
    // at 10^4, because the incrementally updated f64 Gram-Schmidt coefficients lose about eps * M^3 there
    // (outputs that are off by whole units in mu start at M ~ 8 * 10^4). C20_BIG overrides the cap of
    // *all* families (experiments only).
    let forced: Option<i64> = std::env::var("C20_BIG").ok().and_then(|v| v.parse().ok());
    let big: i64 = forced.unwrap_or(if ctx.thorough { 1 << 30 } else { 10_000 });
    let cap: i64 = forced.unwrap_or(10_000);
    let cnt = ctx.pick(3500, 40000);
    let mut made = 0;
    let mut tries = 0;
    while made < cnt && tries < 20 * cnt {
        tries += 1;
        let n = 2 + ctx.rng.below(7) as usize;
        let style = ctx.rng.below(10);
        let ill = matches!(style, 3 | 6 | 7 | 8 | 9);
        let bound = if ill {
            [1, 3, 10, 100, 1000, cap][ctx.rng.below(6) as usize]
        } else {
            [1, 3, 10, 100, 10_000, big][ctx.rng.below(6) as usize]
        };
        let b: M = match style {
            0..=2 => rand_entries(ctx, n, bound),
            3 => {
                // nearly dependent: one row = small combination of the others + tiny perturbation
                let mut a = rand_entries(ctx, n, (bound / (3 * n as i64 - 2)).max(1));
                let i = ctx.rng.below(n as u64) as usize;
                let mut row = vec![BigInt::zero(); n];
                for t in 0..n {
                    if t != i {
                        let c = ctx.rng.small(3);
                        for j in 0..n {
                            let v = &c * &a[t][j];
                            row[j] += v;
                        }
                    }
                }
                let j = ctx.rng.below(n as u64) as usize;
                row[j] += BigInt::from(if ctx.rng.chance(1, 2) { 1 } else { -1 });
                if ctx.rng.chance(1, 2) {
                    let j2 = ctx.rng.below(n as u64) as usize;
                    row[j2] += ctx.rng.small(2);
                }
                a[i] = row;
                a
            }
            4 => {
                // already reduced: dominant non-decreasing diagonal with small noise
                let mut d = 1 + ctx.rng.below(bound.min(1000) as u64) as i64;
                let mut a = vec![vec![BigInt::zero(); n]; n];
                for i in 0..n {
                    for j in 0..n {
                        a[i][j] = if i == j { BigInt::from(d) } else { BigInt::from(ctx.rng.range(-d / 8, d / 8)) };
                    }
                    d += ctx.rng.below(d as u64 / 4 + 2) as i64;
                }
                a
            }
            5 => {
                // already reduced: a previous output fed back
                let a = rand_entries(ctx, n, bound);
                if det(&a).is_zero() {
                    continue;
                }
                match reduce_with_impl(&a) {
                    Some(r) => r,
                    None => continue,
                }
            }
            6 | 7 => {
                // reduced basis times a random unimodular matrix, entries kept below the bound
                let small = [1, 3, 10, 50][ctx.rng.below(4) as usize];
                let a = rand_entries(ctx, n, small);
                if det(&a).is_zero() {
                    continue;
                }
                let r = if style == 6 {
                    match reduce_with_impl(&a) {
                        Some(r) => r,
                        None => continue,
                    }
                } else {
                    a
                };
                let mut steps = 1 + ctx.rng.below(3 * n as u64) as usize;
                let mult = [1, 2, 5, 20][ctx.rng.below(4) as usize];
                loop {
                    let u = rand_unimodular(ctx, n, steps, mult);
                    let cand = mat_mul(&u, &r);
                    if max_abs(&cand) <= BigInt::from(cap) || steps == 0 {
                        break cand;
                    }
                    steps /= 2;
                }
            }
            8 => {
                // knapsack-type basis: identity bordered by a column of large numbers
                let mut a = identity(n);
                for i in 0..n {
                    let v = BigInt::from(ctx.rng.range(1, bound.max(2)));
                    a[i][n - 1] = v;
                }
                a
            }
            _ => {
                // rows that are multiples / near-multiples of one vector plus unit vectors
                let vb = (bound / 3).max(1);
                let v: Vec<BigInt> = (0..n).map(|_| BigInt::from(ctx.rng.range(-vb, vb))).collect();
                let mut a = identity(n);
                for i in 0..n {
                    let c = ctx.rng.small(3);
                    for j in 0..n {
                        let w = &c * &v[j];
                        a[i][j] += w;
                    }
                }
                a
            }
        };
        if ill && max_abs(&b) > BigInt::from(cap.max(10)) {
            continue;
        }
        if lll_case(ctx, &b) {
            made += 1;
        }
    }
}

// ---- short vectors

fn rat_inverse(q: &M) -> Option<Vec<Vec<BigRational>>> {
    let n = q.len();
    let mut a: Vec<Vec<BigRational>> = (0..n)
        .map(|i| {
            (0..2 * n)
                .map(|j| {
                    if j < n {
                        BigRational::from(q[i][j].clone())
                    } else if j - n == i {
                        BigRational::one()
                    } else {
                        BigRational::zero()
                    }
                })
                .collect()
        })
        .collect();
    for c in 0..n {
        let p = (c..n).find(|&r| !a[r][c].is_zero())?;
        a.swap(p, c);
        let piv = a[c][c].clone();
        for j in 0..2 * n {
            a[c][j] = &a[c][j] / &piv;
        }
        for i in 0..n {
            if i != c && !a[i][c].is_zero() {
                let f = a[i][c].clone();
                for j in 0..2 * n {
                    let v = &f * &a[c][j];
                    a[i][j] -= v;
                }
            }
        }
    }
    Some(a.into_iter().map(|r| r[n..].to_vec()).collect())
}
/// volume of the complete box |x_i| <= floor(sqrt(c * Qinv_ii)) (upper estimate through f64 + 1)
fn box_volume(qinv: &[Vec<BigRational>], c: &BigRational) -> f64 {
    let mut vol = 1.0;
    for i in 0..qinv.len() {
        let t = (c * &qinv[i][i]).to_f64().unwrap_or(f64::INFINITY);
        vol *= 2.0 * (t.sqrt().floor() + 1.0) + 1.0;
    }
    vol
}
fn half(k: i64) -> BigRational {
    BigRational::new(BigInt::from(2 * k + 1), BigInt::from(2))
}

/// emits `enum Q c` for the largest c = k + 1/2, k <= kmax, whose complete box stays below `limit`
fn enum_case(ctx: &mut Ctx, q: &M, kmax: i64, limit: f64) -> bool {
    let qinv = match rat_inverse(q) {
        Some(x) => x,
        None => return false,
    };
    let mut k = kmax;
    while k >= 0 {
        let c = half(k);
        if box_volume(&qinv, &c) <= limit {
            do_enum(ctx, q, &c);
            return true;
        }
        k = if k > 8 { k * 3 / 4 } else { k - 1 };
    }
    false
}

fn gram(b: &M) -> M {
    mat_mul(b, &transpose(b))
}

fn gen_enum(ctx: &mut Ctx) {
    let limit = if ctx.thorough { 300_000.0 } else { 40_000.0 };
    // the unit test of cholesky.rs, with bounds on and off the value set
    let q0 = parse_mat("2,1;1,1");
    do_enum(ctx, &q0, &BigRational::from(BigInt::from(3)));
    for k in 0..8 {
        do_enum(ctx, &q0, &half(k));
    }
    // bounds that are attained: only forms whose quadratic completion is dyadic (every operation of the
    // floating-point enumeration is then exact, so the boundary vectors must be reported):
    // Z^n, 2·Z^n, diagonal forms, [[2,1],[1,1]], A_2, [[4,2],[2,3]], [[1,0,0],[0,2,1],[0,1,1]]
    let mut exact_forms: Vec<M> = vec![
        parse_mat("2,1;1,1"),
        parse_mat("2,-1;-1,2"),
        parse_mat("4,2;2,3"),
        parse_mat("1,0,0;0,2,1;0,1,1"),
        parse_mat("1,0;0,2"),
        parse_mat("2,0,0;0,1,0;0,0,4"),
    ];
    for n in 1..=4usize {
        exact_forms.push(identity(n));
        exact_forms.push(identity(n).iter().map(|r| r.iter().map(|x| x * BigInt::from(2)).collect()).collect());
    }
    for q in &exact_forms {
        let top = if q.len() <= 2 { 8 } else if q.len() == 3 { 5 } else { 3 };
        for c in 0..=top {
            do_enum(ctx, q, &BigRational::from(BigInt::from(c)));
        }
    }
    // Z^n, A_n, D_n (n <= 5)
    for n in 1..=5usize {
        let id = identity(n);
        for k in 0..=(if n <= 3 { 6 } else { 3 }) {
            enum_case(ctx, &id, k, limit);
        }
        // A_n: 2 on the diagonal, -1 next to it
        let a: M = (0..n)
            .map(|i| {
                (0..n)
                    .map(|j| BigInt::from(if i == j { 2 } else if i + 1 == j || j + 1 == i { -1 } else { 0 }))
                    .collect()
            })
            .collect();
        for k in [1, 2, 4, 6] {
            enum_case(ctx, &a, k, limit);
        }
        if n >= 3 {
            // D_n basis: e1+e2, e1-e2, e2-e3, ...
            let mut b = vec![vec![BigInt::zero(); n]; n];
            b[0][0] = BigInt::one();
            b[0][1] = BigInt::one();
            for i in 1..n {
                b[i][i - 1] = BigInt::one();
                b[i][i] = -BigInt::one();
            }
            for k in [1, 2, 4] {
                enum_case(ctx, &gram(&b), k, limit);
            }
        }
    }
    // every 2 x 2 integer basis with entries in [-2, 2] (3 for thorough), a few bounds each
    for b in all_square(2, if ctx.thorough { 3 } else { 2 }) {
        if det(&b).is_zero() {
            continue;
        }
        let q = gram(&b);
        let k = ctx.rng.range(0, 12);
        enum_case(ctx, &q, k, limit);
    }
    let cnt = ctx.pick(450, 6000);
    let mut made = 0;
    let mut tries = 0;
    while made < cnt && tries < 20 * cnt {
        tries += 1;
        let n = 1 + ctx.rng.below(5) as usize;
        let bound = [1, 2, 3, 5, 10, 30][ctx.rng.below(6) as usize];
        let mut b = rand_entries(ctx, n, bound);
        if det(&b).is_zero() {
            continue;
        }
        match ctx.rng.below(4) {
            0 if n >= 2 => {
                // reduced first: the form is then well conditioned
                match reduce_with_impl(&b) {
                    Some(r) => b = r,
                    None => continue,
                }
            }
            1 if n >= 2 => {
                // skewed by a unimodular matrix: long thin ellipsoid
                let steps = 1 + ctx.rng.below(4) as usize;
                let u = rand_unimodular(ctx, n, steps, 3);
                b = mat_mul(&u, &b);
            }
            _ => {}
        }
        let q = gram(&b);
        // bound around the smallest diagonal entry, times a small factor
        let dmin = (0..n).map(|i| q[i][i].to_i64().unwrap()).min().unwrap();
        let factor = [1, 1, 2, 3, 5][ctx.rng.below(5) as usize];
        let k = match ctx.rng.below(5) {
            0 => dmin - 1,
            1 => dmin,
            _ => dmin * factor + ctx.rng.range(0, 3),
        };
        if enum_case(ctx, &q, k.max(0), limit) {
            made += 1;
            if made % 3 == 0 {
                let x: Vec<BigInt> = (0..n).map(|_| ctx.rng.small(20)).collect();
                do_chval(ctx, &q, &x);
            }
        }
    }
}

// ---- roots of unity

pub fn cyclotomic(n: usize) -> Vec<i64> {
    // Phi_n = (x^n - 1) / prod_{d | n, d < n} Phi_d
    let mut num = vec![0i64; n + 1];
    num[0] = -1;
    num[n] = 1;
    for d in 1..n {
        if n % d == 0 {
            let den = cyclotomic(d);
            let dd = den.len() - 1;
            let mut q = vec![0i64; num.len() - dd];
            for i in (0..q.len()).rev() {
                let c = num[i + dd] / den[dd];
                q[i] = c;
                for j in 0..=dd {
                    num[i + j] -= c * den[j];
                }
            }
            num = q;
        }
    }
    num
}
fn euler_phi(n: usize) -> usize {
    (1..=n).filter(|k| num::integer::gcd(*k, n) == 1).count()
}

fn gen_muk(ctx: &mut Ctx) {
    let reps = ctx.pick(4, 25);
    let mut fields: Vec<(Vec<i64>, String)> = vec![];
    for n in 3..=60usize {
        let deg = euler_phi(n);
        if (2..=8).contains(&deg) {
            fields.push((cyclotomic(n), format!("cyc:{n}")));
        }
    }
    // fields with a real embedding
    for d in [2, 3, 5, 6, 7, 10, 13, 15, 101] {
        fields.push((vec![-d, 0, 1], "real".into()));
    }
    for f in [
        vec![-1, -1, 1],                    // x^2 - x - 1
        vec![-2, 0, 0, 1],                  // x^3 - 2
        vec![-7, 0, 0, 1],                  // x^3 - 7
        vec![-1, -1, 0, 1],                 // x^3 - x - 1
        vec![-1, -3, 0, 1],                 // x^3 - 3x - 1 (totally real)
        vec![-1, -2, 1, 1],                 // x^3 + x^2 - 2x - 1 (totally real)
        vec![-2, 0, 0, 0, 1],               // x^4 - 2
        vec![-6, 0, 0, 0, 1],               // x^4 - 6
        vec![1, 0, -10, 0, 1],              // Q(sqrt 2, sqrt 3)
        vec![2, 0, -4, 0, 1],               // x^4 - 4x^2 + 2 (real cyclic quartic)
        vec![5, 0, -5, 0, 1],               // x^4 - 5x^2 + 5
        vec![-1, -1, 0, 0, 1],              // x^4 - x - 1
        vec![-2, 0, 0, 0, 0, 1],            // x^5 - 2
        vec![-1, -1, 0, 0, 0, 1],           // x^5 - x - 1
        vec![2, -4, 0, 0, 0, 1],            // x^5 - 4x + 2
        vec![-2, 0, 0, 0, 0, 0, 1],         // x^6 - 2
        vec![-3, 0, 0, 0, 0, 0, 1],         // x^6 - 3
        vec![-2, 0, 0, 0, 0, 0, 0, 1],      // x^7 - 2
        vec![-1, -1, 0, 0, 0, 0, 0, 1],     // x^7 - x - 1
        vec![-2, 0, 0, 0, 0, 0, 0, 0, 1],   // x^8 - 2
        vec![-3, 0, 0, 0, 0, 0, 0, 0, 1],   // x^8 - 3
        vec![-1, 0, 2],                     // 2x^2 - 1 (non-monic)
        vec![-1, 0, 0, 2],                  // 2x^3 - 1 (non-monic)
    ] {
        fields.push((f, "real".into()));
    }
    // imaginary quadratic fields (some given by non-maximal or non-monic equations)
    for f in [
        vec![1, 0, 1],
        vec![3, 0, 1],
        vec![1, 1, 1],
        vec![2, 0, 1],
        vec![5, 0, 1],
        vec![2, 1, 1],
        vec![7, 0, 1],
        vec![5, 1, 1],
        vec![4, 0, 1],
        vec![12, 0, 1],
        vec![7, 1, 1],
        vec![163, 0, 1],
        vec![41, 1, 1],
        vec![9, 0, 1],
        vec![27, 0, 1],
        vec![1, 2, 2], // 2x^2 + 2x + 1: Q(i) through a non-monic equation
        vec![1, 3, 3], // 3x^2 + 3x + 1: Q(sqrt -3)
        vec![1, 1, 3], // 3x^2 + x + 1: Q(sqrt -11)
    ] {
        fields.push((f, "imquad".into()));
    }
    // totally complex fields with a known group of roots of unity
    fields.push((vec![9, 0, -2, 0, 1], "given:8".into())); // Q(sqrt 2 + i) = Q(zeta_8)
    fields.push((vec![31, 36, 27, -4, 9, 0, 1], "given:6".into())); // Q(cbrt 2 + sqrt -3)
    fields.push((vec![9, 0, 14, 0, 1], "given:2".into())); // Q(sqrt -2, sqrt -5)
    fields.push((vec![64, 0, -4, 0, 1], "given:6".into())); // Q(sqrt -3, sqrt 5)
    fields.push((vec![36, 0, -8, 0, 1], "given:4".into())); // Q(i, sqrt 5)
    fields.push((vec![2, 0, 0, 0, 1], "given:2".into())); // x^4 + 2: Q(2^(1/4) zeta_8), no real embedding
    for (f, kind) in fields {
        let fb: Vec<BigInt> = f.iter().map(|&c| BigInt::from(c)).collect();
        for _ in 0..reps {
            let seed = ctx.rng.next();
            if std::env::var("C20_TRACE").is_ok() {
                eprintln!("muk {} {} {}", show_ints(&fb), kind, seed);
            }
            do_muk(ctx, &fb, &kind, seed);
        }
    }
}

pub fn generate(ctx: &mut Ctx) {
    gen_lll_extreme(ctx);
    // C20_ONLY=lll|enum|muk restricts the run to one family (debugging aid)
    let only = std::env::var("C20_ONLY").unwrap_or_default();
    if only.is_empty() || only == "lll" {
        gen_lll(ctx);
    }
    if only.is_empty() || only == "enum" {
        gen_enum(ctx);
    }
    if only.is_empty() || only == "muk" {
        gen_nroots(ctx);
        gen_muk(ctx);
    }
}
