//! C04: resultant (resultant.rs) = determinant of the Sylvester matrix.
//! Also hosts the pair generators shared with C05 (discriminant) and C10 (gcd in Z[x]).
use crate::c09::{all_vecs, pq, pz, rand_rat, show_pq, show_pz};
use crate::common::*;
use num::{BigInt, BigRational, One, Zero};
use rust_number_theory::polynomial::Polynomial;
use rust_number_theory::resultant::{resultant, resultant_rational};

fn do_res(ctx: &mut Ctx, f: &[BigInt], g: &[BigInt]) {
    let (pf, pg) = (pz(f), pz(g));
    let ans = run(|| resultant(&pf, &pg).to_string());
    ctx.emit("res", &[show_pz(&pf), show_pz(&pg)], ans);
}
/// coefficient lists handed over as `Polynomial { dat }` without normalisation (what the CLI does)
fn do_res_raw(ctx: &mut Ctx, f: &[BigInt], g: &[BigInt]) {
    let (pf, pg) = (Polynomial { dat: f.to_vec() }, Polynomial { dat: g.to_vec() });
    let ans = run(|| resultant(&pf, &pg).to_string());
    ctx.emit("res.raw", &[show_ints(f), show_ints(g)], ans);
}
/// process level: `rust-number-theory <config>` with to_find = resultant (lists may end in zeros)
fn do_cli_res(ctx: &mut Ctx, f: &[BigInt], g: &[BigInt]) {
    // zero polynomials are written as empty lists: no trailing zeros there (variant 0, 3, 4 only)
    let mut v = variant_of(&[show_ints(f), show_ints(g)]);
    if f.is_empty() || g.is_empty() {
        v = match v { 1 | 2 => 0, 5 => 3, x => x };
    }
    // `discriminant` of a zero polynomial panics: only in front of a non-zero first polynomial
    let before: &[&str] = if f.iter().all(|c| c.is_zero()) { &["prime-decomposition"] } else { &["discriminant", "prime-decomposition"] };
    let cfg = format!("to_find = {}\n[input]\npolynomials = {}\n", to_find_list("resultant", before, v), toml_polys(&[f, g], v));
    if let Some(out) = run_cli(&cfg) {
        let ans = if out.starts_with("panic") { out } else { json_field(&out, "resultant").unwrap_or_else(|| "noanswer".into()) };
        ctx.emit("cli.res", &[show_ints(f), show_ints(g)], ans);
    }
}
fn do_resq(ctx: &mut Ctx, f: &[BigRational], g: &[BigRational]) {
    let (pf, pg) = (pq(f), pq(g));
    let ans = run(|| show_rat(&resultant_rational(&pf, &pg)));
    ctx.emit("resq", &[show_pq(&pf), show_pq(&pg)], ans);
}
fn do_resscale(ctx: &mut Ctx, s: &BigRational, t: &BigRational, f: &[BigRational], g: &[BigRational]) {
    let (pf, pg) = (pq(f), pq(g));
    let sf = pq(&pf.dat.iter().map(|c| s * c).collect::<Vec<_>>());
    let tg = pq(&pg.dat.iter().map(|c| t * c).collect::<Vec<_>>());
    let ans = run(|| format!("{} {}", show_rat(&resultant_rational(&sf, &tg)), show_rat(&resultant_rational(&pf, &pg))));
    ctx.emit("resscale", &[show_rat(s), show_rat(t), show_pq(&pf), show_pq(&pg)], ans);
}
fn do_resscale_z(ctx: &mut Ctx, s: &BigInt, t: &BigInt, f: &[BigInt], g: &[BigInt]) {
    let (pf, pg) = (pz(f), pz(g));
    let sf = pz(&pf.dat.iter().map(|c| s * c).collect::<Vec<_>>());
    let tg = pz(&pg.dat.iter().map(|c| t * c).collect::<Vec<_>>());
    let ans = run(|| format!("{} {}", resultant(&sf, &tg), resultant(&pf, &pg)));
    ctx.emit("resscale.z", &[s.to_string(), t.to_string(), show_pz(&pf), show_pz(&pg)], ans);
}

pub fn replay(ctx: &mut Ctx, f: &[&str]) -> bool {
    match (f[0], f.len()) {
        ("cli.res", 3) => do_cli_res(ctx, &parse_ints(f[1]), &parse_ints(f[2])),
        ("res", 3) => do_res(ctx, &parse_ints(f[1]), &parse_ints(f[2])),
        ("res.raw", 3) => do_res_raw(ctx, &parse_ints(f[1]), &parse_ints(f[2])),
        ("resq", 3) => do_resq(ctx, &parse_rats(f[1]), &parse_rats(f[2])),
        ("resscale", 5) => do_resscale(ctx, &parse_rat(f[1]), &parse_rat(f[2]), &parse_rats(f[3]), &parse_rats(f[4])),
        ("resscale.z", 5) => do_resscale_z(ctx, &parse_int(f[1]), &parse_int(f[2]), &parse_ints(f[3]), &parse_ints(f[4])),
        _ => return false,
    }
    true
}

// ------------------------------------------------------------------ shared generators

pub fn to_q(v: &[BigInt]) -> Vec<BigRational> {
    v.iter().map(|c| BigRational::from(c.clone())).collect()
}
pub fn pmul(a: &[BigInt], b: &[BigInt]) -> Vec<BigInt> {
    (&pz(a) * &pz(b)).dat
}
pub fn pscale(a: &[BigInt], c: &BigInt) -> Vec<BigInt> {
    pz(&a.iter().map(|x| x * c).collect::<Vec<_>>()).dat
}
/// all canonical coefficient vectors with at most `maxlen` coefficients in [-m, m] (zero included)
pub fn small_polys(maxlen: usize, m: i64) -> Vec<Vec<BigInt>> {
    let mut out = vec![];
    for len in 0..=maxlen {
        out.extend(all_vecs(len, m).into_iter().filter(|v| v.last().map_or(true, |c| !c.is_zero())));
    }
    out
}
/// coefficient size classes: tiny, byte, word, 2^64 and a bit beyond
pub fn pick_bits(ctx: &mut Ctx) -> u64 {
    match ctx.rng.below(6) {
        0 | 1 => 2,
        2 => 8,
        3 => 32,
        _ => 64,
    }
}
pub fn nonzero(ctx: &mut Ctx, bits: u64) -> BigInt {
    for _ in 0..4 {
        let v = ctx.rng.int(bits);
        if !v.is_zero() {
            return v;
        }
    }
    if ctx.rng.chance(1, 2) {
        BigInt::one()
    } else {
        -BigInt::one()
    }
}
/// polynomial of exact degree `deg`; `sparse`: most inner coefficients are zero
pub fn poly_deg(ctx: &mut Ctx, deg: usize, bits: u64, sparse: bool) -> Vec<BigInt> {
    let mut v: Vec<BigInt> = (0..=deg)
        .map(|_| {
            if sparse && ctx.rng.chance(2, 3) {
                BigInt::zero()
            } else if ctx.rng.chance(1, 8) {
                BigInt::zero()
            } else {
                ctx.rng.int(bits)
            }
        })
        .collect();
    v[deg] = nonzero(ctx, bits);
    v
}
/// f(x^k)
pub fn inflate(f: &[BigInt], k: usize) -> Vec<BigInt> {
    if f.is_empty() {
        return vec![];
    }
    let mut out = vec![BigInt::zero(); (f.len() - 1) * k + 1];
    for (i, c) in f.iter().enumerate() {
        out[i * k] = c.clone();
    }
    out
}
pub const KINDS: u64 = 10;
/// structured pair (f, g) of the given kind; total degrees stay ≤ 12
pub fn pair(ctx: &mut Ctx, kind: u64) -> (Vec<BigInt>, Vec<BigInt>) {
    let bits = pick_bits(ctx);
    let flip = ctx.rng.chance(1, 2);
    let (f, g) = match kind {
        // arbitrary degrees ≤ 12
        0 => {
            let (df, dg) = (ctx.rng.below(13) as usize, ctx.rng.below(13) as usize);
            (poly_deg(ctx, df, bits, false), poly_deg(ctx, dg, bits, false))
        }
        // common factor h of degree 0..=6 (mostly ≥ 1)
        1 => {
            let dh = if ctx.rng.chance(1, 8) { 0 } else { 1 + ctx.rng.below(6) as usize };
            let h = poly_deg(ctx, dh, bits.min(32), false);
            let (d1, d2) = (ctx.rng.below(7) as usize, ctx.rng.below(7) as usize);
            let (f1, g1) = (poly_deg(ctx, d1, bits.min(32), false), poly_deg(ctx, d2, bits.min(32), false));
            (pmul(&h, &f1), pmul(&h, &g1))
        }
        // equal, or equal up to a scalar
        2 => {
            let d = ctx.rng.below(9) as usize;
            let f = poly_deg(ctx, d, bits, false);
            let c = if ctx.rng.chance(1, 2) { BigInt::one() } else { nonzero(ctx, 8) };
            let g = pscale(&f, &c);
            (f, g)
        }
        // one divides the other
        3 => {
            let (d, e) = (ctx.rng.below(7) as usize, ctx.rng.below(7) as usize);
            let f = poly_deg(ctx, d, bits.min(32), false);
            let q = poly_deg(ctx, e, bits.min(32), false);
            let g = pmul(&f, &q);
            (f, g)
        }
        // large degree gap δ ≥ 2
        4 => {
            let dg = 1 + ctx.rng.below(5) as usize;
            let delta = 2 + ctx.rng.below(6) as usize;
            (poly_deg(ctx, dg + delta, bits, false), poly_deg(ctx, dg, bits, false))
        }
        // non-primitive, negative leading coefficients
        5 => {
            let (df, dg) = (1 + ctx.rng.below(8) as usize, ctx.rng.below(8) as usize);
            let (c1, c2) = (nonzero(ctx, 10), nonzero(ctx, 10));
            let mut f = pscale(&poly_deg(ctx, df, bits.min(40), false), &c1);
            let mut g = pscale(&poly_deg(ctx, dg, bits.min(40), false), &c2);
            if f.last().map_or(false, |c| c > &BigInt::zero()) && ctx.rng.chance(3, 4) {
                f = pscale(&f, &BigInt::from(-1));
            }
            if g.last().map_or(false, |c| c > &BigInt::zero()) && ctx.rng.chance(1, 2) {
                g = pscale(&g, &BigInt::from(-1));
            }
            (f, g)
        }
        // sparse: few terms / polynomials in x^k (degree gaps appear inside the remainder sequence)
        6 => {
            if ctx.rng.chance(1, 2) {
                let (df, dg) = (2 + ctx.rng.below(11) as usize, 1 + ctx.rng.below(12) as usize);
                (poly_deg(ctx, df, bits, true), poly_deg(ctx, dg, bits, true))
            } else {
                let k = 2 + ctx.rng.below(3) as usize;
                let (df, dg) = (1 + ctx.rng.below(12 / k as u64) as usize, 1 + ctx.rng.below(12 / k as u64) as usize);
                let f = inflate(&poly_deg(ctx, df, bits, false), k);
                let mut g = inflate(&poly_deg(ctx, dg, bits, false), k);
                if ctx.rng.chance(1, 2) {
                    // break the x^k structure slightly
                    let i = ctx.rng.below(g.len() as u64 - 1) as usize;
                    g[i] += nonzero(ctx, 4);
                }
                (f, g)
            }
        }
        // constants and zero
        7 => {
            let c = vec![nonzero(ctx, bits)];
            let c2 = vec![nonzero(ctx, bits)];
            let d = ctx.rng.below(9) as usize;
            let p = poly_deg(ctx, d, bits, false);
            match ctx.rng.below(5) {
                0 => (vec![], p),
                1 => (c, p),
                2 => (c, c2),
                3 => (vec![], c),
                _ => (vec![], vec![]),
            }
        }
        // common factor together with contents, signs and a gap
        8 => {
            let dh = 1 + ctx.rng.below(4) as usize;
            let sparse_h = ctx.rng.chance(1, 3);
            let h = poly_deg(ctx, dh, 6, sparse_h);
            let (d1, d2) = (ctx.rng.below(4) as usize, 2 + ctx.rng.below(5) as usize);
            let (f1, g1) = (poly_deg(ctx, d1, bits.min(24), false), poly_deg(ctx, d2, bits.min(24), true));
            let (c1, c2) = (nonzero(ctx, 8), nonzero(ctx, 8));
            (pscale(&pmul(&h, &f1), &c1), pscale(&pmul(&h, &g1), &c2))
        }
        // repeated common factor: h^2 f1, h g1
        _ => {
            let dh = 1 + ctx.rng.below(3) as usize;
            let h = poly_deg(ctx, dh, 5, false);
            let (d1, d2) = (ctx.rng.below(5) as usize, ctx.rng.below(6) as usize);
            let (f1, g1) = (poly_deg(ctx, d1, bits.min(16), false), poly_deg(ctx, d2, bits.min(16), false));
            (pmul(&pmul(&h, &h), &f1), pmul(&h, &g1))
        }
    };
    if flip {
        (g, f)
    } else {
        (f, g)
    }
}
/// random rational polynomial of exact degree `deg`
pub fn poly_deg_q(ctx: &mut Ctx, deg: usize, bits: u64) -> Vec<BigRational> {
    let mut v: Vec<BigRational> =
        (0..=deg).map(|_| if ctx.rng.chance(1, 6) { BigRational::zero() } else { rand_rat(ctx, bits) }).collect();
    while v[deg].is_zero() {
        v[deg] = rand_rat(ctx, bits) + BigRational::one();
    }
    v
}

/// process-level cases (only when RNT_BIN is set): unit tests, lists ending in zeros, random pairs
fn generate_cli(ctx: &mut Ctx) {
    let iv = |v: &[i64]| v.iter().map(|x| BigInt::from(*x)).collect::<Vec<_>>();
    for (f, g) in [
        (iv(&[5, 0, 2, 0, 6, 9]), iv(&[6, 6, 6, 1, 7])),
        (iv(&[-1]), iv(&[-1, -1, 0])),
        (iv(&[-1]), iv(&[-1, 0])),
        (iv(&[1, 1, 0, 0]), iv(&[2, 0, 1, 0])),
        (iv(&[0]), iv(&[1, 2])),
        (iv(&[3]), iv(&[5])),
        (iv(&[-7, 1]), iv(&[-3, 1])),
    ] {
        do_cli_res(ctx, &f, &g);
    }
    for _ in 0..ctx.pick(40, 400) {
        let mut f = crate::c09::rand_poly(ctx, 7, 40);
        let mut g = crate::c09::rand_poly(ctx, 7, 40);
        if f.is_empty() {
            f.push(BigInt::from(1));
        }
        if g.is_empty() {
            g.push(BigInt::from(2));
        }
        if ctx.rng.chance(1, 3) {
            f.push(BigInt::from(0));
        }
        if ctx.rng.chance(1, 3) {
            g.push(BigInt::from(0));
            g.push(BigInt::from(0));
        }
        do_cli_res(ctx, &f, &g);
    }
}

pub fn generate(ctx: &mut Ctx) {
    generate_cli(ctx);
    // the four unit tests of resultant.rs and Res(x - a, x - b) = a - b
    let iv = |v: &[i64]| v.iter().map(|x| BigInt::from(*x)).collect::<Vec<_>>();
    for (f, g) in [
        (iv(&[5, 0, 2, 0, 6, 9]), iv(&[6, 6, 6, 1, 7])),
        (iv(&[2, 5, 2]), iv(&[2, 0, 1])),
        (iv(&[2, 0, 1, 0, 1]), iv(&[1, 0, 1])),
        (iv(&[2, 0, 0, 1, 0, 0, 1]), iv(&[1, 0, 0, 1])),
        (iv(&[-7, 1]), iv(&[-3, 1])),
    ] {
        do_res(ctx, &f, &g);
        do_res(ctx, &g, &f);
        do_resq(ctx, &to_q(&f), &to_q(&g));
    }
    // exhaustive: all pairs with ≤ 4 coefficients in [-m, m]
    let m = if ctx.thorough { 2 } else { 1 };
    let small = small_polys(4, m);
    for (i, f) in small.iter().enumerate() {
        for (j, g) in small.iter().enumerate() {
            do_res(ctx, f, g);
            if !ctx.thorough || (i + j) % 7 == 0 {
                do_resq(ctx, &to_q(f), &to_q(g));
            }
        }
    }
    // un-normalised lists (trailing zero coefficients) as the CLI passes them
    let rawm = if ctx.thorough { 2 } else { 1 };
    let mut raws: Vec<Vec<BigInt>> = vec![];
    for len in 0..=3 {
        raws.extend(all_vecs(len, rawm));
    }
    for f in &raws {
        for g in &raws {
            let canon = |v: &Vec<BigInt>| v.last().map_or(true, |c| !c.is_zero());
            if !canon(f) || !canon(g) {
                do_res_raw(ctx, f, g);
            }
        }
    }
    // structured random pairs
    let n = ctx.pick(6000, 60000);
    for i in 0..n {
        let (f, g) = pair(ctx, i as u64 % KINDS);
        do_res(ctx, &f, &g);
        if i % 2 == 0 {
            do_resq(ctx, &to_q(&f), &to_q(&g));
        }
        if i % 3 == 0 {
            do_res(ctx, &g, &f);
        }
        if i % 4 == 0 {
            let s = if ctx.rng.chance(1, 12) { BigInt::zero() } else { ctx.rng.int(20) };
            let t = if ctx.rng.chance(1, 12) { BigInt::zero() } else { ctx.rng.int(20) };
            do_resscale_z(ctx, &s, &t, &f, &g);
        }
        if i % 40 == 0 {
            // a random raw pair with trailing zeros
            let mut fr = f.clone();
            let mut gr = g.clone();
            if ctx.rng.chance(1, 2) {
                fr.push(BigInt::zero());
            } else {
                gr.extend([BigInt::zero(), BigInt::zero()]);
            }
            do_res_raw(ctx, &fr, &gr);
        }
    }
    // genuinely rational inputs and the scaling law
    let nq = ctx.pick(1500, 8000);
    for i in 0..nq {
        let (df, dg) = (ctx.rng.below(7) as usize, ctx.rng.below(7) as usize);
        let bits = if i % 3 == 0 { 30 } else { 8 };
        let mut f = poly_deg_q(ctx, df, bits);
        let mut g = poly_deg_q(ctx, dg, bits);
        match i % 8 {
            0 => {
                // common factor
                let dh = 1 + ctx.rng.below(3) as usize;
                let h = poly_deg_q(ctx, dh, 8);
                f = (&pq(&f) * &pq(&h)).dat;
                g = (&pq(&g) * &pq(&h)).dat;
            }
            1 => f = vec![],
            2 => g = vec![],
            _ => {}
        }
        do_resq(ctx, &f, &g);
        let s = if ctx.rng.chance(1, 15) { BigRational::zero() } else { rand_rat(ctx, 12) };
        let t = if ctx.rng.chance(1, 15) { BigRational::zero() } else { rand_rat(ctx, 12) };
        do_resscale(ctx, &s, &t, &f, &g);
    }
}
