//! C13: Miller–Rabin primality test (prime.rs), with the random history captured and replayed.
use crate::common::*;
use num::{BigInt, One};
use rust_number_theory::prime::is_prime;

/// op line: isprime n hint draws => answer ; the draws are the chunks actually served to the implementation
fn do_isprime(ctx: &mut Ctx, op: &str, n: &BigInt, hint: &str, script: Vec<Vec<u8>>) {
    let seed = ctx.rng.next();
    let (ans, log) = run_rng(seed, script, || is_prime(n).to_string());
    ctx.emit(op, &[n.to_string(), hint.to_string(), log], ans);
}

pub fn replay(ctx: &mut Ctx, f: &[&str]) -> bool {
    match (f[0], f.len()) {
        ("isprime" | "isprime.s", 4) => {
            // replay the stored history exactly
            let n = parse_int(f[1]);
            let script = parse_chunks(f[3]);
            let (ans, log) = run_rng(0, script, || is_prime(&n).to_string());
            ctx.emit(f[0], &[f[1].to_string(), f[2].to_string(), log], ans);
        }
        ("liars", 2) => ctx.emit("liars", &[f[1].to_string()], "-".into()),
        _ => return false,
    }
    true
}

fn is_prime_td(n: u64) -> bool {
    if n < 2 {
        return false;
    }
    let mut d = 2;
    while d * d <= n {
        if n % d == 0 {
            return false;
        }
        d += 1;
    }
    true
}

/// Korselt: squarefree composite n with (p - 1) | (n - 1) for every prime p | n
fn is_carmichael(n: u64) -> bool {
    if n % 2 == 0 || is_prime_td(n) {
        return false;
    }
    let mut m = n;
    let mut p = 3;
    while p * p <= m {
        if m % p == 0 {
            m /= p;
            if m % p == 0 || (n - 1) % (p - 1) != 0 {
                return false;
            }
        }
        p += 2;
    }
    m == 1 || (n - 1) % (m - 1) == 0
}

pub fn generate(ctx: &mut Ctx) {
    // every small n, including n <= 1 and negatives
    let bound = ctx.pick(1 << 13, 1 << 17) as i64;
    for n in -3..bound {
        let hint = if n >= 2 && is_prime_td(n as u64) { "p" } else { "c" };
        do_isprime(ctx, "isprime", &BigInt::from(n), hint, vec![]);
    }
    // Carmichael numbers by Korselt search
    let cb = ctx.pick(200_000, 5_000_000) as u64;
    let mut n = 561;
    while n < cb {
        if is_carmichael(n) {
            do_isprime(ctx, "isprime", &BigInt::from(n), "c", vec![]);
        }
        n += 2;
    }
    // published strong pseudoprimes to the first bases (psi_1 .. psi_8) and a few more to base 2
    let spsp: [u64; 14] = [
        2047, 3277, 4033, 4681, 8321, 1373653, 25326001, 3215031751, 2152302898747, 3474749660383,
        341550071728321, 3825123056546413051, 318665857834031151, 7999252175582851,
    ];
    for &n in &spsp {
        for _ in 0..ctx.pick(3, 20) {
            do_isprime(ctx, "isprime", &BigInt::from(n), "c", vec![]);
        }
    }
    // scripted all-liar histories: bases 1 and n-1 only (every odd composite accepts them)
    let mut comps: Vec<BigInt> = [9u64, 15, 21, 25, 91, 561, 1105, 2047, 1373653, 3215031751]
        .iter()
        .map(|&x| BigInt::from(x))
        .collect();
    comps.push((BigInt::one() << 61) - 1 - 2); // odd, composite or not: classified by the reference
    for n in &comps {
        for pat in 0..3 {
            let mut script = vec![];
            for i in 0..20 {
                let v = if (pat == 0) || (pat == 2 && i % 2 == 0) { BigInt::one() } else { n - 1 };
                script.push(encode_range(&BigInt::one(), n, &v));
            }
            do_isprime(ctx, "isprime.s", n, "c", script);
        }
        // one liar history broken by a witness in the last round
        let mut script = vec![];
        for _ in 0..19 {
            script.push(encode_range(&BigInt::one(), n, &BigInt::one()));
        }
        script.push(encode_range(&BigInt::one(), n, &BigInt::from(2)));
        do_isprime(ctx, "isprime.s", n, "c", script);
    }
    // large composites (all size classes): j liar bases (1, n-1) followed by witnesses (2): must be
    // rejected for every j < 20, i.e. the test really performs 20 independent rounds at every size
    let bigs: Vec<BigInt> = {
        let m = |e: u32| (BigInt::one() << e) - 1;
        vec![m(61) * m(31), m(89) * m(61), m(89) * m(107), m(127) * m(107), m(127) * m(521), m(521) * m(607)]
    };
    for n in &bigs {
        for j in [0usize, 1, 2, 3, 5, 6, 7, 11, 12, 13, 19] {
            let mut script = vec![];
            for i in 0..20 {
                let v = if i < j { if i % 2 == 0 { BigInt::one() } else { n - 1 } } else { BigInt::from(2) };
                script.push(encode_range(&BigInt::one(), n, &v));
            }
            do_isprime(ctx, "isprime.s", n, "c", script);
        }
    }
    // primes with scripted bases 1, n-1, and arbitrary: must be accepted whatever is drawn
    for p in [3u64, 5, 7, 13, 8191, 2147483647, 2305843009213693951] {
        let n = BigInt::from(p);
        for pat in 0..2 {
            let script = (0..20)
                .map(|i| {
                    let v = if pat == 0 { BigInt::one() } else if i % 2 == 0 { &n - 1 } else { BigInt::from(2) % &n };
                    let v = if v < BigInt::one() { BigInt::one() } else { v };
                    encode_range(&BigInt::one(), &n, &v)
                })
                .collect();
            do_isprime(ctx, "isprime.s", &n, "p", script);
        }
    }
    // large: Mersenne primes (known primes), their products (composite), random odd numbers (unknown)
    let mers: Vec<BigInt> = [61u32, 89, 107, 127, 521, 607].iter().map(|&e| (BigInt::one() << e) - 1).collect();
    for (i, p) in mers.iter().enumerate() {
        for _ in 0..ctx.pick(2, 10) {
            do_isprime(ctx, "isprime", p, "p", vec![]);
        }
        for q in &mers[..=i] {
            do_isprime(ctx, "isprime", &(p * q), "c", vec![]);
        }
        do_isprime(ctx, "isprime", &(p * 3), "c", vec![]);
        do_isprime(ctx, "isprime", &(p + 2), "u", vec![]);
    }
    for _ in 0..ctx.pick(300, 5000) {
        let bits = [33u64, 48, 63, 64, 65, 100, 256, 512][ctx.rng.below(8) as usize];
        let n = ctx.rng.bits(bits) | BigInt::one();
        do_isprime(ctx, "isprime", &n, "u", vec![]);
        // semiprime of two random odd numbers: certainly composite
        let a = (ctx.rng.bits(bits / 2) | BigInt::one()) + 2;
        let b = (ctx.rng.bits(bits / 2) | BigInt::one()) + 2;
        do_isprime(ctx, "isprime", &(a * b), "c", vec![]);
    }
    // exhaustive liar counts (model side only): odd n below a bound
    let lb = ctx.pick(1 << 10, 1 << 13) as u64;
    let mut n = 9;
    while n < lb {
        ctx.emit("liars", &[n.to_string()], "-".into());
        n += 2;
    }
}
