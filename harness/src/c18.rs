//! C18: exact rational linear algebra (determinant.rs, matrix.rs, solve_linear_system.rs,
//! subspace.rs, triangular.rs).
use crate::common::*;
use num::{BigInt, BigRational, One, Zero};
use number_theory_linear::matrix::inv;
use number_theory_linear::subspace::{iim, image_mod_p, supplement_basis};
use number_theory_linear::triangular::mul_inv_from_right_exact;
use number_theory_linear::{determinant, solve_linear_system};

pub type Q = Vec<Vec<BigRational>>;
pub type M = Vec<Vec<BigInt>>;

// ---------------------------------------------------------------- running the implementation

fn do_det(ctx: &mut Ctx, a: &Q) {
    let ans = run(|| show_rat(&determinant(a)));
    ctx.emit("la.det", &[show_ratmat(a)], ans);
}
fn do_inv(ctx: &mut Ctx, a: &Q) {
    let ans = run(|| match inv(a) {
        Ok(b) => show_ratmat(&b),
        Err(_) => "MatrixNotInvertible".into(),
    });
    ctx.emit("la.inv", &[show_ratmat(a)], ans);
}
fn do_solve(ctx: &mut Ctx, a: &Q, b: &[BigRational]) {
    let ans = run(|| match solve_linear_system(a, b) {
        Ok(x) => show_rats(&x),
        Err(_) => "MatrixNotInvertible".into(),
    });
    ctx.emit("la.solve", &[show_ratmat(a), show_rats(b)], ans);
}
fn do_iim(ctx: &mut Ctx, m: &Q, v: &Q) {
    let ans = run(|| match iim(m, v) {
        Ok(x) => show_ratmat(&x),
        Err(e) => format!("{e:?}"),
    });
    ctx.emit("la.iim", &[show_ratmat(m), show_ratmat(v)], ans);
}
fn do_supp(ctx: &mut Ctx, m: &Q) {
    let ans = run(|| match supplement_basis(m) {
        Ok(b) => show_ratmat(&b),
        Err(e) => format!("{e:?}"),
    });
    ctx.emit("la.supp", &[show_ratmat(m)], ans);
}
fn do_imagep(ctx: &mut Ctx, m: &M, p: &BigInt) {
    let ans = run(|| show_mat(&image_mod_p(m, p)));
    ctx.emit("la.imagep", &[show_mat(m), p.to_string()], ans);
}
fn do_mulinv(ctx: &mut Ctx, a: &M, b: &M) {
    let ans = run(|| match mul_inv_from_right_exact(a, b) {
        Ok(c) => show_mat(&c),
        Err(_) => "MatrixNotInvertible".into(),
    });
    ctx.emit("la.mulinv", &[show_mat(a), show_mat(b)], ans);
}

pub fn replay(ctx: &mut Ctx, f: &[&str]) -> bool {
    match (f[0], f.len()) {
        ("la.det", 2) => do_det(ctx, &parse_ratmat(f[1])),
        ("la.inv", 2) => do_inv(ctx, &parse_ratmat(f[1])),
        ("la.solve", 3) => do_solve(ctx, &parse_ratmat(f[1]), &parse_rats(f[2])),
        ("la.iim", 3) => do_iim(ctx, &parse_ratmat(f[1]), &parse_ratmat(f[2])),
        ("la.supp", 2) => do_supp(ctx, &parse_ratmat(f[1])),
        ("la.imagep", 3) => do_imagep(ctx, &parse_mat(f[1]), &parse_int(f[2])),
        ("la.mulinv", 3) => do_mulinv(ctx, &parse_mat(f[1]), &parse_mat(f[2])),
        _ => return false,
    }
    true
}

// ---------------------------------------------------------------- generators

fn q(x: i64) -> BigRational {
    BigRational::from(BigInt::from(x))
}
fn to_q(a: &M) -> Q {
    a.iter().map(|r| r.iter().map(|x| BigRational::from(x.clone())).collect()).collect()
}

/// all n x m matrices with entries lo..=hi; `stride` > 1 keeps every stride-th one (offset by seed)
fn all_int_mats(n: usize, m: usize, lo: i64, hi: i64, stride: u64, offset: u64) -> Vec<M> {
    let cells = (n * m) as u32;
    let base = (hi - lo + 1) as u64;
    let total = base.pow(cells);
    let mut out = Vec::new();
    let mut code = if stride > 1 { offset % stride } else { 0 };
    while code < total {
        let mut c = code;
        let mut mat = vec![vec![BigInt::zero(); m]; n];
        for row in mat.iter_mut() {
            for x in row.iter_mut() {
                *x = BigInt::from((c % base) as i64 + lo);
                c /= base;
            }
        }
        out.push(mat);
        code += stride;
    }
    out
}

/// one rational entry: numerator up to ~2^bits (mixture of magnitudes), small denominator
fn rand_rat(ctx: &mut Ctx, bits: u64) -> BigRational {
    let num = ctx.rng.int(bits);
    let den = match ctx.rng.below(6) {
        0..=2 => 1,
        3 => 2,
        4 => 1 + ctx.rng.below(6) as i64,
        _ => 1 + ctx.rng.below(30) as i64,
    };
    BigRational::new(num, BigInt::from(den))
}
fn small_rat(ctx: &mut Ctx) -> BigRational {
    let num = ctx.rng.range(-3, 3);
    let den = if ctx.rng.chance(1, 4) { ctx.rng.range(1, 3) } else { 1 };
    BigRational::new(BigInt::from(num), BigInt::from(den))
}
fn entry(ctx: &mut Ctx, bits: u64) -> BigRational {
    if bits <= 3 {
        q(ctx.rng.range(-3, 3))
    } else {
        rand_rat(ctx, bits)
    }
}
fn combo(ctx: &mut Ctx, rows: &[Vec<BigRational>], m: usize) -> Vec<BigRational> {
    let mut row = vec![BigRational::zero(); m];
    for r in rows {
        let c = small_rat(ctx);
        for j in 0..m {
            row[j] += &c * &r[j];
        }
    }
    row
}
fn shuffle_rows<T>(ctx: &mut Ctx, a: &mut [T]) {
    for i in (1..a.len()).rev() {
        let j = ctx.rng.below(i as u64 + 1) as usize;
        a.swap(i, j);
    }
}

/// random n x m rational matrix. Styles: plain; forced rank deficiency (rows = combinations of
/// others, shuffled); zero row / zero column; sparse; "staircase" where the first non-zero entry of
/// row j sits in a column chosen at random (early rows get late pivots: forces swaps).
fn rand_qmat(ctx: &mut Ctx, n: usize, m: usize, bits: u64, style: u64) -> Q {
    let mut a: Q = (0..n).map(|_| (0..m).map(|_| entry(ctx, bits)).collect()).collect();
    match style {
        0 | 1 => {
            let r = ctx.rng.below(n.min(m) as u64) as usize; // rank bound r < min(n, m); r = 0 => zero matrix
            for i in r..n {
                let (head, _) = a.split_at(r);
                let row = combo(ctx, head, m);
                a[i] = row;
            }
            shuffle_rows(ctx, &mut a);
        }
        2 => {
            let i = ctx.rng.below(n as u64) as usize;
            if ctx.rng.chance(1, 2) {
                a[i] = vec![BigRational::zero(); m];
            } else {
                let j = ctx.rng.below(m as u64) as usize;
                for row in a.iter_mut() {
                    row[j] = BigRational::zero();
                }
            }
        }
        3 | 4 => {
            for row in a.iter_mut() {
                for x in row.iter_mut() {
                    if ctx.rng.chance(1, 2) {
                        *x = BigRational::zero();
                    }
                }
            }
        }
        5 | 6 => {
            // staircase: distinct leading columns in random order where possible
            let mut cols: Vec<usize> = (0..m).collect();
            shuffle_rows(ctx, &mut cols);
            for (i, row) in a.iter_mut().enumerate() {
                let lead = cols[i % m];
                for x in row.iter_mut().take(lead) {
                    *x = BigRational::zero();
                }
                if row[lead].is_zero() {
                    row[lead] = BigRational::one();
                }
            }
        }
        _ => {}
    }
    a
}

fn rand_vec(ctx: &mut Ctx, n: usize, bits: u64) -> Vec<BigRational> {
    (0..n).map(|_| entry(ctx, bits)).collect()
}

/// rows for the right-hand side of `iim`: inside the row span of `m` (combinations), or outside
/// (a combination with one perturbed coordinate / a random row)
fn rand_v(ctx: &mut Ctx, mm: &Q, r: usize, bits: u64, all_inside: bool) -> Q {
    let m = mm[0].len();
    (0..r)
        .map(|_| {
            let mut row = combo(ctx, mm, m);
            if !all_inside {
                match ctx.rng.below(4) {
                    0 => {
                        let j = ctx.rng.below(m as u64) as usize;
                        row[j] += BigRational::one();
                    }
                    1 => row = rand_vec(ctx, m, bits),
                    _ => {}
                }
            }
            row
        })
        .collect()
}

fn rand_imat(ctx: &mut Ctx, n: usize, m: usize, bits: u64) -> M {
    (0..n).map(|_| (0..m).map(|_| if bits <= 3 { ctx.rng.small(3) } else { ctx.rng.int(bits) }).collect()).collect()
}
fn imul(a: &M, b: &M) -> M {
    let n = a.len();
    let k = b.len();
    let m = if k > 0 { b[0].len() } else { 0 };
    let mut c = vec![vec![BigInt::zero(); m]; n];
    for i in 0..n {
        for j in 0..m {
            for t in 0..k {
                c[i][j] += &a[i][t] * &b[t][j];
            }
        }
    }
    c
}

/// matrix over F_p with prescribed dependent rows: `rank` random rows, the rest combinations mod p
fn rand_pmat(ctx: &mut Ctx, n: usize, m: usize, p: i64, style: u64) -> M {
    let mut a: Vec<Vec<i64>> = (0..n).map(|_| (0..m).map(|_| ctx.rng.range(0, p - 1)).collect()).collect();
    match style {
        0..=2 => {
            let r = 1 + ctx.rng.below(n.min(m) as u64) as usize;
            for i in r..n {
                let mut row = vec![0i64; m];
                for t in 0..r {
                    let c = ctx.rng.range(0, p - 1);
                    for j in 0..m {
                        row[j] = (row[j] + c * a[t][j]) % p;
                    }
                }
                a[i] = row;
            }
            if style > 0 {
                shuffle_rows(ctx, &mut a);
            }
        }
        3 => {
            for row in a.iter_mut() {
                for x in row.iter_mut() {
                    if ctx.rng.chance(1, 2) {
                        *x = 0;
                    }
                }
            }
        }
        4 => {
            // repeated rows and multiples of a row
            for i in 1..n {
                if ctx.rng.chance(1, 2) {
                    let c = ctx.rng.range(0, p - 1);
                    let src = ctx.rng.below(i as u64) as usize;
                    a[i] = a[src].iter().map(|x| x * c % p).collect();
                }
            }
        }
        _ => {}
    }
    a.iter().map(|r| r.iter().map(|&x| BigInt::from(x)).collect()).collect()
}

fn square_ops(ctx: &mut Ctx, a: &Q, b: &[BigRational]) {
    do_det(ctx, a);
    do_inv(ctx, a);
    do_solve(ctx, a, b);
}

pub fn generate(ctx: &mut Ctx) {
    let thorough = ctx.thorough;
    let off = ctx.seed;

    // ---------------- exhaustive tiny matrices over {-1, 0, 1}
    for a in all_int_mats(1, 1, -2, 2, 1, 0) {
        let a = to_q(&a);
        for b in -1..=1 {
            square_ops(ctx, &a, &[q(b)]);
        }
    }
    let bs2 = all_int_mats(1, 2, -1, 1, 1, 0);
    for a in all_int_mats(2, 2, -1, 1, 1, 0) {
        let a = to_q(&a);
        do_det(ctx, &a);
        do_inv(ctx, &a);
        for b in &bs2 {
            do_solve(ctx, &a, &to_q(b)[0]);
        }
    }
    for a in all_int_mats(3, 3, -1, 1, 1, 0) {
        let a = to_q(&a);
        let b: Vec<BigRational> = (0..3).map(|_| q(ctx.rng.range(-1, 1))).collect();
        square_ops(ctx, &a, &b);
    }
    // inverse image: (rows of M, columns, rows of V, stride over M, stride over V)
    let iim_shapes: Vec<(usize, usize, usize, u64, u64)> = if thorough {
        vec![(1, 1, 1, 1, 1), (1, 2, 1, 1, 1), (1, 2, 2, 1, 1), (2, 2, 1, 1, 1), (1, 3, 1, 1, 1), (2, 3, 1, 1, 1),
             (3, 2, 1, 1, 1), (2, 3, 2, 1, 7), (3, 3, 1, 3, 1), (2, 4, 1, 3, 1), (3, 4, 1, 199, 1)]
    } else {
        vec![(1, 1, 1, 1, 1), (1, 2, 1, 1, 1), (1, 2, 2, 1, 1), (2, 2, 1, 1, 1), (1, 3, 1, 1, 1), (2, 3, 1, 1, 1),
             (3, 2, 1, 9, 1), (2, 3, 2, 1, 97), (3, 3, 1, 27, 1), (2, 4, 1, 7, 5)]
    };
    for (n, m, r, sm, sv) in iim_shapes {
        let vs: Vec<Q> = all_int_mats(r, m, -1, 1, sv, off).iter().map(to_q).collect();
        for mm in all_int_mats(n, m, -1, 1, sm, off) {
            let mm = to_q(&mm);
            for v in &vs {
                do_iim(ctx, &mm, v);
            }
        }
    }
    // supplementation
    let supp_shapes: Vec<(usize, usize, u64)> = if thorough {
        vec![(1, 1, 1), (1, 2, 1), (1, 3, 1), (2, 2, 1), (2, 3, 1), (3, 2, 1), (3, 3, 1), (2, 4, 1), (1, 5, 1), (3, 4, 5), (2, 5, 1)]
    } else {
        vec![(1, 1, 1), (1, 2, 1), (1, 3, 1), (2, 2, 1), (2, 3, 1), (3, 2, 1), (3, 3, 1), (2, 4, 1), (1, 5, 1), (3, 4, 53)]
    };
    for (k, n, s) in supp_shapes {
        for mm in all_int_mats(k, n, -1, 1, s, off) {
            do_supp(ctx, &to_q(&mm));
        }
    }
    // image over F_2, F_3 (all residues) and F_5, F_7 (entries -1, 0, 1)
    let img_shapes: Vec<(usize, usize, i64, i64, i64, u64)> = if thorough {
        vec![(1, 1, 0, 1, 2, 1), (2, 2, 0, 1, 2, 1), (2, 3, 0, 1, 2, 1), (3, 2, 0, 1, 2, 1), (3, 3, 0, 1, 2, 1),
             (4, 3, 0, 1, 2, 1), (3, 4, 0, 1, 2, 1), (4, 4, 0, 1, 2, 1), (2, 2, 0, 2, 3, 1), (2, 3, 0, 2, 3, 1),
             (3, 2, 0, 2, 3, 1), (3, 3, 0, 2, 3, 1), (4, 3, 0, 2, 3, 5), (3, 3, -1, 1, 5, 1), (3, 3, -1, 1, 7, 1),
             (2, 2, 0, 4, 5, 1), (3, 2, 0, 4, 5, 1), (2, 2, -6, 6, 7, 1)]
    } else {
        vec![(1, 1, 0, 1, 2, 1), (2, 2, 0, 1, 2, 1), (2, 3, 0, 1, 2, 1), (3, 2, 0, 1, 2, 1), (3, 3, 0, 1, 2, 1),
             (4, 3, 0, 1, 2, 1), (3, 4, 0, 1, 2, 1), (2, 2, 0, 2, 3, 1), (2, 3, 0, 2, 3, 1), (3, 2, 0, 2, 3, 1),
             (3, 3, 0, 2, 3, 1), (3, 3, -1, 1, 5, 3), (3, 3, -1, 1, 7, 5), (2, 2, 0, 4, 5, 1), (3, 2, 0, 4, 5, 5)]
    };
    for (n, m, lo, hi, p, s) in img_shapes {
        for mm in all_int_mats(n, m, lo, hi, s, off) {
            do_imagep(ctx, &mm, &BigInt::from(p));
        }
    }
    // exact right division: all pairs of 2 x 2 matrices over {-1, 0, 1}; 1 x 1 over -6..6
    let m22 = all_int_mats(2, 2, -1, 1, 1, 0);
    for a in &m22 {
        for b in &m22 {
            do_mulinv(ctx, a, b);
        }
    }
    for a in -6..=6i64 {
        for b in -6..=6i64 {
            do_mulinv(ctx, &vec![vec![BigInt::from(a)]], &vec![vec![BigInt::from(b)]]);
        }
    }

    // ---------------- random square matrices up to 7 x 7 with fractions
    for i in 0..ctx.pick(500, 20000) {
        let n = 1 + ctx.rng.below(7) as usize;
        let bits = [3u64, 3, 12, 40, 40, 90][ctx.rng.below(if thorough { 6 } else { 5 }) as usize];
        let style = ctx.rng.below(10);
        let a = rand_qmat(ctx, n, n, bits, style);
        let b = if i % 7 == 0 {
            // a right-hand side in the row space (solvable even when singular: must still be an error)
            combo(ctx, &a, n)
        } else {
            rand_vec(ctx, n, bits)
        };
        square_ops(ctx, &a, &b);
    }
    // permutation-like and triangular matrices (swap bookkeeping / sign of the determinant)
    for _ in 0..ctx.pick(60, 600) {
        let n = 2 + ctx.rng.below(6) as usize;
        let mut perm: Vec<usize> = (0..n).collect();
        shuffle_rows(ctx, &mut perm);
        let mut a: Q = vec![vec![BigRational::zero(); n]; n];
        for i in 0..n {
            a[i][perm[i]] = small_rat(ctx);
            if a[i][perm[i]].is_zero() {
                a[i][perm[i]] = BigRational::one();
            }
            for j in perm[i] + 1..n {
                if ctx.rng.chance(1, 3) {
                    a[i][j] = small_rat(ctx);
                }
            }
        }
        let b = rand_vec(ctx, n, 3);
        square_ops(ctx, &a, &b);
    }

    // ---------------- inverse image / supplementation on rectangular matrices
    for i in 0..ctx.pick(700, 25000) {
        let n = 1 + ctx.rng.below(5) as usize;
        let m = match i % 10 {
            0 => n,                                              // square
            1 => 1 + ctx.rng.below(n as u64) as usize,           // m <= n
            _ => n + 1 + ctx.rng.below((7 - n) as u64) as usize, // m > n
        };
        let bits = [3u64, 3, 12, 40][ctx.rng.below(4) as usize];
        let style = ctx.rng.below(9);
        let mm = rand_qmat(ctx, n, m, bits, style);
        let r = 1 + ctx.rng.below(3) as usize;
        let inside = ctx.rng.chance(1, 2);
        let v = rand_v(ctx, &mm, r, bits, inside);
        do_iim(ctx, &mm, &v);
        do_supp(ctx, &mm);
        if i % 4 == 0 {
            // the same question after reversing the columns (pivots of early rows move to late columns)
            let rev = |a: &Q| -> Q { a.iter().map(|r| r.iter().rev().cloned().collect()).collect() };
            do_iim(ctx, &rev(&mm), &rev(&v));
            do_supp(ctx, &rev(&mm));
        }
    }
    // D6-style witnesses: a pivot followed by entries that must be cleared, extra columns beyond n
    do_iim(ctx, &vec![vec![q(1), q(0), q(5)]], &vec![vec![q(2), q(0), q(10)]]);
    do_iim(ctx, &vec![vec![q(0), q(0), q(5), q(1)], vec![q(0), q(2), q(1), q(1)]], &vec![vec![q(0), q(2), q(6), q(2)]]);

    // ---------------- image over F_p
    for i in 0..ctx.pick(700, 25000) {
        let p = [2i64, 3, 5, 7, 101][ctx.rng.below(5) as usize];
        let n = 1 + ctx.rng.below(7) as usize;
        let m = 1 + ctx.rng.below(7) as usize;
        let style = ctx.rng.below(6);
        let mut a = rand_pmat(ctx, n, m, p, style);
        match i % 12 {
            0 => {
                // balanced representatives in (-p, p)
                for row in a.iter_mut() {
                    for x in row.iter_mut() {
                        if !x.is_zero() && ctx.rng.chance(1, 2) {
                            *x -= BigInt::from(p);
                        }
                    }
                }
            }
            1 => {
                // unreduced entries (outside the oracle; model comparison only)
                for row in a.iter_mut() {
                    for x in row.iter_mut() {
                        if ctx.rng.chance(1, 3) {
                            *x += BigInt::from(p * ctx.rng.range(-2, 2));
                        }
                    }
                }
            }
            _ => {}
        }
        do_imagep(ctx, &a, &BigInt::from(p));
    }

    // D7-style witness: proportional rows, the pivot column must stay readable for every later column
    let w = |rows: &[&[i64]]| -> M { rows.iter().map(|r| r.iter().map(|&x| BigInt::from(x)).collect()).collect() };
    do_imagep(ctx, &w(&[&[1, 1, 1], &[2, 2, 2]]), &BigInt::from(5));
    do_imagep(ctx, &w(&[&[1, 2, 3, 4], &[2, 4, 1, 3], &[0, 1, 1, 1], &[1, 3, 4, 0]]), &BigInt::from(5));

    // ---------------- exact right division
    for i in 0..ctx.pick(400, 12000) {
        let n = 1 + ctx.rng.below(6) as usize;
        let bits = [3u64, 3, 10, 40][ctx.rng.below(4) as usize];
        let mut b = rand_imat(ctx, n, n, bits);
        match ctx.rng.below(8) {
            0 => {
                // lower triangular (the caller's use case)
                for r in 0..n {
                    for c in r + 1..n {
                        b[r][c] = BigInt::zero();
                    }
                }
            }
            1 => {
                // singular: last row is a combination of the others
                let mut row = vec![BigInt::zero(); n];
                for t in 0..n - 1 {
                    let c = ctx.rng.small(3);
                    for j in 0..n {
                        row[j] += &c * &b[t][j];
                    }
                }
                b[n - 1] = row;
                shuffle_rows(ctx, &mut b);
            }
            _ => {}
        }
        let c = rand_imat(ctx, n, n, bits);
        let mut a = imul(&c, &b);
        match i % 4 {
            0 => {
                // quotient not integral (unless det B = ±1 or by accident)
                let r = ctx.rng.below(n as u64) as usize;
                let s = ctx.rng.below(n as u64) as usize;
                a[r][s] += BigInt::one();
            }
            1 => a = rand_imat(ctx, n, n, bits),
            _ => {}
        }
        do_mulinv(ctx, &a, &b);
    }

    // ---------------- shapes outside the stated domain (panic / truncation behaviour of the model)
    for _ in 0..ctx.pick(40, 300) {
        let n = 1 + ctx.rng.below(4) as usize;
        let m = 1 + ctx.rng.below(4) as usize;
        if n == m {
            continue;
        }
        let style = ctx.rng.below(9);
        let a = rand_qmat(ctx, n, m, 3, style);
        let b = rand_vec(ctx, n, 3);
        square_ops(ctx, &a, &b);
        let mut a0 = a.clone();
        for row in a0.iter_mut() {
            row[0] = BigRational::zero();
        }
        square_ops(ctx, &a0, &b);
        // wrong length of the right-hand side
        let sq = rand_qmat(ctx, n, n, 3, 9);
        let wrong = rand_vec(ctx, m, 3);
        do_solve(ctx, &sq, &wrong);
        // width mismatch between M and V
        let v = rand_qmat(ctx, 1, n, 3, 9);
        do_iim(ctx, &a, &v);
        // non-square operands of the right division
        let ia = rand_imat(ctx, n, m, 3);
        let ib = rand_imat(ctx, m, n, 3);
        do_mulinv(ctx, &ia, &ib);
        do_mulinv(ctx, &imul(&ia, &ib), &ia);
    }
    // moduli that are not primes (model comparison only: 0 divides by zero, 1, composite, negative)
    for _ in 0..ctx.pick(40, 400) {
        let p = [0i64, 1, 4, 6, 9, -5][ctx.rng.below(6) as usize];
        let n = 1 + ctx.rng.below(4) as usize;
        let m = 1 + ctx.rng.below(4) as usize;
        let a = rand_imat(ctx, n, m, 3);
        do_imagep(ctx, &a, &BigInt::from(p));
    }
    // empty arguments
    let e: Q = vec![];
    do_det(ctx, &e);
    do_inv(ctx, &e);
    do_solve(ctx, &e, &[]);
    do_solve(ctx, &e, &[q(1)]);
    do_iim(ctx, &e, &vec![vec![q(1)]]);
    do_iim(ctx, &vec![vec![q(1)]], &e);
    do_supp(ctx, &e);
    do_imagep(ctx, &vec![], &BigInt::from(5));
    do_mulinv(ctx, &vec![], &vec![]);
    do_mulinv(ctx, &vec![vec![BigInt::one()]], &vec![]);
}
