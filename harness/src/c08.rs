//! C08: `factorize_mod_p` (poly_mod/factorize_mod_p.rs), with the random splitting polynomials captured
//! and replayed. `squarefree`, `degree`, `final_split*` are private and exercised through it.
use crate::c09::{pz, show_pz, PZ};
use crate::common::*;
use crate::pm::*;
use num::{BigInt, Integer, One, ToPrimitive, Zero};
use rust_number_theory::poly_mod::factorize_mod_p;

fn show_factors(v: &[(PZ, usize)]) -> String {
    if v.is_empty() {
        return "_".into();
    }
    v.iter().map(|(g, e)| format!("{}:{}", show_pz(g), e)).collect::<Vec<_>>().join(";")
}

/// op line: pm.factor f p pusize draws => g:e;g:e;… ; returns the log of the run
fn run_factor(ctx: &mut Ctx, f: &[BigInt], p: &BigInt, pusize: usize, seed: u64, script: Vec<Vec<u8>>) -> (String, String) {
    let pf = pz(f);
    let (ans, log) = run_rng(seed, script, || show_factors(&factorize_mod_p::<BigInt>(&pf, p, pusize)));
    ctx.emit("pm.factor", &[show_pz(&pf), p.to_string(), pusize.to_string(), log.clone()], ans.clone());
    // the same generic routine at i128 now and then (p < 2^40: the routine multiplies up to three residues
    // before reducing, so larger primes overflow an i128 in the unchanged code): other arithmetic, other sampler
    if p.bits() <= 40 && pf.dat.iter().all(|c| c.bits() <= 40) && pusize as u128 == p.to_u128().unwrap_or(0) && ctx.lines.len() % 4 == 0 {
        run_factor_i128(ctx, &pf.dat, p, pusize);
    }
    (ans, log)
}
fn run_factor_i128(ctx: &mut Ctx, f: &[BigInt], p: &BigInt, pusize: usize) {
    use num::ToPrimitive;
    use rust_number_theory::polynomial::Polynomial;
    let pf = Polynomial::from_raw(f.iter().map(|x| x.to_i128().unwrap()).collect::<Vec<i128>>());
    let pp = p.to_i128().unwrap();
    let seed = ctx.rng.next();
    let (ans, _) = run_rng(seed, vec![], || {
        let r = factorize_mod_p::<i128>(&pf, &pp, pusize);
        let back: Vec<(PZ, usize)> =
            r.into_iter().map(|(g, e)| (pz(&g.dat.iter().map(|x| BigInt::from(*x)).collect::<Vec<_>>()), e)).collect();
        show_factors(&back)
    });
    ctx.emit("pm.factor.i128", &[show_ints(f), p.to_string(), pusize.to_string()], ans);
}
/// the machine-word copy of p that in-tree callers pass: p itself when it fits, else 0
fn word_of(p: &BigInt) -> usize {
    p.to_u64().map(|x| x as usize).unwrap_or(0)
}
/// p mod 2^64
fn low_word(p: &BigInt) -> usize {
    let m: BigInt = BigInt::one() << 64;
    let r: BigInt = p.mod_floor(&m);
    r.to_u64().unwrap() as usize
}
/// one case; for p beyond a word additionally the `pusize` clause: the same history with
/// pusize ∈ {0, 7, p mod 2^64} and a line comparing the three answers
fn do_factor(ctx: &mut Ctx, f: &[BigInt], p: &BigInt, script: Vec<Vec<u8>>) {
    let seed = ctx.rng.next();
    let (a0, log) = run_factor(ctx, f, p, word_of(p), seed, script);
    if p.to_u64().is_none() && ctx.rng.chance(1, 2) {
        let low = low_word(p);
        let (a7, _) = run_factor(ctx, f, p, 7, seed, parse_chunks(&log));
        let (ap, _) = run_factor(ctx, f, p, low, seed, parse_chunks(&log));
        ctx.emit("pm.factor.same", &[show_pz(&pz(f)), p.to_string(), log], format!("{a0}|{a7}|{ap}"));
    }
}

// ---- per-stage correspondence through the feature-guarded wrappers (poly_mod::verif) ----
fn do_stage_sqfree(ctx: &mut Ctx, f: &[BigInt], p: &BigInt, pusize: usize) -> Vec<(PZ, usize)> {
    let pf = pz(f);
    let mut out = vec![];
    let ans = run(|| {
        let r = rust_number_theory::poly_mod::verif::squarefree(&pf, p, pusize);
        let s = show_factors(&r);
        out = r;
        s
    });
    ctx.emit("pm.sqfree", &[show_pz(&pf), p.to_string(), pusize.to_string()], ans);
    out
}
fn do_stage_degree(ctx: &mut Ctx, f: &[BigInt], p: &BigInt) -> Vec<(PZ, usize)> {
    let pf = pz(f);
    let mut out = vec![];
    let ans = run(|| {
        let r = rust_number_theory::poly_mod::verif::degree(&pf, p);
        let s = show_factors(&r);
        out = r;
        s
    });
    ctx.emit("pm.degree", &[show_pz(&pf), p.to_string()], ans);
    out
}
fn do_stage_split(ctx: &mut Ctx, f: &[BigInt], p: &BigInt, d: usize, script: Vec<Vec<u8>>) {
    let pf = pz(f);
    let seed = ctx.rng.next();
    let (ans, log) = run_rng(seed, script, || {
        crate::pm::show_polys(&rust_number_theory::poly_mod::verif::final_split(&pf, p, d))
    });
    ctx.emit("pm.fsplit", &[show_pz(&pf), p.to_string(), d.to_string(), log], ans);
}
/// the three stages chained on one input, each stage fed with the real output of the previous one
fn stage_chain(ctx: &mut Ctx, f: &[BigInt], p: &BigInt) {
    let sq = do_stage_sqfree(ctx, f, p, word_of(p));
    for (a, _k) in sq {
        let dd = do_stage_degree(ctx, &a.dat, p);
        for (b, d) in dd {
            do_stage_split(ctx, &b.dat, p, d, vec![]);
        }
    }
}

/// the factor lists printed by the CLI, one per modulus, each in the wire format of `pm.factor`,
/// as `modulus=list` joined by `|`
fn parse_cli(out: &str) -> Option<String> {
    let mut per = vec![];
    for block in out.split("\"modulus\":").skip(1) {
        let a = block.find('"')?;
        let b = block[a + 1..].find('"')?;
        let modulus = block[a + 1..a + 1 + b].to_string();
        let mut facs = vec![];
        let mut rest = block;
        while let Some(i) = rest.find("\"factor_vec\":") {
            rest = &rest[i..];
            let a = rest.find('[')?;
            let b = rest.find(']')?;
            let coefs: Vec<String> =
                rest[a + 1..b].split(',').map(|s| s.trim().trim_matches('"').to_string()).filter(|s| !s.is_empty()).collect();
            rest = &rest[b..];
            let j = rest.find("\"e\":")?;
            let e: String = rest[j + 4..].trim_start().chars().take_while(|c| c.is_ascii_digit()).collect();
            rest = &rest[j..];
            facs.push(format!("{}:{}", if coefs.is_empty() { "_".to_string() } else { coefs.join(",") }, e));
        }
        per.push(format!("{}={}", modulus, if facs.is_empty() { "_".to_string() } else { facs.join(";") }));
    }
    // serde_json prints the keys of a struct in declaration order: "modulus" precedes "factors"
    if per.is_empty() && !out.trim_start().starts_with('[') {
        return None;
    }
    Some(if per.is_empty() { "none".to_string() } else { per.join("|") })
}
/// process level: `rust-number-theory <config>` with to_find = factorization-mod-p and several primes
/// (the glue computes the machine-word copy of each p itself: `as_usize` in main.rs)
fn do_cli(ctx: &mut Ctx, f: &[BigInt], ps: &[BigInt]) {
    let cfg = format!(
        "to_find = {}\n[input.polynomial_and_primes]\npolynomial = {}\nprimes = {}\n",
        to_find_list("factorization-mod-p", &["resultant", "discriminant", "integral_basis"], variant_of(&[show_ints(f), show_ints(ps)]) / 3 + 1),
        toml_list_z(f, if f.is_empty() { 0 } else { variant_of(&[show_ints(f), show_ints(ps)]) % 3 }),
        toml_list(ps)
    );
    if let Some(out) = run_cli(&cfg) {
        let ans = if out.starts_with("panic") { out } else { parse_cli(&out).unwrap_or_else(|| "noanswer".into()) };
        ctx.emit("cli.fmp", &[show_ints(f), show_ints(ps)], ans);
    }
}

pub fn replay(ctx: &mut Ctx, f: &[&str]) -> bool {
    match (f[0], f.len()) {
        ("cli.fmp", 3) => {
            do_cli(ctx, &parse_ints(f[1]), &parse_ints(f[2]));
            return true;
        }
        ("pm.sqfree", 4) => {
            do_stage_sqfree(ctx, &parse_ints(f[1]), &parse_int(f[2]), f[3].parse().unwrap());
            return true;
        }
        ("pm.degree", 3) => {
            do_stage_degree(ctx, &parse_ints(f[1]), &parse_int(f[2]));
            return true;
        }
        ("pm.fsplit", 5) => {
            do_stage_split(ctx, &parse_ints(f[1]), &parse_int(f[2]), f[3].parse().unwrap(), parse_chunks(f[4]));
            return true;
        }
        _ => {}
    }
    match (f[0], f.len()) {
        ("pm.factor", 5) => {
            let script = parse_chunks(f[4]);
            let n = ctx.lines.len();
            run_factor(ctx, &parse_ints(f[1]), &parse_int(f[2]), f[3].parse().expect("pusize"), 0, script);
            ctx.lines.truncate(n + 1);
        }
        ("pm.factor.i128", 4) => run_factor_i128(ctx, &parse_ints(f[1]), &parse_int(f[2]), f[3].parse().expect("pusize")),
        ("pm.factor.same", 4) => {
            let (fz, p) = (parse_ints(f[1]), parse_int(f[2]));
            let low = low_word(&p);
            let pf = pz(&fz);
            let mut answers = vec![];
            for u in [0usize, 7, low] {
                let (ans, _) = run_rng(0, parse_chunks(f[3]), || show_factors(&factorize_mod_p::<BigInt>(&pf, &p, u)));
                answers.push(ans);
            }
            ctx.emit("pm.factor.same", &[f[1].to_string(), f[2].to_string(), f[3].to_string()], answers.join("|"));
        }
        _ => return false,
    }
    true
}

fn pow_z(g: &[BigInt], e: usize, p: &BigInt) -> Vec<BigInt> {
    let mut r = vec![BigInt::one()];
    for _ in 0..e {
        r = reduce(&mul_z(&r, g), p);
    }
    r
}
/// g(x^k)
fn inflate(g: &[BigInt], k: usize) -> Vec<BigInt> {
    let mut r = vec![BigInt::zero(); (g.len() - 1) * k + 1];
    for (i, c) in g.iter().enumerate() {
        r[i * k] = c.clone();
    }
    r
}
/// irreducible building blocks over F_p: enumerated for small p, x − r and (x − s)² − n otherwise
fn blocks(ctx: &mut Ctx, p: &BigInt) -> Vec<Vec<Vec<BigInt>>> {
    let small = |p: u64, d: usize| -> Vec<Vec<Vec<BigInt>>> {
        irreducibles(p, d).into_iter().map(|l| l.iter().map(|v| to_big(v)).collect()).collect()
    };
    match p.to_u64() {
        Some(2) => small(2, 6),
        Some(3) => small(3, 4),
        Some(q @ (5 | 7)) => small(q, 3),
        Some(q @ (11 | 13)) => small(q, 2),
        _ => {
            let (mut lins, mut quads) = (vec![], vec![]);
            for _ in 0..10 {
                let r = rand_res(ctx, p);
                lins.push(vec![(-r).mod_floor(p), BigInt::one()]);
                let n = non_residue(ctx, p);
                let s = if ctx.rng.chance(1, 2) { BigInt::zero() } else { rand_res(ctx, p) };
                quads.push(vec![(&s * &s - &n).mod_floor(p), (-(&s * BigInt::from(2))).mod_floor(p), BigInt::one()]);
            }
            lins.sort();
            lins.dedup();
            quads.sort();
            quads.dedup();
            vec![lins, quads]
        }
    }
}
/// a non-zero scalar and optional noise: f ↦ c·f + p·(random), same residues up to the unit c
fn finish(ctx: &mut Ctx, f: &[BigInt], p: &BigInt) -> Vec<BigInt> {
    let mut c = if ctx.rng.chance(1, 2) { BigInt::one() } else { rand_res(ctx, p) };
    if c.is_zero() {
        c = BigInt::one();
    }
    let g: Vec<BigInt> = f.iter().map(|x| (x * &c).mod_floor(p)).collect();
    match ctx.rng.below(4) {
        0 => add_noise(ctx, &g, p, true, 70),
        1 => {
            // leading coefficient divisible by p: the degree drops modulo p
            let mut h = g.clone();
            h.push(p * ctx.rng.range(1, 5));
            h
        }
        _ => g,
    }
}

const PRIMS: [&str; 8] = [
    "pm.diff", "pm.modinv", "pm.divrem", "pm.gcd", "pm.polymod", "pm.modsub", "pm.modpowpoly", "pm.modpow",
];

pub fn generate(ctx: &mut Ctx) {
    generate_prims(ctx, &PRIMS, ctx.pick(120, 1500));
    let zero = BigInt::zero();
    // 1. every polynomial of bounded length over F_2, F_3, F_5, F_7 (callers pass pusize = p)
    let small: [(u64, usize, usize); 4] = [(2, 10, 14), (3, 6, 9), (5, 4, 6), (7, 4, 5)];
    for (p, lq, lt) in small {
        let pb = BigInt::from(p);
        for v in all_small(ctx.pick(lq, lt), p) {
            let mut f = to_big(&v);
            if ctx.rng.chance(1, 10) {
                f = add_noise(ctx, &f, &pb, true, 10);
            }
            do_factor(ctx, &f, &pb, vec![]);
        }
    }
    // 2. structured products: mixed multiplicities (also multiples of p), equal-degree families,
    //    p-th powers, all over primes of every size
    let mut primes: Vec<BigInt> = [2u64, 3, 5, 7, 11, 13, 101, 65537, M61].iter().map(|&p| BigInt::from(p)).collect();
    primes.extend(big_primes());
    for _ in 0..3 {
        primes.push(rand_prime(ctx, false));
    }
    for p in &primes {
        // the cost of one case grows with the size of p (the implementation powers up to p^d): few
        // rounds beyond a machine word, many over the small fields
        let rounds = match p.bits() {
            0..=4 => ctx.pick(60, 1500),
            5..=20 => ctx.pick(30, 600),
            21..=64 => ctx.pick(10, 80),
            _ => ctx.pick(3, 30),
        };
        let bl = blocks(ctx, p);
        let ps = p.to_u64().filter(|&q| q <= 13).map(|q| q as usize);
        for round in 0..rounds {
            // (a) product of powers of distinct irreducibles, total degree ≤ 16 (≤ 30 for p-th power shapes)
            let mut f = vec![BigInt::one()];
            let cap = if ps.is_some() && round % 3 == 0 { 30 } else { 16 };
            for _ in 0..1 + ctx.rng.below(5) {
                let d = ctx.rng.below(bl.len() as u64) as usize;
                if bl[d].is_empty() {
                    continue;
                }
                let g = bl[d][ctx.rng.below(bl[d].len() as u64) as usize].clone();
                let e = match (ctx.rng.below(8), ps) {
                    (0, Some(q)) => q,
                    (1, Some(q)) => q + 1,
                    (2, Some(q)) => 2 * q,
                    (3, Some(q)) if q <= 3 => q * q,
                    (4, _) => 2,
                    (5, _) => 3,
                    _ => 1,
                };
                if f.len() - 1 + e * (g.len() - 1) <= cap {
                    f = reduce(&mul_z(&f, &pow_z(&g, e, p)), p);
                }
            }
            let f = finish(ctx, &f, p);
            do_factor(ctx, &f, p, vec![]);
            if round % 2 == 0 {
                stage_chain(ctx, &f, p);
            }
            // (b) equal-degree families: k ≥ 2 distinct irreducibles of one degree, scripted first rounds
            let d = ctx.rng.below(bl.len() as u64) as usize;
            let fam = &bl[d];
            if fam.len() >= 2 && d + 1 <= 8 {
                let k = 2 + ctx.rng.below((fam.len().min(16 / (d + 1)) - 1).max(1) as u64) as usize;
                let mut idx: Vec<usize> = (0..fam.len()).collect();
                for i in 0..idx.len() {
                    let j = i + ctx.rng.below((idx.len() - i) as u64) as usize;
                    idx.swap(i, j);
                }
                let mut f = vec![BigInt::one()];
                for &i in idx.iter().take(k) {
                    if f.len() - 1 + d + 1 <= 16 {
                        f = reduce(&mul_z(&f, &fam[i]), p);
                    }
                }
                let f = finish(ctx, &f, p);
                let mut script = vec![];
                if p > &BigInt::from(2) {
                    match ctx.rng.below(4) {
                        0 => {
                            // t = 0 then t = 1: both useless, the loop must draw again
                            for v in [&zero, &zero, &BigInt::one()] {
                                script.push(encode_range(&zero, p, v));
                                for _ in 1..2 * (d + 1) {
                                    script.push(encode_range(&zero, p, &zero));
                                }
                            }
                        }
                        1 => {
                            // rejected samples in front of accepted ones
                            let len = encode_below(p, &zero).len();
                            script.push(vec![0xff; len]);
                            script.push(vec![0xff; len]);
                            script.push(encode_range(&zero, p, &(p - 1)));
                        }
                        _ => {}
                    }
                }
                do_factor(ctx, &f, p, script);
            }
            // (c) p-th powers g(x^p)·h for the small primes
            if let Some(q) = ps {
                let dg = 1 + ctx.rng.below((24 / q).max(1) as u64) as usize;
                let g = rand_monic_p(ctx, dg.min(30 / q), p);
                let mut f = inflate(&g, q);
                if ctx.rng.chance(1, 2) && f.len() <= 24 {
                    let dh = ctx.rng.below(4) as usize;
                    let h = rand_monic_p(ctx, dh, p);
                    f = reduce(&mul_z(&f, &h), p);
                }
                let f = finish(ctx, &f, p);
                do_factor(ctx, &f, p, vec![]);
            }
            // (d) random polynomial of degree ≤ 16
            let deg = ctx.rng.below(17) as usize;
            let f = rand_poly_p(ctx, deg, p);
            let f = finish(ctx, &f, p);
            do_factor(ctx, &f, p, vec![]);
        }
    }
    // 3. fixed cases: the library's own tests, constants, zero, wrong machine-word copies (model only)
    let three = BigInt::from(3);
    let mut f = vec![zero.clone(); 27];
    f[0] = BigInt::from(2);
    f[26] = BigInt::one();
    do_factor(ctx, &f, &three, vec![]);
    let ints = |v: &[i64]| v.iter().map(|&c| BigInt::from(c)).collect::<Vec<_>>();
    do_factor(ctx, &ints(&[0, 0, 1, 0, 1]), &three, vec![]);
    do_factor(ctx, &ints(&[1, 0, 0, 1]), &BigInt::from(2), vec![]);
    let bigp = big_primes()[0].clone();
    do_factor(ctx, &ints(&[1, 0, 1]), &bigp, vec![]);
    for p in primes.iter().take(9).chain(std::iter::once(&bigp)) {
        do_factor(ctx, &[], p, vec![]); // outside the property: panics
        do_factor(ctx, &[p.clone(), p.clone()], p, vec![]);
        do_factor(ctx, &[BigInt::from(1)], p, vec![]);
        do_factor(ctx, &[BigInt::from(-1), p.clone() * 2], p, vec![]);
        do_factor(ctx, &ints(&[0, 1]), p, vec![]);
    }
    // 4. process level (only when RNT_BIN is set): p-th powers over the small primes (the exponent scale
    //    is the machine-word copy computed by the CLI), products over word-size and larger primes,
    //    coefficient lists ending in zeros
    let cli_rounds = ctx.pick(6, 40);
    for p in primes.iter().take(12) {
        let bl = blocks(ctx, p);
        let ps = p.to_u64().filter(|&q| q <= 13).map(|q| q as usize);
        for round in 0..cli_rounds {
            if p.bits() > 64 && round >= 2 {
                break;
            }
            let mut f = vec![BigInt::one()];
            for _ in 0..1 + ctx.rng.below(3) {
                let d = ctx.rng.below(bl.len() as u64) as usize;
                if bl[d].is_empty() {
                    continue;
                }
                let g = bl[d][ctx.rng.below(bl[d].len() as u64) as usize].clone();
                let e = match (ctx.rng.below(4), ps) {
                    (0, Some(q)) => q,
                    (1, Some(q)) if q <= 3 => q * q,
                    (2, _) => 2,
                    _ => 1,
                };
                if f.len() - 1 + e * (g.len() - 1) <= 14 {
                    f = reduce(&mul_z(&f, &pow_z(&g, e, p)), p);
                }
            }
            let mut f = finish(ctx, &f, p);
            if round % 3 == 0 {
                f.push(BigInt::zero());
            }
            // one, two or three moduli in one run
            let mut ps = vec![p.clone()];
            for _ in 0..ctx.rng.below(3) {
                ps.push(primes[ctx.rng.below(9) as usize].clone());
            }
            if ctx.rng.chance(1, 2) {
                ps.reverse();
            }
            do_cli(ctx, &f, &ps);
        }
    }
    for (fz, p, u) in [
        (ints(&[1, 0, 0, 1]), 3u64, 0usize), // (x+1)^3 with pusize 0: division by zero
        (ints(&[1, 0, 0, 1]), 3, 2),
        (ints(&[1, 1, 0, 1]), 3, 0),
        (ints(&[1, 0, 1, 0, 1]), 2, 4),
        (ints(&[2, 0, 0, 0, 0, 1]), 5, 7),
    ] {
        let seed = ctx.rng.next();
        run_factor(ctx, &fz, &BigInt::from(p), u, seed, vec![]);
    }
}
