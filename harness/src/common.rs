use num::{BigInt, BigRational, One, Signed, Zero};
use std::cell::RefCell;
use std::panic::{catch_unwind, AssertUnwindSafe};

pub static LAST_EMIT: std::sync::atomic::AtomicU64 = std::sync::atomic::AtomicU64::new(0);
pub fn now_secs() -> u64 {
    std::time::SystemTime::now().duration_since(std::time::UNIX_EPOCH).map(|d| d.as_secs()).unwrap_or(0)
}
/// Watchdog: a case that produces nothing for NTV_STALL seconds is reported as a hang (exit 99), so
/// that `check` can name the input instead of waiting for its own (much longer) timeout.
pub fn start_watchdog() {
    let stall: u64 = std::env::var("NTV_STALL").ok().and_then(|s| s.parse().ok()).unwrap_or(0);
    if stall == 0 {
        return;
    }
    LAST_EMIT.store(now_secs(), std::sync::atomic::Ordering::Relaxed);
    std::thread::spawn(move || loop {
        std::thread::sleep(std::time::Duration::from_secs(2));
        let last = LAST_EMIT.load(std::sync::atomic::Ordering::Relaxed);
        if now_secs().saturating_sub(last) > stall {
            eprintln!("ntvh: no case finished for {stall} s: the implementation does not return");
            std::process::exit(99);
        }
    });
}

pub struct Ctx {
    pub rng: SplitMix,
    pub thorough: bool,
    pub lines: Vec<String>,
    pub corpus_cases: usize,
    pub seed: u64,
}

impl Ctx {
    pub fn new(seed: u64, thorough: bool) -> Self {
        Ctx {
            rng: SplitMix(seed ^ 0x5851f42d4c957f2d),
            thorough,
            lines: Vec::new(),
            corpus_cases: 0,
            seed,
        }
    }
    pub fn emit(&mut self, op: &str, args: &[String], answer: String) {
        LAST_EMIT.store(now_secs(), std::sync::atomic::Ordering::Relaxed);
        let mut s = String::from(op);
        for a in args {
            s.push('\t');
            s.push_str(a);
        }
        s.push_str("\t=>\t");
        s.push_str(&answer);
        self.lines.push(s);
    }
    /// quick/thorough sizes
    pub fn pick(&self, quick: usize, thorough: usize) -> usize {
        if self.thorough {
            thorough
        } else {
            quick
        }
    }
}

#[derive(Clone)]
pub struct SplitMix(pub u64);
impl SplitMix {
    pub fn next(&mut self) -> u64 {
        self.0 = self.0.wrapping_add(0x9e3779b97f4a7c15);
        let mut z = self.0;
        z = (z ^ (z >> 30)).wrapping_mul(0xbf58476d1ce4e5b9);
        z = (z ^ (z >> 27)).wrapping_mul(0x94d049bb133111eb);
        z ^ (z >> 31)
    }
    pub fn below(&mut self, n: u64) -> u64 {
        if n == 0 {
            0
        } else {
            self.next() % n
        }
    }
    pub fn range(&mut self, lo: i64, hi: i64) -> i64 {
        lo + self.below((hi - lo + 1) as u64) as i64
    }
    pub fn chance(&mut self, num: u64, den: u64) -> bool {
        self.below(den) < num
    }
    /// non-negative integer with exactly up to `bits` random bits
    pub fn bits(&mut self, bits: u64) -> BigInt {
        let mut v = BigInt::zero();
        let mut left = bits;
        while left > 0 {
            let take = left.min(32);
            v = (v << take) + BigInt::from(self.next() & ((1u64 << take) - 1));
            left -= take;
        }
        v
    }
    /// signed integer, magnitude distribution mixing tiny, word-size and huge values
    pub fn int(&mut self, maxbits: u64) -> BigInt {
        let b = match self.below(10) {
            0..=3 => self.below(4.min(maxbits) + 1),
            4..=6 => self.below(maxbits.min(16) + 1),
            7..=8 => self.below(maxbits.min(70) + 1),
            _ => self.below(maxbits + 1),
        };
        let v = self.bits(b);
        if self.chance(1, 2) {
            -v
        } else {
            v
        }
    }
    pub fn small(&mut self, m: i64) -> BigInt {
        BigInt::from(self.range(-m, m))
    }
}

thread_local! {
    static LAST_PANIC: RefCell<String> = RefCell::new(String::new());
}

pub fn install_panic_hook() {
    std::panic::set_hook(Box::new(|info| {
        let msg = if let Some(s) = info.payload().downcast_ref::<&str>() {
            s.to_string()
        } else if let Some(s) = info.payload().downcast_ref::<String>() {
            s.clone()
        } else {
            String::from("?")
        };
        let loc = info.location().map(|l| format!("{}:{}", l.file(), l.line())).unwrap_or_default();
        LAST_PANIC.with(|p| *p.borrow_mut() = format!("{msg} @ {loc}"));
    }));
}

pub fn classify(msg: &str) -> &'static str {
    if msg.contains("overflow") {
        "overflow"
    } else if msg.contains("divide by zero") || msg.contains("division by zero") || msg.contains("remainder with a divisor of zero") {
        "div0"
    } else if msg.contains("index out of bounds") || msg.contains("out of range") {
        "index"
    } else if msg.contains("assertion") {
        "assert"
    } else if msg.contains("unwrap") || msg.contains("expect") {
        "unwrap"
    } else {
        "other"
    }
}

/// Runs `f`, mapping a panic to `panic <kind>`.
pub fn run<F: FnOnce() -> String>(f: F) -> String {
    // NTV_DRY: list the cases without calling the implementation (used by `check` to locate the case
    // on which the implementation aborts the process: stack overflow, allocation failure, endless loop)
    static DRY: std::sync::OnceLock<bool> = std::sync::OnceLock::new();
    if *DRY.get_or_init(|| std::env::var("NTV_DRY").is_ok()) {
        return "dry".into();
    }
    match catch_unwind(AssertUnwindSafe(f)) {
        Ok(s) => s,
        Err(_) => {
            let msg = LAST_PANIC.with(|p| p.borrow().clone());
            format!("panic {}", classify(&msg))
        }
    }
}
pub fn last_panic() -> String {
    LAST_PANIC.with(|p| p.borrow().clone())
}

pub fn show_ints(v: &[BigInt]) -> String {
    if v.is_empty() {
        return "_".into();
    }
    v.iter().map(|x| x.to_string()).collect::<Vec<_>>().join(",")
}
pub fn show_mat(m: &[Vec<BigInt>]) -> String {
    if m.is_empty() {
        return "_".into();
    }
    m.iter().map(|r| show_ints(r)).collect::<Vec<_>>().join(";")
}
pub fn show_rat(r: &BigRational) -> String {
    if r.denom().is_one() {
        r.numer().to_string()
    } else {
        format!("{}/{}", r.numer(), r.denom())
    }
}
pub fn show_rats(v: &[BigRational]) -> String {
    if v.is_empty() {
        return "_".into();
    }
    v.iter().map(show_rat).collect::<Vec<_>>().join(",")
}
pub fn show_ratmat(m: &[Vec<BigRational>]) -> String {
    if m.is_empty() {
        return "_".into();
    }
    m.iter().map(|r| show_rats(r)).collect::<Vec<_>>().join(";")
}
pub fn parse_int(s: &str) -> BigInt {
    s.parse().expect("int")
}
pub fn parse_ints(s: &str) -> Vec<BigInt> {
    if s == "_" || s.is_empty() {
        return vec![];
    }
    s.split(',').map(parse_int).collect()
}
pub fn parse_mat(s: &str) -> Vec<Vec<BigInt>> {
    if s == "_" || s.is_empty() {
        return vec![];
    }
    s.split(';').map(parse_ints).collect()
}
pub fn parse_rat(s: &str) -> BigRational {
    match s.split_once('/') {
        Some((p, q)) => BigRational::new(parse_int(p), parse_int(q)),
        None => BigRational::from(parse_int(s)),
    }
}
pub fn parse_rats(s: &str) -> Vec<BigRational> {
    if s == "_" || s.is_empty() {
        return vec![];
    }
    s.split(',').map(parse_rat).collect()
}
pub fn parse_ratmat(s: &str) -> Vec<Vec<BigRational>> {
    if s == "_" || s.is_empty() {
        return vec![];
    }
    s.split(';').map(parse_rats).collect()
}
pub fn hex(bytes: &[u8]) -> String {
    bytes.iter().map(|b| format!("{b:02x}")).collect()
}
pub fn show_chunks(log: &[Vec<u8>]) -> String {
    if log.is_empty() {
        return "_".into();
    }
    log.iter().map(|c| hex(c)).collect::<Vec<_>>().join(",")
}
#[allow(dead_code)]
pub fn abs(x: &BigInt) -> BigInt {
    x.abs()
}

/// number of bits of a non-negative integer
pub fn bitlen(x: &BigInt) -> u64 {
    x.bits()
}
/// chunk that makes `gen_biguint_below(bound)` return `value` (< bound) on its first attempt
pub fn encode_below(bound: &BigInt, value: &BigInt) -> Vec<u8> {
    let bits = bound.bits();
    let rem = bits % 32;
    let len = (bits / 32 + if rem > 0 { 1 } else { 0 }) as usize;
    let (_, mut digits) = value.to_u32_digits();
    digits.resize(len, 0);
    if rem > 0 {
        let last = len - 1;
        digits[last] <<= 32 - rem;
    }
    let mut out = Vec::with_capacity(4 * len);
    for d in digits {
        out.extend_from_slice(&d.to_le_bytes());
    }
    out
}
/// chunk for `gen_bigint_range(lo, hi)` returning `value`
pub fn encode_range(lo: &BigInt, hi: &BigInt, value: &BigInt) -> Vec<u8> {
    encode_below(&(hi - lo), &(value - lo))
}
/// run `f` with the hooked RNG reset to (seed, script); returns (answer, log of chunks served)
pub fn run_rng<F: FnOnce() -> String>(seed: u64, script: Vec<Vec<u8>>, f: F) -> (String, String) {
    rust_number_theory::verif_hooks::reset(seed, script);
    let ans = run(f);
    let log = rust_number_theory::verif_hooks::take_log();
    (ans, show_chunks(&log))
}
pub fn parse_chunks(s: &str) -> Vec<Vec<u8>> {
    if s == "_" || s.is_empty() {
        return vec![];
    }
    s.split(',')
        .map(|c| (0..c.len() / 2).map(|i| u8::from_str_radix(&c[2 * i..2 * i + 2], 16).unwrap()).collect())
        .collect()
}

/// Runs the repository's own `rust-number-theory <config>` binary (path in RNT_BIN) on a TOML config
/// and returns its stdout (None when RNT_BIN is not set: process-level cases are then not generated).
pub fn run_cli(toml: &str) -> Option<String> {
    let bin = std::env::var("RNT_BIN").ok()?;
    if std::env::var("NTV_DRY").is_ok() {
        return Some("dry".into());
    }
    let dir = std::env::var("NTV_TMP").unwrap_or_else(|_| std::env::temp_dir().to_string_lossy().to_string());
    let path = format!("{}/ntvh-cli-{}-{:?}.toml", dir, std::process::id(), std::thread::current().id());
    std::fs::write(&path, toml).ok()?;
    let mut cmd = std::process::Command::new(bin);
    cmd.arg(&path);
    let out = output_with_timeout(cmd);
    let _ = std::fs::remove_file(&path);
    match out {
        Some(Ok(o)) if o.status.success() => Some(String::from_utf8_lossy(&o.stdout).to_string()),
        Some(Ok(o)) => {
            let err = String::from_utf8_lossy(&o.stderr);
            Some(format!("panic {}", classify(&err)))
        }
        Some(Err(_)) => None,
        // the process did not finish: an answer in its own right (`panic timeout`), so that the case
        // is reported with its input instead of stalling the whole run
        None => Some("panic timeout".into()),
    }
}
/// Runs a child process to completion, or kills it after NTV_CHILD_TIMEOUT seconds (default 90):
/// `None` = killed. stdout/stderr go through temporary files so that a full pipe cannot block it.
pub fn output_with_timeout(mut cmd: std::process::Command) -> Option<std::io::Result<std::process::Output>> {
    let limit: u64 = std::env::var("NTV_CHILD_TIMEOUT").ok().and_then(|s| s.parse().ok()).unwrap_or(90);
    let dir = std::env::var("NTV_TMP").unwrap_or_else(|_| std::env::temp_dir().to_string_lossy().to_string());
    let tag = format!("{}/ntvh-child-{}-{}", dir, std::process::id(), now_secs());
    let (po, pe) = (format!("{tag}.out"), format!("{tag}.err"));
    let fo = match std::fs::File::create(&po) {
        Ok(f) => f,
        Err(e) => return Some(Err(e)),
    };
    let fe = match std::fs::File::create(&pe) {
        Ok(f) => f,
        Err(e) => return Some(Err(e)),
    };
    cmd.stdout(fo).stderr(fe).stdin(std::process::Stdio::null());
    let mut child = match cmd.spawn() {
        Ok(c) => c,
        Err(e) => return Some(Err(e)),
    };
    let start = std::time::Instant::now();
    let status = loop {
        match child.try_wait() {
            Ok(Some(st)) => break Some(st),
            Ok(None) => {
                if start.elapsed().as_secs() >= limit {
                    let _ = child.kill();
                    let _ = child.wait();
                    break None;
                }
                // a waiting child is not a stalled harness
                LAST_EMIT.store(now_secs(), std::sync::atomic::Ordering::Relaxed);
                std::thread::sleep(std::time::Duration::from_millis(5));
            }
            Err(e) => {
                let _ = std::fs::remove_file(&po);
                let _ = std::fs::remove_file(&pe);
                return Some(Err(e));
            }
        }
    };
    let stdout = std::fs::read(&po).unwrap_or_default();
    let stderr = std::fs::read(&pe).unwrap_or_default();
    let _ = std::fs::remove_file(&po);
    let _ = std::fs::remove_file(&pe);
    status.map(|st| Ok(std::process::Output { status: st, stdout, stderr }))
}
/// value of `"key": "value"` in the (pretty-printed JSON) stdout of the CLI
pub fn json_field(out: &str, key: &str) -> Option<String> {
    let pat = format!("\"{}\":", key);
    let i = out.find(&pat)?;
    let rest = &out[i + pat.len()..];
    let a = rest.find('"')?;
    let b = rest[a + 1..].find('"')?;
    Some(rest[a + 1..a + 1 + b].to_string())
}
/// A small deterministic number derived from the arguments of an op line: selects the *form* of the
/// configuration handed to the CLI (trailing zero coefficients, further unused polynomials) without
/// changing its meaning, so that replaying the op line rebuilds the same configuration.
pub fn variant_of(parts: &[String]) -> u64 {
    let mut h: u64 = 0xcbf29ce484222325;
    for p in parts {
        for b in p.bytes() {
            h ^= b as u64;
            h = h.wrapping_mul(0x100000001b3);
        }
        h ^= 0xff;
        h = h.wrapping_mul(0x100000001b3);
    }
    (h >> 17) % 6
}
/// like `toml_list`, with `zeros` zero coefficients appended (the CLI must normalise them away)
pub fn toml_list_z(v: &[BigInt], zeros: u64) -> String {
    let mut w = v.to_vec();
    for _ in 0..zeros {
        w.push(BigInt::zero());
    }
    toml_list(&w)
}
/// the `polynomials = [...]` list of a config: variant 1, 2 ⇒ that many trailing zeros on every list;
/// variant 3, 4 ⇒ one / two further polynomials after the ones the command uses; 5 ⇒ both
pub fn toml_polys(polys: &[&[BigInt]], variant: u64) -> String {
    let zeros = match variant {
        1 => 1,
        2 => 2,
        5 => 1,
        _ => 0,
    };
    let mut items: Vec<String> = polys.iter().map(|f| toml_list_z(f, zeros)).collect();
    let extra = match variant {
        3 | 5 => 1,
        4 => 2,
        _ => 0,
    };
    for k in 0..extra {
        let e: Vec<BigInt> = if k == 0 { vec![BigInt::from(-2), BigInt::zero(), BigInt::zero(), BigInt::one()] } else { vec![BigInt::from(7), BigInt::one()] };
        items.push(toml_list(&e));
    }
    format!("[{}]", items.join(", "))
}
/// the `to_find` list of a configuration: the command under test, for two thirds of the variants
/// preceded by another command of the same run (`before`: commands that succeed or are refused for this
/// kind of input but must not keep the later command from running)
pub fn to_find_list(tested: &str, before: &[&str], variant: u64) -> String {
    if before.is_empty() || variant % 3 == 0 {
        format!("['{tested}']")
    } else {
        let b = before[(variant / 3) as usize % before.len()];
        format!("['{b}', '{tested}']")
    }
}
pub fn toml_list(v: &[BigInt]) -> String {
    format!("[{}]", v.iter().map(|x| format!("'{}'", x)).collect::<Vec<_>>().join(", "))
}
