//! Correspondence harness: generates cases, runs the real implementation in-process and writes
//! one line per case: `op<TAB>args…<TAB>=><TAB>answer`.
mod common;
mod c15;
mod c14;
mod c17;
mod c16;
mod c06;
mod c07;
mod c20;
mod c18;
mod c08;
mod c11;
mod c12;
mod pm;
mod c01;
mod c10;
mod c05;
mod c04;
mod c02;
mod c09;
mod c13;
mod c19;

use common::Ctx;
use std::io::Write;

fn main() {
    let args: Vec<String> = std::env::args().collect();
    if args.len() < 5 {
        eprintln!("usage: ntvh <property> <quick|thorough> <seed> <outfile> [corpus-file]");
        std::process::exit(2);
    }
    let prop = args[1].as_str();
    let thorough = args[2] == "thorough";
    let seed: u64 = args[3].parse().expect("seed");
    common::install_panic_hook();
    common::start_watchdog();
    let mut ctx = Ctx::new(seed, thorough);
    // in replay mode each finished line is written at once, so that after an abort the file tells
    // which case was running
    let mut stream = if args[2] == "replay" { Some(std::fs::File::create(&args[4]).expect("outfile")) } else { None };
    let mut written = 0usize;
    if let Some(corpus) = args.get(5) {
        // replay stored op lines first (only op + args are used; answers are recomputed)
        if let Ok(text) = std::fs::read_to_string(corpus) {
            for line in text.lines() {
                let line = line.trim_end();
                if line.is_empty() || line.starts_with('#') {
                    continue;
                }
                let fields: Vec<&str> = line.split('\t').collect();
                let cut = fields.iter().position(|f| *f == "=>").unwrap_or(fields.len());
                if !dispatch_replay(&mut ctx, &fields[..cut]) {
                    eprintln!("corpus line not understood: {line}");
                    std::process::exit(2);
                }
                if let Some(f) = stream.as_mut() {
                    for l in &ctx.lines[written..] {
                        writeln!(f, "{l}").unwrap();
                    }
                    f.flush().unwrap();
                    written = ctx.lines.len();
                }
            }
        }
    }
    ctx.corpus_cases = ctx.lines.len();
    if args[2] != "replay" {
        match prop {
            "C02" | "C03" => c02::generate(&mut ctx),
            "C09" => c09::generate(&mut ctx),
            "C13" => c13::generate(&mut ctx),
            "C19" => c19::generate(&mut ctx),
            "C04" => c04::generate(&mut ctx),
            "C05" => c05::generate(&mut ctx),
            "C10" => c10::generate(&mut ctx),
            "C01" => c01::generate(&mut ctx),
            "PM" => pm::generate_prims(&mut ctx, &pm::ALL_PRIMS, 300),
            "C12" => c12::generate(&mut ctx),
            "C11" => c11::generate(&mut ctx),
            "C08" => c08::generate(&mut ctx),
            "C18" => c18::generate(&mut ctx),
            "C20" => c20::generate(&mut ctx),
            "C07" => c07::generate(&mut ctx),
            "C06" => c06::generate(&mut ctx),
            "C16" => c16::generate(&mut ctx),
            "C17" => c17::generate(&mut ctx),
            "C14" => c14::generate(&mut ctx),
            "C15" => c15::generate(&mut ctx),
            _ => {
                eprintln!("unknown property {prop}");
                std::process::exit(2);
            }
        }
    }
    drop(stream);
    let mut f = std::io::BufWriter::new(std::fs::File::create(&args[4]).expect("outfile"));
    for l in &ctx.lines {
        writeln!(f, "{l}").unwrap();
    }
    f.flush().unwrap();
    eprintln!("ntvh: {} cases ({} from corpus)", ctx.lines.len(), ctx.corpus_cases);
}

/// Re-runs one stored operation line on the implementation.
fn dispatch_replay(ctx: &mut Ctx, f: &[&str]) -> bool {
    if f.is_empty() {
        return false;
    }
    c19::replay(ctx, f) || c09::replay(ctx, f) || c02::replay(ctx, f) || c13::replay(ctx, f) || c04::replay(ctx, f) || c05::replay(ctx, f) || c10::replay(ctx, f) || c01::replay(ctx, f) || pm::replay(ctx, f) || c12::replay(ctx, f) || c11::replay(ctx, f) || c08::replay(ctx, f) || c18::replay(ctx, f) || c20::replay(ctx, f) || c07::replay(ctx, f) || c06::replay(ctx, f) || c16::replay(ctx, f) || c17::replay(ctx, f) || c14::replay(ctx, f) || c15::replay(ctx, f)
}
