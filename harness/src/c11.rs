//! C11: Hensel lifting (poly_mod/hensel.rs: `lift_factorization`; `hensel_lift` and
//! `hensel_lift_multiple` are private and exercised through it) and `poly_coprime_witness`.
use crate::c09::{pz, show_pz, PZ};
use crate::common::*;
use crate::pm::*;
use num::{BigInt, Integer, One, Zero};
use rust_number_theory::poly_mod::lift_factorization;

/// op line: pm.lift c factors p e => lifted factors
fn do_lift(ctx: &mut Ctx, c: &[BigInt], factors: &[Vec<BigInt>], p: &BigInt, e: u32) {
    let pc = pz(c);
    let fs: Vec<PZ> = factors.iter().map(|f| pz(f)).collect();
    let ans = run(|| show_polys(&lift_factorization::<BigInt>(p, e, &pc, &fs)));
    ctx.emit("pm.lift", &[show_pz(&pc), show_polys(&fs), p.to_string(), e.to_string()], ans);
    // the same generic routine at i128 when every intermediate fits: (p^e)^2 * deg stays below 2^126
    let pe = num::pow::pow(p.clone(), e as usize);
    if pe.bits() <= 58 && pc.dat.iter().all(|x| x.bits() <= 58) && !fs.is_empty() {
        do_lift_i128(ctx, &pc.dat, factors, p, e);
    }
}
fn do_lift_i128(ctx: &mut Ctx, c: &[BigInt], factors: &[Vec<BigInt>], p: &BigInt, e: u32) {
    use num::ToPrimitive;
    use rust_number_theory::polynomial::Polynomial;
    let conv = |v: &[BigInt]| Polynomial::from_raw(v.iter().map(|x| x.to_i128().unwrap()).collect::<Vec<i128>>());
    let pc = conv(c);
    let fs: Vec<Polynomial<i128>> = factors.iter().map(|f| conv(f)).collect();
    let pp = p.to_i128().unwrap();
    let ans = run(|| {
        let r = lift_factorization::<i128>(&pp, e, &pc, &fs);
        let back: Vec<PZ> = r.iter().map(|g| pz(&g.dat.iter().map(|x| BigInt::from(*x)).collect::<Vec<_>>())).collect();
        show_polys(&back)
    });
    let fsz: Vec<PZ> = factors.iter().map(|f| pz(f)).collect();
    ctx.emit("pm.lift.i128", &[show_pz(&pz(c)), show_polys(&fsz), p.to_string(), e.to_string()], ans);
}

/// `pm.hlift p q c a b u v` ⇒ `a1|b1|qr`: the single Hensel step (`hensel::hensel_lift`, reached through
/// `poly_mod::verif`) — the function the theorem `henselLift_full` is about
fn do_hlift(ctx: &mut Ctx, p: &BigInt, q: &BigInt, c: &[BigInt], a: &[BigInt], b: &[BigInt], u: &[BigInt], v: &[BigInt]) {
    let (pc, pa, pb, pu, pv) = (pz(c), pz(a), pz(b), pz(u), pz(v));
    let ans = run(|| {
        let (a1, b1, qr) = rust_number_theory::poly_mod::verif::hensel_lift::<BigInt>(p, q, &pc, &pa, &pb, &pu, &pv);
        format!("{}|{}|{}", show_pz(&a1), show_pz(&b1), qr)
    });
    ctx.emit(
        "pm.hlift",
        &[p.to_string(), q.to_string(), show_pz(&pc), show_pz(&pa), show_pz(&pb), show_pz(&pu), show_pz(&pv)],
        ans,
    );
}
/// inputs satisfying the preconditions of Cohen 3.5.5: a, b monic coprime mod p, (u, v) from
/// poly_coprime_witness, q = p^k, c = a*b + q*noise
fn gen_hlift(ctx: &mut Ctx, n: usize) {
    use rust_number_theory::poly_mod::poly_coprime_witness;
    for _ in 0..n {
        let p = BigInt::from([2u64, 3, 5, 7, 13, 101, 2305843009213693951][ctx.rng.below(7) as usize]);
        let da = 1 + ctx.rng.below(4) as usize;
        let db = 1 + ctx.rng.below(4) as usize;
        let a = crate::pm::rand_monic_p(ctx, da, &p);
        let b = crate::pm::rand_monic_p(ctx, db, &p);
        let (pa, pb) = (pz(&a), pz(&b));
        let w = std::panic::catch_unwind(std::panic::AssertUnwindSafe(|| poly_coprime_witness::<BigInt>(&pa, &pb, &p)));
        let Ok((u, v)) = w else { continue };
        let k = 1 + ctx.rng.below(5) as u32;
        let q = num::pow(p.clone(), k as usize);
        let ab = (&pa * &pb).dat;
        let mut c = ab.clone();
        for x in c.iter_mut() {
            *x += &q * ctx.rng.small(5);
        }
        do_hlift(ctx, &p, &q, &c, &a, &b, &u.dat, &v.dat);
    }
}

pub fn replay(ctx: &mut Ctx, f: &[&str]) -> bool {
    if f[0] == "pm.hlift" && f.len() == 8 {
        do_hlift(ctx, &parse_int(f[1]), &parse_int(f[2]), &parse_ints(f[3]), &parse_ints(f[4]), &parse_ints(f[5]), &parse_ints(f[6]), &parse_ints(f[7]));
        return true;
    }
    match (f[0], f.len()) {
        ("pm.lift", 5) => {
            let fs = parse_mat(f[2]);
            let n = ctx.lines.len();
            do_lift(ctx, &parse_ints(f[1]), &fs, &parse_int(f[3]), f[4].parse().expect("e"));
            ctx.lines.truncate(n + 1);
        }
        ("pm.lift.i128", 5) => {
            let fs = parse_mat(f[2]);
            do_lift_i128(ctx, &parse_ints(f[1]), &fs, &parse_int(f[3]), f[4].parse().expect("e"));
        }
        _ => return false,
    }
    true
}

/// a pool of distinct monic irreducible polynomials over F_p, coefficients in [0, p)
fn irreducible_pool(ctx: &mut Ctx, p: &BigInt) -> Vec<Vec<BigInt>> {
    let small = |p: u64, d: usize| -> Vec<Vec<BigInt>> {
        irreducibles(p, d).into_iter().flatten().map(|v| to_big(&v)).collect()
    };
    if p == &BigInt::from(2) {
        small(2, 6)
    } else if p == &BigInt::from(3) {
        small(3, 4)
    } else if p == &BigInt::from(5) || p == &BigInt::from(7) {
        small(p.to_string().parse().unwrap(), 3)
    } else if p == &BigInt::from(13) {
        small(13, 2)
    } else {
        // x − r, x² − n and (x − s)² − n with n a non-residue
        let mut pool: Vec<Vec<BigInt>> = vec![];
        for _ in 0..12 {
            let r = rand_res(ctx, p);
            pool.push(vec![(-r).mod_floor(p), BigInt::one()]);
            let n = non_residue(ctx, p);
            let s = if ctx.rng.chance(1, 2) { BigInt::zero() } else { rand_res(ctx, p) };
            // (x − s)² − n = x² − 2 s x + s² − n
            pool.push(vec![(&s * &s - &n).mod_floor(p), (-(&s * BigInt::from(2))).mod_floor(p), BigInt::one()]);
        }
        pool.push(vec![BigInt::zero(), BigInt::one()]); // x
        pool.sort();
        pool.dedup();
        pool
    }
}

const PRIMS: [&str; 8] = [
    "pm.witness", "pm.extgcd", "pm.divrem", "pm.polydiv", "pm.polymul", "pm.polymod", "pm.modsub", "pm.modinv",
];

pub fn generate(ctx: &mut Ctx) {
    let nh = ctx.pick(600, 8000);
    gen_hlift(ctx, nh);
    generate_prims(ctx, &PRIMS, ctx.pick(300, 3000));
    let mut primes: Vec<BigInt> = [2u64, 3, 5, 7, 13, 101, M61].iter().map(|&p| BigInt::from(p)).collect();
    primes.push(big_primes()[0].clone()); // 2^64 + 13
    primes.push(BigInt::from(next_prime(1_000_000 + ctx.rng.below(1 << 40))));
    let rounds = ctx.pick(300, 3000);
    for p in &primes {
        let pool = irreducible_pool(ctx, p);
        for round in 0..rounds {
            // 1..8 distinct factors of total degree ≤ 10
            let want = 1 + ctx.rng.below(8) as usize;
            let mut idx: Vec<usize> = vec![];
            let mut deg = 0;
            for _ in 0..4 * want {
                let k = ctx.rng.below(pool.len() as u64) as usize;
                let d = pool[k].len() - 1;
                if !idx.contains(&k) && deg + d <= 10 && idx.len() < want {
                    idx.push(k);
                    deg += d;
                }
            }
            if idx.is_empty() {
                idx.push(0);
            }
            let factors: Vec<Vec<BigInt>> = idx.iter().map(|&k| pool[k].clone()).collect();
            let mut prod = vec![BigInt::one()];
            for f in &factors {
                prod = mul_z(&prod, f);
            }
            // unit leading coefficient: 1, −1, small, or arbitrary (also negative and > p)
            let mut unit = match ctx.rng.below(5) {
                0 => BigInt::one(),
                1 => -BigInt::one(),
                2 => ctx.rng.small(9),
                _ => ctx.rng.int(70),
            };
            if unit.mod_floor(p).is_zero() {
                unit = BigInt::one();
            }
            let mut c: Vec<BigInt> = prod.iter().map(|x| x * &unit).collect();
            // p·(random polynomial): c is congruent to, not equal to, unit·∏ f_i
            if ctx.rng.chance(3, 4) {
                let bits = [4u64, 30, 200][ctx.rng.below(3) as usize];
                c = add_noise(ctx, &c, p, true, bits);
                if c.last().unwrap().is_zero() {
                    let k = c.len() - 1;
                    c[k] = unit.clone();
                }
            }
            let e = match round % 6 {
                0 => 1,
                1 => 2,
                2 => 12,
                _ => 1 + ctx.rng.below(12) as u32,
            };
            do_lift(ctx, &c, &factors, p, e);
            // the Bezout witnesses the lift asks for: prefix products against the next factor
            if round % 3 == 0 && factors.len() >= 2 {
                let mut acc = factors[0].clone();
                for f in &factors[1..] {
                    do_witness(ctx, &acc, f, p);
                    do_witness(ctx, f, &acc, p);
                    acc = reduce(&mul_z(&acc, f), p);
                }
            }
            // outside the preconditions (model correspondence only): a repeated factor, e = 0,
            // a leading coefficient divisible by p
            if round % 20 == 7 {
                let mut dup = factors.clone();
                dup.push(factors[0].clone());
                do_lift(ctx, &mul_z(&c, &factors[0]), &dup, p, 3);
                do_lift(ctx, &c, &factors, p, 0);
                let mut bad = c.clone();
                let k = bad.len() - 1;
                bad[k] = p * 3;
                do_lift(ctx, &bad, &factors, p, 3);
            }
        }
    }
    // the library's own test and a few fixed shapes
    let five = BigInt::from(5);
    let ints = |v: &[i64]| v.iter().map(|&c| BigInt::from(c)).collect::<Vec<_>>();
    do_lift(ctx, &ints(&[-2, 0, 0, 1]), &[ints(&[2, 1]), ints(&[4, 3, 1])], &five, 3);
    do_lift(ctx, &ints(&[-2, 0, 0, 1]), &[ints(&[4, 3, 1]), ints(&[2, 1])], &five, 12);
    do_lift(ctx, &ints(&[3, 2, 1]), &[ints(&[0, 1]), ints(&[2, 1])], &BigInt::from(3), 4);
    do_lift(ctx, &ints(&[7]), &[], &five, 4);
    do_lift(ctx, &[], &[], &five, 4);
}
