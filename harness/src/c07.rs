//! C07: factorization over Z (`poly_z::factorize`), with the random choices of the modular factorizer
//! captured and replayed. Inputs are exhaustive small polynomials and products of polynomials that are
//! irreducible *by construction* (linear, non-square discriminant, Eisenstein, irreducible modulo q,
//! cyclotomic, Swinnerton-Dyer type); the factorization an input was built from travels with the case as
//! the `expected` argument, used by the oracle only where its own certificates cannot decide.
use crate::c04::{pmul, pscale, small_polys};
use crate::c09::{pz, show_pz};
use crate::common::*;
use crate::pm::{big, irreducibles, to_big};
use num::{BigInt, Integer, One, Signed, Zero};
use rust_number_theory::poly_z::factorize;

type P = Vec<BigInt>;
/// (signed content, [(primitive irreducible factor with positive leading coefficient, multiplicity)])
type Expected = (BigInt, Vec<(P, usize)>);

fn show_fac(v: &[(P, usize)]) -> String {
    if v.is_empty() {
        return "_".into();
    }
    v.iter().map(|(g, e)| format!("{}^{}", show_ints(g), e)).collect::<Vec<_>>().join(";")
}
fn show_expected(e: Option<&Expected>) -> String {
    match e {
        None => "-".into(),
        Some((c, v)) => format!("{}|{}", c, show_fac(v)),
    }
}

/// op line: pz.factor a expected draws => c|f^e;f^e;…
fn run_factor(ctx: &mut Ctx, a: &[BigInt], expected: &str, seed: u64, script: Vec<Vec<u8>>, bounds: bool) {
    let pa = pz(a);
    let _ = rust_number_theory::poly_z::verif::take_bounds();
    let (ans, log) = run_rng(seed, script, || {
        let (c, fac) = factorize(&pa);
        let v: Vec<(P, usize)> = fac.into_iter().map(|(f, e)| (f.dat, e)).collect();
        format!("{}|{}", c, show_fac(&v))
    });
    ctx.emit("pz.factor", &[show_pz(&pa), expected.to_string(), log], ans);
    // (a replayed line answers with exactly one line: the abort locator counts them)
    if bounds {
        emit_bounds(ctx);
    }
}
/// op line: pz.bound a => B — the modulus bound `get_factors_of_squarefree` chose for the squarefree
/// primitive `a` (hook `poly_z::verif::take_bounds`); the driver evaluates the proved sufficient
/// condition `boundOk a B` on it.
fn emit_bounds(ctx: &mut Ctx) {
    for (a, b) in rust_number_theory::poly_z::verif::take_bounds() {
        ctx.emit("pz.bound", &[show_ints(&a)], b.to_string());
    }
}
fn run_bound(ctx: &mut Ctx, a: &[BigInt]) {
    let pa = pz(a);
    let _ = rust_number_theory::poly_z::verif::take_bounds();
    let _ = run_rng(0, vec![], || {
        let _ = rust_number_theory::poly_z::verif::get_factors_of_squarefree(&pa);
        String::new()
    });
    emit_bounds(ctx);
}
fn do_factor(ctx: &mut Ctx, a: &[BigInt], expected: Option<&Expected>) {
    let seed = ctx.rng.next();
    // now and then a scripted beginning: two rejected samples, then the useless t = 0 (all the primes
    // chosen by the algorithm are small: every draw is one 4-byte chunk)
    let script = if ctx.rng.chance(1, 12) {
        let mut s = vec![vec![0xffu8; 4], vec![0xffu8; 4]];
        for _ in 0..ctx.rng.below(9) {
            s.push(vec![0u8; 4]);
        }
        s
    } else {
        vec![]
    };
    run_factor(ctx, a, &show_expected(expected), seed, script, true);
}

/// the factorization printed by the CLI, in the wire format of `pz.factor`
fn parse_cli(out: &str) -> Option<String> {
    let content = json_field(out, "content")?;
    let mut facs = vec![];
    let mut rest = out;
    while let Some(i) = rest.find("\"factor_vec\":") {
        rest = &rest[i..];
        let a = rest.find('[')?;
        let b = rest.find(']')?;
        let coefs: Vec<String> =
            rest[a + 1..b].split(',').map(|s| s.trim().trim_matches('"').to_string()).filter(|s| !s.is_empty()).collect();
        rest = &rest[b..];
        let j = rest.find("\"e\":")?;
        let e: String = rest[j + 4..].trim_start().chars().take_while(|c| c.is_ascii_digit()).collect();
        rest = &rest[j..];
        facs.push(format!("{}^{}", if coefs.is_empty() { "_".to_string() } else { coefs.join(",") }, e));
    }
    Some(format!("{}|{}", content, if facs.is_empty() { "_".to_string() } else { facs.join(";") }))
}
/// process level: `rust-number-theory <config>` with to_find = factorization (the list may end in zeros)
fn do_cli(ctx: &mut Ctx, a: &[BigInt], expected: &str) {
    let mut v = variant_of(&[show_ints(a)]);
    if a.is_empty() {
        v = match v { 1 | 2 => 0, 5 => 3, x => x };
    }
    let cfg = format!("to_find = {}\n[input]\npolynomials = {}\n", to_find_list("factorization", &["prime-decomposition", "factorization-mod-p"], v), toml_polys(&[a], v));
    if let Some(out) = run_cli(&cfg) {
        let ans = if out.starts_with("panic") { out } else { parse_cli(&out).unwrap_or_else(|| "noanswer".into()) };
        ctx.emit("cli.pz", &[show_ints(a), expected.to_string()], ans);
    }
}

pub fn replay(ctx: &mut Ctx, f: &[&str]) -> bool {
    match (f[0], f.len()) {
        ("pz.bound", 2) => run_bound(ctx, &parse_ints(f[1])),
        ("pz.factor", 4) => run_factor(ctx, &parse_ints(f[1]), f[2], 0, parse_chunks(f[3]), false),
        ("cli.pz", 3) => do_cli(ctx, &parse_ints(f[1]), f[2]),
        ("cli.pz", 2) => do_cli(ctx, &parse_ints(f[1]), "-"),
        _ => return false,
    }
    true
}

// ------------------------------------------------------------------ building blocks

fn iv(v: &[i64]) -> P {
    v.iter().map(|x| BigInt::from(*x)).collect()
}
/// primitive part with positive leading coefficient
fn normalise(f: &[BigInt]) -> P {
    let mut g = BigInt::zero();
    for c in f {
        g = g.gcd(c);
    }
    if f.last().map_or(false, |c| c.is_negative()) {
        g = -g;
    }
    f.iter().map(|c| c / &g).collect()
}
/// exact quotient by a monic polynomial
fn div_monic(a: &[BigInt], b: &[BigInt]) -> P {
    let mut r = a.to_vec();
    let db = b.len() - 1;
    let mut q = vec![BigInt::zero(); a.len() - db];
    for i in (0..q.len()).rev() {
        let c = r[i + db].clone();
        for j in 0..=db {
            let t = &c * &b[j];
            r[i + j] -= t;
        }
        q[i] = c;
    }
    assert!(r.iter().all(|c| c.is_zero()));
    q
}
/// x^n − 1
fn xn_minus_1(n: usize) -> P {
    let mut v = vec![BigInt::zero(); n + 1];
    v[0] = -BigInt::one();
    v[n] = BigInt::one();
    v
}
/// Φ_1 … Φ_n (index k − 1 ↦ Φ_k): Φ_k = (x^k − 1) / ∏_{d | k, d < k} Φ_d
fn cyclotomics(n: usize) -> Vec<P> {
    let mut phi: Vec<P> = vec![];
    for k in 1..=n {
        let mut f = xn_minus_1(k);
        for d in 1..k {
            if k % d == 0 {
                f = div_monic(&f, &phi[d - 1]);
            }
        }
        phi.push(f);
    }
    phi
}
/// minimal polynomial of √a + √b: x^4 − 2(a+b)x^2 + (a−b)^2, irreducible for a, b, ab non-squares,
/// reducible modulo every prime
fn biquadratic(a: i64, b: i64) -> P {
    iv(&[(a - b) * (a - b), 0, -2 * (a + b), 0, 1])
}
/// minimal polynomial of √2 + √3 + √5
fn sd8() -> P {
    iv(&[576, 0, -960, 0, 352, 0, -40, 0, 1])
}
/// minimal polynomial of √2 + √3 + √5 + √7
fn sd16() -> P {
    iv(&[46225, 0, -5596840, 0, 13950764, 0, -7453176, 0, 1513334, 0, -141912, 0, 6476, 0, -136, 0, 1])
}
/// f(x + s)
fn shift(f: &[BigInt], s: i64) -> P {
    let lin = iv(&[s, 1]);
    let mut out: P = vec![];
    for c in f.iter().rev() {
        out = pmul(&out, &lin);
        if out.is_empty() {
            out = vec![c.clone()];
        } else {
            out[0] += c;
        }
        while out.last().map_or(false, |c| c.is_zero()) {
            out.pop();
        }
    }
    out
}
/// f(−x)
fn neg_arg(f: &[BigInt]) -> P {
    f.iter().enumerate().map(|(i, c)| if i % 2 == 1 { -c } else { c.clone() }).collect()
}
fn is_square(n: i64) -> bool {
    if n < 0 {
        return false;
    }
    let r = (n as f64).sqrt() as i64;
    (r - 1..=r + 1).any(|x| x * x == n)
}
/// small noise, or up to `bits` bits when `bits` > 0
fn noise(ctx: &mut Ctx, bits: u64) -> BigInt {
    if bits == 0 {
        ctx.rng.small(2)
    } else {
        ctx.rng.int(bits)
    }
}

struct Blocks {
    irr: Vec<(u64, Vec<Vec<Vec<u64>>>)>,
    phi: Vec<P>,
}
impl Blocks {
    fn new() -> Self {
        Blocks {
            irr: vec![(2, irreducibles(2, 6)), (3, irreducibles(3, 4)), (5, irreducibles(5, 3)), (7, irreducibles(7, 2))],
            phi: cyclotomics(30),
        }
    }
}

/// one polynomial irreducible over Q by construction, primitive with positive leading coefficient;
/// `bits` > 0 asks for large coefficients
fn block(ctx: &mut Ctx, bl: &Blocks, kind: u64, bits: u64) -> P {
    let f = match kind {
        // linear a x + b, gcd(a, b) = 1
        0 => {
            if bits > 0 {
                vec![ctx.rng.int(bits), ctx.rng.bits(bits / 2) + 1]
            } else {
                vec![ctx.rng.small(20), BigInt::from(ctx.rng.range(1, 7))]
            }
        }
        // quadratic with a non-square discriminant
        1 => loop {
            let (a, b, c) = (ctx.rng.range(1, 6), ctx.rng.range(-9, 9), ctx.rng.range(-9, 9));
            if !is_square(b * b - 4 * a * c) {
                break iv(&[c, b, a]);
            }
        },
        // Eisenstein at p: p ∤ lc, p | every other coefficient, p² ∤ constant
        2 => {
            let p = if bits > 0 { BigInt::from(crate::pm::M61) } else { BigInt::from([2i64, 3, 5, 7, 11][ctx.rng.below(5) as usize]) };
            let d = 2 + ctx.rng.below(4) as usize;
            let mut v: P = (0..d).map(|_| &p * noise(ctx, bits)).collect();
            let mut u = noise(ctx, bits);
            while u.mod_floor(&p).is_zero() {
                u += 1;
            }
            v[0] = &p * u;
            let mut lc = BigInt::from(ctx.rng.range(1, 3));
            if lc.mod_floor(&p).is_zero() {
                lc = BigInt::one();
            }
            v.push(lc);
            v
        }
        // irreducible modulo q, lifted with noise (leading coefficient ≡ 1)
        3 => {
            let (q, table) = &bl.irr[ctx.rng.below(bl.irr.len() as u64) as usize];
            let d = 1 + ctx.rng.below(table.len() as u64 - 1) as usize; // degree d + 1 ≥ 2
            let g = to_big(&table[d][ctx.rng.below(table[d].len() as u64) as usize]);
            let n = g.len();
            g.iter()
                .enumerate()
                .map(|(i, c)| {
                    let k = if i + 1 < n { noise(ctx, bits) } else { BigInt::from([0u64, 0, 0, 1, 2][ctx.rng.below(5) as usize]) };
                    c + k * BigInt::from(*q)
                })
                .collect()
        }
        // cyclotomic Φ_n, n ≤ 30, degree ≤ 12
        4 => loop {
            let f = &bl.phi[ctx.rng.below(30) as usize];
            if f.len() <= 13 {
                break f.clone();
            }
        },
        // Swinnerton-Dyer type: irreducible, but split modulo every prime
        _ => {
            let f = match ctx.rng.below(10) {
                0 => iv(&[1, 0, 0, 0, 1]),
                1 => biquadratic(2, 3),
                2 => sd8(),
                _ => loop {
                    let (a, b) = (ctx.rng.range(2, 13), ctx.rng.range(2, 13));
                    if a != b && !is_square(a) && !is_square(b) && !is_square(a * b) {
                        break biquadratic(a, b);
                    }
                },
            };
            match ctx.rng.below(4) {
                0 => shift(&f, ctx.rng.range(-3, 3)),
                1 => neg_arg(&shift(&f, 1)),
                _ => f,
            }
        }
    };
    normalise(&pz(&f).dat)
}
fn ppow(f: &[BigInt], e: usize) -> P {
    let mut r = vec![BigInt::one()];
    for _ in 0..e {
        r = pmul(&r, f);
    }
    r
}
/// the polynomial c · ∏ f^e of an expectation
fn expand(e: &Expected) -> P {
    let mut r = vec![BigInt::one()];
    for (f, m) in &e.1 {
        r = pmul(&r, &ppow(f, *m));
    }
    pscale(&r, &e.0)
}
/// expectation from a list of (block, multiplicity): equal blocks are merged
fn expectation(c: BigInt, parts: Vec<(P, usize)>) -> Expected {
    let mut out: Vec<(P, usize)> = vec![];
    for (f, e) in parts {
        match out.iter_mut().find(|(g, _)| *g == f) {
            Some(slot) => slot.1 += e,
            None => out.push((f, e)),
        }
    }
    (c, out)
}
fn content(ctx: &mut Ctx) -> BigInt {
    match ctx.rng.below(8) {
        0 => -BigInt::one(),
        1 => BigInt::from(ctx.rng.range(2, 30)),
        2 => -BigInt::from(ctx.rng.range(2, 30)),
        3 => crate::c04::nonzero(ctx, 70),
        _ => BigInt::one(),
    }
}
fn do_expected(ctx: &mut Ctx, e: &Expected, cli: bool) {
    let a = expand(e);
    do_factor(ctx, &a, Some(e));
    if cli {
        do_cli(ctx, &a, &show_expected(Some(e)));
    }
}

pub fn generate(ctx: &mut Ctx) {
    let bl = Blocks::new();
    let one = BigInt::one();
    let single = |f: &P| -> Expected { (BigInt::one(), vec![(f.clone(), 1)]) };

    // 1. zero, constants, the five unit tests of poly_z/mod.rs
    do_factor(ctx, &[], Some(&(BigInt::zero(), vec![])));
    do_cli(ctx, &[], "0|_");
    do_cli(ctx, &iv(&[0, 0]), "0|_");
    for c in [iv(&[1]), iv(&[-1]), iv(&[2]), iv(&[-6]), vec![big("-340282366920938463463374607431768211507")]] {
        do_factor(ctx, &c, Some(&(c[0].clone(), vec![])));
        do_cli(ctx, &c, &format!("{}|_", c[0]));
    }
    for (c, parts) in [
        (1, vec![(iv(&[3, 1]), 1), (iv(&[-1, 1]), 1)]),
        (1, vec![(iv(&[1, 1]), 2)]),
        (2, vec![(iv(&[1, 1]), 2)]),
        (1, vec![(iv(&[1, 2]), 1), (iv(&[2, 3]), 1)]),
        (1, vec![(iv(&[1, -2, 2]), 1), (iv(&[1, 2, 2]), 1)]),
        // non-monic factors
        (1, vec![(iv(&[1, 2]), 1), (iv(&[-2, 3]), 1)]),
        (-5, vec![(iv(&[1, 2]), 3), (iv(&[-2, 3]), 2), (iv(&[1, 1, 2]), 1)]),
        (7, vec![(iv(&[3, 0, 2]), 7), (iv(&[-1, 5]), 8)]),
        // the witness of D4 (a leftover `assert!(e <= 5)`): multiplicity 7
        (1, vec![(iv(&[1, 1]), 7)]),
        // Wilkinson-like: 12, 25 (the recombination limit) and 26 (beyond it: `assert!` fires) linear factors
        (1, (1..=12).map(|i| (iv(&[-i, 1]), 1)).collect()),
        (1, (1..=25).map(|i| (iv(&[-i, 1]), 1)).collect()),
        (1, (1..=26).map(|i| (iv(&[-i, 1]), 1)).collect()),
        (-3, (1..=6).map(|i| (iv(&[-i, 2 * i - 1]), (i as usize) % 3 + 1)).collect()),
    ] {
        let e = expectation(BigInt::from(c), parts);
        do_expected(ctx, &e, true);
    }

    // 1b. one coefficient dominating the others (the factor-coefficient bound sums ALL coefficients, also the
    //     constant term and the one next to the leading term): differences of squares and cubes with large
    //     roots, and products whose x^(n-1) coefficient is huge
    for a in [7i64, 30, 100, 999, 12345, 1_000_003] {
        let e = expectation(BigInt::one(), vec![(iv(&[-a, 1]), 1), (iv(&[a, 1]), 1)]);
        do_expected(ctx, &e, false);
        let e = expectation(BigInt::one(), vec![(iv(&[-a, 1]), 1), (iv(&[a * a, a, 1]), 1)]);
        do_expected(ctx, &e, false);
    }
    for (c2, m, d) in [(34i64, 1224i64, 36i64), (47, 64061, 29), (3, 100000, 7), (5, 999983, 11)] {
        // (c2 x^2 + 1)(x^3 + m x^2 - d): the oracle decides alone
        let e: Expected = (BigInt::one(), vec![(iv(&[1, 0, c2]), 1), (iv(&[-d, 0, m, 1]), 1)]);
        let f = expand(&e);
        do_factor(ctx, &f, None);
    }
    for (a, b) in [(1000i64, 1001i64), (-5000, 7000), (123456, -123457)] {
        let e = expectation(BigInt::one(), vec![(iv(&[-a, 1]), 1), (iv(&[-b, 1]), 1), (iv(&[1, 1, 1]), 1)]);
        do_expected(ctx, &e, false);
    }
    // 1c. products whose factors have coefficients close to the factor-coefficient bound: cyclotomic
    //     polynomials at shifted and reflected arguments (Phi_m(x), Phi_m(1 - x), Phi_m(x + 1), Phi_m(-x)),
    //     total degree <= 18; the oracle decides alone (the proved model value where irreducibility is out of
    //     its reach). Two fixed witnesses of a too small bound first.
    do_factor(ctx, &iv(&[1, -1, 5, 0, 0, 0, 1, 2, 2, 1, 0, 0, 0, 3, -3, 1]), None);
    do_factor(ctx, &iv(&[-1, -1, -5, 0, 0, 0, -1, 2, -2, 1, 0, 0, 0, 3, 3, 1]), None);
    {
        let compose = |f: &[BigInt], a: i64, b: i64| -> P {
            // f(a x + b) by Horner
            let lin = iv(&[b, a]);
            let mut acc: P = vec![];
            for c in f.iter().rev() {
                acc = pmul(&acc, &lin);
                if acc.is_empty() {
                    acc = vec![c.clone()];
                } else {
                    acc[0] += c;
                }
            }
            acc
        };
        let ms = [2usize, 3, 4, 5, 6, 7, 8, 9, 10, 12, 14, 15, 18];
        for _ in 0..ctx.pick(40, 600) {
            let mut f: P = vec![BigInt::one()];
            let mut used: Vec<(usize, u8)> = vec![];
            for _ in 0..2 + ctx.rng.below(4) {
                let m = ms[ctx.rng.below(ms.len() as u64) as usize];
                let kind = ctx.rng.below(7) as u8;
                if used.contains(&(m, kind)) {
                    continue;
                }
                let phi = iv(&crate::c20::cyclotomic(m));
                let g = match kind {
                    0 => phi,
                    1 => compose(&phi, -1, 1),
                    2 => compose(&phi, 1, 1),
                    3 => compose(&phi, -1, 0),
                    // non-monic: the leading coefficient enters the bound as a factor
                    4 => compose(&phi, 2, 1),
                    5 => compose(&phi, 3, -1),
                    _ => compose(&phi, -2, 0),
                };
                if f.len() - 1 + g.len() - 1 > 18 {
                    continue;
                }
                used.push((m, kind));
                f = pmul(&f, &g);
            }
            if f.len() >= 3 {
                do_factor(ctx, &f, None);
            }
        }
    }
    // 2. exhaustive: every polynomial with few small coefficients (no expectation: the oracle decides alone)
    let mut small = if ctx.thorough { small_polys(5, 3) } else { small_polys(5, 2) };
    small.extend(small_polys(if ctx.thorough { 8 } else { 6 }, 1).into_iter().filter(|v| v.len() >= 6));
    small.sort();
    small.dedup();
    for (i, a) in small.iter().enumerate() {
        do_factor(ctx, a, None);
        if i % ctx.pick(60, 100) == 0 {
            // the CLI also accepts lists that end in zero coefficients
            let mut raw = a.clone();
            if i % 3 == 0 {
                raw.push(BigInt::zero());
            }
            do_cli(ctx, &raw, "-");
        }
    }

    // 3. irreducible but split modulo every prime (recombination must go through every d ≤ len / 2),
    //    alone, shifted, with contents and powers, and multiplied together
    let mut sd: Vec<P> = vec![iv(&[1, 0, 0, 0, 1]), biquadratic(2, 3), sd8(), sd16()];
    for (a, b) in [(2, 5), (3, 5), (2, 7), (3, 7), (5, 7), (2, 11), (6, 10), (3, 13)] {
        sd.push(biquadratic(a, b));
    }
    for f in sd.clone() {
        sd.push(normalise(&shift(&f, 1)));
        sd.push(normalise(&neg_arg(&shift(&f, 2))));
    }
    for (i, f) in sd.iter().enumerate() {
        do_expected(ctx, &single(f), i < 12);
        let e = expectation(content(ctx), vec![(f.clone(), 1 + ctx.rng.below(3) as usize)]);
        do_expected(ctx, &e, false);
    }
    for _ in 0..ctx.pick(40, 400) {
        let f = sd[ctx.rng.below(sd.len() as u64) as usize].clone();
        let g = sd[ctx.rng.below(sd.len() as u64) as usize].clone();
        if f.len() + g.len() <= 14 {
            let lin = block(ctx, &bl, 0, 0);
            let e = expectation(content(ctx), vec![(f, 1), (g, 1 + ctx.rng.below(2) as usize), (lin, 1)]);
            do_expected(ctx, &e, false);
        }
    }

    // 4. cyclotomic polynomials, x^n − 1 = ∏_{d | n} Φ_d and x^n + 1 = ∏_{d | 2n, d ∤ n} Φ_d
    for n in 1..=30usize {
        do_expected(ctx, &single(&bl.phi[n - 1]), n % 4 == 0);
        let parts: Vec<(P, usize)> = (1..=n).filter(|d| n % d == 0).map(|d| (bl.phi[d - 1].clone(), 1)).collect();
        do_expected(ctx, &(one.clone(), parts), n % 6 == 0);
        if n <= 15 {
            let parts: Vec<(P, usize)> =
                (1..=2 * n).filter(|d| (2 * n) % d == 0 && n % d != 0).map(|d| (bl.phi[d - 1].clone(), 1)).collect();
            do_expected(ctx, &(one.clone(), parts), false);
        }
    }

    // 5. products of 1–4 irreducibles by construction: multiplicities up to 12, contents, negative
    //    leading coefficients, non-monic factors; squarefree part of degree ≤ 12, total degree ≤ 60
    let rounds = ctx.pick(1200, 12000);
    for round in 0..rounds {
        let k = 1 + ctx.rng.below(4) as usize;
        let mut parts: Vec<(P, usize)> = vec![];
        let (mut rad, mut total) = (0usize, 0usize);
        for _ in 0..k {
            let kind = ctx.rng.below(6);
            let f = block(ctx, &bl, kind, 0);
            let d = f.len() - 1;
            if rad + d > 12 || parts.iter().any(|(g, _)| *g == f) {
                continue;
            }
            let mut e = match ctx.rng.below(10) {
                0 => 7 + ctx.rng.below(6) as usize, // 7..12
                1 => 4 + ctx.rng.below(3) as usize,
                2 | 3 => 3,
                4 | 5 => 2,
                _ => 1,
            };
            if round % 11 == 0 && parts.is_empty() {
                e = 7 + ctx.rng.below(6) as usize;
            }
            while e > 1 && total + e * d > 60 {
                e -= 1;
            }
            if total + e * d > 60 {
                continue;
            }
            rad += d;
            total += e * d;
            parts.push((f, e));
        }
        if parts.is_empty() {
            continue;
        }
        let e = expectation(content(ctx), parts);
        do_expected(ctx, &e, round % ctx.pick(12, 20) == 0);
    }

    // 6. large coefficients: the coefficient bound, and with it the Hensel exponent, become large
    for round in 0..ctx.pick(80, 800) {
        let bits = [40u64, 64, 90, 130][round % 4];
        let k = 1 + ctx.rng.below(3) as usize;
        let mut parts: Vec<(P, usize)> = vec![];
        let mut rad = 0;
        for _ in 0..k {
            let kind = [0u64, 0, 2, 3][ctx.rng.below(4) as usize];
            let f = block(ctx, &bl, kind, bits);
            if rad + f.len() - 1 > 8 || parts.iter().any(|(g, _)| *g == f) {
                continue;
            }
            rad += f.len() - 1;
            parts.push((f, 1 + (ctx.rng.below(5) == 0) as usize));
        }
        if parts.is_empty() {
            continue;
        }
        let e = expectation(content(ctx), parts);
        do_expected(ctx, &e, round % 6 == 0);
    }
    // roots far apart / close together: (x − N)(x − N − 1)(x + N), N large
    for n in [big("1000000007"), big("18446744073709551629"), (BigInt::one() << 100) + 1] {
        let parts = vec![(vec![-&n, one.clone()], 1), (vec![-&n - 1, one.clone()], 2), (vec![n.clone(), one.clone()], 1)];
        do_expected(ctx, &expectation(-BigInt::from(4), parts), false);
    }
}
