namespace NTV.Poly
abbrev Poly := List Int

/-- `Polynomial::from_raw`: strip trailing zero coefficients. -/
def fromRaw (l : List Int) : Poly := (l.reverse.dropWhile (· == 0)).reverse

def addRaw : List Int → List Int → List Int
  | [], b => b
  | a, [] => a
  | x :: xs, y :: ys => (x + y) :: addRaw xs ys

def add (a b : Poly) : Poly := if a.isEmpty then b else if b.isEmpty then a else fromRaw (addRaw a b)
def smulRaw (c : Int) (a : List Int) : List Int := a.map (c * ·)
def mulRaw : List Int → List Int → List Int
  | [], _ => []
  | x :: xs, b => addRaw (smulRaw x b) (0 :: mulRaw xs b)
def mul (a b : Poly) : Poly := if a.isEmpty || b.isEmpty then [] else fromRaw (mulRaw a b)
end NTV.Poly
