import NTV.Model.Order
import NTV.Model.Trial
/-! Model of src/integral_basis/mod.rs (`find_integral_basis`) and src/integral_basis/round2.rs
(`one_step`, `pow_mod_p`, `mul_mod_p`). An order is its stored basis (`NTV.Ord.QMat`, rows in terms
of 1, θ, …, θ^(n−1), always HNF-reduced). `f = min_poly` (canonical, degree ≥ 1), `p : Int`.
Panics are `Except String` errors `panic <kind>`; fuel exhaustion is `inconclusive fuel`.
Imports only `NTV.Model.*`. -/
namespace NTV.Round2
open NTV.PolyG NTV.Ord

abbrev Order := NTV.Ord.QMat
abbrev IMat := NTV.Ord.IMat
abbrev Table := NTV.Ord.Table

/-- BigInt `x % m` (truncated); `m = 0` panics -/
def remX (x m : Int) : M Int := if m = 0 then .error "panic div0" else .ok (Int.tmod x m)

/-- `Σ_j c[j] · rows[j]` accumulated on a zero vector of length `n` (the `+=` loops of `one_step`) -/
def linComb (n : Nat) (c : List Int) (rows : IMat) : List Int :=
  (List.zip c rows).foldl (fun acc cr => List.zipWith (fun r x => r + cr.1 * x) acc cr.2)
    (List.replicate n 0)

/-- `mul_mod_p(a, b, table, p)`: `result[k] = Σ_i Σ_j (a[i]·b[j])·table[i][j][k]`, then every entry
`%= p` (truncated remainder: entries keep their sign). At every call site `a`, `b` and all three
levels of `table` have length `deg`, so no index is out of range. `p ≠ 0` at every call site. -/
def mulModP (a b : List Int) (table : Table) (p : Int) : List Int :=
  let n := a.length
  let res := (List.zip a table).foldl (fun res ati =>
    (List.zip b ati.2).foldl (fun res btij =>
      let coef := ati.1 * btij.1
      List.zipWith (fun r t => r + coef * t) res btij.2) res) (List.replicate n 0)
  res.map (fun r => Int.tmod r p)

/-- the `while e > 0` loop of `pow_mod_p` -/
def powLoop (table : Table) (p : Int) : Nat → Int → List Int → List Int → M (List Int)
  | 0, e, prod, _ => if e > 0 then .error "inconclusive fuel" else .ok prod
  | fuel + 1, e, prod, cur =>
    if e > 0 then
      let prod := if Int.tmod e 2 = 1 then mulModP prod cur table p else prod
      powLoop table p fuel (Int.tdiv e 2) prod (mulModP cur cur table p)
    else .ok prod

/-- `pow_mod_p(a, e, table, p)` = `a^e` for `e ≥ 1` (starts from `prod = a`, exponent `e − 1`) -/
def powModP (a : List Int) (e : Int) (table : Table) (p : Int) : M (List Int) :=
  powLoop table p ((e - 1).toNat.log2 + 2) (e - 1) a a

/-- `let mut pow = 1; while pow < deg { pow *= p }` -/
def powBound (deg : Nat) (p : Int) : Nat → Int → M Int
  | 0, pow => if pow < (deg : Int) then .error "inconclusive fuel" else .ok pow
  | fuel + 1, pow => if pow < (deg : Int) then powBound deg p fuel (pow * p) else .ok pow

/-- the table loop of `one_step`: `(table, table2)` with `table2 = coordinates % p²`,
`table = table2 % p` (both truncated), entry by entry in the order of the code
(`expect`, then per `k`: `assert!(is_integer)`, `% p2`, `% p`) -/
def tables (f : List Int) (o : Order) (deg : Nat) (p p2 : Int) : M (Table × Table) := do
  let t2 ← tabulate deg (fun i => do
    let oi := fromRaw (← idx o i)
    tabulate deg (fun j => do
      let oj := fromRaw (← idx o j)
      let prod ← (NTV.Alg.mul f oi oj).mapError (fun e => "panic " ++ e)
      let b := (List.range deg).map (fun k => coefAt prod k)
      let inv ← solveExpect o b
      tabulate deg (fun k => do
        let e ← idx inv k
        if !isInteger e then .error "panic assert"
        else
          let r2 ← remX (toInteger e) p2
          let _ ← remX r2 p
          pure r2)))
  pure (t2.map (fun ti => ti.map (fun tij => tij.map (fun x => Int.tmod x p))), t2)

def hnfM (a : IMat) : M IMat :=
  match NTV.Hnf.hnfNew a with
  | some h => .ok h
  | none => .error "inconclusive fuel"
def kernelM (a : IMat) : M IMat :=
  match NTV.Hnf.kernel a with
  | some h => .ok h
  | none => .error "inconclusive fuel"

/-- `p · I` as `deg` rows -/
def scalarRows (deg : Nat) (p : Int) : IMat :=
  (List.range deg).map (fun i => (List.range deg).map (fun j => if i = j then p else 0))

/-- one iteration `i` of the `U_p` loop: the kernel of `[η_i·u_j mod p² ; p·I_p]`, truncated to the
`u_p.len()` leading coordinates, rewritten in terms of O's basis and HNF-reduced -/
def upStep (deg : Nat) (p p2 : Int) (table2 : Table) (ip : IMat) (up : IMat) (etai : List Int) :
    M IMat := do
  let top := up.map (fun uj => mulModP etai uj table2 p2)
  let bot ← tabulate ip.length (fun i => tabulate deg (fun j => do
    let e ← idx (← idx ip i) j
    pure (e * p)))
  let newUp ← hnfM (← kernelM (top ++ bot))
  let newUp := newUp.map (fun row => row.take up.length)
  hnfM (newUp.map (fun row => linComb deg row up))

/-- `while index > 1 { assert_eq!(index % p, 0); index /= p; howmany += 1 }` -/
def howmanyLoop (p : Int) : Nat → Int → Nat → M Nat
  | 0, index, h => if index > 1 then .error "inconclusive fuel" else .ok h
  | fuel + 1, index, h =>
    if index > 1 then do
      let r ← remX index p
      if r ≠ 0 then .error "panic assert"
      else howmanyLoop p fuel (Int.tdiv index p) (h + 1)
    else .ok h

/-- `round2::one_step(theta, o, p)` ⇒ `(new order, howmany)` with `(new : old) = p^howmany` -/
def oneStep (f : List Int) (o : Order) (p : Int) : M (Order × Nat) := do
  let deg := degU f
  -- pow: a power of p that is ≥ deg
  let pow ← powBound deg p deg 1
  let p2 := p * p
  let (table, table2) ← tables f o deg p p2
  -- phi(w_i) = w_i^pow mod p
  let phiw ← tabulate deg (fun i =>
    powModP ((List.range deg).map (fun j => if i = j then 1 else 0)) pow table p)
  -- I_p + pO in terms of O's basis: the kernel of [phi ; p·I], first deg coordinates
  let ip ← hnfM (← kernelM (phiw ++ scalarRows deg p))
  let ip := ip.map (fun row => row.take deg)
  -- U_p
  let up ← ip.foldlM (fun up etai => upStep deg p p2 table2 ip up etai) ip
  if !(up.length ≤ deg) then .error "panic assert"
  else
    let u ← hnfM (up ++ scalarRows deg p)
    if u.length ≠ deg then .error "panic assert"
    else
      -- new O in terms of the θ^i: Σ_j (u[i][j] / p) · o[j]
      let newBasis ← tabulate deg (fun i => do
        let ui ← idx u i
        pure ((List.zip ui o).foldl (fun acc uo =>
          List.zipWith (fun r x => r + ((uo.1 : Rat) / (p : Rat)) * x) acc uo.2) (List.replicate deg (0 : Rat))))
      let newO ← fromBasis newBasis
      let index ← NTV.Ord.index newO o
      let howmany ← howmanyLoop p (index.toNat.log2 + 2) index 0
      pure (newO, howmany)

/-- `while e >= 2 { … e -= 2 * howmany; o = new_o; if howmany == 0 { break } }` (`e : u64`: the
subtraction is checked in the dev profile) -/
def primeLoop (f : List Int) (p : Int) : Nat → Order → Nat → M Order
  | 0, o, e => if e ≥ 2 then .error "inconclusive fuel" else .ok o
  | fuel + 1, o, e =>
    if e ≥ 2 then do
      let (newO, howmany) ← oneStep f o p
      if 2 * howmany > e then .error "panic overflow"
      else if howmany = 0 then pure newO
      else primeLoop f p fuel newO (e - 2 * howmany)
    else .ok o

/-- `integral_basis::find_integral_basis(theta)` -/
def findIntegralBasis (f : List Int) : M Order := do
  let o ← nonMonicInitialOrder f
  let disc ← discriminantOrd o f
  if disc = 0 then .error "panic assert"    -- `factorize`: assert!(*n >= 1)
  else
    let fac := NTV.Trial.factorize disc.natAbs
    fac.foldlM (fun o pe => primeLoop f (pe.1 : Int) (pe.2 + 1) o pe.2) o

/-- what the CLI prints: `index(&o, &non_monic_initial_order(theta))` and `o.discriminant(theta)` -/
def indexAndDisc (f : List Int) (o : Order) : M (Int × Int) := do
  let start ← nonMonicInitialOrder f
  let index ← NTV.Ord.index o start
  let disc ← discriminantOrd o f
  pure (index, disc)

end NTV.Round2
