import NTV.Model.Polynomial
import NTV.Model.Resultant
import NTV.Model.PolyMod
import NTV.Model.PolyModHensel
import NTV.Model.PolyModFactor
import NTV.Model.Elementary
/-! Model of src/poly_z/mod.rs (`factorize`, `get_factors_of_squarefree`): factorization in Z[x] by
content / squarefree part, a Mignotte-type coefficient bound, the first prime p ∤ lc(a) modulo which a
stays squarefree, factorization modulo p (random: consumes the draw stream), Hensel lifting to p^e >
bound and recombination of the lifted factors by increasing subset size.
Everything called is modelled elsewhere and reused: `NTV.PolyG` (polynomial.rs), `NTV.Res`
(resultant.rs), `NTV.PolyMod` (poly_mod/*.rs), `NTV.Elem` (primes.rs).
Import-free apart from `NTV.Model.*`. A Rust panic is `throw "panic <kind>"`, exhausted fuel is
`throw "inconclusive fuel"`, an exhausted draw stream is `throw "inconclusive stream"`. -/
namespace NTV.PolyZ
open NTV.PolyG NTV.PolyMod

/-- `resultant_gcd(a, b)` in the error monad of this file (the kinds of `NTV.Res` are bare) -/
def resultantGcd (a b : Poly) : M Poly :=
  match NTV.Res.resultantSmartGcdE a b with
  | none => throw "inconclusive fuel"
  | some (.error k) => throw ("panic " ++ k)
  | some (.ok (g, _)) => pure g

/-- `div_exact(a, b).expect(…)` -/
def divExactExpect (a b : Poly) : M Poly :=
  match divExact a b with
  | some q => pure q
  | none => throw "panic unwrap"

/-- `now as i32` for a `usize` (wrapping conversion) -/
def asI32 (now : Nat) : Int :=
  let m : Nat := now % 2 ^ 32
  if m < 2 ^ 31 then (m : Int) else (m : Int) - 2 ^ 32

/-- the coefficient bound of `get_factors_of_squarefree` (Theorem 3.5.1 in [Cohen]) for `n = deg a ≥ 1`:
`sum = |a_n| + Σ_{i=0..n} |a_i|`, doubled `n - 1` times, then `* 2 * |a_n|` -/
def coeffBound (a : Poly) (n : Nat) : Int :=
  let an : Int := (coefAt a n).natAbs
  let sum : Int := (List.range (n + 1)).foldl (fun s i => s + ((coefAt a i).natAbs : Int)) an
  let bound := (List.range (n - 1)).foldl (fun b _ => b * 2) sum
  bound * 2 * an

/-- `for now in Primes::new() { … }`: the first prime `now` with `now ∤ lc(a)` and
`deg gcd(a mod now, (a mod now)') = 0`; returns `(p, pusize)`. `state` is the iterator's `now` field.
The Rust loop has no bound; fuel = number of primes tried. -/
def primeSearch (a : Poly) (n : Nat) : Nat → Nat → M (Int × Nat)
  | 0, _ => throw "inconclusive fuel"
  | fuel + 1, state =>
    match NTV.Elem.nextPrime (state + 2) state with
    | none => throw "inconclusive fuel"
    | some now =>
      let nowint : Int := asI32 now
      -- `is_multiple_of`: `x % 0` panics for BigInt; `nowint` is a prime here, never 0
      if nowint = 0 then throw "panic div0"
      else if Int.tmod (coefAt a n) nowint = 0 then primeSearch a n fuel (now + 1)
      else do
        let am := polyMod a nowint
        let ap := differentialMod am nowint
        let g ← polyGcd am ap nowint
        if degU g = 0 then pure (nowint, now) else primeSearch a n fuel (now + 1)

/-- `while pe <= bound { pe = pe * p; e += 1 }`: returns `(e, pe)` -/
def powerAbove (p bound : Int) : Nat → Nat → Int → M (Nat × Int)
  | 0, _, _ => throw "inconclusive fuel"
  | fuel + 1, e, pe => if pe ≤ bound then powerAbove p bound fuel (e + 1) (pe * p) else pure (e, pe)

/-- `bits.count_ones()` (bits < 2^64) -/
def countOnes : Nat → Nat → Nat
  | 0, _ => 0
  | fuel + 1, bits => if bits = 0 then 0 else bits % 2 + countOnes fuel (bits / 2)

/-- `for i in 0..lifted.len() { if bits & (1 << i) != 0 { prod = poly_mod(prod * lifted[i], pe) } }` -/
def subsetProd (pe : Int) : List Poly → Nat → Poly → Poly
  | [], _, prod => prod
  | f :: fs, bits, prod =>
    subsetProd pe fs (bits / 2) (if bits % 2 = 1 then polyMod (mul prod f) pe else prod)

/-- `for i in (0..lifted.len()).rev() { if bits & (1 << i) != 0 { lifted.remove(i) } }` -/
def removeBits : List Poly → Nat → List Poly
  | [], _ => []
  | f :: fs, bits => if bits % 2 = 1 then removeBits fs (bits / 2) else f :: removeBits fs (bits / 2)

/-- the body of `for bits in 0usize..1 << lifted.len()` from `bits` on (`left` values remain):
`some (ppprod, a / ppprod, lifted without the subset)` at the first subset of `d` lifted factors whose
symmetric product divides `lc(a)·a`, `none` when the range is exhausted -/
def subsetLoop (pe pe2 : Int) (a : Poly) (lca : Int) (lifted : List Poly) (d : Nat) :
    Nat → Nat → M (Option (Poly × Poly × List Poly))
  | 0, _ => pure none
  | left + 1, bits =>
    if countOnes 64 bits ≠ d then subsetLoop pe pe2 a lca lifted d left (bits + 1)
    else
      let prod := subsetProd pe lifted bits (fromRaw [lca])
      -- modify prod so that all coefficients are in [-p^e/2, p^e/2); `prod.deg() + 1` overflows for 0
      if prod.isEmpty then throw "panic overflow"
      else
        let bias := fromRaw (List.replicate (degU prod + 1) pe2)
        let prod := sub (polyMod (add prod bias) pe) bias
        let alca := polyMul a lca
        match divExact alca prod with
        | none => subsetLoop pe pe2 a lca lifted d left (bits + 1)
        | some _ => do
          let ppprod := (contPP prod).2
          let a ← divExactExpect a ppprod
          pure (some (ppprod, a, removeBits lifted bits))

/-- `'outer: while 2 * d <= lifted.len() { … }` followed by `result.push(a)`.
Every round either removes `d ≥ 1` lifted factors or increments `d`: fuel = 2·|lifted| + 2. -/
def combine (pe pe2 : Int) : Nat → Poly → List Poly → Nat → List Poly → M (List Poly)
  | 0, _, _, _, _ => throw "inconclusive fuel"
  | fuel + 1, a, lifted, d, result =>
    if 2 * d ≤ lifted.length then
      if lifted.length > 25 then throw "panic assert"
      else do
        let lca := coefAt a (degU a)
        match ← subsetLoop pe pe2 a lca lifted d (2 ^ lifted.length) 0 with
        | some (ppprod, a, lifted) => combine pe pe2 fuel a lifted d (result ++ [ppprod])
        | none => combine pe pe2 fuel a lifted (d + 1) result
    else pure (result ++ [a])

/-- `get_factors_of_squarefree(a)` with the draw stream of its `factorize_mod_p` call.
`a` must be squarefree and primitive of degree ≥ 1 (the zero polynomial makes `0..n + 1` overflow, a
constant makes `0..n - 1` underflow). -/
def getFactorsOfSquarefree (a : Poly) (s : NTV.Draw.Stream) : M (List Poly) := do
  let n := degU a
  if a.isEmpty || n = 0 then throw "panic overflow"
  let bound := coeffBound a n
  let (p, pusize) ← primeSearch a n 100000 2
  let (e, pe) ← powerAbove p bound (bound.natAbs.log2 + 3) 0 1
  let pe2 := Int.tdiv pe 2
  let factors ← factorizeModP a p pusize s
  if !factors.all (fun fe => fe.2 == 1) then throw "panic assert"
  let factors := factors.map (·.1)
  let lifted ← liftFactorization p e a factors
  combine pe pe2 (2 * lifted.length + 2) a lifted 1 []

/-- `while let Some(quo) = div_exact(&a, &factor) { a = quo; e += 1 }`; a constant factor would
never leave the loop (fuel: every division by a non-constant factor lowers the degree) -/
def multiplicity (factor : Poly) : Nat → Poly → Nat → M (Poly × Nat)
  | 0, _, _ => throw "inconclusive fuel"
  | fuel + 1, a, e =>
    match divExact a factor with
    | some quo => multiplicity factor fuel quo (e + 1)
    | none => pure (a, e)

/-- the `for factor in factors` loop of `factorize` -/
def multiplicities : List Poly → Poly → List (Poly × Nat) → M (List (Poly × Nat))
  | [], _, result => pure result
  | factor :: rest, a, result => do
    let (a, e) ← multiplicity factor (a.length + 2) a 0
    multiplicities rest a (result ++ [(factor, e)])

/-- `factorize(a)`: (content, list of (polynomial, multiplicity)) in the order of the algorithm -/
def factorize (a : Poly) (s : NTV.Draw.Stream) : M (Int × List (Poly × Nat)) :=
  if a.isEmpty then pure (0, [])
  else
    let (conta, ppa) := contPP a
    if degU a = 0 then pure (conta, [])
    else do
      let a := ppa
      let ap := differential a
      let gcd ← resultantGcd a ap
      let sqfree ← if degU gcd ≠ 0 then divExactExpect a gcd else pure a
      let factors ← getFactorsOfSquarefree sqfree s
      let result ← multiplicities factors a []
      pure (conta, result)

end NTV.PolyZ
