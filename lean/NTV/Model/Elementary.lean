/-! Model of src/perfect_power.rs and number-theory-elementary/src/primes.rs. Import-free. -/
namespace NTV.Elem

/-! ## perfect_power.rs -/

/-- binary search for the floor k-th root; invariant `lo^k ≤ n < hi^k`. -/
def rootSearch (n k : Nat) : Nat → Nat → Nat → Nat
  | 0, lo, _ => lo
  | f + 1, lo, hi =>
    if hi - lo ≤ 1 then lo
    else
      let mid := (lo + hi) / 2
      if mid ^ k ≤ n then rootSearch n k f mid hi else rootSearch n k f lo mid

/-- `BigInt::nth_root(k)` for n ≥ 0, k ≥ 1 (library code; identified with the floor root). -/
def nthRoot (n k : Nat) : Nat :=
  if n = 0 then 0 else
  let hiExp := n.log2 / k + 1
  rootSearch n k (hiExp + 1) 0 (2 ^ hiExp)

/-- `is_perfect_power(n, k)` -/
def isPerfectPower (n k : Nat) : Option Nat :=
  let x := nthRoot n k
  if x ^ k = n then some x else none

/-- `for k in (2..=numbits).rev()` -/
def ppSearch (n : Nat) : Nat → Nat × Nat
  | 0 => (n, 1)
  | 1 => (n, 1)
  | k + 2 =>
    match isPerfectPower n (k + 2) with
    | some b => (b, k + 2)
    | none => ppSearch n (k + 1)

/-- `n.bits()` -/
def bits (n : Nat) : Nat := if n = 0 then 0 else n.log2 + 1

/-- `perfect_power(n)`; `none` models the documented panic for n < 0. -/
def perfectPower (n : Int) : Option (Int × Nat) :=
  if n < 0 then none
  else if n ≤ 1 then some (n, 1)
  else
    let r := ppSearch n.toNat (bits n.toNat)
    some ((r.1 : Int), r.2)

/-! ## primes.rs -/

/-- inner loop `for j in 2..=bound / i { is_prime[i * j] = false }`, counting j upwards -/
def crossOut (i : Nat) : Nat → Nat → Array Bool → Array Bool
  | 0, _, a => a
  | cnt + 1, j, a => crossOut i cnt (j + 1) (a.setIfInBounds (i * j) false)

/-- outer loop `for i in 2..=bound` -/
def sieveLoop (bound : Nat) : Nat → Nat → Array Bool → Array Bool
  | 0, _, a => a
  | cnt + 1, i, a =>
    if a.getD i false then sieveLoop bound cnt (i + 1) (crossOut i (bound / i - 1) 2 a)
    else sieveLoop bound cnt (i + 1) a

def sieveArray (bound : Nat) : Array Bool :=
  let a := Array.replicate (bound + 1) true
  let a := a.setIfInBounds 0 false
  let a := if bound ≥ 1 then a.setIfInBounds 1 false else a
  sieveLoop bound (bound - 1) 2 a

/-- `primes(bound)` -/
def primes (bound : Nat) : List Nat :=
  let a := sieveArray bound
  (List.range (bound + 1)).filter (fun i => 2 ≤ i && a.getD i false)

/-- `is_prime(a)` of primes.rs: trial division `while d * d <= a` -/
def tdLoop (a : Nat) : Nat → Nat → Bool
  | 0, _ => true
  | fuel + 1, d => if d * d ≤ a then (if a % d = 0 then false else tdLoop a fuel (d + 1)) else true

def isPrimeTD (a : Nat) : Bool := if a ≤ 1 then false else tdLoop a a 2

/-- `Primes::next`: smallest prime ≥ now; fuel-bounded (Bertrand: `now + 1` steps always suffice for now ≥ 1). -/
def nextPrime : Nat → Nat → Option Nat
  | 0, _ => none
  | fuel + 1, now => if isPrimeTD now then some now else nextPrime fuel (now + 1)

/-- first `cnt` values of the iterator starting from state `now` -/
def primesIter : Nat → Nat → List Nat
  | 0, _ => []
  | cnt + 1, now =>
    match nextPrime (now + 2) now with
    | some p => p :: primesIter cnt (p + 1)
    | none => []

end NTV.Elem
