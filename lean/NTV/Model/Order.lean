import NTV.Model.Algebraic
import NTV.Model.LinAlg
import NTV.Model.Hnf
import NTV.Model.Resultant
/-! Model of src/order.rs and src/mult_table.rs. An `Order` is its stored basis (`List (List Rat)`,
rows = basis vectors in terms of 1, θ, …, θ^(n−1)); a `MultTable` is `List (List (List Int))`.
Panics are `Except String` errors rendered `panic <kind>`. Import-free apart from `NTV.Model.*`. -/
namespace NTV.Ord
open NTV.PolyG

abbrev QMat := List (List Rat)
abbrev IMat := List (List Int)
abbrev Table := List (List (List Int))
abbrev M := Except String

/-- `Ratio::to_integer` (truncation) -/
def toInteger (r : Rat) : Int := Int.tdiv r.num r.den

def isInteger (r : Rat) : Bool := r.den == 1

/-- lcm of all denominators, as folded by `num::integer::lcm` from 1 -/
def lcmDen (rows : QMat) (start : Int) : Int :=
  rows.foldl (fun l row => row.foldl (fun l e => (Int.lcm l e.den : Int)) l) start

/-- checked indexing `v[i]` -/
def idx {α : Type} (v : List α) (i : Nat) : M α :=
  match v[i]? with
  | some x => .ok x
  | none => .error "panic index"

/-- `(0..n).map(f)` with early exit on a panic -/
def tabulate {α : Type} (n : Nat) (f : Nat → M α) : M (List α) := (List.range n).mapM f

/-- `hnf_reduce`: clear denominators, HNF of the `deg × deg` integer matrix, scale back -/
def hnfReduce (basis : QMat) : M QMat := do
  let deg := basis.length
  let lcm := lcmDen basis 1
  let ib ← tabulate deg (fun i => tabulate deg (fun j => do
    let row ← idx basis i
    let e ← idx row j
    pure (toInteger (e * (lcm : Rat)))))
  match NTV.Hnf.hnfNew ib with
  | none => .error "inconclusive fuel"
  | some hnf =>
    tabulate deg (fun i => tabulate deg (fun j => do
      let row ← idx hnf i
      let e ← idx row j
      pure ((e : Rat) / (lcm : Rat))))

/-- `Order::from_basis` -/
def fromBasis (basis : QMat) : M QMat := hnfReduce basis

def padTo (n : Nat) (l : List Rat) : List Rat := l ++ List.replicate (n - l.length) 0

/-- rows 1, α, α², … (`cur = &cur * theta`, α = `theta.expr`), the loop of `singly_gen`: every
iteration stores `cur` and then multiplies, also after the last row (so a failing assertion of
`mul_with_mod` panics even when the product is not needed, e.g. for deg f = 1 and α = θ) -/
def powerRowsOf (f : List Int) (alpha : List Rat) : Nat → List Rat → M QMat
  | 0, _ => .ok []
  | k + 1, cur => do
    let next ← (NTV.Alg.mul f cur alpha).mapError (fun e => "panic " ++ e)
    let rest ← powerRowsOf f alpha k next
    pure (padTo (f.length - 1) cur :: rest)

/-- the loop of `singly_gen` for α = θ (`Algebraic::new(f)`, expression `x`) -/
def powerRows (f : List Int) : Nat → List Rat → M QMat := powerRowsOf f [0, 1]

/-- `Order::singly_gen(theta)` = Z[α] for an arbitrary element `theta.expr = alpha` of ℚ[x]/(f).
For the zero `min_poly` (`deg = usize::MAX`) the first `vec![…; deg]` is a `capacity overflow`. -/
def singlyGenOf (f : List Int) (alpha : List Rat) : M QMat := do
  if f.isEmpty then .error "panic overflow"
  else
    let deg := degU f
    let rows ← powerRowsOf f alpha deg [1]
    hnfReduce rows

/-- `Order::singly_gen(&Algebraic::new(f))` = Z[θ] -/
def singlyGen (f : List Int) : M QMat := singlyGenOf f [0, 1]

def identityQ (n : Nat) : QMat := (List.range n).map (fun i => (List.range n).map (fun j => if i = j then 1 else 0))

/-- `trivial_order_monic` (zero `min_poly`: `capacity overflow` of `vec![…; usize::MAX]`) -/
def trivialOrderMonic (f : List Int) : M QMat :=
  if f.isEmpty then .error "panic overflow" else hnfReduce (identityQ (degU f))

/-- `non_monic_initial_order`: Z[θ] ∩ Z[1/θ]. `basis[0][0] = 1` is an index panic for a constant
`min_poly` (`deg = 0`, empty `basis`); zero `min_poly`: `capacity overflow`. -/
def nonMonicInitialOrder (f : List Int) : M QMat :=
  let deg := degU f
  if f.isEmpty then .error "panic overflow"
  else if deg = 0 then .error "panic index"
  else
  let basis : QMat := (List.range deg).map (fun i => (List.range deg).map (fun j =>
    if i = 0 then (if j = 0 then 1 else 0)
    else if 1 ≤ j ∧ j ≤ i then ((coefAt f (deg - (i - j)) : Int) : Rat) else 0))
  hnfReduce basis

def ofExcept {α : Type} (e : Except String α) : M α := e

/-- `discriminant_with_min_poly`: determinant, then `discriminant(min_poly)` (asserts a non-zero
polynomial), then `lc.pow(2 * (deg - 1))` — a `usize` subtraction, so a constant `min_poly`
(`deg = 0`) is an `overflow` panic — and the integrality assertion -/
def discriminantOrd (basis : QMat) (f : List Int) : M Int := do
  let deg := degU f
  let det ← NTV.LinAlg.determinant basis
  let disc ← match NTV.Res.discriminant f with
    | .ok (d, _) => .ok d
    | .error e => .error ("panic " ++ e)
  let lcf := coefAt f deg
  if deg = 0 then .error "panic overflow"
  else
  let den : Rat := ((lcf ^ (2 * (deg - 1)) : Int) : Rat)
  if den = 0 then .error "panic other"
  else
    let value := (disc : Rat) * det * det / den
    if isInteger value then .ok (toInteger value) else .error "panic assert"

/-- `order::index(a, b)` = (a : b): `det b / det a` (no containment test), explicit `panic!` when the
quotient is not an integer. A zero `det a` (impossible for a stored order) panics inside the
`Ratio` division: `0 / 0` divides the numerator by the zero gcd (`div0`), `x / 0` reaches
`Ratio::new` with a zero denominator (`other`). -/
def index (a b : QMat) : M Int := do
  let db ← NTV.LinAlg.determinant b
  let da ← NTV.LinAlg.determinant a
  if da = 0 then (if db = 0 then .error "panic div0" else .error "panic other")
  else
    let quot := db / da
    if isInteger quot then .ok (toInteger quot) else .error "panic other"

/-- `order::union(a, b)` -/
def union (a b : QMat) : M QMat := do
  let ra ← idx a 0
  let rb ← idx b 0
  if ra.length ≠ rb.length then .error "panic assert"
  else
    let m := ra.length
    let lcm := lcmDen b (lcmDen a 1)
    let toInt (rows : QMat) : M IMat := tabulate rows.length (fun i => tabulate m (fun j => do
      let row ← idx rows i
      let e ← idx row j
      pure (toInteger (e * (lcm : Rat)))))
    let ia ← toInt a
    let ib ← toInt b
    match NTV.Hnf.hnfNew ia, NTV.Hnf.hnfNew ib with
    | some ha, some hb =>
      match NTV.Hnf.union ha hb with
      | .error e => .error ("panic " ++ e)
      | .ok none => .error "inconclusive fuel"
      | .ok (some hnf) =>
        let r0 ← idx hnf 0
        let n := r0.length
        let neword ← tabulate n (fun i => tabulate m (fun j => do
          let row ← idx hnf i
          let e ← idx row j
          pure ((e : Rat) / (lcm : Rat))))
        hnfReduce neword
    | _, _ => .error "inconclusive fuel"

/-- `solve_linear_system(&self.basis, &b).expect("O is not linearly independent")`. The `Err` branch
cannot be reached through the public API (a stored basis always went through `hnf_reduce`, which
index-panics on a singular matrix), so its rendering has never been compared with the code: the kind
follows the convention for `.expect()` (`unwrap`), although the message itself contains neither
`unwrap` nor `expect` and `common::classify` would print `other`. -/
def solveExpect (basis : QMat) (b : List Rat) : M (List Rat) :=
  match NTV.LinAlg.solve basis b with
  | .ok x => .ok x
  | .error e => if e == NTV.LinAlg.errNotInvertible then .error "panic unwrap" else .error e

/-- `to_z_basis` -/
def toZBasis (basis : QMat) (a : List Rat) : M (List Rat) :=
  solveExpect basis ((List.range basis.length).map (fun k => coefAt a k))

/-- `to_z_basis_int` -/
def toZBasisInt (basis : QMat) (a : List Rat) : M (List Int) := do
  let inv ← toZBasis basis a
  tabulate basis.length (fun i => do
    let e ← idx inv i
    if isInteger e then pure (toInteger e) else .error "panic assert")

/-- `Order::get_mult_table` -/
def getMultTable (basis : QMat) (f : List Int) : M Table := do
  let deg := basis.length
  tabulate deg (fun i => tabulate deg (fun j => do
    let oi := fromRaw (← idx basis i)
    let oj := fromRaw (← idx basis j)
    let prod ← (NTV.Alg.mul f oi oj).mapError (fun e => "panic " ++ e)
    let b := (List.range deg).map (fun k => coefAt prod k)
    let inv ← solveExpect basis b
    tabulate deg (fun k => do
      let e ← idx inv k
      if isInteger e then pure (toInteger e) else .error "panic assert")))

/-! ### mult_table.rs -/

def tent (t : Table) (i j k : Nat) : Int := ((t.getD i []).getD j []).getD k 0

/-- `MultTable::mul` (the debug assertions on lengths are dev-profile panics) -/
def tmul (t : Table) (a b : List Int) : M (List Int) :=
  if a.length ≠ b.length then .error "panic assert"
  else if a.length ≠ t.length then .error "panic assert"
  else
    let n := a.length
    .ok ((List.range n).map (fun k =>
      (List.range n).foldl (fun acc i => (List.range n).foldl (fun acc j =>
        acc + a.getD i 0 * b.getD j 0 * tent t i j k) acc) 0))

/-- `MultTable::trace` -/
def ttrace (t : Table) (a : List Int) : M Int := do
  let n := t.length
  if a.length < n then .error "panic index"
  else .ok ((List.range n).foldl (fun acc i => (List.range n).foldl (fun acc j =>
    acc + a.getD i 0 * tent t j i j) acc) 0)

/-- the matrix of multiplication by `a`: `sum[j][k] = Σ_i a[i]·table[i][j][k]` -/
def regular (t : Table) (a : List Int) : QMat :=
  let n := t.length
  (List.range n).map (fun j => (List.range n).map (fun k =>
    (((List.range n).foldl (fun acc i => acc + a.getD i 0 * tent t i j k) 0 : Int) : Rat)))

/-- `MultTable::norm` -/
def tnorm (t : Table) (a : List Int) : M Int := do
  if a.length < t.length then .error "panic index"
  else
    let d ← NTV.LinAlg.determinant (regular t a)
    pure (toInteger d)

/-- `MultTable::inv`: (i, d) with a⁻¹ = i / d, d = |norm a| -/
def tinv (t : Table) (a : List Int) : M (List Int × Int) := do
  let nrm ← tnorm t a
  let norm := (nrm.natAbs : Int)
  let invm ← match NTV.LinAlg.inv (regular t a) with
    | .ok m => .ok m
    | .error e => if e == NTV.LinAlg.errNotInvertible then .error "panic unwrap" else .error e
  let n := t.length
  let ans ← tabulate n (fun i => do
    let row0 ← idx invm 0
    let e ← idx row0 i
    pure (toInteger (e * (norm : Rat))))
  pure (ans, norm)

end NTV.Ord
