/-! Prototype: model of src/factorize.rs (naive trial division), on naturals n ≥ 1. -/
namespace NTV.Trial

/-- inner `while (&n % &p).is_zero() { e += 1; n /= &p; }` -/
def strip (p n e : Nat) : Nat × Nat :=
  if h : 2 ≤ p ∧ 0 < n ∧ n % p = 0 then strip p (n / p) (e + 1) else (n, e)
termination_by n
decreasing_by exact Nat.div_lt_self h.2.1 h.1

theorem strip_le (p n e : Nat) : (strip p n e).1 ≤ n := by
  fun_induction strip p n e with
  | case1 n e h ih => exact Nat.le_trans ih (Nat.div_le_self n p)
  | case2 n e h => exact Nat.le_refl n

/-- outer `while &p * &p <= n` loop; `acc` is in push order -/
def loop (p n : Nat) (acc : List (Nat × Nat)) : List (Nat × Nat) :=
  if h : 2 ≤ p ∧ p * p ≤ n then
    let r := strip p n 0
    loop (p + 1) r.1 (if r.2 > 0 then acc ++ [(p, r.2)] else acc)
  else if n > 1 then acc ++ [(n, 1)] else acc
termination_by n + 1 - p
decreasing_by
  have h1 := strip_le p n 0
  have h2 : p ≤ p * p := Nat.le_mul_self p
  omega

def factorize (n : Nat) : List (Nat × Nat) := loop 2 n []

end NTV.Trial
