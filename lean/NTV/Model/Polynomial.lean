import NTV.Model.PolyG
/-! Model of src/polynomial.rs on top of the generic list model `NTV.PolyG`
(`Polynomial<BigInt>` ↦ `List Int`, `Polynomial<BigRational>` ↦ `List Rat`, low degree first,
canonical = no trailing zero). Import-free. -/
namespace NTV.PolyG

/-- `deg()` with the `usize::MAX` sentinel for the zero polynomial -/
def degU {R : Type} (a : List R) : Nat := if a.isEmpty then 2 ^ 64 - 1 else a.length - 1

/-- `coef_at` -/
def coefAt {R : Type} [Zero R] (a : List R) (i : Nat) : R := a.getD i 0

/-- `Polynomial::of` (Horner over the stored coefficients, repaired loop bound) -/
def eval {R : Type} [Zero R] [Add R] [Mul R] (a : List R) (x : R) : R :=
  a.foldr (fun c acc => acc * x + c) 0

/-- `differential` (integer coefficients) -/
def derivAux : Nat → List Int → List Int
  | _, [] => []
  | i, c :: cs => (c * (i : Int)) :: derivAux (i + 1) cs

def differential (a : List Int) : List Int :=
  match a with
  | [] => []
  | _ :: cs => fromRaw (derivAux 1 cs)

/-- gcd of the coefficients, as `Integer::gcd` folds it (non-negative) -/
def contentAbs (a : List Int) : Int := a.foldl (fun g c => (Int.gcd g c : Int)) 0

/-- `cont_pp` -/
def contPP (a : List Int) : Int × List Int :=
  if a.isEmpty then (0, [1])
  else
    let g := contentAbs a
    let g := if lc a < 0 then -g else g
    (g, fromRaw (a.map (fun c => Int.fdiv c g)))

def isMonic (a : List Int) : Bool := !a.isEmpty && lc a == 1

/-- `pseudo_div_rem_bigint` -/
def pseudoDivRem (a b : List Int) : List Int × List Int :=
  if a.isEmpty || b.isEmpty || a.length < b.length then ([], a)
  else
    let lcb := lc b
    let diff := a.length - b.length
    let factor := lcb ^ (diff + 1)
    let (q, r) := divLoop b (fun top => Int.tdiv top lcb) (b.length - 1) (diff + 1) (a.map (· * factor)) []
    (fromRaw q, fromRaw r)

/-- `div_rem_bigint`: `none` models the `assert!(b.is_monic())` panic -/
def divRemMonic (a b : List Int) : Option (List Int × List Int) :=
  if isMonic b then some (pseudoDivRem a b) else none

/-- the loop of `div_exact` with its early exit -/
def divExactLoop (b : List Int) (lcb : Int) (bdeg : Nat) : Nat → List Int → List Int → Option (List Int × List Int)
  | 0, tmp, acc => some (acc, tmp)
  | i + 1, tmp, acc =>
    let top := tmp.getD (i + bdeg) 0
    if Int.fmod top lcb ≠ 0 then none
    else
      let coef := Int.fdiv top lcb
      divExactLoop b lcb bdeg i (subRaw tmp (List.replicate i 0 ++ smulRaw coef b)) (coef :: acc)

/-- `div_exact` -/
def divExact (a b : List Int) : Option (List Int) :=
  if b.isEmpty then none
  else if a.isEmpty then some []
  else if a.length < b.length then none
  else
    match divExactLoop b (lc b) (b.length - 1) (a.length - b.length + 1) a [] with
    | none => none
    | some (q, r) => if r.all (· == 0) then some (fromRaw q) else none

end NTV.PolyG
