namespace NTV.Prime

/-- BigInt::modpow on non-negative arguments: result in [0, n). -/
def powMod (b e n : Nat) : Nat := Id.run do
  let mut result := 1 % n
  let mut base := b % n
  let mut e := e
  -- square and multiply; `e` halves each step
  for _ in [0:e.log2 + 1] do
    if e % 2 == 1 then result := result * base % n
    base := base * base % n
    e := e / 2
  return result

/-- n - 1 = d * 2^c with d odd (the `while !d.bit(0)` loop) -/
def splitTwos : Nat → Nat → Nat → Nat × Nat
  | 0, d, c => (d, c)
  | fuel + 1, d, c => if d % 2 == 0 && d != 0 then splitTwos fuel (d / 2) (c + 1) else (d, c)

/-- the inner `for _ in 0..c` loop; returns (verdict?) : `none` = fell through, some true = aborted (passes), some false = witness -/
def mrLoop (n : Nat) : Nat → Nat → Option Bool × Nat
  | 0, tmp => (none, tmp)
  | c + 1, tmp =>
    if tmp == n - 1 then (some true, tmp)
    else
      let tmp := tmp * tmp % n
      if tmp == 1 then (some false, tmp) else mrLoop n c tmp

/-- one Miller–Rabin round with base r; true = "continue" (probably prime for this base) -/
def mrRound (n d c r : Nat) : Bool :=
  let tmp := r ^ d % n
  if tmp == 1 then true
  else match mrLoop n c tmp with
    | (some b, _) => b
    | (none, tmp) => tmp == 1   -- `!aborted && tmp != 1` ⇒ false

def isPrimeWith (n : Int) (bases : List Nat) : Bool :=
  if n ≤ 1 then false
  else if n == 2 then true
  else if n % 2 == 0 then false
  else
    let n := n.toNat
    let (d, c) := splitTwos n (n - 1) 0
    bases.all (fun r => mrRound n d c r)

end NTV.Prime
