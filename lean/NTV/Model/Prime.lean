import NTV.Model.Draw
/-! Model of src/prime.rs (Miller–Rabin with 20 random bases). Import-free. -/
namespace NTV.Prime

/-- square-and-multiply on the binary digits of e (fuel = bit length of e) -/
def powModLoop (n : Nat) : Nat → Nat → Nat → Nat → Nat
  | 0, _, _, acc => acc
  | f + 1, base, e, acc =>
    if e = 0 then acc
    else powModLoop n f (base * base % n) (e / 2) (if e % 2 = 1 then acc * base % n else acc)

/-- BigInt::modpow on non-negative arguments: result in [0, n). -/
def powMod (b e n : Nat) : Nat := powModLoop n (e.log2 + 1) (b % n) e (1 % n)

/-- n - 1 = d * 2^c with d odd (the `while !d.bit(0)` loop) -/
def splitTwos : Nat → Nat → Nat → Nat × Nat
  | 0, d, c => (d, c)
  | fuel + 1, d, c => if d % 2 == 0 && d != 0 then splitTwos fuel (d / 2) (c + 1) else (d, c)

/-- the inner `for _ in 0..c` loop; `none` = fell through, some true = aborted (passes), some false = witness -/
def mrLoop (n : Nat) : Nat → Nat → Option Bool × Nat
  | 0, tmp => (none, tmp)
  | c + 1, tmp =>
    if tmp == n - 1 then (some true, tmp)
    else
      let tmp := tmp * tmp % n
      if tmp == 1 then (some false, tmp) else mrLoop n c tmp

/-- one Miller–Rabin round with base r; true = "continue" (probably prime for this base).
`r ^ d % n` is the specification of `modpow`; the executable driver uses `mrRoundFast`. -/
def mrRound (n d c r : Nat) : Bool :=
  let tmp := r ^ d % n
  if tmp == 1 then true
  else match mrLoop n c tmp with
    | (some b, _) => b
    | (none, tmp) => tmp == 1   -- `!aborted && tmp != 1` ⇒ false

/-- the test with an explicit list of bases (all rounds) -/
def isPrimeWith (n : Int) (bases : List Nat) : Bool :=
  if n ≤ 1 then false
  else if n == 2 then true
  else if n % 2 == 0 then false
  else
    let n := n.toNat
    let (d, c) := splitTwos n (n - 1) 0
    bases.all (fun r => mrRound n d c r)

/-- same round with square-and-multiply exponentiation (what runs in the driver) -/
def mrRoundFast (n d c r : Nat) : Bool :=
  let tmp := powMod r d n
  if tmp == 1 then true
  else match mrLoop n c tmp with
    | (some b, _) => b
    | (none, tmp) => tmp == 1

/-- the `for _ in 0..k` loop drawing its bases from the stream; returns the verdict and the
unconsumed rest of the stream; `none` = stream exhausted -/
def roundsS (n d c : Nat) : Nat → NTV.Draw.Stream → Option (Bool × NTV.Draw.Stream)
  | 0, s => some (true, s)
  | k + 1, s =>
    match NTV.Draw.range 1 (n : Int) s with
    | none => none
    | some (r, s') => if mrRoundFast n d c r.toNat then roundsS n d c k s' else some (false, s')

/-- `is_prime(n)` with its draw stream, returning also the rest of the stream -/
def isPrimeS (n : Int) (s : NTV.Draw.Stream) : Option (Bool × NTV.Draw.Stream) :=
  if n ≤ 1 then some (false, s)
  else if n == 2 then some (true, s)
  else if n % 2 == 0 then some (false, s)
  else
    let n := n.toNat
    let (d, c) := splitTwos n (n - 1) 0
    roundsS n d c 20 s

/-- `is_prime(n)` with its draw stream -/
def isPrime (n : Int) (s : NTV.Draw.Stream) : Option Bool := (isPrimeS n s).map (·.1)

end NTV.Prime
