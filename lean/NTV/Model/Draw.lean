/-! Model of the random draws: `num-bigint 0.4.4`'s `gen_biguint_below` / `gen_bigint_range`
(also what `rand`'s `gen_range` uses for `BigInt`) decoding the raw byte chunks served by the RNG.
A *stream* is the list of chunks (each a list of bytes) in the order they were served. Import-free. -/
namespace NTV.Draw

abbrev Stream := List (List Nat)

/-- little-endian u32 digits of a byte chunk -/
def toU32s : List Nat → List Nat
  | b0 :: b1 :: b2 :: b3 :: rest => (b0 + 256 * b1 + 65536 * b2 + 16777216 * b3) :: toU32s rest
  | _ => []

def fromDigits : List Nat → Nat
  | [] => 0
  | d :: ds => d + 4294967296 * fromDigits ds

/-- shift the last digit right by `32 - rem` -/
def fixLast (rem : Nat) : List Nat → List Nat
  | [] => []
  | [d] => [d / 2 ^ (32 - rem)]
  | d :: ds => d :: fixLast rem ds

def bitLen (n : Nat) : Nat := if n = 0 then 0 else n.log2 + 1

/-- `gen_biguint(bits)` from one chunk; `none` if the chunk has the wrong length (desynchronised) -/
def decode (bits : Nat) (chunk : List Nat) : Option Nat :=
  let rem := bits % 32
  let len := bits / 32 + (if rem > 0 then 1 else 0)
  if chunk.length ≠ 4 * len then none
  else
    let ds := toU32s chunk
    some (fromDigits (if rem > 0 then fixLast rem ds else ds))

/-- `gen_biguint_below(bound)`: rejection sampling; `none` = stream exhausted or desynchronised -/
def below (bound : Nat) : Stream → Option (Nat × Stream)
  | [] => none
  | c :: rest =>
    match decode (bitLen bound) c with
    | none => none
    | some v => if v < bound then some (v, rest) else below bound rest

/-- `gen_bigint_range(lo, hi)` with lo < hi -/
def range (lo hi : Int) (s : Stream) : Option (Int × Stream) :=
  match below (hi - lo).toNat s with
  | none => none
  | some (v, rest) => some (lo + (v : Int), rest)

theorem below_lt (bound : Nat) (s : Stream) (v : Nat) (rest : Stream) (h : below bound s = some (v, rest)) :
    v < bound := by
  induction s with
  | nil => simp [below] at h
  | cons c cs ih =>
    simp only [below] at h
    split at h
    · simp at h
    · split at h
      · simp only [Option.some.injEq, Prod.mk.injEq] at h; omega
      · exact ih h

end NTV.Draw
