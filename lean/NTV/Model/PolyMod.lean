import NTV.Model.Polynomial
/-! Model of src/poly_mod/prim.rs (arithmetic of `Polynomial<BigInt>` modulo an integer p) on top of the
list model `NTV.PolyG`. Import-free apart from `NTV.Model.*`.

Conventions. `Polynomial<BigInt>` ↦ `List Int`, low degree first, canonical (no trailing zero); the zero
polynomial is `[]` and `deg()` of it is the `usize::MAX` sentinel (`degU`). BigInt `%` is `Int.tmod`,
`/` is `Int.tdiv`, `mod_floor` is `Int.fmod`, `div_floor` is `Int.fdiv`.

Where the code normalises into [0, p) and where it does not:
* `modpow`, `modinv`, `poly_of_mod` use the truncated `%`: results carry the sign of the operands
  (negative for negative inputs) and `modpow(x, e, m)` with `e ≤ 0` is `1` even when `m = 1`;
* `poly_mod`, `poly_divrem` (both outputs), `poly_modpow` (through `poly_divrem`), `poly_mod_sub`,
  `poly_coprime_witness`, `divide_by_x_a` use `mod_floor`: coefficients in [0, p) for p > 0;
* the shortcut exits of `poly_divrem` (a = 0, b = 0, deg a < deg b) and hence of `poly_gcd` /
  `poly_ext_gcd` return their arguments *unreduced*.

Assumption of the whole file: the modulus is non-zero (`x % 0` / `mod_floor(0)` panic in Rust with a
division by zero; Lean's `Int.tmod x 0 = x`). The driver refuses p = 0.

A Rust panic or an exhausted fuel is an `Except String` error: `panic <kind>` / `inconclusive fuel`. -/
namespace NTV.PolyMod
open NTV.PolyG

abbrev Poly := List Int
abbrev M := Except String

/-- `modpow(x, e, modulus)`: binary powering with truncated `%`; `current` starts as the unreduced `x`.
`e.div_floor(2)` is `e / 2` (floor) for the positive `e` of the loop. -/
def modpowLoop (m : Int) (e product current : Int) : Int :=
  if h : e > 0 then
    let product := if e % 2 = 1 then Int.tmod (product * current) m else product
    let current := Int.tmod (current * current) m
    modpowLoop m (e / 2) product current
  else product
termination_by e.toNat
decreasing_by omega

def modpow (x e m : Int) : Int := modpowLoop m e 1 x

/-- `modinv(x, p) = modpow(x, p - 2, p)` (an inverse only for prime p ∤ x) -/
def modinv (x p : Int) : Int := modpow x (p - 2) p

/-- `poly_mod` -/
def polyMod (f : Poly) (p : Int) : Poly := fromRaw (f.map (fun c => Int.fmod c p))

/-- `poly_div` (coefficientwise `div_floor`) -/
def polyDiv (f : Poly) (d : Int) : Poly := fromRaw (f.map (fun c => Int.fdiv c d))

/-- `poly_mul` (by a scalar) -/
def polyMul (f : Poly) (m : Int) : Poly := fromRaw (f.map (fun c => c * m))

/-- `differential(f, p)` -/
def differentialMod (f : Poly) (p : Int) : Poly :=
  if f.isEmpty then [] else polyMod (differential f) p

/-- `poly_of_mod`: Horner from the top coefficient with truncated `%=` after every step -/
def polyOfMod (f : Poly) (a p : Int) : Int := f.foldr (fun c sum => Int.tmod (sum * a + c) p) 0

/-- one row of `poly_divrem`: `tmp[i+j] = (tmp[i+j] - coef * b[j]).mod_floor(p)` for j = 0..deg b,
applied to the suffix `tmp[i..]` -/
def rowUpdate (coef p : Int) : List Int → List Int → List Int
  | t :: ts, c :: cs => Int.fmod (t - coef * c) p :: rowUpdate coef p ts cs
  | ts, [] => ts
  | [], _ => []

/-- the `for i in (0..a_deg - b_deg + 1).rev()` loop of `poly_divrem` -/
def divremLoop (b : Poly) (invlc p : Int) (bdeg : Nat) : Nat → List Int → List Int → List Int × List Int
  | 0, tmp, quo => (quo, tmp)
  | i + 1, tmp, quo =>
    let coef := Int.fmod (tmp.getD (i + bdeg) 0 * invlc) p
    divremLoop b invlc p bdeg i (tmp.take i ++ rowUpdate coef p (tmp.drop i) b) (coef :: quo)

/-- `poly_divrem(a, b, p)` -/
def polyDivrem (a b : Poly) (p : Int) : Poly × Poly :=
  if a.isEmpty || b.isEmpty || a.length < b.length then ([], a)
  else
    let bdeg := b.length - 1
    let invlc := modinv (lc b) p
    let (q, r) := divremLoop b invlc p bdeg (a.length - b.length + 1) a []
    (fromRaw q, fromRaw r)

/-- `poly_modpow(x, e, g, modulus)`; note that `current` is squared once more after the last bit -/
def polyModpowLoop (g : Poly) (m : Int) (e : Int) (product current : Poly) : Poly :=
  if h : e > 0 then
    let product := if e % 2 = 1 then (polyDivrem (polyMod (mul product current) m) g m).2 else product
    let current := (polyDivrem (polyMod (mul current current) m) g m).2
    polyModpowLoop g m (e / 2) product current
  else product
termination_by e.toNat
decreasing_by omega

def polyModpow (x : Poly) (e : Int) (g : Poly) (m : Int) : Poly := polyModpowLoop g m e [1] x

/-- `poly_gcd` (Euclid, result not normalised). The Rust recursion need not terminate when a leading
coefficient is ≡ 0 mod p or p is composite; fuel = |a| + |b| + 3 suffices otherwise. -/
def polyGcdAux (p : Int) : Nat → Poly → Poly → M Poly
  | 0, _, _ => .error "inconclusive fuel"
  | f + 1, a, b =>
    let rem := (polyDivrem a b p).2
    if rem.isEmpty then .ok b else polyGcdAux p f b rem

def polyGcd (a b : Poly) (p : Int) : M Poly := polyGcdAux p (a.length + b.length + 3) a b

/-- `poly_mod_sub` -/
def polyModSub (a b : Poly) (p : Int) : Poly := polyMod (sub a b) p

/-- `poly_ext_gcd`: (g, u, v) with g = a u + b v mod p -/
def polyExtGcdAux (p : Int) : Nat → Poly → Poly → M (Poly × Poly × Poly)
  | 0, _, _ => .error "inconclusive fuel"
  | f + 1, a, b =>
    let (quo, rem) := polyDivrem a b p
    if rem.isEmpty then .ok (b, rem, [1])
    else do
      let (g, u0, v0) ← polyExtGcdAux p f b rem
      let v := polyModSub u0 (polyMod (mul quo v0) p) p
      pure (g, v0, v)

def polyExtGcd (a b : Poly) (p : Int) : M (Poly × Poly × Poly) :=
  polyExtGcdAux p (a.length + b.length + 3) a b

/-- the loop of num-integer's default `Integer::extended_gcd` (what `BigInt` uses): state
`r = (r0, r1)`, `s = (s0, s1)`; returns the final `(r.1, s.1)`.
`r1 - (r1 / r0) * r0` is written `Int.tmod r1 r0`. -/
def egcdLoop (r0 r1 s0 s1 : Int) : Int × Int :=
  if _h : r0 = 0 then (r1, s1)
  else egcdLoop (Int.tmod r1 r0) r0 (s1 - Int.tdiv r1 r0 * s0) s0
termination_by r0.natAbs
decreasing_by
  simp only [Int.natAbs_tmod]
  exact Nat.mod_lt _ (by omega)

/-- `self.extended_gcd(other).x` -/
def egcdX (self other : Int) : Int :=
  let (g, x) := egcdLoop other self 0 1
  if g ≥ 0 then x else 0 - x

/-- `poly_coprime_witness` -/
def polyCoprimeWitness (a b : Poly) (p : Int) : M (Poly × Poly) := do
  let (g, u, v) ← polyExtGcd a b p
  if degU g ≠ 0 then throw "panic other"
  let inv := Int.fmod (egcdX (coefAt g 0) p) p
  pure (polyMod (polyMul u inv) p, polyMod (polyMul v inv) p)

/-- the `for i in (0..deg).rev()` loop of `divide_by_x_a` over the coefficients deg, …, 1
(given high degree first); returns the carry and the quotient (low degree first) -/
def divXALoop (a p : Int) : List Int → Int → List Int → Int × List Int
  | [], carry, acc => (carry, acc)
  | c :: cs, carry, acc =>
    let k := Int.fmod (carry + c) p
    divXALoop a p cs (k * a) (k :: acc)

/-- `divide_by_x_a(poly, a, p)`: synthetic division by (x - a). The zero polynomial makes
`vec![0; usize::MAX]` panic with "capacity overflow"; a non-zero remainder trips the `debug_assert!`. -/
def divideByXA (poly : Poly) (a p : Int) : M Poly :=
  match poly with
  | [] => .error "panic overflow"
  | c0 :: rest =>
    let (carry, coefs) := divXALoop a p rest.reverse 0 []
    if Int.fmod (carry + c0) p ≠ 0 then .error "panic assert" else .ok (fromRaw coefs)

end NTV.PolyMod
