import NTV.Model.Polynomial
/-! Model of src/algebraic.rs: elements of ℚ[x]/(f) as `expr : List Rat` (canonical, degree < deg f),
`f = min_poly : List Int` (degree n ≥ 1). Import-free. -/
namespace NTV.Alg
open NTV.PolyG

def intsToRats (f : List Int) : List Rat := f.map (fun (x : Int) => (x : Rat))

/-- one pass of the inner loop of `mul_with_mod`: `cur ← cur·x mod c` (cur has n entries) -/
def shiftMod (c : List Rat) (n : Nat) (lcc : Rat) (cur : List Rat) : List Rat :=
  let shifted := (0 : Rat) :: cur            -- cur * x, n + 1 entries
  let coef := shifted.getD n 0 / lcc
  (List.range n).map (fun j => shifted.getD j 0 - coef * c.getD j 0)

/-- the outer loop: accumulates Σ a[i] · (b·xⁱ mod c) -/
def mulLoop (c : List Rat) (n : Nat) (lcc : Rat) : List Rat → List Rat → List Rat → List Rat
  | [], _, result => result
  | [ai], cur, result => List.zipWith (fun r x => r + ai * x) result cur
  | ai :: rest, cur, result =>
    mulLoop c n lcc rest (shiftMod c n lcc cur) (List.zipWith (fun r x => r + ai * x) result cur)

/-- `mul_with_mod(a, b, c)`; the errors model the two `assert!`s (`assert`) and, for the zero
modulus (`c.deg() = usize::MAX`, both asserts pass), the `capacity overflow` panic of
`vec![…; n]` (`overflow`) -/
def mulWithMod (a b : List Rat) (c : List Rat) : Except String (List Rat) :=
  if a.isEmpty || b.isEmpty then .ok []
  else if c.isEmpty then .error "overflow"
  else
    let n := c.length - 1
    if ¬ (a.length - 1 < n) then .error "assert"
    else if ¬ (b.length - 1 < n) then .error "assert"
    else
      let cur := b ++ List.replicate (n - b.length) 0
      .ok (fromRaw (mulLoop c n (lc c) a cur (List.replicate n 0)))

/-- `Algebraic::with_expr`: `debug_assert!(expr.deg() < minimal_poly.deg())` with the `usize::MAX`
sentinel for the degree of zero — so in the dev profile the zero expression is rejected for every
non-zero `minimal_poly`, and everything passes for the zero `minimal_poly` except zero itself -/
def withExpr (f : List Int) (a : List Rat) : Except String (List Rat) :=
  if degU a < degU f then .ok a else .error "assert"

/-- `Algebraic * Algebraic` (min_poly of the left operand is used) -/
def mul (f : List Int) (a b : List Rat) : Except String (List Rat) := mulWithMod a b (intsToRats f)
def add (a b : List Rat) : List Rat := NTV.PolyG.add a b
def sub (a b : List Rat) : List Rat := NTV.PolyG.sub a b

/-- `Pow<u64>` / `Pow<BigInt>`: square-and-multiply exactly as written (one extra squaring at the end) -/
def powLoop (f : List Int) : Nat → Nat → List Rat → List Rat → Except String (List Rat)
  | 0, _, _, prod => .ok prod
  | fuel + 1, e, cur, prod =>
    if e = 0 then .ok prod
    else
      match (if e % 2 = 1 then mul f prod cur else .ok prod) with
      | .error s => .error s
      | .ok prod' =>
        match mul f cur cur with
        | .error s => .error s
        | .ok cur' => powLoop f fuel (e / 2) cur' prod'

def pow (f : List Int) (a : List Rat) (e : Nat) : Except String (List Rat) :=
  powLoop f (e.log2 + 2) e a [1]

/-- `as_coefs`: pad the expression to deg f entries (total version: see `asCoefsE` for the panic) -/
def asCoefs (f : List Int) (a : List Rat) : List Rat := a ++ List.replicate (f.length - 1 - a.length) 0

/-- `as_coefs` with its panics: `deg - expr.len()` is a `usize` subtraction, so an expression with
more than `deg f` coefficients is an `overflow` panic (dev profile); for the zero `min_poly`
(`deg = usize::MAX`) the padding vector cannot be allocated (`capacity overflow`, also `overflow`) -/
def asCoefsE (f : List Int) (a : List Rat) : Except String (List Rat) :=
  if f.isEmpty then .error "overflow"
  else if f.length - 1 < a.length then .error "overflow"
  else .ok (asCoefs f a)

end NTV.Alg
