import NTV.Model.RowOps
/-! Executable model of the exact linear algebra of `number-theory-linear`:
`determinant.rs` (`determinant`), `matrix.rs` (`inv`), `solve_linear_system.rs`
(`solve_linear_system`), `subspace.rs` (`image_mod_p`, `iim`, `supplement_basis`) and
`triangular.rs` (`mul_inv_from_right_exact`), instantiated at `BigInt` / `Ratio<BigInt>`.

Matrices are lists of rows. A result is `Except String _`: `.error` carries either the name of the
Rust error value (`MatrixNotInvertible`, `LinearlyDependent`, `NotInImage`, `InsufficientRank`),
`panic <kind>` for a Rust panic, or `inconclusive ragged` when the rows of an argument do not all
have the length of its first row (the model does not follow the code on such inputs).
Core only. -/
namespace NTV.LinAlg
open NTV.RowOps (swapRows scaleRow subMulRow)

abbrev QRow := List Rat
abbrev QMat := List QRow
abbrev IMat := List (List Int)

/-- `a[i][j]` (0 outside the matrix); the generic `NTV.RowOps.ent` at `Rat` -/
abbrev ent (a : QMat) (i j : Nat) : Rat := NTV.RowOps.ent a i j

def errNotInvertible := "MatrixNotInvertible"
def errLinearlyDependent := "LinearlyDependent"
def errNotInImage := "NotInImage"
def errInsufficientRank := "InsufficientRank"
def panicIndex := "panic index"
def panicAssert := "panic assert"
def panicDiv0 := "panic div0"
def ragged := "inconclusive ragged"

/-- number of columns = length of the first row (`a[0].len()`; 0 for no rows) -/
def width {α : Type} (a : List (List α)) : Nat := (a.headD []).length
def isRect {α : Type} (a : List (List α)) : Bool := a.all (fun r => r.length == width a)

def idMat (n : Nat) : QMat :=
  (List.range n).map (fun i => (List.range n).map (fun j => if i = j then 1 else 0))

/-- `v.swap(i, j)` on one row -/
def swapList {α : Type} (r : List α) (i j : Nat) : List α :=
  match r[i]?, r[j]? with
  | some x, some y => (r.set i y).set j x
  | _, _ => r
/-- `for row in a.iter_mut() { row.swap(i, j) }` -/
def swapCols (a : QMat) (i j : Nat) : QMat := a.map (fun r => swapList r i j)

/-- first `j` in `lo..hi` with `pred j` (the `for j in lo..hi { if … { idx = Some(j); break } }` scans) -/
def findFrom (lo hi : Nat) (pred : Nat → Bool) : Option Nat :=
  (List.range' lo (hi - lo)).find? pred

/-! ### Square routines: what the index arithmetic does on an `n × m` argument

`determinant`, `inv`, `solve_linear_system` take `n = a.len()` and only ever touch the entries
`a[i][k]` with `i, k < n`. For `m ≥ n` the extra columns are never read, so the model drops them.
For `m < n` the first access beyond a row panics; the only way out before that is "column 0 has no
pivot" (possible when `m ≥ 1`). -/
inductive Shape where
  | square (a : QMat)       -- the leading n × n block (m ≥ n)
  | narrowZeroCol           -- 1 ≤ m < n and column 0 is entirely zero
  | narrowPanic             -- m < n otherwise: index panic
  | raggedRows

def shapeOf (a : QMat) : Shape :=
  let n := a.length
  let m := width a
  if !isRect a then .raggedRows
  else if n ≤ m then .square (a.map (fun r => r.take n))
  else if 1 ≤ m && a.all (fun r => r.getD 0 0 == 0) then .narrowZeroCol
  else .narrowPanic

/-! ### determinant.rs -/

/-- the rows `j > i` lose `a[j][i] / a[i][i]` times row `i` (entries `k ≥ i`; for `k < i` row `i`
is already zero there, so subtracting over the whole row is the same update) -/
def detEliminate (a : QMat) (i n : Nat) : QMat :=
  (List.range' (i + 1) (n - (i + 1))).foldl
    (fun a j => subMulRow a j i (ent a j i / ent a i i)) a

/-- the `for i in 0..n` loop of `determinant`, `steps` iterations left, state `(a, result)` -/
def detLoop (n : Nat) : Nat → Nat → QMat → Rat → Rat
  | 0, _, _, result => result
  | steps + 1, i, a, result =>
    match findFrom i n (fun j => ent a j i != 0) with
    | none => 0
    | some idx =>
      let a := swapRows a i idx
      let result := if i != idx then -result else result
      let a := detEliminate a i n
      detLoop n steps (i + 1) a (result * ent a i i)

/-- `determinant(a)` -/
def determinant (a : QMat) : Except String Rat :=
  match shapeOf a with
  | .square a => .ok (detLoop a.length a.length 0 a 1)
  | .narrowZeroCol => .ok 0
  | .narrowPanic => .error panicIndex
  | .raggedRows => .error ragged

/-! ### matrix.rs -/

/-- `for j in 0..n { if i == j { continue } … }`: every other row loses `a[j][i]` times row `i`,
in `a` and in `b` -/
def invEliminate (n i : Nat) (a b : QMat) : QMat × QMat :=
  (List.range n).foldl (fun (st : QMat × QMat) j =>
    if i = j then st
    else
      let factor := ent st.1 j i
      (subMulRow st.1 j i factor, subMulRow st.2 j i factor)) (a, b)

/-- one iteration `i` of the main loop of `inv`; `none` = no pivot in column `i` -/
def invStep (n i : Nat) (a b : QMat) : Option (QMat × QMat) :=
  match findFrom i n (fun j => ent a j i != 0) with
  | none => none
  | some idx =>
    let a := swapRows a i idx
    let b := swapRows b i idx
    let factor := (ent a i i)⁻¹
    let a := scaleRow a i factor
    let b := scaleRow b i factor
    some (invEliminate n i a b)

def invLoop (n : Nat) : Nat → Nat → QMat → QMat → Option QMat
  | 0, _, _, b => some b
  | steps + 1, i, a, b =>
    match invStep n i a b with
    | none => none
    | some (a, b) => invLoop n steps (i + 1) a b

/-- `inv` on an honest `n × n` matrix -/
def invSquare (a : QMat) : Option QMat := invLoop a.length a.length 0 a (idMat a.length)

/-- `matrix::inv(a)` -/
def inv (a : QMat) : Except String QMat :=
  match shapeOf a with
  | .square a => match invSquare a with
    | some b => .ok b
    | none => .error errNotInvertible
  | .narrowZeroCol => .error errNotInvertible
  | .narrowPanic => .error panicIndex
  | .raggedRows => .error ragged

/-! ### solve_linear_system.rs
The code performs column operations on `a` and the same operations on the entries of `b`; the model
keeps `b` as an extra last row of the matrix, so one column operation updates both. -/

/-- `row[col] /= arc` for every row (and `b[col] /= arc`) -/
def divCol (a : QMat) (col : Nat) (arc : Rat) : QMat := a.map (fun r => r.modify col (· / arc))
/-- `row[i] -= coef * row[col]` for every row (and for `b`) -/
def subMulCol (a : QMat) (i col : Nat) (coef : Rat) : QMat :=
  a.map (fun r => r.modify i (fun x => x - coef * r.getD col 0))

/-- one iteration `row` (`col == row` throughout) on the augmented matrix; `none` = no pivot -/
def solveStep (n row : Nat) (ab : QMat) : Option QMat :=
  let col := row
  match findFrom col n (fun i => ent ab row i != 0) with
  | none => none
  | some nxt =>
    let ab := swapCols ab col nxt
    let arc := ent ab row col
    let ab := divCol ab col arc
    some ((List.range n).foldl (fun ab i =>
      if i = col then ab else subMulCol ab i col (ent ab row i)) ab)

def solveLoop (n : Nat) : Nat → Nat → QMat → Option QMat
  | 0, _, ab => some ab
  | steps + 1, row, ab =>
    match solveStep n row ab with
    | none => none
    | some ab => solveLoop n steps (row + 1) ab

/-- `solve_linear_system(a, b)`: `assert_eq!(b.len(), n)` comes first; with fewer than `n` columns
the scan / elimination of the first row always indexes past the end -/
def solve (a : QMat) (b : QRow) : Except String QRow :=
  let n := a.length
  if b.length ≠ n then .error panicAssert
  else match shapeOf a with
    | .square a => match solveLoop n n 0 (a ++ [b]) with
      | some ab => .ok (ab.getD n [])
      | none => .error errNotInvertible
    | .narrowZeroCol => .error panicIndex
    | .narrowPanic => .error panicIndex
    | .raggedRows => .error ragged

/-! ### subspace.rs: `iim` (Cohen 2.3.5, transposed) -/

/-- columns `k > j` of one row lose `c[k]` times the row's entry in column `j` -/
def iimElimRow (c : QRow) (j : Nat) (row : QRow) : QRow :=
  let pj := row.getD j 0
  row.mapIdx (fun k x => if j < k then x - c.getD k 0 * pj else x)

/-- the multipliers `c[k] = d * mmat[j][k]` for `k > j` (0 elsewhere), `d = 1 / mmat[j][j]` -/
def iimCoefs (j : Nat) (mmat : QMat) : QRow :=
  let d := (ent mmat j j)⁻¹
  (mmat.getD j []).mapIdx (fun k x => if j < k then d * x else 0)

/-- the elimination on `mmat`: rows above `j` are not touched, row `j` is cleared to the right of the
pivot, the rows below lose `c[k]` times column `j` in every column `k > j` -/
def iimElimM (j : Nat) (c : QRow) (mmat : QMat) : QMat :=
  mmat.mapIdx (fun l row =>
    if l < j then row
    else if l = j then row.mapIdx (fun k x => if j < k then 0 else x)
    else iimElimRow c j row)

/-- one iteration `j` of the elimination loop; `none` = `LinearlyDependent` -/
def iimStep (m j : Nat) (mmat bmat : QMat) : Option (QMat × QMat) :=
  match findFrom j m (fun i => ent mmat j i != 0) with
  | none => none
  | some i =>
    let mmat := if j < i then swapCols mmat i j else mmat
    let bmat := if j < i then swapCols bmat i j else bmat
    let c := iimCoefs j mmat
    some (iimElimM j c mmat, bmat.map (iimElimRow c j))

def iimLoop (m : Nat) : Nat → Nat → QMat → QMat → Option (QMat × QMat)
  | 0, _, mmat, bmat => some (mmat, bmat)
  | steps + 1, j, mmat, bmat =>
    match iimStep m j mmat bmat with
    | none => none
    | some (mmat, bmat) => iimLoop m steps (j + 1) mmat bmat

/-- step 6 for one row `brow` of `bmat`: `x[i] = (b[i] - Σ_{j>i} m[j][i] x[j]) / m[i][i]`, `i` downwards -/
def iimBackRow (n : Nat) (mmat : QMat) (brow : QRow) : QRow :=
  (List.range n).reverse.foldl (fun (x : QRow) i =>
    let tmp := (List.range' (i + 1) (n - (i + 1))).foldl
      (fun tmp j => tmp - ent mmat j i * x.getD j 0) (brow.getD i 0)
    x.set i (tmp / ent mmat i i)) (List.replicate n 0)

/-- step 7: the columns `n..m` of `xmat * mmat` must reproduce those of `bmat` -/
def iimCheck (n m : Nat) (mmat bmat xmat : QMat) : Bool :=
  (List.range' n (m - n)).all (fun k =>
    (List.range xmat.length).all (fun i =>
      let xmsum := (List.range n).foldl (fun s j => s + ent xmat i j * ent mmat j k) 0
      xmsum == ent bmat i k))

/-- `iim(mmat, vmat)`: `mmat[0]` / `vmat[0]` panic on an empty argument, then the width assertion -/
def iim (mmat vmat : QMat) : Except String QMat :=
  match mmat, vmat with
  | [], _ => .error panicIndex
  | _ :: _, [] => .error panicIndex
  | m0 :: _, v0 :: _ =>
    let n := mmat.length
    let m := m0.length
    if v0.length ≠ m then .error panicAssert
    else if !(isRect mmat && isRect vmat) then .error ragged
    else match iimLoop m n 0 mmat vmat with
      | none => .error errLinearlyDependent
      | some (mmat, bmat) =>
        let xmat := bmat.map (iimBackRow n mmat)
        if iimCheck n m mmat bmat xmat then .ok xmat else .error errNotInImage

/-! ### subspace.rs: `supplement_basis` (Cohen 2.3.6) -/

/-- the update of one row `j > s`: swap entries `s`,`t`, then subtract `coef_js` times row `s`
outside positions `s`, `t` -/
def suppRow (s t : Nat) (d : Rat) (rows : QRow) (rowj : QRow) : QRow :=
  let rowj := swapList rowj s t
  let coef := rowj.getD s 0 * d
  rowj.mapIdx (fun i x => if i != s && i != t then x - rows.getD i 0 * coef else x)

/-- `bmat[t] = bmat[s].clone(); bmat[s] = mmat_orig[s].clone()` (in this order) -/
def suppNewB (s t : Nat) (orig bmat : QMat) : QMat :=
  (bmat.set t (bmat.getD s [])).set s (orig.getD s [])

/-- `for j in s + 1..k`: row `j` of `mmat` is rewritten by `suppRow` (row `s` itself is only read) -/
def suppNewM (s t : Nat) (d : Rat) (mmat : QMat) : QMat :=
  mmat.mapIdx (fun j row => if s < j then suppRow s t d (mmat.getD s []) row else row)

/-- one iteration `s`; `none` = `InsufficientRank` -/
def suppStep (n s : Nat) (orig mmat bmat : QMat) : Option (QMat × QMat) :=
  match findFrom s n (fun i => ent mmat s i != 0) with
  | none => none
  | some t => some (suppNewM s t (ent mmat s t)⁻¹ mmat, suppNewB s t orig bmat)

def suppLoop (n : Nat) (orig : QMat) : Nat → Nat → QMat → QMat → Option QMat
  | 0, _, _, bmat => some bmat
  | steps + 1, s, mmat, bmat =>
    match suppStep n s orig mmat bmat with
    | none => none
    | some (mmat, bmat) => suppLoop n orig steps (s + 1) mmat bmat

/-- `supplement_basis(mmat)` -/
def supplementBasis (mmat : QMat) : Except String QMat :=
  match mmat with
  | [] => .error panicIndex
  | m0 :: _ =>
    let k := mmat.length
    let n := m0.length
    if !isRect mmat then .error ragged
    else match suppLoop n mmat k 0 mmat (idMat n) with
      | none => .error errInsufficientRank
      | some b => .ok b

/-! ### subspace.rs: `image_mod_p` (Cohen 2.3.2); BigInt `%` is the truncated remainder -/

/-- `modpow(x, e, modulus)`; the loop runs `bitlength(e)` times, `fuel` bounds it -/
def modpowLoop (modulus : Int) : Nat → Int → Int → Int → Int
  | 0, _, product, _ => product
  | fuel + 1, e, product, current =>
    if e > 0 then
      let product := if e % 2 != 0 then Int.tmod (product * current) modulus else product
      modpowLoop modulus fuel (Int.fdiv e 2) product (Int.tmod (current * current) modulus)
    else product
def modpow (x e modulus : Int) : Int := modpowLoop modulus (e.toNat + 1) e 1 x
/-- `modinv(x, p) = modpow(x, p - 2, p)` -/
def modinv (x p : Int) : Int := modpow x (p - 2) p

structure ImgSt where
  mat : IMat
  c : List Nat
  r : Nat

/-- iteration `k` of `image_mod_p`. A `%` with `p = 0` (executed as soon as a pivot row has a row
below it) is a division by zero. -/
def imageStep (n m : Nat) (p : Int) (st : ImgSt) (k : Nat) : Except String ImgSt :=
  let rowk := st.mat.getD k []
  match findFrom 0 m (fun j => rowk.getD j 0 != 0 && st.c.getD j 0 == 0) with
  | none => .ok { st with r := st.r + 1 }
  | some j =>
    if p = 0 ∧ k + 1 < n then .error panicDiv0
    else
      let dd := p - modinv (rowk.getD j 0) p
      let mat := st.mat.mapIdx (fun s row =>
        if s < k then row
        else if s = k then row.mapIdx (fun i _ => if i = j then p - 1 else 0)
        else
          let sj := Int.tmod (row.getD j 0 * dd) p
          row.mapIdx (fun i x => if i = j then sj else Int.tmod (sj * rowk.getD i 0 + x) p))
      .ok { mat := mat, c := st.c.set j (k + 1), r := st.r }

/-- `image_mod_p(matcp, p)` -/
def imageModP (matcp : IMat) (p : Int) : Except String IMat :=
  match matcp with
  | [] => .error panicIndex
  | r0 :: _ =>
    let n := matcp.length
    let m := r0.length
    if !isRect matcp then .error ragged
    else
      match (List.range n).foldlM (imageStep n m p) { mat := matcp, c := List.replicate m 0, r := 0 } with
      | .error e => .error e
      | .ok st =>
        if (st.c.filter (· != 0)).length ≠ n - st.r then .error panicAssert
        else .ok ((st.c.filter (· != 0)).map (fun ci => matcp.getD (ci - 1) []))

/-! ### triangular.rs -/

/-- `brat[i][j] = b[i][j].into()` for `i, j < n` -/
def toRatPrefix (n : Nat) (b : IMat) : QMat :=
  (b.take n).map (fun r => (r.take n).map (fun (x : Int) => (x : Rat)))

/-- `sum = Σ_k invb[k][j] * a[i][k]` for every row `a[i]` and every `j < n` -/
def quotSums (n : Nat) (invb : QMat) (a : IMat) : QMat :=
  a.map (fun ai => (List.range n).map (fun j =>
    (List.range n).foldl (fun s k => s + ent invb k j * (ai.getD k 0 : Rat)) 0))

/-- `sum.is_integer()` everywhere -/
def allIntegral (q : QMat) : Bool := q.all (fun r => r.all (fun s => s.den == 1))
/-- `sum.to_integer()` (the numerator, for an integral value) -/
def toInts (q : QMat) : IMat := q.map (fun r => r.map (·.num))

/-- `mul_inv_from_right_exact(a, b)`: `n = a.len()`; `b[i][j]` for `i, j < n` (index panic when `b`
is smaller), `inv`, then row by row `Σ_k invb[k][j] * a[i][k]` with `assert!(sum.is_integer())` -/
def mulInvFromRightExact (a b : IMat) : Except String IMat :=
  let n := a.length
  if !(isRect a && isRect b) then .error ragged
  else if n = 0 then .ok []
  else if b.length < n || width b < n then .error panicIndex
  else
    match invSquare (toRatPrefix n b) with
    | none => .error errNotInvertible
    | some invb =>
      if width a < n then .error panicIndex
      else
        let sums := quotSums n invb a
        if allIntegral sums then .ok (toInts sums) else .error panicAssert

end NTV.LinAlg
