import NTV.Model.PolyMod
import NTV.Model.Draw
/-! Model of src/poly_mod/factorize_mod_p.rs (`factorize_mod_p` = squarefree decomposition, distinct
degree factorization, equal degree splitting with random polynomials for odd p and the trace-like map
for p = 2, normalisation to monic; the result is *not* sorted: its order is that of the algorithm).
`usize` arithmetic is modelled with its dev-profile overflow / division-by-zero panics.
Import-free apart from `NTV.Model.*`. -/
namespace NTV.PolyMod
open NTV.PolyG

abbrev Factors := List (Poly × Nat)

/-- `a * b` on `usize` (dev profile: overflow panics) -/
def mulUsize (a b : Nat) : M Nat := if a * b < 2 ^ 64 then pure (a * b) else throw "panic overflow"

/-- how the inner `loop` of `squarefree` is left: `break 'outer` or `continue 'outer` with the t to take
a p-th root of -/
inductive SqExit where
  | done
  | root (t : Poly)

/-- the inner `loop` of `squarefree` (fuel: t loses deg v ≥ 1 in every round) -/
def sqInner (p : Int) (e : Nat) : Nat → Poly → Poly → Nat → Factors → M (SqExit × Factors)
  | 0, _, _, _, _ => throw "inconclusive fuel"
  | fuel + 1, t, v, k, result =>
    if degU v = 0 then
      if degU t = 0 then pure (.done, result) else pure (.root t, result)
    else do
      let k := k + 1
      let w ← polyGcd t v p
      let aek := (polyDivrem v w p).1
      let v := w
      let t := (polyDivrem t v p).1
      let result ← if degU aek ≠ 0 then (do let ek ← mulUsize e k; pure (result ++ [(aek, ek)])) else pure result
      sqInner p e fuel t v k result

/-- the `'outer: while t0.deg() != 0` loop of `squarefree` -/
def sqOuter (p : Int) (pusize : Nat) : Nat → Poly → Nat → Factors → M Factors
  | 0, _, _, _ => throw "inconclusive fuel"
  | fuel + 1, t0, e, result =>
    if degU t0 = 0 then pure result
    else do
      let der := differentialMod t0 p
      let t ← polyGcd t0 der p
      let v := (polyDivrem t0 t p).1
      let (exit, result) ← sqInner p e (t.length + v.length + 2) t v 0 result
      match exit with
      | .done => pure result
      | .root t =>
        -- t is a p-th power: t0 ← Σ t[pusize·i] xⁱ, e ← e·pusize
        if pusize = 0 then throw "panic div0"
        let n := degU t / pusize
        let t0 := fromRaw ((List.range (n + 1)).map (fun i => coefAt t (pusize * i)))
        let e ← mulUsize e pusize
        sqOuter p pusize fuel t0 e result

/-- `squarefree(poly, p, pusize)`: pairs (A, m) with the A squarefree and pairwise coprime, up to scalars.
With `pusize ≥ 2` the degree of t0 drops at every p-th root, so |poly| + 2 rounds suffice; `pusize = 1`
would not terminate in Rust (`inconclusive fuel` here). -/
def squarefree (poly : Poly) (p : Int) (pusize : Nat) : M Factors :=
  if poly.isEmpty then throw "panic other"
  else sqOuter p pusize (poly.length + 2) (polyMod poly p) 1 []

/-- the `while 2 * d + 2 <= v.deg()` loop of `degree` -/
def degreeLoop (p : Int) : Nat → Poly → Poly → Nat → Factors → M Factors
  | 0, _, _, _, _ => throw "inconclusive fuel"
  | fuel + 1, v, w, d, result =>
    if 2 * d + 2 ≤ degU v then do
      let d := d + 1
      let w := polyModpow w p v p
      let ad ← polyGcd (polyModSub w [0, 1] p) v p
      if degU ad > 0 then
        let v := (polyDivrem v ad p).1
        let w := (polyDivrem w v p).2
        degreeLoop p fuel v w d (result ++ [(ad, d)])
      else degreeLoop p fuel v w d result
    else pure (if degU v > 0 then result ++ [(v, degU v)] else result)

/-- `degree(poly, p)`: distinct degree factorization of a squarefree polynomial -/
def degree (poly : Poly) (p : Int) : M Factors := degreeLoop p (poly.length + 2) poly [0, 1] 0 []

/-- `for i in 0..2 * d { poly_raw[i] = rng.gen_range(0..p) }` -/
def drawCoeffs (p : Int) : Nat → NTV.Draw.Stream → List Int → Option (List Int × NTV.Draw.Stream)
  | 0, s, acc => some (acc.reverse, s)
  | n + 1, s, acc =>
    match NTV.Draw.range 0 p s with
    | none => none
    | some (c, s) => drawCoeffs p n s (c :: acc)

/-- `final_split_odd`: Cantor–Zassenhaus. A `continue` of the `loop` is a call on the same polynomial
(`k` is recomputed, nothing else happens before the draw). Every round consumes chunks, so
fuel = number of chunks + |poly| + 2 outlasts the stream. -/
def finalSplitOdd (p : Int) (d : Nat) : Nat → Poly → List Poly → NTV.Draw.Stream → M (List Poly × NTV.Draw.Stream)
  | 0, _, _, _ => throw "inconclusive fuel"
  | fuel + 1, poly, result, s =>
    if d = 0 then throw "panic div0"
    else
      let k := degU poly / d
      if k = 0 then throw "panic other"   -- unreachable!()
      else if k = 1 then pure (result ++ [poly], s)
      else
        match drawCoeffs p (2 * d) s [] with
        | none => throw "inconclusive stream"
        | some (raw, s) => do
          let t := fromRaw raw
          let e := Int.tdiv (p ^ d - 1) 2
          let tpow := polyModSub (polyModpow t e poly p) [1] p
          let b ← polyGcd tpow poly p
          if b.isEmpty || degU b = 0 || degU b = degU poly then finalSplitOdd p d fuel poly result s
          else do
            let (result, s) ← finalSplitOdd p d fuel b result s
            let div := (polyDivrem poly b p).1
            finalSplitOdd p d fuel div result s

/-- `c = &(&c * &c) + &t; c = poly_mod(&c, 2); c = poly_divrem(&c, poly, 2).1`, n times -/
def traceIter (poly t : Poly) : Nat → Poly → Poly
  | 0, c => c
  | n + 1, c => traceIter poly t n (polyDivrem (polyMod (add (mul c c) t) 2) poly 2).2

/-- `final_split_2`: a `continue` is a call on the same polynomial with `t·x²`; the recursive calls
start again from `t = x` -/
def finalSplit2 (d : Nat) : Nat → Poly → Poly → List Poly → M (List Poly)
  | 0, _, _, _ => throw "inconclusive fuel"
  | fuel + 1, poly, t, result =>
    if d = 0 then throw "panic div0"
    else
      let k := degU poly / d
      if k = 0 then throw "panic other"
      else if k = 1 then pure (result ++ [poly])
      else do
        let c := traceIter poly t (d - 1) t
        let b ← polyGcd poly c 2
        if degU b = 0 || degU b = degU poly then finalSplit2 d fuel poly (mul t [0, 0, 1]) result
        else do
          let result ← finalSplit2 d fuel b [0, 1] result
          let div := (polyDivrem poly b 2).1
          finalSplit2 d fuel div [0, 1] result

/-- `final_split(poly, p, d)` -/
def finalSplit (poly : Poly) (p : Int) (d : Nat) (s : NTV.Draw.Stream) : M (List Poly × NTV.Draw.Stream) :=
  if p % 2 = 1 then finalSplitOdd p d (s.length + poly.length + 2) poly [] s
  else do
    let r ← finalSplit2 d (poly.length * poly.length + 8) poly [0, 1] []
    pure (r, s)

/-- the `for factor in spl` loop of `factorize_mod_p`: degree assertion and normalisation to monic -/
def normaliseAll (p : Int) (d e : Nat) : List Poly → Factors → M Factors
  | [], result => pure result
  | factor :: rest, result =>
    if degU factor ≠ d then throw "panic assert"
    else
      let leading := coefAt factor d
      let factor := polyMod (mul factor (fromRaw [modinv leading p])) p
      normaliseAll p d e rest (result ++ [(factor, e)])

/-- the `for (prod, d) in degrees` loop -/
def splitAll (p : Int) (e : Nat) : Factors → Factors → NTV.Draw.Stream → M (Factors × NTV.Draw.Stream)
  | [], result, s => pure (result, s)
  | (prod, d) :: rest, result, s =>
    if degU prod = 0 then splitAll p e rest result s
    else do
      let (spl, s) ← finalSplit prod p d s
      let result ← normaliseAll p d e spl result
      splitAll p e rest result s

/-- the `for (sqfree, e) in sqfree` loop -/
def factorAll (p : Int) : Factors → Factors → NTV.Draw.Stream → M (Factors × NTV.Draw.Stream)
  | [], result, s => pure (result, s)
  | (sq, e) :: rest, result, s => do
    let degrees ← degree sq p
    let (result, s) ← splitAll p e degrees result s
    factorAll p rest result s

/-- `factorize_mod_p(poly, p, pusize)` with its draw stream -/
def factorizeModP (poly : Poly) (p : Int) (pusize : Nat) (s : NTV.Draw.Stream) : M Factors := do
  let poly := polyMod poly p
  let sq ← squarefree poly p pusize
  let (result, _) ← factorAll p sq [] s
  pure result

end NTV.PolyMod
