import NTV.Model.PolyMod
import NTV.Model.Draw
/-! Model of src/poly_mod/linear.rs (`find_linear_factors`): the random shifts are read from the draw
stream (`rng.gen_range(0..p)` = `NTV.Draw.range 0 p`). Import-free apart from `NTV.Model.*`. -/
namespace NTV.PolyMod
open NTV.PolyG

/-- `find_linear_factors_impl`. `result` is the vector being pushed to, the stream is the RNG.
Every call that gets past the two base cases consumes a chunk, so fuel = number of chunks + 2 is never
exhausted before the stream is (`inconclusive stream`). -/
def findLinearImpl (p : Int) : Nat → Poly → List Int → NTV.Draw.Stream → M (List Int × NTV.Draw.Stream)
  | 0, _, _, _ => .error "inconclusive fuel"
  | fuel + 1, poly, result, s =>
    if degU poly = 0 then .ok (result, s)
    else if degU poly = 1 then
      .ok (result ++ [Int.fmod (-(coefAt poly 0) * modinv (coefAt poly 1) p) p], s)
    else
      match NTV.Draw.range 0 p s with
      | none => .error "inconclusive stream"
      | some (a, s) =>
        -- debug_assert!(modpow(&a, &p, &p) == a)
        if modpow a p p ≠ a then .error "panic assert"
        else do
          let polyOrig := poly
          -- the drawn shift is itself a root: deflate once
          let (poly, result) ←
            if polyOfMod poly a p = 0 then do
              let q ← divideByXA poly a p
              pure (q, result ++ [a])
            else pure (poly, result)
          let xa := fromRaw [Int.fmod (-a) p, 1]
          let p1 := Int.tdiv (p - 1) 2
          let xapow := polyModpow xa p1 poly p
          -- gcd with (x - a)^((p-1)/2) + 1
          let xapowp1 := add xapow [1]
          let xapowp1 := if coefAt xapowp1 0 ≥ p then sub xapowp1 (fromRaw [p]) else xapowp1
          let gcd ← polyGcd xapowp1 poly p
          let (poly, result, s) ←
            if degU gcd > 0 then do
              let quo := (polyDivrem poly gcd p).1
              let (result, s) ← findLinearImpl p fuel gcd result s
              pure (quo, result, s)
            else pure (poly, result, s)
          -- gcd with (x - a)^((p-1)/2) - 1
          let xapowm1 := add xapow (fromRaw [p - 1])
          let xapowm1 := if coefAt xapowm1 0 ≥ p then sub xapowm1 (fromRaw [p]) else xapowm1
          let gcd ← polyGcd xapowm1 poly p
          let (poly, result, s) ←
            if degU gcd > 0 then do
              let quo := (polyDivrem poly gcd p).1
              let (result, s) ← findLinearImpl p fuel gcd result s
              pure (quo, result, s)
            else pure (poly, result, s)
          -- an unchanged polynomial has no linear factor and is discarded
          if polyOrig ≠ poly then findLinearImpl p fuel poly result s else pure (result, s)

/-- the `while poly_of_mod(..).is_zero()` loop of `find_linear_factors_impl_mod2` for one value -/
def mod2Loop (val : Int) : Nat → Poly → List Int → M (Poly × List Int)
  | 0, _, _ => .error "inconclusive fuel"
  | fuel + 1, poly, result =>
    if polyOfMod poly val 2 = 0 then do
      let q ← divideByXA poly val 2
      mod2Loop val fuel q (result ++ [val])
    else .ok (poly, result)

/-- `find_linear_factors_impl_mod2` -/
def findLinearMod2 (poly : Poly) : M (List Int) := do
  let (poly, result) ← mod2Loop 0 (poly.length + 2) poly []
  let (_, result) ← mod2Loop 1 (poly.length + 2) poly result
  pure result

/-- `find_linear_factors(poly, p)` with its draw stream -/
def findLinearFactors (poly : Poly) (p : Int) (s : NTV.Draw.Stream) : M (List Int) :=
  let poly := polyMod poly p
  if p = 2 then findLinearMod2 poly
  else do
    let (result, _) ← findLinearImpl p (s.length + 2) poly [] s
    pure result

end NTV.PolyMod
