/-! Generic polynomial model (coefficient lists, low degree first). R = Int or Rat. Import-free. -/
namespace NTV.PolyG
variable {R : Type} [Zero R] [Add R] [Sub R] [Mul R] [Neg R] [DecidableEq R]

/-- `Polynomial::from_raw` -/
def fromRaw (l : List R) : List R := (l.reverse.dropWhile (fun x => decide (x = 0))).reverse

def addRaw : List R → List R → List R
  | [], b => b
  | a, [] => a
  | x :: xs, y :: ys => (x + y) :: addRaw xs ys

def subRaw : List R → List R → List R
  | a, [] => a
  | [], y :: ys => (-y) :: subRaw [] ys
  | x :: xs, y :: ys => (x - y) :: subRaw xs ys

def smulRaw (c : R) (a : List R) : List R := a.map (c * ·)
def mulRaw : List R → List R → List R
  | [], _ => []
  | x :: xs, b => addRaw (smulRaw x b) (0 :: mulRaw xs b)

def add (a b : List R) : List R := if a.isEmpty then b else if b.isEmpty then a else fromRaw (addRaw a b)
def neg (a : List R) : List R := a.map (fun x => -x)
def sub (a b : List R) : List R := if a.isEmpty then neg b else if b.isEmpty then a else fromRaw (subRaw a b)
def mul (a b : List R) : List R := if a.isEmpty || b.isEmpty then [] else fromRaw (mulRaw a b)
def lc (a : List R) : R := a.getLastD 0

/-- shared long-division loop: processes quotient indices i-1, …, 0 with `coefOf top` the new
quotient coefficient (`top / lc b` in the three Rust variants) -/
def divLoop (b : List R) (coefOf : R → R) (bdeg : Nat) : Nat → List R → List R → List R × List R
  | 0, tmp, acc => (acc, tmp)
  | i + 1, tmp, acc =>
    let coef := coefOf (tmp.getD (i + bdeg) 0)
    divLoop b coefOf bdeg i (subRaw tmp (List.replicate i 0 ++ smulRaw coef b)) (coef :: acc)
end NTV.PolyG

namespace NTV.PolyG
/-- `div_rem_bigrational` -/
def divRemRat (a b : List Rat) : List Rat × List Rat :=
  if a.isEmpty || b.isEmpty || a.length < b.length then ([], a)
  else
    let (q, r) := divLoop b (fun top => top / lc b) (b.length - 1) (a.length - b.length + 1) a []
    (fromRaw q, fromRaw r)

def ratPow (x : Rat) : Nat → Rat
  | 0 => 1
  | n + 1 => ratPow x n * x

/-- `resultant_rational` (Euclid over ℚ). Fuel = length of b (each call shortens b). -/
def resRatAux : Nat → List Rat → List Rat → Rat
  | 0, _, _ => 0
  | fuel + 1, a, b =>
    if a.isEmpty || b.isEmpty then 0
    else if b.length = 1 then ratPow (b.getD 0 0) (a.length - 1)
    else
      let r := (divRemRat a b).2
      if r.isEmpty then 0
      else
        let sub := resRatAux fuel b r * ratPow (lc b) ((a.length - 1) - (r.length - 1))
        if (a.length - 1) % 2 = 1 ∧ (b.length - 1) % 2 = 1 then -sub else sub

def resultantRational (a b : List Rat) : Rat := resRatAux (b.length + 1) a b

end NTV.PolyG
