import NTV.Model.Inv
import NTV.Model.Draw
import NTV.Model.Prime
import NTV.Model.Elementary
/-! Model of src/ecm.rs (sequential ECM + work-stack driver), src/ecm_parallel.rs (batched ECM with
Montgomery batch inversion + the same driver) and the two renderings of src/bin/rfactor.rs.
No Mathlib. `%` on BigInt is `Int.tmod`, `/` is `Int.tdiv`, `zmod`/`inv` are `NTV.zmod`/`NTV.inv`.
Every `u64` expression of the Rust is written with `addU64`/`mulU64` (dev profile: panic on overflow,
release: wrap), `saturating_sub` is `Nat` subtraction.  Floating point is not modelled: `select_b(n)`
for n > 1000 is supplied by the harness (the argument `b` for the input itself and, for the batched
driver which calls `select_b(&now)` per work item, the table `btab` for the other items), and `(b1 as f64).sqrt() as usize` is the
integer square root (exact for b1 < 2^52, which covers every b1 that select_b produces for inputs
below ~2^1000; the harness never exceeds that). -/
namespace NTV.Ecm
open NTV.Draw (Stream)

/-! ## machine integers and build profiles -/

/-- cargo profile semantics: `dev` = overflow checks + debug assertions, `release` = wrap, no debug assertions -/
inductive Profile where
  | dev
  | release
  deriving BEq, DecidableEq, Repr

def two64 : Nat := 18446744073709551616

/-- `a + b` on u64 -/
def addU64 (prof : Profile) (a b : Nat) : Except String Nat :=
  if a + b < two64 then .ok (a + b)
  else match prof with
    | .dev => .error "overflow"
    | .release => .ok ((a + b) % two64)

/-- `a * b` on u64 -/
def mulU64 (prof : Profile) (a b : Nat) : Except String Nat :=
  if a * b < two64 then .ok (a * b)
  else match prof with
    | .dev => .error "overflow"
    | .release => .ok ((a * b) % two64)

/-- `a - b` on u64 -/
def subU64 (prof : Profile) (a b : Nat) : Except String Nat :=
  if b ≤ a then .ok (a - b)
  else match prof with
    | .dev => .error "overflow"
    | .release => .ok (two64 + a - b)

/-! ## points, `Point::add / mul / simplify` of ecm.rs -/

/-- `struct Point { x, y, z }` (projective coordinates) -/
structure Point where
  x : Int
  y : Int
  z : Int
  deriving BEq, DecidableEq, Repr, Inhabited

/-- `Point::inf()` -/
def inf : Point := ⟨0, 1, 0⟩

/-- `Point::is_inf` -/
def Point.isInf (p : Point) : Bool := p.z == 0

/-- `Point::simplify`: `Err(gcd(z, n))` when z is not invertible -/
def simplify (p : Point) (n : Int) : Except Int Point :=
  if p.z == 0 then .ok inf
  else
    match NTV.inv p.z n with
    | .error g => .error g
    | .ok invz => .ok ⟨Int.tmod (p.x * invz) n, Int.tmod (p.y * invz) n, 1⟩

/-- the un-normalised sum of two finite points: the arithmetic shared verbatim by `Point::add`
(ecm.rs) and the loop body of `many_adds` (ecm_parallel.rs). Comparisons `xdif == 0` are on the raw
integers, as in the Rust. -/
def addCore (p1 p2 : Point) (a n : Int) : Point :=
  let xdif := p1.x - p2.x
  if xdif == 0 then
    if Int.tmod (p1.y + p2.y) n == 0 then inf
    else
      let lambda := Int.tmod (p1.x * p1.x * 3 + a) n
      let den := Int.tmod (p1.y * 2) n
      let den2 := Int.tmod (den * den) n
      let den3 := Int.tmod (den2 * den) n
      let x3 := lambda * lambda - (p1.x * 2) * den2
      let y3 := lambda * (p1.x * den2 - x3) - p1.y * den3
      ⟨NTV.zmod (x3 * den) n, NTV.zmod y3 n, den3⟩
  else
    let lambda := NTV.zmod (p1.y - p2.y) n
    let xdif2 := Int.tmod (xdif * xdif) n
    let xdif3 := Int.tmod (xdif2 * xdif) n
    let x3 := lambda * lambda - (p1.x + p2.x) * xdif2
    let y3 := lambda * (p1.x * xdif2 - x3) - p1.y * xdif3
    ⟨NTV.zmod (x3 * xdif) n, NTV.zmod y3 n, xdif3⟩

/-- `Point::add` (ecm.rs): an infinite operand returns the other one *unchanged*; the early
`return Ok(inf)` of the Rust is `simplify inf = Ok(inf)` here. -/
def addPt (p1 p2 : Point) (a n : Int) : Except Int Point :=
  if p1.isInf then .ok p2
  else if p2.isInf then .ok p1
  else simplify (addCore p1 p2 a n) n

/-- the `while e > 0` loop of `Point::mul`; fuel = bit length of e -/
def mulLoop (a n : Int) : Nat → Nat → Point → Point → Except Int Point
  | 0, _, sum, _ => .ok sum
  | f + 1, e, sum, cur =>
    if e == 0 then .ok sum
    else
      match (if e % 2 == 1 then addPt sum cur a n else .ok sum) with
      | .error g => .error g
      | .ok sum =>
        let e := e / 2
        if e == 0 then .ok sum
        else
          match addPt cur cur a n with
          | .error g => .error g
          | .ok cur => mulLoop a n f e sum cur

/-- `Point::mul(e)` (binary method, LSB first); e ≤ 0 gives `inf` -/
def mulPt (p : Point) (e : Int) (a n : Int) : Except Int Point :=
  if e ≤ 0 then .ok inf else mulLoop a n (e.toNat.log2 + 1) e.toNat inf p

/-! ## `ecm_oneshot` -/

/-- how a run of `ecm_oneshot` / `ecm_oneshot_parallel` ends early -/
inductive Stop where
  /-- `return Ok(())` -/
  | done
  /-- `Err(d)` propagated by `?` -/
  | factor (d : Int)
  /-- a Rust panic (`overflow`, `index`, …) -/
  | panic (kind : String)
  /-- model only: fuel exhausted (release profile with a wrapped counter) -/
  | fuel
  deriving BEq, DecidableEq, Repr

def liftE {α : Type} : Except Int α → Except Stop α
  | .ok a => .ok a
  | .error d => .error (.factor d)

def liftP {α : Type} : Except String α → Except Stop α
  | .ok a => .ok a
  | .error k => .error (.panic k)

/-- stage 1: `for k in 1..hi { pt = pt.mul(k)?; if pt.is_inf() { return Ok(()) } }`; first argument = hi - k -/
def stage1 (a n : Int) : Nat → Nat → Point → Except Stop Point
  | 0, _, pt => .ok pt
  | f + 1, k, pt =>
    match mulPt pt (k : Int) a n with
    | .error d => .error (.factor d)
    | .ok pt => if pt.isInf then .error .done else stage1 a n f (k + 1) pt

/-- `while cur_e <= b2 { cur_e += 6; pt = pt.add(&p6)?; if pt.is_inf() { return Ok(()) } }` -/
def stage2While (a n : Int) (prof : Profile) (b2 : Nat) (p6 : Point) : Nat → Nat → Point → Except Stop Point
  | 0, cur, pt => if cur ≤ b2 then .error .fuel else .ok pt
  | f + 1, cur, pt =>
    if cur ≤ b2 then
      match addU64 prof cur 6 with
      | .error k => .error (.panic k)
      | .ok cur =>
        match addPt pt p6 a n with
        | .error d => .error (.factor d)
        | .ok pt => if pt.isInf then .error .done else stage2While a n prof b2 p6 f cur pt
    else .ok pt

/-- number of iterations of the stage-2 loop when `cur_e` does not wrap -/
def stage2Iters (init b2 : Nat) : Nat := if init ≤ b2 then (b2 - init) / 6 + 1 else 0

/-- body of `for &init in &[..]` -/
def stage2One (a n : Int) (prof : Profile) (b2 : Nat) (pt : Point) (init : Nat) : Except Stop Point := do
  let p2 ← liftE (addPt pt pt a n)
  let p4 ← liftE (addPt p2 p2 a n)
  let p6 ← liftE (addPt p2 p4 a n)
  let pt ← liftE (mulPt pt (init : Int) a n)
  if pt.isInf then .error .done
  else stage2While a n prof b2 p6 (stage2Iters init b2) init pt

/-- `[b1.saturating_sub(1) / 6 * 6 + 1, ((b1 + 1) / 6 * 6).max(6) - 1]`, every u64 operation explicit
(`saturating_sub` = truncated subtraction on `Nat`; `/` cannot fail: the divisor is the literal 6) -/
def stage2Inits (prof : Profile) (b1 : Nat) : Except String (Nat × Nat) := do
  let m1 ← mulU64 prof ((b1 - 1) / 6) 6
  let i1 ← addU64 prof m1 1
  let t ← addU64 prof b1 1
  let m2 ← mulU64 prof (t / 6) 6
  let i2 ← subU64 prof (max m2 6) 1
  pure (i1, i2)

/-- `ecm_oneshot(pt, curve, b1, b2)`: `.done` = `Ok(())`, `.factor d` = `Err(d)` -/
def ecmOneshot (pt : Point) (a n : Int) (b1 b2 : Nat) (prof : Profile) : Stop :=
  let run : Except Stop Unit := do
    let hi ← liftP (addU64 prof b1 1)            -- `1..b1 + 1`
    let pt ← stage1 a n (hi - 1) 1 pt
    let inits ← liftP (stage2Inits prof b1)
    let pt ← stage2One a n prof b2 pt inits.1
    let _ ← stage2One a n prof b2 pt inits.2
    pure ()
  match run with
  | .ok _ => .done
  | .error s => s

/-! ## `is_prime` returning the remaining stream -/

/-- `prime::is_prime(n)` threading the stream (the model proved one-sided in C13) -/
abbrev isPrimeS (n : Int) (s : Stream) : Option (Bool × Stream) := NTV.Prime.isPrimeS n s

/-! ## `ecm` (curve loop) -/

inductive EcmRes where
  /-- `(fac, count)` and the unconsumed stream -/
  | found (fac : Int) (count : Nat) (rest : Stream)
  | panic (kind : String)
  | inconclusive (why : String)
  deriving Repr

/-- the `loop { .. }` of `ecm`: draws a, x, y per curve -/
def ecmLoop (n : Int) (b1 b2 : Nat) (prof : Profile) : Nat → Nat → Stream → EcmRes
  | 0, _, _ => .inconclusive "fuel"
  | f + 1, count, s =>
    match addU64 prof count 1 with
    | .error k => .panic k
    | .ok count =>
      if n ≤ 1 then .panic "assert"        -- gen_bigint_range(1, n): `assert!(*lbound < *ubound)`
      else
        match NTV.Draw.range 1 n s with
        | none => .inconclusive "stream"
        | some (a, s) =>
          match NTV.Draw.range 1 n s with
          | none => .inconclusive "stream"
          | some (x, s) =>
            match NTV.Draw.range 1 n s with
            | none => .inconclusive "stream"
            | some (y, s) =>
              match ecmOneshot ⟨x, y, 1⟩ a n b1 b2 prof with
              | .done => ecmLoop n b1 b2 prof f count s
              | .factor fac =>
                if fac == 1 || fac == n then ecmLoop n b1 b2 prof f count s
                else if prof == .dev && Int.tmod n fac != 0 then .panic "assert"   -- debug_assert_eq!(n % &fac, 0)
                else .found fac count s
              | .panic k => .panic k
              | .fuel => .inconclusive "fuel"

/-- the leading `debug_assert!(!prime::is_prime(n))` (dev profile only; it consumes Miller–Rabin draws) -/
def debugAssertComposite (n : Int) (prof : Profile) (s : Stream) : Except EcmRes Stream :=
  match prof with
  | .release => .ok s
  | .dev =>
    match isPrimeS n s with
    | none => .error (.inconclusive "stream")
    | some (true, _) => .error (.panic "assert")
    | some (false, s) => .ok s

/-- `ecm::ecm(n, ECMConfig { b1, b2, .. })`; fuel = maximal number of curves (every curve consumes at
least three chunks, so `stream.length + 1` always suffices) -/
def ecm (n : Int) (b1 b2 : Nat) (stream : Stream) (fuel : Nat) (prof : Profile) : EcmRes :=
  match debugAssertComposite n prof stream with
  | .error r => r
  | .ok s => ecmLoop n b1 b2 prof fuel 0 s

/-! ## ecm_parallel.rs: batched point arithmetic -/

/-- `zacc_l`: `[l_0, …, l_k]`, running product (mod n, `%`) of the non-zero z from the left -/
def prefixAcc (n : Int) : Int → List Int → List Int
  | acc, [] => [acc]
  | acc, z :: zs => acc :: prefixAcc n (if z != 0 then Int.tmod (acc * z) n else acc) zs

/-- `zacc_r`: `[r_0, …, r_k]`, `r_k = 1`, running product from the right -/
def suffixAcc (n : Int) : List Int → List Int
  | [] => [1]
  | z :: zs =>
    match suffixAcc n zs with
    | [] => [1]      -- unreachable
    | r :: rs => (if z != 0 then Int.tmod (r * z) n else r) :: r :: rs

/-- the final `for i in 0..k` loop of `many_simplify`: `ls = l_i…`, `rs = r_{i+1}…` -/
def simplifyEach (n invzprod : Int) : List Point → List Int → List Int → List Point
  | p :: ps, l :: ls, r :: rs =>
    (if p.z == 0 then inf
     else
       let invz := Int.tmod (l * r * invzprod) n
       ⟨Int.tmod (p.x * invz) n, Int.tmod (p.y * invz) n, 1⟩) :: simplifyEach n invzprod ps ls rs
  | _, _, _ => []

/-- `Point::many_simplify`: Montgomery's trick, one inversion of the (un-reduced) product of all
non-zero z; when that is not invertible `Err(gcd(∏z, n))`, or — if that gcd is n itself — the gcd of
n with the first non-zero coordinate that shares a proper divisor with it -/
def manySimplify (pts : List Point) (n : Int) : Except Int (List Point) :=
  let zarr := pts.map (·.z)
  let zprod := zarr.foldl (fun acc z => if z != 0 then acc * z else acc) 1
  let accL := prefixAcc n 1 zarr
  let accR := suffixAcc n zarr
  match NTV.inv zprod n with
  | .error g =>
    -- the gcd of the whole product may be n although no coordinate is a multiple of n: the first
    -- non-zero coordinate sharing a proper divisor with n is reported instead
    if g == n then
      match zarr.find? (fun z => z != 0 && (Int.gcd z n : Int) != 1 && (Int.gcd z n : Int) != n) with
      | some z => .error (Int.gcd z n : Int)
      | none => .error g
    else .error g
  | .ok invzprod => .ok (simplifyEach n invzprod pts accL (accR.drop 1))

/-- loop body of `many_adds` for one triple -/
def addRaw (t : Point × Point × Int) (n : Int) : Point :=
  let (p1, p2, a) := t
  if p1.isInf then p2 else if p2.isInf then p1 else addCore p1 p2 a n

/-- `Point::many_adds`; every curve carries the same modulus n; `&pts[0]` panics on an empty batch -/
def manyAdds (pts : List (Point × Point × Int)) (n : Int) : Except Stop (List Point) :=
  let points := pts.map (fun t => addRaw t n)
  if pts.isEmpty then .error (.panic "index")
  else liftE (manySimplify points n)

def triples : List Point → List Point → List Int → List (Point × Point × Int)
  | p :: ps, q :: qs, a :: as => (p, q, a) :: triples ps qs as
  | _, _, _ => []

/-- the `while e > 0` loop of `many_muls` -/
def manyMulsLoop (n : Int) (as : List Int) : Nat → Nat → List Point → List Point → Except Stop (List Point)
  | 0, _, sum, _ => .ok sum
  | f + 1, e, sum, cur =>
    if e == 0 then .ok sum
    else
      match (if e % 2 == 1 then manyAdds (triples sum cur as) n else .ok sum) with
      | .error s => .error s
      | .ok sum =>
        let e := e / 2
        if e == 0 then .ok sum
        else
          match manyAdds (triples cur cur as) n with
          | .error s => .error s
          | .ok cur => manyMulsLoop n as f e sum cur

/-- `Point::many_muls(&joint, e)`; the batch is (points, curve parameters a) -/
def manyMuls (pts : List Point) (as : List Int) (e : Nat) (n : Int) : Except Stop (List Point) :=
  if e == 0 then .ok (List.replicate pts.length inf)
  else manyMulsLoop n as (e.log2 + 1) e (List.replicate pts.length inf) pts

/-- stage 1 of `ecm_oneshot_parallel` (no `is_inf` test there) -/
def pStage1 (n : Int) (as : List Int) : Nat → Nat → List Point → Except Stop (List Point)
  | 0, _, pts => .ok pts
  | f + 1, mult, pts =>
    match manyMuls pts as mult n with
    | .error s => .error s
    | .ok pts => pStage1 n as f (mult + 1) pts

/-- `while cur_e <= b2 { cur_e += 6; let result = many_adds(&tmp)?; tmp[i].0 = result[i] }` -/
def pStage2While (n : Int) (as : List Int) (prof : Profile) (b2 : Nat) (p6 : List Point) :
    Nat → Nat → List Point → Except Stop Unit
  | 0, cur, _ => if cur ≤ b2 then .error .fuel else .ok ()
  | f + 1, cur, t0 =>
    if cur ≤ b2 then
      match addU64 prof cur 6 with
      | .error k => .error (.panic k)
      | .ok cur =>
        match manyAdds (triples t0 p6 as) n with
        | .error s => .error s
        | .ok t0 => pStage2While n as prof b2 p6 f cur t0
    else .ok ()

/-- body of `for &init in &[..]` in `ecm_oneshot_parallel`; returns the new `joint` (the stage-2
additions work on the copy `tmp`, `joint` keeps `init · P`) -/
def pStage2One (n : Int) (as : List Int) (prof : Profile) (b2 : Nat) (joint : List Point) (init : Nat) :
    Except Stop (List Point) := do
  let p2 ← manyAdds (triples joint joint as) n
  let p4 ← manyAdds (triples p2 p2 as) n
  let p6 ← manyAdds (triples p2 p4 as) n
  let joint ← manyMuls joint as init n
  pStage2While n as prof b2 p6 (stage2Iters init b2) init joint
  pure joint

/-- `ecm_oneshot_parallel(pts, curves, b1, b2)` -/
def ecmOneshotParallel (pts : List Point) (as : List Int) (n : Int) (b1 b2 : Nat) (prof : Profile) : Stop :=
  let run : Except Stop Unit := do
    let hi ← liftP (addU64 prof b1 1)
    let joint ← pStage1 n as (hi - 1) 1 pts
    let inits ← liftP (stage2Inits prof b1)
    let joint ← pStage2One n as prof b2 joint inits.1
    let _ ← pStage2One n as prof b2 joint inits.2
    pure ()
  match run with
  | .ok _ => .done
  | .error s => s

/-! ## `ecm_parallel::ecm` -/

/-- k draws of `gen_bigint_range(1, n)` -/
def drawN (n : Int) : Nat → Stream → Option (List Int × Stream)
  | 0, s => some ([], s)
  | k + 1, s =>
    match NTV.Draw.range 1 n s with
    | none => none
    | some (v, s) =>
      match drawN n k s with
      | none => none
      | some (vs, s) => some (v :: vs, s)

/-- k points: x then y for each -/
def drawPts (n : Int) : Nat → Stream → Option (List Point × Stream)
  | 0, s => some ([], s)
  | k + 1, s =>
    match NTV.Draw.range 1 n s with
    | none => none
    | some (x, s) =>
      match NTV.Draw.range 1 n s with
      | none => none
      | some (y, s) =>
        match drawPts n k s with
        | none => none
        | some (ps, s) => some (⟨x, y, 1⟩ :: ps, s)

/-- `(conf.b1 as f64).sqrt() as usize`: integer square root (see the header for the range of validity) -/
def parallelCount (b1 : Nat) : Nat := NTV.Elem.nthRoot b1 2

/-- the `loop { .. }` of `ecm_parallel::ecm` -/
def ecmParLoop (n : Int) (b1 b2 pc : Nat) (prof : Profile) : Nat → Nat → Stream → EcmRes
  | 0, _, _ => .inconclusive "fuel"
  | f + 1, count, s =>
    match addU64 prof count 1 with
    | .error k => .panic k
    | .ok count =>
      if pc > 0 && n ≤ 1 then .panic "assert"
      else
        match drawN n pc s with
        | none => .inconclusive "stream"
        | some (as, s) =>
          match drawPts n pc s with
          | none => .inconclusive "stream"
          | some (pts, s) =>
            match ecmOneshotParallel pts as n b1 b2 prof with
            | .done => ecmParLoop n b1 b2 pc prof f count s
            | .factor fac =>
              if fac == 1 || fac == n then ecmParLoop n b1 b2 pc prof f count s
              else if prof == .dev && Int.tmod n fac != 0 then .panic "assert"
              else
                match mulU64 prof count pc with
                | .error k => .panic k
                | .ok c => .found fac c s
            | .panic k => .panic k
            | .fuel => .inconclusive "fuel"

/-- `ecm_parallel::ecm(n, conf)`; the returned count is `count * parallel_count` -/
def ecmParallel (n : Int) (b1 b2 : Nat) (stream : Stream) (fuel : Nat) (prof : Profile) : EcmRes :=
  match debugAssertComposite n prof stream with
  | .error r => r
  | .ok s =>
    -- beyond 2^52 the f64 conversion/square root may round across an integer: no answer rather than a wrong one
    if b1 ≥ 2 ^ 52 then .inconclusive "f64-sqrt-not-modelled-above-2^52"
    else ecmParLoop n b1 b2 (parallelCount b1) prof fuel 0 s

/-! ## the work-stack driver `factorize_verbose` (identical text in both files) -/

inductive FacRes where
  /-- sorted result, `EcmStats.curve_count`, unconsumed stream -/
  | ok (result : List (Int × Nat)) (count : Nat) (rest : Stream)
  | panic (kind : String)
  | inconclusive (why : String)
  deriving Repr

/-- `*map.entry(now).or_insert(0) += multiplicity` on an association list (insertion order kept) -/
def mapAdd (prof : Profile) : List (Int × Nat) → Int → Nat → Except String (List (Int × Nat))
  | [], p, mult => (addU64 prof 0 mult).map (fun e => [(p, e)])
  | (q, e) :: rest, p, mult =>
    if q == p then (addU64 prof e mult).map (fun e' => (q, e') :: rest)
    else (mapAdd prof rest p mult).map (fun r => (q, e) :: r)

/-- lexicographic `<=` on `(BigInt, u64)` -/
def pairLe (u v : Int × Nat) : Bool := u.1 < v.1 || (u.1 == v.1 && u.2 ≤ v.2)

def insertSorted (v : Int × Nat) : List (Int × Nat) → List (Int × Nat)
  | [] => [v]
  | u :: us => if pairLe v u then v :: u :: us else u :: insertSorted v us

/-- `result.sort()` (keys are distinct, so stability is irrelevant) -/
def sortPairs (l : List (Int × Nat)) : List (Int × Nat) := l.foldr insertSorted []

structure DState where
  stack : List (Int × Nat)
  map : List (Int × Nat)
  count : Nat
  stream : Stream

/-- `select_b` on its exact branch; `none` = the floating-point branch (not modelled) -/
def selectBExact (n : Int) : Option Nat := if n ≤ 1000 then some 4 else none

/-- the `while let Some((now, multiplicity)) = stack.pop()` loop; `Vec::push/pop` act on the end of
the list. `ecmFn now b1 b2 stream` is `ecm` or `ecmParallel`. `bsel now` is the bound used for the work
item `now`: ecm.rs computes `select_b(x)` once before the loop (`bsel` constant), ecm_parallel.rs computes
`select_b(&now)` immediately before the `ecm` call (so it is consulted only when ECM is really called);
`none` = the harness supplied no value of `select_b` for that item: the run is dropped as inconclusive. -/
def driverLoop (ecmFn : Int → Nat → Nat → Stream → EcmRes) (prof : Profile) (bsel : Int → Option Nat) :
    Nat → DState → FacRes
  | 0, st => if st.stack.isEmpty then .ok (sortPairs st.map) st.count st.stream else .inconclusive "fuel"
  | f + 1, st =>
    match st.stack.getLast? with
    | none => .ok (sortPairs st.map) st.count st.stream
    | some (now, mult) =>
      let stack := st.stack.dropLast
      if now ≤ 1 then driverLoop ecmFn prof bsel f { st with stack := stack }
      else
        match isPrimeS now st.stream with
        | none => .inconclusive "stream"
        | some (true, s) =>
          match mapAdd prof st.map now mult with
          | .error k => .panic k
          | .ok m => driverLoop ecmFn prof bsel f { st with stack := stack, map := m, stream := s }
        | some (false, s) =>
          match NTV.Elem.perfectPower now with
          | none => .panic "other"     -- unreachable: now > 1
          | some (base, k) =>
            if k ≥ 2 then
              match mulU64 prof mult k with
              | .error e => .panic e
              | .ok m => driverLoop ecmFn prof bsel f { st with stack := stack ++ [(base, m)], stream := s }
            else
              match bsel now with
              | none => .inconclusive "no-bound-for-item"   -- the harness did not supply select_b(now)
              | some b =>
              match mulU64 prof 100 b with
              | .error e => .panic e
              | .ok b2 =>
                match ecmFn now b b2 s with
                | .panic e => .panic e
                | .inconclusive w => .inconclusive w
                | .found fac nowcount s =>
                  match addU64 prof st.count nowcount with
                  | .error e => .panic e
                  | .ok count =>
                    if fac == 1 then
                      driverLoop ecmFn prof bsel f { stack := stack ++ [(now, mult)], map := st.map, count := count, stream := s }
                    else
                      let other := Int.tdiv now fac
                      driverLoop ecmFn prof bsel f
                        { stack := stack ++ [(fac, mult), (other, mult)], map := st.map, count := count, stream := s }

/-- `factorize_verbose(x, _)` with the bound selection `bsel` supplied; x ≤ 0 is the documented `panic!` -/
def factorizeWith (ecmFn : Int → Nat → Nat → Stream → EcmRes) (x : Int) (bsel : Int → Option Nat) (stream : Stream)
    (fuel : Nat) (prof : Profile) : FacRes :=
  if x ≤ 0 then .panic "other"
  else driverLoop ecmFn prof bsel fuel { stack := [(x, 1)], map := [], count := 0, stream := stream }

/-- `ecm::factorize_verbose`: one `b = select_b(x)` for the whole run -/
def factorizeSeq (x : Int) (b : Nat) (stream : Stream) (fuel : Nat) (prof : Profile) : FacRes :=
  factorizeWith (fun now b1 b2 s => ecm now b1 b2 s (s.length + 1) prof) x (fun _ => some b) stream fuel prof

/-- the bound of `ecm_parallel::factorize_verbose` for the work item `now`: `select_b(&now)`, exact for
now ≤ 1000, otherwise `b` (= select_b(x)) for the input itself and the table `btab` (d ↦ select_b(d))
for every other item -/
def parBsel (x : Int) (b : Nat) (btab : List (Int × Nat)) (now : Int) : Option Nat :=
  if now ≤ 1000 then some 4 else if now = x then some b else btab.lookup now

/-- `ecm_parallel::factorize_verbose`: `select_b(&now)` per work item -/
def factorizePar (x : Int) (b : Nat) (btab : List (Int × Nat)) (stream : Stream) (fuel : Nat) (prof : Profile) : FacRes :=
  factorizeWith (fun now b1 b2 s => ecmParallel now b1 b2 s (s.length + 1) prof) x (parBsel x b btab) stream fuel prof

/-! ## rfactor's `present` (stdout, without the timing fields of `--verbose`) -/

/-- plain rendering: every prime repeated e times, blank separated, then a newline -/
def presentPlain (result : List (Int × Nat)) : String :=
  " ".intercalate (result.map (fun pe => " ".intercalate (List.replicate pe.2 (toString pe.1)))) ++ "\n"

/-- `--json` rendering: `serde_json::to_string_pretty` of `{"entries": [{"p": "..", "e": ..}, ..]}`
(field order of the struct is kept: serde_json is built with `preserve_order`) -/
def presentJson (result : List (Int × Nat)) : String :=
  let entry (pe : Int × Nat) : String :=
    "    {\n      \"p\": \"" ++ toString pe.1 ++ "\",\n      \"e\": " ++ toString pe.2 ++ "\n    }"
  let body :=
    if result.isEmpty then "[]"
    else "[\n" ++ ",\n".intercalate (result.map entry) ++ "\n  ]"
  -- `println!("{}", pretty)` followed by the common trailing `println!()`
  "{\n  \"entries\": " ++ body ++ "\n}\n\n"

/-- `present(cli, result, ..)` for `cli.verbose = false` -/
def present (json : Bool) (result : List (Int × Nat)) : String :=
  if json then presentJson result else presentPlain result

end NTV.Ecm
