/-! Prototype: executable model of number-theory-linear/src/hnf.rs (hnf_with_u). Core only. -/
namespace NTV.Hnf

abbrev Row := List Int
abbrev Mat := List Row

def ent (a : Mat) (i j : Nat) : Int := (a.getD i []).getD j 0

/-- `floor_div` of hnf.rs: BigInt `/` is truncated division. -/
def floorDiv (a b : Int) : Int :=
  if b < 0 then
    let q := Int.tdiv (-a) (-b)
    if -a < q * (-b) then q - 1 else q
  else
    let q := Int.tdiv a b
    if a < q * b then q - 1 else q

def rowSubMul (rj rk : Row) (q : Int) : Row := List.zipWith (fun x y => x - y * q) rj rk
def subMulRow (a : Mat) (j k : Nat) (q : Int) : Mat :=
  a.modify j (fun rj => rowSubMul rj (a.getD k []) q)
def negRow (a : Mat) (k : Nat) : Mat := a.modify k (fun r => r.map (· * (-1)))
def swapRows (a : Mat) (i j : Nat) : Mat := (a.set i (a.getD j [])).set j (a.getD i [])

structure St where
  a : Mat
  u : Mat
  deriving Repr

def St.subMul (s : St) (j k : Nat) (q : Int) : St := ⟨subMulRow s.a j k q, subMulRow s.u j k q⟩
def St.neg (s : St) (k : Nat) : St := ⟨negRow s.a k, negRow s.u k⟩
def St.swap (s : St) (i j : Nat) : St := ⟨swapRows s.a i j, swapRows s.u i j⟩

/-- all a[j][i] = 0 for j < k -/
def allZeroAbove (a : Mat) (k i : Nat) : Bool := (List.range k).all (fun j => ent a j i == 0)

/-- argmin over j ≤ k with a[j][i] ≠ 0 of (|a[j][i]|, j), scanning upwards (ties keep the smaller index). -/
def pickPivot (a : Mat) (k i : Nat) : Nat :=
  let cands := (List.range (k + 1)).filter (fun j => ent a j i != 0)
  match cands with
  | [] => k
  | c :: cs => cs.foldl (fun best j => if (ent a j i).natAbs < (ent a best i).natAbs then j else best) c

/-- rows 0..k-1 reduced against row k in column i -/
def reduceAbove (s : St) (k i : Nat) : St :=
  let b := ent s.a k i
  (List.range k).foldl (fun s j => s.subMul j k (floorDiv (ent s.a j i) b)) s

/-- rows k+1..n-1 reduced against row k in column i -/
def reduceBelow (s : St) (k i n : Nat) : St :=
  let b := ent s.a k i
  (List.range (n - (k + 1))).foldl (fun s t => let j := k + 1 + t; s.subMul j k (floorDiv (ent s.a j i) b)) s

def inner : Nat → St → Nat → Nat → Option St
  | 0, _, _, _ => none
  | fuel + 1, s, k, i =>
    if allZeroAbove s.a k i then
      some (if ent s.a k i < 0 then s.neg k else s)
    else
      let j0 := pickPivot s.a k i
      let s := s.swap j0 k
      inner fuel (reduceAbove s k i) k i

def colAbsSum (a : Mat) (k i : Nat) : Nat := ((List.range k).map (fun j => (ent a j i).natAbs)).sum

/-- Steps 2-5 of Cohen 2.4.4 for column `i` with current row `k`: returns the new state and the
row index before the `k -= 1` of step 6 (`k + 1` when the column has no pivot). -/
def stepCol (n : Nat) (s : St) (k i : Nat) : Option (St × Nat) :=
  match inner (colAbsSum s.a k i + 1) s k i with
  | none => none
  | some s => some (if ent s.a k i == 0 then (s, k + 1) else (reduceBelow s k i n, k))

/-- columns c-1, c-2, ..., 0 with the modified termination test `k == 0 || i == 0` -/
def outer (n : Nat) : Nat → St → Nat → Option (St × Nat)
  | 0, s, k => some (s, k)
  | c + 1, s, k =>
    match stepCol n s k c with
    | none => none
    | some (s, k) => if k == 0 || c == 0 then some (s, k) else outer n c s (k - 1)

def idMat (n : Nat) : Mat := (List.range n).map (fun i => (List.range n).map (fun j => if i = j then 1 else 0))

/-- `hnf_with_u`: returns (H, U, k). `none` only on fuel exhaustion (proved impossible). -/
def hnfWithU (a : Mat) : Option (Mat × Mat × Nat) :=
  match a with
  | [] => some ([], [], 0)
  | r0 :: _ =>
    let n := a.length
    let m := r0.length
    match outer n m ⟨a, idMat n⟩ (n - 1) with
    | none => none
    | some (s, k) => some (s.a.drop k, s.u, k)

end NTV.Hnf

namespace NTV.Hnf
/-- `hnf_with_ker` / `HNF::new` / `HNF::kernel` -/
def hnfNew (a : Mat) : Option Mat := (hnfWithU a).map (·.1)
def kernel (a : Mat) : Option Mat := (hnfWithU a).map (fun r => r.2.1.take r.2.2)
/-- `HNF::union`; the two error values model the panics `a.0[0]` on an empty operand (index) and
`assert_eq!` on a width mismatch (assert) -/
def union (a b : Mat) : Except String (Option Mat) :=
  match a, b with
  | ra :: _, rb :: _ => if ra.length = rb.length then .ok (hnfNew (a ++ b)) else .error "assert"
  | _, _ => .error "index"
def dim (h : Mat) : Nat := h.length
def deg (h : Mat) : Nat := match h with | [] => 0 | r :: _ => r.length
/-- `HNF::determinant` -/
def determinant (h : Mat) : Int :=
  if dim h ≠ deg h then 0 else (List.range h.length).foldl (fun p i => p * ent h i i) 1
end NTV.Hnf
