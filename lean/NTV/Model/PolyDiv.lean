import NTV.Model.Poly
namespace NTV.Poly

def subRaw : List Int → List Int → List Int
  | a, [] => a
  | [], y :: ys => (-y) :: subRaw [] ys
  | x :: xs, y :: ys => (x - y) :: subRaw xs ys

def deg (a : Poly) : Nat := a.length - 1   -- only used on non-empty lists here
def lc (a : Poly) : Int := a.getLastD 0

/-- inner loop shared by `pseudo_div_rem_bigint` (processing indices i-1, ..., 0) -/
def pdivLoop (b : List Int) (lcb : Int) (bdeg : Nat) : Nat → List Int → List Int → List Int × List Int
  | 0, tmp, acc => (acc, tmp)
  | i + 1, tmp, acc =>
    let coef := Int.tdiv (tmp.getD (i + bdeg) 0) lcb
    pdivLoop b lcb bdeg i (subRaw tmp (List.replicate i 0 ++ b.map (coef * ·))) (coef :: acc)

/-- `pseudo_div_rem_bigint` -/
def pseudoDivRem (a b : Poly) : Poly × Poly :=
  if a.isEmpty || b.isEmpty || a.length < b.length then ([], a)
  else
    let bdeg := b.length - 1
    let diff := a.length - b.length
    let lcb := lc b
    let factor := lcb ^ (diff + 1)
    let (q, r) := pdivLoop b lcb bdeg (diff + 1) (a.map (· * factor)) []
    (fromRaw q, fromRaw r)

end NTV.Poly
