import NTV.Model.Polynomial
/-! Model of src/resultant.rs (`resultant_smart`, `resultant_smart_gcd`), src/discriminant.rs
(`discriminant`) and the two scalar helpers of src/poly_mod/prim.rs they use (`poly_div`,
`poly_mul`), on top of the list model `NTV.PolyG`. Import-free.

Polynomials are *raw* coefficient lists, low degree first: `deg()` is `length - 1`, `is_zero()` is
`isEmpty`, exactly as in the Rust (`Polynomial { dat }`), so the functions also mirror the code on
lists with a trailing zero (the CLI builds `Polynomial { dat }` without `from_raw`).

Every truncated division `/` (`Int.tdiv`) of the subresultant recurrence is accompanied by an
*exactness flag*: the returned `Bool` is the conjunction of "remainder was zero" over all of them
(coefficient divisions by `a * b^delta`, the update of `b`, the final division). A Rust panic is
`Except.error kind` (`div0` for a BigInt division by zero, `assert` for `assert!`). -/
namespace NTV.Res
open NTV.PolyG

/-- outcome of a model run: `error kind` = the Rust panics with that kind, `ok (v, exact)` = value
and exactness flag -/
abbrev Out (α : Type) := Except String (α × Bool)

/-- BigInt `x / d`: panics on `d = 0`; returns the truncated quotient and whether it was exact -/
def tdivX (x d : Int) : Except String (Int × Bool) :=
  if d = 0 then .error "div0" else .ok (Int.tdiv x d, Int.tmod x d == 0)

/-- `for i in 0..g.dat.len() { g.dat[i] /= &factor; }` (no renormalisation afterwards) -/
def divCoeffs (g : List Int) (factor : Int) : Except String (List Int × Bool) :=
  if g.isEmpty then .ok ([], true)
  else if factor = 0 then .error "div0"
  else .ok (g.map (fun c => Int.tdiv c factor), g.all (fun c => Int.tmod c factor == 0))

/-- `pseudo_div_rem_bigint(&f, &g).1` in the situation `deg f ≥ deg g`, both non-empty: the Rust
divides by `lc g` (`&tmp[i + b_deg] / &lcb`), which panics when the stored leading coefficient is 0
(only possible for a non-canonical `g`) -/
def pseudoRem (f g : List Int) : Except String (List Int) :=
  if lc g = 0 then .error "div0" else .ok (pseudoDivRem f g).2

/-- The common loop body of `resultant_smart` and `resultant_smart_gcd` (from `let delta = …` to
the update of `b`), for `deg f ≥ deg g ≥ 1`. Returns the new `(f, g, a, b)` and the exactness of
the divisions performed. -/
def step (f g : List Int) (a b : Int) : Except String ((List Int × List Int × Int × Int) × Bool) := do
  let delta := (f.length - 1) - (g.length - 1)
  let h ← pseudoRem f g
  -- f = g; g = h; divide g by a * b^delta
  let factor := a * b ^ delta
  let (g', ok1) ← divCoeffs h factor
  -- a = f.dat[f.deg()]
  let a' := lc g
  -- b = pow(a, delta) * &b / pow(b, delta)     (left to right: (a^delta * b) / b^delta)
  let (b', ok2) ← tdivX (a' ^ delta * b) (b ^ delta)
  return ((g, g', a', b'), ok1 && ok2)

/-- the `loop { … }` of `resultant_smart` together with the code after it. `s` is the sign (±1).
Fuel: after at most one swap `deg f ≥ deg g`, and each further round shortens `g`. -/
def resLoop : Nat → List Int → List Int → Int → Int → Int → Bool → Option (Except String (Int × Bool))
  | 0, _, _, _, _, _, _ => none
  | fuel + 1, f, g, a, b, s, ok =>
    if g.isEmpty then some (.ok (0, ok))
    else
      let fdeg := f.length - 1
      let gdeg := g.length - 1
      let s := if fdeg % 2 = 1 ∧ gdeg % 2 = 1 then -s else s
      if gdeg = 0 then
        -- break; code after the loop
        if fdeg = 0 then some (.ok (1, ok))
        else some (do
          -- result = pow(g.dat[0], f.deg()); result /= pow(b, f.deg() - 1)
          let (r, ok') ← tdivX ((g.getD 0 0) ^ fdeg) (b ^ (fdeg - 1))
          return (if s = -1 then -r else r, ok && ok'))
      else if fdeg < gdeg then resLoop fuel g f a b s ok
      else
        match step f g a b with
        | .error e => some (.error e)
        | .ok ((f', g', a', b'), ok') => resLoop fuel f' g' a' b' s (ok && ok')

/-- `resultant_smart` (= `resultant::resultant`) with panics; `none` = fuel exhausted (cannot happen) -/
def resultantSmartE (f g : List Int) : Option (Except String (Int × Bool)) :=
  if f.isEmpty then some (.ok (0, true))
  else resLoop (f.length + g.length + 3) f g 1 1 1 true

/-- `resultant_smart`: value and exactness flag. (A panic or fuel exhaustion — neither occurs on
canonical inputs — is reported as `(0, false)`; use `resultantSmartE` to tell them apart.) -/
def resultantSmart (f g : List Int) : Int × Bool :=
  match resultantSmartE f g with
  | some (.ok r) => r
  | _ => (0, false)

/-- `poly_div` (poly_mod/prim.rs): floor division of every coefficient; the zero polynomial is
returned unchanged *before* any division, so `poly_div(0, 0)` does not panic -/
def polyDiv (f : List Int) (d : Int) : Except String (List Int) :=
  if f.isEmpty then .ok f
  else if d = 0 then .error "div0"
  else .ok (fromRaw (f.map (fun c => Int.fdiv c d)))

/-- `poly_mul` (poly_mod/prim.rs) -/
def polyMul (f : List Int) (m : Int) : List Int :=
  if f.isEmpty then f else fromRaw (f.map (fun c => c * m))

/-- `content()` = `cont_pp().0`; `cont_pp` also computes the primitive part, so it panics (floor
division by the zero gcd) on a non-empty list of zeros; the content of the zero polynomial is 0 -/
def content (f : List Int) : Except String Int :=
  if !f.isEmpty && f.all (· == 0) then .error "div0" else .ok (contPP f).1

/-- the `loop { … }` of `resultant_smart_gcd`; returns the final `f` -/
def gcdLoop : Nat → List Int → List Int → Int → Int → Bool → Option (Except String (List Int × Bool))
  | 0, _, _, _, _, _ => none
  | fuel + 1, f, g, a, b, ok =>
    if g.isEmpty then some (.ok (f, ok))
    else if g.length - 1 = 0 then some (.ok ([1], ok))
    else if f.length - 1 < g.length - 1 then gcdLoop fuel g f a b ok
    else
      match step f g a b with
      | .error e => some (.error e)
      | .ok ((f', g', a', b'), ok') => gcdLoop fuel f' g' a' b' (ok && ok')

/-- `resultant_smart_gcd` (= `resultant::resultant_gcd`) with panics; `none` = fuel exhausted.
gcd(0, g) = g as given; gcd(f, 0) = pp(f)·|cont f| (leading coefficient made positive);
gcd(0, 0) = 0. -/
def resultantSmartGcdE (f g : List Int) : Option (Except String (List Int × Bool)) :=
  if f.isEmpty then some (.ok (g, true))
  else
    let pre : Except String (Int × List Int × List Int) := do
      let contf ← content f
      let contg ← content g
      let d : Int := (Int.gcd contf contg : Int)
      let f1 ← polyDiv f contf
      let g1 ← polyDiv g contg
      return (d, f1, g1)
    match pre with
    | .error e => some (.error e)
    | .ok (d, f1, g1) =>
      match gcdLoop (f1.length + g1.length + 3) f1 g1 1 1 true with
      | none => none
      | some (.error e) => some (.error e)
      | some (.ok (f2, ok)) => some (do
          let contf ← content f2
          let pp ← polyDiv f2 contf
          return (polyMul pp d, ok))

/-- `resultant_smart_gcd`: value and exactness flag (panic / fuel ↦ `([], false)`, see above) -/
def resultantSmartGcd (f g : List Int) : List Int × Bool :=
  match resultantSmartGcdE f g with
  | some (.ok r) => r
  | _ => ([], false)

/-- `discriminant::discriminant`: `assert!(!f.is_zero())`, `Res(f, f')`, sign flipped when
`deg f % 4 ∈ {2, 3}`, truncated division by the stored leading coefficient. A non-zero constant
gives `Res(c, 0) / c = 0`. `none` = fuel exhausted. -/
def discriminantE (f : List Int) : Option (Except String (Int × Bool)) :=
  if f.isEmpty then some (.error "assert")
  else
    match resultantSmartE f (differential f) with
    | none => none
    | some (.error e) => some (.error e)
    | some (.ok (res, ok)) =>
      let m := f.length - 1
      let res := if m % 4 = 2 ∨ m % 4 = 3 then -res else res
      some (do
        let (q, ok') ← tdivX res (lc f)
        return (q, ok && ok'))

/-- `discriminant::discriminant`: `error "assert"` for the zero polynomial, otherwise value and
exactness flag -/
def discriminant (f : List Int) : Except String (Int × Bool) :=
  match discriminantE f with
  | some r => r
  | none => .error "fuel"

/-- rendering used by the driver: `panic <kind>`, `inconclusive fuel`, or the value -/
def render {α : Type} (sh : α → String) : Option (Except String (α × Bool)) → String
  | none => "inconclusive fuel"
  | some (.error k) => "panic " ++ k
  | some (.ok (v, _)) => sh v

/-- exactness flag of a run (true for panics / fuel: nothing to report there) -/
def exact {α : Type} : Option (Except String (α × Bool)) → Bool
  | some (.ok (_, ok)) => ok
  | _ => true

end NTV.Res
