import NTV.Model.Hnf
import NTV.Model.LinAlg
import NTV.Model.Order
import NTV.Model.PolyModFactor
/-! Model of src/ideal.rs, of `MultTable::get_inv_diff` (src/mult_table.rs) and of
src/prime_decomp/simple.rs (`decompose`; prime_decomp/mod.rs only forwards to it).

An `Ideal` is its `hnf` field (`List (List Int)`, rows = coordinate vectors with respect to the basis
w_1 … w_n of the order) relative to a multiplication table `T` (`NTV.Ord.Table`); the `mult_table`
reference of the Rust struct is the explicit argument `T`. A `FracIdeal` is the pair (denom, numer).
Panics are `Except String` errors rendered `panic <kind>`; `debug_assert*` are dev-profile panics.
Import-free apart from `NTV.Model.*`. -/
namespace NTV.Ideal
open NTV.PolyG

abbrev HNF := List (List Int)
abbrev Table := NTV.Ord.Table
abbrev QMat := NTV.Ord.QMat
abbrev M := Except String
/-- `FracIdeal { denom, numer }` -/
abbrev FracIdeal := Int × HNF

/-- `HNF::new(rows)` (`none` of the model = fuel exhaustion, proved impossible) -/
def hnfNew (rows : List (List Int)) : M HNF :=
  match NTV.Hnf.hnfNew rows with
  | some h => .ok h
  | none => .error "inconclusive fuel"

/-- `let mut wi = vec![0; deg]; wi[i] = 1` -/
def unit (deg i : Nat) : List Int := (List.range deg).map (fun j => if j = i then 1 else 0)

/-- `Ideal::norm` -/
def norm (i : HNF) : Int := NTV.Hnf.determinant i

/-- `Ideal::principal(elem, mult_table)`: HNF of the rows `elem · w_i` -/
def principal (t : Table) (elem : List Int) : M HNF := do
  let deg := t.length
  if elem.length ≠ deg then throw "panic assert"
  let rows ← (List.range deg).mapM (fun i => NTV.Ord.tmul t elem (unit deg i))
  hnfNew rows

/-- `Ideal::cap_z`: `self.hnf.as_ref()[0][0]` -/
def capZ (i : HNF) : M Int :=
  match i with
  | (x :: _) :: _ => .ok x
  | _ => .error "panic index"

/-- `&Ideal + &Ideal`: HNF of the stacked bases (both operands carry the same table) -/
def add (i j : HNF) : M HNF := hnfNew (i ++ j)

/-- `&Ideal * &Ideal`: HNF of all pairwise products, `for v in basis_a { for w in basis_b { … } }` -/
def mul (t : Table) (i j : HNF) : M HNF := do
  let rows ← i.mapM (fun v => j.mapM (fun w => NTV.Ord.tmul t v w))
  hnfNew rows.flatten

/-- `Ideal::contains`: `self + (num) == self` -/
def contains (t : Table) (i : HNF) (num : List Int) : M Bool := do
  let numIdeal ← principal t num
  let newIdeal ← add i numIdeal
  pure (newIdeal == i)

/-- `Ideal::inv(&self, inv_diff)`: the dual of `self · inv_diff` with respect to the trace form.
`c[j]` is an index panic when the product has fewer than `n` rows; `.unwrap()` of
`mul_inv_from_right_exact` panics for a singular matrix, its `assert!` for a non-integral quotient. -/
def inv (t : Table) (i : HNF) (invDiff : FracIdeal) : M FracIdeal := do
  let n := t.length
  let a ← capZ i
  let c ← mul t i invDiff.2
  let tc ← (List.range n).mapM (fun ii => (List.range n).mapM (fun jj => do
    let cj ← NTV.Ord.idx c jj
    let prod ← NTV.Ord.tmul t (unit n ii) cj
    NTV.Ord.ttrace t prod))
  let ad : List (List Int) := (List.range n).map (fun ii => (List.range n).map (fun jj =>
    if ii = jj then a * invDiff.1 else 0))
  let d ← match NTV.LinAlg.mulInvFromRightExact ad tc with
    | .ok d => pure d
    | .error e => if e == NTV.LinAlg.errNotInvertible then throw "panic unwrap" else throw e
  let h ← hnfNew d
  pure (a, h)

/-- `MultTable::get_inv_diff`: inverse of the trace matrix, denominators cleared by their lcm -/
def getInvDiff (t : Table) : M FracIdeal := do
  let n := t.length
  let trMat ← (List.range n).mapM (fun i => (List.range n).mapM (fun j => do
    let blk ← NTV.Ord.idx t i
    let v ← NTV.Ord.idx blk j
    let tr ← NTV.Ord.ttrace t v
    pure (tr : Rat)))
  let d ← match NTV.LinAlg.inv trMat with
    | .ok d => pure d
    | .error e => if e == NTV.LinAlg.errNotInvertible then throw "panic unwrap" else throw e
  let denomLcm := NTV.Ord.lcmDen d 1
  let int : List (List Int) := d.map (fun r => r.map (fun e => NTV.Ord.toInteger (e * (denomLcm : Rat))))
  let h ← hnfNew int
  pure (denomLcm, h)

/-! ### prime_decomp/simple.rs -/

/-- `p.try_into().unwrap_or(0)` at `usize` (64 bit): p itself when 0 ≤ p < 2^64, else 0 -/
def wordOf (p : Int) : Nat := if 0 ≤ p ∧ p < 2 ^ 64 then p.toNat else 0

/-- the closure of `decompose`: (g, e) ↦ ((g(θ)) + (p), e) -/
def primeAbove (f : List Int) (intBasis : QMat) (t : Table) (p : Int) (poly : List Int) (e : Nat) :
    M (HNF × Nat) := do
  let polyQ : List Rat := fromRaw (poly.map (fun (c : Int) => (c : Rat)))
  let deg := degU f
  let elem ← if degU polyQ ≥ degU f then pure (List.replicate deg (0 : Int))
    else NTV.Ord.toZBasisInt intBasis polyQ
  let ancilla ← principal t elem
  -- `pelem[0] = p`
  if deg = 0 then throw "panic index"
  let pelem : List Int := p :: List.replicate (deg - 1) 0
  let pz ← principal t pelem
  let sum ← add ancilla pz
  pure (sum, e)

/-- `prime_decomp::decompose(theta, int_basis, mult_table, p)` with the draw stream of
`factorize_mod_p`. `index % p` is a division-by-zero panic for p = 0; the guard is an explicit
`panic!` (kind `other`). -/
def decompose (f : List Int) (intBasis : QMat) (t : Table) (p : Int) (s : NTV.Draw.Stream) :
    M (List (HNF × Nat)) := do
  if f.isEmpty then throw "inconclusive zero-polynomial"
  let zTheta ← NTV.Ord.trivialOrderMonic f
  let index ← NTV.Ord.index intBasis zTheta
  if p = 0 then throw "panic div0"
  if Int.tmod index p = 0 then throw "panic other"
  let result ← NTV.PolyMod.factorizeModP f p (wordOf p) s
  result.mapM (fun (poly, e) => primeAbove f intBasis t p poly e)

end NTV.Ideal
