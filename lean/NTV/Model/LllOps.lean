/-! Model of `number-theory-linear/src/lll.rs` (Cohen, Algorithm 2.6.3). Import-free.

Two layers.

* The *integer bookkeeping* (`State`, `Op`, `applyOps`): everything `lll` ever does to the basis and
  to the transformation matrix `H` is one of the two operations of the macros `red!` (row `k` minus
  `q` times row `l`, in both matrices) and `swap!` (exchange rows `k`, `k+1` in both matrices).
  Statement to be proved about it: for every operation list, `H` stays unimodular and `B = H · B₀`.

* `lllRat`: the whole routine with the `f64` quantities (`bstar`, `b`, `mu`) replaced by exact
  rationals and the *same control flow* as the current `lll.rs` (`k`, `kmax`, incremental
  Gram–Schmidt in step 2, `red!`, `swap!` with its update of `mu`, `b`, `bstar`, Lovász test with
  `0.75`). Floating point is not modelled: every decision that `f64` could legitimately take the other
  way (a comparison within the tolerance of its threshold) raises the `ambiguous` flag, and the
  correspondence is only checked on runs without the flag. -/
namespace NTV.LllOps

abbrev IMat := List (List Int)
abbrev QMat := List (List Rat)

/-! ### integer bookkeeping -/

/-- the basis (rows) and the transformation matrix -/
structure State where
  B : IMat
  H : IMat
deriving Repr, BEq

/-- `u - q * v` entrywise -/
def rowSubMul (u v : List Int) (q : Int) : List Int := List.zipWith (fun x y => x - q * y) u v

/-- row `k` of `m` becomes `row k - q * row l` -/
def redRows (m : IMat) (k l : Nat) (q : Int) : IMat :=
  m.set k (rowSubMul (m.getD k []) (m.getD l []) q)

/-- rows `k` and `k + 1` exchanged (`Vec::swap(k, k + 1)`) -/
def swapRows (m : IMat) (k : Nat) : IMat :=
  let a := m.getD k []
  let b := m.getD (k + 1) []
  (m.set k b).set (k + 1) a

/-- `red!(k, l)` with the multiplier `q` already decided: `b_k -= q b_l`, `H_k -= q H_l` -/
def red (s : State) (k l : Nat) (q : Int) : State :=
  { B := redRows s.B k l q, H := redRows s.H k l q }

/-- `swap!(k)` on the integer data: rows `k`, `k + 1` exchanged in both matrices -/
def swap (s : State) (k : Nat) : State :=
  { B := swapRows s.B k, H := swapRows s.H k }

inductive Op where
  | red (k l : Nat) (q : Int)
  | swap (k : Nat)
deriving Repr, BEq

def applyOp (s : State) : Op → State
  | .red k l q => red s k l q
  | .swap k => swap s k

def applyOps (s : State) (ops : List Op) : State := ops.foldl applyOp s

def identity (n : Nat) : IMat :=
  (List.range n).map (fun i => (List.range n).map (fun j => if i = j then 1 else 0))

/-- initial state of `lll`: the input basis and `H = 1` -/
def init (B0 : IMat) : State := { B := B0, H := identity B0.length }

/-! ### the routine over ℚ -/

def qget (m : QMat) (i j : Nat) : Rat := (m.getD i []).getD j 0
def qset (m : QMat) (i j : Nat) (v : Rat) : QMat := m.set i ((m.getD i []).set j v)
def vget (v : List Rat) (i : Nat) : Rat := v.getD i 0

def inner (a b : List Rat) : Rat := (List.zipWith (· * ·) a b).foldl (· + ·) 0
def normSqr (a : List Rat) : Rat := inner a a
def toQ (r : List Int) : List Rat := r.map (fun (x : Int) => (x : Rat))

/-- `to_int(a) = floor(a + 0.5)` -/
def toInt (a : Rat) : Int := (a + 1 / 2).floor

/-- base tolerance of the ambiguity flag -/
def tol0 : Rat := 1 / 1000000

structure St where
  n : Nat
  s : State            -- `basis`, `h`
  bstar : QMat
  b : List Rat
  mu : QMat
  k : Nat
  kmax : Nat
  ops : List Op        -- operations performed so far, most recent first
  ambiguous : Bool
  tol : Rat            -- current width of the ambiguity zone (grows with the conditioning)
  maxNormSq : Rat      -- largest squared row norm of the input
  maxAbs : Nat         -- largest |integer| that `f64` had to represent exactly in `basis` updates
deriving Repr

/-- the zone in which an `f64` comparison may differ from the exact one: `1e-6`, or `1e-12` times the
squared ratio between the longest input vector and the shortest orthogonalised vector seen so far
(rounding errors of the floating-point Gram–Schmidt process grow with that ratio). -/
def widen (st : St) (bj : Rat) : St :=
  if bj ≤ 0 then { st with ambiguous := true }
  else
    let t := st.maxNormSq / bj / 1000000000000
    if t > st.tol then { st with tol := t } else st

def flag (st : St) (c : Bool) : St := if c then { st with ambiguous := true } else st

/-- `red!(k, l)`: if `|mu[k][l]| >= 0.5`, `q = to_int(mu[k][l])`, row `k` minus `q` row `l` in `basis` and
`h`, `mu[k][l] -= q`, `mu[k][i] -= q mu[l][i]` for `i < l`. -/
def redQ (st : St) (k l : Nat) : St :=
  let m := qget st.mu k l
  let st := flag st (decide ((m.abs - 1 / 2).abs ≤ st.tol))
  if m.abs ≥ 1 / 2 then
    let q := toInt m
    -- rounding decision: `m + 1/2` close to an integer
    let fr := (m + 1 / 2) - ((m + 1 / 2).floor : Rat)
    let st := flag st (decide (fr ≤ st.tol) || decide (fr ≥ 1 - st.tol))
    let rowK := st.s.B.getD k []
    let rowL := st.s.B.getD l []
    let big := (List.zipWith (fun x y => max (q * y).natAbs (x - q * y).natAbs) rowK rowL).foldl max st.maxAbs
    let big := max big q.natAbs
    let qr : Rat := (q : Rat)
    let mu := qset st.mu k l (m - qr)
    let mu := (List.range l).foldl (fun mu i => qset mu k i (qget mu k i - qr * qget mu l i)) mu
    { st with s := red st.s k l q, mu := mu, ops := Op.red k l q :: st.ops, maxAbs := big }
  else st

/-- `swap!(k)` -/
def swapQ (st : St) (k : Nat) : St :=
  let s := swap st.s k
  let rk := st.mu.getD k []
  let rk1 := st.mu.getD (k + 1) []
  let mu := (st.mu.set k rk1).set (k + 1) rk
  let tmpmu := qget mu k k
  let mu := qset mu k k 0
  let bk := vget st.b k
  let bk1 := vget st.b (k + 1)
  let tmpb := bk1 + tmpmu * tmpmu * bk
  let st := widen st tmpb
  let mk1k := tmpmu * bk / tmpb
  let mu := qset mu (k + 1) k mk1k
  let tmpbasis := st.bstar.getD k []
  let oldK1 := st.bstar.getD (k + 1) []
  let newK := List.zipWith (fun x y => x + tmpmu * y) oldK1 tmpbasis
  let newK1 := List.zipWith (fun x y => -mk1k * x + bk1 / tmpb * y) oldK1 tmpbasis
  let bstar := (st.bstar.set k newK).set (k + 1) newK1
  let nb1 := bk1 * bk / tmpb
  let st := widen st nb1
  let b := (st.b.set (k + 1) nb1).set k tmpb
  let mu := (List.range (st.kmax + 1 - (k + 2))).foldl (fun mu t =>
    let i := k + 2 + t
    let tt := qget mu i (k + 1)
    let v1 := qget mu i k - tmpmu * tt
    let mu := qset mu i (k + 1) v1
    qset mu i k (tt + mk1k * v1)) mu
  { st with s := s, mu := mu, b := b, bstar := bstar, ops := Op.swap k :: st.ops }

/-- step 2: incremental Gram–Schmidt when `k` exceeds `kmax` -/
def step2 (st : St) : St :=
  if st.kmax < st.k then
    let k := st.k
    let bk := toQ (st.s.B.getD k [])
    let (mu, bs) := (List.range k).foldl (fun (acc : QMat × List Rat) j =>
      let bsj := st.bstar.getD j []
      let m := inner bk bsj / vget st.b j
      (qset acc.1 k j m, List.zipWith (fun x y => x - y * m) acc.2 bsj)) (st.mu, bk)
    let nb := normSqr bs
    let st := { st with kmax := k, mu := mu, bstar := st.bstar.set k bs, b := st.b.set k nb }
    widen st nb
  else st

/-- main loop; one iteration = one pass through the inner `loop` of `lll.rs`. `none` = out of fuel. -/
def run : Nat → St → Option St
  | 0, _ => none
  | fuel + 1, st =>
    let k := st.k
    let st := redQ st k (k - 1)
    let m := qget st.mu k (k - 1)
    let bk := vget st.b k
    let bk1 := vget st.b (k - 1)
    -- `b[k] < (0.75 - mu²) * b[k-1]`, flagged when `b[k]/b[k-1] + mu²` is within the zone around 3/4
    let st := flag st (decide (bk1 ≤ 0) || decide ((bk / bk1 + m * m - 3 / 4).abs ≤ st.tol))
    if bk < (3 / 4 - m * m) * bk1 then
      let st := swapQ st (k - 1)
      run fuel { st with k := max 1 (k - 1) }
    else
      let st := (List.range (k - 1)).reverse.foldl (fun st l => redQ st k l) st
      let st := { st with k := k + 1 }
      if st.k ≥ st.n then some st else run fuel (step2 st)

structure Result where
  basis : IMat
  h : IMat
  ops : List Op        -- in execution order
  ambiguous : Bool
  maxAbs : Nat
deriving Repr

/-- `lll(basis)` over ℚ for an integer basis. `.error kind` mirrors the panics of `lll.rs` on degenerate
shapes (`basis[0]`, `bstar[1]` out of range), `.ok none` = out of fuel. -/
def lllRat (B0 : IMat) (fuel : Nat := 200000) : Except String (Option Result) :=
  let n := B0.length
  if n < 2 then .error "index" else
  let q0 : QMat := B0.map toQ
  let maxN := (q0.map normSqr).foldl max 0
  let st : St := {
    n := n, s := init B0, bstar := q0, b := (List.replicate n (0 : Rat)).set 0 (normSqr (q0.getD 0 [])),
    mu := List.replicate n (List.replicate n (0 : Rat)), k := 1, kmax := 0, ops := [],
    ambiguous := false, tol := tol0, maxNormSq := maxN,
    maxAbs := (B0.map (fun r => (r.map Int.natAbs).foldl max 0)).foldl max 0 }
  let st := widen st (vget st.b 0)
  .ok ((run fuel (step2 st)).map (fun st =>
    { basis := st.s.B, h := st.s.H, ops := st.ops.reverse, ambiguous := st.ambiguous, maxAbs := st.maxAbs }))

end NTV.LllOps
