/-! Prototype: model of src/inverse.rs (extgcd_division, inv, zmod) and its theorem. Core only. -/
namespace NTV

/-- `extgcd_division(a, b)`: BigInt `div_rem` is truncated division. -/
def extgcd (a b : Int) : Int × Int × Int :=
  if h : b = 0 then (a, 1, 0)
  else
    let q := Int.tdiv a b
    let r := Int.tmod a b
    let (g, x, y) := extgcd b r
    (g, y, x - q * y)
termination_by b.natAbs
decreasing_by
  simp only [Int.natAbs_tmod]
  exact Nat.mod_lt _ (by omega)

def zmod (x mo : Int) : Int :=
  let res := Int.tmod x mo
  if res < 0 then res + mo else res

def inv (a mo : Int) : Except Int Int :=
  let (g, x, _) := extgcd a mo
  if g.natAbs ≠ 1 then .error g.natAbs else .ok (zmod (x * g) mo)


end NTV
