import NTV.Model.PolyMod
/-! Model of src/poly_mod/hensel.rs (`hensel_lift`, `hensel_lift_multiple`, `lift_factorization`).
Deterministic. Import-free apart from `NTV.Model.*`. -/
namespace NTV.PolyMod
open NTV.PolyG

/-- `hensel_lift(p, q, c, a, b, u, v)` (Cohen 3.5.5): returns (a₁, b₁, q·r) with r = gcd(p, q) -/
def henselLift (p q : Int) (c a b u v : Poly) : Poly × Poly × Int :=
  let r : Int := Int.gcd p q
  let f := polyMod (polyDiv (sub c (mul a b)) q) r
  let t := (polyDivrem (mul v f) a r).1
  let a0 := sub (mul v f) (mul a t)
  let b0 := add (mul u f) (mul b t)
  let qr := q * r
  let a1 := polyMod (add a (polyMul a0 q)) qr
  let b1 := polyMod (add b (polyMul b0 q)) qr
  (a1, b1, qr)

/-- the `accumulated` vector: running products of the factors modulo q -/
def accumulate (q : Int) : Poly → List Poly → List Poly
  | _, [] => []
  | cur, f :: fs =>
    let cur := polyMod (mul cur f) q
    cur :: accumulate q cur fs

/-- the `for i in (1..n).rev()` loop: `accs` = accumulated[i-1] and `facs` = factors[i] for
i = n-1, …, 1; `res` collects the pushed b₁ (most recent first), the final product goes in front,
which is the reversed `result` of the Rust code -/
def liftLoop (p q : Int) : List Poly → List Poly → Poly → List Poly → M (List Poly)
  | a :: as, f :: fs, product, res => do
    let (u, v) ← polyCoprimeWitness a f p
    let (a1, b1, _) := henselLift p q product a f u v
    liftLoop p q as fs a1 (b1 :: res)
  | _, _, product, res => pure (product :: res)

/-- `hensel_lift_multiple(p, q, c, factors)` -/
def henselLiftMultiple (p q : Int) (c : Poly) (factors : List Poly) : M (List Poly × Int) :=
  let r : Int := Int.gcd p q
  if factors.isEmpty then pure ([], q * r)
  else do
    let accumulated := accumulate q [1] factors
    let res ← liftLoop p q accumulated.reverse.tail factors.reverse c []
    pure (res, q * r)

/-- the `for _ in 1..e` loop of `lift_factorization` -/
def liftSteps (p : Int) (c : Poly) (lc : Int) : Nat → Int → List Poly → M (List Poly)
  | 0, _, res => pure res
  | k + 1, cur, res => do
    let nextCur := cur * p
    let invlc := Int.fmod (egcdX lc nextCur) nextCur
    let divided := polyMod (polyMul c invlc) nextCur
    let (sub, _) ← henselLiftMultiple p cur divided res
    liftSteps p c lc k nextCur sub

/-- `lift_factorization(p, e, c, factors)`; `c.coef_at(c.deg())` is 0 for c = 0 -/
def liftFactorization (p : Int) (e : Nat) (c : Poly) (factors : List Poly) : M (List Poly) :=
  liftSteps p c (coefAt c (degU c)) (e - 1) p factors

end NTV.PolyMod
