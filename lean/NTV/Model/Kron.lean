/-! Prototype: model of number-theory-elementary/src/kronecker.rs (repaired sign handling), on unbounded
integers; two's-complement bit tests are expressed by floor-mod: `x & 1`, `x & 7`, `x & 2`. -/
namespace NTV.Kron

/-- `recip_table[(x & 7)]` -/
def table (x : Int) : Int :=
  match x % 8 with
  | 1 => 1 | 7 => 1 | 3 => -1 | 5 => -1 | _ => 0

/-- `while (x & 1) == 0 { v += 1; x /= 2 }` (x ≠ 0), returns (odd part, v mod 2 is what matters) -/
def removeTwos : Nat → Int → Nat → Int × Nat
  | 0, x, v => (x, v)
  | fuel + 1, x, v => if x % 2 = 0 ∧ x ≠ 0 then removeTwos fuel (x.tdiv 2) (v + 1) else (x, v)

/-- steps 3 and 4: `while a != 0 { ... }` with b odd and positive -/
def kronLoop : Nat → Int → Nat → Int → Int
  | 0, _, _, _ => 0
  | fuel + 1, a, b, k =>
    if a = 0 then (if b = 1 then k else 0)
    else
      let (a', v) := removeTwos a.natAbs a 0
      let k := if v % 2 = 1 then k * table b else k
      let k := if a' % 4 = 3 ∧ b % 4 = 3 then -k else k    -- (a & b & 2) != 0 for odd a, b
      let r := a'.natAbs
      kronLoop fuel ((b : Int).tmod r) r k

def kronecker (a b : Int) : Int :=
  if b = 0 then (if a = 1 ∨ a = -1 then 1 else 0)
  else if a % 2 = 0 ∧ b % 2 = 0 then 0
  else
    let (b', v) := removeTwos b.natAbs b 0
    let k : Int := if v % 2 = 1 then table a else 1
    let k := if b' < 0 ∧ a < 0 then -k else k
    kronLoop (a.natAbs + 2) a b'.natAbs k

end NTV.Kron
