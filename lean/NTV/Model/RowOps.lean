/-! Generic row operations on list-of-rows matrices (model side, import-free). -/
namespace NTV.RowOps
variable {R : Type} [Zero R] [Sub R] [Mul R] [Neg R]

def ent (a : List (List R)) (i j : Nat) : R := (a.getD i []).getD j 0
def rowSubMul (rj rk : List R) (q : R) : List R := List.zipWith (fun x y => x - y * q) rj rk
def subMulRow (a : List (List R)) (j k : Nat) (q : R) : List (List R) :=
  a.modify j (fun rj => rowSubMul rj (a.getD k []) q)
def negRow (a : List (List R)) (k : Nat) : List (List R) := a.modify k (fun r => r.map (fun x => -x))
def scaleRow (a : List (List R)) (k : Nat) (c : R) : List (List R) := a.modify k (fun r => r.map (fun x => x * c))
def swapRows (a : List (List R)) (i j : Nat) : List (List R) := (a.set i (a.getD j [])).set j (a.getD i [])
end NTV.RowOps
