import NTV.Model.PolyZ
import NTV.Proofs.C09
import NTV.Proofs.C10
/-! # C07 — factorisation over ℤ: what is proved so far.
Irreducibility of the returned factors and completeness of the product rest on Mignotte's bound, Hensel
uniqueness and Cantor–Zassenhaus; they are certified on every explored case by an independent oracle
(exact product, multiplicities, irreducibility certificates). The theorems below are the building blocks
the routine uses, proved for all inputs. -/
open Polynomial
namespace NTV.C07
open NTV.PolyG

/-- the content / primitive-part split the routine starts with: c·pp = a, pp primitive with positive
leading coefficient (so `c` is the signed content) -/
theorem content_split (a : List Int) (ha : a ≠ []) (hca : Canon a) :
    C (contPP a).1 * toPoly (contPP a).2 = toPoly a ∧
    (∀ d : Int, (∀ c ∈ (contPP a).2, d ∣ c) → d ∣ 1) ∧ 0 < lc (contPP a).2 ∧ Canon (contPP a).2 :=
  NTV.C09.contPP_full a ha hca

/-- every trial division of the recombination and of the multiplicity loop is decided exactly:
`div_exact` answers `some q` iff the candidate divides, and then a = q·b -/
theorem trial_division_exact (a b : List Int) (ha : a ≠ []) (hb : b ≠ []) (hca : Canon a) (hcb : Canon b) :
    (∃ q, divExact a b = some q) ↔ (∃ q' : List Int, toPoly a = toPoly q' * toPoly b) :=
  NTV.C09.divExact_iff a b ha hb hca hcb

theorem trial_division_sound (a b q : List Int) (h : divExact a b = some q) :
    b ≠ [] ∧ toPoly a = toPoly q * toPoly b ∧ Canon q := NTV.C09.divExact_sound_full a b q h

/-- the zero polynomial gives (0, []) and a non-zero constant c gives (c, []) -/
theorem zero_and_constants (c : Int) (hc : c ≠ 0) (s : NTV.Draw.Stream) :
    NTV.PolyZ.factorize [] s = .ok (0, []) ∧ NTV.PolyZ.factorize [c] s = .ok (c, []) := by
  constructor
  · simp [NTV.PolyZ.factorize, pure, Except.pure]
  · have hcont : (contPP [c]).1 = c := by
      simp only [contPP, List.isEmpty_cons, Bool.false_eq_true, ↓reduceIte, contentAbs, List.foldl_cons,
        List.foldl_nil, Int.gcd_zero_left, lc, List.getLastD_cons, List.getLastD_nil]
      by_cases h : c < 0
      · simp only [h, ↓reduceIte]; omega
      · simp only [h, ↓reduceIte]; omega
    simp [NTV.PolyZ.factorize, degU, pure, Except.pure, hcont]

end NTV.C07
