import NTV.Model.PolyZ
import NTV.Proofs.C09
import NTV.Proofs.C10
import NTV.Proofs.Lemmas.PolyZProofs4
import NTV.Proofs.Lemmas.ZassenhausMain
import NTV.Proofs.Lemmas.NoPanicZassenhaus
import NTV.Proofs.Lemmas.NoPanicZassenhaus2
import NTV.Proofs.Lemmas.ZassenhausAnyBound
/-! # C07 — factorisation over ℤ: what is proved so far.
Irreducibility of the returned factors and completeness of the product rest on Mignotte's bound, Hensel
uniqueness and Cantor–Zassenhaus; they are certified on every explored case by an independent oracle
(exact product, multiplicities, irreducibility certificates). The theorems below are the building blocks
the routine uses, proved for all inputs.
UPDATE: irreducibility, the exact product identity and completeness are now proved for every input and every
draw stream: see the last section (`factors_irreducible`, `product_identity`, `complete`,
`squarefree_factors_irreducible`, `mignotte_for_coeffBound`, `hensel_uniqueness`). -/
open Polynomial
namespace NTV.C07
open NTV.PolyG

/-- the content / primitive-part split the routine starts with: c·pp = a, pp primitive with positive
leading coefficient (so `c` is the signed content) -/
theorem content_split (a : List Int) (ha : a ≠ []) (hca : Canon a) :
    C (contPP a).1 * toPoly (contPP a).2 = toPoly a ∧
    (∀ d : Int, (∀ c ∈ (contPP a).2, d ∣ c) → d ∣ 1) ∧ 0 < lc (contPP a).2 ∧ Canon (contPP a).2 :=
  NTV.C09.contPP_full a ha hca

/-- every trial division of the recombination and of the multiplicity loop is decided exactly:
`div_exact` answers `some q` iff the candidate divides, and then a = q·b -/
theorem trial_division_exact (a b : List Int) (ha : a ≠ []) (hb : b ≠ []) (hca : Canon a) (hcb : Canon b) :
    (∃ q, divExact a b = some q) ↔ (∃ q' : List Int, toPoly a = toPoly q' * toPoly b) :=
  NTV.C09.divExact_iff a b ha hb hca hcb

theorem trial_division_sound (a b q : List Int) (h : divExact a b = some q) :
    b ≠ [] ∧ toPoly a = toPoly q * toPoly b ∧ Canon q := NTV.C09.divExact_sound_full a b q h

/-- the zero polynomial gives (0, []) and a non-zero constant c gives (c, []) -/
theorem zero_and_constants (c : Int) (hc : c ≠ 0) (s : NTV.Draw.Stream) :
    NTV.PolyZ.factorize [] s = .ok (0, []) ∧ NTV.PolyZ.factorize [c] s = .ok (c, []) := by
  constructor
  · simp [NTV.PolyZ.factorize, pure, Except.pure]
  · have hcont : (contPP [c]).1 = c := by
      simp only [contPP, List.isEmpty_cons, Bool.false_eq_true, ↓reduceIte, contentAbs, List.foldl_cons,
        List.foldl_nil, Int.gcd_zero_left, lc, List.getLastD_cons, List.getLastD_nil]
      by_cases h : c < 0
      · simp only [h, ↓reduceIte]; omega
      · simp only [h, ↓reduceIte]; omega
    simp [NTV.PolyZ.factorize, degU, pure, Except.pure, hcont]

/-! ## What the structure of `factorize` guarantees
for every input, every draw stream and whatever the modular stage (prime search, factorisation modulo p,
Hensel lifting) returned: only the exact trial divisions, the content split and the order of the loops
are used. Irreducibility of the returned factors (Mignotte bound, Hensel uniqueness, exhaustive
recombination) is *not* proved; theorems that need it take it as an explicit hypothesis.

`GcdExact a` is the exactness flag of the subresultant gcd of pp(a) and pp(a)' (the hypothesis of the C10
theorems; `factorize` discards the flag). Without it the value used as gcd is an arbitrary exact divisor
of pp(a), and the leading-coefficient sign of the last factor, `e ≥ 1`, distinctness and true
multiplicities are not determined by the structure alone.
UPDATE: `GcdExact a` is now proved for every non-zero canonical `a` (`gcdExact_holds`, from the fundamental
theorem of subresultants); the unconditional forms `factor_shape_exact`, `distinct`, `multiplicity_true`,
`product_identity_of_irreducible_partial` are at the end of the file. -/
open NTV.PolyZ

/-- **Product identity, unconditional form** (partial: the cofactor `r` left by the multiplicity loop is
not shown to be 1 — that needs the returned factors to be irreducible, see
`product_identity_irreducible_partial`; with a reducible factor f = p·q and a = p²·q the loop leaves
r = p). For every non-zero canonical `a` and every successful run:
`c · r · ∏ fᵢ^eᵢ = a` and `c · q · ∏ fᵢ = a` for some `r, q ∈ ℤ[X]` (the listed polynomials multiply to an
exact divisor of the primitive part: every accepted candidate passed an exact division and the last
cofactor is appended), and each `eᵢ` is maximal for the cofactor the loop had reached:
`fᵢ ∤ r · ∏_{j>i} fⱼ^eⱼ`. -/
theorem product_identity_partial (a : List Int) (s : NTV.Draw.Stream) (c : Int) (fs : List (List Int × Nat))
    (ha : a ≠ []) (hca : Canon a) (h : factorize a s = .ok (c, fs)) :
    ∃ r q : ℤ[X],
      C c * (r * (fs.map fun fe => toPoly fe.1 ^ fe.2).prod) = toPoly a ∧
      C c * (q * (fs.map fun fe => toPoly fe.1).prod) = toPoly a ∧
      ∀ l1 f e l2, fs = l1 ++ (f, e) :: l2 → ¬ toPoly f ∣ r * (l2.map fun fe => toPoly fe.1 ^ fe.2).prod := by
  obtain ⟨s1, _, _, _⟩ := NTV.PolyG.contPP_spec a ha hca
  have hl : a.length = 1 ∨ 2 ≤ a.length := by
    have := List.length_pos_of_ne_nil ha; omega
  rcases hl with hl | hl
  · obtain ⟨rfl, rfl, h1⟩ := factorize_const a s c fs hca hl h
    refine ⟨1, 1, by simpa [h1] using s1, by simpa [h1] using s1, ?_⟩
    intro l1 f e l2 hs; simp at hs
  · obtain ⟨g, sq, r, R⟩ := factorize_run a s c fs hca hl h
    obtain ⟨q, hq⟩ := R.sq_dvd
    refine ⟨toPoly r, q, ?_, ?_, R.hmax⟩
    · rw [R.hc, ← s1, R.hprod]; rfl
    · rw [R.hc, ← s1, hq, R.hprod_sq, List.map_map, mul_comm q]; rfl

/-- **Shape of the output** (unconditional part): `c` is the signed content — non-zero, with the sign of
the leading coefficient of `a`, of absolute value the content of `a` — and every returned `f` is
canonical, non-constant, primitive and divides `a`. (A constant factor ±1 would make the multiplicity
loop spin: the run is then not `.ok`.) -/
theorem factor_shape (a : List Int) (s : NTV.Draw.Stream) (c : Int) (fs : List (List Int × Nat))
    (ha : a ≠ []) (hca : Canon a) (h : factorize a s = .ok (c, fs)) :
    c ≠ 0 ∧ (0 < c ↔ 0 < lc a) ∧ (toPoly a).content = |c| ∧
    ∀ fe ∈ fs, Canon fe.1 ∧ 2 ≤ fe.1.length ∧ (toPoly fe.1).IsPrimitive ∧ toPoly fe.1 ∣ toPoly a := by
  obtain ⟨s1, _, _, _⟩ := NTV.PolyG.contPP_spec a ha hca
  obtain ⟨c1, c2, c3⟩ := content_facts ha hca
  have hl : a.length = 1 ∨ 2 ≤ a.length := by
    have := List.length_pos_of_ne_nil ha; omega
  rcases hl with hl | hl
  · obtain ⟨rfl, rfl, _⟩ := factorize_const a s c fs hca hl h
    exact ⟨c1, c2, c3, by simp⟩
  · obtain ⟨g, sq, r, R⟩ := factorize_run a s c fs hca hl h
    rw [R.hc]
    refine ⟨c1, c2, c3, ?_⟩
    rintro ⟨f, e⟩ hfe
    obtain ⟨h1, h2, h3, h4⟩ := R.factor_shape ha hca hfe
    exact ⟨h1, h2, h3, by rw [← s1]; exact Dvd.dvd.mul_left h4 _⟩

/-- **Shape of the output**, the part that depends on the gcd routine (partial: under the exactness flag
`GcdExact a` of the C10 theorems): every returned `f` has a positive leading coefficient and every
exponent is at least 1. -/
theorem factor_shape_exact_partial (a : List Int) (s : NTV.Draw.Stream) (c : Int) (fs : List (List Int × Nat))
    (ha : a ≠ []) (hca : Canon a) (hx : GcdExact a) (h : factorize a s = .ok (c, fs)) :
    ∀ fe ∈ fs, 0 < lc fe.1 ∧ 1 ≤ fe.2 := by
  have hl : a.length = 1 ∨ 2 ≤ a.length := by
    have := List.length_pos_of_ne_nil ha; omega
  rcases hl with hl | hl
  · obtain ⟨rfl, rfl, _⟩ := factorize_const a s c fs hca hl h
    simp
  · obtain ⟨g, sq, r, R⟩ := factorize_run a s c fs hca hl h
    obtain ⟨_, p2, _, _, _⟩ := pp_facts ha hca
    rintro ⟨f, e⟩ hfe
    refine ⟨(R.hfac _ hfe).2.2 (R.exact ha hca hl hx).2.1, ?_⟩
    exact R.book.exponent_pos (R.pairwise ha hca hl hx) p2 (mem_entries hfe) (R.factor_dvd hfe)

theorem isPrimitive_pow {p : ℤ[X]} (hp : p.IsPrimitive) : ∀ n : Nat, (p ^ n).IsPrimitive
  | 0 => by simp
  | n + 1 => by rw [pow_succ]; exact (isPrimitive_pow hp n).mul hp

/-- **True multiplicities**, given pairwise coprime factors (partial: coprimality — which follows from
irreducibility and distinctness, or from `GcdExact`, see `multiplicity_true_partial` — is a hypothesis):
`fᵢ^eᵢ ∣ a` and `fᵢ^(eᵢ+1) ∤ a` in ℤ[X], for exponents of any size. -/
theorem multiplicity_true_coprime_partial (a : List Int) (s : NTV.Draw.Stream) (c : Int)
    (fs : List (List Int × Nat)) (ha : a ≠ []) (hca : Canon a) (h : factorize a s = .ok (c, fs))
    (hcop : (fs.map fun fe => toPoly fe.1).Pairwise IsRelPrime) :
    ∀ fe ∈ fs, toPoly fe.1 ^ fe.2 ∣ toPoly a ∧ ¬ toPoly fe.1 ^ (fe.2 + 1) ∣ toPoly a := by
  have hl : a.length = 1 ∨ 2 ≤ a.length := by
    have := List.length_pos_of_ne_nil ha; omega
  rcases hl with hl | hl
  · obtain ⟨rfl, rfl, _⟩ := factorize_const a s c fs hca hl h
    simp
  · obtain ⟨g, sq, r, R⟩ := factorize_run a s c fs hca hl h
    obtain ⟨s1, _, _, _⟩ := NTV.PolyG.contPP_spec a ha hca
    obtain ⟨_, p2, _, _, p5⟩ := pp_facts ha hca
    have hcop' : ((entries fs).map Prod.fst).Pairwise IsRelPrime := by
      rw [map_fst_entries, List.map_map]; exact hcop
    rintro ⟨f, e⟩ hfe
    obtain ⟨m1, m2⟩ := R.book.true_multiplicity hcop' p2 (mem_entries hfe)
    refine ⟨by rw [← s1]; exact Dvd.dvd.mul_left m1 _, ?_⟩
    intro hd
    apply m2
    have hprim := isPrimitive_pow (R.factor_shape ha hca hfe).2.2.1 (e + 1)
    exact NTV.Res.dvd_of_divC hprim ⟨(contPP a).1, p5, by rw [s1]; exact hd⟩

/-- **Pairwise distinct, pairwise coprime** (partial: under the exactness flag `GcdExact a`): the
product of the returned polynomials is pp(a) / gcd(pp(a), pp(a)'), which is squarefree; hence they are
pairwise coprime in ℤ[X] and, being non-constant, pairwise distinct. -/
theorem distinct_partial (a : List Int) (s : NTV.Draw.Stream) (c : Int) (fs : List (List Int × Nat))
    (ha : a ≠ []) (hca : Canon a) (hx : GcdExact a) (h : factorize a s = .ok (c, fs)) :
    (fs.map Prod.fst).Nodup ∧ (fs.map fun fe => toPoly fe.1).Pairwise IsRelPrime ∧
    Squarefree (fs.map fun fe => toPoly fe.1).prod := by
  have hl : a.length = 1 ∨ 2 ≤ a.length := by
    have := List.length_pos_of_ne_nil ha; omega
  rcases hl with hl | hl
  · obtain ⟨rfl, rfl, _⟩ := factorize_const a s c fs hca hl h
    simp
  · obtain ⟨g, sq, r, R⟩ := factorize_run a s c fs hca hl h
    have hp := R.pairwise ha hca hl hx
    have hn := R.book.nodup hp
    rw [map_fst_entries] at hp hn
    refine ⟨hn.of_map _, by rw [List.map_map] at hp; exact hp, ?_⟩
    have := (R.exact ha hca hl hx).1
    rw [R.hprod_sq, List.map_map] at this
    exact this

/-- **True multiplicities** (partial: under the exactness flag `GcdExact a`; no irreducibility needed):
each returned exponent is the exact multiplicity of its factor in `a`. -/
theorem multiplicity_true_partial (a : List Int) (s : NTV.Draw.Stream) (c : Int)
    (fs : List (List Int × Nat)) (ha : a ≠ []) (hca : Canon a) (hx : GcdExact a)
    (h : factorize a s = .ok (c, fs)) :
    ∀ fe ∈ fs, toPoly fe.1 ^ fe.2 ∣ toPoly a ∧ ¬ toPoly fe.1 ^ (fe.2 + 1) ∣ toPoly a :=
  multiplicity_true_coprime_partial a s c fs ha hca h (distinct_partial a s c fs ha hca hx h).2.1

/-- **Product identity** (partial: irreducibility of the returned factors — out of scope here — and the
exactness flag are hypotheses). If every returned factor is irreducible then nothing is left over:
`c · ∏ fᵢ^eᵢ = a` exactly in ℤ[X]. (Every irreducible factor of pp(a) divides
pp(a)/gcd(pp(a), pp(a)') = ∏ fᵢ, hence is associated to some fᵢ, which the multiplicity loop divided out
completely.) -/
theorem product_identity_irreducible_partial (a : List Int) (s : NTV.Draw.Stream) (c : Int)
    (fs : List (List Int × Nat)) (ha : a ≠ []) (hca : Canon a) (hx : GcdExact a)
    (hirr : ∀ fe ∈ fs, Irreducible (toPoly fe.1)) (h : factorize a s = .ok (c, fs)) :
    C c * (fs.map fun fe => toPoly fe.1 ^ fe.2).prod = toPoly a := by
  obtain ⟨s1, _, _, _⟩ := NTV.PolyG.contPP_spec a ha hca
  have hl : a.length = 1 ∨ 2 ≤ a.length := by
    have := List.length_pos_of_ne_nil ha; omega
  rcases hl with hl | hl
  · obtain ⟨rfl, rfl, h1⟩ := factorize_const a s c fs hca hl h
    simpa [h1] using s1
  · obtain ⟨g, sq, r, R⟩ := factorize_run a s c fs hca hl h
    have h1 := R.cofactor_one ha hca hl hx hirr
    rw [R.hc, ← s1, R.hprod, h1, one_mul]; rfl

/-! ### non-vacuity: concrete runs satisfying the hypotheses -/

/-- a complete run of the model on 2·(x+1)²·(x²+x−1), consuming a draw stream: content 2, a double
factor, two factors (kernel-checked evaluation of the whole routine) -/
theorem run_example : factorize [-2, -2, 4, 6, 2] [[3, 0, 0, 0], [1, 0, 0, 0], [2, 0, 0, 0], [3, 0, 0, 0]]
    = .ok (2, [([1, 1], 2), ([-1, 1, 1], 1)]) := by decide +kernel

theorem canon_example : Canon ([-2, -2, 4, 6, 2] : List Int) := by intro h; simp

/-- the exactness flag holds on that input -/
theorem gcdExact_example : GcdExact [-2, -2, 4, 6, 2] := by
  intro g ok h
  have h1 : contPP [-2, -2, 4, 6, 2] = (2, [-1, -1, 2, 3, 1]) := by decide +kernel
  have h2 : NTV.Res.resultantSmartGcdE [-1, -1, 2, 3, 1] (differential [-1, -1, 2, 3, 1])
      = some (.ok ([1, 1], true)) := by decide +kernel
  rw [h1] at h
  simp only at h
  rw [h2] at h
  simp only [Option.some.injEq, Except.ok.injEq, Prod.mk.injEq] at h
  exact h.2.symm

example := product_identity_partial _ _ _ _ (by simp) canon_example run_example
example := factor_shape _ _ _ _ (by simp) canon_example run_example
example := factor_shape_exact_partial _ _ _ _ (by simp) canon_example gcdExact_example run_example
example := multiplicity_true_partial _ _ _ _ (by simp) canon_example gcdExact_example run_example
example := distinct_partial _ _ _ _ (by simp) canon_example gcdExact_example run_example
example := multiplicity_true_coprime_partial _ _ _ _ (by simp) canon_example run_example
  (distinct_partial _ _ _ _ (by simp) canon_example gcdExact_example run_example).2.1

/-- (x+1)²: here the returned factor is provably irreducible, so the full identity applies -/
theorem run_example₂ : factorize [1, 2, 1] [] = .ok (1, [([1, 1], 2)]) := by decide +kernel

theorem gcdExact_example₂ : GcdExact [1, 2, 1] := by
  intro g ok h
  have h1 : contPP [1, 2, 1] = (1, [1, 2, 1]) := by decide +kernel
  have h2 : NTV.Res.resultantSmartGcdE [1, 2, 1] (differential [1, 2, 1]) = some (.ok ([1, 1], true)) := by
    decide +kernel
  rw [h1] at h
  simp only at h
  rw [h2] at h
  simp only [Option.some.injEq, Except.ok.injEq, Prod.mk.injEq] at h
  exact h.2.symm

example : C (1 : ℤ) * ([([1, 1], 2)].map fun fe : List Int × Nat => toPoly fe.1 ^ fe.2).prod = toPoly [1, 2, 1] := by
  refine product_identity_irreducible_partial [1, 2, 1] [] 1 _ (by simp) (by intro h; simp) gcdExact_example₂ ?_
    run_example₂
  intro fe hfe
  simp only [List.mem_singleton] at hfe
  subst hfe
  have : toPoly ([1, 1] : List Int) = X - C (-1) := by simp [toPoly]; ring
  rw [this]
  exact irreducible_X_sub_C _

/-- why the leftover cofactor cannot be removed from `product_identity_partial` by the loop structure
alone: fed the reducible "factor" (x+1)(x+2), the multiplicity loop on (x+1)²(x+2) records exponent 1
and leaves x+1 behind. In `factorize` this is excluded only by the irreducibility of what the
recombination returns. -/
example : multiplicities [[2, 3, 1]] [2, 5, 4, 1] [] = .ok [([2, 3, 1], 1)] ∧
    multiplicity [2, 3, 1] 6 [2, 5, 4, 1] 0 = .ok ([1, 1], 1) := by decide +kernel

/-! ## Unconditional forms
The exactness flag is now a theorem (`NTV.C10.gcd_flag`, fundamental theorem of subresultants): the
hypothesis `GcdExact a` of the `_partial` theorems above is discharged for every non-zero canonical `a`. -/

/-- **the exactness flag always holds**: for every non-zero canonical `a` the subresultant gcd of pp(a) and
pp(a)' that `factorize` computes performs only exact divisions -/
theorem gcdExact_holds (a : List Int) (ha : a ≠ []) (hca : Canon a) : GcdExact a :=
  NTV.PolyZ.gcdExact_holds a ha hca

/-- **Shape of the output**, second part — FULL (no flag hypothesis): in every successful run on a non-zero
canonical `a`, every returned `f` has a positive leading coefficient and every exponent is at least 1. -/
theorem factor_shape_exact (a : List Int) (s : NTV.Draw.Stream) (c : Int) (fs : List (List Int × Nat))
    (ha : a ≠ []) (hca : Canon a) (h : factorize a s = .ok (c, fs)) :
    ∀ fe ∈ fs, 0 < lc fe.1 ∧ 1 ≤ fe.2 :=
  factor_shape_exact_partial a s c fs ha hca (gcdExact_holds a ha hca) h

/-- **Pairwise distinct, pairwise coprime** — FULL (no flag hypothesis): in every successful run on a
non-zero canonical `a` the returned polynomials are pairwise distinct, pairwise coprime in ℤ[X], and their
product (= pp(a) / gcd(pp(a), pp(a)')) is squarefree. -/
theorem distinct (a : List Int) (s : NTV.Draw.Stream) (c : Int) (fs : List (List Int × Nat))
    (ha : a ≠ []) (hca : Canon a) (h : factorize a s = .ok (c, fs)) :
    (fs.map Prod.fst).Nodup ∧ (fs.map fun fe => toPoly fe.1).Pairwise IsRelPrime ∧
    Squarefree (fs.map fun fe => toPoly fe.1).prod :=
  distinct_partial a s c fs ha hca (gcdExact_holds a ha hca) h

/-- **True multiplicities** — FULL (no flag hypothesis, no irreducibility needed): in every successful run
on a non-zero canonical `a` each returned exponent is the exact multiplicity of its factor in `a`:
`fᵢ^eᵢ ∣ a` and `fᵢ^(eᵢ+1) ∤ a` in ℤ[X]. -/
theorem multiplicity_true (a : List Int) (s : NTV.Draw.Stream) (c : Int)
    (fs : List (List Int × Nat)) (ha : a ≠ []) (hca : Canon a) (h : factorize a s = .ok (c, fs)) :
    ∀ fe ∈ fs, toPoly fe.1 ^ fe.2 ∣ toPoly a ∧ ¬ toPoly fe.1 ^ (fe.2 + 1) ∣ toPoly a :=
  multiplicity_true_partial a s c fs ha hca (gcdExact_holds a ha hca) h

/-- **Product identity** (partial: irreducibility of the returned factors — Mignotte bound, Hensel
uniqueness, exhaustive recombination; out of scope here — is the only remaining hypothesis; the exactness
flag is no longer one). If every returned factor is irreducible then nothing is left over:
`c · ∏ fᵢ^eᵢ = a` exactly in ℤ[X]. -/
theorem product_identity_of_irreducible_partial (a : List Int) (s : NTV.Draw.Stream) (c : Int)
    (fs : List (List Int × Nat)) (ha : a ≠ []) (hca : Canon a)
    (hirr : ∀ fe ∈ fs, Irreducible (toPoly fe.1)) (h : factorize a s = .ok (c, fs)) :
    C c * (fs.map fun fe => toPoly fe.1 ^ fe.2).prod = toPoly a :=
  product_identity_irreducible_partial a s c fs ha hca (gcdExact_holds a ha hca) hirr h

example := gcdExact_holds _ (by simp) canon_example
example := factor_shape_exact _ _ _ _ (by simp) canon_example run_example
example := distinct _ _ _ _ (by simp) canon_example run_example
example := multiplicity_true _ _ _ _ (by simp) canon_example run_example

example : C (1 : ℤ) * ([([1, 1], 2)].map fun fe : List Int × Nat => toPoly fe.1 ^ fe.2).prod = toPoly [1, 2, 1] := by
  refine product_identity_of_irreducible_partial [1, 2, 1] [] 1 _ (by simp) (by intro h; simp) ?_ run_example₂
  intro fe hfe
  simp only [List.mem_singleton] at hfe
  subst hfe
  have : toPoly ([1, 1] : List Int) = X - C (-1) := by simp [toPoly]; ring
  rw [this]
  exact irreducible_X_sub_C _

/-! ## Irreducibility, exact product, completeness (Berlekamp–Zassenhaus correctness)
Mignotte's bound (`mignotte_for_coeffBound`, from Mathlib's Mahler-measure inequalities), uniqueness of
Hensel lifts (`hensel_uniqueness`), the invariant of the recombination loop (`NTV.Zas.Inv`,
`NTV.PolyZ.combine_irreducible`) and the fact that the prime search cannot leave the `i32` range
(`NTV.PolyZ.primeSearch_top`: at most 100000 primes are tried and π(2³¹) ≥ 100000) give: every returned
factor is irreducible. With the earlier structural theorems the factorisation is then exact and complete.
All statements are for every input and every draw stream, about the runs that return `.ok`. -/

/-- **(Z1) Mignotte's bound for the bound the code computes.** For a canonical `a` of degree n ≥ 1 and every
factorisation `a = g·h·h'` in ℤ[X]: every coefficient `c` of `lc(h')·h` satisfies
`2·|c| < coeffBound a n = 2·|aₙ|·2^(n-1)·(|aₙ| + Σ|aᵢ|)`; hence it lies in the symmetric residue window
`[-⌊pᵉ/2⌋, pᵉ - ⌊pᵉ/2⌋)` of every modulus `pᵉ > bound` (`NTV.PolyZ.mignotte_symmetric_range`). -/
theorem mignotte_for_coeffBound (a : List Int) (ha : a ≠ []) (hca : Canon a) (hn : 2 ≤ a.length)
    (g h h' : ℤ[X]) (hfac : toPoly a = g * h * h') (j : ℕ) :
    2 * |(C h'.leadingCoeff * h).coeff j| < coeffBound a (degU a) :=
  NTV.PolyZ.mignotte_for_coeffBound a ha hca hn g h h' hfac j

example : 2 * |(C (X + 1 : ℤ[X]).leadingCoeff * (X - 1)).coeff 0| < coeffBound [-1, 0, 1] (degU [-1, 0, 1]) :=
  mignotte_for_coeffBound [-1, 0, 1] (by simp) (by intro h; simp) (by simp) 1 (X - 1) (X + 1)
    (by simp [toPoly]; ring) 0

/-- **(Z2) Hensel uniqueness.** Let P be prime, e ≥ 1, `a ∈ ℤ[X]` with P ∤ lc(a) and `a` squarefree modulo P,
and G₁..G_k monic, irreducible modulo P, with lc(a)·∏ Gᵢ ≡ a (mod Pᵉ). If `a = h·h'` in ℤ[X] then
`h ≡ lc(h)·∏ {Gᵢ | (Gᵢ mod P) ∣ (h mod P)}` and `h' ≡ lc(h')·∏ {the other Gᵢ}` modulo Pᵉ. -/
theorem hensel_uniqueness {P e : ℕ} {a : ℤ[X]} {L : List ℤ[X]} (hP : P.Prime) (he : 1 ≤ e)
    (hlc : ¬ (P : ℤ) ∣ a.leadingCoeff) (hsq : Squarefree (a.map (Int.castRingHom (ZMod P))))
    (hmon : ∀ G ∈ L, G.Monic) (hirr : ∀ G ∈ L, Irreducible (G.map (Int.castRingHom (ZMod P))))
    (hprod : NTV.Hensel.PCong ((P : ℤ) ^ e) (C a.leadingCoeff * L.prod) a) {h h' : ℤ[X]} (hfac : a = h * h') :
    (open Classical in
      NTV.Hensel.PCong ((P : ℤ) ^ e) (C h.leadingCoeff *
        (L.filter fun G => G.map (Int.castRingHom (ZMod P)) ∣ h.map (Int.castRingHom (ZMod P))).prod) h) ∧
    (open Classical in
      NTV.Hensel.PCong ((P : ℤ) ^ e) (C h'.leadingCoeff *
        (L.filter fun G => !decide (G.map (Int.castRingHom (ZMod P)) ∣ h.map (Int.castRingHom (ZMod P)))).prod) h') :=
  NTV.Zas.hensel_subset ⟨hP, he, hlc, hsq, hmon, hirr, hprod⟩ hfac

/-- **(Z2) uniqueness of the subset**: under the same hypotheses, if the lifted list is split as `L ~ T ++ T'`
and `h ≡ lc(h)·∏ T (mod Pᵉ)`, then T is exactly the set of lifted factors that divide `h` modulo P. -/
theorem hensel_uniqueness_subset {P e : ℕ} {a : ℤ[X]} {L T T' : List ℤ[X]} (hP : P.Prime) (he : 1 ≤ e)
    (hlc : ¬ (P : ℤ) ∣ a.leadingCoeff) (hsq : Squarefree (a.map (Int.castRingHom (ZMod P))))
    (hmon : ∀ G ∈ L, G.Monic) (hirr : ∀ G ∈ L, Irreducible (G.map (Int.castRingHom (ZMod P))))
    (hprod : NTV.Hensel.PCong ((P : ℤ) ^ e) (C a.leadingCoeff * L.prod) a) (hperm : L.Perm (T ++ T'))
    {h h' : ℤ[X]} (hfac : a = h * h') (hc : NTV.Hensel.PCong ((P : ℤ) ^ e) (C h.leadingCoeff * T.prod) h) :
    (∀ G ∈ T, G.map (Int.castRingHom (ZMod P)) ∣ h.map (Int.castRingHom (ZMod P))) ∧
    (∀ G ∈ T', ¬ G.map (Int.castRingHom (ZMod P)) ∣ h.map (Int.castRingHom (ZMod P))) :=
  NTV.Zas.Lifted.subset_unique ⟨hP, he, hlc, hsq, hmon, hirr, hprod⟩ hperm hfac hc

/-- x² − 1 = (x − 1)(x + 1) modulo 3², lifted factors x − 1 and x + 1: the hypotheses of `hensel_uniqueness`
and `hensel_uniqueness_subset` hold -/
theorem hensel_example_hyps :
    ¬ ((3 : ℕ) : ℤ) ∣ ((X - C 1) * (X - C (-1)) : ℤ[X]).leadingCoeff ∧
    Squarefree (((X - C 1) * (X - C (-1)) : ℤ[X]).map (Int.castRingHom (ZMod 3))) ∧
    (∀ G ∈ [(X - C 1 : ℤ[X]), X - C (-1)], G.Monic) ∧
    (∀ G ∈ [(X - C 1 : ℤ[X]), X - C (-1)], Irreducible (G.map (Int.castRingHom (ZMod 3)))) ∧
    NTV.Hensel.PCong (((3 : ℕ) : ℤ) ^ 2)
      (C ((X - C 1) * (X - C (-1)) : ℤ[X]).leadingCoeff * [(X - C 1 : ℤ[X]), X - C (-1)].prod)
      ((X - C 1) * (X - C (-1))) := by
  have e1 : ((X - C 1 : ℤ[X])).map (Int.castRingHom (ZMod 3)) = X - C 1 := by simp
  have e2 : ((X - C (-1) : ℤ[X])).map (Int.castRingHom (ZMod 3)) = X - C (-1) := by simp
  have hlcA : ((X - C 1) * (X - C (-1)) : ℤ[X]).leadingCoeff = 1 := by
    rw [leadingCoeff_mul, leadingCoeff_X_sub_C, leadingCoeff_X_sub_C, one_mul]
  refine ⟨by rw [hlcA]; norm_num, ?_, ?_, ?_, ?_⟩
  · rw [Polynomial.map_mul, e1, e2, squarefree_mul_iff]
    refine ⟨IsCoprime.isRelPrime (isCoprime_X_sub_C_of_isUnit_sub (show IsUnit ((1 : ZMod 3) - -1) by decide)),
      (irreducible_X_sub_C _).squarefree, (irreducible_X_sub_C _).squarefree⟩
  · intro G hG
    simp only [List.mem_cons, List.not_mem_nil, or_false] at hG
    rcases hG with rfl | rfl <;> exact monic_X_sub_C _
  · intro G hG
    simp only [List.mem_cons, List.not_mem_nil, or_false] at hG
    rcases hG with rfl | rfl
    · rw [e1]; exact irreducible_X_sub_C _
    · rw [e2]; exact irreducible_X_sub_C _
  · rw [hlcA]; simpa using NTV.Hensel.PCong.refl _ _

example := hensel_uniqueness (P := 3) (e := 2) (by norm_num) (by norm_num) hensel_example_hyps.1
  hensel_example_hyps.2.1 hensel_example_hyps.2.2.1 hensel_example_hyps.2.2.2.1 hensel_example_hyps.2.2.2.2
  (h := X - C 1) (h' := X - C (-1)) rfl

example := hensel_uniqueness_subset (P := 3) (e := 2) (T := [X - C 1]) (T' := [X - C (-1)]) (by norm_num)
  (by norm_num) hensel_example_hyps.1 hensel_example_hyps.2.1 hensel_example_hyps.2.2.1
  hensel_example_hyps.2.2.2.1 hensel_example_hyps.2.2.2.2 (by simp) (h := X - C 1) (h' := X - C (-1)) rfl
  (by rw [leadingCoeff_X_sub_C]; simpa using NTV.Hensel.PCong.refl _ _)

/-- **(Z4) The recombination returns irreducible polynomials.** For every canonical primitive `a` and every
draw stream: if `get_factors_of_squarefree(a)` returns, every returned polynomial is irreducible in ℤ[X] and
over ℚ, and they multiply exactly to `a`. (A run that returns forces deg a ≥ 1 and `a` squarefree.) -/
theorem squarefree_factors_irreducible (a : List Int) (s : NTV.Draw.Stream) (out : List (List Int))
    (hca : Canon a) (hprim : (toPoly a).IsPrimitive) (h : getFactorsOfSquarefree a s = .ok out) :
    (∀ f ∈ out, Irreducible (toPoly f) ∧ Irreducible ((toPoly f).map (Int.castRingHom ℚ))) ∧
    toPoly a = (out.map toPoly).prod := by
  obtain ⟨_, hprod, _⟩ := getFactorsOfSquarefree_spec a s out hca h
  refine ⟨fun f hf => ?_, hprod⟩
  have hi := NTV.PolyZ.squarefree_factors_irreducible a s out hca hprim h f hf
  have hfp : (toPoly f).IsPrimitive :=
    isPrimitive_of_dvd hprim (by rw [hprod]; exact List.dvd_prod (List.mem_map_of_mem hf))
  exact ⟨hi, (IsPrimitive.Int.irreducible_iff_irreducible_map_cast hfp).mp hi⟩

/-- x⁴ + 1 is irreducible although it splits modulo every prime: the recombination (here modulo 3⁴, two
quadratic factors) returns it whole -/
theorem run_example₃ : getFactorsOfSquarefree [1, 0, 0, 0, 1]
    [[0, 0, 0, 0], [239, 25, 253, 198], [222, 50, 250, 202], [205, 75, 247, 12], [188, 100, 244, 140],
      [171, 125, 241, 74]] = .ok [[1, 0, 0, 0, 1]] := by decide +kernel

example : Irreducible (toPoly ([1, 0, 0, 0, 1] : List Int)) := by
  have hprim : (toPoly ([1, 0, 0, 0, 1] : List Int)).IsPrimitive := by
    have : (toPoly ([1, 0, 0, 0, 1] : List Int)).Monic := (NTV.PolyMod.monic_toPoly _ (by decide)).1
    exact this.isPrimitive
  exact ((squarefree_factors_irreducible _ _ _ (by intro h; simp) hprim run_example₃).1 _ (by simp)).1

/-- the link between the two lists of a run: the factors handed to the multiplicity loop are the ones
returned by the recombination of a canonical primitive polynomial -/
theorem factorize_factors (a : List Int) (s : NTV.Draw.Stream) (c : Int) (fs : List (List Int × Nat))
    (ha : a ≠ []) (hca : Canon a) (hlen : 2 ≤ a.length) (h : factorize a s = .ok (c, fs)) :
    ∃ sq : List Int, Canon sq ∧ (toPoly sq).IsPrimitive ∧ getFactorsOfSquarefree sq s = .ok (fs.map Prod.fst) := by
  obtain ⟨_, g, sq, factors, _, hsq, hfac, hmul⟩ := factorize_inv a s c fs h hlen
  obtain ⟨_, _, _, hcpp⟩ := contPP_spec a ha hca
  obtain ⟨p1, _, _, _, _⟩ := pp_facts ha hca
  have hppne := NTV.Res.pp_ne_nil a ha hca
  have hsq' : Canon sq ∧ toPoly sq ∣ toPoly (contPP a).2 := by
    by_cases hdg : degU g ≠ 0
    · rw [if_pos hdg] at hsq
      simp only [divExactExpect] at hsq
      split at hsq
      · rename_i q hq
        simp only [pure, Except.pure, Except.ok.injEq] at hsq; subst hsq
        obtain ⟨_, h2, h3⟩ := divExact_sound _ _ _ hq
        exact ⟨h3, ⟨_, h2⟩⟩
      · simp [throw, throwThe, MonadExceptOf.throw] at hsq
    · rw [if_neg hdg] at hsq
      simp only [pure, Except.pure, Except.ok.injEq] at hsq; subst hsq
      exact ⟨hcpp, dvd_refl _⟩
  obtain ⟨new, r, hout, hmap, _⟩ := multiplicities_spec factors _ [] fs hppne hcpp hmul
  simp only [List.nil_append] at hout
  subst hout
  exact ⟨sq, hsq'.1, isPrimitive_of_dvd p1 hsq'.2, by rw [hmap]; exact hfac⟩

/-- **(Z5) C07, irreducibility.** For every non-zero canonical `a` and every draw stream: every polynomial
returned by `factorize` is irreducible in ℤ[X], and irreducible over ℚ. -/
theorem factors_irreducible (a : List Int) (s : NTV.Draw.Stream) (c : Int) (fs : List (List Int × Nat))
    (ha : a ≠ []) (hca : Canon a) (h : factorize a s = .ok (c, fs)) :
    ∀ fe ∈ fs, Irreducible (toPoly fe.1) ∧ Irreducible ((toPoly fe.1).map (Int.castRingHom ℚ)) := by
  have hl : a.length = 1 ∨ 2 ≤ a.length := by
    have := List.length_pos_of_ne_nil ha; omega
  rcases hl with hl | hl
  · obtain ⟨rfl, rfl, _⟩ := factorize_const a s c fs hca hl h
    simp
  · obtain ⟨sq, h1, h2, h3⟩ := factorize_factors a s c fs ha hca hl h
    intro fe hfe
    exact (squarefree_factors_irreducible sq s _ h1 h2 h3).1 fe.1 (List.mem_map_of_mem hfe)

/-- **C07, the product identity — FULL.** For every non-zero canonical `a` and every draw stream: if
`factorize(a)` returns `(c, [(f₁,e₁), …])` then `c · ∏ fᵢ^eᵢ = a` exactly in ℤ[X]. -/
theorem product_identity (a : List Int) (s : NTV.Draw.Stream) (c : Int) (fs : List (List Int × Nat))
    (ha : a ≠ []) (hca : Canon a) (h : factorize a s = .ok (c, fs)) :
    C c * (fs.map fun fe => toPoly fe.1 ^ fe.2).prod = toPoly a :=
  product_identity_of_irreducible_partial a s c fs ha hca
    (fun fe hfe => (factors_irreducible a s c fs ha hca h fe hfe).1) h

/-- **C07, completeness.** Every irreducible divisor of `a` of positive degree is associated to exactly one
returned factor. (The irreducible divisors of degree 0 are the primes dividing the content `c`.) -/
theorem complete (a : List Int) (s : NTV.Draw.Stream) (c : Int) (fs : List (List Int × Nat))
    (ha : a ≠ []) (hca : Canon a) (h : factorize a s = .ok (c, fs)) (π : ℤ[X]) (hπ : Irreducible π)
    (hd : π ∣ toPoly a) (hdeg : 0 < π.natDegree) :
    ∃ fe ∈ fs, Associated π (toPoly fe.1) ∧ ∀ fe' ∈ fs, Associated π (toPoly fe'.1) → fe' = fe := by
  have hirr := factors_irreducible a s c fs ha hca h
  have hprod := product_identity a s c fs ha hca h
  obtain ⟨hc0, _, _, _⟩ := factor_shape a s c fs ha hca h
  obtain ⟨_, hrel, _⟩ := distinct a s c fs ha hca h
  have hπp : Prime π := hπ.prime
  rw [← hprod] at hd
  rcases hπp.dvd_or_dvd hd with h1 | h1
  · exfalso
    have := natDegree_le_of_dvd h1 (by rw [Ne, C_eq_zero]; exact hc0)
    rw [natDegree_C] at this
    omega
  · obtain ⟨y, hy, hπy⟩ := hπp.dvd_prod_iff.mp h1
    obtain ⟨fe, hfe, rfl⟩ := List.mem_map.mp hy
    have hπf : π ∣ toPoly fe.1 := hπp.dvd_of_dvd_pow hπy
    have hassoc := hπ.associated_of_dvd (hirr fe hfe).1 hπf
    refine ⟨fe, hfe, hassoc, ?_⟩
    intro fe' hfe' hassoc'
    by_contra hne
    rw [List.pairwise_map] at hrel
    have : Std.Symm (fun x y : List Int × Nat => IsRelPrime (toPoly x.1) (toPoly y.1)) :=
      ⟨fun x y hxy => hxy.symm⟩
    have hr : IsRelPrime (toPoly fe'.1) (toPoly fe.1) := hrel.forall hfe' hfe hne
    have h12 : Associated (toPoly fe'.1) (toPoly fe.1) := hassoc'.symm.trans hassoc
    exact (hirr fe' hfe').1.not_isUnit (hr (dvd_refl _) h12.dvd)

example := factors_irreducible _ _ _ _ (by simp) canon_example run_example
example : C (2 : ℤ) * ([([1, 1], 2), ([-1, 1, 1], 1)].map fun fe : List Int × Nat => toPoly fe.1 ^ fe.2).prod
    = toPoly [-2, -2, 4, 6, 2] := product_identity _ _ _ _ (by simp) canon_example run_example
example := complete _ _ _ _ (by simp) canon_example run_example

end NTV.C07

/-! ## Panic-freedom: on a canonical input of degree ≤ 25 the only failures are inconclusive runs

The Rust code asserts `lifted.len() <= 25` (the subsets are enumerated with a machine-word bit mask): the
number of lifted factors is at most deg(squarefree part) ≤ deg a, so deg a ≤ 25 (`a.length ≤ 26`) is the
honest precondition; it cannot be weakened to 26 in general (∏_{i<26} (x − i) is squarefree modulo 29, the
first prime the search accepts, and splits there into 26 linear factors: by C08/C11 correctness 26 lifted
factors reach the assertion, which fires). -/
namespace NTV.C07
open NTV.PolyG NTV.PolyZ

/-- **C07 panic-freedom.** For every canonical `a` with deg a ≤ 25 (including 0 and the constants) and EVERY
draw stream: a run of `factorize` that does not return fails with `inconclusive stream` (the random chunks
for `factorize_mod_p` ran out) or `inconclusive fuel`. No Rust panic is possible: `resultant_gcd` performs
only exact divisions by non-zero numbers, both `div_exact(..).expect(..)` succeed (the gcd divides pp(a); by
Gauss' lemma the primitive part of an accepted candidate divides the current cofactor), the prime search
never computes `x % 0`, `factorize_mod_p` is called on legal input (C08 panic-freedom), its exponents are
all 1 (squarefree modulo p), `lift_factorization` is total, `lifted.len() ≤ 25`, and a subset product is
never the zero polynomial (no `prod.deg() + 1` overflow).

What remains behind `inconclusive fuel` (fuel exhaustion is a property of the model, not a panic) is exactly
the prime search over the first 100000 primes, see `fuel_only_prime_search` (it is genuinely exhaustible: all
of them may divide lc(a), e.g. a = (∏ first 100000 primes)·x + 1; the Rust loop would go on). -/
theorem no_panic (a : List Int) (s : NTV.Draw.Stream) (e : String) (hca : Canon a) (hdeg : a.length ≤ 26)
    (h : factorize a s = .error e) : e = "inconclusive stream" ∨ e = "inconclusive fuel" :=
  factorize_no_panic a s e hca hdeg h

/-- the same for `get_factors_of_squarefree` on a canonical primitive polynomial of degree 1..25 (squarefree
or not: on a non-squarefree input the prime search runs out of fuel) -/
theorem squarefree_stage_no_panic (a : List Int) (s : NTV.Draw.Stream) (e : String) (hca : Canon a)
    (hprim : (toPoly a).IsPrimitive) (hlen : 2 ≤ a.length) (hdeg : a.length ≤ 26)
    (h : getFactorsOfSquarefree a s = .error e) : e = "inconclusive stream" ∨ e = "inconclusive fuel" :=
  getFactorsOfSquarefree_no_panic a s e hca hprim hlen hdeg h

/-- **C07, termination.** On the same inputs `inconclusive fuel` has a single cause: the prime search of
`get_factors_of_squarefree` went through the first 100000 primes without finding one that does not divide the
leading coefficient of the squarefree part `sq` of pp(a) and modulo which `sq` stays squarefree. Every other
loop terminates within the fuel of the model: `powerAbove`, the recombination `combine` (each round removes
d ≥ 1 lifted factors or increments d), `multiplicity`, and all of `factorize_mod_p` (C08) and
`lift_factorization` (C11). `g` is the subresultant gcd of pp(a) and its derivative, `sq = pp(a) / g`. -/
theorem fuel_only_prime_search (a : List Int) (s : NTV.Draw.Stream) (e : String) (hca : Canon a)
    (hdeg : a.length ≤ 26) (h : factorize a s = .error e) :
    e = "inconclusive stream" ∨ (e = "inconclusive fuel" ∧ ∃ g sq : List Int,
      resultantGcd (contPP a).2 (differential (contPP a).2) = .ok g ∧
      (if degU g ≠ 0 then divExactExpect (contPP a).2 g else pure (contPP a).2) = .ok sq ∧
      primeSearch sq (degU sq) 100000 2 = .error "inconclusive fuel") :=
  factorize_fuel a s e hca hdeg h

/-- the same for `get_factors_of_squarefree` -/
theorem squarefree_stage_fuel (a : List Int) (s : NTV.Draw.Stream) (e : String) (hca : Canon a)
    (hprim : (toPoly a).IsPrimitive) (hlen : 2 ≤ a.length) (hdeg : a.length ≤ 26)
    (h : getFactorsOfSquarefree a s = .error e) :
    e = "inconclusive stream" ∨
      (e = "inconclusive fuel" ∧ primeSearch a (degU a) 100000 2 = .error "inconclusive fuel") :=
  getFactorsOfSquarefree_fuel a s e hca hprim hlen hdeg h

/-- a successful prime search excludes `inconclusive fuel` altogether -/
theorem squarefree_stage_stream_only (a : List Int) (s : NTV.Draw.Stream) (e : String) (hca : Canon a)
    (hprim : (toPoly a).IsPrimitive) (hlen : 2 ≤ a.length) (hdeg : a.length ≤ 26) (p : Int) (pu : Nat)
    (hps : primeSearch a (degU a) 100000 2 = .ok (p, pu))
    (h : getFactorsOfSquarefree a s = .error e) : e = "inconclusive stream" := by
  rcases squarefree_stage_fuel a s e hca hprim hlen hdeg h with h1 | ⟨_, h2⟩
  · exact h1
  · rw [hps] at h2; cases h2

/-- the recombination loop under its invariant: only the fuel can fail -/
theorem combine_no_panic {P e : ℕ} {pe pe2 : Int} {A : ℤ[X]} (S : Setup P e pe pe2 A) (hA : A.natDegree ≤ 25)
    (fuel : Nat) (a : List Int) (L : List (List Int)) (d : Nat) (result : List (List Int)) (err : String)
    (ha : a ≠ []) (hca : Canon a) (I : NTV.Zas.Inv P e A (toPoly a) (L.map toPoly) d)
    (h : combine pe pe2 fuel a L d result = .error err) : err = "inconclusive fuel" :=
  combine_error S hA fuel a L d result err ha hca I h

/-! non-vacuity: x² − 1 needs draws modulo 3, so the empty stream is inconclusive — with exactly this message;
the theorem applied to the input of `run_example` -/
example : factorize [-1, 0, 1] [] = .error "inconclusive stream" := by decide +kernel
example : ∀ s e, getFactorsOfSquarefree [1, 0, 0, 0, 1] s = .error e → e = "inconclusive stream" :=
  fun s e h => squarefree_stage_stream_only _ s e (by intro _; simp)
    (NTV.Res.isPrimitive_of_list _ (fun d hd => hd 1 (by simp))) (by simp) (by simp) 3 3 (by decide +kernel) h
example : ∀ s e, factorize [-2, -2, 4, 6, 2] s = .error e → e = "inconclusive stream" ∨ e = "inconclusive fuel" :=
  fun s e h => no_panic _ s e canon_example (by decide) h

/-! ### the modulus bound the RUNNING code chose (hook `poly_z::verif::take_bounds`, op `pz.bound`)

The correctness proof uses the bound in one place only: every coefficient of `lc(h')·h`, for a true factorisation
`a = g·h·h'`, must lie in the symmetric residue range of the modulus `pe > bound`. The check evaluates the executable
predicate `boundOk a B` (`2^deg a · ‖a‖₁ < B`) on the bound `B` the implementation reports; the first theorem says that
this is enough, the second that the bound of the unchanged code (= the model's `coeffBound`) always passes. -/

/-- any bound accepted by `boundOk` keeps every scaled true factor inside the symmetric range of a larger modulus -/
theorem accepted_bound_suffices (a : List Int) (ha : a ≠ []) (hca : Canon a) (hn : 2 ≤ a.length)
    (g h h' : Polynomial ℤ) (hfac : toPoly a = g * h * h') (j : ℕ) (B pe : ℤ)
    (hB : NTV.Spec.PolyZ.boundOk a B = true) (hpe : B < pe) :
    -(Int.tdiv pe 2) ≤ (Polynomial.C h'.leadingCoeff * h).coeff j ∧
      (Polynomial.C h'.leadingCoeff * h).coeff j < pe - Int.tdiv pe 2 :=
  mignotte_symmetric_range_boundOk a ha hca hn g h h' hfac j B pe hB hpe

/-- the bound of the unchanged code is accepted, for every non-constant canonical input -/
theorem model_bound_accepted (a : List Int) (ha : a ≠ []) (hca : Canon a) (hn : 2 ≤ a.length) :
    NTV.Spec.PolyZ.boundOk a (coeffBound a (degU a)) = true :=
  coeffBound_boundOk a ha hca hn

example : NTV.Spec.PolyZ.boundOk [-1, 0, 1] (coeffBound [-1, 0, 1] 2) = true := by decide
example : NTV.Spec.PolyZ.boundOk [-1, 0, 1] 8 = false := by decide

end NTV.C07
