import NTV.Model.PolyZ
import NTV.Proofs.C09
import NTV.Proofs.C10
import NTV.Proofs.Lemmas.PolyZProofs4
/-! # C07 — factorisation over ℤ: what is proved so far.
Irreducibility of the returned factors and completeness of the product rest on Mignotte's bound, Hensel
uniqueness and Cantor–Zassenhaus; they are certified on every explored case by an independent oracle
(exact product, multiplicities, irreducibility certificates). The theorems below are the building blocks
the routine uses, proved for all inputs. -/
open Polynomial
namespace NTV.C07
open NTV.PolyG

/-- the content / primitive-part split the routine starts with: c·pp = a, pp primitive with positive
leading coefficient (so `c` is the signed content) -/
theorem content_split (a : List Int) (ha : a ≠ []) (hca : Canon a) :
    C (contPP a).1 * toPoly (contPP a).2 = toPoly a ∧
    (∀ d : Int, (∀ c ∈ (contPP a).2, d ∣ c) → d ∣ 1) ∧ 0 < lc (contPP a).2 ∧ Canon (contPP a).2 :=
  NTV.C09.contPP_full a ha hca

/-- every trial division of the recombination and of the multiplicity loop is decided exactly:
`div_exact` answers `some q` iff the candidate divides, and then a = q·b -/
theorem trial_division_exact (a b : List Int) (ha : a ≠ []) (hb : b ≠ []) (hca : Canon a) (hcb : Canon b) :
    (∃ q, divExact a b = some q) ↔ (∃ q' : List Int, toPoly a = toPoly q' * toPoly b) :=
  NTV.C09.divExact_iff a b ha hb hca hcb

theorem trial_division_sound (a b q : List Int) (h : divExact a b = some q) :
    b ≠ [] ∧ toPoly a = toPoly q * toPoly b ∧ Canon q := NTV.C09.divExact_sound_full a b q h

/-- the zero polynomial gives (0, []) and a non-zero constant c gives (c, []) -/
theorem zero_and_constants (c : Int) (hc : c ≠ 0) (s : NTV.Draw.Stream) :
    NTV.PolyZ.factorize [] s = .ok (0, []) ∧ NTV.PolyZ.factorize [c] s = .ok (c, []) := by
  constructor
  · simp [NTV.PolyZ.factorize, pure, Except.pure]
  · have hcont : (contPP [c]).1 = c := by
      simp only [contPP, List.isEmpty_cons, Bool.false_eq_true, ↓reduceIte, contentAbs, List.foldl_cons,
        List.foldl_nil, Int.gcd_zero_left, lc, List.getLastD_cons, List.getLastD_nil]
      by_cases h : c < 0
      · simp only [h, ↓reduceIte]; omega
      · simp only [h, ↓reduceIte]; omega
    simp [NTV.PolyZ.factorize, degU, pure, Except.pure, hcont]

/-! ## What the structure of `factorize` guarantees
for every input, every draw stream and whatever the modular stage (prime search, factorisation modulo p,
Hensel lifting) returned: only the exact trial divisions, the content split and the order of the loops
are used. Irreducibility of the returned factors (Mignotte bound, Hensel uniqueness, exhaustive
recombination) is *not* proved; theorems that need it take it as an explicit hypothesis.

`GcdExact a` is the exactness flag of the subresultant gcd of pp(a) and pp(a)' (the hypothesis of the C10
theorems; `factorize` discards the flag). Without it the value used as gcd is an arbitrary exact divisor
of pp(a), and the leading-coefficient sign of the last factor, `e ≥ 1`, distinctness and true
multiplicities are not determined by the structure alone.
UPDATE: `GcdExact a` is now proved for every non-zero canonical `a` (`gcdExact_holds`, from the fundamental
theorem of subresultants); the unconditional forms `factor_shape_exact`, `distinct`, `multiplicity_true`,
`product_identity_of_irreducible_partial` are at the end of the file. -/
open NTV.PolyZ

/-- **Product identity, unconditional form** (partial: the cofactor `r` left by the multiplicity loop is
not shown to be 1 — that needs the returned factors to be irreducible, see
`product_identity_irreducible_partial`; with a reducible factor f = p·q and a = p²·q the loop leaves
r = p). For every non-zero canonical `a` and every successful run:
`c · r · ∏ fᵢ^eᵢ = a` and `c · q · ∏ fᵢ = a` for some `r, q ∈ ℤ[X]` (the listed polynomials multiply to an
exact divisor of the primitive part: every accepted candidate passed an exact division and the last
cofactor is appended), and each `eᵢ` is maximal for the cofactor the loop had reached:
`fᵢ ∤ r · ∏_{j>i} fⱼ^eⱼ`. -/
theorem product_identity_partial (a : List Int) (s : NTV.Draw.Stream) (c : Int) (fs : List (List Int × Nat))
    (ha : a ≠ []) (hca : Canon a) (h : factorize a s = .ok (c, fs)) :
    ∃ r q : ℤ[X],
      C c * (r * (fs.map fun fe => toPoly fe.1 ^ fe.2).prod) = toPoly a ∧
      C c * (q * (fs.map fun fe => toPoly fe.1).prod) = toPoly a ∧
      ∀ l1 f e l2, fs = l1 ++ (f, e) :: l2 → ¬ toPoly f ∣ r * (l2.map fun fe => toPoly fe.1 ^ fe.2).prod := by
  obtain ⟨s1, _, _, _⟩ := NTV.PolyG.contPP_spec a ha hca
  have hl : a.length = 1 ∨ 2 ≤ a.length := by
    have := List.length_pos_of_ne_nil ha; omega
  rcases hl with hl | hl
  · obtain ⟨rfl, rfl, h1⟩ := factorize_const a s c fs hca hl h
    refine ⟨1, 1, by simpa [h1] using s1, by simpa [h1] using s1, ?_⟩
    intro l1 f e l2 hs; simp at hs
  · obtain ⟨g, sq, r, R⟩ := factorize_run a s c fs hca hl h
    obtain ⟨q, hq⟩ := R.sq_dvd
    refine ⟨toPoly r, q, ?_, ?_, R.hmax⟩
    · rw [R.hc, ← s1, R.hprod]; rfl
    · rw [R.hc, ← s1, hq, R.hprod_sq, List.map_map, mul_comm q]; rfl

/-- **Shape of the output** (unconditional part): `c` is the signed content — non-zero, with the sign of
the leading coefficient of `a`, of absolute value the content of `a` — and every returned `f` is
canonical, non-constant, primitive and divides `a`. (A constant factor ±1 would make the multiplicity
loop spin: the run is then not `.ok`.) -/
theorem factor_shape (a : List Int) (s : NTV.Draw.Stream) (c : Int) (fs : List (List Int × Nat))
    (ha : a ≠ []) (hca : Canon a) (h : factorize a s = .ok (c, fs)) :
    c ≠ 0 ∧ (0 < c ↔ 0 < lc a) ∧ (toPoly a).content = |c| ∧
    ∀ fe ∈ fs, Canon fe.1 ∧ 2 ≤ fe.1.length ∧ (toPoly fe.1).IsPrimitive ∧ toPoly fe.1 ∣ toPoly a := by
  obtain ⟨s1, _, _, _⟩ := NTV.PolyG.contPP_spec a ha hca
  obtain ⟨c1, c2, c3⟩ := content_facts ha hca
  have hl : a.length = 1 ∨ 2 ≤ a.length := by
    have := List.length_pos_of_ne_nil ha; omega
  rcases hl with hl | hl
  · obtain ⟨rfl, rfl, _⟩ := factorize_const a s c fs hca hl h
    exact ⟨c1, c2, c3, by simp⟩
  · obtain ⟨g, sq, r, R⟩ := factorize_run a s c fs hca hl h
    rw [R.hc]
    refine ⟨c1, c2, c3, ?_⟩
    rintro ⟨f, e⟩ hfe
    obtain ⟨h1, h2, h3, h4⟩ := R.factor_shape ha hca hfe
    exact ⟨h1, h2, h3, by rw [← s1]; exact Dvd.dvd.mul_left h4 _⟩

/-- **Shape of the output**, the part that depends on the gcd routine (partial: under the exactness flag
`GcdExact a` of the C10 theorems): every returned `f` has a positive leading coefficient and every
exponent is at least 1. -/
theorem factor_shape_exact_partial (a : List Int) (s : NTV.Draw.Stream) (c : Int) (fs : List (List Int × Nat))
    (ha : a ≠ []) (hca : Canon a) (hx : GcdExact a) (h : factorize a s = .ok (c, fs)) :
    ∀ fe ∈ fs, 0 < lc fe.1 ∧ 1 ≤ fe.2 := by
  have hl : a.length = 1 ∨ 2 ≤ a.length := by
    have := List.length_pos_of_ne_nil ha; omega
  rcases hl with hl | hl
  · obtain ⟨rfl, rfl, _⟩ := factorize_const a s c fs hca hl h
    simp
  · obtain ⟨g, sq, r, R⟩ := factorize_run a s c fs hca hl h
    obtain ⟨_, p2, _, _, _⟩ := pp_facts ha hca
    rintro ⟨f, e⟩ hfe
    refine ⟨(R.hfac _ hfe).2.2 (R.exact ha hca hl hx).2.1, ?_⟩
    exact R.book.exponent_pos (R.pairwise ha hca hl hx) p2 (mem_entries hfe) (R.factor_dvd hfe)

theorem isPrimitive_pow {p : ℤ[X]} (hp : p.IsPrimitive) : ∀ n : Nat, (p ^ n).IsPrimitive
  | 0 => by simp
  | n + 1 => by rw [pow_succ]; exact (isPrimitive_pow hp n).mul hp

/-- **True multiplicities**, given pairwise coprime factors (partial: coprimality — which follows from
irreducibility and distinctness, or from `GcdExact`, see `multiplicity_true_partial` — is a hypothesis):
`fᵢ^eᵢ ∣ a` and `fᵢ^(eᵢ+1) ∤ a` in ℤ[X], for exponents of any size. -/
theorem multiplicity_true_coprime_partial (a : List Int) (s : NTV.Draw.Stream) (c : Int)
    (fs : List (List Int × Nat)) (ha : a ≠ []) (hca : Canon a) (h : factorize a s = .ok (c, fs))
    (hcop : (fs.map fun fe => toPoly fe.1).Pairwise IsRelPrime) :
    ∀ fe ∈ fs, toPoly fe.1 ^ fe.2 ∣ toPoly a ∧ ¬ toPoly fe.1 ^ (fe.2 + 1) ∣ toPoly a := by
  have hl : a.length = 1 ∨ 2 ≤ a.length := by
    have := List.length_pos_of_ne_nil ha; omega
  rcases hl with hl | hl
  · obtain ⟨rfl, rfl, _⟩ := factorize_const a s c fs hca hl h
    simp
  · obtain ⟨g, sq, r, R⟩ := factorize_run a s c fs hca hl h
    obtain ⟨s1, _, _, _⟩ := NTV.PolyG.contPP_spec a ha hca
    obtain ⟨_, p2, _, _, p5⟩ := pp_facts ha hca
    have hcop' : ((entries fs).map Prod.fst).Pairwise IsRelPrime := by
      rw [map_fst_entries, List.map_map]; exact hcop
    rintro ⟨f, e⟩ hfe
    obtain ⟨m1, m2⟩ := R.book.true_multiplicity hcop' p2 (mem_entries hfe)
    refine ⟨by rw [← s1]; exact Dvd.dvd.mul_left m1 _, ?_⟩
    intro hd
    apply m2
    have hprim := isPrimitive_pow (R.factor_shape ha hca hfe).2.2.1 (e + 1)
    exact NTV.Res.dvd_of_divC hprim ⟨(contPP a).1, p5, by rw [s1]; exact hd⟩

/-- **Pairwise distinct, pairwise coprime** (partial: under the exactness flag `GcdExact a`): the
product of the returned polynomials is pp(a) / gcd(pp(a), pp(a)'), which is squarefree; hence they are
pairwise coprime in ℤ[X] and, being non-constant, pairwise distinct. -/
theorem distinct_partial (a : List Int) (s : NTV.Draw.Stream) (c : Int) (fs : List (List Int × Nat))
    (ha : a ≠ []) (hca : Canon a) (hx : GcdExact a) (h : factorize a s = .ok (c, fs)) :
    (fs.map Prod.fst).Nodup ∧ (fs.map fun fe => toPoly fe.1).Pairwise IsRelPrime ∧
    Squarefree (fs.map fun fe => toPoly fe.1).prod := by
  have hl : a.length = 1 ∨ 2 ≤ a.length := by
    have := List.length_pos_of_ne_nil ha; omega
  rcases hl with hl | hl
  · obtain ⟨rfl, rfl, _⟩ := factorize_const a s c fs hca hl h
    simp
  · obtain ⟨g, sq, r, R⟩ := factorize_run a s c fs hca hl h
    have hp := R.pairwise ha hca hl hx
    have hn := R.book.nodup hp
    rw [map_fst_entries] at hp hn
    refine ⟨hn.of_map _, by rw [List.map_map] at hp; exact hp, ?_⟩
    have := (R.exact ha hca hl hx).1
    rw [R.hprod_sq, List.map_map] at this
    exact this

/-- **True multiplicities** (partial: under the exactness flag `GcdExact a`; no irreducibility needed):
each returned exponent is the exact multiplicity of its factor in `a`. -/
theorem multiplicity_true_partial (a : List Int) (s : NTV.Draw.Stream) (c : Int)
    (fs : List (List Int × Nat)) (ha : a ≠ []) (hca : Canon a) (hx : GcdExact a)
    (h : factorize a s = .ok (c, fs)) :
    ∀ fe ∈ fs, toPoly fe.1 ^ fe.2 ∣ toPoly a ∧ ¬ toPoly fe.1 ^ (fe.2 + 1) ∣ toPoly a :=
  multiplicity_true_coprime_partial a s c fs ha hca h (distinct_partial a s c fs ha hca hx h).2.1

/-- **Product identity** (partial: irreducibility of the returned factors — out of scope here — and the
exactness flag are hypotheses). If every returned factor is irreducible then nothing is left over:
`c · ∏ fᵢ^eᵢ = a` exactly in ℤ[X]. (Every irreducible factor of pp(a) divides
pp(a)/gcd(pp(a), pp(a)') = ∏ fᵢ, hence is associated to some fᵢ, which the multiplicity loop divided out
completely.) -/
theorem product_identity_irreducible_partial (a : List Int) (s : NTV.Draw.Stream) (c : Int)
    (fs : List (List Int × Nat)) (ha : a ≠ []) (hca : Canon a) (hx : GcdExact a)
    (hirr : ∀ fe ∈ fs, Irreducible (toPoly fe.1)) (h : factorize a s = .ok (c, fs)) :
    C c * (fs.map fun fe => toPoly fe.1 ^ fe.2).prod = toPoly a := by
  obtain ⟨s1, _, _, _⟩ := NTV.PolyG.contPP_spec a ha hca
  have hl : a.length = 1 ∨ 2 ≤ a.length := by
    have := List.length_pos_of_ne_nil ha; omega
  rcases hl with hl | hl
  · obtain ⟨rfl, rfl, h1⟩ := factorize_const a s c fs hca hl h
    simpa [h1] using s1
  · obtain ⟨g, sq, r, R⟩ := factorize_run a s c fs hca hl h
    have h1 := R.cofactor_one ha hca hl hx hirr
    rw [R.hc, ← s1, R.hprod, h1, one_mul]; rfl

/-! ### non-vacuity: concrete runs satisfying the hypotheses -/

/-- a complete run of the model on 2·(x+1)²·(x²+x−1), consuming a draw stream: content 2, a double
factor, two factors (kernel-checked evaluation of the whole routine) -/
theorem run_example : factorize [-2, -2, 4, 6, 2] [[3, 0, 0, 0], [1, 0, 0, 0], [2, 0, 0, 0], [3, 0, 0, 0]]
    = .ok (2, [([1, 1], 2), ([-1, 1, 1], 1)]) := by decide +kernel

theorem canon_example : Canon ([-2, -2, 4, 6, 2] : List Int) := by intro h; simp

/-- the exactness flag holds on that input -/
theorem gcdExact_example : GcdExact [-2, -2, 4, 6, 2] := by
  intro g ok h
  have h1 : contPP [-2, -2, 4, 6, 2] = (2, [-1, -1, 2, 3, 1]) := by decide +kernel
  have h2 : NTV.Res.resultantSmartGcdE [-1, -1, 2, 3, 1] (differential [-1, -1, 2, 3, 1])
      = some (.ok ([1, 1], true)) := by decide +kernel
  rw [h1] at h
  simp only at h
  rw [h2] at h
  simp only [Option.some.injEq, Except.ok.injEq, Prod.mk.injEq] at h
  exact h.2.symm

example := product_identity_partial _ _ _ _ (by simp) canon_example run_example
example := factor_shape _ _ _ _ (by simp) canon_example run_example
example := factor_shape_exact_partial _ _ _ _ (by simp) canon_example gcdExact_example run_example
example := multiplicity_true_partial _ _ _ _ (by simp) canon_example gcdExact_example run_example
example := distinct_partial _ _ _ _ (by simp) canon_example gcdExact_example run_example
example := multiplicity_true_coprime_partial _ _ _ _ (by simp) canon_example run_example
  (distinct_partial _ _ _ _ (by simp) canon_example gcdExact_example run_example).2.1

/-- (x+1)²: here the returned factor is provably irreducible, so the full identity applies -/
theorem run_example₂ : factorize [1, 2, 1] [] = .ok (1, [([1, 1], 2)]) := by decide +kernel

theorem gcdExact_example₂ : GcdExact [1, 2, 1] := by
  intro g ok h
  have h1 : contPP [1, 2, 1] = (1, [1, 2, 1]) := by decide +kernel
  have h2 : NTV.Res.resultantSmartGcdE [1, 2, 1] (differential [1, 2, 1]) = some (.ok ([1, 1], true)) := by
    decide +kernel
  rw [h1] at h
  simp only at h
  rw [h2] at h
  simp only [Option.some.injEq, Except.ok.injEq, Prod.mk.injEq] at h
  exact h.2.symm

example : C (1 : ℤ) * ([([1, 1], 2)].map fun fe : List Int × Nat => toPoly fe.1 ^ fe.2).prod = toPoly [1, 2, 1] := by
  refine product_identity_irreducible_partial [1, 2, 1] [] 1 _ (by simp) (by intro h; simp) gcdExact_example₂ ?_
    run_example₂
  intro fe hfe
  simp only [List.mem_singleton] at hfe
  subst hfe
  have : toPoly ([1, 1] : List Int) = X - C (-1) := by simp [toPoly]; ring
  rw [this]
  exact irreducible_X_sub_C _

/-- why the leftover cofactor cannot be removed from `product_identity_partial` by the loop structure
alone: fed the reducible "factor" (x+1)(x+2), the multiplicity loop on (x+1)²(x+2) records exponent 1
and leaves x+1 behind. In `factorize` this is excluded only by the irreducibility of what the
recombination returns. -/
example : multiplicities [[2, 3, 1]] [2, 5, 4, 1] [] = .ok [([2, 3, 1], 1)] ∧
    multiplicity [2, 3, 1] 6 [2, 5, 4, 1] 0 = .ok ([1, 1], 1) := by decide +kernel

/-! ## Unconditional forms
The exactness flag is now a theorem (`NTV.C10.gcd_flag`, fundamental theorem of subresultants): the
hypothesis `GcdExact a` of the `_partial` theorems above is discharged for every non-zero canonical `a`. -/

/-- **the exactness flag always holds**: for every non-zero canonical `a` the subresultant gcd of pp(a) and
pp(a)' that `factorize` computes performs only exact divisions -/
theorem gcdExact_holds (a : List Int) (ha : a ≠ []) (hca : Canon a) : GcdExact a :=
  NTV.PolyZ.gcdExact_holds a ha hca

/-- **Shape of the output**, second part — FULL (no flag hypothesis): in every successful run on a non-zero
canonical `a`, every returned `f` has a positive leading coefficient and every exponent is at least 1. -/
theorem factor_shape_exact (a : List Int) (s : NTV.Draw.Stream) (c : Int) (fs : List (List Int × Nat))
    (ha : a ≠ []) (hca : Canon a) (h : factorize a s = .ok (c, fs)) :
    ∀ fe ∈ fs, 0 < lc fe.1 ∧ 1 ≤ fe.2 :=
  factor_shape_exact_partial a s c fs ha hca (gcdExact_holds a ha hca) h

/-- **Pairwise distinct, pairwise coprime** — FULL (no flag hypothesis): in every successful run on a
non-zero canonical `a` the returned polynomials are pairwise distinct, pairwise coprime in ℤ[X], and their
product (= pp(a) / gcd(pp(a), pp(a)')) is squarefree. -/
theorem distinct (a : List Int) (s : NTV.Draw.Stream) (c : Int) (fs : List (List Int × Nat))
    (ha : a ≠ []) (hca : Canon a) (h : factorize a s = .ok (c, fs)) :
    (fs.map Prod.fst).Nodup ∧ (fs.map fun fe => toPoly fe.1).Pairwise IsRelPrime ∧
    Squarefree (fs.map fun fe => toPoly fe.1).prod :=
  distinct_partial a s c fs ha hca (gcdExact_holds a ha hca) h

/-- **True multiplicities** — FULL (no flag hypothesis, no irreducibility needed): in every successful run
on a non-zero canonical `a` each returned exponent is the exact multiplicity of its factor in `a`:
`fᵢ^eᵢ ∣ a` and `fᵢ^(eᵢ+1) ∤ a` in ℤ[X]. -/
theorem multiplicity_true (a : List Int) (s : NTV.Draw.Stream) (c : Int)
    (fs : List (List Int × Nat)) (ha : a ≠ []) (hca : Canon a) (h : factorize a s = .ok (c, fs)) :
    ∀ fe ∈ fs, toPoly fe.1 ^ fe.2 ∣ toPoly a ∧ ¬ toPoly fe.1 ^ (fe.2 + 1) ∣ toPoly a :=
  multiplicity_true_partial a s c fs ha hca (gcdExact_holds a ha hca) h

/-- **Product identity** (partial: irreducibility of the returned factors — Mignotte bound, Hensel
uniqueness, exhaustive recombination; out of scope here — is the only remaining hypothesis; the exactness
flag is no longer one). If every returned factor is irreducible then nothing is left over:
`c · ∏ fᵢ^eᵢ = a` exactly in ℤ[X]. -/
theorem product_identity_of_irreducible_partial (a : List Int) (s : NTV.Draw.Stream) (c : Int)
    (fs : List (List Int × Nat)) (ha : a ≠ []) (hca : Canon a)
    (hirr : ∀ fe ∈ fs, Irreducible (toPoly fe.1)) (h : factorize a s = .ok (c, fs)) :
    C c * (fs.map fun fe => toPoly fe.1 ^ fe.2).prod = toPoly a :=
  product_identity_irreducible_partial a s c fs ha hca (gcdExact_holds a ha hca) hirr h

example := gcdExact_holds _ (by simp) canon_example
example := factor_shape_exact _ _ _ _ (by simp) canon_example run_example
example := distinct _ _ _ _ (by simp) canon_example run_example
example := multiplicity_true _ _ _ _ (by simp) canon_example run_example

example : C (1 : ℤ) * ([([1, 1], 2)].map fun fe : List Int × Nat => toPoly fe.1 ^ fe.2).prod = toPoly [1, 2, 1] := by
  refine product_identity_of_irreducible_partial [1, 2, 1] [] 1 _ (by simp) (by intro h; simp) ?_ run_example₂
  intro fe hfe
  simp only [List.mem_singleton] at hfe
  subst hfe
  have : toPoly ([1, 1] : List Int) = X - C (-1) := by simp [toPoly]; ring
  rw [this]
  exact irreducible_X_sub_C _

end NTV.C07
