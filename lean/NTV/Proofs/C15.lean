import NTV.Proofs.Lemmas.OrdProofs
import NTV.Proofs.Lemmas.OrdCanon
/-! # C15 — orders as lattices: property theorems about the model `NTV.Ord` (index, discriminant)

An order is its stored basis `A : List (List Rat)` with `Rect n n A` (n rows of length n);
`toM n n A` is the corresponding Mathlib matrix. `index A B` models `order::index(a, b)` = (A : B),
`discriminantOrd A f` models `Order::discriminant`. Helper lemmas are in
`NTV.Proofs.Lemmas.OrdProofs`; the determinant routine is tied to `Matrix.det` by C18. -/
open Matrix
namespace NTV.C15
open NTV.Ord
open NTV.RowOps (toM Rect)

/-- `index(A, B)` answers `i` exactly when `det B = i · det A`: the index is the quotient of the
determinants, and the explicit panic fires exactly when that quotient is not an integer -/
theorem index_is_determinant_quotient (A B : QMat) (n : Nat) (hA : Rect n n A) (hB : Rect n n B)
    (hdet : (toM n n A).det ≠ 0) :
    (∀ i : Int, index A B = .ok i ↔ (toM n n B).det = (i : Rat) * (toM n n A).det) ∧
    (∀ e, index A B = .error e →
      e = "panic other" ∧ ∀ i : Int, (toM n n B).det ≠ (i : Rat) * (toM n n A).det) :=
  ⟨index_ok_iff A B n hA hB hdet, index_err A B n hA hB hdet⟩

/-- for B ⊂ A with integer change of basis `C` (`B = C · A`) the index is `det C` — never a panic -/
theorem index_is_det_of_change_of_basis (A B : QMat) (n : Nat) (hA : Rect n n A) (hB : Rect n n B)
    (hdet : (toM n n A).det ≠ 0) (C : Matrix (Fin n) (Fin n) Int)
    (hC : toM n n B = C.map (Int.castRingHom Rat) * toM n n A) :
    index A B = .ok C.det := by
  rw [index_ok_iff A B n hA hB hdet, hC, det_mul]
  congr 1
  exact ((Int.castRingHom Rat).map_det C).symm

/-- (A : C) = (A : B)(B : C) -/
theorem index_multiplicative (A B C : QMat) (n : Nat) (hA : Rect n n A) (hB : Rect n n B)
    (hC : Rect n n C) (hdA : (toM n n A).det ≠ 0) (hdB : (toM n n B).det ≠ 0) (i j : Int)
    (h1 : index A B = .ok i) (h2 : index B C = .ok j) : index A C = .ok (i * j) := by
  rw [index_ok_iff A B n hA hB hdA] at h1
  rw [index_ok_iff B C n hB hC hdB] at h2
  rw [index_ok_iff A C n hA hC hdA, h2, h1]
  push_cast
  ring

/-- disc(B) = (A : B)² · disc(A): when the discriminant of `A` and the index exist, the
discriminant of `B` is computed without a panic and has this value (in particular it is an integer) -/
theorem discriminant_index_relation (A B : QMat) (n : Nat) (hA : Rect n n A) (hB : Rect n n B)
    (hdA : (toM n n A).det ≠ 0) (f : List Int) (dA i : Int)
    (h1 : discriminantOrd A f = .ok dA) (h2 : index A B = .ok i) :
    discriminantOrd B f = .ok (i * i * dA) := by
  rw [index_ok_iff A B n hA hB hdA] at h2
  obtain ⟨d, fl, hd, hdeg, hden, hv⟩ := (discriminantOrd_ok_iff A n hA f dA).mp h1
  apply (discriminantOrd_ok_iff B n hB f (i * i * dA)).mpr
  refine ⟨d, fl, hd, hdeg, hden, ?_⟩
  unfold discValue at hv ⊢
  generalize (((NTV.PolyG.coefAt f (NTV.PolyG.degU f)) ^ (2 * (NTV.PolyG.degU f - 1)) : Int) : Rat) = D
    at hv hden ⊢
  have hcast : ((i * i * dA : Int) : Rat) = (i : Rat) * i * dA := by push_cast; ring
  rw [h2, hcast, ← hv]
  field_simp

/-- equal modules have index 1 both ways: if `B = U · A` with `U` unimodular then (A : B) = ±1 -/
theorem index_of_unimodular_rebasing (A B : QMat) (n : Nat) (hA : Rect n n A) (hB : Rect n n B)
    (hdet : (toM n n A).det ≠ 0) (U : Matrix (Fin n) (Fin n) Int) (hU : U.det = 1 ∨ U.det = -1)
    (hC : toM n n B = U.map (Int.castRingHom Rat) * toM n n A) :
    index A B = .ok 1 ∨ index A B = .ok (-1) := by
  rw [index_is_det_of_change_of_basis A B n hA hB hdet U hC]
  rcases hU with h | h <;> simp [h]

/-- canonical storage, full: an order built from any ℚ-basis is stored in a form that depends only on
the ℤ-module — if B = U·A for an integer matrix U with unit determinant (i.e. A and B are bases of the
same module) then `Order::from_basis` returns the same value for both (so `==` on orders is equality of
modules); no rank hypothesis is needed -/
theorem equal_modules_give_equal_orders (A B : QMat) (n : Nat) (hn : 0 < n) (hA : Rect n n A) (hB : Rect n n B)
    (U : Matrix (Fin n) (Fin n) ℤ) (hU : IsUnit U.det)
    (hrel : toM n n B = U.map (Int.castRingHom ℚ) * toM n n A) :
    fromBasis B = fromBasis A := hnfReduce_canonical A B n hn hA hB U hU hrel

end NTV.C15
