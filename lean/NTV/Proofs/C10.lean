import NTV.Model.Resultant
import NTV.Proofs.Lemmas.GcdShape
import NTV.Proofs.Lemmas.GcdDvd
import NTV.Proofs.Lemmas.Subres2Gcd
import Mathlib.Algebra.Polynomial.Basic
import Mathlib.Tactic
/-! # C10 — gcd in ℤ[x]. -/
open Polynomial
namespace NTV.C10
open NTV.PolyG NTV.Res

/-- gcd(0, g) is g as given -/
theorem gcd_zero_left (g : List Int) : resultantSmartGcdE [] g = some (.ok (g, true)) := by
  simp [resultantSmartGcdE]

/-- soundness of the certificate the oracle checks on every explored case: if d divides f and g and
u·f + v·g = c·d for an integer c, then every common divisor of f and g in ℤ[x] divides c·d; so d is a
greatest common divisor up to the constant c -/
theorem gcd_certificate_sound (f g d u v e : ℤ[X]) (c : ℤ)
    (hbez : u * f + v * g = C c * d) (hef : e ∣ f) (heg : e ∣ g) : e ∣ C c * d := by
  rw [← hbez]
  exact dvd_add (Dvd.dvd.mul_left hef u) (Dvd.dvd.mul_left heg v)

/-- shape of the result, partial (under the exactness flag of the model, asserted on every explored
case): for non-zero canonical f, g the routine returns d·pp with d = gcd(cont f, cont g) > 0 and pp
primitive with positive leading coefficient — so the result has positive leading coefficient and
content exactly gcd(cont f, cont g) -/
theorem result_shape_partial (f g r : List Int) (hf : f ≠ []) (hg : g ≠ []) (hcf : Canon f) (hcg : Canon g)
    (h : resultantSmartGcdE f g = some (.ok (r, true))) :
    ∃ pp : List Int, ∃ d : Int, d = (Int.gcd (contPP f).1 (contPP g).1 : Int) ∧ 0 < d ∧
      toPoly r = C d * toPoly pp ∧ 0 < lc pp ∧ Canon pp ∧
      (∀ e : Int, (∀ c ∈ pp, e ∣ c) → e ∣ 1) := gcd_shape f g r hf hg hcf hcg h

/-- C10, partial (under the exactness flag of the model, asserted on every explored case): for
non-zero canonical f, g the returned polynomial is a greatest common divisor of f and g in ℤ[x]: it
divides both, and every common divisor in ℤ[x] divides it. Together with `result_shape_partial`
(positive leading coefficient) this determines it uniquely. -/
theorem is_gcd_partial (f g r : List Int) (hf : f ≠ []) (hg : g ≠ []) (hcf : Canon f) (hcg : Canon g)
    (h : resultantSmartGcdE f g = some (.ok (r, true))) :
    toPoly r ∣ toPoly f ∧ toPoly r ∣ toPoly g ∧
    ∀ e : ℤ[X], e ∣ toPoly f → e ∣ toPoly g → e ∣ toPoly r :=
  ⟨(gcd_dvd f g r hf hg hcf hcg h).1, (gcd_dvd f g r hf hg hcf hcg h).2,
   fun e h1 h2 => gcd_greatest f g r hf hg hcf hcg h e h1 h2⟩

/-- uniqueness: two lists satisfying the two partial theorems represent the same polynomial -/
theorem gcd_unique (f g : ℤ[X]) (r s : ℤ[X]) (hr : r ∣ f ∧ r ∣ g ∧ ∀ e, e ∣ f → e ∣ g → e ∣ r)
    (hs : s ∣ f ∧ s ∣ g ∧ ∀ e, e ∣ f → e ∣ g → e ∣ s)
    (hrl : 0 < r.leadingCoeff) (hsl : 0 < s.leadingCoeff) : r = s := by
  have h1 : r ∣ s := hs.2.2 r hr.1 hr.2.1
  have h2 : s ∣ r := hr.2.2 s hs.1 hs.2.1
  obtain ⟨u, hu⟩ := associated_of_dvd_dvd h1 h2
  obtain ⟨c, hc, hcu⟩ := Polynomial.isUnit_iff.mp u.isUnit
  rw [← hcu] at hu
  rcases Int.isUnit_iff.mp hc with rfl | rfl
  · simpa using hu
  · exfalso
    have : s = - r := by rw [← hu]; simp
    rw [this, leadingCoeff_neg] at hsl
    omega

/-- non-vacuity: an explicit pair on which the routine runs with the flag set -/
example : resultantSmartGcdE [-2, 0, 2] [2, 4, 2] = some (.ok ([2, 2], true)) := by decide +kernel

/-- on non-zero canonical input `resultant_smart_gcd` neither panics nor runs out of fuel, and all its
truncated divisions are exact (fundamental theorem of subresultant PRS) — FULL -/
theorem gcd_total (f g : List Int) (hf : f ≠ []) (hg : g ≠ []) (hcf : Canon f) (hcg : Canon g) :
    ∃ r, resultantSmartGcdE f g = some (.ok (r, true)) := resultantSmartGcd_total f g hf hg hcf hcg

/-- the exactness flag is always set — FULL -/
theorem gcd_flag (f g r : List Int) (ok : Bool) (hf : f ≠ []) (hg : g ≠ []) (hcf : Canon f) (hcg : Canon g)
    (h : resultantSmartGcdE f g = some (.ok (r, ok))) : ok = true :=
  resultantSmartGcd_flag f g hf hg hcf hcg r ok h

/-- shape of the result — FULL (no flag hypothesis): for non-zero canonical f, g whatever the routine
returns is d·pp with d = gcd(cont f, cont g) > 0 and pp primitive with positive leading coefficient -/
theorem result_shape (f g r : List Int) (ok : Bool) (hf : f ≠ []) (hg : g ≠ []) (hcf : Canon f) (hcg : Canon g)
    (h : resultantSmartGcdE f g = some (.ok (r, ok))) :
    ∃ pp : List Int, ∃ d : Int, d = (Int.gcd (contPP f).1 (contPP g).1 : Int) ∧ 0 < d ∧
      toPoly r = C d * toPoly pp ∧ 0 < lc pp ∧ Canon pp ∧
      (∀ e : Int, (∀ c ∈ pp, e ∣ c) → e ∣ 1) := by
  have hok := gcd_flag f g r ok hf hg hcf hcg h
  subst hok
  exact gcd_shape f g r hf hg hcf hcg h

/-- C10 — FULL (no flag hypothesis): for non-zero canonical f, g the returned polynomial is a greatest
common divisor of f and g in ℤ[x]: it divides both and every common divisor in ℤ[x] divides it.
With `result_shape` (positive leading coefficient) and `gcd_unique` this determines it uniquely; by
`gcd_total` the routine always returns. -/
theorem is_gcd (f g r : List Int) (ok : Bool) (hf : f ≠ []) (hg : g ≠ []) (hcf : Canon f) (hcg : Canon g)
    (h : resultantSmartGcdE f g = some (.ok (r, ok))) :
    toPoly r ∣ toPoly f ∧ toPoly r ∣ toPoly g ∧
    ∀ e : ℤ[X], e ∣ toPoly f → e ∣ toPoly g → e ∣ toPoly r := by
  have hok := gcd_flag f g r ok hf hg hcf hcg h
  subst hok
  exact is_gcd_partial f g r hf hg hcf hcg h

/-- non-vacuity: a pair with a defective remainder sequence -/
example : resultantSmartGcdE [0, -1, 0, 0, 0, 1] [-1, 0, 1] = some (.ok ([-1, 0, 1], true)) := by decide +kernel

end NTV.C10
