import NTV.Model.Resultant
import NTV.Proofs.Lemmas.GcdShape
import Mathlib.Algebra.Polynomial.Basic
import Mathlib.Tactic
/-! # C10 — gcd in ℤ[x]. -/
open Polynomial
namespace NTV.C10
open NTV.PolyG NTV.Res

/-- gcd(0, g) is g as given -/
theorem gcd_zero_left (g : List Int) : resultantSmartGcdE [] g = some (.ok (g, true)) := by
  simp [resultantSmartGcdE]

/-- soundness of the certificate the oracle checks on every explored case: if d divides f and g and
u·f + v·g = c·d for an integer c, then every common divisor of f and g in ℤ[x] divides c·d; so d is a
greatest common divisor up to the constant c -/
theorem gcd_certificate_sound (f g d u v e : ℤ[X]) (c : ℤ)
    (hbez : u * f + v * g = C c * d) (hef : e ∣ f) (heg : e ∣ g) : e ∣ C c * d := by
  rw [← hbez]
  exact dvd_add (Dvd.dvd.mul_left hef u) (Dvd.dvd.mul_left heg v)

/-- shape of the result, partial (under the exactness flag of the model, asserted on every explored
case): for non-zero canonical f, g the routine returns d·pp with d = gcd(cont f, cont g) > 0 and pp
primitive with positive leading coefficient — so the result has positive leading coefficient and
content exactly gcd(cont f, cont g) -/
theorem result_shape_partial (f g r : List Int) (hf : f ≠ []) (hg : g ≠ []) (hcf : Canon f) (hcg : Canon g)
    (h : resultantSmartGcdE f g = some (.ok (r, true))) :
    ∃ pp : List Int, ∃ d : Int, d = (Int.gcd (contPP f).1 (contPP g).1 : Int) ∧ 0 < d ∧
      toPoly r = C d * toPoly pp ∧ 0 < lc pp ∧ Canon pp ∧
      (∀ e : Int, (∀ c ∈ pp, e ∣ c) → e ∣ 1) := gcd_shape f g r hf hg hcf hcg h

end NTV.C10
