import NTV.Model.Resultant
import Mathlib.Algebra.Polynomial.Basic
import Mathlib.Tactic
/-! # C10 — gcd in ℤ[x]. -/
open Polynomial
namespace NTV.C10
open NTV.PolyG NTV.Res

/-- gcd(0, g) is g as given -/
theorem gcd_zero_left (g : List Int) : resultantSmartGcdE [] g = some (.ok (g, true)) := by
  simp [resultantSmartGcdE]

/-- soundness of the certificate the oracle checks on every explored case: if d divides f and g and
u·f + v·g = c·d for an integer c, then every common divisor of f and g in ℤ[x] divides c·d; so d is a
greatest common divisor up to the constant c -/
theorem gcd_certificate_sound (f g d u v e : ℤ[X]) (c : ℤ)
    (hbez : u * f + v * g = C c * d) (hef : e ∣ f) (heg : e ∣ g) : e ∣ C c * d := by
  rw [← hbez]
  exact dvd_add (Dvd.dvd.mul_left hef u) (Dvd.dvd.mul_left heg v)

end NTV.C10
