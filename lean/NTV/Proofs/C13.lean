import NTV.Proofs.Lemmas.PrimeStream
import NTV.Proofs.Lemmas.PrimeWitness
/-! # C13 — the primality test never rejects a prime (one-sided error), for every history of draws.
`isPrime n s` is the model of `prime::is_prime` reading its random bases from the stream `s` of raw
RNG chunks (`none` = the stream ran out before the test finished). -/
namespace NTV.C13
open NTV.Prime

/-- n ≤ 1 is rejected without drawing anything -/
theorem le_one_rejected (n : Int) (hn : n ≤ 1) (s : NTV.Draw.Stream) : isPrime n s = some false := by
  unfold isPrime isPrimeS; simp [hn]

/-- even n > 2 is rejected without drawing anything -/
theorem even_rejected (n : Int) (hn : 2 < n) (he : n % 2 = 0) (s : NTV.Draw.Stream) :
    isPrime n s = some false := by
  unfold isPrime isPrimeS
  have h1 : ¬ (n ≤ 1) := by omega
  have h2 : (n == 2) = false := by simp; omega
  simp [h1, h2, he]

/-- one-sidedness, full: a prime is never rejected, whatever the random generator serves -/
theorem prime_never_rejected (n : Nat) (hn : n.Prime) (s : NTV.Draw.Stream) :
    isPrime (n : Int) s ≠ some false := by
  unfold isPrime isPrimeS
  have h2 := hn.two_le
  have h1 : ¬ ((n : Int) ≤ 1) := by omega
  simp only [h1, ↓reduceIte]
  by_cases hn2 : n = 2
  · subst hn2; simp
  · have hne : ((n : Int) == 2) = false := by simp; omega
    simp only [hne, Bool.false_eq_true, ↓reduceIte]
    have hodd : n % 2 = 1 := by
      rcases Nat.Prime.eq_two_or_odd hn with h | h
      · exact absurd h hn2
      · exact h
    have hmod : (((n : Int) % 2) == 0) = false := by simp; omega
    simp only [hmod, Bool.false_eq_true, ↓reduceIte, Int.toNat_natCast]
    have : Fact n.Prime := ⟨hn⟩
    generalize hdc : splitTwos n (n - 1) 0 = dc
    obtain ⟨d, c⟩ := dc
    simp only
    intro h
    cases hr : roundsS n d c 20 s with
    | none => rw [hr] at h; simp at h
    | some v =>
      obtain ⟨b, rest⟩ := v
      rw [hr] at h
      simp only [Option.map_some, Option.some.injEq] at h
      subst h
      exact rounds_prime n (by omega) d c hdc 20 s rest hr

/-- consequently a `false` answer proves compositeness (or n ≤ 1) -/
theorem false_means_not_prime (n : Nat) (s : NTV.Draw.Stream) (h : isPrime (n : Int) s = some false) :
    ¬ n.Prime := fun hp => prime_never_rejected n hp s h

/-- the version with an explicit list of bases in [1, n): every round passes for a prime -/
theorem prime_passes_all_bases (n : Nat) (hn : n.Prime) (bases : List Nat)
    (hb : ∀ r ∈ bases, 1 ≤ r ∧ r < n) : isPrimeWith (n : Int) bases = true :=
  isPrimeWith_prime n hn bases hb

/-- `modpow` as used by the rounds is modular exponentiation -/
theorem modpow_spec (b e n : Nat) (hn : 0 < n) : powMod b e n = b ^ e % n := powMod_eq b e n hn

/-- composites are really rejected by some base: every proper prime divisor q of n > 2 is a base in
[1, n) whose round fails (so the one-sidedness theorem is not vacuous and the error is one-sided only) -/
theorem composite_has_witness (n q : Nat) (hn : 2 < n) (hq : q.Prime) (hqn : q ∣ n) (hlt : q < n) :
    1 ≤ q ∧ q < n ∧ mrRound n (splitTwos n (n - 1) 0).1 (splitTwos n (n - 1) 0).2 q = false :=
  witness_exists n q hn hq hqn hlt

/-- non-vacuity: 7 is prime, so the theorem applies -/
example : (7 : Nat).Prime := by norm_num

end NTV.C13
