import NTV.Proofs.Lemmas.PrimeStream
import NTV.Proofs.Lemmas.PrimeWitness
import NTV.Proofs.Lemmas.RabinMonierCount
import NTV.Proofs.Lemmas.DrawUniform
import NTV.Proofs.Lemmas.ErrProb
/-! # C13 — the primality test never rejects a prime (one-sided error), for every history of draws.
`isPrime n s` is the model of `prime::is_prime` reading its random bases from the stream `s` of raw
RNG chunks (`none` = the stream ran out before the test finished). -/
namespace NTV.C13
open NTV.Prime

/-- n ≤ 1 is rejected without drawing anything -/
theorem le_one_rejected (n : Int) (hn : n ≤ 1) (s : NTV.Draw.Stream) : isPrime n s = some false := by
  unfold isPrime isPrimeS; simp [hn]

/-- even n > 2 is rejected without drawing anything -/
theorem even_rejected (n : Int) (hn : 2 < n) (he : n % 2 = 0) (s : NTV.Draw.Stream) :
    isPrime n s = some false := by
  unfold isPrime isPrimeS
  have h1 : ¬ (n ≤ 1) := by omega
  have h2 : (n == 2) = false := by simp; omega
  simp [h1, h2, he]

/-- one-sidedness, full: a prime is never rejected, whatever the random generator serves -/
theorem prime_never_rejected (n : Nat) (hn : n.Prime) (s : NTV.Draw.Stream) :
    isPrime (n : Int) s ≠ some false := by
  unfold isPrime isPrimeS
  have h2 := hn.two_le
  have h1 : ¬ ((n : Int) ≤ 1) := by omega
  simp only [h1, ↓reduceIte]
  by_cases hn2 : n = 2
  · subst hn2; simp
  · have hne : ((n : Int) == 2) = false := by simp; omega
    simp only [hne, Bool.false_eq_true, ↓reduceIte]
    have hodd : n % 2 = 1 := by
      rcases Nat.Prime.eq_two_or_odd hn with h | h
      · exact absurd h hn2
      · exact h
    have hmod : (((n : Int) % 2) == 0) = false := by simp; omega
    simp only [hmod, Bool.false_eq_true, ↓reduceIte, Int.toNat_natCast]
    have : Fact n.Prime := ⟨hn⟩
    generalize hdc : splitTwos n (n - 1) 0 = dc
    obtain ⟨d, c⟩ := dc
    simp only
    intro h
    cases hr : roundsS n d c 20 s with
    | none => rw [hr] at h; simp at h
    | some v =>
      obtain ⟨b, rest⟩ := v
      rw [hr] at h
      simp only [Option.map_some, Option.some.injEq] at h
      subst h
      exact rounds_prime n (by omega) d c hdc 20 s rest hr

/-- consequently a `false` answer proves compositeness (or n ≤ 1) -/
theorem false_means_not_prime (n : Nat) (s : NTV.Draw.Stream) (h : isPrime (n : Int) s = some false) :
    ¬ n.Prime := fun hp => prime_never_rejected n hp s h

/-- the version with an explicit list of bases in [1, n): every round passes for a prime -/
theorem prime_passes_all_bases (n : Nat) (hn : n.Prime) (bases : List Nat)
    (hb : ∀ r ∈ bases, 1 ≤ r ∧ r < n) : isPrimeWith (n : Int) bases = true :=
  isPrimeWith_prime n hn bases hb

/-- `modpow` as used by the rounds is modular exponentiation -/
theorem modpow_spec (b e n : Nat) (hn : 0 < n) : powMod b e n = b ^ e % n := powMod_eq b e n hn

/-- composites are really rejected by some base: every proper prime divisor q of n > 2 is a base in
[1, n) whose round fails (so the one-sidedness theorem is not vacuous and the error is one-sided only) -/
theorem composite_has_witness (n q : Nat) (hn : 2 < n) (hq : q.Prime) (hqn : q ∣ n) (hlt : q < n) :
    1 ≤ q ∧ q < n ∧ mrRound n (splitTwos n (n - 1) 0).1 (splitTwos n (n - 1) 0).2 q = false :=
  witness_exists n q hn hq hqn hlt

/-- non-vacuity: 7 is prime, so the theorem applies -/
example : (7 : Nat).Prime := by norm_num

/-! ## The error bound on composites (Rabin–Monier)

A composite n is accepted only if all 20 random bases are *strong liars*; at most (n − 1)/4 of the
n − 1 possible bases are, hence at most ((n−1)/4)^20 of the (n−1)^20 equally likely base vectors are
accepted: error probability ≤ 4^(−20) under independent uniform bases. -/

/-- (R1) one round of the model with base `a` is exactly the textbook strong-probable-prime test:
`a^d ≡ 1` or `a^(d·2^i) ≡ −1 (mod n)` for some `i < c`. -/
theorem round_iff_strong_probable_prime (n d c a : Nat) (hn : 3 ≤ n) :
    mrRound n d c a = true ↔
      (a ^ d ≡ 1 [MOD n] ∨ ∃ i, i < c ∧ a ^ (d * 2 ^ i) ≡ n - 1 [MOD n]) :=
  strongLiar_iff n d c a hn

/-- the decomposition the model computes: n − 1 = d·2^c with d odd, c ≥ 1 (n odd, n > 1) -/
theorem splitTwos_correct (n : Nat) (hodd : n % 2 = 1) (hn : 1 < n) :
    Odd (splitTwos n (n - 1) 0).1 ∧ 1 ≤ (splitTwos n (n - 1) 0).2 ∧
      n - 1 = (splitTwos n (n - 1) 0).1 * 2 ^ (splitTwos n (n - 1) 0).2 :=
  splitTwos_decomp n hodd hn

/-- (R2) **Rabin–Monier bound**: for every odd composite n, at most (n − 1)/4 of the bases
1 ≤ a ≤ n − 1 pass a round of the model (the round as run by `is_prime`, with its own d, c). -/
theorem strong_liars_le_quarter (n : Nat) (hodd : n % 2 = 1) (hn : 1 < n) (hcomp : ¬ n.Prime) :
    ((Finset.Icc 1 (n - 1)).filter (fun a =>
      mrRound n (splitTwos n (n - 1) 0).1 (splitTwos n (n - 1) 0).2 a = true)).card ≤ (n - 1) / 4 :=
  NTV.Prime.strong_liars_le_quarter n hodd hn hcomp

/-- the bound is attained at n = 9: the strong liars are exactly 1 and 8, and 2 = (9 − 1)/4 -/
example : ((Finset.Icc 1 (9 - 1)).filter (fun a =>
      mrRound 9 (splitTwos 9 (9 - 1) 0).1 (splitTwos 9 (9 - 1) 0).2 a = true)) = {1, 8} := by
  decide +kernel

/-- non-vacuity of the hypotheses: 9 and 561 (a Carmichael number) are odd composites -/
example : 9 % 2 = 1 ∧ 1 < 9 ∧ ¬ (9 : Nat).Prime := by norm_num
example : 561 % 2 = 1 ∧ 1 < 561 ∧ ¬ (561 : Nat).Prime := by norm_num

/-- (R3) of the (n−1)^20 vectors of 20 bases in [1, n−1], at most ((n−1)/4)^20 make the test
(`isPrimeWith`) accept an odd composite n. `accepting n k` is the set of accepted vectors
`Fin k → ℕ` with entries in [1, n − 1]. -/
theorem accepting_bases_le (n : Nat) (hodd : n % 2 = 1) (hn : 1 < n) (hcomp : ¬ n.Prime) :
    ((Fintype.piFinset (fun _ : Fin 20 => Finset.Icc 1 (n - 1))).filter
      (fun f => isPrimeWith (n : Int) (List.ofFn f) = true)).card ≤ ((n - 1) / 4) ^ 20 :=
  card_accepting_le n 20 hodd hn hcomp

/-- (R3) error probability ≤ 4^(−20) for **every** composite n > 1 (even ones are rejected outright):
4^20 · #(accepted base vectors) ≤ (n−1)^20 = #(all base vectors in [1, n−1]^20). -/
theorem error_probability_le (n : Nat) (hn : 1 < n) (hcomp : ¬ n.Prime) :
    4 ^ 20 * ((Fintype.piFinset (fun _ : Fin 20 => Finset.Icc 1 (n - 1))).filter
      (fun f => isPrimeWith (n : Int) (List.ofFn f) = true)).card ≤ (n - 1) ^ 20 ∧
    (Fintype.piFinset (fun _ : Fin 20 => Finset.Icc 1 (n - 1))).card = (n - 1) ^ 20 :=
  ⟨four_pow_mul_card_accepting_le n 20 hn hcomp, card_all_bases n 20⟩

/-- the verdict of the stream-driven test is a function of the 20 bases that
`gen_bigint_range(1, n)` decodes from the stream (`drawBases n 20 s`): it is `isPrimeWith` on them.
So the distribution of the verdict is the one induced by the distribution of the decoded bases. -/
theorem verdict_from_decoded_bases (n : Int) (s : NTV.Draw.Stream) (bs : List Nat)
    (rest : NTV.Draw.Stream) (h : drawBases n 20 s = some (bs, rest)) :
    isPrime n s = some (isPrimeWith n bs) :=
  isPrime_eq_isPrimeWith n s bs rest h

/-- the decoded bases lie in [1, n − 1] -/
theorem decoded_bases_in_range (n : Int) (hn : 1 < n) (s : NTV.Draw.Stream) (bs : List Nat)
    (rest : NTV.Draw.Stream) (h : drawBases n 20 s = some (bs, rest)) :
    bs.length = 20 ∧ ∀ r ∈ bs, 1 ≤ r ∧ (r : Int) < n :=
  drawBases_bounds n hn 20 s bs rest h

/-- the clause at the level of the stream: a composite n > 1 is answered `true` only when the
vector of the 20 bases decoded from the stream falls in the set `accepting n 20`, which by
`error_probability_le` has at most a 4^(−20) fraction of all (n−1)^20 base vectors. -/
theorem composite_accepted_only_on_liar_vectors (n : Nat) (hn : 1 < n) (hcomp : ¬ n.Prime)
    (s : NTV.Draw.Stream) (h : isPrime (n : Int) s = some true) :
    ∃ f ∈ accepting n 20, ∃ rest, drawBases (n : Int) 20 s = some (List.ofFn f, rest) :=
  accepted_composite n hn hcomp s h

theorem accepting_card_bound (n : Nat) (hn : 1 < n) (hcomp : ¬ n.Prime) :
    4 ^ 20 * (accepting n 20).card ≤ (n - 1) ^ 20 :=
  four_pow_mul_card_accepting_le n 20 hn hcomp

/-! ### the bases are uniform when the RNG bytes are

`gen_bigint_range(1, n)` reads chunks of 4·len bytes (len = number of u32 digits of n − 1) and
rejects a chunk when the decoded value is ≥ n − 1. The decoder is *balanced*: every base
r ∈ [1, n − 1] is produced by exactly the same number 2^(32·len − bits) of the 256^(4·len)
well-formed chunks. Hence, if the RNG serves independent uniform bytes, each drawn base is uniform on
[1, n − 1] and the 20 bases are independent — the hypothesis under which `error_probability_le`
reads "probability ≤ 4^(−20)". (Counting statements only; no measure theory over byte streams.) -/

/-- every base r ∈ [1, n−1] is decoded from exactly 2^(32·len − bits) well-formed chunks -/
theorem base_draw_uniform (n r : Int) (hr : 1 ≤ r ∧ r < n) :
    ((NTV.Draw.chunks (NTV.Draw.lenOf (NTV.Draw.bitLen (n - 1).toNat))).filter
        (fun c => NTV.Draw.range 1 n [c] = some (r, []))).card =
      2 ^ (32 * NTV.Draw.lenOf (NTV.Draw.bitLen (n - 1).toNat) - NTV.Draw.bitLen (n - 1).toNat) :=
  NTV.Draw.range_fibre_card 1 n r hr

/-- the well-formed chunks are exactly the byte strings of the length the decoder expects -/
theorem chunks_spec (len : Nat) (c : List Nat) :
    c ∈ NTV.Draw.chunks len ↔ c.length = 4 * len ∧ ∀ b ∈ c, b < 256 :=
  NTV.Draw.mem_chunks len c

example : NTV.Draw.range 1 10 [[0, 0, 0, 0xF0], [0, 0, 0, 80]] = some (6, []) := by decide +kernel

/-! ### the error bound as a probability (Mathlib `PMF`)

`μ` is the uniform probability mass function on the (non-empty, since n > 1) finite set [1, n−1]^20 of
base vectors, i.e. 20 independent bases each uniform on [1, n − 1] (`uniform_bases_is_product`).
The event "the test accepts n" has μ-probability ≤ (1/4)^20 for every composite n > 1. -/

open scoped ENNReal in
/-- (R3, measure form) **error probability ≤ 4^(−20)**: for every composite n > 1, under the uniform
distribution on base vectors in [1, n−1]^20, the set of vectors on which `isPrimeWith` answers `true`
has (outer) measure at most (1/4)^20. -/
theorem error_probability_measure (n : Nat) (hn : 1 < n) (hcomp : ¬ n.Prime) :
    (PMF.uniformOfFinset (Fintype.piFinset (fun _ : Fin 20 => Finset.Icc 1 (n - 1)))
        (NTV.Prime.baseVectors_nonempty n 20 hn)).toOuterMeasure
      {f | isPrimeWith (n : Int) (List.ofFn f) = true} ≤ (1 / 4 : ℝ≥0∞) ^ 20 :=
  uniformBases_accept_le n 20 hn hcomp

open scoped ENNReal in
/-- the same with the measure `PMF.toMeasure` on the (discrete) measurable space `Fin 20 → ℕ` -/
theorem error_probability_toMeasure (n : Nat) (hn : 1 < n) (hcomp : ¬ n.Prime) :
    (PMF.uniformOfFinset (Fintype.piFinset (fun _ : Fin 20 => Finset.Icc 1 (n - 1)))
        (NTV.Prime.baseVectors_nonempty n 20 hn)).toMeasure
      {f | isPrimeWith (n : Int) (List.ofFn f) = true} ≤ (1 / 4 : ℝ≥0∞) ^ 20 := by
  rw [PMF.toMeasure_apply_eq_toOuterMeasure_apply _ (MeasurableSet.of_discrete)]
  exact uniformBases_accept_le n 20 hn hcomp

/-- product form: the uniform mass function on [1, n−1]^20 is the product of 20 uniform mass functions
on [1, n−1] — the 20 bases are independent and each uniform on [1, n − 1]. -/
theorem uniform_bases_is_product (n : Nat) (hn : 1 < n) (f : Fin 20 → Nat) :
    PMF.uniformOfFinset (Fintype.piFinset (fun _ : Fin 20 => Finset.Icc 1 (n - 1)))
        (NTV.Prime.baseVectors_nonempty n 20 hn) f =
      ∏ i : Fin 20, PMF.uniformOfFinset (Finset.Icc 1 (n - 1)) (NTV.Prime.icc_nonempty n hn) (f i) :=
  uniformBases_apply_eq_prod n 20 hn f

/-- non-vacuity: the hypotheses hold for n = 9 and n = 561, and the event is not empty for n = 9
(the all-ones vector is accepted), so the bound is about a genuinely positive probability. -/
example : 1 < 9 ∧ ¬ (9 : Nat).Prime ∧ 1 < 561 ∧ ¬ (561 : Nat).Prime := by norm_num
example : isPrimeWith 9 (List.ofFn (fun _ : Fin 20 => 1)) = true := by decide +kernel

end NTV.C13
