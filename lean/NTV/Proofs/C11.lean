import NTV.Proofs.Lemmas.HenselAlg
import NTV.Proofs.Lemmas.HenselModel
import NTV.Proofs.Lemmas.PolyModBasics
import NTV.Proofs.Lemmas.PolyDivremMod
import NTV.Model.PolyModHensel
/-! # C11 — Hensel lifting: what is proved so far.
The conclusion of the property (monic, degrees, congruences modulo p and p^e) is certified on every
explored case by the oracle. -/
open Polynomial
namespace NTV.C11

/-- algebraic core of `hensel_lift` (Cohen 3.5.5) in ℤ[X]: for ANY quotient t,
c ≡ a·b (mod q), a·u + b·v ≡ 1 (mod r), r ∣ q ⇒ c ≡ a₁·b₁ (mod q·r), a₁ ≡ a, b₁ ≡ b (mod q) -/
theorem hensel_step_algebra (q r : ℤ) (hrq : r ∣ q) (a b c u v f t F : ℤ[X])
    (hc : c - a * b = C q * F) (hf : NTV.Hensel.PCong r f F) (huv : NTV.Hensel.PCong r (a * u + b * v) 1) :
    NTV.Hensel.PCong (q * r) c ((a + C q * (v * f - a * t)) * (b + C q * (u * f + b * t))) ∧
    NTV.Hensel.PCong q (a + C q * (v * f - a * t)) a ∧ NTV.Hensel.PCong q (b + C q * (u * f + b * t)) b :=
  NTV.Hensel.hensel_step q r hrq a b c u v f t F hc hf huv

/-- the model of `hensel_lift` itself, full: for all integers p, q and all coefficient lists,
c ≡ a·b (mod q) and a·u + b·v ≡ 1 (mod gcd(p,q)) imply that the returned (a₁, b₁, m) has m = q·gcd(p,q),
c ≡ a₁·b₁ (mod m), a₁ ≡ a and b₁ ≡ b (mod q) — whatever quotient the inner division produces -/
theorem henselLift_full (p q : Int) (c a b u v : List Int)
    (hc : NTV.Hensel.PCong q (NTV.PolyG.toPoly c) (NTV.PolyG.toPoly a * NTV.PolyG.toPoly b))
    (huv : NTV.Hensel.PCong (Int.gcd p q : Int)
      (NTV.PolyG.toPoly a * NTV.PolyG.toPoly u + NTV.PolyG.toPoly b * NTV.PolyG.toPoly v) 1) :
    (NTV.PolyMod.henselLift p q c a b u v).2.2 = q * (Int.gcd p q : Int) ∧
    NTV.Hensel.PCong (q * (Int.gcd p q : Int)) (NTV.PolyG.toPoly c)
      (NTV.PolyG.toPoly (NTV.PolyMod.henselLift p q c a b u v).1 *
        NTV.PolyG.toPoly (NTV.PolyMod.henselLift p q c a b u v).2.1) ∧
    NTV.Hensel.PCong q (NTV.PolyG.toPoly (NTV.PolyMod.henselLift p q c a b u v).1) (NTV.PolyG.toPoly a) ∧
    NTV.Hensel.PCong q (NTV.PolyG.toPoly (NTV.PolyMod.henselLift p q c a b u v).2.1) (NTV.PolyG.toPoly b) :=
  NTV.Hensel.henselLift_spec p q c a b u v hc huv

/-- for e = 1 the lifting loop does not run: the factors are returned unchanged -/
theorem exponent_one_unchanged (p : Int) (c : List Int) (factors : List (List Int)) :
    NTV.PolyMod.liftFactorization p 1 c factors = .ok factors := by
  simp [NTV.PolyMod.liftFactorization, NTV.PolyMod.liftSteps, pure, Except.pure]

/-- the division primitive every stage is built on, `poly_divrem(a, b, p)`, satisfies its contract for
every prime p not dividing lc(b): a ≡ q·b + r (mod p), deg r < deg b, results canonical -/
theorem division_contract (a b : List Int) (p : Nat) (hp : p.Prime) (ha : a ≠ []) (hb : b ≠ [])
    (hab : b.length ≤ a.length) (hlc : IsCoprime (NTV.PolyG.lc b) (p : Int)) :
    NTV.Hensel.PCong p (NTV.PolyG.toPoly a)
      (NTV.PolyG.toPoly (NTV.PolyMod.polyDivrem a b p).1 * NTV.PolyG.toPoly b +
        NTV.PolyG.toPoly (NTV.PolyMod.polyDivrem a b p).2) ∧
    (NTV.PolyMod.polyDivrem a b p).2.length < b.length ∧
    NTV.PolyG.Canon (NTV.PolyMod.polyDivrem a b p).1 ∧ NTV.PolyG.Canon (NTV.PolyMod.polyDivrem a b p).2 :=
  NTV.PolyMod.polyDivrem_contract_prime a b p hp ha hb hab hlc

end NTV.C11
