import NTV.Proofs.Lemmas.HenselAlg
import NTV.Proofs.Lemmas.HenselModel
import NTV.Proofs.Lemmas.PolyModBasics
import NTV.Proofs.Lemmas.PolyDivremMod
import NTV.Proofs.Lemmas.HenselMulti
import NTV.Model.PolyModHensel
/-! # C11 — Hensel lifting.
First the building blocks (algebraic core, one call of `hensel_lift`, the division contract); the
property itself is proved in full at the end of the file: `witness_spec`, `lift_two_spec`,
`lift_factorization_spec`. -/
open Polynomial
namespace NTV.C11

/-- algebraic core of `hensel_lift` (Cohen 3.5.5) in ℤ[X]: for ANY quotient t,
c ≡ a·b (mod q), a·u + b·v ≡ 1 (mod r), r ∣ q ⇒ c ≡ a₁·b₁ (mod q·r), a₁ ≡ a, b₁ ≡ b (mod q) -/
theorem hensel_step_algebra (q r : ℤ) (hrq : r ∣ q) (a b c u v f t F : ℤ[X])
    (hc : c - a * b = C q * F) (hf : NTV.Hensel.PCong r f F) (huv : NTV.Hensel.PCong r (a * u + b * v) 1) :
    NTV.Hensel.PCong (q * r) c ((a + C q * (v * f - a * t)) * (b + C q * (u * f + b * t))) ∧
    NTV.Hensel.PCong q (a + C q * (v * f - a * t)) a ∧ NTV.Hensel.PCong q (b + C q * (u * f + b * t)) b :=
  NTV.Hensel.hensel_step q r hrq a b c u v f t F hc hf huv

/-- the model of `hensel_lift` itself, full: for all integers p, q and all coefficient lists,
c ≡ a·b (mod q) and a·u + b·v ≡ 1 (mod gcd(p,q)) imply that the returned (a₁, b₁, m) has m = q·gcd(p,q),
c ≡ a₁·b₁ (mod m), a₁ ≡ a and b₁ ≡ b (mod q) — whatever quotient the inner division produces -/
theorem henselLift_full (p q : Int) (c a b u v : List Int)
    (hc : NTV.Hensel.PCong q (NTV.PolyG.toPoly c) (NTV.PolyG.toPoly a * NTV.PolyG.toPoly b))
    (huv : NTV.Hensel.PCong (Int.gcd p q : Int)
      (NTV.PolyG.toPoly a * NTV.PolyG.toPoly u + NTV.PolyG.toPoly b * NTV.PolyG.toPoly v) 1) :
    (NTV.PolyMod.henselLift p q c a b u v).2.2 = q * (Int.gcd p q : Int) ∧
    NTV.Hensel.PCong (q * (Int.gcd p q : Int)) (NTV.PolyG.toPoly c)
      (NTV.PolyG.toPoly (NTV.PolyMod.henselLift p q c a b u v).1 *
        NTV.PolyG.toPoly (NTV.PolyMod.henselLift p q c a b u v).2.1) ∧
    NTV.Hensel.PCong q (NTV.PolyG.toPoly (NTV.PolyMod.henselLift p q c a b u v).1) (NTV.PolyG.toPoly a) ∧
    NTV.Hensel.PCong q (NTV.PolyG.toPoly (NTV.PolyMod.henselLift p q c a b u v).2.1) (NTV.PolyG.toPoly b) :=
  NTV.Hensel.henselLift_spec p q c a b u v hc huv

/-- for e = 1 the lifting loop does not run: the factors are returned unchanged -/
theorem exponent_one_unchanged (p : Int) (c : List Int) (factors : List (List Int)) :
    NTV.PolyMod.liftFactorization p 1 c factors = .ok factors := by
  simp [NTV.PolyMod.liftFactorization, NTV.PolyMod.liftSteps, pure, Except.pure]

/-- the division primitive every stage is built on, `poly_divrem(a, b, p)`, satisfies its contract for
every prime p not dividing lc(b): a ≡ q·b + r (mod p), deg r < deg b, results canonical -/
theorem division_contract (a b : List Int) (p : Nat) (hp : p.Prime) (ha : a ≠ []) (hb : b ≠ [])
    (hab : b.length ≤ a.length) (hlc : IsCoprime (NTV.PolyG.lc b) (p : Int)) :
    NTV.Hensel.PCong p (NTV.PolyG.toPoly a)
      (NTV.PolyG.toPoly (NTV.PolyMod.polyDivrem a b p).1 * NTV.PolyG.toPoly b +
        NTV.PolyG.toPoly (NTV.PolyMod.polyDivrem a b p).2) ∧
    (NTV.PolyMod.polyDivrem a b p).2.length < b.length ∧
    NTV.PolyG.Canon (NTV.PolyMod.polyDivrem a b p).1 ∧ NTV.PolyG.Canon (NTV.PolyMod.polyDivrem a b p).2 :=
  NTV.PolyMod.polyDivrem_contract_prime a b p hp ha hb hab hlc

/-! ## The property, in full

Notation: coefficient lists are low degree first; `toPoly l` is the polynomial of ℤ[X] a list denotes;
`lc l` is the last coefficient (`lc l = 1` says: non-empty and monic, hence canonical); `Canon l` = no
trailing zero; `Reduced m l` = all coefficients in [0, m); `PCong m F G` = F ≡ G modulo m in ℤ[X]. -/
open NTV.PolyG NTV.PolyMod NTV.Hensel

/-- C11 (Bezout witness). For every prime p and canonical a, b with coefficients in [0, p) that are
coprime over F_p, `poly_coprime_witness(a, b, p)` raises no error (the gcd found is a non-zero constant,
the fuel of the model suffices) and returns u, v with a·u + b·v ≡ 1 (mod p); u, v are canonical with
coefficients in [0, p). -/
theorem witness_spec (p : Nat) (hp : p.Prime) (a b : List Int) (hca : Canon a) (hcb : Canon b)
    (hra : Reduced (p : Int) a) (hrb : Reduced (p : Int) b)
    (hco : ∃ U V : ℤ[X], PCong (p : Int) (toPoly a * U + toPoly b * V) 1) :
    ∃ u v, polyCoprimeWitness a b p = .ok (u, v) ∧
      PCong (p : Int) (toPoly a * toPoly u + toPoly b * toPoly v) 1 ∧
      Reduced (p : Int) u ∧ Reduced (p : Int) v ∧ Canon u ∧ Canon v :=
  polyCoprimeWitness_spec p hp a b (lcOK_of_reduced _ a hca hra) (lcOK_of_reduced _ b hcb hrb)
    ((coprime_iff_map p _ _).mp hco)

/-- C11 (Bezout witness, as the lift uses it): the same for arguments that are not reduced modulo p
(the lift passes products reduced modulo p^k): it suffices that p does not divide the leading
coefficients. -/
theorem witness_spec_unreduced (p : Nat) (hp : p.Prime) (a b : List Int)
    (hla : a ≠ [] → ¬ (p : Int) ∣ lc a) (hlb : b ≠ [] → ¬ (p : Int) ∣ lc b)
    (hco : ∃ U V : ℤ[X], PCong (p : Int) (toPoly a * U + toPoly b * V) 1) :
    ∃ u v, polyCoprimeWitness a b p = .ok (u, v) ∧
      PCong (p : Int) (toPoly a * toPoly u + toPoly b * toPoly v) 1 ∧
      Reduced (p : Int) u ∧ Reduced (p : Int) v ∧ Canon u ∧ Canon v :=
  polyCoprimeWitness_spec p hp a b hla hlb ((coprime_iff_map p _ _).mp hco)

/-- the hypotheses of `witness_spec` hold for x + 2 and x² + 3x + 4 over F_5 (the factors of x³ − 2),
and the model returns u = 2x + 2, v = 3 -/
example : ∃ u v, polyCoprimeWitness [2, 1] [4, 3, 1] (5 : Nat) = .ok (u, v) ∧
    PCong ((5 : Nat) : Int) (toPoly [2, 1] * toPoly u + toPoly [4, 3, 1] * toPoly v) 1 ∧
    Reduced ((5 : Nat) : Int) u ∧ Reduced ((5 : Nat) : Int) v ∧ Canon u ∧ Canon v := by
  refine witness_spec 5 (by norm_num) [2, 1] [4, 3, 1] (by intro h; simp) (by intro h; simp) ?_ ?_ ?_
  · intro j; rcases j with _ | _ | j <;> simp
  · intro j; rcases j with _ | _ | _ | j <;> simp
  · exact ⟨toPoly [-3, -3], toPoly [3], 1, by simp only [toPoly]; simp only [map_neg, map_ofNat, map_one, Nat.cast_ofNat]; ring⟩
example : polyCoprimeWitness [2, 1] [4, 3, 1] 5 = .ok ([2, 2], [3]) := by decide +kernel

/-- C11 (one lifting step, shape). For all integers p and q > 1 and all lists with a monic:
the first polynomial a₁ returned by `hensel_lift(p, q, c, a, b, u, v)` is monic of the degree of a, and
a₁, b₁ are canonical with coefficients in [0, q·gcd(p, q)). If moreover c is monic of degree
deg a + deg b, c ≡ a·b (mod q) and a·u + b·v ≡ 1 (mod gcd(p, q)) — the hypotheses under which
`henselLift_full` gives c ≡ a₁·b₁ (mod q·gcd(p,q)), a₁ ≡ a, b₁ ≡ b (mod q) — then b₁ is monic of the
degree of b. -/
theorem lift_two_spec (p q : Int) (hq : 1 < q) (c a b u v : List Int) (ha : lc a = 1) :
    (lc (henselLift p q c a b u v).1 = 1 ∧ (henselLift p q c a b u v).1.length = a.length ∧
      Canon (henselLift p q c a b u v).1 ∧ Canon (henselLift p q c a b u v).2.1 ∧
      Reduced (q * (Int.gcd p q : Int)) (henselLift p q c a b u v).1 ∧
      Reduced (q * (Int.gcd p q : Int)) (henselLift p q c a b u v).2.1) ∧
    (lc c = 1 → c.length + 1 = a.length + b.length →
      PCong q (toPoly c) (toPoly a * toPoly b) →
      PCong (Int.gcd p q : Int) (toPoly a * toPoly u + toPoly b * toPoly v) 1 →
      lc (henselLift p q c a b u v).2.1 = 1 ∧ (henselLift p q c a b u v).2.1.length = b.length) := by
  obtain ⟨s1, s2, s3, s4, s5⟩ := henselLift_shape p q hq c a b u v ha
  exact ⟨⟨s1, s2, (monic_toPoly _ s1).2.2.2, s5, s3, s4⟩,
    fun hcm hlen hc huv => henselLift_shape_b p q hq c a b u v ha hcm hlen hc huv⟩

/-- Cohen's example (the Rust unit test `hensel_lift_works_0`): C = X² + 2X + 3, A = X − 3, B = X − 4,
p = q = 9: the hypotheses hold and the result is (X + 60)(X + 23) modulo 81 -/
example : lc ([-3, 1] : List Int) = 1 ∧ lc ([3, 2, 1] : List Int) = 1 ∧
    PCong 9 (toPoly [3, 2, 1]) (toPoly [-3, 1] * toPoly [-4, 1]) ∧
    PCong (Int.gcd 9 9 : Int) (toPoly [-3, 1] * toPoly [1] + toPoly [-4, 1] * toPoly [-1]) 1 := by
  refine ⟨by decide, by decide, ⟨toPoly [-1, 1], ?_⟩, ⟨0, ?_⟩⟩
  · simp only [toPoly]; simp only [map_neg, map_ofNat, map_one]; ring
  · simp only [toPoly]; simp only [map_neg, map_ofNat, map_one]; ring
example : henselLift 9 9 [3, 2, 1] [-3, 1] [-4, 1] [1] [-1] = ([60, 1], [23, 1], 81) := by decide +kernel

/-- **C11 (the property).** Let p be prime, e ≥ 1, c ∈ ℤ[x] with p ∤ lc(c), and f₁, …, f_k (k ≥ 1) monic
with coefficients in [0, p), pairwise coprime over F_p (what "distinct monic irreducible" gives; it
contains "c squarefree mod p"), with c ≡ lc(c)·∏ fᵢ (mod p). Then `lift_factorization(p, e, c, [f₁..f_k])`
raises no error and returns g₁, …, g_k, in this order, with: gᵢ monic, canonical, coefficients in
[0, p^e), deg gᵢ = deg fᵢ, gᵢ ≡ fᵢ (mod p), and lc(c)·∏ gᵢ ≡ c (mod p^e)
(equivalently ∏ gᵢ ≡ c·lc(c)⁻¹). -/
theorem lift_factorization_spec (p : Nat) (hp : p.Prime) (e : Nat) (he : 1 ≤ e) (c : List Int)
    (hlc : ¬ (p : Int) ∣ lc c) (factors : List (List Int)) (hne : factors ≠ [])
    (hmon : ∀ f ∈ factors, lc f = 1) (hred : ∀ f ∈ factors, Reduced (p : Int) f)
    (hcop : factors.Pairwise (fun f g => ∃ U V : ℤ[X], PCong (p : Int) (toPoly f * U + toPoly g * V) 1))
    (hprod : PCong (p : Int) (toPoly c) (C (lc c) * (factors.map toPoly).prod)) :
    ∃ gs, liftFactorization p e c factors = .ok gs ∧ gs.length = factors.length ∧
      List.Forall₂ (fun g f => lc g = 1 ∧ Canon g ∧ Reduced ((p : Int) ^ e) g ∧ g.length = f.length ∧
        PCong (p : Int) (toPoly g) (toPoly f)) gs factors ∧
      PCong ((p : Int) ^ e) (C (lc c) * (gs.map toPoly).prod) (toPoly c) := by
  have hcop' : (factors.map (mapP p)).Pairwise IsCoprime := by
    rw [List.pairwise_map]
    exact hcop.imp (fun h => (coprime_iff_map p _ _).mp h)
  obtain ⟨gs, h1, h2, h3⟩ := liftFactorization_spec' p hp e he c hlc factors hne hmon hred hcop' hprod
  exact ⟨gs, h1, h2.length_eq, h2, h3⟩

/-- the same with the product made monic: ∏ gᵢ ≡ c·w (mod p^e) for every inverse w of lc(c) modulo p^e -/
theorem lift_factorization_monic (p : Nat) (e : Nat) (c : List Int) (gs : List (List Int)) (w : Int)
    (hw : lc c * w ≡ 1 [ZMOD (p : Int) ^ e])
    (h : PCong ((p : Int) ^ e) (C (lc c) * (gs.map toPoly).prod) (toPoly c)) :
    PCong ((p : Int) ^ e) ((gs.map toPoly).prod) (C w * toPoly c) := by
  have h1 := PCong.mul (PCong.refl ((p : Int) ^ e) (C w)) h
  refine PCong.trans ?_ h1
  have e1 : C w * (C (lc c) * (gs.map toPoly).prod) = C (lc c * w) * (gs.map toPoly).prod := by
    rw [C_mul]; ring
  rw [e1]
  have := PCong.mul (pcong_C hw) (PCong.refl ((p : Int) ^ e) (gs.map toPoly).prod)
  simpa using this.symm

/-- the Rust unit test `lift_factorization_works_0`: x³ − 2 ≡ (x + 2)(x² + 3x + 4) (mod 5), e = 3:
the hypotheses of `lift_factorization_spec` hold, and the model returns (x + 72)(x² + 53x + 59) -/
example : ∃ gs, liftFactorization (5 : Nat) 3 [-2, 0, 0, 1] [[2, 1], [4, 3, 1]] = .ok gs ∧ gs.length = 2 ∧
    List.Forall₂ (fun g f => lc g = 1 ∧ Canon g ∧ Reduced (((5 : Nat) : Int) ^ 3) g ∧ g.length = f.length ∧
      PCong ((5 : Nat) : Int) (toPoly g) (toPoly f)) gs [[2, 1], [4, 3, 1]] ∧
    PCong (((5 : Nat) : Int) ^ 3) (C (lc [-2, 0, 0, 1]) * (gs.map toPoly).prod) (toPoly [-2, 0, 0, 1]) := by
  refine lift_factorization_spec 5 (by norm_num) 3 (by norm_num) [-2, 0, 0, 1] (by decide)
    [[2, 1], [4, 3, 1]] (by simp) (by decide) ?_ ?_ ?_
  · intro f hf j
    simp only [List.mem_cons, List.not_mem_nil, or_false] at hf
    rcases hf with rfl | rfl
    · rcases j with _ | _ | j <;> simp
    · rcases j with _ | _ | _ | j <;> simp
  · simp only [List.pairwise_cons, List.mem_cons, List.not_mem_nil, or_false, forall_eq, false_imp_iff,
      implies_true, List.Pairwise.nil, and_true]
    exact ⟨toPoly [-3, -3], toPoly [3], 1, by simp only [toPoly]; simp only [map_neg, map_ofNat, map_one, Nat.cast_ofNat]; ring⟩
  · refine ⟨toPoly [-2, -2, -1], ?_⟩
    simp only [lc, List.getLastD_cons, List.getLastD_nil, List.map_cons, List.map_nil, List.prod_cons, List.prod_nil, toPoly]
    simp only [map_neg, map_ofNat, map_one, map_zero, Nat.cast_ofNat]; ring
example : liftFactorization 5 3 [-2, 0, 0, 1] [[2, 1], [4, 3, 1]] = .ok [[72, 1], [59, 53, 1]] := by
  decide +kernel
/-- the factors come back in the order they were given -/
example : liftFactorization 5 3 [-2, 0, 0, 1] [[4, 3, 1], [2, 1]] = .ok [[59, 53, 1], [72, 1]] := by
  decide +kernel

end NTV.C11
