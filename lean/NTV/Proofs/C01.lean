import NTV.Proofs.Lemmas.EcmProofs
import NTV.Proofs.Lemmas.TrialProofs
import NTV.Proofs.Lemmas.EcmDriverUnique
import NTV.Proofs.Lemmas.EcmDriverWrap
/-! # C01 — integer factorisation: what is proved about the model
(`NTV.Ecm` = ecm.rs + ecm_parallel.rs, `NTV.Trial` = factorize.rs; tied to the code by the
correspondence check, which replays the captured random history of every run into the model).
Only property-level statements live here; helper lemmas are in `NTV.Proofs.Lemmas.EcmProofs/TrialProofs`.

Not theorems (see `lib/propinfo.py`, gaps): termination of the curve loop (probabilistic; false for a
constant stream), primality of what `is_prime` accepts (Miller–Rabin, C13), `select_b`'s float formula. -/
namespace NTV.C01
open NTV.Ecm

/-- Trial division, full: for every n ≥ 1 the model of `factorize::factorize` terminates and returns
primes with positive exponents, strictly increasing, with product n. -/
theorem trial_division_correct (n : Nat) (hn : 1 ≤ n) :
    n = NTV.Trial.prodOf (NTV.Trial.factorize n) ∧
    (∀ qe ∈ NTV.Trial.factorize n, qe.1.Prime ∧ 0 < qe.2) ∧
    (NTV.Trial.factorize n).Pairwise (fun a b => a.1 < b.1) := NTV.Trial.factorize_correct n hn

/-- Every `Err(d)` leaving `ecm_oneshot` is a non-negative divisor of n — for all points, curves,
bounds and both build profiles. -/
theorem oneshot_err_divides (pt : Point) (a n : Int) (b1 b2 : Nat) (prof : Profile) (d : Int)
    (h : ecmOneshot pt a n b1 b2 prof = .factor d) : d ∣ n ∧ 0 ≤ d :=
  ecmOneshot_factor_dvd pt a n b1 b2 prof d h

/-- The same for the batched version (one Montgomery inversion per step for the whole batch). -/
theorem oneshot_parallel_err_divides (pts : List Point) (as : List Int) (n : Int) (b1 b2 : Nat)
    (prof : Profile) (d : Int) (h : ecmOneshotParallel pts as n b1 b2 prof = .factor d) : d ∣ n ∧ 0 ≤ d :=
  ecmOneshotParallel_factor_dvd pts as n b1 b2 prof d h

/-- `ecm::ecm`: whatever it returns is a proper divisor, for every n > 1, all bounds, every stream of
random draws, both profiles. -/
theorem ecm_returns_proper_divisor (n : Int) (hn : 1 < n) (b1 b2 : Nat) (stream : NTV.Draw.Stream)
    (fuel : Nat) (prof : Profile) (fac : Int) (c : Nat) (rest : NTV.Draw.Stream)
    (h : ecm n b1 b2 stream fuel prof = .found fac c rest) : 1 < fac ∧ fac < n ∧ fac ∣ n :=
  ecm_found_proper n hn b1 b2 stream fuel prof fac c rest h

/-- `ecm_parallel::ecm`: likewise. -/
theorem ecm_parallel_returns_proper_divisor (n : Int) (hn : 1 < n) (b1 b2 : Nat) (stream : NTV.Draw.Stream)
    (fuel : Nat) (prof : Profile) (fac : Int) (c : Nat) (rest : NTV.Draw.Stream)
    (h : ecmParallel n b1 b2 stream fuel prof = .found fac c rest) : 1 < fac ∧ fac < n ∧ fac ∣ n :=
  ecmParallel_found_proper n hn b1 b2 stream fuel prof fac c rest h

/-- Sequential driver (dev profile), exactness: if `factorize_verbose(x)` returns, the product of the
returned `p^e` is x — for every x, every B1, every stream of draws. -/
theorem driver_seq_product (x : Int) (b : Nat) (stream : NTV.Draw.Stream) (fuel : Nat)
    (result : List (Int × Nat)) (count : Nat) (rest : NTV.Draw.Stream)
    (h : factorizeSeq x b stream fuel .dev = .ok result count rest) : prodPairs result = x :=
  factorizeSeq_product x b stream fuel result count rest h

/-- Batched driver (dev profile), exactness. This driver calls `select_b(&now)` for every work item it
hands to ECM: `b` is select_b(x) and `btab` lists select_b(d) for the other items above 1000; the
statement holds for every `b` and every table (the bound never matters for correctness; an item
missing from the table ends the run as `.inconclusive`, never with a value). -/
theorem driver_par_product (x : Int) (b : Nat) (btab : List (Int × Nat)) (stream : NTV.Draw.Stream) (fuel : Nat)
    (result : List (Int × Nat)) (count : Nat) (rest : NTV.Draw.Stream)
    (h : factorizePar x b btab stream fuel .dev = .ok result count rest) : prodPairs result = x :=
  factorizePar_product x b btab stream fuel result count rest h

/-- Dev profile: the two stage-2 starting exponents are computed without overflow/underflow for every
B1 < 2^64 − 1 (false for the earlier `(b1 + 1) / 6 * 6 - 1` at every B1 < 5). -/
theorem stage2_start_dev_ok (b1 : Nat) (h : b1 + 1 < two64) :
    stage2Inits .dev b1 = .ok ((b1 - 1) / 6 * 6 + 1, max ((b1 + 1) / 6 * 6) 6 - 1) :=
  stage2Inits_dev b1 h

/-- Dev profile: `ecm_oneshot` never panics when B1 + 1 and B2 + 6 fit in u64 (select_b returns at
most u64::MAX / 100 and the drivers use B2 = 100·B1). -/
theorem oneshot_dev_never_panics (pt : Point) (a n : Int) (b1 b2 : Nat)
    (h1 : b1 + 1 < two64) (h2 : b2 + 6 < two64) (k : String) :
    ecmOneshot pt a n b1 b2 .dev ≠ .panic k :=
  ecmOneshot_dev_no_panic pt a n b1 b2 h1 h2 k

/-- non-vacuity: an `Err` does occur (z = 3 modulo 15), and the B1 = 4 start values are (1, 5) -/
example : simplify ⟨1, 1, 3⟩ 15 = .error 3 := by
  unfold simplify
  have h : (Int.gcd 3 15 : Int) = 3 := by decide
  simp [(NTV.inv_spec 3 15 (by decide)).2 (by decide), h]
example : stage2Inits .dev 4 = .ok (1, 5) := by decide

/-! ## The work-stack drivers: product (both profiles), sortedness, provenance of the entries, uniqueness

`factorizeSeq` = `ecm::factorize_verbose`, `factorizePar` = `ecm_parallel::factorize_verbose` (what
`rfactor` calls). The sequential driver uses one bound `b = select_b(x)` for the whole run; the batched
driver uses `select_b(&now)` per work item (`parBsel x b btab`: 4 for now ≤ 1000, `b` for now = x, else
the table `btab`). Every statement about `factorizePar` is for every `b` and every `btab`.
All statements are about runs that return (`.ok result count rest`): termination of
the curve loop is probabilistic and is not a theorem.

Why the earlier product theorems say `.dev`: multiplicities are `u64`. With overflow checks a wrapped
`multiplicity * k` or `+= multiplicity` panics; in release it wraps silently, and then the product is
wrong. A multiplicity e always satisfies `2^e ≤ p^e ≤ x`, so wrapping needs `x ≥ 2^(2^64)`
(an input of more than 2 EiB): the release theorems carry the hypothesis `x < 2 ^ two64`
(`two64 = 2^64`), and `release_wrap_witness` shows that at `x = 2^(2^64)` the release drivers return a wrong answer. -/

/-- `FacRes.ok` projected on its result (for the closed examples; `FacRes` has no decidable equality) -/
def okResult : FacRes → Option (List (Int × Nat))
  | .ok r _ _ => some r
  | _ => none

theorem okResult_some (r : FacRes) (l : List (Int × Nat)) (h : okResult r = some l) :
    ∃ count rest, r = .ok l count rest := by
  cases r with
  | ok r c s => simp only [okResult, Option.some.injEq] at h; subst h; exact ⟨c, s, rfl⟩
  | panic k => simp [okResult] at h
  | inconclusive w => simp [okResult] at h

/-- the all-zero 4-byte chunk: every draw decodes to the lower bound of its range -/
def zchunk : List Nat := [0, 0, 0, 0]

/-- Sequential driver, **release** profile, exactness: the product of the returned `p^e` is x, for
every `x < 2^(2^64)`, every B1, every stream of draws. -/
theorem driver_seq_product_release (x : Int) (hx : x < 2 ^ two64) (b : Nat) (stream : NTV.Draw.Stream)
    (fuel : Nat) (result : List (Int × Nat)) (count : Nat) (rest : NTV.Draw.Stream)
    (h : factorizeSeq x b stream fuel .release = .ok result count rest) : prodPairs result = x :=
  (factorizeWith_arith _ (seq_hE .release) x _ stream fuel .release (Or.inr hx) result count rest h).1

/-- Batched driver, **release** profile, exactness (same hypothesis; every B1 and every table of per-item bounds). -/
theorem driver_par_product_release (x : Int) (hx : x < 2 ^ two64) (b : Nat) (btab : List (Int × Nat)) (stream : NTV.Draw.Stream)
    (fuel : Nat) (result : List (Int × Nat)) (count : Nat) (rest : NTV.Draw.Stream)
    (h : factorizePar x b btab stream fuel .release = .ok result count rest) : prodPairs result = x :=
  (factorizeWith_arith _ (par_hE .release) x _ stream fuel .release (Or.inr hx) result count rest h).1

/-- The hypothesis `x < 2^(2^64)` of the release theorems is needed, and the property "the product is
x" is **false in release at x = 2^(2^64)**: for every B1, every stream and every fuel ≥ 2 both drivers
find the perfect power `2^(2^64)`, compute the multiplicity `1 * 2^64 mod 2^64 = 0` and return
`[(2, 0)]`, whose product is 1. (In dev the same run panics with "overflow".) -/
theorem release_wrap_witness (b : Nat) (btab : List (Int × Nat)) (stream : NTV.Draw.Stream) (fuel : Nat) :
    factorizeSeq (((2 ^ two64 : Nat)) : Int) b stream (fuel + 2) .release = .ok [(2, 0)] 0 stream ∧
    factorizePar (((2 ^ two64 : Nat)) : Int) b btab stream (fuel + 2) .release = .ok [(2, 0)] 0 stream ∧
    prodPairs [(2, 0)] ≠ (((2 ^ two64 : Nat)) : Int) :=
  ⟨factorizeWith_release_wrap _ _ stream fuel, factorizeWith_release_wrap _ _ stream fuel, wrap_product_ne⟩

/-- **Shape of every returned result** (either driver, either profile): x ≥ 1, the list is strictly
increasing in the first component; and when no multiplicity can wrap (dev, or x < 2^(2^64)) every
entry is ≥ 2 with exponent ≥ 1. -/
theorem driver_sorted (x : Int) (b : Nat) (btab : List (Int × Nat)) (stream : NTV.Draw.Stream) (fuel : Nat) (prof : Profile)
    (result : List (Int × Nat)) (count : Nat) (rest : NTV.Draw.Stream)
    (h : factorizeSeq x b stream fuel prof = .ok result count rest ∨
         factorizePar x b btab stream fuel prof = .ok result count rest) :
    1 ≤ x ∧ result.Pairwise (fun p q => p.1 < q.1) ∧
      (prof = .dev ∨ x < 2 ^ two64 → ∀ pe ∈ result, 2 ≤ pe.1 ∧ 1 ≤ pe.2) := by
  rcases h with h | h
  · obtain ⟨h1, h2, _, _⟩ := factorizeWith_structure _ (seq_hS prof) x _ stream fuel prof result count rest h
    exact ⟨h1, h2, fun hnw => (factorizeWith_arith _ (seq_hE prof) x _ stream fuel prof hnw result count rest h).2⟩
  · obtain ⟨h1, h2, _, _⟩ := factorizeWith_structure _ (par_hS prof) x _ stream fuel prof result count rest h
    exact ⟨h1, h2, fun hnw => (factorizeWith_arith _ (par_hE prof) x _ stream fuel prof hnw result count rest h).2⟩

/-- x = 1: both drivers return the empty list after one iteration, without drawing anything
(this one *is* a termination statement: any fuel ≥ 1 suffices). -/
theorem driver_one (b : Nat) (btab : List (Int × Nat)) (stream : NTV.Draw.Stream) (fuel : Nat) (prof : Profile) :
    factorizeSeq 1 b stream (fuel + 1) prof = .ok [] 0 stream ∧
    factorizePar 1 b btab stream (fuel + 1) prof = .ok [] 0 stream :=
  ⟨factorizeWith_one _ _ stream fuel prof, factorizeWith_one _ _ stream fuel prof⟩

/-- x ≤ 0: both drivers take the documented `panic!("x <= 0")`, in both profiles. -/
theorem driver_nonpos (x : Int) (hx : x ≤ 0) (b : Nat) (btab : List (Int × Nat)) (stream : NTV.Draw.Stream) (fuel : Nat) (prof : Profile) :
    factorizeSeq x b stream fuel prof = .panic "other" ∧ factorizePar x b btab stream fuel prof = .panic "other" :=
  ⟨factorizeWith_nonpos _ x hx _ stream fuel prof, factorizeWith_nonpos _ x hx _ stream fuel prof⟩

/-- **Provenance of the entries** (either driver, either profile): every returned p was accepted by
the primality test reading a segment `s₁ … s₂` of the draw stream of the run (s₁ a suffix of the
input stream, s₂ what the test left); the unconsumed stream `rest` is a suffix of the input. -/
theorem driver_entries_accepted (x : Int) (b : Nat) (btab : List (Int × Nat)) (stream : NTV.Draw.Stream) (fuel : Nat) (prof : Profile)
    (result : List (Int × Nat)) (count : Nat) (rest : NTV.Draw.Stream)
    (h : factorizeSeq x b stream fuel prof = .ok result count rest ∨
         factorizePar x b btab stream fuel prof = .ok result count rest) :
    rest <:+ stream ∧
    ∀ pe ∈ result, ∃ s₁ s₂ : NTV.Draw.Stream, s₁ <:+ stream ∧ s₂ <:+ s₁ ∧
      NTV.Prime.isPrimeS pe.1 s₁ = some (true, s₂) := by
  rcases h with h | h
  · obtain ⟨_, _, h3, h4⟩ := factorizeWith_structure _ (seq_hS prof) x _ stream fuel prof result count rest h
    exact ⟨h3, h4⟩
  · obtain ⟨_, _, h3, h4⟩ := factorizeWith_structure _ (par_hS prof) x _ stream fuel prof result count rest h
    exact ⟨h3, h4⟩

/-- **Uniqueness, given prime entries** (either driver; dev, or release with x < 2^(2^64)): if the
returned first components are prime, the result is THE prime factorisation of x — read over ℕ it is
the list computed by trial division (`trial_division_entries`: exactly the `(p, v_p(x))`). -/
theorem driver_unique_of_prime_entries (x : Int) (b : Nat) (btab : List (Int × Nat)) (stream : NTV.Draw.Stream) (fuel : Nat)
    (prof : Profile) (hnw : prof = .dev ∨ x < 2 ^ two64)
    (result : List (Int × Nat)) (count : Nat) (rest : NTV.Draw.Stream)
    (h : factorizeSeq x b stream fuel prof = .ok result count rest ∨
         factorizePar x b btab stream fuel prof = .ok result count rest)
    (hprime : ∀ pe ∈ result, Nat.Prime pe.1.toNat) :
    result.map (fun pe => (pe.1.toNat, pe.2)) = NTV.Trial.factorize x.toNat := by
  obtain ⟨hx, hsorted, hge⟩ := driver_sorted x b btab stream fuel prof result count rest h
  have hprod : prodPairs result = x := by
    rcases h with h | h
    · exact (factorizeWith_arith _ (seq_hE prof) x _ stream fuel prof hnw result count rest h).1
    · exact (factorizeWith_arith _ (par_hE prof) x _ stream fuel prof hnw result count rest h).1
  exact result_eq_factorize x hx result hprod hsorted (hge hnw) hprime

/-- **Uniqueness, given sound tests**: the only way a returned run can differ from the prime
factorisation is a wrong `true` of Miller–Rabin on one of the returned entries. If every acceptance
of a returned entry on a segment of the run's stream was correct, the result is the prime
factorisation of x. (That Miller–Rabin can accept a composite on an adversarial stream is a recorded
finding: on the all-zero stream every base is 1 and every odd n < 2^32 passes.) -/
theorem driver_unique_of_sound_tests (x : Int) (b : Nat) (btab : List (Int × Nat)) (stream : NTV.Draw.Stream) (fuel : Nat)
    (prof : Profile) (hnw : prof = .dev ∨ x < 2 ^ two64)
    (result : List (Int × Nat)) (count : Nat) (rest : NTV.Draw.Stream)
    (h : factorizeSeq x b stream fuel prof = .ok result count rest ∨
         factorizePar x b btab stream fuel prof = .ok result count rest)
    (hsound : ∀ pe ∈ result, ∀ s₁ s₂ : NTV.Draw.Stream, s₁ <:+ stream →
      NTV.Prime.isPrimeS pe.1 s₁ = some (true, s₂) → Nat.Prime pe.1.toNat) :
    result.map (fun pe => (pe.1.toNat, pe.2)) = NTV.Trial.factorize x.toNat := by
  refine driver_unique_of_prime_entries x b btab stream fuel prof hnw result count rest h ?_
  intro pe hpe
  obtain ⟨s₁, s₂, h1, _, h3⟩ := (driver_entries_accepted x b btab stream fuel prof result count rest h).2 pe hpe
  exact hsound pe hpe s₁ s₂ h1 h3

/-- **Trial division is the unique answer**: any strictly increasing list of (prime, positive
exponent) with product n ≥ 1 equals the list returned by the model of `factorize::factorize`. -/
theorem trial_division_unique (n : Nat) (hn : 1 ≤ n) (l : List (Nat × Nat))
    (hprimes : ∀ qe ∈ l, qe.1.Prime ∧ 0 < qe.2) (hsorted : l.Pairwise (fun a b => a.1 < b.1))
    (hprod : NTV.Trial.prodOf l = n) : l = NTV.Trial.factorize n :=
  NTV.Trial.eq_factorize n hn l ⟨hprimes, hsorted⟩ hprod

/-- …and its entries are exactly the pairs (p, v_p(n)) for the prime divisors p of n
(`Nat.factorization` is Mathlib's multiplicity function). -/
theorem trial_division_entries (n : Nat) (hn : 1 ≤ n) (p e : Nat) :
    (p, e) ∈ NTV.Trial.factorize n ↔ p.Prime ∧ p ∣ n ∧ e = n.factorization p :=
  NTV.Trial.mem_factorize_iff n hn p e

/-! ### non-vacuity: x = 12 on the all-zero stream (curve a = x = y = 1 gives the factor 4; the 20
Miller–Rabin rounds for 3 each draw the base 1), all four driver/profile combinations return
`[(2, 2), (3, 1)]`, and the theorems apply to these runs. -/

theorem run12_seq_dev : okResult (factorizeSeq 12 4 (List.replicate 23 zchunk) 10 .dev) = some [(2, 2), (3, 1)] := by
  decide +kernel
theorem run12_seq_release :
    okResult (factorizeSeq 12 4 (List.replicate 23 zchunk) 10 .release) = some [(2, 2), (3, 1)] := by
  decide +kernel
theorem run12_par_dev : okResult (factorizePar 12 4 [] (List.replicate 26 zchunk) 10 .dev) = some [(2, 2), (3, 1)] := by
  decide +kernel
theorem run12_par_release :
    okResult (factorizePar 12 4 [] (List.replicate 26 zchunk) 10 .release) = some [(2, 2), (3, 1)] := by
  decide +kernel

/-- the per-item bound of the batched driver: 4 up to 1000, `b` for the input, the table otherwise,
`none` (run dropped as inconclusive) for an item the table does not list -/
example : parBsel 2006 9 [(1003, 7)] 15 = some 4 ∧ parBsel 2006 9 [(1003, 7)] 2006 = some 9 ∧
    parBsel 2006 9 [(1003, 7)] 1003 = some 7 ∧ parBsel 2006 9 [] 1003 = none := by decide

/-- 12 < 2^(2^64) without evaluating the power -/
theorem twelve_lt : (12 : Int) < 2 ^ two64 :=
  calc (12 : Int) < 2 ^ 4 := by norm_num
    _ ≤ 2 ^ two64 := pow_le_pow_right₀ (by norm_num) (by unfold two64; norm_num)

example : prodPairs [(2, 2), (3, 1)] = 12 := by
  obtain ⟨c, r, h⟩ := okResult_some _ _ run12_seq_release
  exact driver_seq_product_release 12 twelve_lt 4 _ 10 _ c r h
example : prodPairs [(2, 2), (3, 1)] = 12 := by
  obtain ⟨c, r, h⟩ := okResult_some _ _ run12_par_release
  exact driver_par_product_release 12 twelve_lt 4 [] _ 10 _ c r h
example : ([(2, 2), (3, 1)] : List (Int × Nat)).Pairwise (fun p q => p.1 < q.1) := by
  obtain ⟨c, r, h⟩ := okResult_some _ _ run12_par_dev
  exact (driver_sorted 12 4 [] _ 10 .dev _ c r (Or.inr h)).2.1
example : ∃ s₁ s₂ : NTV.Draw.Stream, s₁ <:+ List.replicate 23 zchunk ∧ s₂ <:+ s₁ ∧
    NTV.Prime.isPrimeS 3 s₁ = some (true, s₂) := by
  obtain ⟨c, r, h⟩ := okResult_some _ _ run12_seq_dev
  exact (driver_entries_accepted 12 4 [] _ 10 .dev _ c r (Or.inl h)).2 (3, 1) (by simp)
example : ([(2, 2), (3, 1)] : List (Int × Nat)).map (fun pe => (pe.1.toNat, pe.2)) = NTV.Trial.factorize 12 := by
  obtain ⟨c, r, h⟩ := okResult_some _ _ run12_seq_release
  refine driver_unique_of_sound_tests 12 4 [] _ 10 .release (Or.inr twelve_lt) _ c r (Or.inl h) ?_
  intro pe hpe _ _ _ _
  simp only [List.mem_cons, List.not_mem_nil, or_false] at hpe
  rcases hpe with rfl | rfl
  · show Nat.Prime 2; norm_num
  · show Nat.Prime 3; norm_num
example : NTV.Trial.factorize 12 = [(2, 2), (3, 1)] :=
  (trial_division_unique 12 (by norm_num) [(2, 2), (3, 1)]
    (by intro qe h; simp only [List.mem_cons, List.not_mem_nil, or_false] at h; rcases h with rfl | rfl <;> norm_num)
    (by simp) (by simp [NTV.Trial.prodOf])).symm
example : (3, 1) ∈ NTV.Trial.factorize 12 :=
  (trial_division_entries 12 (by norm_num) 3 1).mpr
    ⟨by norm_num, by norm_num, by
      have : (12 : ℕ) = 3 ^ 1 * 4 := by norm_num
      rw [this, Nat.factorization_mul (by norm_num) (by norm_num), Nat.Prime.factorization_pow (by norm_num)]
      have h4 : (4 : ℕ).factorization 3 = 0 := Nat.factorization_eq_zero_of_not_dvd (by norm_num)
      simp [h4]⟩

end NTV.C01
