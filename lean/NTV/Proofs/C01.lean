import NTV.Proofs.Lemmas.EcmProofs
import NTV.Proofs.Lemmas.TrialProofs
/-! # C01 — integer factorisation: what is proved about the model
(`NTV.Ecm` = ecm.rs + ecm_parallel.rs, `NTV.Trial` = factorize.rs; tied to the code by the
correspondence check, which replays the captured random history of every run into the model).
Only property-level statements live here; helper lemmas are in `NTV.Proofs.Lemmas.EcmProofs/TrialProofs`.

Not theorems (see `lib/propinfo.py`, gaps): termination of the curve loop (probabilistic; false for a
constant stream), primality of what `is_prime` accepts (Miller–Rabin, C13), `select_b`'s float formula. -/
namespace NTV.C01
open NTV.Ecm

/-- Trial division, full: for every n ≥ 1 the model of `factorize::factorize` terminates and returns
primes with positive exponents, strictly increasing, with product n. -/
theorem trial_division_correct (n : Nat) (hn : 1 ≤ n) :
    n = NTV.Trial.prodOf (NTV.Trial.factorize n) ∧
    (∀ qe ∈ NTV.Trial.factorize n, qe.1.Prime ∧ 0 < qe.2) ∧
    (NTV.Trial.factorize n).Pairwise (fun a b => a.1 < b.1) := NTV.Trial.factorize_correct n hn

/-- Every `Err(d)` leaving `ecm_oneshot` is a non-negative divisor of n — for all points, curves,
bounds and both build profiles. -/
theorem oneshot_err_divides (pt : Point) (a n : Int) (b1 b2 : Nat) (prof : Profile) (d : Int)
    (h : ecmOneshot pt a n b1 b2 prof = .factor d) : d ∣ n ∧ 0 ≤ d :=
  ecmOneshot_factor_dvd pt a n b1 b2 prof d h

/-- The same for the batched version (one Montgomery inversion per step for the whole batch). -/
theorem oneshot_parallel_err_divides (pts : List Point) (as : List Int) (n : Int) (b1 b2 : Nat)
    (prof : Profile) (d : Int) (h : ecmOneshotParallel pts as n b1 b2 prof = .factor d) : d ∣ n ∧ 0 ≤ d :=
  ecmOneshotParallel_factor_dvd pts as n b1 b2 prof d h

/-- `ecm::ecm`: whatever it returns is a proper divisor, for every n > 1, all bounds, every stream of
random draws, both profiles. -/
theorem ecm_returns_proper_divisor (n : Int) (hn : 1 < n) (b1 b2 : Nat) (stream : NTV.Draw.Stream)
    (fuel : Nat) (prof : Profile) (fac : Int) (c : Nat) (rest : NTV.Draw.Stream)
    (h : ecm n b1 b2 stream fuel prof = .found fac c rest) : 1 < fac ∧ fac < n ∧ fac ∣ n :=
  ecm_found_proper n hn b1 b2 stream fuel prof fac c rest h

/-- `ecm_parallel::ecm`: likewise. -/
theorem ecm_parallel_returns_proper_divisor (n : Int) (hn : 1 < n) (b1 b2 : Nat) (stream : NTV.Draw.Stream)
    (fuel : Nat) (prof : Profile) (fac : Int) (c : Nat) (rest : NTV.Draw.Stream)
    (h : ecmParallel n b1 b2 stream fuel prof = .found fac c rest) : 1 < fac ∧ fac < n ∧ fac ∣ n :=
  ecmParallel_found_proper n hn b1 b2 stream fuel prof fac c rest h

/-- Sequential driver (dev profile), exactness: if `factorize_verbose(x)` returns, the product of the
returned `p^e` is x — for every x, every B1, every stream of draws. -/
theorem driver_seq_product (x : Int) (b : Nat) (stream : NTV.Draw.Stream) (fuel : Nat)
    (result : List (Int × Nat)) (count : Nat) (rest : NTV.Draw.Stream)
    (h : factorizeSeq x b stream fuel .dev = .ok result count rest) : prodPairs result = x :=
  factorizeSeq_product x b stream fuel result count rest h

/-- Batched driver (dev profile), exactness. -/
theorem driver_par_product (x : Int) (b : Nat) (stream : NTV.Draw.Stream) (fuel : Nat)
    (result : List (Int × Nat)) (count : Nat) (rest : NTV.Draw.Stream)
    (h : factorizePar x b stream fuel .dev = .ok result count rest) : prodPairs result = x :=
  factorizePar_product x b stream fuel result count rest h

/-- Dev profile: the two stage-2 starting exponents are computed without overflow/underflow for every
B1 < 2^64 − 1 (false for the earlier `(b1 + 1) / 6 * 6 - 1` at every B1 < 5). -/
theorem stage2_start_dev_ok (b1 : Nat) (h : b1 + 1 < two64) :
    stage2Inits .dev b1 = .ok ((b1 - 1) / 6 * 6 + 1, max ((b1 + 1) / 6 * 6) 6 - 1) :=
  stage2Inits_dev b1 h

/-- Dev profile: `ecm_oneshot` never panics when B1 + 1 and B2 + 6 fit in u64 (select_b returns at
most u64::MAX / 100 and the drivers use B2 = 100·B1). -/
theorem oneshot_dev_never_panics (pt : Point) (a n : Int) (b1 b2 : Nat)
    (h1 : b1 + 1 < two64) (h2 : b2 + 6 < two64) (k : String) :
    ecmOneshot pt a n b1 b2 .dev ≠ .panic k :=
  ecmOneshot_dev_no_panic pt a n b1 b2 h1 h2 k

/-- non-vacuity: an `Err` does occur (z = 3 modulo 15), and the B1 = 4 start values are (1, 5) -/
example : simplify ⟨1, 1, 3⟩ 15 = .error 3 := by
  unfold simplify
  have h : (Int.gcd 3 15 : Int) = 3 := by decide
  simp [(NTV.inv_spec 3 15 (by decide)).2 (by decide), h]
example : stage2Inits .dev 4 = .ok (1, 5) := by decide

end NTV.C01
