import NTV.Proofs.Lemmas.HnfCanon
import NTV.Proofs.Lemmas.HnfDet
/-! # C02 — the Hermite normal form is the canonical basis of the row lattice.
`A` is any rectangular integer matrix with n ≥ 1 rows and m ≥ 1 columns. -/
namespace NTV.C02
open NTV.Hnf Matrix

/-- the routine terminates and its result is in normal form: every row has a last non-zero entry
(column `pv[t]`) which is positive, the pivot columns strictly increase, and every entry below a
pivot lies in `[0, pivot)` -/
theorem normal_form (A : Mat) (n m : Nat) (hr : Rect n m A) (hn : 0 < n) (hm : 0 < m) :
    ∃ H pv, hnfNew A = some H ∧ IsHNF H m pv := by
  obtain ⟨⟨H, U, k⟩, h1⟩ := Option.isSome_iff_exists.mp (hnfWithU_total A n m hr)
  obtain ⟨W, pv, R⟩ := Result.of_spec A n m hr hn hm H U k h1
  exact ⟨H, pv, by simp [hnfNew, h1], R.shape⟩

/-- the rows of H generate exactly the row lattice of A, and they are ℤ-linearly independent, so H has
exactly rank(A) rows -/
theorem same_lattice_and_rank (A : Mat) (n m : Nat) (hr : Rect n m A) (hn : 0 < n) (hm : 0 < m) :
    ∃ H W k, hnfNew A = some H ∧ H = W.drop k ∧ H.length = n - k ∧ k ≤ n ∧ Rect n m W ∧
      (∀ r < k, ∀ c < m, ent W r c = 0) ∧
      (∀ v : Fin m → ℤ, InLattice n m A v ↔
        ∃ d : Fin n → ℤ, (∀ r : Fin n, r.val < k → d r = 0) ∧ d ᵥ* toM n m W = v) ∧
      (∀ c : Fin n → ℤ, c ᵥ* toM n m W = 0 → ∀ r : Fin n, k ≤ r.val → c r = 0) := by
  obtain ⟨⟨H, U, k⟩, h1⟩ := Option.isSome_iff_exists.mp (hnfWithU_total A n m hr)
  obtain ⟨W, pv, R⟩ := Result.of_spec A n m hr hn hm H U k h1
  exact ⟨H, W, k, by simp [hnfNew, h1], R.hH, R.lenH, R.hk, R.rW, R.zero, R.span_eq, R.indep⟩

/-- canonicity: matrices (of any numbers of rows) generating the same lattice have identical normal
forms — row permutations, unimodular row operations, appended dependent or zero rows, different
generating sets are all instances -/
theorem canonical (A A' : Mat) (n n' m : Nat) (hr : Rect n m A) (hr' : Rect n' m A')
    (hn : 0 < n) (hn' : 0 < n') (hm : 0 < m)
    (hsame : ∀ v : Fin m → ℤ, InLattice n m A v ↔ InLattice n' m A' v) :
    hnfNew A = hnfNew A' := hnf_canonical A A' n n' m hr hr' hn hn' hm hsame

/-- the module-sum operation is the normal form of the stacked generators (and panics exactly on an
empty operand or a width mismatch) -/
theorem union_is_hnf_of_stack (a b : Mat) (ra rb : Row) (ta tb : Mat) (ha : a = ra :: ta) (hb : b = rb :: tb)
    (hw : ra.length = rb.length) : union a b = .ok (hnfNew (a ++ b)) := by
  subst ha hb; simp [union, hw]

/-- for a square full-rank input (k = 0) the reported determinant is the lattice index |det A| -/
theorem determinant_is_index (A : Mat) (n : Nat) (hr : Rect n n A) (hn : 0 < n)
    (H U : Mat) (hres : hnfWithU A = some (H, U, 0)) :
    determinant H = |(toM n n A).det| := determinant_eq_index A n hr hn H U hres

/-- non-vacuity -/
example : Rect 2 2 [[3, 1], [1, 1]] ∧ 0 < 2 := ⟨⟨rfl, by simp⟩, by decide⟩

end NTV.C02
