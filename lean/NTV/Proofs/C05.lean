import NTV.Model.Resultant
import NTV.Proofs.C04
/-! # C05 — discriminant. -/
open Polynomial
namespace NTV.C05
open NTV.PolyG NTV.Res

theorem sign_aux (n : Nat) : (-1 : Int) ^ (n * (n - 1) / 2) = if n % 4 = 2 ∨ n % 4 = 3 then -1 else 1 := by
  induction n with
  | zero => simp
  | succ n ih =>
    rw [Nat.triangle_succ, pow_add, ih]
    rcases Nat.even_or_odd n with he | ho
    · rw [Even.neg_one_pow he]
      have := Nat.even_iff.mp he
      by_cases h : n % 4 = 2 ∨ n % 4 = 3
      · have h2 : (n + 1) % 4 = 2 ∨ (n + 1) % 4 = 3 := by omega
        simp [h, h2]
      · have h2 : ¬ ((n + 1) % 4 = 2 ∨ (n + 1) % 4 = 3) := by omega
        simp [h, h2]
    · rw [Odd.neg_one_pow ho]
      have := Nat.odd_iff.mp ho
      by_cases h : n % 4 = 2 ∨ n % 4 = 3
      · have h2 : ¬ ((n + 1) % 4 = 2 ∨ (n + 1) % 4 = 3) := by omega
        simp [h, h2]
      · have h2 : (n + 1) % 4 = 2 ∨ (n + 1) % 4 = 3 := by omega
        simp [h, h2]

/-- the sign test `deg % 4 ∈ {2, 3}` of discriminant.rs is exactly (−1)^(n(n−1)/2) = −1, for every n -/
theorem sign_rule (n : Nat) : (n % 4 = 2 ∨ n % 4 = 3) ↔ (-1 : Int) ^ (n * (n - 1) / 2) = -1 := by
  rw [sign_aux]
  by_cases h : n % 4 = 2 ∨ n % 4 = 3 <;> simp [h]

/-- the zero polynomial is refused (the `assert!`) -/
theorem zero_panics : discriminant [] = .error "assert" := by
  simp [discriminant, discriminantE]

/-- degree 1: the discriminant is 1 -/
theorem linear (c0 c1 : Int) (h : c1 ≠ 0) : discriminant [c0, c1] = .ok (1, true) := by
  have hd : differential [c0, c1] = [c1] := by
    simp [differential, derivAux, fromRaw, h]
  have hr := NTV.C04.smart_const_right [c0, c1] c1 (by simp)
  simp only [List.length_cons, List.length_nil] at hr
  simp [discriminant, discriminantE, hd, hr, tdivX, h, lc, Int.tdiv_self, Int.tmod_self]

end NTV.C05
