import NTV.Model.Resultant
import NTV.Proofs.C04
import NTV.Proofs.Lemmas.SubresLoop
import NTV.Proofs.Lemmas.Subres2Loop
/-! # C05 — discriminant. -/
open Polynomial
namespace NTV.C05
open NTV.PolyG NTV.Res

theorem sign_aux (n : Nat) : (-1 : Int) ^ (n * (n - 1) / 2) = if n % 4 = 2 ∨ n % 4 = 3 then -1 else 1 := by
  induction n with
  | zero => simp
  | succ n ih =>
    rw [Nat.triangle_succ, pow_add, ih]
    rcases Nat.even_or_odd n with he | ho
    · rw [Even.neg_one_pow he]
      have := Nat.even_iff.mp he
      by_cases h : n % 4 = 2 ∨ n % 4 = 3
      · have h2 : (n + 1) % 4 = 2 ∨ (n + 1) % 4 = 3 := by omega
        simp [h, h2]
      · have h2 : ¬ ((n + 1) % 4 = 2 ∨ (n + 1) % 4 = 3) := by omega
        simp [h, h2]
    · rw [Odd.neg_one_pow ho]
      have := Nat.odd_iff.mp ho
      by_cases h : n % 4 = 2 ∨ n % 4 = 3
      · have h2 : ¬ ((n + 1) % 4 = 2 ∨ (n + 1) % 4 = 3) := by omega
        simp [h, h2]
      · have h2 : (n + 1) % 4 = 2 ∨ (n + 1) % 4 = 3 := by omega
        simp [h, h2]

/-- the sign test `deg % 4 ∈ {2, 3}` of discriminant.rs is exactly (−1)^(n(n−1)/2) = −1, for every n -/
theorem sign_rule (n : Nat) : (n % 4 = 2 ∨ n % 4 = 3) ↔ (-1 : Int) ^ (n * (n - 1) / 2) = -1 := by
  rw [sign_aux]
  by_cases h : n % 4 = 2 ∨ n % 4 = 3 <;> simp [h]

/-- the zero polynomial is refused (the `assert!`) -/
theorem zero_panics : discriminant [] = .error "assert" := by
  simp [discriminant, discriminantE]

/-- degree 1: the discriminant is 1 -/
theorem linear (c0 c1 : Int) (h : c1 ≠ 0) : discriminant [c0, c1] = .ok (1, true) := by
  have hd : differential [c0, c1] = [c1] := by
    simp [differential, derivAux, fromRaw, h]
  have hr := NTV.C04.smart_const_right [c0, c1] c1 (by simp)
  simp only [List.length_cons, List.length_nil] at hr
  simp [discriminant, discriminantE, hd, hr, tdivX, h, lc, Int.tdiv_self, Int.tmod_self]

/-- C05, partial (under the exactness flag carried by the model, which the check asserts on every
explored case): for every canonical f ∈ ℤ[x] of degree ≥ 1 the value returned by `discriminant` is
Mathlib's `Polynomial.discr` — i.e. (−1)^(n(n−1)/2)·Res(f, f′)/lc(f) with Res the Sylvester determinant. -/
theorem discriminant_is_discr_partial (f : List Int) (hc : Canon f) (hlen : 2 ≤ f.length) (q : Int)
    (h : discriminant f = .ok (q, true)) : q = (toPoly f).discr := by
  have hne : f ≠ [] := by intro e; simp [e] at hlen
  have hF := natDegree_toPoly f hne hc
  have hn : (toPoly f).natDegree = f.length - 1 := hF.1
  have hdegpos : 0 < (toPoly f).degree := by
    rw [← natDegree_pos_iff_degree_pos, hn]; omega
  -- the derivative is non-zero, canonical
  have hd := toPoly_differential f
  have hdn : (toPoly (differential f)).natDegree = f.length - 2 := by
    rw [hd, natDegree_derivative, hn]; omega
  have hdne : differential f ≠ [] := by
    intro e
    have h0 : derivative (toPoly f) = 0 := by rw [← hd, e]; simp [toPoly]
    have := natDegree_eq_zero_of_derivative_eq_zero h0
    omega
  unfold discriminant discriminantE at h
  have he : f.isEmpty = false := by cases f <;> simp_all
  simp only [he, Bool.false_eq_true, ↓reduceIte] at h
  cases hres : resultantSmartE f (differential f) with
  | none => rw [hres] at h; simp at h
  | some r =>
    rw [hres] at h
    cases r with
    | error e => simp at h
    | ok v =>
      obtain ⟨res, ok⟩ := v
      simp only [bind, Except.bind] at h
      cases htd : tdivX (if (f.length - 1) % 4 = 2 ∨ (f.length - 1) % 4 = 3 then -res else res) (lc f) with
      | error e => rw [htd] at h; simp at h
      | ok w =>
      rw [htd] at h
      obtain ⟨q', ok'⟩ := w
      simp only [pure, Except.pure, Except.ok.injEq, Prod.mk.injEq, Bool.and_eq_true] at h
      obtain ⟨rfl, rfl, rfl⟩ := h
      obtain ⟨hlc0, hq⟩ := tdivX_exact _ _ _ htd
      have hR := resultantSmart_exact f (differential f) hne hdne hc (canon_differential f) res hres
      -- Res(f, f') with the formal degrees (n, n-1) and Mathlib's discriminant
      have hrd := resultant_deriv hdegpos
      have e1 : resultant (toPoly f) (toPoly (differential f)) =
          resultant (toPoly f) (derivative (toPoly f)) (toPoly f).natDegree ((toPoly f).natDegree - 1) := by
        rw [resultant, hd, natDegree_derivative]; rfl
      rw [e1, hrd] at hR
      have hsign : (if (f.length - 1) % 4 = 2 ∨ (f.length - 1) % 4 = 3 then -res else res)
          = (-1) ^ ((f.length - 1) * (f.length - 1 - 1) / 2) * res := by
        rw [sign_aux]; split <;> ring
      rw [hsign, hR, hn, hF.2.1] at hq
      have hsq : ((-1 : Int) ^ ((f.length - 1) * (f.length - 1 - 1) / 2)) * ((-1) ^ ((f.length - 1) * (f.length - 1 - 1) / 2)) = 1 := by
        rw [← pow_add, ← two_mul, pow_mul]; simp
      have key : q' * lc f = (toPoly f).discr * lc f := by
        rw [hq]
        calc (-1 : Int) ^ ((f.length - 1) * (f.length - 1 - 1) / 2) *
              ((-1) ^ ((f.length - 1) * (f.length - 1 - 1) / 2) * lc f * (toPoly f).discr)
            = ((-1 : Int) ^ ((f.length - 1) * (f.length - 1 - 1) / 2) * (-1) ^ ((f.length - 1) * (f.length - 1 - 1) / 2)) *
                (lc f * (toPoly f).discr) := by ring
          _ = (toPoly f).discr * lc f := by rw [hsq]; ring
      exact mul_right_cancel₀ hlc0 key

/-- `discriminant` neither panics nor runs out of fuel on a canonical f of degree ≥ 1, and all its
divisions (those of the subresultant recurrence and the final division by lc f) are exact — FULL -/
theorem discriminant_total (f : List Int) (hc : Canon f) (hlen : 2 ≤ f.length) :
    ∃ q, discriminant f = .ok (q, true) := by
  have hne : f ≠ [] := by intro e; simp [e] at hlen
  have hF := natDegree_toPoly f hne hc
  have hn : (toPoly f).natDegree = f.length - 1 := hF.1
  have hdegpos : 0 < (toPoly f).degree := by
    rw [← natDegree_pos_iff_degree_pos, hn]; omega
  have hd := toPoly_differential f
  have hdne : differential f ≠ [] := by
    intro e
    have h0 : derivative (toPoly f) = 0 := by rw [← hd, e]; simp [toPoly]
    have := Polynomial.derivative_eq_zero.mp h0
    omega
  obtain ⟨res, hres⟩ := resultantSmart_total f (differential f) hc (canon_differential f)
  have hR := resultantSmart_exact f (differential f) hne hdne hc (canon_differential f) res hres
  have hrd := resultant_deriv hdegpos
  have e1 : resultant (toPoly f) (toPoly (differential f)) =
      resultant (toPoly f) (derivative (toPoly f)) (toPoly f).natDegree ((toPoly f).natDegree - 1) := by
    rw [resultant, hd, natDegree_derivative]; rfl
  rw [e1, hrd, hF.2.1] at hR
  have hlc0 : lc f ≠ 0 := lc_ne_zero f hne hc
  have hdvd : lc f ∣ (if (f.length - 1) % 4 = 2 ∨ (f.length - 1) % 4 = 3 then -res else res) := by
    have : lc f ∣ res := by rw [hR]; exact Dvd.dvd.mul_right (Dvd.intro_left _ rfl) _
    split
    · exact (dvd_neg).mpr this
    · exact this
  obtain ⟨t1, _⟩ := tdivX_of_dvd _ _ hlc0 hdvd
  have he : f.isEmpty = false := by cases f <;> simp_all
  refine ⟨Int.tdiv (if (f.length - 1) % 4 = 2 ∨ (f.length - 1) % 4 = 3 then -res else res) (lc f), ?_⟩
  unfold discriminant discriminantE
  simp only [he, Bool.false_eq_true, ↓reduceIte, hres, bind, Except.bind, t1, pure, Except.pure, Bool.and_self]

/-- C05 — FULL (no flag hypothesis): for every canonical f ∈ ℤ[x] of degree ≥ 1, `discriminant` returns
Mathlib's `Polynomial.discr` — i.e. (−1)^(n(n−1)/2)·Res(f, f′)/lc(f) with Res the Sylvester determinant —
with every division exact. -/
theorem discriminant_is_discr (f : List Int) (hc : Canon f) (hlen : 2 ≤ f.length) :
    discriminant f = .ok ((toPoly f).discr, true) := by
  obtain ⟨q, hq⟩ := discriminant_total f hc hlen
  rw [hq, discriminant_is_discr_partial f hc hlen q hq]

/-- instance: disc(x³ − x − 1) = −23 -/
example : discriminant [-1, -1, 0, 1] = .ok (-23, true) := by decide +kernel

end NTV.C05
