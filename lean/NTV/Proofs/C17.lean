import NTV.Model.Ideal
import NTV.Proofs.Lemmas.DecompProofsA
import NTV.Proofs.Lemmas.DecompProofsC
import NTV.Proofs.C16
import NTV.Proofs.Lemmas.KummerDedekindG
import NTV.Proofs.Lemmas.NoPanicDecompose
import NTV.Proofs.Lemmas.MaxOrderClosedD
import NTV.Proofs.C14
import Mathlib.NumberTheory.Zsqrtd.GaussianInt
import Mathlib.Algebra.Polynomial.SpecificDegree
/-! # C17 — decomposition of a rational prime.
First the refusal guard and the machine-word clause, then the structural part (shape of a run, degrees, the
lattices of the returned ideals), then — last section, `kummer_dedekind` — the Kummer–Dedekind theorem itself:
primality of the P_i, norms, P_i ∩ ℤ, pairwise distinctness, and ∏P_i^e_i = (p) for the maximal order (with the
sharp criterion for an arbitrary order). -/
namespace NTV.C17
open NTV.Ideal

/-- the routine refuses (explicit panic) whenever p divides the index (O_K : ℤ[θ]) -/
theorem refuses_when_p_divides_index (f : List Int) (B : QMat) (t : Table) (p : Int) (s : NTV.Draw.Stream)
    (z : NTV.Ord.QMat) (idx : Int) (hf : f ≠ [])
    (hz : NTV.Ord.trivialOrderMonic f = .ok z) (hi : NTV.Ord.index B z = .ok idx)
    (hp : p ≠ 0) (hdiv : Int.tmod idx p = 0) :
    decompose f B t p s = .error "panic other" := by
  have he : f.isEmpty = false := by cases f <;> simp_all
  simp [decompose, he, hz, hi, hp, hdiv, bind, Except.bind, throw, throwThe, MonadExceptOf.throw]

/-- the machine-word copy handed to the modular factoriser: p itself when it fits a word, 0 otherwise
(what `p.try_into().unwrap_or(0)` yields); by C08 the value is irrelevant for p ≥ 2^64 -/
theorem word_copy (p : Int) : (0 ≤ p → p < 2 ^ 64 → (wordOf p : Int) = p) ∧ (2 ^ 64 ≤ p → wordOf p = 0) := by
  constructor
  · intro h0 h1
    have hc : 0 ≤ p ∧ p < 2 ^ 64 := ⟨h0, h1⟩
    unfold wordOf; rw [if_pos hc]; omega
  · intro h
    have hc : ¬ (0 ≤ p ∧ p < 2 ^ 64) := by omega
    unfold wordOf; rw [if_neg hc]


/-! ## The structural part, for every draw stream (runs returning `.ok`)

`f : List Int` is the monic minimal polynomial (`f.length = n + 1`, `lc f = 1`), `B` the basis matrix of
the order (rows = coordinates of ω_0 … ω_{n−1} in 1, θ, …, θ^{n−1}), `t` its multiplication table, `p` a
prime, `s` the stream of random draws of the modular factoriser (universally quantified). Vocabulary of
C16 (`Lat`, `vec`, `star`, `e`, `TableRing`, `IsOIdeal`) and C14 (`NTV.Ord.elt B a` = Σ a_k ω_k as an
element of ℚ[x]/(f)); `ratOf g` is the rational copy of g that the closure builds. The Kummer–Dedekind
statements proper (primality of the P_i, N(P_i) = p^{f_i}, ∏ P_i^{e_i} = (p)) are in the last section. -/
open NTV.PolyG NTV.PolyMod NTV.IdealP NTV.DecompP Polynomial
open NTV.RowOps (toM Rect)
open Matrix

/-- **(1) shape.** A successful run factorised f modulo p (with the machine-word copy of p and the same
stream) into pairs (g_i, e_i), and the result is, position by position, the pair (P_i, e_i) returned by
the closure `primeAbove` on (g_i, e_i); the index guard was passed: (O : ℤ[θ]) is an integer that p does
not divide (ℤ[θ] is stored as the identity matrix). -/
theorem decompose_shape (f : List Int) (n : Nat) (hn : 1 ≤ n) (hfl : f.length = n + 1) (hmonic : lc f = 1)
    (B : QMat) (t : Table) (p : Nat) (s : NTV.Draw.Stream) (res : List (HNF × Nat))
    (h : decompose f B t (p : Int) s = .ok res) :
    ∃ fs : Factors, factorizeModP f (p : Int) (wordOf p) s = .ok fs ∧ res.length = fs.length ∧
      (∀ i (h1 : i < fs.length) (h2 : i < res.length),
        res[i].2 = fs[i].2 ∧ primeAbove f B t (p : Int) fs[i].1 fs[i].2 = .ok res[i]) ∧
      ∃ idx : Int, NTV.Ord.trivialOrderMonic f = .ok (NTV.Ord.identityQ n) ∧
        NTV.Ord.index B (NTV.Ord.identityQ n) = .ok idx ∧ ¬ (p : Int) ∣ idx := by
  obtain ⟨z, idx, fs, _, hz, hidx, _, hmod, hfs, hmap⟩ := decompose_ok h
  obtain ⟨hl, hpt⟩ := (mapM_ok_iff _ fs res).mp hmap
  have hz' := (NTV.C15.power_basis_discriminant f n hn hfl hmonic).1
  rw [hz'] at hz
  cases hz
  refine ⟨fs, hfs, hl, fun i h1 h2 => ?_, idx, hz', hidx, fun hd => hmod (Int.dvd_iff_tmod_eq_zero.mp hd)⟩
  have hi := hpt i h1 h2
  refine ⟨?_, hi⟩
  have : (res[i].1, res[i].2) = res[i] := rfl
  rw [← this] at hi
  exact primeAbove_snd hi

/-- **(2) degrees.** With (g_i, e_i) the modular factors of a successful run: Σ e_i · deg g_i = n, the
multiplicities of the result are the e_i, every e_i ≥ 1, every g_i is monic of degree ≥ 1 and irreducible
over F_p, and the g_i are pairwise distinct. (`f.length < 2⁶⁴` holds for every coefficient vector; it is
only needed when p does not fit a machine word, as in C08.) -/
theorem degree_sum (f : List Int) (n : Nat) (hn : 1 ≤ n) (hfl : f.length = n + 1) (hmonic : lc f = 1)
    (B : QMat) (t : Table) (p : Nat) (hp : p.Prime) (hlen : 2 ^ 64 ≤ p → f.length < 2 ^ 64)
    (s : NTV.Draw.Stream) (res : List (HNF × Nat)) (h : decompose f B t (p : Int) s = .ok res) :
    ∃ fs : Factors, factorizeModP f (p : Int) (wordOf p) s = .ok fs ∧
      res.map Prod.snd = fs.map Prod.snd ∧
      (fs.map (fun x => x.2 * degU x.1)).sum = n ∧
      (∀ x ∈ fs, 1 ≤ x.2 ∧ 1 ≤ degU x.1 ∧ lc x.1 = 1 ∧
        Irreducible ((toPoly x.1).map (Int.castRingHom (ZMod p)))) ∧
      (fs.map Prod.fst).Nodup := by
  have : Fact p.Prime := ⟨hp⟩
  obtain ⟨fs, hfs, hl, hpt, _⟩ := decompose_shape f n hn hfl hmonic B t p s res h
  have hw : p < 2 ^ 64 → wordOf (p : Int) = p := by
    intro hlt
    have := (word_copy (p : Int)).1 (by omega) (by exact_mod_cast hlt)
    exact_mod_cast this
  have hpu : wordOf (p : Int) = p ∨ f.length ≤ p := by
    rcases Nat.lt_or_ge p (2 ^ 64) with h1 | h1
    · exact Or.inl (hw h1)
    · exact Or.inr (by have := hlen h1; omega)
  obtain ⟨c1, c2, _⟩ := NTV.C08.factorization_correct p hp f (wordOf p) s fs hw hlen hfs
  refine ⟨fs, hfs, ?_, degree_sum_core p f n hfl hmonic _ s fs hpu hfs, fun x hx => ?_, c2⟩
  · apply List.ext_getElem (by simp [hl])
    intro i h1 h2
    simp only [List.getElem_map]
    exact (hpt i (by simpa using h2) (by simpa using h1)).1
  · obtain ⟨a, _, _, d, e, g⟩ := c1 x hx
    refine ⟨e, ?_, a, g⟩
    have hemp : x.1.isEmpty = false := by cases hq : x.1 <;> simp_all
    unfold degU; rw [hemp]; simp only [Bool.false_eq_true, if_false]; omega

/-- **(3) the closure, as lattices.** For a table `t` that is a commutative ring on ℤⁿ with identity e_0
(`TableRing t n`), f of degree n and an n×n basis matrix B: if the closure returns (P, e) on (g, e) then
`P = (elem) + (p)` where both principal ideals were computed without a panic,
L(P) = L((elem)) + L((p)), L((elem)) = elem ⋆ ℤⁿ, L((p)) = pℤⁿ; P is an ideal of the order, contains
p·e_0 (so P ∩ ℤ ⊇ pℤ); and `elem` is
* for deg g < n: the result of `to_z_basis_int`, the integer solution of `elem · B = coefficients of g`,
  i.e. Σ_k elem_k ω_k = g(θ) as elements of ℚ[x]/(f);
* for deg g ≥ n (only deg g = n can occur for a factor of f mod p: p inert, g ≡ f): the zero vector —
  the shortcut of the code for g(θ) ≡ f(θ) = 0 — and then (elem) = 0, P = (p). -/
theorem prime_above_lattice (t : Table) (n : Nat) (T : TableRing t n) (f : List Int) (hfl : f.length = n + 1)
    (B : QMat) (hB : Rect n n B) (p : Int) (g : List Int) (m : Nat) (P : HNF) (m' : Nat)
    (h : primeAbove f B t p g m = .ok (P, m')) :
    ∃ elem A Z, elem.length = n ∧ principal t elem = .ok A ∧
      principal t (p :: List.replicate (n - 1) 0) = .ok Z ∧ add A Z = .ok P ∧ m' = m ∧
      Lat n P = Lat n A ⊔ Lat n Z ∧
      (∀ v, v ∈ Lat n A ↔ ∃ y, v = star t n (vec n elem) y) ∧ (∀ v, v ∈ Lat n Z ↔ ∃ y, v = p • y) ∧
      IsOIdeal t n P ∧ p • e n ⟨0, T.pos⟩ ∈ Lat n P ∧
      (degU (ratOf g) < n → NTV.Ord.toZBasisInt B (ratOf g) = .ok elem ∧
        (fun k : Fin n => ((elem.getD k 0 : Int) : Rat)) ᵥ* toM n n B = (fun c : Fin n => coefAt (ratOf g) c) ∧
        NTV.Ord.elt B elem = ratOf g) ∧
      (n ≤ degU (ratOf g) → elem = List.replicate n 0 ∧ Lat n A = ⊥ ∧ Lat n P = Lat n Z) := by
  have hemp : f.isEmpty = false := by cases f <;> simp_all
  have hf : degU f = n := by simp [degU, hemp, hfl]
  obtain ⟨elem, A, Z, h1, h2, h3, h4, h5, h6, _, _, _, _, lA, lZ, lP, oP, hpy⟩ := primeAbove_lattice_core T hf h
  have hA : ∀ v, v ∈ Lat n A ↔ ∃ y, v = star t n (vec n elem) y := by
    intro v
    rw [lA, LinearMap.mem_range]
    constructor
    · rintro ⟨y, rfl⟩; exact ⟨y, rfl⟩
    · rintro ⟨y, rfl⟩; exact ⟨y, rfl⟩
  have hZ : ∀ v, v ∈ Lat n Z ↔ ∃ y, v = p • y := by
    intro v
    rw [lZ, LinearMap.mem_range]
    constructor
    · rintro ⟨y, rfl⟩; exact ⟨y, by rw [starB_apply, star_smul_left, T.one_star]⟩
    · rintro ⟨y, rfl⟩; exact ⟨y, by rw [starB_apply, star_smul_left, T.one_star]⟩
  refine ⟨elem, A, Z, h2, h3, h4, h5, h6, lP, hA, hZ, oP, ?_, ?_, ?_⟩
  · have := hpy (e n ⟨0, T.pos⟩); exact this
  · intro hlt
    unfold elemSpec at h1
    rw [hf, if_neg (by omega)] at h1
    obtain ⟨_, hsol⟩ := toZBasisInt_spec B n hB _ _ h1
    refine ⟨h1, hsol, elt_of_solution B n hB _ _ (canon_fromRaw _) ?_ hsol⟩
    unfold degU at hlt
    split at hlt
    · rename_i he
      rw [List.isEmpty_iff.mp he]; simp
    · omega
  · intro hge
    unfold elemSpec at h1
    rw [hf, if_pos hge] at h1
    cases h1
    have hbot : Lat n A = ⊥ := by
      rw [eq_bot_iff]
      intro v hv
      obtain ⟨y, rfl⟩ := (hA v).mp hv
      have hz : vec n (List.replicate n (0 : Int)) = 0 := by
        funext k; simp [vec, List.getD_eq_getElem?_getD]
      rw [hz, Submodule.mem_bot]
      have := star_smul_left t n 0 0 y
      simpa using this
    exact ⟨rfl, hbot, by rw [lP, hbot, bot_sup_eq]⟩

/-- **(4) P ∩ ℤ.** For a prime p a returned ideal has full rank (n rows), `cap_z` returns p or 1,
{z ∈ ℤ | z·e_0 ∈ L(P)} = cℤ, and it returns p exactly when P is not the unit ideal. -/
theorem prime_above_capZ (t : Table) (n : Nat) (T : TableRing t n) (f : List Int) (hfl : f.length = n + 1)
    (B : QMat) (p : Nat) (hp : p.Prime) (g : List Int) (m : Nat) (P : HNF) (m' : Nat)
    (h : primeAbove f B t (p : Int) g m = .ok (P, m')) :
    P.length = n ∧ ∃ c, capZ P = .ok c ∧ (c = p ∨ c = 1) ∧ (c = p ↔ Lat n P ≠ ⊤) ∧
      ∀ z : ℤ, z • e n ⟨0, T.pos⟩ ∈ Lat n P ↔ c ∣ z := by
  have hemp : f.isEmpty = false := by cases f <;> simp_all
  have hf : degU f = n := by simp [degU, hemp, hfl]
  obtain ⟨hfull, c, h1, h2, h3, h4⟩ := capZ_above T hf p hp h
  refine ⟨hfull, c, h1, h2, ?_, h4⟩
  have hp1 : (p : Int) ≠ 1 := by exact_mod_cast hp.one_lt.ne'
  rw [ne_eq, ← h3]
  rcases h2 with h2 | h2
  · rw [h2]; simp [hp1]
  · rw [h2]; simp [hp1.symm]

/-- **(1)–(4) together**, for the pairs returned by `decompose`: every returned (P, e) comes from a modular
factor (g, e) of the run through the closure, is an ideal of the order of full rank containing p, and
meets ℤ in pℤ or in ℤ. -/
theorem decompose_ideals (f : List Int) (n : Nat) (hn : 1 ≤ n) (hfl : f.length = n + 1) (hmonic : lc f = 1)
    (B : QMat) (t : Table) (T : TableRing t n) (p : Nat) (hp : p.Prime) (s : NTV.Draw.Stream)
    (res : List (HNF × Nat)) (h : decompose f B t (p : Int) s = .ok res) :
    ∃ fs : Factors, factorizeModP f (p : Int) (wordOf p) s = .ok fs ∧ res.length = fs.length ∧
      ∀ Pe ∈ res, ∃ g, (g, Pe.2) ∈ fs ∧ primeAbove f B t (p : Int) g Pe.2 = .ok Pe ∧
        IsOIdeal t n Pe.1 ∧ Pe.1.length = n ∧ (∀ y : Fin n → ℤ, (p : Int) • y ∈ Lat n Pe.1) ∧
        ∃ c, capZ Pe.1 = .ok c ∧ (c = p ∨ c = 1) ∧ (c = p ↔ Lat n Pe.1 ≠ ⊤) := by
  obtain ⟨fs, hfs, hl, hpt, _⟩ := decompose_shape f n hn hfl hmonic B t p s res h
  refine ⟨fs, hfs, hl, fun Pe hPe => ?_⟩
  obtain ⟨i, hi, rfl⟩ := List.mem_iff_getElem.mp hPe
  have hi' : i < fs.length := by omega
  obtain ⟨he, hpa⟩ := hpt i hi' hi
  have hemp : f.isEmpty = false := by cases f <;> simp_all
  have hf : degU f = n := by simp [degU, hemp, hfl]
  have hpa' : primeAbove f B t (p : Int) fs[i].1 fs[i].2 = .ok (res[i].1, res[i].2) := hpa
  obtain ⟨_, _, _, _, _, _, _, _, _, _, _, _, _, _, _, _, oP, hpy⟩ := primeAbove_lattice_core T hf hpa'
  obtain ⟨hfull, c, c1, c2, c3, _⟩ := prime_above_capZ t n T f hfl B p hp _ _ _ _ hpa'
  refine ⟨fs[i].1, ?_, ?_, oP, hfull, hpy, c, c1, c2, c3⟩
  · rw [he]; exact List.getElem_mem hi'
  · rw [he]; exact hpa

/-- **(1)–(3) together: the lattices of the returned ideals.** With (g_i, e_i) the modular factors of a
successful run (monic f of degree n, n×n basis matrix B, table a ring with identity e_0): every deg g_i ≤ n;
for deg g_i < n there is an integer vector `elem` with Σ_k elem_k ω_k = g_i(θ) in ℚ[x]/(f) (equality of the
stored expressions: `elt B elem` is the list of the coefficients of g_i) and
L(P_i) = elem ⋆ ℤⁿ + pℤⁿ, i.e. P_i = (g_i(θ)) + (p); for deg g_i = n (p inert) L(P_i) = pℤⁿ, i.e. P_i = (p). -/
theorem decompose_lattices (f : List Int) (n : Nat) (hn : 1 ≤ n) (hfl : f.length = n + 1) (hmonic : lc f = 1)
    (B : QMat) (hB : Rect n n B) (t : Table) (T : TableRing t n) (p : Nat) (hp : p.Prime)
    (hlen : 2 ^ 64 ≤ p → f.length < 2 ^ 64) (s : NTV.Draw.Stream) (res : List (HNF × Nat))
    (h : decompose f B t (p : Int) s = .ok res) :
    ∃ fs : Factors, factorizeModP f (p : Int) (wordOf p) s = .ok fs ∧ res.length = fs.length ∧
      ∀ i (h1 : i < fs.length) (h2 : i < res.length), res[i].2 = fs[i].2 ∧ degU fs[i].1 ≤ n ∧
        (degU fs[i].1 < n → ∃ elem : List Int, elem.length = n ∧
          NTV.Ord.elt B elem = fs[i].1.map (fun (c : Int) => (c : Rat)) ∧
          ∀ v, v ∈ Lat n res[i].1 ↔ ∃ y z, v = star t n (vec n elem) y + (p : Int) • z) ∧
        (degU fs[i].1 = n → ∀ v, v ∈ Lat n res[i].1 ↔ ∃ z, v = (p : Int) • z) := by
  obtain ⟨fs, hfs, hl, hpt, _⟩ := decompose_shape f n hn hfl hmonic B t p s res h
  obtain ⟨fs', hfs', _, hsum, hprop, _⟩ := degree_sum f n hn hfl hmonic B t p hp hlen s res h
  rw [hfs] at hfs'; cases hfs'
  have hw : p < 2 ^ 64 → wordOf (p : Int) = p := by
    intro hlt
    have := (word_copy (p : Int)).1 (by omega) (by exact_mod_cast hlt)
    exact_mod_cast this
  have hshape := NTV.C08.factor_shape p hp f (wordOf p) s fs hw hlen hfs
  refine ⟨fs, hfs, hl, fun i h1 h2 => ?_⟩
  obtain ⟨he, hpa⟩ := hpt i h1 h2
  have hmem : fs[i] ∈ fs := List.getElem_mem h1
  obtain ⟨e1, _, _, _⟩ := hprop _ hmem
  obtain ⟨_, _, hcan, _, _⟩ := hshape _ hmem
  obtain ⟨r1, r2, _⟩ := ratOf_canon _ hcan
  have hle : degU fs[i].1 ≤ n := by
    have h1' : fs[i].2 * degU fs[i].1 ≤ (fs.map (fun x => x.2 * degU x.1)).sum :=
      List.single_le_sum (by intro x _; exact Nat.zero_le x) _
        (List.mem_map.mpr ⟨fs[i], hmem, rfl⟩)
    rw [hsum] at h1'
    calc degU fs[i].1 = 1 * degU fs[i].1 := (one_mul _).symm
      _ ≤ fs[i].2 * degU fs[i].1 := Nat.mul_le_mul_right _ e1
      _ ≤ n := h1'
  have hpa' : primeAbove f B t (p : Int) fs[i].1 fs[i].2 = .ok (res[i].1, res[i].2) := hpa
  obtain ⟨elem, A, Z, l1, _, _, _, _, lP, lA, lZ, _, _, c1, c2⟩ :=
    prime_above_lattice t n T f hfl B hB _ _ _ _ _ hpa'
  refine ⟨he, hle, fun hlt => ?_, fun heq => ?_⟩
  · obtain ⟨_, _, c⟩ := c1 (by rw [r2]; exact hlt)
    refine ⟨elem, l1, by rw [c, r1], fun v => ?_⟩
    rw [lP, Submodule.mem_sup]
    constructor
    · rintro ⟨a, ha, b, hb, rfl⟩
      obtain ⟨y, rfl⟩ := (lA a).mp ha
      obtain ⟨z, rfl⟩ := (lZ b).mp hb
      exact ⟨y, z, rfl⟩
    · rintro ⟨y, z, rfl⟩
      exact ⟨_, (lA _).mpr ⟨y, rfl⟩, _, (lZ _).mpr ⟨z, rfl⟩, rfl⟩
  · obtain ⟨_, _, c⟩ := c2 (by rw [r2, heq])
    intro v
    rw [c, lZ]

/-! ### non-vacuity: ℤ[√-5] (f = x² + 5, B = identity, table `NTV.C16.t5`): 3 splits, 2 ramifies, 11 is inert -/

instance : DecidableEq (Except String (List (HNF × Nat))) := fun a b =>
  match a, b with
  | .ok x, .ok y => if h : x = y then isTrue (by rw [h]) else isFalse (by intro e; cases e; exact h rfl)
  | .error x, .error y => if h : x = y then isTrue (by rw [h]) else isFalse (by intro e; cases e; exact h rfl)
  | .ok _, .error _ => isFalse (by intro e; cases e)
  | .error _, .ok _ => isFalse (by intro e; cases e)

instance : DecidableEq (Except String (HNF × Nat)) := fun a b =>
  match a, b with
  | .ok x, .ok y => if h : x = y then isTrue (by rw [h]) else isFalse (by intro e; cases e; exact h rfl)
  | .error x, .error y => if h : x = y then isTrue (by rw [h]) else isFalse (by intro e; cases e; exact h rfl)
  | .ok _, .error _ => isFalse (by intro e; cases e)
  | .error _, .ok _ => isFalse (by intro e; cases e)

/-- (3) = (3, θ+2)(3, θ+1): two random draws are consumed -/
theorem split3 : decompose [5, 0, 1] [[1, 0], [0, 1]] NTV.C16.t5 ((3 : Nat) : Int) [[0,0,0,0],[0,0,0,64]] =
    .ok [([[3, 0], [2, 1]], 1), ([[3, 0], [1, 1]], 1)] := by decide +kernel
/-- (2) = (2, θ+1)²: no draw is needed -/
theorem ramified2 : decompose [5, 0, 1] [[1, 0], [0, 1]] NTV.C16.t5 ((2 : Nat) : Int) [] =
    .ok [([[2, 0], [1, 1]], 2)] := by decide +kernel
/-- (11) is prime: g = f mod 11 has degree 2, the zero vector is handed to `principal` -/
theorem inert11 : decompose [5, 0, 1] [[1, 0], [0, 1]] NTV.C16.t5 ((11 : Nat) : Int) [] =
    .ok [([[11, 0], [0, 11]], 1)] := by decide +kernel

example := decompose_shape [5, 0, 1] 2 (by decide) rfl rfl _ _ 3 _ _ split3
example := decompose_shape [5, 0, 1] 2 (by decide) rfl rfl _ _ 2 _ _ ramified2

/-- 1·1 + 1·1 = 2 and 2·1 = 2, by the theorem -/
example : ∃ fs : Factors, factorizeModP [5, 0, 1] ((3 : Nat) : Int) (wordOf (3 : Nat)) [[0,0,0,0],[0,0,0,64]] = .ok fs ∧
    (fs.map (fun x => x.2 * degU x.1)).sum = 2 := by
  obtain ⟨fs, h1, _, h3, _⟩ := degree_sum [5, 0, 1] 2 (by decide) rfl rfl _ _ 3 (by norm_num) (fun h => by omega)
    _ _ split3
  exact ⟨fs, h1, h3⟩
example := degree_sum [5, 0, 1] 2 (by decide) rfl rfl _ _ 2 (by norm_num) (fun h => by omega) _ _ ramified2
example := degree_sum [5, 0, 1] 2 (by decide) rfl rfl _ _ 11 (by norm_num) (fun h => by omega) _ _ inert11

theorem above3 : primeAbove [5, 0, 1] [[1, 0], [0, 1]] NTV.C16.t5 ((3 : Nat) : Int) [2, 1] 1 = .ok ([[3, 0], [2, 1]], 1) := by
  decide +kernel
theorem above11 : primeAbove [5, 0, 1] [[1, 0], [0, 1]] NTV.C16.t5 ((11 : Nat) : Int) [5, 0, 1] 1 =
    .ok ([[11, 0], [0, 11]], 1) := by decide +kernel

example := prime_above_lattice NTV.C16.t5 2 NTV.C16.t5_ring [5, 0, 1] rfl [[1, 0], [0, 1]] ⟨rfl, by simp⟩ _ _ _ _ _ above3
example := prime_above_lattice NTV.C16.t5 2 NTV.C16.t5_ring [5, 0, 1] rfl [[1, 0], [0, 1]] ⟨rfl, by simp⟩ _ _ _ _ _ above11
/-- both branches occur: deg (x + 2) = 1 < 2 and deg (x² + 5) = 2 -/
example : degU (ratOf [2, 1]) < 2 ∧ 2 ≤ degU (ratOf [5, 0, 1]) := by decide +kernel
/-- (3, θ + 2) is a proper ideal meeting ℤ in 3ℤ, by the theorem -/
example : Lat 2 ([[3, 0], [2, 1]] : HNF) ≠ ⊤ := by
  obtain ⟨_, c, h1, _, h3, _⟩ := prime_above_capZ NTV.C16.t5 2 NTV.C16.t5_ring [5, 0, 1] rfl [[1, 0], [0, 1]] 3
    (by norm_num) _ _ _ _ above3
  have : c = 3 := by cases h1; rfl
  exact h3.mp this
example := decompose_ideals [5, 0, 1] 2 (by decide) rfl rfl _ _ NTV.C16.t5_ring 3 (by norm_num) _ _ split3
example := decompose_ideals [5, 0, 1] 2 (by decide) rfl rfl _ _ NTV.C16.t5_ring 2 (by norm_num) _ _ ramified2
example := decompose_lattices [5, 0, 1] 2 (by decide) rfl rfl _ ⟨rfl, by simp⟩ _ NTV.C16.t5_ring 3 (by norm_num)
  (fun h => by omega) _ _ split3
example := decompose_lattices [5, 0, 1] 2 (by decide) rfl rfl _ ⟨rfl, by simp⟩ _ NTV.C16.t5_ring 11 (by norm_num)
  (fun h => by omega) _ _ inert11


/-! ## Kummer–Dedekind (Cohen 4.8.13): the returned ideals are the prime ideals above p

Standing hypotheses of this section (explicit arguments of every theorem below, in this order):
* `f` monic of degree `n ≥ 1` (`hn`, `hfl`, `hmonic`);
* `B` the `n × n` rational basis matrix of the order O (`hB`), **containing ℤ[θ]**: `Cm · B = 1` for an integer
  matrix `Cm` (`hC`; row c of `Cm` = coordinates of θ^c on ω_0 … ω_{n−1}; in particular B is non-singular and
  `index B ℤ[θ] = det Cm`), with first basis vector ω_0 = 1 (`h0`, as for every stored order);
* `t` the multiplication table of `B` (`ht : IsTable f B n t`, what `get_mult_table` returns, C14);
* `p` prime (`hp`), `hlen` the machine-word side condition of C08;
* the run of `decompose` on the draw stream `s` (universally quantified) returned `res` (`h`) — so the index
  guard was passed: p ∤ (O : ℤ[θ]).

Vocabulary: `Lat`, `vec`, `star`, `e` of C16; `NTV.KD.EltIs f B a H`: the element Σ a_k ω_k of the order is
`H(θ)`, `H ∈ ℤ[X]` (as classes of ℚ[x]/(f)); `ḡ = (toPoly g).map (Int.castRingHom (ZMod p))` is the reduction
modulo p. Helper lemmas: `Proofs/Lemmas/KummerDedekindA–G.lean` (A, B: the abstract algebra; C: the ring
`NTV.KD.Rt T` = (ℤⁿ, +, ⋆) and its ideals; D: its embedding in ℚ[x]/(f); E–G: the model). -/
section KummerDedekind
open NTV.KD
open NTV.PolyG (toPoly)

variable (f : List Int) (n : Nat) (hn : 1 ≤ n) (hfl : f.length = n + 1) (hmonic : lc f = 1)
  (B : QMat) (hB : Rect n n B) (Cm : Matrix (Fin n) (Fin n) ℤ)
  (hC : Cm.map (Int.castRingHom ℚ) * toM n n B = 1)
  (h0 : B.getD 0 [] = 1 :: List.replicate (n - 1) 0)
  (t : Table) (ht : NTV.Ord.IsTable f B n t)
  (p : Nat) (hp : p.Prime) (hlen : 2 ^ 64 ≤ p → f.length < 2 ^ 64)
  (s : NTV.Draw.Stream) (res : List (HNF × Nat)) (h : decompose f B t (p : Int) s = .ok res)
include hn hfl hmonic hB hC h0 ht hp hlen h

omit hp hlen h in
/-- the table of such an order is a commutative ring on ℤⁿ with identity e_0 (so C16 and the theorems above
apply; not a separate hypothesis) -/
theorem table_is_ring : TableRing t n := tableRing_of hn hfl hmonic hB hC ht h0

/-- **(D1) O/pO ≅ 𝔽_p[x]/(f̄).** Since p ∤ (O : ℤ[θ]): every element x of the order is ≡ H(θ) modulo p·O for
some H ∈ ℤ[x] (x = a + p·y with Σ a_k ω_k = H(θ)); and H(θ) ∈ p·O (= pℤⁿ in coordinates) ⇔ f̄ ∣ H̄ in 𝔽_p[x]. -/
theorem mod_p_iso :
    (∀ x : Fin n → ℤ, ∃ (H : Polynomial ℤ) (a : List Int) (y : Fin n → ℤ),
      a.length = n ∧ EltIs f B a H ∧ x = vec n a + (p : ℤ) • y) ∧
    (∀ (a : List Int) (H : Polynomial ℤ), EltIs f B a H →
      ((∃ y : Fin n → ℤ, vec n a = (p : ℤ) • y) ↔
        (toPoly f).map (Int.castRingHom (ZMod p)) ∣ H.map (Int.castRingHom (ZMod p)))) :=
  (Run.mk hn hfl hmonic hB hC ht h0 hp hlen h).mod_p

/-- **(D1), as rings**: the ring (ℤⁿ, +, ⋆) of the table modulo p is 𝔽_p[x]/(f̄) -/
theorem mod_p_ring_iso (T : TableRing t n) :
    Nonempty ((Rt T ⧸ Ideal.span {(p : Rt T)}) ≃+*
      Polynomial (ZMod p) ⧸ Ideal.span {(toPoly f).map (Int.castRingHom (ZMod p))}) :=
  (Run.mk hn hfl hmonic hB hC ht h0 hp hlen h).mod_p_equiv

/-- **(D2) residue rings, norms, P_i ∩ ℤ.** With (g_i, e_i) the modular factors of the run and (P_i, e_i) the
returned pairs: H(θ) ∈ P_i ⇔ ḡ_i ∣ H̄ (so O/P_i ≅ 𝔽_p[x]/(ḡ_i), a field with p^{deg g_i} elements);
`Ideal::norm P_i = p^{f_i}`, `f_i = deg g_i`; P_i ≠ O; `cap_z P_i = p` and P_i ∩ ℤ = pℤ; P_i has full rank. -/
theorem prime_above_quotient :
    ∃ fs : Factors, factorizeModP f (p : Int) (wordOf p) s = .ok fs ∧ res.length = fs.length ∧
      ∀ i (h1 : i < fs.length) (h2 : i < res.length),
        (∀ (a : List Int) (H : Polynomial ℤ), EltIs f B a H →
          (vec n a ∈ Lat n res[i].1 ↔
            (toPoly fs[i].1).map (Int.castRingHom (ZMod p)) ∣ H.map (Int.castRingHom (ZMod p)))) ∧
        NTV.Ideal.norm res[i].1 = (p : ℤ) ^ degU fs[i].1 ∧
        Lat n res[i].1 ≠ ⊤ ∧
        capZ res[i].1 = .ok (p : ℤ) ∧
        (∀ z : ℤ, z • e n ⟨0, hn⟩ ∈ Lat n res[i].1 ↔ (p : ℤ) ∣ z) ∧
        res[i].1.length = n := by
  obtain ⟨fs, hfs, hl, hall⟩ := (Run.mk hn hfl hmonic hB hC ht h0 hp hlen h).quotient
  exact ⟨fs, hfs, hl, fun i h1 _ => hall ⟨i, h1⟩⟩

/-- **(D3) the P_i are prime ideals, indeed maximal**: P_i ≠ O; a ⋆ b ∈ L(P_i) ⇒ a ∈ L(P_i) ∨ b ∈ L(P_i);
and an ideal of the order (a lattice closed under a ⋆ ·) containing P_i is P_i or O. -/
theorem prime_above_is_prime (i : Nat) (hi : i < res.length) :
    Lat n res[i].1 ≠ ⊤ ∧
    (∀ a b : Fin n → ℤ, star t n a b ∈ Lat n res[i].1 → a ∈ Lat n res[i].1 ∨ b ∈ Lat n res[i].1) ∧
    (∀ L : Submodule ℤ (Fin n → ℤ), (∀ a : Fin n → ℤ, ∀ x ∈ L, star t n a x ∈ L) →
      Lat n res[i].1 ≤ L → L = Lat n res[i].1 ∨ L = ⊤) :=
  (Run.mk hn hfl hmonic hB hC ht h0 hp hlen h).prime i hi

/-- **(D4) the P_i are pairwise distinct, indeed comaximal**: P_i + P_j = O for i ≠ j, and the returned normal
forms differ -/
theorem primes_distinct (i j : Nat) (hi : i < res.length) (hj : j < res.length) (hij : i ≠ j) :
    Lat n res[i].1 ⊔ Lat n res[j].1 = ⊤ ∧ res[i].1 ≠ res[j].1 :=
  (Run.mk hn hfl hmonic hB hC ht h0 hp hlen h).distinct i j hi hj hij

/-- **(D5) ∏ P_i^{e_i} versus (p), for every order (sharp).** `NTV.KD.prodM t res` is the model's iterated
`mul` (`powM` = repeated `mul` from the unit ideal). Neither it nor `principal t (p, 0, …, 0)` panics;
L((p)) = pℤⁿ; ∏ P_i^{e_i} ⊆ (p); and the two returned normal forms are **equal iff p ∈ P_i^{e_i} for every i**.
The condition cannot be dropped for a non-maximal order: see `product_counterexample` below
(ℤ[2i], p = 2). It holds in the three situations of the next theorems. -/
theorem product_partial :
    ∃ Q Z : HNF, prodM t res = .ok Q ∧ principal t ((p : ℤ) :: List.replicate (n - 1) 0) = .ok Z ∧
      (∀ v : Fin n → ℤ, v ∈ Lat n Z ↔ ∃ y : Fin n → ℤ, v = (p : ℤ) • y) ∧
      Lat n Q ≤ Lat n Z ∧
      (Q = Z ↔ ∀ i (hi : i < res.length), ∃ Qi : HNF, powM t res[i].1 res[i].2 = .ok Qi ∧
        (p : ℤ) • e n ⟨0, hn⟩ ∈ Lat n Qi) :=
  (Run.mk hn hfl hmonic hB hC ht h0 hp hlen h).product_iff

/-- **(D5a) unramified p**: all e_i = 1 ⇒ ∏ P_i = (p), identical normal forms (any order) -/
theorem product_is_p_unramified (he : ∀ x ∈ res, x.2 = 1) :
    ∃ Z : HNF, prodM t res = .ok Z ∧ principal t ((p : ℤ) :: List.replicate (n - 1) 0) = .ok Z :=
  (Run.mk hn hfl hmonic hB hC ht h0 hp hlen h).product_unramified he

/-- **(D5b) the maximal order** (the case of the property: f irreducible, O = O_K integrally closed; `Rt T` is
the ring (ℤⁿ, +, ⋆) of the table): ∏ P_i^{e_i} = p·O, identical normal forms -/
theorem product_is_p (hirr : Irreducible ((toPoly f).map (Int.castRingHom ℚ))) (T : TableRing t n)
    (hmax : IsIntegrallyClosed (Rt T)) :
    ∃ Z : HNF, prodM t res = .ok Z ∧ principal t ((p : ℤ) :: List.replicate (n - 1) 0) = .ok Z :=
  (Run.mk hn hfl hmonic hB hC ht h0 hp hlen h).product_maximal
    ((Run.mk hn hfl hmonic hB hC ht h0 hp hlen h).isDomain hirr) hmax

/-- **(D5c) Dedekind's criterion** (O p-maximal, checkable on f): with f = ∏ g_i^{e_i} + p·H in ℤ[x], if no
ramified ḡ_i (e_i ≥ 2) divides H̄ then ∏ P_i^{e_i} = (p), identical normal forms -/
theorem product_is_p_of_dedekind_criterion (H : Polynomial ℤ)
    (hH : ∀ fs : Factors, factorizeModP f (p : Int) (wordOf p) s = .ok fs →
      toPoly f = NTV.PolyMod.factorProduct fs + Polynomial.C (p : ℤ) * H ∧
      ∀ x ∈ fs, 2 ≤ x.2 →
        ¬ (toPoly x.1).map (Int.castRingHom (ZMod p)) ∣ H.map (Int.castRingHom (ZMod p))) :
    ∃ Z : HNF, prodM t res = .ok Z ∧ principal t ((p : ℤ) :: List.replicate (n - 1) 0) = .ok Z :=
  (Run.mk hn hfl hmonic hB hC ht h0 hp hlen h).product_criterion H hH

/-- **C17, the decomposition theorem** (Kummer–Dedekind, Cohen 4.8.13) for the maximal order: f monic
irreducible over ℚ, O ⊇ ℤ[θ] integrally closed (`Rt T` is the ring (ℤⁿ, +, ⋆) of the table), p ∤ (O : ℤ[θ])
(the run returned). With (g_i, e_i) the factors of f modulo p found by the run: the returned pairs are
(P_i, e_i) with P_i prime — indeed maximal — ideals of O, `norm P_i = p^{deg g_i}`, `cap_z P_i = p`,
P_i ∩ ℤ = pℤ, pairwise distinct (comaximal), Σ e_i·deg g_i = n, and the model's product ∏ P_i^{e_i} is
(p) = `principal (p, 0, …, 0)` (identical normal forms, no panic). -/
theorem kummer_dedekind (hirr : Irreducible ((toPoly f).map (Int.castRingHom ℚ))) (T : TableRing t n)
    (hmax : IsIntegrallyClosed (Rt T)) :
    ∃ fs : Factors, factorizeModP f (p : Int) (wordOf p) s = .ok fs ∧ res.length = fs.length ∧
      (∀ i (h1 : i < fs.length) (h2 : i < res.length),
        res[i].2 = fs[i].2 ∧
        NTV.Ideal.norm res[i].1 = (p : ℤ) ^ degU fs[i].1 ∧
        capZ res[i].1 = .ok (p : ℤ) ∧
        (∀ z : ℤ, z • e n ⟨0, hn⟩ ∈ Lat n res[i].1 ↔ (p : ℤ) ∣ z) ∧
        Lat n res[i].1 ≠ ⊤ ∧
        (∀ a b : Fin n → ℤ, star t n a b ∈ Lat n res[i].1 → a ∈ Lat n res[i].1 ∨ b ∈ Lat n res[i].1) ∧
        (∀ L : Submodule ℤ (Fin n → ℤ), (∀ a : Fin n → ℤ, ∀ x ∈ L, star t n a x ∈ L) →
          Lat n res[i].1 ≤ L → L = Lat n res[i].1 ∨ L = ⊤)) ∧
      (∀ i j (hi : i < res.length) (hj : j < res.length), i ≠ j →
        Lat n res[i].1 ⊔ Lat n res[j].1 = ⊤ ∧ res[i].1 ≠ res[j].1) ∧
      (fs.map (fun x => x.2 * degU x.1)).sum = n ∧
      ∃ Z : HNF, prodM t res = .ok Z ∧ principal t ((p : ℤ) :: List.replicate (n - 1) 0) = .ok Z := by
  obtain ⟨fs, hfs, hl, hq⟩ := prime_above_quotient f n hn hfl hmonic B hB Cm hC h0 t ht p hp hlen s res h
  obtain ⟨fs', hfs', _, hpt, _⟩ := decompose_shape f n hn hfl hmonic B t p s res h
  rw [hfs] at hfs'; cases hfs'
  obtain ⟨fs', hfs', _, hsum, _⟩ := degree_sum f n hn hfl hmonic B t p hp hlen s res h
  rw [hfs] at hfs'; cases hfs'
  refine ⟨fs, hfs, hl, fun i h1 h2 => ?_, fun i j hi hj hij => ?_, hsum,
    product_is_p f n hn hfl hmonic B hB Cm hC h0 t ht p hp hlen s res h hirr T hmax⟩
  · obtain ⟨_, q2, q3, q4, q5, _⟩ := hq i h1 h2
    obtain ⟨r1, r2, r3⟩ := prime_above_is_prime f n hn hfl hmonic B hB Cm hC h0 t ht p hp hlen s res h i h2
    exact ⟨(hpt i h1 h2).1, q2, q4, q5, r1, r2, r3⟩
  · exact primes_distinct f n hn hfl hmonic B hB Cm hC h0 t ht p hp hlen s res h i j hi hj hij

end KummerDedekind

/-! ### non-vacuity of the Kummer–Dedekind theorems

ℤ[√-5] (f = x² + 5, B = identity, `Cm` = 1, table `NTV.C16.t5`): 3 splits, 2 ramifies, 11 is inert (the runs
`split3`, `ramified2`, `inert11` above); ℤ[i] (f = x² + 1, the maximal order, integrally closed) with p = 2;
and the non-maximal order ℤ[2i] (f = x² + 4) where ∏ P_i^{e_i} ≠ (p). -/
section examples
open NTV.KD Polynomial
open NTV.PolyG (toPoly)

instance : DecidableEq (Except String HNF) := fun a b =>
  match a, b with
  | .ok x, .ok y => if h : x = y then isTrue (by rw [h]) else isFalse (by intro e; cases e; exact h rfl)
  | .error x, .error y => if h : x = y then isTrue (by rw [h]) else isFalse (by intro e; cases e; exact h rfl)
  | .ok _, .error _ => isFalse (by intro e; cases e)
  | .error _, .ok _ => isFalse (by intro e; cases e)

theorem id2_rect : Rect 2 2 ([[1, 0], [0, 1]] : QMat) := ⟨rfl, by simp⟩
/-- the order is ℤ[θ] itself: the coordinates of 1, θ are the unit vectors -/
theorem id2_inv : (1 : Matrix (Fin 2) (Fin 2) ℤ).map (Int.castRingHom ℚ) * toM 2 2 ([[1, 0], [0, 1]] : QMat) = 1 := by
  have h : NTV.Ord.identityQ 2 = [[1, 0], [0, 1]] := by decide +kernel
  rw [← h, NTV.Ord.identityQ_toM, Matrix.map_one _ (map_zero _) (map_one _), one_mul]
theorem t5_isTable : NTV.Ord.IsTable [5, 0, 1] [[1, 0], [0, 1]] 2 NTV.C16.t5 :=
  NTV.C14.table_entries [5, 0, 1] [[1, 0], [0, 1]] 2 (by intro _; simp) rfl (by norm_num) id2_rect
    (det_ne_zero_of_inverse id2_inv) _ (by decide +kernel)

example : TableRing NTV.C16.t5 2 :=
  table_is_ring [5, 0, 1] 2 (by decide) rfl rfl _ id2_rect 1 id2_inv rfl _ t5_isTable
example := mod_p_iso [5, 0, 1] 2 (by decide) rfl rfl _ id2_rect 1 id2_inv rfl _ t5_isTable 3 (by norm_num)
  (fun h => by omega) _ _ split3
example := mod_p_ring_iso [5, 0, 1] 2 (by decide) rfl rfl _ id2_rect 1 id2_inv rfl _ t5_isTable 3 (by norm_num)
  (fun h => by omega) _ _ split3 NTV.C16.t5_ring
example := prime_above_quotient [5, 0, 1] 2 (by decide) rfl rfl _ id2_rect 1 id2_inv rfl _ t5_isTable 2
  (by norm_num) (fun h => by omega) _ _ ramified2
example := prime_above_quotient [5, 0, 1] 2 (by decide) rfl rfl _ id2_rect 1 id2_inv rfl _ t5_isTable 11
  (by norm_num) (fun h => by omega) _ _ inert11

/-- the norm of (3, θ + 2) is 3 = 3^{deg (x + 2)}, by the theorem (and by evaluation) -/
example : NTV.Ideal.norm ([[3, 0], [2, 1]] : HNF) = 3 := by
  obtain ⟨fs, hfs, _, hall⟩ := prime_above_quotient [5, 0, 1] 2 (by decide) rfl rfl _ id2_rect 1 id2_inv rfl _
    t5_isTable 3 (by norm_num) (fun h => by omega) _ _ split3
  have h1 : factorizeModP [5, 0, 1] ((3 : Nat) : Int) (wordOf ((3 : Nat) : Int)) [[0,0,0,0],[0,0,0,64]] =
      .ok [([2, 1], 1), ([1, 1], 1)] := by decide +kernel
  rw [h1] at hfs; cases hfs
  exact (hall 0 (by decide) (by decide)).2.1
example : NTV.Ideal.norm ([[3, 0], [2, 1]] : HNF) = 3 ∧ NTV.Ideal.norm ([[11, 0], [0, 11]] : HNF) = 11 ^ 2 := by
  decide +kernel

/-- (3, θ + 2) is a prime ideal of ℤ[√-5] -/
example : ∀ a b : Fin 2 → ℤ, star NTV.C16.t5 2 a b ∈ Lat 2 ([[3, 0], [2, 1]] : HNF) →
    a ∈ Lat 2 ([[3, 0], [2, 1]] : HNF) ∨ b ∈ Lat 2 ([[3, 0], [2, 1]] : HNF) :=
  (prime_above_is_prime [5, 0, 1] 2 (by decide) rfl rfl _ id2_rect 1 id2_inv rfl _ t5_isTable 3 (by norm_num)
    (fun h => by omega) _ _ split3 0 (by decide)).2.1
example := prime_above_is_prime [5, 0, 1] 2 (by decide) rfl rfl _ id2_rect 1 id2_inv rfl _ t5_isTable 11
  (by norm_num) (fun h => by omega) _ _ inert11 0 (by decide)

/-- (3, θ + 2) + (3, θ + 1) = ℤ[√-5] -/
example : Lat 2 ([[3, 0], [2, 1]] : HNF) ⊔ Lat 2 ([[3, 0], [1, 1]] : HNF) = ⊤ :=
  (primes_distinct [5, 0, 1] 2 (by decide) rfl rfl _ id2_rect 1 id2_inv rfl _ t5_isTable 3 (by norm_num)
    (fun h => by omega) _ _ split3 0 1 (by decide) (by decide) (by decide)).1

example := product_partial [5, 0, 1] 2 (by decide) rfl rfl _ id2_rect 1 id2_inv rfl _ t5_isTable 2 (by norm_num)
  (fun h => by omega) _ _ ramified2

/-- (3) = (3, θ + 2)(3, θ + 1): by the theorem for unramified primes, and by evaluation -/
example : ∃ Z : HNF, prodM NTV.C16.t5 [([[3, 0], [2, 1]], 1), ([[3, 0], [1, 1]], 1)] = .ok Z ∧
    principal NTV.C16.t5 (((3 : Nat) : ℤ) :: List.replicate (2 - 1) 0) = .ok Z :=
  product_is_p_unramified [5, 0, 1] 2 (by decide) rfl rfl _ id2_rect 1 id2_inv rfl _ t5_isTable 3 (by norm_num)
    (fun h => by omega) _ _ split3 (by decide)
example : prodM NTV.C16.t5 [([[3, 0], [2, 1]], 1), ([[3, 0], [1, 1]], 1)] = .ok [[3, 0], [0, 3]] ∧
    principal NTV.C16.t5 [3, 0] = .ok [[3, 0], [0, 3]] := by decide +kernel

/-- (2) = (2, θ + 1)² in ℤ[√-5] by Dedekind's criterion: x² + 5 = (x + 1)² + 2·(2 − x) and x + 1 ∤ x modulo 2 -/
example : ∃ Z : HNF, prodM NTV.C16.t5 [([[2, 0], [1, 1]], 2)] = .ok Z ∧
    principal NTV.C16.t5 (((2 : Nat) : ℤ) :: List.replicate (2 - 1) 0) = .ok Z := by
  apply product_is_p_of_dedekind_criterion [5, 0, 1] 2 (by decide) rfl rfl _ id2_rect 1 id2_inv rfl _ t5_isTable 2
    (by norm_num) (fun h => by omega) _ _ ramified2 (2 - X)
  intro fs hfs
  have h1 : factorizeModP [5, 0, 1] ((2 : Nat) : Int) (wordOf ((2 : Nat) : Int)) [] = .ok [([1, 1], 2)] := by
    decide +kernel
  rw [h1] at hfs; cases hfs
  constructor
  · simp [NTV.PolyMod.factorProduct, toPoly]
    ring
  · intro x hx _
    simp only [List.mem_singleton] at hx
    subst hx
    rintro ⟨q, hq⟩
    have := congrArg (Polynomial.eval (1 : ZMod 2)) hq
    simp [toPoly] at this
    have h2 : (1 + 1 : ZMod 2) = 0 := by decide
    rw [h2, zero_mul] at this
    revert this
    decide
example : prodM NTV.C16.t5 [([[2, 0], [1, 1]], 2)] = .ok [[2, 0], [0, 2]] := by decide +kernel

/-! the maximal order ℤ[i], p = 2 = −i(1 + i)² -/

def tG : Table := [[[1, 0], [0, 1]], [[0, 1], [-1, 0]]]
theorem tG_ring : TableRing tG 2 := TableRing.of_basis (by decide +kernel)
theorem tG_isTable : NTV.Ord.IsTable [1, 0, 1] [[1, 0], [0, 1]] 2 tG := NTV.C14.gauss_isTable

theorem star_tG (x y : Fin 2 → ℤ) :
    NTV.IdealP.star tG 2 x y = ![x 0 * y 0 - x 1 * y 1, x 0 * y 1 + x 1 * y 0] := by
  funext k
  fin_cases k <;> simp [NTV.IdealP.star, Fin.sum_univ_two, NTV.Ord.tent, tG]
  ring

/-- the ring of the table of ℤ[i] is the ring of Gaussian integers of Mathlib -/
noncomputable def gaussEquiv : Rt tG_ring ≃+* GaussianInt where
  toFun x := ⟨toVec tG_ring x 0, toVec tG_ring x 1⟩
  invFun z := ofVec tG_ring ![z.re, z.im]
  left_inv x := by
    apply (toVec tG_ring).injective
    funext k
    fin_cases k <;> rfl
  right_inv z := by
    ext <;> rfl
  map_mul' x y := by
    ext
    · simp only [toVec_mul, star_tG, Zsqrtd.re_mul]
      simp; ring
    · simp only [toVec_mul, star_tG, Zsqrtd.im_mul]
      simp
  map_add' x y := by
    ext <;> simp [map_add]

/-- … hence integrally closed (a Euclidean domain) -/
theorem gauss_integrallyClosed : IsIntegrallyClosed (Rt tG_ring) :=
  IsIntegrallyClosed.of_equiv gaussEquiv.symm

theorem gauss_irreducible : Irreducible ((toPoly ([1, 0, 1] : List Int)).map (Int.castRingHom ℚ)) := by
  have h : (toPoly ([1, 0, 1] : List Int)).map (Int.castRingHom ℚ) = X ^ 2 + 1 := by
    simp [toPoly]; ring
  rw [h]
  apply irreducible_of_degree_le_three_of_not_isRoot
  · have : (X ^ 2 + 1 : ℚ[X]).natDegree = 2 := by
      rw [show (X ^ 2 + 1 : ℚ[X]) = X ^ 2 + C 1 by simp]; exact natDegree_X_pow_add_C
    rw [this]; decide
  · intro x hx
    simp only [IsRoot, eval_add, eval_pow, eval_X, eval_one] at hx
    nlinarith [sq_nonneg x]

theorem gauss_ramified2 : decompose [1, 0, 1] [[1, 0], [0, 1]] tG ((2 : Nat) : Int) [] =
    .ok [([[2, 0], [1, 1]], 2)] := by decide +kernel

/-- the hypotheses of `product_is_p` are satisfiable: (2) = (2, 1 + i)² in ℤ[i] -/
example : ∃ Z : HNF, prodM tG [([[2, 0], [1, 1]], 2)] = .ok Z ∧
    principal tG (((2 : Nat) : ℤ) :: List.replicate (2 - 1) 0) = .ok Z :=
  product_is_p [1, 0, 1] 2 (by decide) rfl rfl _ id2_rect 1 id2_inv rfl _ tG_isTable 2 (by norm_num)
    (fun h => by omega) _ _ gauss_ramified2 gauss_irreducible tG_ring gauss_integrallyClosed
example : prodM tG [([[2, 0], [1, 1]], 2)] = .ok [[2, 0], [0, 2]] := by decide +kernel
example := kummer_dedekind [1, 0, 1] 2 (by decide) rfl rfl _ id2_rect 1 id2_inv rfl _ tG_isTable 2 (by norm_num)
  (fun h => by omega) _ _ gauss_ramified2 gauss_irreducible tG_ring gauss_integrallyClosed

/-! the product clause needs the maximality of the order: ℤ[2i] (f = x² + 4, B = identity: index 1), p = 2.
All standing hypotheses hold and `decompose` returns (P, 2) with P = (2, θ) — a prime ideal of norm 2 by (D2),
(D3) — but P² = (4, 2θ) has index 8 and is strictly contained in (2). -/

def t4 : Table := [[[1, 0], [0, 1]], [[0, 1], [-4, 0]]]
theorem t4_isTable : NTV.Ord.IsTable [4, 0, 1] [[1, 0], [0, 1]] 2 t4 :=
  NTV.C14.table_entries [4, 0, 1] [[1, 0], [0, 1]] 2 (by intro _; simp) rfl (by norm_num) id2_rect
    (det_ne_zero_of_inverse id2_inv) _ (by decide +kernel)
theorem nonmax_ramified2 : decompose [4, 0, 1] [[1, 0], [0, 1]] t4 ((2 : Nat) : Int) [] =
    .ok [([[2, 0], [0, 1]], 2)] := by decide +kernel

/-- **∏ P_i^{e_i} = (p) fails for a non-maximal order** although p ∤ (O : ℤ[θ]) = 1 -/
theorem product_counterexample :
    prodM t4 [([[2, 0], [0, 1]], 2)] = .ok [[4, 0], [0, 2]] ∧ principal t4 [2, 0] = .ok [[2, 0], [0, 2]] := by
  decide +kernel

/-- by `product_partial`: 2 ∉ P² there -/
example : ¬ ((2 : ℤ) • e 2 ⟨0, by decide⟩ ∈ Lat 2 ([[4, 0], [0, 2]] : HNF)) := by
  obtain ⟨Q, Z, hQ, hZ, _, _, hiff⟩ := product_partial [4, 0, 1] 2 (by decide) rfl rfl _ id2_rect 1 id2_inv rfl _
    t4_isTable 2 (by norm_num) (fun h => by omega) _ _ nonmax_ramified2
  rw [product_counterexample.1] at hQ
  have hZ' : principal t4 [2, 0] = .ok Z := hZ
  rw [product_counterexample.2] at hZ'
  cases hQ; cases hZ'
  intro hmem
  have : ([[4, 0], [0, 2]] : HNF) = [[2, 0], [0, 2]] := by
    apply hiff.mpr
    intro i hi
    have hi0 : i = 0 := by simp at hi; omega
    subst hi0
    have hpow : powM t4 [[2, 0], [0, 1]] 2 = .ok [[4, 0], [0, 2]] := by decide +kernel
    exact ⟨[[4, 0], [0, 2]], hpow, hmem⟩
  exact absurd this (by decide)

end examples

/-! ## Kummer–Dedekind for the maximal order computed by Round 2 (C06): no integral-closedness hypothesis left

`O` is the result of `find_integral_basis(f)` and `t` the table returned by `get_mult_table` on it. For monic `f`
the starting order of Round 2 is ℤ[θ], so ℤ[θ] ⊆ O (`NTV.MaxOrd.findIntegralBasis_contains_power_basis`); ω_0 = 1
(`NTV.Round2.GoodOrder.first_row`); and for irreducible `f` the ring of the table is integrally closed because `O` is
contained in no strictly larger order (`NTV.C16.maximal_order_integrally_closed`). -/
section MaximalOrder
open NTV.KD Polynomial
open NTV.PolyG (toPoly)

/-- the standing hypotheses of the Kummer–Dedekind section hold for the Round 2 output (f monic of degree n ≥ 1):
`O` is an n × n basis matrix containing ℤ[θ] (`Cm · O = 1`, `Cm` integral) with first row (1, 0, …, 0), and
`get_mult_table` succeeds on it -/
theorem maximal_order_setting (f : List Int) (n : Nat) (hfl : f.length = n + 1) (hmonic : lc f = 1)
    (O : QMat) (hO : NTV.Round2.findIntegralBasis f = .ok O) :
    Rect n n O ∧ (∃ Cm : Matrix (Fin n) (Fin n) ℤ, Cm.map (Int.castRingHom ℚ) * toM n n O = 1) ∧
      O.getD 0 [] = 1 :: List.replicate (n - 1) 0 ∧
      ∃ t : Table, NTV.Ord.getMultTable O f = .ok t ∧ NTV.Ord.IsTable f O n t := by
  obtain ⟨hdeg, hco, hcanon⟩ := NTV.MaxOrd.coefAt_degU_of_monic f n hfl hmonic
  subst hdeg
  have g := NTV.Round2.findIntegralBasis_good f hcanon O hO
  obtain ⟨ht, _⟩ := g.setup.ctx_of_closed g.closed
  exact ⟨g.setup.rect, NTV.MaxOrd.findIntegralBasis_contains_power_basis f hco O hO, g.first_row, _,
    g.setup.getMultTable_ok (g.setup.closed_iff.mp g.closed), ht⟩

/-- **C17 for the maximal order computed by `find_integral_basis`** (Kummer–Dedekind, Cohen 4.8.13) — FULL, no
hypothesis on the ring of the table: `f` monic of degree n ≥ 1, irreducible over ℚ; `O` the result of
`find_integral_basis(f)`; `t` the table returned by `get_mult_table` on `O`; `p` prime; the run of `decompose` on the
draw stream `s` (universally quantified) returned `res` (so p ∤ (O : ℤ[θ])). With (g_i, e_i) the factors of f modulo p
found by the run: the returned pairs are (P_i, e_i) with P_i prime — indeed maximal — ideals of O,
`norm P_i = p^{deg g_i}`, `cap_z P_i = p`, P_i ∩ ℤ = pℤ, pairwise distinct (comaximal), Σ e_i·deg g_i = n, and the
model's product ∏ P_i^{e_i} is (p) = `principal (p, 0, …, 0)` (identical normal forms, no panic). -/
theorem kummer_dedekind_maximal_order (f : List Int) (n : Nat) (hn : 1 ≤ n) (hfl : f.length = n + 1)
    (hmonic : lc f = 1) (hirr : Irreducible ((toPoly f).map (Int.castRingHom ℚ)))
    (O : QMat) (hO : NTV.Round2.findIntegralBasis f = .ok O)
    (t : Table) (ht : NTV.Ord.getMultTable O f = .ok t)
    (p : Nat) (hp : p.Prime) (hlen : 2 ^ 64 ≤ p → f.length < 2 ^ 64)
    (s : NTV.Draw.Stream) (res : List (HNF × Nat)) (h : decompose f O t (p : Int) s = .ok res) :
    ∃ fs : Factors, factorizeModP f (p : Int) (wordOf p) s = .ok fs ∧ res.length = fs.length ∧
      (∀ i (h1 : i < fs.length) (h2 : i < res.length),
        res[i].2 = fs[i].2 ∧
        NTV.Ideal.norm res[i].1 = (p : ℤ) ^ degU fs[i].1 ∧
        capZ res[i].1 = .ok (p : ℤ) ∧
        (∀ z : ℤ, z • e n ⟨0, hn⟩ ∈ Lat n res[i].1 ↔ (p : ℤ) ∣ z) ∧
        Lat n res[i].1 ≠ ⊤ ∧
        (∀ a b : Fin n → ℤ, star t n a b ∈ Lat n res[i].1 → a ∈ Lat n res[i].1 ∨ b ∈ Lat n res[i].1) ∧
        (∀ L : Submodule ℤ (Fin n → ℤ), (∀ a : Fin n → ℤ, ∀ x ∈ L, star t n a x ∈ L) →
          Lat n res[i].1 ≤ L → L = Lat n res[i].1 ∨ L = ⊤)) ∧
      (∀ i j (hi : i < res.length) (hj : j < res.length), i ≠ j →
        Lat n res[i].1 ⊔ Lat n res[j].1 = ⊤ ∧ res[i].1 ≠ res[j].1) ∧
      (fs.map (fun x => x.2 * degU x.1)).sum = n ∧
      ∃ Z : HNF, prodM t res = .ok Z ∧ principal t ((p : ℤ) :: List.replicate (n - 1) 0) = .ok Z := by
  obtain ⟨hB, ⟨Cm, hC⟩, h0, t', ht', hT⟩ := maximal_order_setting f n hfl hmonic O hO
  rw [ht] at ht'
  cases ht'
  obtain ⟨hdeg, _, hcanon⟩ := NTV.MaxOrd.coefAt_degU_of_monic f n hfl hmonic
  have hirr' : Irreducible (NTV.Alg.modulus f) := by rw [NTV.Ord.modulus_eq_map]; exact hirr
  obtain ⟨t', ht', _, T', hall⟩ := NTV.C16.maximal_order_integrally_closed f hcanon hirr' O hO
  rw [ht] at ht'
  cases ht'
  rw [hdeg] at T' hall
  exact kummer_dedekind f n hn hfl hmonic O hB Cm hC h0 t hT p hp hlen s res h hirr T' (hall T').2.2.2.2

/-- likewise the product clause alone -/
theorem product_is_p_maximal_order (f : List Int) (n : Nat) (hn : 1 ≤ n) (hfl : f.length = n + 1)
    (hmonic : lc f = 1) (hirr : Irreducible ((toPoly f).map (Int.castRingHom ℚ)))
    (O : QMat) (hO : NTV.Round2.findIntegralBasis f = .ok O)
    (t : Table) (ht : NTV.Ord.getMultTable O f = .ok t)
    (p : Nat) (hp : p.Prime) (hlen : 2 ^ 64 ≤ p → f.length < 2 ^ 64)
    (s : NTV.Draw.Stream) (res : List (HNF × Nat)) (h : decompose f O t (p : Int) s = .ok res) :
    ∃ Z : HNF, prodM t res = .ok Z ∧ principal t ((p : ℤ) :: List.replicate (n - 1) 0) = .ok Z := by
  obtain ⟨_, _, _, _, _, _, hZ⟩ := kummer_dedekind_maximal_order f n hn hfl hmonic hirr O hO t ht p hp hlen s res h
  exact hZ

/-! ### non-vacuity: the Eisenstein integers (f = x² + 3, O = ℤ[(1+√−3)/2] ≠ ℤ[θ], index 2): 3 ramifies, 7 splits,
5 is inert; p = 2 divides the index and is refused -/

theorem eisenstein_irreducible : Irreducible ((toPoly ([3, 0, 1] : List Int)).map (Int.castRingHom ℚ)) := by
  rw [← NTV.Ord.modulus_eq_map]; exact NTV.C16.eisenstein_irreducible

theorem eis_ramified3 : decompose [3, 0, 1] [[1, 0], [1/2, 1/2]] NTV.C16.tEis ((3 : Nat) : Int) [] =
    .ok [([[3, 0], [1, 1]], 2)] := by decide +kernel
theorem eis_split7 : decompose [3, 0, 1] [[1, 0], [1/2, 1/2]] NTV.C16.tEis ((7 : Nat) : Int) [[0,0,0,0],[0,0,0,64]] =
    .ok [([[7, 0], [2, 1]], 1), ([[7, 0], [4, 1]], 1)] := by decide +kernel
theorem eis_inert5 : decompose [3, 0, 1] [[1, 0], [1/2, 1/2]] NTV.C16.tEis ((5 : Nat) : Int) [] =
    .ok [([[5, 0], [0, 5]], 1)] := by decide +kernel
example : decompose [3, 0, 1] [[1, 0], [1/2, 1/2]] NTV.C16.tEis ((2 : Nat) : Int) [] = .error "panic other" := by
  decide +kernel

example := maximal_order_setting [3, 0, 1] 2 rfl rfl _ NTV.C16.eisenstein_basis
example := kummer_dedekind_maximal_order [3, 0, 1] 2 (by decide) rfl rfl eisenstein_irreducible _
  NTV.C16.eisenstein_basis _ NTV.C16.eisenstein_table 3 (by norm_num) (fun h => by omega) _ _ eis_ramified3
example := kummer_dedekind_maximal_order [3, 0, 1] 2 (by decide) rfl rfl eisenstein_irreducible _
  NTV.C16.eisenstein_basis _ NTV.C16.eisenstein_table 7 (by norm_num) (fun h => by omega) _ _ eis_split7
example := kummer_dedekind_maximal_order [3, 0, 1] 2 (by decide) rfl rfl eisenstein_irreducible _
  NTV.C16.eisenstein_basis _ NTV.C16.eisenstein_table 5 (by norm_num) (fun h => by omega) _ _ eis_inert5

/-- (3) = (3, 1 + ω)² in ℤ[ω]: through the theorem, and by evaluation -/
example : ∃ Z : HNF, prodM NTV.C16.tEis [([[3, 0], [1, 1]], 2)] = .ok Z ∧
    principal NTV.C16.tEis (((3 : Nat) : ℤ) :: List.replicate (2 - 1) 0) = .ok Z :=
  product_is_p_maximal_order [3, 0, 1] 2 (by decide) rfl rfl eisenstein_irreducible _
    NTV.C16.eisenstein_basis _ NTV.C16.eisenstein_table 3 (by norm_num) (fun h => by omega) _ _ eis_ramified3
example : prodM NTV.C16.tEis [([[3, 0], [1, 1]], 2)] = .ok [[3, 0], [0, 3]] ∧
    principal NTV.C16.tEis [3, 0] = .ok [[3, 0], [0, 3]] := by decide +kernel

end MaximalOrder

end NTV.C17

/-! ## Panic-freedom under the hypotheses of the Kummer–Dedekind theorem -/
namespace NTV.C17
open NTV.Ideal NTV.KD NTV.PolyG
open NTV.RowOps (toM Rect)

/-- **C17 panic-freedom.** f monic of degree n ≥ 1 (fewer than 2⁶⁴ coefficients), O ⊇ ℤ[θ] an order given by a
basis matrix B with an integral inverse Cm (so (O : ℤ[θ]) = det Cm) and first basis vector 1, t its
multiplication table, p a prime NOT dividing the index (otherwise the routine refuses with an explicit panic,
`refuses_when_p_divides_index`): for EVERY draw stream a run of `decompose` that does not return fails with
`inconclusive stream` (the random chunks for `factorize_mod_p` ran out — not a behaviour of the code).
No Rust panic is possible: the power-basis order and the index are computed without error (the index is the
integer det Cm), the modular factorisation is called on legal input (C08), and for every modular factor g
the closure succeeds: `to_z_basis_int` finds an integral solution (g(θ) ∈ ℤ[θ] ⊆ O), `Ideal::principal` and
the sum of ideals are total. -/
theorem no_panic (f : List Int) (n : Nat) (hn : 1 ≤ n) (hfl : f.length = n + 1) (hmonic : lc f = 1)
    (B : QMat) (hB : Rect n n B) (Cm : Matrix (Fin n) (Fin n) ℤ)
    (hC : Cm.map (Int.castRingHom ℚ) * toM n n B = 1)
    (h0 : B.getD 0 [] = 1 :: List.replicate (n - 1) 0)
    (t : Table) (ht : NTV.Ord.IsTable f B n t)
    (p : Nat) (hp : p.Prime) (hidx : ¬ (p : ℤ) ∣ Cm.det) (hlen : f.length < 2 ^ 64)
    (s : NTV.Draw.Stream) (e : String) (h : decompose f B t (p : Int) s = .error e) :
    e = "inconclusive stream" :=
  decompose_no_panic hn hfl hmonic hB hC h0 ht p hp hidx hlen s e h

/-- the closure (g, e) ↦ ((g(θ)) + (p), e) is total for every integer polynomial g (under the same hypotheses
on the order) -/
theorem prime_above_total (f : List Int) (n : Nat) (hn : 1 ≤ n) (hfl : f.length = n + 1) (hmonic : lc f = 1)
    (B : QMat) (hB : Rect n n B) (Cm : Matrix (Fin n) (Fin n) ℤ)
    (hC : Cm.map (Int.castRingHom ℚ) * toM n n B = 1)
    (h0 : B.getD 0 [] = 1 :: List.replicate (n - 1) 0)
    (t : Table) (ht : NTV.Ord.IsTable f B n t) (p : Int) (g : List Int) (m : Nat) :
    ∃ r, primeAbove f B t p g m = .ok r := by
  have hemp : f.isEmpty = false := by cases f <;> simp_all
  exact primeAbove_total (tableRing_of hn hfl hmonic hB hC ht h0) (by simp [degU, hemp, hfl]) hB hC p g m

/-! non-vacuity: ℤ[√-5], p = 3 (index 1): the hypotheses hold (`id2_rect`, `id2_inv`, `t5_isTable`); with an
empty stream the run is inconclusive, with exactly this message -/
example : ∀ s e, decompose [5, 0, 1] [[1, 0], [0, 1]] NTV.C16.t5 ((3 : Nat) : Int) s = .error e →
    e = "inconclusive stream" :=
  fun s e h => no_panic [5, 0, 1] 2 (by decide) rfl rfl _ id2_rect 1 id2_inv rfl _ t5_isTable 3 (by norm_num)
    (by simp) (by decide) s e h
example : decompose [5, 0, 1] [[1, 0], [0, 1]] NTV.C16.t5 3 [] = .error "inconclusive stream" := by decide +kernel

end NTV.C17
