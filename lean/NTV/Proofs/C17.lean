import NTV.Model.Ideal
/-! # C17 — decomposition of a rational prime: what is proved so far.
Kummer–Dedekind (primality of the P_i, norms, ∏P_i^e_i = (p), Σe_i f_i = n) is certified on every explored
case by `NTV.Spec.Ideal` (recovery of g_i from P_i by linear algebra over F_p, irreducibility, exact ideal
product). The theorems below are the refusal guard and the machine-word clause, for all inputs. -/
namespace NTV.C17
open NTV.Ideal

/-- the routine refuses (explicit panic) whenever p divides the index (O_K : ℤ[θ]) -/
theorem refuses_when_p_divides_index (f : List Int) (B : QMat) (t : Table) (p : Int) (s : NTV.Draw.Stream)
    (z : NTV.Ord.QMat) (idx : Int) (hf : f ≠ [])
    (hz : NTV.Ord.trivialOrderMonic f = .ok z) (hi : NTV.Ord.index B z = .ok idx)
    (hp : p ≠ 0) (hdiv : Int.tmod idx p = 0) :
    decompose f B t p s = .error "panic other" := by
  have he : f.isEmpty = false := by cases f <;> simp_all
  simp [decompose, he, hz, hi, hp, hdiv, bind, Except.bind, throw, throwThe, MonadExceptOf.throw]

/-- the machine-word copy handed to the modular factoriser: p itself when it fits a word, 0 otherwise
(what `p.try_into().unwrap_or(0)` yields); by C08 the value is irrelevant for p ≥ 2^64 -/
theorem word_copy (p : Int) : (0 ≤ p → p < 2 ^ 64 → (wordOf p : Int) = p) ∧ (2 ^ 64 ≤ p → wordOf p = 0) := by
  constructor
  · intro h0 h1
    have hc : 0 ≤ p ∧ p < 2 ^ 64 := ⟨h0, h1⟩
    unfold wordOf; rw [if_pos hc]; omega
  · intro h
    have hc : ¬ (0 ≤ p ∧ p < 2 ^ 64) := by omega
    unfold wordOf; rw [if_neg hc]

end NTV.C17
