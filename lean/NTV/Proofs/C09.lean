import NTV.Proofs.Lemmas.PolyDivZ
import NTV.Proofs.Lemmas.PolyDivExact
import NTV.Proofs.Lemmas.ContPP
/-! # C09 — polynomial arithmetic is exact ring arithmetic on a canonical representation.
`R` is any commutative ring with decidable equality (the code is used at `BigInt` ↦ `Int` and
`BigRational` ↦ `Rat`). `toPoly : List R → R[X]` is the abstraction map, `Canon` = no trailing zero. -/
open Polynomial
namespace NTV.C09
open NTV.PolyG
section
variable {R : Type} [CommRing R] [DecidableEq R]

/-- refinement: the list operations compute the polynomial-ring operations -/
theorem refine_add (a b : List R) : toPoly (add a b) = toPoly a + toPoly b := toPoly_add a b
theorem refine_sub (a b : List R) : toPoly (sub a b) = toPoly a - toPoly b := toPoly_sub a b
theorem refine_mul (a b : List R) : toPoly (mul a b) = toPoly a * toPoly b := toPoly_mul a b
theorem refine_neg (a : List R) : toPoly (neg a) = - toPoly a := toPoly_neg a
theorem refine_fromRaw (l : List R) : toPoly (fromRaw l) = toPoly l ∧ Canon (fromRaw l) :=
  ⟨toPoly_fromRaw l, canon_fromRaw l⟩

/-- every operation returns a canonical list (given canonical arguments) -/
theorem canonical_results [NoZeroDivisors R] (a b : List R) (ha : Canon a) (hb : Canon b) :
    Canon (add a b) ∧ Canon (sub a b) ∧ Canon (mul a b) ∧ Canon (neg a) :=
  ⟨canon_add a b ha hb, canon_sub a b ha hb, canon_mul a b, canon_neg a ha⟩

/-- mathematically equal polynomials compare equal: on canonical lists, list equality is
polynomial equality -/
theorem eq_iff (a b : List R) (ha : Canon a) (hb : Canon b) : a = b ↔ toPoly a = toPoly b :=
  ⟨fun h => h ▸ rfl, toPoly_inj a b ha hb⟩

/-- the commutative-ring laws, as equalities of the stored lists -/
theorem ring_laws [NoZeroDivisors R] (a b c : List R) (ha : Canon a) (hb : Canon b) (hc : Canon c) :
    add a b = add b a ∧ mul a b = mul b a ∧
    add (add a b) c = add a (add b c) ∧ mul (mul a b) c = mul a (mul b c) ∧
    mul a (add b c) = add (mul a b) (mul a c) ∧
    add a [] = a ∧ mul a [] = [] ∧ add a (neg a) = [] ∧ sub a b = add a (neg b) := by
  have cab := canon_add a b ha hb
  have cbc := canon_add b c hb hc
  refine ⟨?_, ?_, ?_, ?_, ?_, ?_, ?_, ?_, ?_⟩
  · exact toPoly_inj _ _ cab (canon_add b a hb ha) (by rw [toPoly_add, toPoly_add]; ring)
  · exact toPoly_inj _ _ (canon_mul a b) (canon_mul b a) (by rw [toPoly_mul, toPoly_mul]; ring)
  · exact toPoly_inj _ _ (canon_add _ _ cab hc) (canon_add _ _ ha cbc) (by simp only [toPoly_add]; ring)
  · exact toPoly_inj _ _ (canon_mul _ _) (canon_mul _ _) (by simp only [toPoly_mul]; ring)
  · exact toPoly_inj _ _ (canon_mul _ _) (canon_add _ _ (canon_mul _ _) (canon_mul _ _))
      (by simp only [toPoly_mul, toPoly_add]; ring)
  · exact toPoly_inj _ _ (canon_add _ _ ha canon_nil) ha (by simp [toPoly_add, toPoly])
  · exact toPoly_inj _ _ (canon_mul _ _) canon_nil (by simp [toPoly_mul, toPoly])
  · exact toPoly_inj _ _ (canon_add _ _ ha (canon_neg a ha)) canon_nil (by simp [toPoly_add, toPoly_neg, toPoly])
  · exact toPoly_inj _ _ (canon_sub _ _ ha hb) (canon_add _ _ ha (canon_neg b hb))
      (by simp only [toPoly_sub, toPoly_add, toPoly_neg]; ring)

/-- evaluation (`Polynomial::of`, with the repaired loop bound) is polynomial evaluation, hence a ring
homomorphism in the polynomial argument; the zero polynomial evaluates to 0 -/
theorem eval_hom (a b : List R) (x : R) :
    NTV.PolyG.eval (add a b) x = NTV.PolyG.eval a x + NTV.PolyG.eval b x ∧
    NTV.PolyG.eval (mul a b) x = NTV.PolyG.eval a x * NTV.PolyG.eval b x ∧
    NTV.PolyG.eval ([] : List R) x = 0 ∧ NTV.PolyG.eval [1] x = 1 := by
  refine ⟨?_, ?_, ?_, ?_⟩
  · simp only [eval_eq, toPoly_add, eval_add]
  · simp only [eval_eq, toPoly_mul, eval_mul]
  · simp [NTV.PolyG.eval]
  · simp [NTV.PolyG.eval]
end

/-- the formal derivative is Mathlib's `derivative`, hence satisfies the product rule -/
theorem differential_product_rule (a b : List Int) :
    toPoly (differential (mul a b)) =
      toPoly (differential a) * toPoly b + toPoly a * toPoly (differential b) ∧ Canon (differential a) := by
  refine ⟨?_, canon_differential a⟩
  simp only [toPoly_differential, toPoly_mul, derivative_mul]

/-- pseudo-division contract (`pseudo_div_rem_bigint`), for deg a ≥ deg b and b ≠ 0 -/
theorem pseudoDivRem_contract (a b : List Int) (ha : a ≠ []) (hb : b ≠ []) (hcb : Canon b) (hab : b.length ≤ a.length) :
    C (lc b ^ (a.length - b.length + 1)) * toPoly a
      = toPoly (pseudoDivRem a b).1 * toPoly b + toPoly (pseudoDivRem a b).2 ∧
    (pseudoDivRem a b).2.length < b.length ∧ Canon (pseudoDivRem a b).1 ∧ Canon (pseudoDivRem a b).2 :=
  pseudoDivRem_spec a b ha hb hcb hab

/-- the short-cut branch: zero arguments or deg a < deg b return (0, a) -/
theorem pseudoDivRem_shortcut (a b : List Int) (h : a = [] ∨ b = [] ∨ a.length < b.length) :
    pseudoDivRem a b = ([], a) := by
  unfold pseudoDivRem
  rcases h with h | h | h
  · simp [h]
  · simp [h]
  · simp [h]

/-- monic division (`div_rem_bigint`): panics (none) iff b is not monic; otherwise a = q·b + r with deg r < deg b -/
theorem divRemMonic_contract (a b : List Int) (ha : a ≠ []) (hcb : Canon b) (hab : b.length ≤ a.length) :
    (isMonic b = false → divRemMonic a b = none) ∧
    (isMonic b = true → ∃ q r, divRemMonic a b = some (q, r) ∧ toPoly a = toPoly q * toPoly b + toPoly r ∧
        r.length < b.length) := by
  constructor
  · intro h; simp [divRemMonic, h]
  · intro h
    have hb : b ≠ [] := by intro e; simp [isMonic, e] at h
    have hlc : lc b = 1 := by simpa [isMonic, hb] using h
    obtain ⟨h1, h2, _, _⟩ := pseudoDivRem_spec a b ha hb hcb hab
    refine ⟨(pseudoDivRem a b).1, (pseudoDivRem a b).2, by simp [divRemMonic, h], ?_, h2⟩
    rw [← h1, hlc]; simp

/-- rational division contract (`div_rem_bigrational`) -/
theorem divRemRat_contract (a b : List Rat) (ha : a ≠ []) (hb : b ≠ []) (hcb : Canon b) (hab : b.length ≤ a.length) :
    toPoly a = toPoly (divRemRat a b).1 * toPoly b + toPoly (divRemRat a b).2 ∧
    (divRemRat a b).2.length < b.length ∧ Canon (divRemRat a b).2 := divRemRat_spec a b ha hb hcb hab

/-- exact division returns the quotient if and only if b divides a in ℤ[x] (a, b non-zero canonical):
soundness — a returned q satisfies a = q·b; completeness — if a = q'·b for some q' then a quotient is
returned. The zero cases: b = 0 gives `none`, a = 0 (b ≠ 0) gives `some 0`. -/
theorem divExact_iff (a b : List Int) (ha : a ≠ []) (hb : b ≠ []) (hca : Canon a) (hcb : Canon b) :
    (∃ q, divExact a b = some q) ↔ (∃ q' : List Int, toPoly a = toPoly q' * toPoly b) := by
  constructor
  · rintro ⟨q, hq⟩; exact ⟨q, (divExact_sound a b q hq).2.1⟩
  · rintro ⟨q', hq'⟩; exact divExact_complete a b q' ha hb hca hcb hq'

theorem divExact_sound_full (a b q : List Int) (h : divExact a b = some q) :
    b ≠ [] ∧ toPoly a = toPoly q * toPoly b ∧ Canon q := divExact_sound a b q h

theorem divExact_zero_cases (a b : List Int) :
    divExact a [] = none ∧ (b ≠ [] → divExact [] b = some []) := by
  refine ⟨by simp [divExact], ?_⟩
  intro hb
  have : b.isEmpty = false := by cases b <;> simp_all
  simp [divExact, this]

/-- content times primitive part reproduces the polynomial; the primitive part has gcd-1 coefficients
and a positive leading coefficient; the zero polynomial gives (0, 1) -/
theorem contPP_full (a : List Int) (ha : a ≠ []) (hca : Canon a) :
    C (contPP a).1 * toPoly (contPP a).2 = toPoly a ∧
    (∀ d : Int, (∀ c ∈ (contPP a).2, d ∣ c) → d ∣ 1) ∧
    0 < lc (contPP a).2 ∧ Canon (contPP a).2 := contPP_spec a ha hca

theorem contPP_zero : contPP [] = (0, [1]) := by simp [contPP]

/-- non-vacuity of the hypotheses above -/
example : ([1, 0, 1] : List Int) ≠ [] ∧ Canon ([3, 2, 1] : List Int) ∧ ([3, 2, 1] : List Int).length ≤ [1, 0, 1, 0, 1].length := by
  refine ⟨by simp, ?_, by simp⟩
  intro h; simp

end NTV.C09
