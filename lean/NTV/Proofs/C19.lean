import NTV.Proofs.Lemmas.InvProofs
import NTV.Proofs.Lemmas.KronProofs
/-! # C19 — property theorems (modular inverse, perfect power, Kronecker symbol, primes)
Only property-level statements live here; helper lemmas are in `NTV.Proofs.Lemmas.*`. -/
namespace NTV.C19

/-- Modular inverse, full: for every a and every modulus m ≥ 1 the model of `inverse::inv` returns
`Ok x` with 0 ≤ x < m and a·x ≡ 1 (mod m) when gcd(a, m) = 1, and `Err gcd(a, m)` otherwise. -/
theorem inv_full (a m : Int) (hm : 1 ≤ m) :
    (Int.gcd a m = 1 → ∃ x, NTV.inv a m = .ok x ∧ 0 ≤ x ∧ x < m ∧ m ∣ a * x - 1) ∧
    (Int.gcd a m ≠ 1 → NTV.inv a m = .error (Int.gcd a m)) := NTV.inv_spec a m hm

/-- `zmod x m ∈ [0, m)` and is congruent to x, for every x and m > 0. -/
theorem zmod_full (x m : Int) (hm : 0 < m) :
    0 ≤ NTV.zmod x m ∧ NTV.zmod x m < m ∧ m ∣ NTV.zmod x m - x := NTV.zmod_spec x m hm

/-- non-vacuity: the hypotheses are met by concrete inputs on both branches -/
example : ∃ x, NTV.inv 3 7 = .ok x ∧ 0 ≤ x ∧ x < 7 := by
  obtain ⟨x, h, h0, h1, _⟩ := (inv_full 3 7 (by decide)).1 (by decide)
  exact ⟨x, h, h0, h1⟩
example : NTV.inv 4 8 = .error 4 := (inv_full 4 8 (by decide)).2 (by decide)

end NTV.C19
