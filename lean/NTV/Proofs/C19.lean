import NTV.Proofs.Lemmas.InvProofs
import NTV.Proofs.Lemmas.KronFull
import NTV.Proofs.Lemmas.ElemProofs
import NTV.Proofs.Lemmas.SieveProofs
import NTV.Proofs.Lemmas.PrimesIter
/-! # C19 — property theorems (modular inverse, perfect power, Kronecker symbol, primes)
Only property-level statements live here; helper lemmas are in `NTV.Proofs.Lemmas.*`. -/
namespace NTV.C19

/-- Modular inverse, full: for every a and every modulus m ≥ 1 the model of `inverse::inv` returns
`Ok x` with 0 ≤ x < m and a·x ≡ 1 (mod m) when gcd(a, m) = 1, and `Err gcd(a, m)` otherwise. -/
theorem inv_full (a m : Int) (hm : 1 ≤ m) :
    (Int.gcd a m = 1 → ∃ x, NTV.inv a m = .ok x ∧ 0 ≤ x ∧ x < m ∧ m ∣ a * x - 1) ∧
    (Int.gcd a m ≠ 1 → NTV.inv a m = .error (Int.gcd a m)) := NTV.inv_spec a m hm

/-- `zmod x m ∈ [0, m)` and is congruent to x, for every x and m > 0. -/
theorem zmod_full (x m : Int) (hm : 0 < m) :
    0 ≤ NTV.zmod x m ∧ NTV.zmod x m < m ∧ m ∣ NTV.zmod x m - x := NTV.zmod_spec x m hm

/-- non-vacuity: the hypotheses are met by concrete inputs on both branches -/
example : ∃ x, NTV.inv 3 7 = .ok x ∧ 0 ≤ x ∧ x < 7 := by
  obtain ⟨x, h, h0, h1, _⟩ := (inv_full 3 7 (by decide)).1 (by decide)
  exact ⟨x, h, h0, h1⟩
example : NTV.inv 4 8 = .error 4 := (inv_full 4 8 (by decide)).2 (by decide)

/-- the library k-th root is modelled by the floor root: r^k ≤ n < (r+1)^k for every n and k ≥ 1 -/
theorem nthRoot_full (n k : Nat) (hk : 1 ≤ k) :
    (NTV.Elem.nthRoot n k) ^ k ≤ n ∧ n < (NTV.Elem.nthRoot n k + 1) ^ k := NTV.Elem.nthRoot_spec n k hk

/-- perfect-power detection, full: negative input panics, n ≤ 1 gives (n, 1), and for n ≥ 2 the result
(b, k) has b^k = n with k the largest exponent for which n is a perfect power (k = 1 iff it is none) -/
theorem perfectPower_full (n : Int) :
    (n < 0 → NTV.Elem.perfectPower n = none) ∧
    (0 ≤ n → n ≤ 1 → NTV.Elem.perfectPower n = some (n, 1)) ∧
    (2 ≤ n → ∃ b k : Nat, NTV.Elem.perfectPower n = some ((b : Int), k) ∧ (b : Int) ^ k = n ∧ 1 ≤ k ∧
        ∀ k', k < k' → ¬ ∃ r : Nat, (r : Int) ^ k' = n) := by
  refine ⟨?_, ?_, ?_⟩
  · intro h; simp [NTV.Elem.perfectPower, h]
  · intro h0 h1
    have : ¬ n < 0 := by omega
    simp [NTV.Elem.perfectPower, this, h1]
  · intro h2
    have hn0 : ¬ n < 0 := by omega
    have hn1 : ¬ n ≤ 1 := by omega
    obtain ⟨N, rfl⟩ : ∃ N : Nat, n = (N : Int) := ⟨n.toNat, by omega⟩
    have hN : 2 ≤ N := by omega
    obtain ⟨s1, s2, s3⟩ := NTV.Elem.ppSearch_spec N (NTV.Elem.bits N)
    refine ⟨(NTV.Elem.ppSearch N (NTV.Elem.bits N)).1, (NTV.Elem.ppSearch N (NTV.Elem.bits N)).2, ?_, ?_, s2, ?_⟩
    · simp [NTV.Elem.perfectPower, hn0, hn1]
    · exact_mod_cast s1
    · intro k' hk' ⟨r, hr⟩
      have hr' : r ^ k' = N := by exact_mod_cast hr
      by_cases hle : k' ≤ NTV.Elem.bits N
      · exact s3 k' hk' hle ⟨r, hr'⟩
      · -- exponents above the bit length are impossible: r ≥ 2, so 2^k' ≤ N < 2^bits
        have hk0 : k' ≠ 0 := by omega
        have hr2 : 2 ≤ r := by
          rcases r with _ | _ | r
          · rw [zero_pow hk0] at hr'; omega
          · simp at hr'; omega
          · omega
        have h1 : 2 ^ k' ≤ N := by rw [← hr']; exact Nat.pow_le_pow_left hr2 k'
        have h2 : N < 2 ^ (N.log2 + 1) := Nat.lt_log2_self
        have hb : NTV.Elem.bits N = N.log2 + 1 := by simp [NTV.Elem.bits]; omega
        have : 2 ^ (N.log2 + 1) ≤ 2 ^ k' := Nat.pow_le_pow_right (by norm_num) (by omega)
        omega

open NumberTheorySymbols in
/-- Kronecker symbol, full (unbounded integers, hence all machine integers: no intermediate value of
the i64 routine exceeds its inputs in absolute value). For b = 0: 1 iff a = ±1. For b ≠ 0, written
b = s·2^v·b' with s = ±1 and b' odd (always possible: `kronecker_decomposition`), the model returns
(a/s)·(a/2)^v·J(a | b') where (a/−1) = −1 iff a < 0, (a/2) = 0, 1, −1 for a even, a ≡ ±1, a ≡ ±3 (mod 8)
and J is Mathlib's Jacobi symbol — the definition of the Kronecker symbol. The un-repaired code
(sign flipped whenever a < 0) does not satisfy this: it returned 1 for a = −1, b = 3. -/
theorem kronecker_full (a : Int) (s : Int) (hs : s = 1 ∨ s = -1) (v : Nat) (b' : Nat) (hb' : b' % 2 = 1) :
    NTV.Kron.kronecker a (s * 2 ^ v * (b' : Int)) =
      (if s = -1 ∧ a < 0 then -1 else 1) * NTV.Kron.kronTwo a ^ v * J(a | b') :=
  NTV.Kron.kronecker_eq a s hs v b' hb'

theorem kronecker_zero_modulus (a : Int) : NTV.Kron.kronecker a 0 = if a = 1 ∨ a = -1 then 1 else 0 :=
  NTV.Kron.kronecker_zero a

theorem kronecker_decomposition (b : Int) (hb : b ≠ 0) :
    ∃ (s : Int) (v : Nat) (b' : Nat), (s = 1 ∨ s = -1) ∧ b' % 2 = 1 ∧ b = s * 2 ^ v * (b' : Int) :=
  NTV.Kron.decomp_exists b hb

/-- the sieve returns exactly the primes ≤ bound in increasing order, for every bound -/
theorem sieve_full (bound : Nat) :
    NTV.Elem.primes bound = (List.range (bound + 1)).filter (fun x => decide x.Prime) :=
  NTV.Elem.primes_spec bound

/-- the iterator: from any state now ≥ 1 the next value is the least prime ≥ now and the state becomes
p + 1; started at 2 it therefore enumerates all primes in increasing order -/
theorem iterator_full (cnt now : Nat) (hnow : 1 ≤ now) :
    ∃ p, p.Prime ∧ now ≤ p ∧ (∀ q, q.Prime → now ≤ q → p ≤ q) ∧
      NTV.Elem.primesIter (cnt + 1) now = p :: NTV.Elem.primesIter cnt (p + 1) :=
  NTV.Elem.primesIter_step cnt now hnow

end NTV.C19
