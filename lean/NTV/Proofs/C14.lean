import NTV.Proofs.Lemmas.AlgLaws
/-! # C14 — arithmetic in ℚ[x]/(f): property theorems about the model `NTV.Alg`

`f : List Int` is the minimal polynomial (`Canon f`: non-zero leading coefficient; `2 ≤ f.length`:
degree n ≥ 1; any leading coefficient, monic or not), `modulus f : ℚ[X]` its image in ℚ[X];
`Reduced f a`: the stored expression `a : List Rat` is canonical (no trailing zero) of degree < n.
`toPoly` is the abstraction map to Mathlib polynomials. Helper lemmas are in
`NTV.Proofs.Lemmas.AlgProofs` (the loop invariants of `mul_with_mod`) and `NTV.Proofs.Lemmas.AlgLaws`. -/
open Polynomial
namespace NTV.C14
open NTV.Alg
open NTV.PolyG (Canon toPoly toPoly_add toPoly_sub)

/-- the product's representative is the remainder of the polynomial product modulo f, canonical, of
degree < n; no assertion fires on reduced operands -/
theorem product_is_remainder (f : List Int) (hf : Canon f) (hn : 2 ≤ f.length) (a b : List Rat)
    (ha : Reduced f a) (hb : Reduced f b) :
    ∃ r, mul f a b = .ok r ∧ toPoly r = (toPoly a * toPoly b) % modulus f ∧ Reduced f r := by
  obtain ⟨r, h1, h2, h3⟩ := mul_ok f hf hn a b ha hb
  exact ⟨r, h1, h3, h2⟩

/-- sums and differences are the polynomial sums and differences and stay reduced -/
theorem sum_and_difference (f : List Int) (a b : List Rat) (ha : Reduced f a) (hb : Reduced f b) :
    toPoly (add a b) = toPoly a + toPoly b ∧ Reduced f (add a b) ∧
    toPoly (sub a b) = toPoly a - toPoly b ∧ Reduced f (sub a b) :=
  ⟨toPoly_add a b, reduced_add f a b ha hb, toPoly_sub a b, reduced_sub f a b ha hb⟩

/-- multiplication is commutative (equality of the stored lists) -/
theorem mul_comm (f : List Int) (hf : Canon f) (hn : 2 ≤ f.length) (a b : List Rat)
    (ha : Reduced f a) (hb : Reduced f b) : mul f a b = mul f b a := by
  obtain ⟨r, h1, hr, hc⟩ := mul_cls f hf hn a b ha hb
  obtain ⟨s, h2, hs, hd⟩ := mul_cls f hf hn b a hb ha
  rw [h1, h2, eq_of_reduced_of_cls_eq f hf hn r s hr hs (by rw [hc, hd, _root_.mul_comm])]

/-- multiplication is associative: both bracketings succeed with the same stored list -/
theorem mul_assoc (f : List Int) (hf : Canon f) (hn : 2 ≤ f.length) (a b c : List Rat)
    (ha : Reduced f a) (hb : Reduced f b) (hc : Reduced f c) :
    ∃ ab bc r, mul f a b = .ok ab ∧ mul f b c = .ok bc ∧ mul f ab c = .ok r ∧ mul f a bc = .ok r := by
  obtain ⟨ab, h1, hab, c1⟩ := mul_cls f hf hn a b ha hb
  obtain ⟨bc, h2, hbc, c2⟩ := mul_cls f hf hn b c hb hc
  obtain ⟨r, h3, hr, c3⟩ := mul_cls f hf hn ab c hab hc
  obtain ⟨s, h4, hs, c4⟩ := mul_cls f hf hn a bc ha hbc
  have : r = s := eq_of_reduced_of_cls_eq f hf hn r s hr hs (by rw [c3, c4, c1, c2, _root_.mul_assoc])
  subst this
  exact ⟨ab, bc, r, h1, h2, h3, h4⟩

/-- multiplication distributes over addition -/
theorem left_distrib (f : List Int) (hf : Canon f) (hn : 2 ≤ f.length) (a b c : List Rat)
    (ha : Reduced f a) (hb : Reduced f b) (hc : Reduced f c) :
    ∃ ab ac, mul f a b = .ok ab ∧ mul f a c = .ok ac ∧ mul f a (add b c) = .ok (add ab ac) := by
  obtain ⟨ab, h1, hab, c1⟩ := mul_cls f hf hn a b ha hb
  obtain ⟨ac, h2, hac, c2⟩ := mul_cls f hf hn a c ha hc
  obtain ⟨r, h3, hr, c3⟩ := mul_cls f hf hn a (add b c) ha (reduced_add f b c hb hc)
  have : r = add ab ac := eq_of_reduced_of_cls_eq f hf hn r _ hr (reduced_add f ab ac hab hac)
    (by
      have e1 : toPoly (add b c) = toPoly b + toPoly c := toPoly_add b c
      have e2 : toPoly (add ab ac) = toPoly ab + toPoly ac := toPoly_add ab ac
      rw [c3, e1, e2, map_add, map_add, c1, c2, mul_add])
  subst this
  exact ⟨ab, ac, h1, h2, h3⟩

/-- 1 is neutral and 0 absorbing -/
theorem one_and_zero (f : List Int) (hf : Canon f) (hn : 2 ≤ f.length) (a : List Rat) (ha : Reduced f a) :
    mul f a [1] = .ok a ∧ mul f [1] a = .ok a ∧ mul f a [] = .ok [] ∧ mul f [] a = .ok [] := by
  have h1 : mul f a [1] = .ok a := by
    obtain ⟨r, h, hr, c⟩ := mul_cls f hf hn a [1] ha (reduced_one f hn)
    rw [h, eq_of_reduced_of_cls_eq f hf hn r a hr ha (by rw [c]; simp [toPoly])]
  refine ⟨h1, by rw [← mul_comm f hf hn a [1] ha (reduced_one f hn)]; exact h1, ?_, ?_⟩
  · cases a <;> simp [mul, mulWithMod]
  · simp [mul, mulWithMod]

/-- binary exponentiation computes the power: the representative of `a^e` is the remainder of the
polynomial power (in particular no assertion fires on the way) -/
theorem power_is_remainder (f : List Int) (hf : Canon f) (hn : 2 ≤ f.length) (a : List Rat)
    (ha : Reduced f a) (e : Nat) :
    ∃ r, pow f a e = .ok r ∧ toPoly r = (toPoly a ^ e) % modulus f ∧ Reduced f r := by
  obtain ⟨r, h1, hr, c⟩ := pow_cls f hf hn a ha e
  refine ⟨r, h1, ?_, hr⟩
  rw [← mod_self_of_reduced f hf hn r hr]
  apply mod_eq_of_dvd_sub
  rw [← cls_eq_iff, c, map_pow]

/-- a^(s+t) = a^s · a^t, as an equality of the stored lists -/
theorem pow_add (f : List Int) (hf : Canon f) (hn : 2 ≤ f.length) (a : List Rat) (ha : Reduced f a)
    (s t : Nat) :
    ∃ rs rt r, pow f a s = .ok rs ∧ pow f a t = .ok rt ∧ pow f a (s + t) = .ok r ∧ mul f rs rt = .ok r := by
  obtain ⟨rs, h1, hrs, c1⟩ := pow_cls f hf hn a ha s
  obtain ⟨rt, h2, hrt, c2⟩ := pow_cls f hf hn a ha t
  obtain ⟨r, h3, hr, c3⟩ := pow_cls f hf hn a ha (s + t)
  obtain ⟨m, h4, hm, c4⟩ := mul_cls f hf hn rs rt hrs hrt
  have : m = r := eq_of_reduced_of_cls_eq f hf hn m r hm hr (by rw [c4, c1, c2, c3, _root_.pow_add])
  subst this
  exact ⟨rs, rt, m, h1, h2, h3, h4⟩

/-- (a b)^s = a^s b^s -/
theorem mul_pow (f : List Int) (hf : Canon f) (hn : 2 ≤ f.length) (a b : List Rat)
    (ha : Reduced f a) (hb : Reduced f b) (s : Nat) :
    ∃ ab as bs r, mul f a b = .ok ab ∧ pow f a s = .ok as ∧ pow f b s = .ok bs ∧
      pow f ab s = .ok r ∧ mul f as bs = .ok r := by
  obtain ⟨ab, h0, hab, c0⟩ := mul_cls f hf hn a b ha hb
  obtain ⟨as, h1, has, c1⟩ := pow_cls f hf hn a ha s
  obtain ⟨bs, h2, hbs, c2⟩ := pow_cls f hf hn b hb s
  obtain ⟨r, h3, hr, c3⟩ := pow_cls f hf hn ab hab s
  obtain ⟨m, h4, hm, c4⟩ := mul_cls f hf hn as bs has hbs
  have : m = r := eq_of_reduced_of_cls_eq f hf hn m r hm hr (by rw [c4, c1, c2, c3, c0, _root_.mul_pow])
  subst this
  exact ⟨ab, as, bs, m, h0, h1, h2, h3, h4⟩

end NTV.C14
