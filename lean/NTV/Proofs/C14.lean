import NTV.Proofs.Lemmas.AlgLaws
import NTV.Proofs.Lemmas.TableProofs2
import NTV.Proofs.Lemmas.NormResFinal
/-! # C14 — arithmetic in ℚ[x]/(f): property theorems about the model `NTV.Alg`

`f : List Int` is the minimal polynomial (`Canon f`: non-zero leading coefficient; `2 ≤ f.length`:
degree n ≥ 1; any leading coefficient, monic or not), `modulus f : ℚ[X]` its image in ℚ[X];
`Reduced f a`: the stored expression `a : List Rat` is canonical (no trailing zero) of degree < n.
`toPoly` is the abstraction map to Mathlib polynomials. Helper lemmas are in
`NTV.Proofs.Lemmas.AlgProofs` (the loop invariants of `mul_with_mod`) and `NTV.Proofs.Lemmas.AlgLaws`. -/
open Polynomial
namespace NTV.C14
open NTV.Alg
open NTV.PolyG (Canon toPoly toPoly_add toPoly_sub)

/-- the product's representative is the remainder of the polynomial product modulo f, canonical, of
degree < n; no assertion fires on reduced operands -/
theorem product_is_remainder (f : List Int) (hf : Canon f) (hn : 2 ≤ f.length) (a b : List Rat)
    (ha : Reduced f a) (hb : Reduced f b) :
    ∃ r, mul f a b = .ok r ∧ toPoly r = (toPoly a * toPoly b) % modulus f ∧ Reduced f r := by
  obtain ⟨r, h1, h2, h3⟩ := mul_ok f hf hn a b ha hb
  exact ⟨r, h1, h3, h2⟩

/-- sums and differences are the polynomial sums and differences and stay reduced -/
theorem sum_and_difference (f : List Int) (a b : List Rat) (ha : Reduced f a) (hb : Reduced f b) :
    toPoly (add a b) = toPoly a + toPoly b ∧ Reduced f (add a b) ∧
    toPoly (sub a b) = toPoly a - toPoly b ∧ Reduced f (sub a b) :=
  ⟨toPoly_add a b, reduced_add f a b ha hb, toPoly_sub a b, reduced_sub f a b ha hb⟩

/-- multiplication is commutative (equality of the stored lists) -/
theorem mul_comm (f : List Int) (hf : Canon f) (hn : 2 ≤ f.length) (a b : List Rat)
    (ha : Reduced f a) (hb : Reduced f b) : mul f a b = mul f b a := by
  obtain ⟨r, h1, hr, hc⟩ := mul_cls f hf hn a b ha hb
  obtain ⟨s, h2, hs, hd⟩ := mul_cls f hf hn b a hb ha
  rw [h1, h2, eq_of_reduced_of_cls_eq f hf hn r s hr hs (by rw [hc, hd, _root_.mul_comm])]

/-- multiplication is associative: both bracketings succeed with the same stored list -/
theorem mul_assoc (f : List Int) (hf : Canon f) (hn : 2 ≤ f.length) (a b c : List Rat)
    (ha : Reduced f a) (hb : Reduced f b) (hc : Reduced f c) :
    ∃ ab bc r, mul f a b = .ok ab ∧ mul f b c = .ok bc ∧ mul f ab c = .ok r ∧ mul f a bc = .ok r := by
  obtain ⟨ab, h1, hab, c1⟩ := mul_cls f hf hn a b ha hb
  obtain ⟨bc, h2, hbc, c2⟩ := mul_cls f hf hn b c hb hc
  obtain ⟨r, h3, hr, c3⟩ := mul_cls f hf hn ab c hab hc
  obtain ⟨s, h4, hs, c4⟩ := mul_cls f hf hn a bc ha hbc
  have : r = s := eq_of_reduced_of_cls_eq f hf hn r s hr hs (by rw [c3, c4, c1, c2, _root_.mul_assoc])
  subst this
  exact ⟨ab, bc, r, h1, h2, h3, h4⟩

/-- multiplication distributes over addition -/
theorem left_distrib (f : List Int) (hf : Canon f) (hn : 2 ≤ f.length) (a b c : List Rat)
    (ha : Reduced f a) (hb : Reduced f b) (hc : Reduced f c) :
    ∃ ab ac, mul f a b = .ok ab ∧ mul f a c = .ok ac ∧ mul f a (add b c) = .ok (add ab ac) := by
  obtain ⟨ab, h1, hab, c1⟩ := mul_cls f hf hn a b ha hb
  obtain ⟨ac, h2, hac, c2⟩ := mul_cls f hf hn a c ha hc
  obtain ⟨r, h3, hr, c3⟩ := mul_cls f hf hn a (add b c) ha (reduced_add f b c hb hc)
  have : r = add ab ac := eq_of_reduced_of_cls_eq f hf hn r _ hr (reduced_add f ab ac hab hac)
    (by
      have e1 : toPoly (add b c) = toPoly b + toPoly c := toPoly_add b c
      have e2 : toPoly (add ab ac) = toPoly ab + toPoly ac := toPoly_add ab ac
      rw [c3, e1, e2, map_add, map_add, c1, c2, mul_add])
  subst this
  exact ⟨ab, ac, h1, h2, h3⟩

/-- 1 is neutral and 0 absorbing -/
theorem one_and_zero (f : List Int) (hf : Canon f) (hn : 2 ≤ f.length) (a : List Rat) (ha : Reduced f a) :
    mul f a [1] = .ok a ∧ mul f [1] a = .ok a ∧ mul f a [] = .ok [] ∧ mul f [] a = .ok [] := by
  have h1 : mul f a [1] = .ok a := by
    obtain ⟨r, h, hr, c⟩ := mul_cls f hf hn a [1] ha (reduced_one f hn)
    rw [h, eq_of_reduced_of_cls_eq f hf hn r a hr ha (by rw [c]; simp [toPoly])]
  refine ⟨h1, by rw [← mul_comm f hf hn a [1] ha (reduced_one f hn)]; exact h1, ?_, ?_⟩
  · cases a <;> simp [mul, mulWithMod]
  · simp [mul, mulWithMod]

/-- binary exponentiation computes the power: the representative of `a^e` is the remainder of the
polynomial power (in particular no assertion fires on the way) -/
theorem power_is_remainder (f : List Int) (hf : Canon f) (hn : 2 ≤ f.length) (a : List Rat)
    (ha : Reduced f a) (e : Nat) :
    ∃ r, pow f a e = .ok r ∧ toPoly r = (toPoly a ^ e) % modulus f ∧ Reduced f r := by
  obtain ⟨r, h1, hr, c⟩ := pow_cls f hf hn a ha e
  refine ⟨r, h1, ?_, hr⟩
  rw [← mod_self_of_reduced f hf hn r hr]
  apply mod_eq_of_dvd_sub
  rw [← cls_eq_iff, c, map_pow]

/-- a^(s+t) = a^s · a^t, as an equality of the stored lists -/
theorem pow_add (f : List Int) (hf : Canon f) (hn : 2 ≤ f.length) (a : List Rat) (ha : Reduced f a)
    (s t : Nat) :
    ∃ rs rt r, pow f a s = .ok rs ∧ pow f a t = .ok rt ∧ pow f a (s + t) = .ok r ∧ mul f rs rt = .ok r := by
  obtain ⟨rs, h1, hrs, c1⟩ := pow_cls f hf hn a ha s
  obtain ⟨rt, h2, hrt, c2⟩ := pow_cls f hf hn a ha t
  obtain ⟨r, h3, hr, c3⟩ := pow_cls f hf hn a ha (s + t)
  obtain ⟨m, h4, hm, c4⟩ := mul_cls f hf hn rs rt hrs hrt
  have : m = r := eq_of_reduced_of_cls_eq f hf hn m r hm hr (by rw [c4, c1, c2, c3, _root_.pow_add])
  subst this
  exact ⟨rs, rt, m, h1, h2, h3, h4⟩

/-- (a b)^s = a^s b^s -/
theorem mul_pow (f : List Int) (hf : Canon f) (hn : 2 ≤ f.length) (a b : List Rat)
    (ha : Reduced f a) (hb : Reduced f b) (s : Nat) :
    ∃ ab as bs r, mul f a b = .ok ab ∧ pow f a s = .ok as ∧ pow f b s = .ok bs ∧
      pow f ab s = .ok r ∧ mul f as bs = .ok r := by
  obtain ⟨ab, h0, hab, c0⟩ := mul_cls f hf hn a b ha hb
  obtain ⟨as, h1, has, c1⟩ := pow_cls f hf hn a ha s
  obtain ⟨bs, h2, hbs, c2⟩ := pow_cls f hf hn b hb s
  obtain ⟨r, h3, hr, c3⟩ := pow_cls f hf hn ab hab s
  obtain ⟨m, h4, hm, c4⟩ := mul_cls f hf hn as bs has hbs
  have : m = r := eq_of_reduced_of_cls_eq f hf hn m r hm hr (by rw [c4, c1, c2, c3, c0, _root_.mul_pow])
  subst this
  exact ⟨ab, as, bs, m, h0, h1, h2, h3, h4⟩

end NTV.C14

/-! ## C14, second sentence — the multiplication table of an order (`order.rs`, `mult_table.rs`)

An order is given by its basis matrix `basis : QMat`: `n` rows of `n` rationals, the coordinates of
ω_0, …, ω_{n−1} in the power basis 1, θ, …, θ^{n−1} of ℚ[x]/(f), `n = deg f ≥ 1`, non-singular
(`toM n n basis` is the Mathlib matrix). `NTV.Ord.omega basis i = fromRaw (row i)` is ω_i as an element
of `NTV.Alg` (this is `create_num`); `NTV.Ord.elt basis a` is the element `Σ_i a_i ω_i` for an integer
coordinate vector `a` and `NTV.Ord.comb basis x` the same for rational coordinates (both canonical
expressions of degree < n, see `elt_coef`). `NTV.Ord.IsTable f basis n t` says that `t` is `n × n × n` and that
`ω_i ⋆ ω_j = Σ_k t[i][j][k] · ω_k`; `NTV.Ord.Closed f basis n` that every product `ω_i ⋆ ω_j` is an
integral combination of the ω_k. Helper lemmas: `NTV.Proofs.Lemmas.TableAbs` (the algebra in the quotient
ring), `TableProofs`, `TableProofs2` (the list-level models). -/
namespace NTV.C14
open NTV.Ord NTV.Alg Matrix
open NTV.RowOps (toM Rect ent)
open NTV.PolyG (Canon coefAt fromRaw)

/-- the coefficients of `elt basis a` are those of `Σ_i a_i ω_i` -/
theorem elt_coef (basis : QMat) (a : List Int) (c : Nat) (hc : c < basis.length) :
    coefAt (elt basis a) c = ∑ i ∈ Finset.range basis.length, ((a.getD i 0 : Int) : Rat) * ent basis i c := by
  unfold elt comb coefAt
  rw [NTV.PolyG.getD_fromRaw]
  simp only [List.getD_eq_getElem?_getD, List.getElem?_map, List.getElem?_range hc, Option.map_some,
    Option.getD_some]
  apply Finset.sum_congr rfl
  intro i _
  cases a[i]? <;> simp

/-- **(1a)** the table returned by `get_mult_table` is `n × n × n` and its entries are the (integral)
coordinates of the products of the basis vectors: `ω_i ⋆ ω_j = Σ_k t[i][j][k] · ω_k` -/
theorem table_entries (f : List Int) (basis : QMat) (n : Nat) (hf : Canon f) (hlen : f.length = n + 1)
    (hn : 1 ≤ n) (hr : Rect n n basis) (hdet : (toM n n basis).det ≠ 0) (t : Table)
    (h : getMultTable basis f = .ok t) : IsTable f basis n t := by
  have S : Setup f basis n := ⟨hf, hlen, hn, hr, hdet⟩
  by_cases hall : AllInt f basis n
  · rw [S.getMultTable_ok hall] at h
    injection h with h
    subst h
    exact S.isTable_tableOf hall
  · rw [S.getMultTable_err hall] at h
    cases h

/-- **(1b)** `get_mult_table` succeeds exactly when the ℤ-span of the basis is closed under
multiplication; otherwise the integrality assertion fires (and nothing else can happen) -/
theorem table_exists_iff_closed (f : List Int) (basis : QMat) (n : Nat) (hf : Canon f)
    (hlen : f.length = n + 1) (hn : 1 ≤ n) (hr : Rect n n basis) (hdet : (toM n n basis).det ≠ 0) :
    (Closed f basis n → ∃ t, getMultTable basis f = .ok t) ∧
    (¬ Closed f basis n → getMultTable basis f = .error "panic assert") := by
  have S : Setup f basis n := ⟨hf, hlen, hn, hr, hdet⟩
  rw [S.closed_iff]
  exact ⟨fun h => ⟨_, S.getMultTable_ok h⟩, S.getMultTable_err⟩

/-- **(2)** `MultTable::mul` agrees with the arithmetic of ℚ[x]/(f) on coordinate vectors:
`(Σ a_i ω_i) ⋆ (Σ b_j ω_j) = Σ c_k ω_k` for the returned `c` -/
theorem tmul_agrees (f : List Int) (basis : QMat) (n : Nat) (hf : Canon f) (hlen : f.length = n + 1)
    (hn : 1 ≤ n) (hr : Rect n n basis) (hdet : (toM n n basis).det ≠ 0) (t : Table)
    (ht : IsTable f basis n t) (a b : List Int) (ha : a.length = n) (hb : b.length = n) :
    ∃ c, tmul t a b = .ok c ∧ c.length = n ∧ mul f (elt basis a) (elt basis b) = .ok (elt basis c) := by
  have S : Setup f basis n := ⟨hf, hlen, hn, hr, hdet⟩
  refine ⟨tmulList t n a b, tmul_eq t a b ht.1 ha hb, by simp [tmulList], ?_⟩
  apply S.mul_comb
  rw [vecQ_map_cast, vecQ_map_cast, vecQ_map_cast, vecZ_tmulList]
  exact (S.ctx t ht).mul_agrees _ _

/-- **(3a)** `regular t a` (the matrix built by `norm` and `inv`) is the matrix of the multiplication by
`a` in the basis ω, for row vectors: `a ⋆ (Σ x_j ω_j) = Σ y_k ω_k` whenever `y = x ᵥ* regular t a`
(for all rational coordinate vectors `x`) -/
theorem regular_is_mult_matrix (f : List Int) (basis : QMat) (n : Nat) (hf : Canon f)
    (hlen : f.length = n + 1) (hn : 1 ≤ n) (hr : Rect n n basis) (hdet : (toM n n basis).det ≠ 0)
    (t : Table) (ht : IsTable f basis n t) (a : List Int) (x y : List Rat)
    (hy : (fun k : Fin n => y.getD k 0) = (fun j : Fin n => x.getD j 0) ᵥ* toM n n (regular t a)) :
    Rect n n (regular t a) ∧ mul f (elt basis a) (comb basis x) = .ok (comb basis y) := by
  have S : Setup f basis n := ⟨hf, hlen, hn, hr, hdet⟩
  refine ⟨regular_rect t a ht.1, ?_⟩
  apply S.mul_comb
  rw [vecQ_map_cast]
  rw [toM_regular t a ht.1] at hy
  show _ = NTV.TableAbs.psi _ _ (fun k : Fin n => y.getD k 0)
  rw [hy]
  exact (S.ctx t ht).reg_is_mult _ _

/-- **(3b)** `MultTable::trace` and `MultTable::norm` return the trace and the determinant of that
matrix (the truncation `to_integer` in `norm` is exact) -/
theorem trace_norm (f : List Int) (basis : QMat) (n : Nat) (hf : Canon f) (hlen : f.length = n + 1)
    (hn : 1 ≤ n) (hr : Rect n n basis) (hdet : (toM n n basis).det ≠ 0) (t : Table)
    (ht : IsTable f basis n t) (a : List Int) (ha : a.length = n) :
    ∃ tr nm : Int, ttrace t a = .ok tr ∧ tnorm t a = .ok nm ∧
      ((tr : Int) : Rat) = Matrix.trace (toM n n (regular t a)) ∧
      ((nm : Int) : Rat) = Matrix.det (toM n n (regular t a)) := by
  have S : Setup f basis n := ⟨hf, hlen, hn, hr, hdet⟩
  refine ⟨_, _, ttrace_eq t a ht.1 (by omega), tnorm_eq t a ht.1 (by omega), ?_, ?_⟩
  · rw [(S.ctx t ht).trace_eq, toM_regular t a ht.1]
    simp [Matrix.trace, NTV.TableAbs.castM]
  · rw [toM_regular t a ht.1, NTV.TableAbs.det_castM]

/-- **(3c)** the trace is additive -/
theorem trace_additive (t : Table) (n : Nat) (ht : t.length = n) (a b : List Int) (ha : a.length = n)
    (hb : b.length = n) :
    ∃ ta tb : Int, ttrace t a = .ok ta ∧ ttrace t b = .ok tb ∧
      ttrace t (List.zipWith (· + ·) a b) = .ok (ta + tb) := by
  refine ⟨_, _, ttrace_eq t a ht (by omega), ttrace_eq t b ht (by omega), ?_⟩
  rw [ttrace_eq t _ ht (by simp [ha, hb])]
  congr 1
  rw [← Finset.sum_add_distrib]
  apply Finset.sum_congr rfl
  intro i _
  rw [← Finset.sum_add_distrib]
  apply Finset.sum_congr rfl
  intro j _
  have : vecZ (List.zipWith (· + ·) a b) n i = vecZ a n i + vecZ b n i := by
    have h1 : (i : Nat) < a.length := by rw [ha]; exact i.2
    have h2 : (i : Nat) < b.length := by rw [hb]; exact i.2
    simp [vecZ, List.getD_eq_getElem?_getD, List.getElem?_zipWith, List.getElem?_eq_getElem h1,
      List.getElem?_eq_getElem h2]
  rw [this]; ring

/-- **(3d)** the norm is multiplicative: `norm (a ⋆ b) = norm a · norm b` -/
theorem norm_multiplicative (f : List Int) (basis : QMat) (n : Nat) (hf : Canon f)
    (hlen : f.length = n + 1) (hn : 1 ≤ n) (hr : Rect n n basis) (hdet : (toM n n basis).det ≠ 0)
    (t : Table) (ht : IsTable f basis n t) (a b : List Int) (ha : a.length = n) (hb : b.length = n) :
    ∃ (c : List Int) (na nb : Int), tmul t a b = .ok c ∧ tnorm t a = .ok na ∧ tnorm t b = .ok nb ∧
      tnorm t c = .ok (na * nb) := by
  have S : Setup f basis n := ⟨hf, hlen, hn, hr, hdet⟩
  refine ⟨tmulList t n a b, _, _, tmul_eq t a b ht.1 ha hb, tnorm_eq t a ht.1 (by omega),
    tnorm_eq t b ht.1 (by omega), ?_⟩
  rw [tnorm_eq t _ ht.1 (by simp [tmulList]), vecZ_tmulList, (S.ctx t ht).det_mul]

/-- **(4)** `MultTable::inv`. The routine reads row 0 of the inverse matrix, which is the coordinate
vector of the inverse because `ω_0 = 1` (hypothesis `h0`: the first basis row is `1, 0, …, 0`, as for
every HNF basis of an order). For `a` of non-zero norm it returns `(b, d)` with `d = |norm a|` and
`a ⋆ b = d`, both through the table (`d·ω_0`) and in ℚ[x]/(f) (the constant `d`); the truncations
`to_integer` are exact (this is part of the statement: `b` is integral and `a ⋆ b = d` exactly). -/
theorem tinv_spec (f : List Int) (basis : QMat) (n : Nat) (hf : Canon f) (hlen : f.length = n + 1)
    (hn : 1 ≤ n) (hr : Rect n n basis) (hdet : (toM n n basis).det ≠ 0) (t : Table)
    (ht : IsTable f basis n t) (h0 : basis.getD 0 [] = 1 :: List.replicate (n - 1) 0)
    (a : List Int) (ha : a.length = n) (nm : Int) (hnm : tnorm t a = .ok nm) (hne : nm ≠ 0) :
    ∃ b : List Int, tinv t a = .ok (b, (nm.natAbs : Int)) ∧ b.length = n ∧
      tmul t a b = .ok ((nm.natAbs : Int) :: List.replicate (n - 1) 0) ∧
      mul f (elt basis a) (elt basis b) = .ok [(((nm.natAbs : Int) : Int) : Rat)] := by
  have S : Setup f basis n := ⟨hf, hlen, hn, hr, hdet⟩
  rw [tnorm_eq t a ht.1 (by omega)] at hnm
  injection hnm with hnm
  subst hnm
  exact S.tinv_core t ht a ha h0 hne

/-- **(4′)** when `f` is irreducible over ℚ (ℚ[x]/(f) is a field) every non-zero `a` has a non-zero
norm, so `inv` succeeds for every non-zero `a` -/
theorem norm_ne_zero_of_irreducible (f : List Int) (basis : QMat) (n : Nat) (hf : Canon f)
    (hlen : f.length = n + 1) (hn : 1 ≤ n) (hr : Rect n n basis) (hdet : (toM n n basis).det ≠ 0)
    (t : Table) (ht : IsTable f basis n t) (hirr : Irreducible (modulus f))
    (a : List Int) (ha : a.length = n) (hne : ∃ i < n, a.getD i 0 ≠ 0) :
    ∃ nm : Int, tnorm t a = .ok nm ∧ nm ≠ 0 := by
  have S : Setup f basis n := ⟨hf, hlen, hn, hr, hdet⟩
  have := noZeroDivisors_of_irreducible hirr
  refine ⟨_, tnorm_eq t a ht.1 (by omega), ?_⟩
  apply (S.ctx t ht).det_ne_zero
  intro h
  obtain ⟨i, hi, hai⟩ := hne
  exact hai (congrFun h ⟨i, hi⟩)

/-! ### non-vacuity: ℤ[i], a non-closed lattice, and the maximal order of Dedekind's cubic field -/

/-- ℤ[i]: `f = x² + 1`, basis 1, θ -/
example : getMultTable [[1, 0], [0, 1]] [1, 0, 1] = .ok [[[1, 0], [0, 1]], [[0, 1], [-1, 0]]] := by
  decide +kernel

/-- the lattice ℤ + ℤ·θ/2 is not closed under multiplication -/
example : getMultTable [[1, 0], [0, 1/2]] [1, 0, 1] = .error "panic assert" := by decide +kernel

theorem gauss_det : (toM 2 2 ([[1, 0], [0, 1]] : QMat)).det ≠ 0 := by
  have h := NTV.LinAlg.determinant_eq ([[1, 0], [0, 1]] : QMat) 2 ⟨rfl, by simp⟩
  have h2 : NTV.LinAlg.determinant ([[1, 0], [0, 1]] : QMat) = .ok 1 := by decide +kernel
  rw [h2] at h
  injection h with h
  rw [← h]; norm_num

theorem gauss_isTable : IsTable [1, 0, 1] [[1, 0], [0, 1]] 2 [[[1, 0], [0, 1]], [[0, 1], [-1, 0]]] :=
  table_entries [1, 0, 1] [[1, 0], [0, 1]] 2 (by intro _; simp) rfl (by norm_num) ⟨rfl, by simp⟩ gauss_det _
    (by decide +kernel)

example : tmul [[[1, 0], [0, 1]], [[0, 1], [-1, 0]]] [2, 3] [4, 1] = .ok [5, 14] := by decide +kernel
example : tnorm [[[1, 0], [0, 1]], [[0, 1], [-1, 0]]] [2, 3] = .ok 13 := by decide +kernel
example : ttrace [[[1, 0], [0, 1]], [[0, 1], [-1, 0]]] [2, 3] = .ok 4 := by decide +kernel
example : tinv [[[1, 0], [0, 1]], [[0, 1], [-1, 0]]] [2, 3] = .ok ([2, -3], 13) := by decide +kernel

/-- the hypotheses of `tinv_spec` are satisfiable (2 + 3i in ℤ[i]) -/
example : ∃ b : List Int, tinv [[[1, 0], [0, 1]], [[0, 1], [-1, 0]]] [2, 3] = .ok (b, 13) ∧ b.length = 2 ∧
    tmul [[[1, 0], [0, 1]], [[0, 1], [-1, 0]]] [2, 3] b = .ok [13, 0] ∧
    mul [1, 0, 1] (elt [[1, 0], [0, 1]] [2, 3]) (elt [[1, 0], [0, 1]] b) = .ok [13] :=
  tinv_spec [1, 0, 1] [[1, 0], [0, 1]] 2 (by intro _; simp) rfl (by norm_num) ⟨rfl, by simp⟩ gauss_det _
    gauss_isTable rfl [2, 3] rfl 13 (by decide +kernel) (by norm_num)

/-- the maximal order of Dedekind's cubic field: `f = x³ − x² − 2x − 8`, basis 1, θ, (θ + θ²)/2 -/
example : getMultTable [[1, 0, 0], [0, 1, 0], [0, 1/2, 1/2]] [-8, -2, -1, 1] =
    .ok [[[1, 0, 0], [0, 1, 0], [0, 0, 1]], [[0, 1, 0], [0, -1, 2], [4, 0, 2]],
      [[0, 0, 1], [4, 0, 2], [6, 2, 3]]] := by decide +kernel

theorem dedekind_det : (toM 3 3 ([[1, 0, 0], [0, 1, 0], [0, 1/2, 1/2]] : QMat)).det ≠ 0 := by
  have h := NTV.LinAlg.determinant_eq ([[1, 0, 0], [0, 1, 0], [0, 1/2, 1/2]] : QMat) 3 ⟨rfl, by simp⟩
  have h2 : NTV.LinAlg.determinant ([[1, 0, 0], [0, 1, 0], [0, 1/2, 1/2]] : QMat) = .ok (1/2) := by
    decide +kernel
  rw [h2] at h
  injection h with h
  rw [← h]; norm_num

theorem dedekind_isTable : IsTable [-8, -2, -1, 1] [[1, 0, 0], [0, 1, 0], [0, 1/2, 1/2]] 3
    [[[1, 0, 0], [0, 1, 0], [0, 0, 1]], [[0, 1, 0], [0, -1, 2], [4, 0, 2]], [[0, 0, 1], [4, 0, 2], [6, 2, 3]]] :=
  table_entries [-8, -2, -1, 1] [[1, 0, 0], [0, 1, 0], [0, 1/2, 1/2]] 3 (by intro _; simp) rfl (by norm_num)
    ⟨rfl, by simp⟩ dedekind_det _ (by decide +kernel)

example : tinv [[[1, 0, 0], [0, 1, 0], [0, 0, 1]], [[0, 1, 0], [0, -1, 2], [4, 0, 2]],
    [[0, 0, 1], [4, 0, 2], [6, 2, 3]]] [1, 2, 3] = .ok ([-74, -10, 23], 404) := by decide +kernel

end NTV.C14

/-! ## C14 — the norm is the determinant of the multiplication-by-a map: `N(g(θ)) = Res(f, g) / lc(f)^{deg g}`

`G = toPoly (elt basis a)` is the polynomial of degree < n representing `Σ_i a_i ω_i` in the power basis
(its coefficients are given by `elt_coef`), `F = (toPoly f).map (Int.castRingHom ℚ)` the minimal polynomial
in ℚ[X] (degree `n`, leading coefficient `lc f ≠ 0`, monic or not). `Polynomial.resultant F G` is Mathlib's
resultant (determinant of the Sylvester matrix for the degrees `F.natDegree = n` and `G.natDegree`).
Helper lemmas: `NTV.Proofs.Lemmas.NormResMat` (`det G(M) = Res(χ_M, G)` for a square matrix `M` over a
field), `NormResAdj` (`N_{k[X]/(F)/k}(G) · lc(F)^{deg G} = Res(F, G)`), `NormResCtx` (`det (regular t a)` is
the algebra norm, i.e. does not depend on the basis), `NormResFinal`. -/
namespace NTV.C14
open NTV.Ord NTV.Alg Matrix Polynomial
open NTV.RowOps (toM Rect ent)
open NTV.PolyG (Canon coefAt fromRaw toPoly lc)

/-- the representing polynomial has degree < n -/
theorem elt_degree_lt (basis : QMat) (n : Nat) (hr : Rect n n basis) (a : List Int) :
    (toPoly (elt basis a)).degree < n := by
  rw [degree_lt_iff_coeff_zero]
  intro m hm
  rw [NTV.PolyG.coeff_toPoly]
  have := elt_length_le basis a
  exact NTV.PolyG.getD_of_length_le _ m (by rw [hr.1] at this; omega)

/-- **(3e)** `MultTable::norm` returns `Res(f, g) / lc(f)^{deg g}`, where `g` (degree < n) is the
polynomial with `g(θ) = Σ a_i ω_i`: with `nm` the returned integer,
`nm · lc(f)^{deg g} = Res(f, g)` (hypotheses of `trace_norm`) -/
theorem norm_is_resultant (f : List Int) (basis : QMat) (n : Nat) (hf : Canon f) (hlen : f.length = n + 1)
    (hn : 1 ≤ n) (hr : Rect n n basis) (hdet : (toM n n basis).det ≠ 0) (t : Table)
    (ht : IsTable f basis n t) (a : List Int) (ha : a.length = n) :
    ∃ nm : Int, tnorm t a = .ok nm ∧
      ((nm : Int) : ℚ) * ((lc f : Int) : ℚ) ^ (toPoly (elt basis a)).natDegree
        = Polynomial.resultant ((toPoly f).map (Int.castRingHom ℚ)) (toPoly (elt basis a)) := by
  have S : Setup f basis n := ⟨hf, hlen, hn, hr, hdet⟩
  refine ⟨_, tnorm_eq t a ht.1 (by omega), ?_⟩
  have h := S.det_resultant t ht a
  rw [modulus_leadingCoeff f hf (by intro e; rw [e] at hlen; simp at hlen), modulus_eq_map] at h
  exact h

/-- **(3e′)** power basis (`basis` = identity, the order ℤ[θ] of a monic `f`, or the lattice
`1, θ, …, θ^{n−1}` in general): for `g ∈ ℤ[x]` given by its `n` coefficients,
`norm(g(θ)) · lc(f)^{deg g} = Res(f, g)` over ℤ -/
theorem norm_is_resultant_power_basis (f : List Int) (n : Nat) (hf : Canon f) (hlen : f.length = n + 1)
    (hn : 1 ≤ n) (t : Table) (ht : IsTable f (identityQ n) n t) (g : List Int) (hg : g.length = n) :
    ∃ nm : Int, tnorm t g = .ok nm ∧
      nm * lc f ^ (toPoly g).natDegree = Polynomial.resultant (toPoly f) (toPoly g) := by
  obtain ⟨nm, h1, h2⟩ := norm_is_resultant f (identityQ n) n hf hlen hn (identityQ_rect n)
    (by rw [identityQ_toM]; simp) t ht g hg
  refine ⟨nm, h1, ?_⟩
  have hinj : Function.Injective (Int.castRingHom ℚ) := Int.cast_injective
  rw [toPoly_elt_identityQ n g (le_of_eq hg)] at h2
  have h3 := resultant_map_map (toPoly f) (toPoly g) (toPoly f).natDegree (toPoly g).natDegree
    (Int.castRingHom ℚ)
  rw [natDegree_map_eq_of_injective hinj, natDegree_map_eq_of_injective hinj] at h2
  rw [h3] at h2
  apply hinj
  rw [← h2]
  simp

/-! ### non-vacuity: `N(2 + 3i) = 13 = Res(x² + 1, 3x + 2)` -/

example : identityQ 2 = [[1, 0], [0, 1]] := by decide +kernel

/-- the hypotheses of `norm_is_resultant_power_basis` are satisfiable (ℤ[i], `g = 2 + 3x`), and the
theorem computes the resultant -/
example : Polynomial.resultant (toPoly ([1, 0, 1] : List Int)) (toPoly ([2, 3] : List Int)) = 13 := by
  obtain ⟨nm, h1, h2⟩ := norm_is_resultant_power_basis [1, 0, 1] 2 (by intro _; simp) rfl (by norm_num)
    [[[1, 0], [0, 1]], [[0, 1], [-1, 0]]] gauss_isTable [2, 3] rfl
  have h3 : tnorm [[[1, 0], [0, 1]], [[0, 1], [-1, 0]]] [2, 3] = .ok 13 := by decide +kernel
  rw [h3] at h1
  injection h1 with h1
  subst h1
  rw [← h2]
  simp [lc]

/-- the same through the general statement (`G = 2 + 3x ∈ ℚ[x]`) -/
example : ∃ nm : Int, tnorm [[[1, 0], [0, 1]], [[0, 1], [-1, 0]]] [2, 3] = .ok nm ∧
    ((nm : Int) : ℚ) * ((lc ([1, 0, 1] : List Int) : Int) : ℚ) ^ (toPoly (elt [[1, 0], [0, 1]] [2, 3])).natDegree
      = Polynomial.resultant ((toPoly ([1, 0, 1] : List Int)).map (Int.castRingHom ℚ))
          (toPoly (elt [[1, 0], [0, 1]] [2, 3])) :=
  norm_is_resultant [1, 0, 1] [[1, 0], [0, 1]] 2 (by intro _; simp) rfl (by norm_num) ⟨rfl, by simp⟩ gauss_det _
    gauss_isTable [2, 3] rfl

end NTV.C14
