import NTV.Proofs.Lemmas.HnfGlue
/-! # C03 — the HNF transformation matrix is unimodular and yields a saturated kernel basis.
`A` is any rectangular integer matrix with n ≥ 1 rows and m ≥ 1 columns (`Rect n m A`),
`toM` maps list matrices to Mathlib matrices. -/
namespace NTV.C03
open NTV.Hnf Matrix

/-- the extended HNF routine terminates on every rectangular input (its inner loop's fuel
`Σ_{j<k} |a[j][i]| + 1` always suffices) -/
theorem terminates (A : Mat) (n m : Nat) (hr : Rect n m A) : (hnfWithU A).isSome :=
  hnfWithU_total A n m hr

/-- (H, U, k): U is an n×n integer matrix with unit determinant, U·A = W where the first k rows of W
are zero and the rest are the rows of H; k + rows(H) = n -/
theorem transform_spec (A : Mat) (n m : Nat) (hr : Rect n m A) (hn : 0 < n) (hm : 0 < m)
    (H U : Mat) (k : Nat) (hres : hnfWithU A = some (H, U, k)) :
    ∃ W : Mat, Rect n m W ∧ Rect n n U ∧ IsUnit (toM n n U).det ∧
      toM n n U * toM n m A = toM n m W ∧
      (∀ r < k, ∀ c < m, ent W r c = 0) ∧ H = W.drop k ∧ k + H.length = n := by
  obtain ⟨W, pv, R⟩ := Result.of_spec A n m hr hn hm H U k hres
  exact ⟨W, R.rW, R.rU, R.det, R.ua, R.zero, R.hH, by have := R.lenH; have := R.hk; omega⟩

/-- k = n − rank: the n − k rows of H are ℤ-linearly independent and span the row lattice of A
(so n − k is the rank of A) -/
theorem rank_spec (A : Mat) (n m : Nat) (hr : Rect n m A) (hn : 0 < n) (hm : 0 < m)
    (H U : Mat) (k : Nat) (hres : hnfWithU A = some (H, U, k)) :
    ∃ W : Mat, H = W.drop k ∧
      (∀ c : Fin n → ℤ, c ᵥ* toM n m W = 0 → ∀ r : Fin n, k ≤ r.val → c r = 0) ∧
      (∀ v : Fin m → ℤ, (∃ c : Fin n → ℤ, c ᵥ* toM n m A = v) ↔
        (∃ d : Fin n → ℤ, (∀ r : Fin n, r.val < k → d r = 0) ∧ d ᵥ* toM n m W = v)) := by
  obtain ⟨W, pv, R⟩ := Result.of_spec A n m hr hn hm H U k hres
  exact ⟨W, R.hH, R.indep, R.span_eq⟩

/-- the kernel routine returns the first k rows of U: each annihilates A, they are linearly
independent, and they generate every integer solution of u·A = 0 (saturated ℤ-basis of the left kernel) -/
theorem kernel_spec (A : Mat) (n m : Nat) (hr : Rect n m A) (hn : 0 < n) (hm : 0 < m)
    (H U : Mat) (k : Nat) (hres : hnfWithU A = some (H, U, k)) :
    kernel A = some (U.take k) ∧
    (∀ r : Fin n, r.val < k → toM n n U r ᵥ* toM n m A = 0) ∧
    (∀ c : Fin n → ℤ, c ᵥ* toM n n U = 0 → c = 0) ∧
    (∀ u : Fin n → ℤ, u ᵥ* toM n m A = 0 →
      ∃ c : Fin n → ℤ, (∀ r : Fin n, k ≤ r.val → c r = 0) ∧ c ᵥ* toM n n U = u) := by
  obtain ⟨W, pv, R⟩ := Result.of_spec A n m hr hn hm H U k hres
  refine ⟨by simp [kernel, hres], R.annihilates, R.U_indep, R.saturated⟩

/-- when the rows of A are independent the kernel is empty (k = 0) -/
theorem kernel_empty_of_independent (A : Mat) (n m : Nat) (hr : Rect n m A) (hn : 0 < n) (hm : 0 < m)
    (H U : Mat) (k : Nat) (hres : hnfWithU A = some (H, U, k))
    (hind : ∀ c : Fin n → ℤ, c ᵥ* toM n m A = 0 → c = 0) : k = 0 ∧ kernel A = some [] := by
  obtain ⟨W, pv, R⟩ := Result.of_spec A n m hr hn hm H U k hres
  have hk0 : k = 0 := by
    by_contra hk
    have h0 : (0 : Nat) < k := Nat.pos_of_ne_zero hk
    have hrow := R.annihilates ⟨0, hn⟩ h0
    have hz : toM n n U ⟨0, hn⟩ = 0 := hind _ hrow
    -- a zero row contradicts unimodularity
    have : (Pi.single ⟨0, hn⟩ 1 : Fin n → ℤ) ᵥ* toM n n U = 0 := by
      rw [Matrix.single_one_vecMul]; exact hz
    have := R.U_indep _ this
    have h1 := congrFun this ⟨0, hn⟩
    simp at h1
  exact ⟨hk0, by simp [kernel, hres, hk0]⟩

/-- non-vacuity: a concrete rank-deficient input satisfies the hypotheses -/
example : Rect 3 2 [[1, 2], [2, 4], [0, 1]] := ⟨rfl, by simp⟩

end NTV.C03
