import NTV.Proofs.Lemmas.LinAlgIim
/-! Correctness of the model of `subspace::supplement_basis` (Cohen 2.3.6): an `Ok(B)` answer is an
invertible `n × n` matrix whose first `k` rows are the input; `InsufficientRank` means the rows of
the input are linearly dependent. -/
open Matrix
namespace NTV.LinAlg
open NTV.RowOps (toM Rect swapRows)

/-! ### sums that differ in one or two places -/

theorem sum_modify1 (n : Nat) (F G : Nat → ℚ) (s : Nat) (hs : s < n)
    (h : ∀ i, i < n → i ≠ s → F i = G i) :
    ∑ i ∈ Finset.range n, F i = ∑ i ∈ Finset.range n, G i + (F s - G s) := by
  have : ∑ i ∈ Finset.range n, F i - ∑ i ∈ Finset.range n, G i = F s - G s := by
    rw [← Finset.sum_sub_distrib, Finset.sum_eq_single s]
    · intro i hi hne
      rw [h i (Finset.mem_range.mp hi) hne, sub_self]
    · intro hn; exact absurd (Finset.mem_range.mpr hs) hn
  linarith

theorem sum_modify2 (n : Nat) (F G : Nat → ℚ) (s t : Nat) (hs : s < n) (ht : t < n) (hne : s ≠ t)
    (h : ∀ i, i < n → i ≠ s → i ≠ t → F i = G i) :
    ∑ i ∈ Finset.range n, F i = ∑ i ∈ Finset.range n, G i + (F s - G s) + (F t - G t) := by
  let G' : Nat → ℚ := fun i => if i = t then F t else G i
  have h1 : ∑ i ∈ Finset.range n, F i = ∑ i ∈ Finset.range n, G' i + (F s - G' s) := by
    apply sum_modify1 n F G' s hs
    intro i hi his
    by_cases e : i = t
    · simp [G', e]
    · simp only [G', e, if_false]; exact h i hi his e
  have h2 : ∑ i ∈ Finset.range n, G' i = ∑ i ∈ Finset.range n, G i + (G' t - G t) := by
    apply sum_modify1 n G' G t ht
    intro i _ hit
    simp [G', hit]
  have e1 : G' s = G s := by simp [G', hne]
  have e2 : G' t = F t := by simp [G']
  rw [h1, h2, e1, e2]; ring

/-! ### entries after one step -/

theorem ent_set {n m : Nat} {a : QMat} (hr : Rect n m a) (i : Nat) (row : QRow) (hi : i < n) (r c : Nat) :
    ent (a.set i row) r c = if r = i then row.getD c 0 else ent a r c := by
  have hi' : i < a.length := by rw [hr.1]; exact hi
  unfold ent NTV.RowOps.ent
  simp only [List.getD_eq_getElem?_getD, List.getElem?_set]
  by_cases e : r = i
  · subst e; simp [hi']
  · have : ¬ i = r := fun q => e q.symm
    simp [e, this]

theorem Rect.set' {n m : Nat} {a : QMat} (hr : Rect n m a) (i : Nat) (row : QRow) (hrow : row.length = m) :
    Rect n m (a.set i row) := by
  refine ⟨by simp [hr.1], ?_⟩
  intro r hrm
  rcases List.mem_or_eq_of_mem_set hrm with h | h
  · exact hr.2 _ h
  · rw [h]; exact hrow

theorem getD_suppRow (s t : Nat) (d : ℚ) (rows rowj : QRow) (n : Nat) (hlen : rowj.length = n)
    (hs : s < n) (ht : t < n) (i : Nat) (hi : i < n) :
    (suppRow s t d rows rowj).getD i 0
      = if i = s then rowj.getD t 0
        else if i = t then rowj.getD s 0
        else rowj.getD i 0 - rows.getD i 0 * (rowj.getD t 0 * d) := by
  unfold suppRow
  simp only
  have hsl : s < rowj.length := by rw [hlen]; exact hs
  have htl : t < rowj.length := by rw [hlen]; exact ht
  rw [getD_mapIdx _ _ _ (by rw [length_swapList, hlen]; exact hi)]
  rw [getD_swapList rowj s t i hsl htl, getD_swapList rowj s t s hsl htl]
  by_cases e1 : i = s
  · subst e1
    by_cases e2 : i = t
    · subst e2; simp
    · simp [e2]
  · by_cases e2 : i = t
    · subst e2; simp [e1]
    · have hst : (if s = t then rowj.getD s 0 else if s = s then rowj.getD t 0 else rowj.getD s 0)
          = rowj.getD t 0 := by
        by_cases e3 : s = t
        · simp [e3]
        · simp [e3]
      rw [hst]
      simp [e1, e2]

theorem length_suppRow (s t : Nat) (d : ℚ) (rows rowj : QRow) : (suppRow s t d rows rowj).length = rowj.length := by
  simp [suppRow, length_swapList]

/-- `findFrom` returns the first hit: if it is not `lo`, the predicate fails at `lo` -/
theorem findFrom_lo {lo hi : Nat} {p : Nat → Bool} {j : Nat} (h : findFrom lo hi p = some j) (hne : j ≠ lo) :
    p lo = false := by
  obtain ⟨h1, h2, _⟩ := findFrom_some h
  unfold findFrom at h
  have hlen : hi - lo = (hi - lo - 1) + 1 := by omega
  rw [hlen, List.range'_succ, List.find?_cons] at h
  cases hp : p lo with
  | false => rfl
  | true =>
    rw [hp] at h
    simp only [Option.some.injEq] at h
    exact absurd h.symm hne

theorem ent_suppNewB {n : Nat} {B : QMat} (hb : Rect n n B) (orig : QMat) (s t : Nat) (hs : s < n) (ht : t < n)
    (i c : Nat) :
    ent (suppNewB s t orig B) i c
      = if i = s then ent orig s c else if i = t then ent B s c else ent B i c := by
  unfold suppNewB
  have h1 : Rect n n (B.set t (B.getD s [])) := Rect.set' hb t _ (hb.row_length s hs)
  rw [ent_set h1 s _ hs, ent_set hb t _ ht]
  rfl

theorem Rect.suppNewB' {n k : Nat} {B orig : QMat} (hb : Rect n n B) (ho : Rect k n orig) (s t : Nat)
    (hs : s < n) (hsk : s < k) : Rect n n (suppNewB s t orig B) := by
  unfold suppNewB
  exact Rect.set' (Rect.set' hb t _ (hb.row_length s hs)) s _ (ho.row_length s hsk)

theorem Rect.suppNewM' {n k : Nat} {mm : QMat} (hm : Rect k n mm) (s t : Nat) (d : ℚ) :
    Rect k n (suppNewM s t d mm) := by
  unfold suppNewM
  apply Rect.mapIdx' hm
  intro j row hrow
  split
  · rw [length_suppRow]; exact hrow
  · exact hrow

theorem ent_suppNewM {n k : Nat} {mm : QMat} (hm : Rect k n mm) (s t : Nat) (d : ℚ) (hs : s < n) (ht : t < n)
    (j i : Nat) (hj : j < k) (hi : i < n) :
    ent (suppNewM s t d mm) j i
      = if s < j then
          (if i = s then ent mm j t else if i = t then ent mm j s
           else ent mm j i - ent mm s i * (ent mm j t * d))
        else ent mm j i := by
  unfold suppNewM
  rw [ent_mapIdx hm _ j i hj]
  by_cases e : s < j
  · rw [if_pos e, if_pos e, getD_suppRow s t d _ _ n (hm.row_length j hj) hs ht i hi]
    rfl
  · rw [if_neg e, if_neg e]; rfl

/-! ### the invariant -/

/-- state before iteration `s`: `B` is invertible, its first `s` rows are those of the input, and
every later input row is a combination of the rows of `B` whose coefficients on the rows `≥ s` are
the current entries of `mm` (the coefficients on the rows `< s` are not kept by the code) -/
structure SPI (n k : Nat) (orig : QMat) (s : Nat) (mm B : QMat) : Prop where
  rmm : Rect k n mm
  rb : Rect n n B
  first : ∀ i c, i < s → ent B i c = ent orig i c
  detb : (toM n n B).det ≠ 0
  coord : ∀ j, s ≤ j → j < k → ∃ g : Nat → ℚ, (∀ i, s ≤ i → i < n → g i = ent mm j i) ∧
    ∀ c, c < n → ent orig j c = ∑ i ∈ Finset.range n, g i * ent B i c

variable {n k : Nat} {orig : QMat}

theorem SPI.init (ho : Rect k n orig) : SPI n k orig 0 orig (idMat n) where
  rmm := ho
  rb := Rect_idMat n
  first := fun _ _ h => absurd h (Nat.not_lt_zero _)
  detb := by rw [toM_idMat, det_one]; exact one_ne_zero
  coord := by
    intro j _ _
    refine ⟨fun i => ent orig j i, fun _ _ _ => rfl, ?_⟩
    intro c hc
    rw [Finset.sum_eq_single c]
    · rw [ent_idMat n c c hc hc]; simp
    · intro i hi hne
      rw [ent_idMat n i c (Finset.mem_range.mp hi) hc]; simp [hne]
    · intro h; exact absurd (Finset.mem_range.mpr hc) h

/-- the determinant of the new basis -/
theorem det_suppNewB {B : QMat} (hb : Rect n n B) (s t : Nat) (hst : s ≤ t) (ht : t < n)
    (hdet : (toM n n B).det ≠ 0) (h : Nat → ℚ) (hht : h t ≠ 0)
    (hcoord : ∀ c, c < n → ent orig s c = ∑ i ∈ Finset.range n, h i * ent B i c) :
    (toM n n (suppNewB s t orig B)).det ≠ 0 := by
  have hs : s < n := by omega
  have hsl : s < B.length := by rw [hb.1]; exact hs
  have htl : t < B.length := by rw [hb.1]; exact ht
  -- `B''` = `B` with rows `s`, `t` exchanged; the new basis replaces row `s` of `B''` by `orig[s]`
  let σ : Nat → Nat := fun i => if i = t then s else if i = s then t else i
  have hB'' : ∀ i c, ent (swapRows B s t) i c = ent B (σ i) c := by
    intro i c
    rw [ent_swapRows' B s t i c hsl htl]
    show _ = ent B (if i = t then s else if i = s then t else i) c
    split
    · rfl
    · split <;> rfl
  have hrow : (fun c : Fin n => ent orig s c)
      = ∑ i : Fin n, (h (σ i)) • (toM n n (swapRows B s t)) i := by
    ext c
    rw [Finset.sum_apply]
    simp only [Pi.smul_apply, smul_eq_mul]
    show ent orig s c = ∑ i : Fin n, h (σ i) * ent (swapRows B s t) i c
    rw [hcoord c c.2, Fin.sum_univ_eq_sum_range (fun i => h (σ i) * ent (swapRows B s t) i c) n]
    symm
    by_cases e : s = t
    · apply Finset.sum_congr rfl
      intro i _
      rw [hB'']
      have : σ i = i := by
        show (if i = t then s else if i = s then t else i) = i
        by_cases q : i = t
        · rw [if_pos q, e, q]
        · rw [if_neg q]
          by_cases q2 : i = s
          · rw [if_pos q2, ← e, q2]
          · rw [if_neg q2]
      rw [this]
    · rw [sum_modify2 n _ (fun i => h i * ent B i c) s t hs ht e]
      · rw [hB'', hB'']
        have e1 : σ s = t := by
          show (if s = t then s else if s = s then t else s) = t
          rw [if_neg e, if_pos rfl]
        have e2 : σ t = s := by
          show (if t = t then s else if t = s then t else t) = s
          rw [if_pos rfl]
        rw [e1, e2]; ring
      · intro i _ h1 h2
        rw [hB'']
        have : σ i = i := by
          show (if i = t then s else if i = s then t else i) = i
          rw [if_neg h2, if_neg h1]
        rw [this]
  have hM : toM n n (suppNewB s t orig B)
      = updateRow (toM n n (swapRows B s t)) ⟨s, hs⟩ (fun c : Fin n => ent orig s c) := by
    ext i c
    rw [updateRow_apply]
    show ent (suppNewB s t orig B) i c = _
    rw [ent_suppNewB hb orig s t hs ht]
    by_cases e1 : (i : Nat) = s
    · have : i = ⟨s, hs⟩ := Fin.ext e1
      rw [if_pos e1, if_pos this]
    · have : ¬ i = ⟨s, hs⟩ := fun q => e1 (congrArg Fin.val q)
      rw [if_neg e1, if_neg this]
      show _ = ent (swapRows B s t) i c
      rw [hB'']
      show _ = ent B (if (i : Nat) = t then s else if (i : Nat) = s then t else i) c
      by_cases e2 : (i : Nat) = t
      · rw [if_pos e2, if_pos e2]
      · rw [if_neg e2, if_neg e2, if_neg e1]
  rw [hM, hrow, det_updateRow_sum]
  have hσs : σ s = t := by
    show (if s = t then s else if s = s then t else s) = t
    by_cases e : s = t
    · rw [if_pos e, e]
    · rw [if_neg e, if_pos rfl]
  simp only [smul_eq_mul]
  show h (σ s) * _ ≠ 0
  rw [hσs]
  apply mul_ne_zero hht
  by_cases e : s = t
  · subst e
    have := NTV.RowOps.toM_swapRows n n B hb ⟨s, hs⟩ ⟨s, hs⟩
    simp only [Equiv.swap_self] at this
    have e2 : toM n n (swapRows B s s) = toM n n B := by rw [this]; rfl
    rw [e2]; exact hdet
  · have hne : (⟨s, hs⟩ : Fin n) ≠ ⟨t, ht⟩ := fun q => e (by simpa using congrArg Fin.val q)
    have := NTV.RowOps.det_swapRows n B hb ⟨s, hs⟩ ⟨t, ht⟩ hne
    simp only at this
    rw [this]; exact neg_ne_zero.mpr hdet

theorem SPI.step {s : Nat} {mm B mm' B' : QMat} (h : SPI n k orig s mm B) (ho : Rect k n orig) (hsk : s < k)
    (hs : suppStep n s orig mm B = some (mm', B')) : SPI n k orig (s + 1) mm' B' := by
  unfold suppStep at hs
  split at hs
  · exact absurd hs (by simp)
  · rename_i t hf
    obtain ⟨f1, f2, f3⟩ := findFrom_some hf
    have hpiv : ent mm s t ≠ 0 := by simpa using f3
    have hss : t ≠ s → ent mm s s = 0 := by
      intro hne
      have := findFrom_lo hf hne
      simpa using this
    have hsn : s < n := by omega
    simp only [Option.some.injEq, Prod.mk.injEq] at hs
    obtain ⟨rfl, rfl⟩ := hs
    obtain ⟨hh, hh1, hh2⟩ := h.coord s (le_refl s) hsk
    have eB := fun i c => ent_suppNewB h.rb orig s t hsn f2 i c
    have eM := fun j i hj hi => ent_suppNewM h.rmm s t (ent mm s t)⁻¹ hsn f2 j i hj hi
    refine ⟨Rect.suppNewM' h.rmm s t _, Rect.suppNewB' h.rb ho s t hsn hsk, ?_, ?_, ?_⟩
    · intro i c hi
      rw [eB]
      by_cases e : i = s
      · rw [if_pos e, e]
      · rw [if_neg e, if_neg (by omega)]
        exact h.first i c (by omega)
    · exact det_suppNewB h.rb s t f1 f2 h.detb hh (by rw [hh1 t f1 f2]; exact hpiv) hh2
    · intro j hj1 hj2
      obtain ⟨g, g1, g2⟩ := h.coord j (by omega) hj2
      -- abbreviations: `x = mm[j]`, `d = 1 / mm[s][t]`
      have hgs : g s = ent mm j s := g1 s (le_refl s) hsn
      have hgt : g t = ent mm j t := g1 t f1 f2
      have hhs : hh s = ent mm s s := hh1 s (le_refl s) hsn
      have hht : hh t = ent mm s t := hh1 t f1 f2
      refine ⟨fun i => if i = s then ent mm j t * (ent mm s t)⁻¹ else if i = t then ent mm j s
        else g i - hh i * (ent mm j t * (ent mm s t)⁻¹), ?_, ?_⟩
      · intro i hi1 hi2
        have his : ¬ i = s := by omega
        have hsj : s < j := by omega
        rw [eM j i hj2 hi2]
        simp only [hsj, his, if_true, if_false]
        by_cases e : i = t
        · simp only [e, if_true]
        · simp only [e, if_false]
          rw [g1 i (by omega) hi2, hh1 i (by omega) hi2]
      · intro c hc
        -- the generic term and its sum
        have hG : ∑ i ∈ Finset.range n, (g i - hh i * (ent mm j t * (ent mm s t)⁻¹)) * ent B i c
            = ent orig j c - ent mm j t * (ent mm s t)⁻¹ * ent orig s c := by
          rw [g2 c hc, hh2 c hc, Finset.mul_sum, ← Finset.sum_sub_distrib]
          apply Finset.sum_congr rfl
          intro i _; ring
        have hd : ent mm s t * (ent mm s t)⁻¹ = 1 := mul_inv_cancel₀ hpiv
        by_cases e : s = t
        · subst e
          rw [sum_modify1 n _ (fun i => (g i - hh i * (ent mm j s * (ent mm s s)⁻¹)) * ent B i c) s hsn]
          · rw [hG, eB]
            simp only [if_true]
            rw [hgs, hhs]
            have : (ent mm j s - ent mm s s * (ent mm j s * (ent mm s s)⁻¹)) = 0 := by
              rw [mul_comm (ent mm j s), ← mul_assoc, hd]; ring
            rw [this]; ring
          · intro i _ hne
            rw [eB]
            simp only [hne, if_false]
        · have hte : t ≠ s := fun q => e q.symm
          rw [sum_modify2 n _ (fun i => (g i - hh i * (ent mm j t * (ent mm s t)⁻¹)) * ent B i c) s t hsn f2 e]
          · rw [hG, eB, eB]
            simp only [if_true, hte, if_false]
            rw [hgs, hgt, hhs, hht, hss hte]
            have : (ent mm j t - ent mm s t * (ent mm j t * (ent mm s t)⁻¹)) = 0 := by
              rw [mul_comm (ent mm j t), ← mul_assoc, hd]; ring
            rw [this]; ring
          · intro i _ h1 h2
            rw [eB]
            simp only [h1, h2, if_false]

/-- no pivot in row `s`: the input row `s` is a combination of the earlier input rows -/
theorem SPI.dependent {s : Nat} {mm B : QMat} (h : SPI n k orig s mm B) (hsk : s < k)
    (hs : suppStep n s orig mm B = none) :
    ∃ y : Nat → ℚ, y s ≠ 0 ∧ ∀ c, c < n → ∑ l ∈ Finset.range k, y l * ent orig l c = 0 := by
  unfold suppStep at hs
  split at hs
  · rename_i hf
    obtain ⟨hh, hh1, hh2⟩ := h.coord s (le_refl s) hsk
    have hz : ∀ i, s ≤ i → i < n → hh i = 0 := by
      intro i h1 h2
      rw [hh1 i h1 h2]
      have := findFrom_none hf i h1 h2
      simpa using this
    refine ⟨fun l => if l < s ∧ l < n then hh l else if l = s then -1 else 0, by simp, ?_⟩
    intro c hc
    have hsplit : ∀ l ∈ Finset.range k,
        (if l < s ∧ l < n then hh l else if l = s then (-1 : ℚ) else 0) * ent orig l c
        = (if l < s ∧ l < n then hh l * ent orig l c else 0) + (if l = s then - ent orig s c else 0) := by
      intro l _
      by_cases q1 : l < s ∧ l < n
      · have : l ≠ s := by omega
        simp [q1, this]
      · by_cases q2 : l = s
        · subst q2; simp
        · simp [q1, q2]
    rw [Finset.sum_congr rfl hsplit, Finset.sum_add_distrib]
    have s2 : ∑ l ∈ Finset.range k, (if l = s then - ent orig s c else 0) = - ent orig s c := by
      rw [Finset.sum_ite_eq' (Finset.range k) s]; simp [hsk]
    have s1 : ∑ l ∈ Finset.range k, (if l < s ∧ l < n then hh l * ent orig l c else 0) = ent orig s c := by
      rw [hh2 c hc, ← Finset.sum_filter]
      have hterm : ∀ i ∈ Finset.range n, hh i * ent B i c = if i < s then hh i * ent orig i c else 0 := by
        intro i hi
        by_cases q : i < s
        · rw [if_pos q, h.first i c q]
        · rw [if_neg q, hz i (by omega) (Finset.mem_range.mp hi), zero_mul]
      rw [Finset.sum_congr rfl hterm, ← Finset.sum_filter]
      apply Finset.sum_congr
      · ext l
        simp only [Finset.mem_filter, Finset.mem_range]
        omega
      · intro _ _; rfl
    rw [s1, s2]; ring
  · simp at hs

theorem suppLoop_some (steps s : Nat) (mm B Bf : QMat) (ho : Rect k n orig) (hn : steps + s = k) (hsn : s ≤ n)
    (h : SPI n k orig s mm B) (hs : suppLoop n orig steps s mm B = some Bf) :
    k ≤ n ∧ Rect n n Bf ∧ (∀ i c, i < k → ent Bf i c = ent orig i c) ∧ (toM n n Bf).det ≠ 0 := by
  induction steps generalizing s mm B with
  | zero =>
    simp only [suppLoop, Option.some.injEq] at hs
    subst hs
    have : s = k := by omega
    subst this
    exact ⟨hsn, h.rb, h.first, h.detb⟩
  | succ q ih =>
    unfold suppLoop at hs
    split at hs
    · simp at hs
    · rename_i mm1 B1 hst
      have hs1 : s < n := by
        unfold suppStep at hst
        split at hst
        · simp at hst
        · rename_i t hf
          have := findFrom_some hf
          omega
      exact ih (s + 1) mm1 B1 (by omega) (by omega) (h.step ho (by omega) hst) hs

theorem suppLoop_none (steps s : Nat) (mm B : QMat) (ho : Rect k n orig) (hn : steps + s = k)
    (h : SPI n k orig s mm B) (hs : suppLoop n orig steps s mm B = none) :
    ∃ y : Nat → ℚ, (∃ l, l < k ∧ y l ≠ 0) ∧ ∀ c, c < n → ∑ l ∈ Finset.range k, y l * ent orig l c = 0 := by
  induction steps generalizing s mm B with
  | zero => simp [suppLoop] at hs
  | succ q ih =>
    unfold suppLoop at hs
    split at hs
    · rename_i hst
      obtain ⟨y, hy, hrel⟩ := h.dependent (by omega) hst
      exact ⟨y, ⟨s, by omega, hy⟩, hrel⟩
    · rename_i mm1 B1 hst
      exact ih (s + 1) mm1 B1 (by omega) (h.step ho (by omega) hst) hs

/-- what `supplement_basis` computes on a rectangular argument with at least one row -/
theorem supp_unfold (M : QMat) (k n : Nat) (hM : Rect k n M) (hk : 0 < k) :
    supplementBasis M = match suppLoop n M k 0 M (idMat n) with
      | none => .error errInsufficientRank
      | some b => .ok b := by
  have hrM := isRect_of_Rect hM
  cases M with
  | nil => exact absurd hM.1 (by simp; omega)
  | cons m0 mt =>
    have h1 : m0.length = n := hM.2 m0 (by simp)
    have h3 : (m0 :: mt).length = k := hM.1
    unfold supplementBasis
    simp only [h1, h3, hrM, Bool.not_true, Bool.false_eq_true, if_false]
    generalize suppLoop n (m0 :: mt) k 0 (m0 :: mt) (idMat n) = res
    cases res <;> rfl

/-- **basis supplementation, success**: an invertible `n × n` matrix whose first `k` rows are the input -/
theorem supp_ok (M B : QMat) (k n : Nat) (hM : Rect k n M) (hk : 0 < k) (h : supplementBasis M = .ok B) :
    k ≤ n ∧ Rect n n B ∧ (∀ i c, i < k → ent B i c = ent M i c) ∧ (toM n n B).det ≠ 0 := by
  rw [supp_unfold M k n hM hk] at h
  split at h
  · simp at h
  · rename_i b hloop
    simp only [Except.ok.injEq] at h
    subst h
    exact suppLoop_some k 0 M (idMat n) b hM (by omega) (Nat.zero_le n) (SPI.init hM) hloop

/-- **basis supplementation, failure**: the only error is `InsufficientRank`, and then the rows of the
input are linearly dependent -/
theorem supp_err (M : QMat) (k n : Nat) (hM : Rect k n M) (hk : 0 < k) (e : String)
    (h : supplementBasis M = .error e) :
    e = errInsufficientRank ∧ ∃ y : Fin k → ℚ, y ≠ 0 ∧ y ᵥ* toM k n M = 0 := by
  rw [supp_unfold M k n hM hk] at h
  split at h
  · rename_i hloop
    simp only [Except.error.injEq] at h
    refine ⟨h.symm, ?_⟩
    obtain ⟨y, ⟨l, hl, hyl⟩, hrel⟩ := suppLoop_none k 0 M (idMat n) hM (by omega) (SPI.init hM) hloop
    refine ⟨fun i => y i, ?_, ?_⟩
    · intro h0
      exact hyl (congrFun h0 ⟨l, hl⟩)
    · ext c
      have := hrel c c.2
      simp only [Matrix.vecMul, dotProduct, Pi.zero_apply]
      rw [← this, ← Fin.sum_univ_eq_sum_range (fun l => y l * ent M l c) k]
      rfl
  · simp at h

/-- an invertible matrix whose first `k` rows are those of `M` certifies that they are independent -/
theorem independent_of_supp (M B : QMat) (k n : Nat) (hkn : k ≤ n)
    (hfirst : ∀ i c, i < k → ent B i c = ent M i c) (hdet : (toM n n B).det ≠ 0)
    (y : Fin k → ℚ) (hy : y ᵥ* toM k n M = 0) : y = 0 := by
  let y' : Fin n → ℚ := fun i => if h : (i : Nat) < k then y ⟨i, h⟩ else 0
  have hy' : y' ᵥ* toM n n B = 0 := by
    ext c
    simp only [Matrix.vecMul, dotProduct, Pi.zero_apply]
    have h0 := congrFun hy c
    simp only [Matrix.vecMul, dotProduct, Pi.zero_apply] at h0
    have e1 : ∑ x : Fin n, y' x * toM n n B x c
        = ∑ i ∈ Finset.range n, (if h : i < k then y ⟨i, h⟩ else 0) * ent B i c :=
      Fin.sum_univ_eq_sum_range (fun i => (if h : i < k then y ⟨i, h⟩ else 0) * ent B i c) n
    have e2 : ∑ x : Fin k, y x * toM k n M x c
        = ∑ i ∈ Finset.range k, (if h : i < k then y ⟨i, h⟩ else 0) * ent M i c := by
      rw [← Fin.sum_univ_eq_sum_range (fun i => (if h : i < k then y ⟨i, h⟩ else 0) * ent M i c) k]
      apply Finset.sum_congr rfl
      intro x _
      simp only [x.2, dite_true]
      rfl
    have e3 : ∑ i ∈ Finset.range k, (if h : i < k then y ⟨i, h⟩ else 0) * ent M i c
        = ∑ i ∈ Finset.range k, (if h : i < k then y ⟨i, h⟩ else 0) * ent B i c := by
      apply Finset.sum_congr rfl
      intro i hi
      rw [hfirst i c (Finset.mem_range.mp hi)]
    rw [e2, e3] at h0
    rw [e1]
    refine Eq.trans ?_ h0
    symm
    apply Finset.sum_subset
    · intro i hi
      exact Finset.mem_range.mpr (by have := Finset.mem_range.mp hi; omega)
    · intro i _ hi2
      have : ¬ i < k := fun q => hi2 (Finset.mem_range.mpr q)
      rw [dif_neg this, zero_mul]
  have hzero : y' = 0 := by
    by_contra hne
    exact hdet (Matrix.exists_vecMul_eq_zero_iff.mp ⟨y', hne, hy'⟩)
  ext i
  have := congrFun hzero ⟨i, by have := i.2; omega⟩
  simpa [y'] using this

/-- **basis supplementation, complete behaviour**: `Ok` exactly when the `k` input rows are
independent (rank `k`), with an invertible `n × n` result that starts with the input rows;
`InsufficientRank` otherwise -/
theorem supp_spec (M : QMat) (k n : Nat) (hM : Rect k n M) (hk : 0 < k) :
    let independent := ∀ y : Fin k → ℚ, y ᵥ* toM k n M = 0 → y = 0
    (independent → ∃ B, supplementBasis M = .ok B ∧ k ≤ n ∧ Rect n n B ∧
      (∀ i c, i < k → ent B i c = ent M i c) ∧ (toM n n B).det ≠ 0) ∧
    (¬ independent → supplementBasis M = .error errInsufficientRank) := by
  intro independent
  cases h : supplementBasis M with
  | ok B =>
    obtain ⟨h1, h2, h3, h4⟩ := supp_ok M B k n hM hk h
    have hind : independent := fun y hy => independent_of_supp M B k n h1 h3 h4 y hy
    exact ⟨fun _ => ⟨B, rfl, h1, h2, h3, h4⟩, fun hn => absurd hind hn⟩
  | error e =>
    obtain ⟨he, y, hy0, hy⟩ := supp_err M k n hM hk e h
    have hdep : ¬ independent := fun hind => hy0 (hind y hy)
    exact ⟨fun hi => absurd hi hdep, fun _ => by rw [he]⟩

end NTV.LinAlg
