import NTV.Proofs.Lemmas.IdealProofsC
import NTV.Proofs.Lemmas.HnfDet
import NTV.Proofs.Lemmas.DecompProofsC
import Mathlib.LinearAlgebra.FreeModule.Finite.CardQuotient
import Mathlib.GroupTheory.OrderOfElement
/-! # Ideal norm, part A (lattice level): the norm of a full-rank ideal in normal form is the index
`[ℤⁿ : L(I)]`, i.e. the number of elements of the quotient `ℤⁿ ⧸ L(I)`. -/
namespace NTV.IdealP
open NTV.Hnf Matrix Finset

/-- the quotient of ℤⁿ by the lattice of a square matrix of non-zero determinant has |det| elements -/
theorem card_quot_Lat {n : Nat} {A : Mat} (hA : A.length = n) (hdet : (toM n n A).det ≠ 0) :
    Nat.card ((Fin n → ℤ) ⧸ Lat n A) = (toM n n A).det.natAbs := by
  have hli : LinearIndependent ℤ (fun i => toM n n A i) :=
    Matrix.linearIndependent_rows_of_det_ne_zero hdet
  have hspan : Submodule.span ℤ (Set.range (fun i => toM n n A i)) = Lat n A := by
    rw [Lat, image_rows_eq_range hA]
  let bN : Module.Basis (Fin n) ℤ (Lat n A) := (Module.Basis.span hli).map (LinearEquiv.ofEq _ _ hspan)
  rw [← Submodule.natAbs_det_basis_change (Pi.basisFun ℤ (Fin n)) (Lat n A) bN]
  congr 1
  rw [Pi.basisFun_det_apply]
  congr 1
  ext i j
  simp [bN, Module.Basis.span_apply]

/-- a normal form with n rows of length n is lower triangular with a positive diagonal, and the model's
`determinant` is the determinant -/
theorem hnf_square {n : Nat} {H : Mat} {pv : List Nat} (hn : 0 < n) (hW : Wid n H) (hH : IsHNF H n pv)
    (hfull : H.length = n) : determinant H = (toM n n H).det ∧ 0 < (toM n n H).det := by
  have hpvlen : pv.length = n := by rw [hH.len, hfull]
  have hpv := pairwise_lt_eq_id pv n hpvlen hH.incr hH.lt
  have hlow : ∀ i j : Fin n, i.val < j.val → toM n n H i j = 0 := by
    intro i j hij
    have hi : i.val < pv.length := by rw [hpvlen]; exact i.isLt
    have := hH.last i.val hi j.val (by rw [hpv i.val hi]; exact hij) j.isLt
    simpa [toM] using this
  have hdiag : ∀ i : Fin n, 0 < toM n n H i i := by
    intro i
    have hi : i.val < pv.length := by rw [hpvlen]; exact i.isLt
    have := hH.pos i.val hi
    rw [hpv i.val hi] at this
    simpa [toM] using this
  have hdetH : (toM n n H).det = ∏ i : Fin n, toM n n H i i := by
    apply det_of_isLowerTriangular
    intro i j hij
    exact hlow i j hij
  have hmodel : determinant H = ∏ i : Fin n, toM n n H i i := by
    have hdim : dim H = deg H := by
      unfold dim deg
      cases hHc : H with
      | nil => rw [hHc] at hfull; simp at hfull; omega
      | cons r rs =>
        have h1 : (r :: rs).length = n := by rw [← hHc]; exact hfull
        have h2 : r.length = n := hW r (by rw [hHc]; simp)
        simp only; omega
    unfold determinant
    simp only [hdim, ne_eq, not_true_eq_false, ↓reduceIte]
    rw [foldl_mul_eq_prod (fun i => ent H i i) H.length, hfull,
      ← Fin.prod_univ_eq_prod_range (fun i => ent H i i) n]
    rfl
  refine ⟨by rw [hmodel, hdetH], ?_⟩
  rw [hdetH]; exact Finset.prod_pos (fun i _ => hdiag i)

/-- **norm = index**: for a normal form with n rows (full rank) the model's norm is positive and equals
the number of elements of ℤⁿ ⧸ L(I) -/
theorem norm_eq_card {n : Nat} {H : Mat} {pv : List Nat} (hn : 0 < n) (hW : Wid n H) (hH : IsHNF H n pv)
    (hfull : H.length = n) :
    0 < NTV.Ideal.norm H ∧ NTV.Ideal.norm H = (Nat.card ((Fin n → ℤ) ⧸ Lat n H) : ℤ) := by
  obtain ⟨h1, h2⟩ := hnf_square hn hW hH hfull
  refine ⟨by unfold NTV.Ideal.norm; rw [h1]; exact h2, ?_⟩
  rw [card_quot_Lat hfull (ne_of_gt h2)]
  unfold NTV.Ideal.norm
  rw [h1, Int.natCast_natAbs, abs_of_pos h2]

/-- a normal form with fewer than n rows (n ≥ 1, not the empty matrix) has norm 0 … -/
theorem norm_eq_zero_of_not_full {n : Nat} {H : Mat} (hW : Wid n H) (h0 : H ≠ []) (hlt : H.length ≠ n) :
    NTV.Ideal.norm H = 0 := by
  unfold NTV.Ideal.norm determinant dim deg
  cases H with
  | nil => exact absurd rfl h0
  | cons r rs =>
    have h2 : r.length = n := hW r (by simp)
    simp only [h2]
    rw [if_pos hlt]

/-- the index kills the quotient: `[ℤⁿ : L] · y ∈ L` -/
theorem card_smul_mem {n : Nat} (L : Submodule ℤ (Fin n → ℤ)) (y : Fin n → ℤ) :
    (Nat.card ((Fin n → ℤ) ⧸ L) : ℤ) • y ∈ L := by
  have h := L.toAddSubgroup.nsmul_index_mem y
  rw [natCast_zsmul]
  exact h

/-- a normal form with fewer than n rows has infinite index (the quotient is infinite: `Nat.card` = 0) -/
theorem card_quot_eq_zero_of_not_full {n : Nat} {H : Mat} {pv : List Nat} (hH : IsHNF H n pv)
    (hlt : H.length ≠ n) : Nat.card ((Fin n → ℤ) ⧸ Lat n H) = 0 := by
  by_contra hc
  apply hlt
  exact NTV.DecompP.full_rank hH (Nat.card ((Fin n → ℤ) ⧸ Lat n H) : ℤ) (by exact_mod_cast hc)
    (fun y => card_smul_mem _ y)

/-- **norm = index**, all ranks: for a non-empty normal form the model's norm is the number of elements of
ℤⁿ ⧸ L(I) when this is finite and 0 otherwise (`Nat.card` of an infinite type is 0) -/
theorem norm_eq_card_general {n : Nat} {H : Mat} {pv : List Nat} (hn : 0 < n) (hW : Wid n H)
    (hH : IsHNF H n pv) (h0 : H ≠ []) :
    NTV.Ideal.norm H = (Nat.card ((Fin n → ℤ) ⧸ Lat n H) : ℤ) := by
  by_cases hfull : H.length = n
  · exact (norm_eq_card hn hW hH hfull).2
  · rw [norm_eq_zero_of_not_full hW h0 hfull, card_quot_eq_zero_of_not_full hH hfull]; rfl

/-- a square matrix whose lattice has finite index has a non-zero determinant -/
theorem det_ne_zero_of_card_ne_zero {n : Nat} {A : Mat} (hA : A.length = n)
    (hc : Nat.card ((Fin n → ℤ) ⧸ Lat n A) ≠ 0) : (toM n n A).det ≠ 0 := by
  classical
  set d : ℤ := (Nat.card ((Fin n → ℤ) ⧸ Lat n A) : ℤ) with hd
  have hd0 : d ≠ 0 := by rw [hd]; exact_mod_cast hc
  have hmem : ∀ i : Fin n, ∃ c : Fin n → ℤ, c ᵥ* toM n n A = d • (Pi.single i 1 : Fin n → ℤ) := by
    intro i
    have := card_smul_mem (Lat n A) (Pi.single i 1)
    rw [mem_Lat_iff hA] at this
    exact this
  choose c hc' using hmem
  have hYM : Matrix.of c * toM n n A = d • (1 : Matrix (Fin n) (Fin n) ℤ) := by
    ext i j
    have := congrFun (hc' i) j
    simp only [Matrix.vecMul, dotProduct] at this
    simp only [Matrix.mul_apply, Matrix.of_apply, Matrix.smul_apply, Matrix.one_apply, smul_eq_mul]
    rw [this]
    simp [Pi.single_apply, eq_comm]
  intro h0
  have := congrArg Matrix.det hYM
  rw [Matrix.det_mul, h0, mul_zero, Matrix.det_smul, Matrix.det_one, mul_one] at this
  exact pow_ne_zero _ hd0 this.symm

/-- a full-rank normal form contains `norm · ℤⁿ` -/
theorem norm_smul_mem {n : Nat} {H : Mat} {pv : List Nat} (hn : 0 < n) (hW : Wid n H) (hH : IsHNF H n pv)
    (hfull : H.length = n) (y : Fin n → ℤ) : NTV.Ideal.norm H • y ∈ Lat n H := by
  rw [(norm_eq_card hn hW hH hfull).2]
  exact card_smul_mem _ y

/-- in the result `(H, U, k)` of the normal-form routine on a square matrix of non-zero determinant, no
row is dropped: k = 0 -/
theorem hnfWithU_k_zero {n : Nat} {A H U : Mat} {k : Nat} (hr : Rect n n A) (hn : 0 < n)
    (hdet : (toM n n A).det ≠ 0) (hres : hnfWithU A = some (H, U, k)) : k = 0 := by
  obtain ⟨W, pv, R⟩ := Result.of_spec A n n hr hn hn H U k hres
  by_contra hk
  have hk0 : 0 < k := Nat.pos_of_ne_zero hk
  have hW0 : (toM n n W).det = 0 := by
    apply Matrix.det_eq_zero_of_row_eq_zero ⟨0, hn⟩
    intro j
    exact R.hzero ⟨0, hn⟩ hk0 j
  have hmul : (toM n n U).det * (toM n n A).det = (toM n n W).det := by
    rw [← Matrix.det_mul, R.ua]
  rw [hW0] at hmul
  rcases mul_eq_zero.mp hmul with h | h
  · exact (R.det.ne_zero) h
  · exact hdet h

/-- the normal form of a square matrix of non-zero determinant has n rows and norm |det| -/
theorem hnfNew_square {n : Nat} {A H : Mat} (hr : Rect n n A) (hn : 0 < n)
    (hdet : (toM n n A).det ≠ 0) (h : NTV.Hnf.hnfNew A = some H) :
    H.length = n ∧ NTV.Ideal.norm H = |(toM n n A).det| := by
  unfold NTV.Hnf.hnfNew at h
  cases hres : hnfWithU A with
  | none => rw [hres] at h; cases h
  | some r =>
    obtain ⟨H', U, k⟩ := r
    rw [hres] at h
    simp only [Option.map_some, Option.some.injEq] at h
    subst h
    have hk := hnfWithU_k_zero hr hn hdet hres
    subst hk
    obtain ⟨W, pv, R⟩ := Result.of_spec A n n hr hn hn H' U 0 hres
    exact ⟨by rw [R.lenH]; omega, determinant_eq_index A n hr hn H' U hres⟩

end NTV.IdealP
