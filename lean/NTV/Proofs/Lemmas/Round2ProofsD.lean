import NTV.Proofs.Lemmas.Round2ProofsC
/-! Determinants of stored orders are positive; the last normal form of `one_step`. -/
open Matrix Finset
namespace NTV.Round2
open NTV.Ord NTV.PolyG
open NTV.RowOps (toM Rect ent)

/-- the normal form of a non-singular square matrix is square with positive determinant -/
theorem hnf_det_pos (A : IMat) (n : Nat) (hr : NTV.Hnf.Rect n n A) (hn : 0 < n)
    (hdet : (NTV.Hnf.toM n n A).det ≠ 0) (H : IMat) (h : NTV.Hnf.hnfNew A = some H) :
    NTV.Hnf.Rect n n H ∧ 0 < (NTV.Hnf.toM n n H).det := by
  unfold NTV.Hnf.hnfNew at h
  cases hw : NTV.Hnf.hnfWithU A with
  | none => rw [hw] at h; cases h
  | some res =>
    obtain ⟨H', U, k⟩ := res
    rw [hw] at h
    simp only [Option.map_some, Option.some.injEq] at h
    subst h
    obtain ⟨W, pv, R⟩ := NTV.Hnf.Result.of_spec A n n hr hn hn H' U k hw
    have hdetW : (NTV.Hnf.toM n n W).det ≠ 0 := by
      rw [← R.ua, Matrix.det_mul]
      exact mul_ne_zero (R.det.ne_zero) hdet
    have hk : k = 0 := by
      by_contra hk0
      have hkpos : 0 < k := Nat.pos_of_ne_zero hk0
      apply hdetW
      apply Matrix.det_eq_zero_of_row_eq_zero ⟨0, hn⟩
      intro j
      exact R.zero 0 hkpos j j.isLt
    subst hk
    have hHW : H' = W := by rw [R.hH]; simp
    have hrH : NTV.Hnf.Rect n n H' := by rw [hHW]; exact R.rW
    refine ⟨hrH, ?_⟩
    have hpvlen : pv.length = n := by rw [R.lenPv]; omega
    have hpv := NTV.Hnf.pairwise_lt_eq_id pv n hpvlen R.shape.incr R.shape.lt
    have hlow : ∀ i j : Fin n, i.val < j.val → NTV.Hnf.toM n n H' i j = 0 := by
      intro i j hij
      have hi : i.val < pv.length := by rw [hpvlen]; exact i.isLt
      have := R.shape.last i.val hi j.val (by rw [hpv i.val hi]; exact hij) j.isLt
      simpa [NTV.Hnf.toM] using this
    have hdiag : ∀ i : Fin n, 0 < NTV.Hnf.toM n n H' i i := by
      intro i
      have hi : i.val < pv.length := by rw [hpvlen]; exact i.isLt
      have := R.shape.pos i.val hi
      rw [hpv i.val hi] at this
      simpa [NTV.Hnf.toM] using this
    have hdetH : (NTV.Hnf.toM n n H').det = ∏ i : Fin n, NTV.Hnf.toM n n H' i i := by
      apply det_of_isLowerTriangular
      intro i j hij
      exact hlow i j hij
    rw [hdetH]
    exact Finset.prod_pos (fun i _ => hdiag i)

theorem det_map_cast {n : Nat} (M : Matrix (Fin n) (Fin n) ℤ) :
    (M.map (Int.castRingHom ℚ)).det = ((M.det : ℤ) : ℚ) := by
  have := ((Int.castRingHom ℚ).map_det M).symm
  simpa using this

/-- a non-singular stored order has a positive determinant -/
theorem stored_det_pos (o : QMat) (n : Nat) (hn : 0 < n) (ho : Rect n n o) (hdet : (toM n n o).det ≠ 0)
    (hst : fromBasis o = .ok o) : 0 < (toM n n o).det := by
  have hLpos : 0 < lcmDen o 1 := lcmDen_pos o 1 one_pos
  have hL0 : lcmDen o 1 ≠ 0 := by omega
  have hLq : (0 : ℚ) < ((lcmDen o 1 : Int) : Rat) := by exact_mod_cast hLpos
  have hsc : scaled o n = scaledBy (lcmDen o 1) o n := rfl
  have hdS := scaledBy_det_ne (lcmDen o 1) o n ho (lcmDen_spec o 1).2.1 hL0 hdet
  unfold fromBasis at hst
  rw [hnfReduce_unfold o n ho, hsc] at hst
  cases hH : NTV.Hnf.hnfNew (scaledBy (lcmDen o 1) o n) with
  | none => rw [hH] at hst; cases hst
  | some H =>
    rw [hH] at hst
    simp only at hst
    obtain ⟨rH, dH⟩ := hnf_det_pos _ n (scaledBy_rect _ o n) hn hdS H hH
    rw [unscale_ok n _ H rH] at hst
    have ho' : unscaled n (lcmDen o 1) H = o := by
      injection hst
    rw [← ho', unscaled_toM, Matrix.det_smul, det_map_cast]
    apply mul_pos (pow_pos (inv_pos.mpr hLq) _)
    exact_mod_cast dH

theorem scalarRows_toM (n : Nat) (p : Int) :
    NTV.Hnf.toM n n (scalarRows n p) = p • (1 : Matrix (Fin n) (Fin n) ℤ) := by
  ext i j
  simp only [NTV.Hnf.toM, NTV.Hnf.ent, scalarRows, Matrix.smul_apply, Matrix.one_apply, smul_eq_mul]
  simp [List.getD_eq_getElem?_getD, i.isLt, j.isLt, Fin.ext_iff]

/-- the last `HNF::new` of `one_step`: a square non-singular matrix whose lattice contains `p·ℤⁿ` -/
theorem lastHnf_spec (n r : Nat) (hn : 0 < n) (p : Int) (hp : p ≠ 0) (up u : IMat)
    (hup : NTV.Hnf.Rect r n up) (h : hnfM (up ++ scalarRows n p) = .ok u) :
    NTV.Hnf.Rect n n u ∧ (NTV.Hnf.toM n n u).det ≠ 0 ∧
      ∃ C : Matrix (Fin n) (Fin n) ℤ, p • (1 : Matrix (Fin n) (Fin n) ℤ) = C * NTV.Hnf.toM n n u := by
  have hstack := NTV.Hnf.rect_append up (scalarRows n p) r n n hup (scalarRows_rect n p)
  have hF : (p • (1 : Matrix (Fin n) (Fin n) ℤ)).det ≠ 0 := by
    rw [Matrix.det_smul, Matrix.det_one, mul_one]
    exact pow_ne_zero _ hp
  have hFX : ∀ i, NTV.Hnf.InLattice (r + n) n (up ++ scalarRows n p) ((p • (1 : Matrix (Fin n) (Fin n) ℤ)) i) := by
    intro i
    rw [NTV.Hnf.lattice_append up (scalarRows n p) r n n hup]
    refine ⟨0, Pi.single i 1, ?_⟩
    rw [Matrix.zero_vecMul, zero_add, Matrix.single_one_vecMul, scalarRows_toM]
    rfl
  obtain ⟨H, hH, rH, dH, lH⟩ := NTV.Hnf.hnfNew_full (up ++ scalarRows n p) (r + n) n hstack (by omega) hn _ hF hFX
  unfold hnfM at h
  rw [hH] at h
  simp only at h
  injection h with h
  subst h
  refine ⟨rH, dH, ?_⟩
  exact NTV.Hnf.InLattice.exists_mul (fun i => (lH _).mpr (hFX i))

end NTV.Round2
