import NTV.Proofs.Lemmas.LllCheckGso
/-! Soundness and completeness of the executable LLL-reducedness checker `NTV.Spec.Lll.isReduced`:
it returns `true` exactly when the rows are linearly independent over `ℚ`, size-reduced with bound `η`,
and satisfy the Lovász condition with parameter `δ`, all stated with the mathematical Gram–Schmidt data
`bstar`/`gsMu` of `LllCheckMath.lean` (whose characterising properties — recursion `bstar_eq`,
orthogonality `bstar_orth`, span equality `span_bstar`, independence criterion `bstar_ne_zero_iff` —
are proved there). -/
open Matrix
namespace NTV.LllCheck
open NTV.Spec.Lll NTV.Spec.Mat
variable {m n : Nat}

theorem rat_abs_eq (q : ℚ) : q.abs = |q| := by
  unfold Rat.abs
  split_ifs with h
  · exact (abs_of_nonneg h).symm
  · exact (abs_of_neg (lt_of_not_ge h)).symm

/-- the positivity clause of the checker -/
theorem allPos_iff (B : List (List Int)) (hr : NTV.RowOps.Rect n m B) :
    (gso B).2.all (fun x => decide (x > 0)) = true ↔
      ∀ i, i < n → 0 < bstar (rowQ m B) i ⬝ᵥ bstar (rowQ m B) i := by
  rw [gso_eq B hr]
  simp only [List.all_eq_true, List.mem_map, List.mem_range, decide_eq_true_eq, gt_iff_lt]
  constructor
  · intro h i hi; exact h _ ⟨i, hi, rfl⟩
  · rintro h x ⟨i, hi, rfl⟩; exact h i hi

/-- the size-reducedness clause of the checker -/
theorem sizeReduced_iff (B : List (List Int)) (hr : NTV.RowOps.Rect n m B) (η : ℚ) :
    sizeReduced (gso B) η = true ↔ ∀ i j, j < i → i < n → |gsMu (rowQ m B) i j| ≤ η := by
  rw [gso_eq B hr]
  unfold sizeReduced muL
  simp only [List.all_eq_true, List.mem_map, List.mem_range, decide_eq_true_eq, rat_abs_eq]
  constructor
  · intro h i j hj hi
    exact h _ ⟨i, hi, rfl⟩ _ (List.mem_map.2 ⟨j, List.mem_range.2 hj, rfl⟩)
  · rintro h row ⟨i, hi, rfl⟩ x hx
    obtain ⟨j, hj, rfl⟩ := List.mem_map.1 hx
    exact h i j (List.mem_range.1 hj) hi

/-- the Lovász clause of the checker -/
theorem lovasz_iff (B : List (List Int)) (hr : NTV.RowOps.Rect n m B) (δ : ℚ) :
    lovasz (gso B) δ = true ↔ ∀ i, 1 ≤ i → i < n →
      bstar (rowQ m B) i ⬝ᵥ bstar (rowQ m B) i ≥
        (δ - gsMu (rowQ m B) i (i - 1) ^ 2) * (bstar (rowQ m B) (i - 1) ⬝ᵥ bstar (rowQ m B) (i - 1)) := by
  obtain ⟨_, _, hlen, hmu, hbn⟩ := gso_spec B hr
  unfold lovasz
  simp only [List.all_eq_true, List.mem_range, decide_eq_true_eq, hlen]
  constructor
  · intro h i h1 hi
    have := h (i - 1) (by omega)
    have e : i - 1 + 1 = i := by omega
    rw [e, hmu i (i - 1) (by omega) hi, hbn i hi, hbn (i - 1) (by omega)] at this
    rw [pow_two]; exact this
  · intro h t ht
    have := h (t + 1) (by omega) (by omega)
    rw [Nat.add_sub_cancel, pow_two] at this
    rw [hmu (t + 1) t (by omega) (by omega), hbn (t + 1) (by omega), hbn t (by omega)]
    exact this

/-- **(c)** checker ↔ mathematical reducedness, with independence expressed as `‖b*_i‖² > 0`. -/
theorem isReduced_iff_pos (B : List (List Int)) (hr : NTV.RowOps.Rect n m B) (δ η : ℚ) :
    isReduced B δ η = true ↔
      (∀ i, i < n → 0 < bstar (rowQ m B) i ⬝ᵥ bstar (rowQ m B) i) ∧
      (∀ i j, j < i → i < n → |gsMu (rowQ m B) i j| ≤ η) ∧
      (∀ i, 1 ≤ i → i < n →
        bstar (rowQ m B) i ⬝ᵥ bstar (rowQ m B) i ≥
          (δ - gsMu (rowQ m B) i (i - 1) ^ 2) * (bstar (rowQ m B) (i - 1) ⬝ᵥ bstar (rowQ m B) (i - 1))) := by
  unfold isReduced
  simp only [Bool.and_eq_true, allPos_iff B hr, sizeReduced_iff B hr, lovasz_iff B hr, and_assoc]

/-- **(d) `isReduced_iff`, checker soundness and completeness**: for an `n × m` integer matrix `B`
(rows = basis vectors) and rational `δ`, `η`, the executable checker accepts iff the rows are linearly
independent over `ℚ`, `|μ_{i,j}| ≤ η` for all `j < i < n`, and
`‖b*_i‖² ≥ (δ − μ_{i,i−1}²) ‖b*_{i−1}‖²` for all `1 ≤ i < n`. -/
theorem isReduced_iff (B : List (List Int)) (hr : NTV.RowOps.Rect n m B) (δ η : ℚ) :
    isReduced B δ η = true ↔
      LinearIndependent ℚ (fun i : Fin n => rowQ m B i) ∧
      (∀ i j, j < i → i < n → |gsMu (rowQ m B) i j| ≤ η) ∧
      (∀ i, 1 ≤ i → i < n →
        bstar (rowQ m B) i ⬝ᵥ bstar (rowQ m B) i ≥
          (δ - gsMu (rowQ m B) i (i - 1) ^ 2) * (bstar (rowQ m B) (i - 1) ⬝ᵥ bstar (rowQ m B) (i - 1))) := by
  rw [isReduced_iff_pos B hr, bstar_pos_iff]

/-- the rows `rowQ m B i`, `i < n`, are the rows of the Mathlib matrix `(toM n m B).map (↑)` -/
theorem rowQ_eq_toM (B : List (List Int)) :
    (fun i : Fin n => rowQ m B i) = ((NTV.RowOps.toM n m B).map (Int.cast : ℤ → ℚ)).row := rfl

/-- `isReduced_iff` with linear independence stated for the rows of the Mathlib matrix of `B`. -/
theorem isReduced_iff_toM (B : List (List Int)) (hr : NTV.RowOps.Rect n m B) (δ η : ℚ) :
    isReduced B δ η = true ↔
      LinearIndependent ℚ ((NTV.RowOps.toM n m B).map (Int.cast : ℤ → ℚ)).row ∧
      (∀ i j, j < i → i < n → |gsMu (rowQ m B) i j| ≤ η) ∧
      (∀ i, 1 ≤ i → i < n →
        bstar (rowQ m B) i ⬝ᵥ bstar (rowQ m B) i ≥
          (δ - gsMu (rowQ m B) i (i - 1) ^ 2) * (bstar (rowQ m B) (i - 1) ⬝ᵥ bstar (rowQ m B) (i - 1))) := by
  rw [isReduced_iff B hr, rowQ_eq_toM]

/-! Concrete instances. -/

theorem rect_ex1 : NTV.RowOps.Rect 3 3 [[1, 1, 1], [-1, 0, 2], [3, 5, 6]] := by
  refine ⟨rfl, ?_⟩; intro r hr; simp at hr; rcases hr with rfl | rfl | rfl <;> rfl

/-- the classical LLL example basis `(1,1,1), (−1,0,2), (3,5,6)` is not reduced for `δ = 3/4, η = 1/2`
(`μ_{2,0} = 14/3`), its LLL reduction `(0,1,0), (1,0,1), (−1,0,2)` is. -/
example : isReduced [[1, 1, 1], [-1, 0, 2], [3, 5, 6]] (3/4) (1/2) = false := by decide +kernel
example : isReduced [[0, 1, 0], [1, 0, 1], [-1, 0, 2]] (3/4) (1/2) = true := by decide +kernel
/-- edge case `n = 0` -/
example : isReduced [] (3/4) (1/2) = true := by decide +kernel

/-- via the theorem: the rows of the reduced basis are linearly independent and satisfy both clauses -/
example : LinearIndependent ℚ (fun i : Fin 3 => rowQ 3 [[0, 1, 0], [1, 0, 1], [-1, 0, 2]] i) ∧
    (∀ i j, j < i → i < 3 → |gsMu (rowQ 3 [[0, 1, 0], [1, 0, 1], [-1, 0, 2]]) i j| ≤ 1/2) := by
  have hr : NTV.RowOps.Rect 3 3 [[0, 1, 0], [1, 0, 1], [-1, 0, 2]] := by
    refine ⟨rfl, ?_⟩; intro r hr; simp at hr; rcases hr with rfl | rfl | rfl <;> rfl
  have h := (isReduced_iff _ hr (3/4) (1/2)).1 (by decide +kernel)
  exact ⟨h.1, h.2.1⟩

/-- via the theorem: the unreduced basis fails one of the clauses -/
example : ¬ (LinearIndependent ℚ (fun i : Fin 3 => rowQ 3 [[1, 1, 1], [-1, 0, 2], [3, 5, 6]] i) ∧
    (∀ i j, j < i → i < 3 → |gsMu (rowQ 3 [[1, 1, 1], [-1, 0, 2], [3, 5, 6]]) i j| ≤ 1/2) ∧
    (∀ i, 1 ≤ i → i < 3 →
      bstar (rowQ 3 [[1, 1, 1], [-1, 0, 2], [3, 5, 6]]) i ⬝ᵥ bstar (rowQ 3 [[1, 1, 1], [-1, 0, 2], [3, 5, 6]]) i ≥
        (3/4 - gsMu (rowQ 3 [[1, 1, 1], [-1, 0, 2], [3, 5, 6]]) i (i - 1) ^ 2) *
          (bstar (rowQ 3 [[1, 1, 1], [-1, 0, 2], [3, 5, 6]]) (i - 1) ⬝ᵥ
            bstar (rowQ 3 [[1, 1, 1], [-1, 0, 2], [3, 5, 6]]) (i - 1)))) := by
  intro h
  have := (isReduced_iff _ rect_ex1 (3/4) (1/2)).2 h
  revert this
  decide +kernel

/-- via `gso_spec`: the mathematical Gram–Schmidt data of the example basis, read off the checker:
`‖b*_2‖² = 9/14`, `μ_{2,1} = 13/14`; and orthogonality / the independence criterion instantiated. -/
example : bstar (rowQ 3 [[1, 1, 1], [-1, 0, 2], [3, 5, 6]]) 2 ⬝ᵥ bstar (rowQ 3 [[1, 1, 1], [-1, 0, 2], [3, 5, 6]]) 2 = 9/14 ∧
    gsMu (rowQ 3 [[1, 1, 1], [-1, 0, 2], [3, 5, 6]]) 2 1 = 13/14 ∧
    bstar (rowQ 3 [[1, 1, 1], [-1, 0, 2], [3, 5, 6]]) 2 ⬝ᵥ bstar (rowQ 3 [[1, 1, 1], [-1, 0, 2], [3, 5, 6]]) 0 = 0 := by
  obtain ⟨_, _, _, hmu, hbn⟩ := gso_spec _ rect_ex1
  refine ⟨?_, ?_, bstar_orth _ 2 0 (by decide)⟩
  · rw [← hbn 2 (by decide)]; decide +kernel
  · rw [← hmu 2 1 (by decide) (by decide)]; decide +kernel

example : LinearIndependent ℚ (fun i : Fin 3 => rowQ 3 [[1, 1, 1], [-1, 0, 2], [3, 5, 6]] i) := by
  rw [← bstar_pos_iff, ← allPos_iff _ rect_ex1]
  decide +kernel

end NTV.LllCheck
