import NTV.Proofs.Lemmas.IdealNormC
import NTV.Proofs.Lemmas.IdealProofsD
import NTV.Proofs.Lemmas.TableProofs2
/-! # Ideal norm, part E: the table of an order of ℚ[x]/(f) (in the sense of C14: `IsTable f basis n t`, with
ω_0 = 1) is a `TableRing`, and its ring `RT T` is a domain when f is irreducible. -/
open Polynomial
namespace NTV.IdealP
open NTV.Hnf NTV.Ord
open NTV.TableAbs (psi castV mulVec Ctx)

section abstract
variable {K : Type*} [CommRing K] {n : ℕ} {q : ℚ →+* K} {Ω : Fin n → K} {t : Table}

theorem star_eq_mulVec (t : Table) (n : Nat) (x y : Fin n → ℤ) : star t n x y = mulVec (tabT t n) x y := rfl

/-- the element `Σ x_i Ω_i` of an integral coordinate vector -/
def phi (q : ℚ →+* K) (Ω : Fin n → K) (x : Fin n → ℤ) : K := psi q Ω (castV x)

theorem phi_inj (h : Ctx q Ω (tabT t n)) : Function.Injective (phi q Ω) := by
  intro x y hxy
  have := h.inj _ _ hxy
  funext i
  have := congrFun this i
  simpa [castV] using this

theorem phi_star (h : Ctx q Ω (tabT t n)) (x y : Fin n → ℤ) :
    phi q Ω (star t n x y) = phi q Ω x * phi q Ω y := by
  rw [star_eq_mulVec]; exact (h.mul_agrees x y).symm

theorem phi_e (i : Fin n) : phi q Ω (e n i) = Ω i := by
  classical
  have : castV (e n i) = Pi.single i 1 := by
    funext j; simp [castV, e, Pi.single_apply]
  unfold phi
  rw [this, NTV.TableAbs.psi_single]

theorem phi_zero : phi q Ω (0 : Fin n → ℤ) = 0 := by
  have : castV (0 : Fin n → ℤ) = 0 := by funext j; simp [castV]
  unfold phi; rw [this, NTV.TableAbs.psi_zero]

/-- a table with `Ω_i Ω_j = Σ_k t[i][j][k] Ω_k` for a ℚ-independent family Ω with `Ω_0 = 1` in a commutative
ring is a `TableRing` -/
theorem tableRing_of_ctx (h : Ctx q Ω (tabT t n)) (hn : 0 < n) (hΩ : Ω ⟨0, hn⟩ = 1) (len : t.length = n)
    (shape : ∀ r ∈ t, r.length = n ∧ ∀ s ∈ r, s.length = n) : TableRing t n := by
  apply tableRing_of_star hn len shape
  · intro x y
    apply phi_inj h
    rw [phi_star h, phi_star h, mul_comm]
  · intro x y z
    apply phi_inj h
    rw [phi_star h, phi_star h, phi_star h, phi_star h, mul_assoc]
  · intro x
    apply phi_inj h
    rw [phi_star h, phi_e, hΩ, one_mul]

/-- … and its ring is a domain when the ambient ring has no zero divisors -/
theorem isDomain_of_ctx [NoZeroDivisors K] (h : Ctx q Ω (tabT t n)) (T : TableRing t n) : IsDomain (RT T) := by
  have : NoZeroDivisors (RT T) := by
    constructor
    intro a b hab
    have h1 : phi q Ω (star t n (RT.toVec T a) (RT.toVec T b)) = 0 := by
      rw [← RT.toVec_mul, hab, map_zero, phi_zero]
    rw [phi_star h] at h1
    rcases mul_eq_zero.mp h1 with h2 | h2
    · left
      apply (RT.toVec T).injective
      rw [map_zero]
      exact phi_inj h (h2.trans phi_zero.symm)
    · right
      apply (RT.toVec T).injective
      rw [map_zero]
      exact phi_inj h (h2.trans phi_zero.symm)
  exact NoZeroDivisors.to_isDomain _

end abstract

/-! ### for the model -/

theorem shape_of_isTable {f : List Int} {basis : QMat} {n : Nat} {t : Table} (ht : IsTable f basis n t) :
    ∀ r ∈ t, r.length = n ∧ ∀ s ∈ r, s.length = n := by
  intro r hr
  obtain ⟨i, hi, rfl⟩ := List.mem_iff_getElem.mp hr
  have hin : i < n := by rw [← ht.1]; exact hi
  obtain ⟨h1, h2⟩ := ht.2.1 i hin
  simp only [List.getD_eq_getElem?_getD, List.getElem?_eq_getElem hi, Option.getD_some] at h1 h2
  refine ⟨h1, ?_⟩
  intro s hs
  obtain ⟨j, hj, rfl⟩ := List.mem_iff_getElem.mp hs
  have := h2 j (by rw [← h1]; exact hj)
  simpa [List.getElem?_eq_getElem hj] using this

/-- the table of an order with ω_0 = 1 (C14: `IsTable`, e.g. the value of `get_mult_table`) is a `TableRing` -/
theorem tableRing_of_isTable {f : List Int} {basis : QMat} {n : Nat} (S : Setup f basis n) {t : Table}
    (ht : IsTable f basis n t) (h0 : basis.getD 0 [] = 1 :: List.replicate (n - 1) 0) : TableRing t n := by
  have hn : 0 < n := S.pos
  apply tableRing_of_ctx (S.ctx t ht) hn ?_ ht.1 (shape_of_isTable ht)
  unfold omegaK
  show NTV.Alg.cls f (NTV.PolyG.toPoly (basis.getD 0 [])) = 1
  rw [h0, toPoly_unit_row]; simp

/-- … whose ring is a domain when f is irreducible over ℚ -/
theorem isDomain_of_isTable {f : List Int} {basis : QMat} {n : Nat} (S : Setup f basis n) {t : Table}
    (ht : IsTable f basis n t) (hirr : Irreducible (NTV.Alg.modulus f)) (T : TableRing t n) :
    IsDomain (RT T) := by
  have := noZeroDivisors_of_irreducible hirr
  exact isDomain_of_ctx (S.ctx t ht) T

end NTV.IdealP
