import NTV.Proofs.Lemmas.PolyZProofs1
/-! Structure of `NTV.PolyZ.factorize`, part 2: the top-level routine. -/
open Polynomial
namespace NTV.PolyZ
open NTV.PolyG NTV.PolyMod NTV.Res

/-- inversion of a successful run on a non-constant input -/
theorem factorize_inv (a : List Int) (s : NTV.Draw.Stream) (c : Int) (fs : List (List Int × Nat))
    (h : factorize a s = .ok (c, fs)) (hlen : 2 ≤ a.length) :
    c = (contPP a).1 ∧ ∃ (g sq : List Int) (factors : List Poly),
      resultantGcd (contPP a).2 (differential (contPP a).2) = .ok g ∧
      (if degU g ≠ 0 then divExactExpect (contPP a).2 g else pure (contPP a).2) = .ok sq ∧
      getFactorsOfSquarefree sq s = .ok factors ∧
      multiplicities factors (contPP a).2 [] = .ok fs := by
  unfold factorize at h
  have he : a.isEmpty = false := by cases a <;> simp_all
  have hd : degU a ≠ 0 := by simp only [degU, he]; simp; omega
  simp only [he, Bool.false_eq_true, ↓reduceIte, hd, bind, Except.bind] at h
  split at h
  · cases h
  · rename_i g hg
    by_cases hdg : degU g ≠ 0
    · rw [if_pos hdg] at h
      split at h
      · cases h
      · rename_i sq hsq
        split at h
        · cases h
        · rename_i factors hfac
          split at h
          · cases h
          · rename_i res hres
            simp only [pure, Except.pure, Except.ok.injEq, Prod.mk.injEq] at h
            obtain ⟨rfl, rfl⟩ := h
            exact ⟨rfl, g, sq, factors, hg, by rw [if_pos hdg]; exact hsq, hfac, hres⟩
    · rw [if_neg hdg] at h
      simp only [pure, Except.pure] at h
      split at h
      · cases h
      · rename_i factors hfac
        split at h
        · cases h
        · rename_i res hres
          simp only [Except.ok.injEq, Prod.mk.injEq] at h
          obtain ⟨rfl, rfl⟩ := h
          exact ⟨rfl, g, _, factors, hg, by rw [if_neg hdg]; rfl, hfac, hres⟩

/-- what a successful run of `factorize` on a non-constant input establishes, whatever the gcd routine
and the modular stage returned: `g` is the value used as gcd(pp a, (pp a)'), `sq` the "squarefree part"
handed to the recombination, `r` the cofactor left by the multiplicity loop -/
structure Run (a : List Int) (c : Int) (fs : List (List Int × Nat)) (g sq r : List Int) : Prop where
  hc : c = (contPP a).1
  hgcd : resultantGcd (contPP a).2 (differential (contPP a).2) = .ok g
  hsq : (degU g ≠ 0 ∧ toPoly (contPP a).2 = toPoly sq * toPoly g) ∨ (degU g = 0 ∧ sq = (contPP a).2)
  sq_ne : sq ≠ []
  sq_canon : Canon sq
  hprod_sq : toPoly sq = ((fs.map Prod.fst).map toPoly).prod
  hfac : ∀ fe ∈ fs, fe.1 ≠ [] ∧ Canon fe.1 ∧ (0 < lc sq → 0 < lc fe.1)
  r_ne : r ≠ []
  r_canon : Canon r
  hprod : toPoly (contPP a).2 = toPoly r * (fs.map pw).prod
  hmax : ∀ l1 f e l2, fs = l1 ++ (f, e) :: l2 → ¬ toPoly f ∣ toPoly r * (l2.map pw).prod

theorem factorize_run (a : List Int) (s : NTV.Draw.Stream) (c : Int) (fs : List (List Int × Nat))
    (hca : Canon a) (hlen : 2 ≤ a.length) (h : factorize a s = .ok (c, fs)) :
    ∃ g sq r, Run a c fs g sq r := by
  have ha : a ≠ [] := by rintro rfl; simp at hlen
  obtain ⟨hc, g, sq, factors, hg, hsq, hfac, hmul⟩ := factorize_inv a s c fs h hlen
  obtain ⟨_, _, _, hcpp⟩ := contPP_spec a ha hca
  have hppne := pp_ne_nil a ha hca
  have hsq' : ((degU g ≠ 0 ∧ toPoly (contPP a).2 = toPoly sq * toPoly g) ∨ (degU g = 0 ∧ sq = (contPP a).2)) ∧
      sq ≠ [] ∧ Canon sq := by
    by_cases hdg : degU g ≠ 0
    · rw [if_pos hdg] at hsq
      simp only [divExactExpect] at hsq
      split at hsq
      · rename_i q hq
        simp only [pure, Except.pure, Except.ok.injEq] at hsq; subst hsq
        obtain ⟨_, h2, h3⟩ := divExact_sound _ _ _ hq
        exact ⟨Or.inl ⟨hdg, h2⟩, quot_ne_nil hppne hcpp h2, h3⟩
      · simp [throw, throwThe, MonadExceptOf.throw] at hsq
    · rw [if_neg hdg] at hsq
      simp only [pure, Except.pure, Except.ok.injEq] at hsq; subst hsq
      exact ⟨Or.inr ⟨not_not.mp hdg, rfl⟩, hppne, hcpp⟩
  obtain ⟨hsq1, hsqne, hsqc⟩ := hsq'
  obtain ⟨_, hp1, hp2⟩ := getFactorsOfSquarefree_spec sq s factors hsqc hfac
  obtain ⟨new, r, hout, hmap, hr, hcr, hprod, hmax⟩ := multiplicities_spec factors _ [] fs hppne hcpp hmul
  simp only [List.nil_append] at hout
  subst hout
  have hfac' : ∀ fe ∈ fs, fe.1 ≠ [] ∧ Canon fe.1 ∧ (0 < lc sq → 0 < lc fe.1) := by
    intro fe hfe
    apply hp2
    rw [← hmap]; exact List.mem_map_of_mem hfe
  refine ⟨g, sq, r, hc, hg, hsq1, hsqne, hsqc, by rw [hmap]; exact hp1, hfac', hr, hcr, hprod, ?_⟩
  intro l1 f e l2 hsplit
  have hmem : (f, e) ∈ fs := by rw [hsplit]; simp
  obtain ⟨t1, t2, _⟩ := hfac' _ hmem
  exact hmax l1 f e l2 hsplit t1 t2

end NTV.PolyZ
