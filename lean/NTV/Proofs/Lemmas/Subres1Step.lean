import NTV.Proofs.Lemmas.Subres0Sres
/-! # One pseudo-division step on subresultants (the structure theorem, in the form needed for the
subresultant PRS): `prem(F,G)` *is* a subresultant, and the subresultants of `(G, prem(F,G)/w)` are
explicit constant multiples of those of `(F, G)`. -/
open Polynomial
namespace NTV.Subres
variable {R : Type*} [CommRing R] [IsDomain R]

/-- the pseudo-remainder is the subresultant `S_(m-1)(F, G)` (formal degrees `m + δ`, `m`) -/
theorem prem_eq_sres (m1 δ : ℕ) (F G Q P : R[X]) (hG : G.natDegree ≤ m1 + 1) (hc : G.coeff (m1 + 1) ≠ 0)
    (hprem : C (G.coeff (m1 + 1) ^ (δ + 1)) * F = Q * G + P) (hQ : Q.natDegree ≤ δ) (hP : P.natDegree ≤ m1) :
    sres m1 1 (δ + 1) F G = P := by
  have h1 : C (G.coeff (m1 + 1) ^ (δ + 1)) * sres m1 1 (δ + 1) F G = sres m1 1 (δ + 1) (P + Q * G) G := by
    have := sres_C_mul_left m1 1 (δ + 1) F G (G.coeff (m1 + 1) ^ (δ + 1))
    rw [pow_one] at this
    rw [← this, hprem, add_comm P]
  rw [sres_add_mul m1 1 (δ + 1) P G Q (by omega)] at h1
  have h2 := sres_add_deg m1 1 0 (δ + 1) P G (Or.inr (by omega)) (by omega) (by omega)
  rw [zero_add, sres_one_zero, add_comm 1 m1] at h2
  rw [h2] at h1
  exact mul_left_cancel₀ (C_ne_zero.mpr (pow_ne_zero _ hc)) h1

omit [IsDomain R] in
/-- transfer of the `j`-th subresultant through a pseudo-division step: here `m = j + k + 1`,
`n = m + δ`, `r = j + e` and `t = n − r` -/
theorem sres_transfer (j k δ e t : ℕ) (F G Q P G' : R[X]) (w : R) (ht : t + e = k + 1 + δ)
    (hG : G.natDegree ≤ j + k + 1)
    (hprem : C (G.coeff (j + k + 1) ^ (δ + 1)) * F = Q * G + P) (hQ : Q.natDegree ≤ δ)
    (hP : P.natDegree ≤ j + e) (hG' : C w * G' = P) :
    Associated (C (G.coeff (j + k + 1) ^ t * w ^ (k + 1)) * sres j e (k + 1) G G')
      (C ((G.coeff (j + k + 1) ^ (δ + 1)) ^ (k + 1)) * sres j (k + 1) (k + 1 + δ) F G) := by
  set c := G.coeff (j + k + 1) with hcdef
  have e1 : C (w ^ (k + 1)) * sres j e (k + 1) G G' = sres j e (k + 1) G P := by
    rw [← sres_C_mul_right, hG']
  have e2 : Associated (sres j e (k + 1) G P) (sres j (k + 1) e P G) := sres_swap j (k + 1) e P G
  have e3 : sres j (k + 1) (e + t) P G = C (c ^ t) * sres j (k + 1) e P G := by
    have := sres_add_deg j (k + 1) e t P G (Or.inr (by omega)) (by omega) (by omega)
    have h' : k + 1 + j = j + k + 1 := by omega
    rw [this, hcdef, h']
  have e4 : sres j (k + 1) (k + 1 + δ) P G = C ((c ^ (δ + 1)) ^ (k + 1)) * sres j (k + 1) (k + 1 + δ) F G := by
    rw [← sres_C_mul_left, hprem]
    have hP' : P = (Q * G + P) + (-Q) * G := by ring
    conv_lhs => rw [hP']
    exact sres_add_mul j (k + 1) (k + 1 + δ) (Q * G + P) G (-Q) (by rw [natDegree_neg]; omega)
  have e5 : e + t = k + 1 + δ := by omega
  rw [← e4, ← e5, e3, C_mul, mul_assoc, e1]
  exact Associated.mul_left _ e2

/-- The invariant of the subresultant PRS at a state `(F, G, a, b)` with formal degrees `n`, `m`:
every subresultant `S_j(F, G)` (`j ≤ m`, `j < n`) is divisible by `a^(m-j) b^(n-j-1)`. (The quotient is,
up to sign, the subresultant `S_j` of the initial pair.) -/
def AInv (F G : R[X]) (n m : ℕ) (a b : R) : Prop :=
  ∀ j, j ≤ m → j < n → C (a ^ (m - j) * b ^ (n - j - 1)) ∣ sres j (m - j) (n - j) F G

omit [IsDomain R] in
theorem AInv_one (F G : R[X]) (n m : ℕ) : AInv F G n m 1 1 := by
  intro j _ _; simp

/-- the division of the pseudo-remainder by `a b^δ` is exact -/
theorem AInv_prem_dvd (m1 δ : ℕ) (F G Q P : R[X]) (a b : R) (hG : G.natDegree ≤ m1 + 1)
    (hc : G.coeff (m1 + 1) ≠ 0)
    (hprem : C (G.coeff (m1 + 1) ^ (δ + 1)) * F = Q * G + P) (hQ : Q.natDegree ≤ δ) (hP : P.natDegree ≤ m1)
    (hI : AInv F G (m1 + 1 + δ) (m1 + 1) a b) : C (a * b ^ δ) ∣ P := by
  have h := hI m1 (by omega) (by omega)
  have e1 : m1 + 1 - m1 = 1 := by omega
  have e2 : m1 + 1 + δ - m1 = δ + 1 := by omega
  have e3 : δ + 1 - 1 = δ := by omega
  rw [e1, e2, e3, pow_one, prem_eq_sres m1 δ F G Q P hG hc hprem hQ hP] at h
  exact h

omit [IsDomain R] in
/-- the update `b ← c^δ b / b^δ` is exact (`δ = d + 1 ≥ 1`) -/
theorem AInv_b_dvd (m d : ℕ) (F G : R[X]) (a b : R) (hG : G.natDegree ≤ m)
    (hI : AInv F G (m + d + 1) m a b) : b ^ d ∣ G.coeff m ^ (d + 1) := by
  have h := hI m le_rfl (by omega)
  have e1 : m - m = 0 := by omega
  have e2 : m + d + 1 - m = d + 1 := by omega
  have e3 : d + 1 - 1 = d := by omega
  rw [e1, e2, e3, pow_zero, one_mul, sres_zero_left m d F G hG] at h
  have := (C_dvd_iff_dvd_coeff _ _).mp h m
  rw [coeff_C_mul] at this
  rwa [pow_succ]

omit [IsDomain R] in
theorem pow_identity (a b b' c : R) (k δ e t : ℕ) (ht : t + e = k + 1 + δ) (hb' : b' * b ^ δ = c ^ δ * b) :
    (c ^ (δ + 1)) ^ (k + 1) * (a ^ (k + 1) * b ^ (δ + k)) = (c ^ t * (a * b ^ δ) ^ (k + 1)) * (c ^ e * b' ^ k) := by
  have h1 : c ^ t * c ^ e = c ^ (k + 1 + δ) := by rw [← pow_add, ht]
  have h2 : (b' * b ^ δ) ^ k = (c ^ δ * b) ^ k := by rw [hb']
  calc (c ^ (δ + 1)) ^ (k + 1) * (a ^ (k + 1) * b ^ (δ + k))
      = c ^ (k + 1 + δ) * a ^ (k + 1) * b ^ δ * (c ^ δ * b) ^ k := by ring
    _ = (c ^ t * c ^ e) * a ^ (k + 1) * b ^ δ * (b' * b ^ δ) ^ k := by rw [h1, h2]
    _ = _ := by ring

/-- preservation of the invariant by one round of the subresultant PRS -/
theorem AInv_step (m δ r : ℕ) (F G Q P G' : R[X]) (a b b' : R) (hr : r < m) (hG : G.natDegree ≤ m)
    (hc : G.coeff m ≠ 0) (ha : a ≠ 0) (hb : b ≠ 0)
    (hprem : C (G.coeff m ^ (δ + 1)) * F = Q * G + P) (hQ : Q.natDegree ≤ δ) (hP : P.natDegree ≤ r)
    (hG' : C (a * b ^ δ) * G' = P) (hb' : b' * b ^ δ = G.coeff m ^ δ * b)
    (hI : AInv F G (m + δ) m a b) : AInv G G' m r (G.coeff m) b' := by
  intro j hj _
  obtain ⟨k, rfl⟩ : ∃ k, m = j + k + 1 := ⟨m - j - 1, by omega⟩
  obtain ⟨e, rfl⟩ : ∃ e, r = j + e := ⟨r - j, by omega⟩
  obtain ⟨T, hT⟩ := hI j (by omega) (by omega)
  have e1 : j + k + 1 - j = k + 1 := by omega
  have e2 : j + k + 1 + δ - j = k + 1 + δ := by omega
  have e3 : k + 1 + δ - 1 = δ + k := by omega
  have e4 : j + e - j = e := by omega
  have e5 : k + 1 - 1 = k := by omega
  rw [e1, e2, e3] at hT
  rw [e4, e1, e5]
  set c := G.coeff (j + k + 1) with hcdef
  have htr := sres_transfer j k δ e (k + 1 + δ - e) F G Q P G' (a * b ^ δ) (by omega) hG hprem hQ hP hG'
  rw [← hcdef] at htr
  have hid : C ((c ^ (δ + 1)) ^ (k + 1)) * (C (a ^ (k + 1) * b ^ (δ + k)) * T)
      = C (c ^ (k + 1 + δ - e) * (a * b ^ δ) ^ (k + 1)) * (C (c ^ e * b' ^ k) * T) := by
    rw [← mul_assoc, ← C_mul, pow_identity a b b' c k δ e (k + 1 + δ - e) (by omega) hb', C_mul, mul_assoc]
  rw [hT, hid] at htr
  have hne : C (c ^ (k + 1 + δ - e) * (a * b ^ δ) ^ (k + 1)) ≠ 0 :=
    C_ne_zero.mpr (mul_ne_zero (pow_ne_zero _ hc) (pow_ne_zero _ (mul_ne_zero ha (pow_ne_zero _ hb))))
  have has := Associated.of_mul_left htr (Associated.refl _) hne
  exact (Dvd.intro _ rfl).trans has.symm.dvd

end NTV.Subres
