import NTV.Spec.Mat
import NTV.Proofs.Lemmas.RowOpsProofs
import NTV.Proofs.Lemmas.DetLemmas
import Mathlib.Tactic
/-! Soundness of the specification-side matrix helpers of `NTV.Spec.Mat` (used by the checkers):
`qdet`, `det`, `mul`, `transpose`, `dot` compute the Mathlib notions. -/
open Matrix
namespace NTV.MatCheck
open NTV.RowOps (toM Rect ent swapRows ent_swapRows)
open NTV.Spec.Mat (QMat IMat elimCol rankDet qdet qent toQ)

/-! ### entry-level lemmas -/

theorem qent_eq (a : QMat) (i j : Nat) : qent a i j = ent a i j := rfl

theorem ent_eq_getElem {R : Type} [Zero R] (a : List (List R)) (i j : Nat) (hi : i < a.length)
    (hj : j < a[i].length) : ent a i j = a[i][j] := by
  unfold ent
  simp [List.getD_eq_getElem?_getD, List.getElem?_eq_getElem hi, List.getElem?_eq_getElem hj]

theorem ent_of_length_le {R : Type} [Zero R] (a : List (List R)) (i j : Nat) (hi : a.length ≤ i) :
    ent a i j = 0 := by
  unfold ent
  have : a[i]? = none := by simp; omega
  simp [List.getD_eq_getElem?_getD, this]

/-- the row-elimination part of `elimCol` -/
def elimRows (a1 : QMat) (r c : Nat) (rowP : List ℚ) : QMat :=
  a1.mapIdx (fun i row =>
    if i ≤ r then row else
      let f := row.getD c 0 / rowP.getD c 0
      List.zipWith (fun x y => x - f * y) row rowP)

theorem getD_zipWith_sub (row rowP : List ℚ) (f : ℚ) (j : Nat) (h : row.length = rowP.length) :
    (List.zipWith (fun x y => x - f * y) row rowP).getD j 0 = row.getD j 0 - f * rowP.getD j 0 := by
  simp only [List.getD_eq_getElem?_getD, List.getElem?_zipWith]
  by_cases hc : j < row.length
  · have hc' : j < rowP.length := by omega
    simp [List.getElem?_eq_getElem hc, List.getElem?_eq_getElem hc']
  · have h1 : row[j]? = none := by simp; omega
    have h2 : rowP[j]? = none := by simp; omega
    simp [h1, h2]

theorem ent_elimRows {n m : Nat} (a1 : QMat) (r c : Nat) (rowP : List ℚ) (hr : Rect n m a1)
    (hp : rowP.length = m) (i j : Nat) (hi : i < n) :
    ent (elimRows a1 r c rowP) i j =
      if i ≤ r then ent a1 i j else ent a1 i j - (ent a1 i c / rowP.getD c 0) * rowP.getD j 0 := by
  have hi' : i < a1.length := by rw [hr.1]; exact hi
  have hlen : (a1[i]).length = m := hr.2 _ (List.getElem_mem hi')
  have e1 : ∀ k, ent a1 i k = (a1[i]).getD k 0 := by
    intro k; unfold ent
    simp [List.getD_eq_getElem?_getD, List.getElem?_eq_getElem hi']
  unfold elimRows
  have : ent (List.mapIdx (fun i row =>
      if i ≤ r then row else
        let f := row.getD c 0 / rowP.getD c 0
        List.zipWith (fun x y => x - f * y) row rowP) a1) i j =
      ((fun i row => if i ≤ r then row else
        let f := row.getD c 0 / rowP.getD c 0
        List.zipWith (fun x y => x - f * y) row rowP) i a1[i]).getD j 0 := by
    unfold ent
    simp only [List.getD_eq_getElem?_getD, List.getElem?_mapIdx, List.getElem?_eq_getElem hi',
      Option.map_some, Option.getD_some]
  rw [this]
  by_cases h : i ≤ r
  · simp only [h, ↓reduceIte]; rw [e1]
  · simp only [h, ↓reduceIte]
    rw [getD_zipWith_sub _ _ _ _ (by rw [hlen, hp]), e1, e1]

theorem rect_elimRows {n m : Nat} (a1 : QMat) (r c : Nat) (rowP : List ℚ) (hr : Rect n m a1)
    (hp : rowP.length = m) : Rect n m (elimRows a1 r c rowP) := by
  refine ⟨by simp [elimRows, hr.1], ?_⟩
  intro row hrow
  unfold elimRows at hrow
  obtain ⟨i, hi, rfl⟩ := List.mem_iff_getElem.mp hrow
  have hi' : i < a1.length := by simpa using hi
  have hlen : (a1[i]).length = m := hr.2 _ (List.getElem_mem hi')
  rw [List.getElem_mapIdx]
  split
  · exact hlen
  · simp [hlen, hp]

theorem rect_swapRows {n m : Nat} {a : QMat} (hr : Rect n m a) (i j : Nat) (hi : i < n) (hj : j < n) :
    Rect n m (swapRows a i j) := by
  unfold NTV.RowOps.swapRows
  refine ⟨by simp [hr.1], ?_⟩
  intro r hrm
  rcases List.mem_or_eq_of_mem_set hrm with h | h
  · rcases List.mem_or_eq_of_mem_set h with h | h
    · exact hr.2 _ h
    · rw [h]; exact hr.row_length j hj
  · rw [h]; exact hr.row_length i hi

/-! ### `elimCol` case analysis -/

theorem elimCol_none (a : QMat) (r c : Nat)
    (h : (List.range (a.length - r)).find? (fun t => qent a (r + t) c != 0) = none) :
    elimCol a r c = (a, false, 1) ∧ ∀ i, r ≤ i → i < a.length → ent a i c = 0 := by
  constructor
  · simp only [elimCol, h]
  · intro i hri hi
    rw [List.find?_eq_none] at h
    have := h (i - r) (by simp; omega)
    have e : r + (i - r) = i := by omega
    rw [e] at this
    simpa [qent_eq] using this

theorem elimCol_some (a : QMat) (r c t : Nat)
    (h : (List.range (a.length - r)).find? (fun t => qent a (r + t) c != 0) = some t) :
    elimCol a r c = (elimRows (swapRows a (r + t) r) r c (a.getD (r + t) []), true,
        if r + t = r then ent a (r + t) c else - ent a (r + t) c) ∧
      r + t < a.length ∧ ent a (r + t) c ≠ 0 := by
  refine ⟨?_, ?_, ?_⟩
  · simp only [elimCol, h]; rfl
  · have := List.mem_of_find?_eq_some h
    simp at this; omega
  · have := List.find?_some h
    simpa [qent_eq] using this

/-! ### the elimination invariant -/

/-- the fold step of `rankDet` -/
def rdStep (st : QMat × Nat × ℚ) (c : Nat) : QMat × Nat × ℚ :=
  let (a, r, d) := st
  let (a', found, piv) := elimCol a r c
  if found then (a', r + 1, d * piv) else (a, r, d)

theorem rankDet_eq (a : QMat) (k : Nat) :
    rankDet a k = (((List.range k).foldl rdStep (a, 0, 1)).2.1, ((List.range k).foldl rdStep (a, 0, 1)).2.2) := rfl

variable {n : Nat} {A0 : Matrix (Fin n) (Fin n) ℚ}

/-- invariant of the column loop of `rankDet` on a square matrix, before processing column `c` -/
structure Inv (n : Nat) (A0 : Matrix (Fin n) (Fin n) ℚ) (c : Nat) (st : QMat × Nat × ℚ) : Prop where
  ra : Rect n n st.1
  rc : st.2.1 ≤ c
  zero : ∀ i j, st.2.1 ≤ i → i < n → j < c → ent st.1 i j = 0
  tri : ∀ i j, i < st.2.1 → j < i → ent st.1 i j = 0
  sgn : ∃ s : ℚ, A0.det = s * (toM n n st.1).det ∧
    (st.2.1 = c → st.2.2 = s * ∏ k ∈ Finset.range c, ent st.1 k k)

theorem det_swap_or_same (a : QMat) (hr : Rect n n a) (p r : Nat) (hp : p < n) (hr' : r < n) :
    (toM n n (swapRows a p r)).det = (if p = r then 1 else -1) * (toM n n a).det := by
  by_cases h : p = r
  · subst h
    have : toM n n (swapRows a p p) = toM n n a := by
      ext i j
      show ent (swapRows a p p) i j = ent a i j
      rw [ent_swapRows a p p i j (by rw [hr.1]; exact hp) (by rw [hr.1]; exact hp)]
      by_cases e : (i : Nat) = p
      · simp [e]
      · simp [e]
    rw [this]; simp
  · have := NTV.RowOps.det_swapRows n a hr ⟨p, hp⟩ ⟨r, hr'⟩ (fun e => h (by simpa using congrArg Fin.val e))
    simp only at this
    rw [this]; simp [h]

theorem det_elimRows (a1 : QMat) (r c : Nat) (rowP : List ℚ) (hr : Rect n n a1) (hp : rowP.length = n)
    (hrn : r < n) (hrow : ∀ j, rowP.getD j 0 = ent a1 r j) :
    (toM n n (elimRows a1 r c rowP)).det = (toM n n a1).det := by
  apply det_eq_of_forall_row_eq_smul_add_const
    (fun i : Fin n => if (i : Nat) ≤ r then 0 else -(ent a1 i c / rowP.getD c 0)) ⟨r, hrn⟩
  · simp
  · intro i j
    show ent (elimRows a1 r c rowP) i j = ent a1 i j + _ * ent a1 r j
    rw [ent_elimRows a1 r c rowP hr hp i j i.2]
    by_cases h : (i : Nat) ≤ r
    · simp [h]
    · simp only [h, ↓reduceIte, hrow]; ring

theorem Inv.step (st : QMat × Nat × ℚ) (c : Nat) (hc : c < n) (h : Inv n A0 c st) :
    Inv n A0 (c + 1) (rdStep st c) := by
  obtain ⟨a, r, d⟩ := st
  obtain ⟨ra, rc, zero, tri, s, hs1, hs2⟩ := h
  simp only at ra rc zero tri hs1 hs2
  have hlen : a.length = n := ra.1
  cases hf : (List.range (a.length - r)).find? (fun t => qent a (r + t) c != 0) with
  | none =>
    obtain ⟨e1, e2⟩ := elimCol_none a r c hf
    have hst : rdStep (a, r, d) c = (a, r, d) := by simp only [rdStep, e1]; rfl
    rw [hst]
    refine ⟨ra, by simp only; omega, ?_, tri, s, hs1, ?_⟩
    · intro i j hri hi hj
      simp only at hri ⊢
      rcases Nat.lt_succ_iff_lt_or_eq.mp hj with hj | hj
      · exact zero i j hri hi hj
      · subst hj; exact e2 i hri (by omega)
    · intro e; simp only at e; omega
  | some t =>
    obtain ⟨e1, e2, e3⟩ := elimCol_some a r c t hf
    set p := r + t with hp
    have hpn : p < n := by omega
    have hrn : r < n := by omega
    have hst : rdStep (a, r, d) c = (elimRows (swapRows a p r) r c (a.getD p []), r + 1,
        d * (if p = r then ent a p c else - ent a p c)) := by simp only [rdStep, e1]; rfl
    rw [hst]
    set a1 := swapRows a p r with ha1
    have ra1 : Rect n n a1 := rect_swapRows ra p r hpn hrn
    have hrowlen : (a.getD p []).length = n := ra.row_length p hpn
    have hent1 : ∀ x y, ent a1 x y = if x = r then ent a p y else if x = p then ent a r y else ent a x y :=
      fun x y => ent_swapRows a p r x y (by omega) (by omega)
    have hrowP : ∀ j, (a.getD p []).getD j 0 = ent a p j := fun j => rfl
    have hrow : ∀ j, (a.getD p []).getD j 0 = ent a1 r j := by
      intro j; rw [hent1]; simp; rfl
    set a' := elimRows a1 r c (a.getD p []) with ha'
    have ra' : Rect n n a' := rect_elimRows a1 r c _ ra1 hrowlen
    have hent' : ∀ i j, i < n → ent a' i j =
        if i ≤ r then ent a1 i j else ent a1 i j - (ent a1 i c / ent a p c) * ent a p j := by
      intro i j hi
      rw [ha', ent_elimRows a1 r c _ ra1 hrowlen i j hi, hrowP, hrowP]
    have hdet' : (toM n n a').det = (if p = r then 1 else -1) * (toM n n a).det := by
      rw [ha', det_elimRows a1 r c _ ra1 hrowlen hrn hrow, ha1, det_swap_or_same a ra p r hpn hrn]
    -- rows of a1 at index ≥ r are zero in columns < c
    have hz1 : ∀ i j, r ≤ i → i < n → j < c → ent a1 i j = 0 := by
      intro i j hri hi hj
      rw [hent1]
      split
      · exact zero p j (by omega) hpn hj
      · split
        · exact zero r j (le_refl _) hrn hj
        · exact zero i j hri hi hj
    refine ⟨ra', by simp only; omega, ?_, ?_, (if p = r then 1 else -1) * s, ?_, ?_⟩
    · intro i j hri hi hj
      simp only at hri ⊢
      have hir : ¬ i ≤ r := by omega
      rw [hent' i j hi, if_neg hir]
      rcases Nat.lt_succ_iff_lt_or_eq.mp hj with hj | hj
      · rw [hz1 i j (by omega) hi hj, zero p j (by omega) hpn hj]; simp
      · subst hj; field_simp; ring
    · intro i j hi hj
      simp only at hi ⊢
      have hin : i < n := by omega
      rw [hent' i j hin, if_pos (by omega), hent1]
      split
      · exact zero p j (by omega) hpn (by omega)
      · have : i ≠ p := by omega
        rw [if_neg this]
        exact tri i j (by omega) hj
    · simp only
      rw [hdet', hs1]
      split <;> ring
    · intro e
      simp only at e ⊢
      have erc : r = c := by omega
      have hd := hs2 erc
      rw [Finset.prod_range_succ, hd]
      have hdiag : ∀ k ∈ Finset.range c, ent a' k k = ent a k k := by
        intro k hk
        have hk' : k < c := Finset.mem_range.mp hk
        rw [hent' k k (by omega), if_pos (by omega), hent1, if_neg (by omega), if_neg (by omega)]
      have hcc : ent a' c c = ent a p c := by
        rw [hent' c c hc, if_pos (by omega), hent1, if_pos erc.symm]
      rw [Finset.prod_congr rfl hdiag, hcc]
      split <;> ring

theorem Inv.fold (a : QMat) (hr : Rect n n a) (k : Nat) (hk : k ≤ n) :
    Inv n (toM n n a) k ((List.range k).foldl rdStep (a, 0, 1)) := by
  induction k with
  | zero =>
    refine ⟨hr, le_refl _, ?_, ?_, 1, by simp, by simp⟩
    · intro i j _ _ hj; omega
    · intro i j hi; simp at hi
  | succ k ih =>
    rw [List.range_succ, List.foldl_append]
    exact Inv.step _ k (by omega) (ih (by omega))

/-- **`qdet` is the determinant** (over ℚ) of a square list matrix. -/
theorem qdet_spec (a : NTV.Spec.Mat.QMat) (n : Nat) (hr : Rect n n a) :
    NTV.Spec.Mat.qdet a = (toM n n a).det := by
  have hinv := Inv.fold a hr n (le_refl _)
  unfold NTV.Spec.Mat.qdet
  simp only [rankDet_eq, hr.1]
  generalize (List.range n).foldl rdStep (a, 0, 1) = st at hinv
  obtain ⟨b, r, d⟩ := st
  obtain ⟨rb, rc, zero, tri, s, hs1, hs2⟩ := hinv
  simp only at rb rc zero tri hs1 hs2 ⊢
  split
  · rename_i hrn
    have hd := hs2 hrn
    have : (toM n n b).det = ∏ k : Fin n, toM n n b k k :=
      NTV.Det.det_upper (toM n n b) (fun i j hji => tri i j (by rw [hrn]; exact i.2) hji)
    rw [hs1, hd, this]
    congr 1
    exact (Fin.prod_univ_eq_prod_range (fun c => ent b c c) n).symm
  · rename_i hrn
    have hlt : r < n := by omega
    have : (toM n n b).det = 0 :=
      det_eq_zero_of_row_eq_zero ⟨n - 1, by omega⟩ (fun j => zero (n - 1) j (by omega) (by omega) j.2)
    rw [hs1, this, mul_zero]

example : NTV.Spec.Mat.qdet [[0, 2, 1], [3, 1, 4], [1, 0, 2]] = -5 := by decide +kernel
example : (toM 3 3 ([[0, 2, 1], [3, 1, 4], [1, 0, 2]] : QMat)).det = -5 := by
  rw [← qdet_spec _ 3 ⟨rfl, by decide⟩]; decide +kernel

/-! ### integer determinant -/

theorem rect_toQ {n m : Nat} (a : IMat) (hr : Rect n m a) : Rect n m (toQ a) := by
  refine ⟨by simp [toQ, hr.1], ?_⟩
  intro row hrow
  simp only [toQ, List.mem_map] at hrow
  obtain ⟨r0, h0, rfl⟩ := hrow
  simp [hr.2 r0 h0]

theorem ent_toQ (a : IMat) (i j : Nat) : ent (toQ a) i j = ((ent a i j : ℤ) : ℚ) := by
  unfold ent toQ
  simp only [List.getD_eq_getElem?_getD, List.getElem?_map]
  cases a[i]? with
  | none => simp
  | some r =>
    simp only [Option.map_some, Option.getD_some, List.getElem?_map]
    cases r[j]? <;> simp

theorem toM_toQ (n m : Nat) (a : IMat) :
    toM n m (toQ a) = (toM n m a).map (Int.cast : ℤ → ℚ) := by
  ext i j
  exact ent_toQ a i j

/-- **`det` is the determinant** (over ℤ) of a square integer list matrix. -/
theorem det_spec (a : NTV.Spec.Mat.IMat) (n : Nat) (hr : Rect n n a) :
    NTV.Spec.Mat.det a = (toM n n a).det := by
  unfold NTV.Spec.Mat.det
  rw [qdet_spec (toQ a) n (rect_toQ a hr), toM_toQ]
  have : ((toM n n a).map (Int.cast : ℤ → ℚ)).det = (((toM n n a).det : ℤ) : ℚ) :=
    (Int.cast_det (toM n n a)).symm
  rw [this, Rat.num_intCast]

example : NTV.Spec.Mat.det [[0, 2, 1], [3, 1, 4], [1, 0, 2]] = -5 := by decide +kernel
example : (toM 3 3 ([[0, 2, 1], [3, 1, 4], [1, 0, 2]] : IMat)).det = -5 := by
  rw [← det_spec _ 3 ⟨rfl, by decide⟩]; decide +kernel

/-! ### dot product, transpose, product -/
open NTV.Spec.Mat (dot mul cols)

theorem foldl_add_eq (l : List ℤ) (acc : ℤ) : l.foldl (· + ·) acc = acc + l.sum := by
  induction l generalizing acc with
  | nil => simp
  | cons x l ih => simp [List.foldl_cons, ih, add_assoc]

/-- `dot` is the dot product of two integer vectors of the same length. -/
theorem dot_spec (u v : List ℤ) (m : Nat) (hu : u.length = m) (hv : v.length = m) :
    dot u v = (fun i : Fin m => u.getD i 0) ⬝ᵥ (fun i : Fin m => v.getD i 0) := by
  unfold dot
  rw [foldl_add_eq, zero_add]
  induction u generalizing v m with
  | nil => subst hu; simp [dotProduct]
  | cons x u ih =>
    cases v with
    | nil => simp at hu hv; omega
    | cons y v =>
      subst hu
      simp only [List.length_cons, Nat.add_right_cancel_iff] at hv
      rw [List.zipWith_cons_cons, List.sum_cons, ih v u.length rfl hv]
      simp [dotProduct, Fin.sum_univ_succ]

example : dot [1, 2, 3] [4, 5, 6] = 32 := by decide +kernel

theorem cols_eq {m k : Nat} (b : IMat) (hb : Rect m k b) (hm : 0 < m) : cols b = k := by
  cases b with
  | nil => have := hb.1; simp at this; omega
  | cons r b => exact hb.2 r (by simp)

theorem getD_transpose (b : IMat) (j : Nat) (hj : j < cols b) :
    (NTV.Spec.Mat.transpose b).getD j [] = b.map (fun r => r.getD j 0) := by
  unfold NTV.Spec.Mat.transpose
  simp [List.getD_eq_getElem?_getD, List.getElem?_map, List.getElem?_range hj]

theorem ent_transpose (b : IMat) (j i : Nat) (hj : j < cols b) :
    ent (NTV.Spec.Mat.transpose b) j i = ent b i j := by
  unfold ent
  rw [getD_transpose b j hj]
  simp only [List.getD_eq_getElem?_getD, List.getElem?_map]
  cases b[i]? <;> simp

/-- `transpose` is the matrix transpose (the column count is read off the first row, hence `cols b = k`,
which holds as soon as `b` has a row: `cols_eq`). -/
theorem transpose_spec (b : IMat) (m k : Nat) (hb : Rect m k b) (hc : cols b = k) :
    Rect k m (NTV.Spec.Mat.transpose b) ∧ toM k m (NTV.Spec.Mat.transpose b) = (toM m k b)ᵀ := by
  refine ⟨⟨by simp [NTV.Spec.Mat.transpose, hc], ?_⟩, ?_⟩
  · intro row hrow
    simp only [NTV.Spec.Mat.transpose, List.mem_map] at hrow
    obtain ⟨j, _, rfl⟩ := hrow
    simp [hb.1]
  · ext j i
    exact ent_transpose b j i (by rw [hc]; exact j.2)

example : NTV.Spec.Mat.transpose [[1, 2, 3], [4, 5, 6]] = [[1, 4], [2, 5], [3, 6]] := by decide +kernel

theorem mul_spec_of_cols (a b : IMat) (n m k : Nat) (ha : Rect n m a) (hb : Rect m k b)
    (hc : cols b = k) :
    Rect n k (mul a b) ∧ toM n k (mul a b) = toM n m a * toM m k b := by
  have hlt : (NTV.Spec.Mat.transpose b).length = k := by simp [NTV.Spec.Mat.transpose, hc]
  refine ⟨⟨by simp [mul, ha.1], ?_⟩, ?_⟩
  · intro row hrow
    simp only [mul, List.mem_map] at hrow
    obtain ⟨r0, _, rfl⟩ := hrow
    simp [hlt]
  · ext i j
    have hi : (i : Nat) < a.length := by rw [ha.1]; exact i.2
    have hj : (j : Nat) < (NTV.Spec.Mat.transpose b).length := by rw [hlt]; exact j.2
    have hjc : (j : Nat) < cols b := by rw [hc]; exact j.2
    have hai : (a[(i : Nat)]).length = m := ha.2 _ (List.getElem_mem hi)
    have htj : (NTV.Spec.Mat.transpose b)[(j : Nat)] = b.map (fun r => r.getD j 0) := by
      have := getD_transpose b j hjc
      simpa [List.getD_eq_getElem?_getD, List.getElem?_eq_getElem hj] using this
    have e1 : ent (mul a b) i j = dot a[(i : Nat)] (NTV.Spec.Mat.transpose b)[(j : Nat)] := by
      unfold ent mul
      simp [List.getD_eq_getElem?_getD, List.getElem?_map, List.getElem?_eq_getElem hi,
        List.getElem?_eq_getElem hj]
    show ent (mul a b) i j = _
    rw [e1, dot_spec _ _ m hai (by rw [htj]; simp [hb.1]), Matrix.mul_apply]
    unfold dotProduct
    apply Finset.sum_congr rfl
    intro l _
    have h1 : (a[(i : Nat)]).getD l 0 = ent a i l := by
      unfold ent; simp [List.getD_eq_getElem?_getD, List.getElem?_eq_getElem hi]
    have h2 : ((NTV.Spec.Mat.transpose b)[(j : Nat)]).getD l 0 = ent b l j := by
      rw [← ent_transpose b j l hjc]
      unfold ent; simp [List.getD_eq_getElem?_getD, List.getElem?_eq_getElem hj]
    show (a[(i : Nat)]).getD l 0 * ((NTV.Spec.Mat.transpose b)[(j : Nat)]).getD l 0 = ent a i l * ent b l j
    rw [h1, h2]

/-- **`mul` is the matrix product.**  The inner dimension must be positive because `mul` reads the
column count of `b` off its first row (for `m = 0`, `k > 0`, `n > 0` the result has rows of length 0). -/
theorem mul_spec (a b : NTV.Spec.Mat.IMat) (n m k : Nat) (ha : Rect n m a) (hb : Rect m k b) (hm : 0 < m) :
    Rect n k (NTV.Spec.Mat.mul a b) ∧ toM n k (NTV.Spec.Mat.mul a b) = toM n m a * toM m k b :=
  mul_spec_of_cols a b n m k ha hb (cols_eq b hb hm)

example : mul [[1, 2, 3], [4, 5, 6]] [[1, 0], [0, 1], [2, -1]] = [[7, -1], [16, -1]] := by decide +kernel
example : toM 2 2 (mul [[1, 2, 3], [4, 5, 6]] [[1, 0], [0, 1], [2, -1]]) =
    toM 2 3 ([[1, 2, 3], [4, 5, 6]] : IMat) * toM 3 2 ([[1, 0], [0, 1], [2, -1]] : IMat) :=
  (mul_spec [[1, 2, 3], [4, 5, 6]] [[1, 0], [0, 1], [2, -1]] 2 3 2 ⟨rfl, by decide⟩ ⟨rfl, by decide⟩
    (by decide)).2
/-- the precondition of `mul_spec` is needed: with inner dimension 0 the shape is lost -/
example : mul [[]] [] = [[]] ∧ ¬ Rect 1 2 (mul [[]] []) :=
  ⟨by decide +kernel, fun h => absurd (h.2 [] (by decide +kernel)) (by decide)⟩

end NTV.MatCheck
