import NTV.Proofs.Lemmas.IdealProofsA
/-! # Ideals, part B: the lattice of a list matrix as a submodule of ℤᵐ, the normal form keeps it,
two matrices have the same normal form iff they have the same lattice (also for empty matrices). -/
namespace NTV.IdealP
open NTV.Hnf NTV.Ord Finset Matrix

/-- all rows have length m -/
def Wid (m : Nat) (A : Mat) : Prop := ∀ r ∈ A, r.length = m

theorem Wid.rect {m : Nat} {A : Mat} (h : Wid m A) : Rect A.length m A := ⟨rfl, h⟩

theorem Wid.append {m : Nat} {A B : Mat} (hA : Wid m A) (hB : Wid m B) : Wid m (A ++ B) := by
  intro r hr
  rcases List.mem_append.mp hr with h | h
  · exact hA r h
  · exact hB r h

/-- the ℤ-span of the rows of `A` (read as vectors of ℤᵐ) -/
def Lat (m : Nat) (A : Mat) : Submodule ℤ (Fin m → ℤ) := Submodule.span ℤ (vec m '' {r | r ∈ A})

theorem row_mem_Lat {m : Nat} {A : Mat} {r : Row} (hr : r ∈ A) : vec m r ∈ Lat m A :=
  Submodule.subset_span ⟨r, hr, rfl⟩

theorem Lat_nil (m : Nat) : Lat m [] = ⊥ := by simp [Lat]

theorem Lat_append (m : Nat) (A B : Mat) : Lat m (A ++ B) = Lat m A ⊔ Lat m B := by
  unfold Lat
  rw [← Submodule.span_union, ← Set.image_union]
  congr 2
  ext r; simp

theorem Lat_le_iff {m : Nat} {A : Mat} {S : Submodule ℤ (Fin m → ℤ)} :
    Lat m A ≤ S ↔ ∀ r ∈ A, vec m r ∈ S := by
  unfold Lat
  rw [Submodule.span_le]
  constructor
  · intro h r hr; exact h ⟨r, hr, rfl⟩
  · rintro h _ ⟨r, hr, rfl⟩; exact h r hr

theorem toM_row (n m : Nat) (A : Mat) (i : Fin n) : toM n m A i = vec m (A.getD i.val []) := by
  funext j; simp [toM, ent, vec]

theorem image_rows_eq_range {n m : Nat} {A : Mat} (hA : A.length = n) :
    vec m '' {r | r ∈ A} = Set.range (fun i : Fin n => toM n m A i) := by
  ext v
  simp only [Set.mem_image, Set.mem_ofPred_eq, Set.mem_range]
  constructor
  · rintro ⟨r, hr, rfl⟩
    obtain ⟨i, hi, rfl⟩ := List.mem_iff_getElem.mp hr
    refine ⟨⟨i, by omega⟩, ?_⟩
    rw [toM_row]; simp [List.getD_eq_getElem?_getD, List.getElem?_eq_getElem hi]
  · rintro ⟨i, rfl⟩
    have hi : i.val < A.length := by rw [hA]; exact i.isLt
    refine ⟨A[i.val], List.getElem_mem hi, ?_⟩
    rw [toM_row]; simp [List.getD_eq_getElem?_getD, List.getElem?_eq_getElem hi]

/-- `Lat` is the row lattice `InLattice` of the C02 development -/
theorem mem_Lat_iff {n m : Nat} {A : Mat} (hA : A.length = n) (v : Fin m → ℤ) :
    v ∈ Lat m A ↔ InLattice n m A v := by
  unfold Lat InLattice
  rw [image_rows_eq_range hA, Submodule.mem_span_range_iff_exists_fun]
  simp only [Matrix.vecMul_eq_sum]

/-- the model's `hnfNew` is total on rectangular matrices; its result is in normal form and has the
same lattice (for the empty matrix: the empty result) -/
theorem hnfNew_full {m : Nat} {A : Mat} (hA : Wid m A) (hm : 0 < m) :
    ∃ H pv, NTV.Hnf.hnfNew A = some H ∧ Wid m H ∧ IsHNF H m pv ∧ Lat m H = Lat m A := by
  by_cases h0 : A = []
  · subst h0
    refine ⟨[], [], by simp [NTV.Hnf.hnfNew, hnfWithU], by intro r hr; simp at hr, ?_, rfl⟩
    exact ⟨rfl, List.Pairwise.nil, by simp, by simp, by simp, by simp⟩
  · have hn : 0 < A.length := List.length_pos_iff.mpr h0
    obtain ⟨⟨H, U, k⟩, h1⟩ := Option.isSome_iff_exists.mp (hnfWithU_total A A.length m hA.rect)
    obtain ⟨W, pv, R⟩ := Result.of_spec A A.length m hA.rect hn hm H U k h1
    refine ⟨H, pv, by simp [NTV.Hnf.hnfNew, h1], R.rectH.2, R.shape, ?_⟩
    apply le_antisymm
    · rw [Lat_le_iff]
      intro r hr
      obtain ⟨i, hi, rfl⟩ := List.mem_iff_getElem.mp hr
      have := R.row_in_lattice i (by rw [R.lenPv, ← R.lenH]; exact hi)
      rw [← mem_Lat_iff rfl] at this
      convert this using 1
      funext col
      simp [vec, ent, List.getD_eq_getElem?_getD, List.getElem?_eq_getElem hi]
    · intro v hv
      rw [mem_Lat_iff rfl] at hv
      obtain ⟨c, hc⟩ := R.lattice_as_sum v hv
      rw [mem_Lat_iff R.lenH]
      refine ⟨fun s => c s.val, ?_⟩
      funext col
      rw [hc col.val col.isLt, R.lenPv]
      simp only [Matrix.vecMul, dotProduct, toM]
      rw [Fin.sum_univ_eq_sum_range (fun s => c s * ent H s col.val) (A.length - k)]

/-- a normal form whose lattice is zero is empty -/
theorem isHNF_bot {m : Nat} {H : Mat} {pv : List Nat} (h : IsHNF H m pv) (hb : Lat m H = ⊥) : H = [] := by
  by_contra hne
  have hl : 0 < H.length := List.length_pos_iff.mpr hne
  have hp : 0 < pv.length := by rw [h.len]; exact hl
  have h1 := h.pos 0 hp
  have h2 : vec m H[0] ∈ Lat m H := row_mem_Lat (List.getElem_mem hl)
  rw [hb, Submodule.mem_bot] at h2
  have h3 := congrFun h2 ⟨pv[0], h.lt _ (List.getElem_mem hp)⟩
  simp only [vec, Pi.zero_apply] at h3
  simp only [ent, List.getD_eq_getElem?_getD, List.getElem?_eq_getElem hl, Option.getD_some] at h1
  rw [List.getD_eq_getElem?_getD] at h3
  omega

theorem hnfNew_bot {m : Nat} {A : Mat} (hA : Wid m A) (hm : 0 < m) (hb : Lat m A = ⊥) :
    NTV.Hnf.hnfNew A = some [] := by
  obtain ⟨H, pv, h1, _, h3, h4⟩ := hnfNew_full hA hm
  rw [h1, isHNF_bot h3 (h4.trans hb)]

/-- canonicity, including empty operands: the normal form depends only on the lattice -/
theorem hnfNew_canonical {m : Nat} {A A' : Mat} (hA : Wid m A) (hA' : Wid m A') (hm : 0 < m)
    (h : Lat m A = Lat m A') : NTV.Hnf.hnfNew A = NTV.Hnf.hnfNew A' := by
  by_cases h0 : A = []
  · have hb : Lat m A = ⊥ := by rw [h0, Lat_nil]
    rw [hnfNew_bot hA hm hb, hnfNew_bot hA' hm (h ▸ hb)]
  by_cases h0' : A' = []
  · have hb : Lat m A' = ⊥ := by rw [h0', Lat_nil]
    rw [hnfNew_bot hA' hm hb, hnfNew_bot hA hm (h ▸ hb)]
  exact hnf_canonical A A' A.length A'.length m hA.rect hA'.rect (List.length_pos_iff.mpr h0)
    (List.length_pos_iff.mpr h0') hm (fun v => by rw [← mem_Lat_iff rfl, ← mem_Lat_iff rfl, h])

/-- … and conversely -/
theorem hnfNew_eq_iff {m : Nat} {A A' : Mat} (hA : Wid m A) (hA' : Wid m A') (hm : 0 < m) :
    NTV.Hnf.hnfNew A = NTV.Hnf.hnfNew A' ↔ Lat m A = Lat m A' := by
  refine ⟨fun h => ?_, hnfNew_canonical hA hA' hm⟩
  obtain ⟨H, pv, h1, _, _, h4⟩ := hnfNew_full hA hm
  obtain ⟨H', pv', h1', _, _, h4'⟩ := hnfNew_full hA' hm
  rw [h1, h1'] at h
  cases h
  rw [← h4, h4']

/-! ### the `Except` wrapper of the ideal model -/

theorem ideal_hnfNew_ok {A H : Mat} : NTV.Ideal.hnfNew A = .ok H ↔ NTV.Hnf.hnfNew A = some H := by
  unfold NTV.Ideal.hnfNew
  cases h : NTV.Hnf.hnfNew A <;> simp

theorem ideal_hnfNew_congr {A A' : Mat} (h : NTV.Hnf.hnfNew A = NTV.Hnf.hnfNew A') :
    NTV.Ideal.hnfNew A = NTV.Ideal.hnfNew A' := by
  unfold NTV.Ideal.hnfNew; rw [h]

/-- `Ideal.hnfNew` never fails on a rectangular matrix; the result is rectangular, in normal form, with
the same lattice -/
theorem ideal_hnfNew_total {m : Nat} {A : Mat} (hA : Wid m A) (hm : 0 < m) :
    ∃ H pv, NTV.Ideal.hnfNew A = .ok H ∧ Wid m H ∧ IsHNF H m pv ∧ Lat m H = Lat m A := by
  obtain ⟨H, pv, h1, h2, h3, h4⟩ := hnfNew_full hA hm
  exact ⟨H, pv, ideal_hnfNew_ok.mpr h1, h2, h3, h4⟩

theorem ideal_hnfNew_spec {m : Nat} {A H : Mat} (hA : Wid m A) (hm : 0 < m)
    (h : NTV.Ideal.hnfNew A = .ok H) : Wid m H ∧ (∃ pv, IsHNF H m pv) ∧ Lat m H = Lat m A := by
  obtain ⟨H', pv, h1, h2, h3, h4⟩ := ideal_hnfNew_total hA hm
  rw [h] at h1; cases h1
  exact ⟨h2, ⟨pv, h3⟩, h4⟩

/-- a normal form is its own normal form -/
theorem ideal_hnfNew_idem {m : Nat} {A H : Mat} (hA : Wid m A) (hm : 0 < m)
    (h : NTV.Ideal.hnfNew A = .ok H) : NTV.Ideal.hnfNew H = .ok H := by
  obtain ⟨h2, _, h4⟩ := ideal_hnfNew_spec hA hm h
  rw [ideal_hnfNew_congr (hnfNew_canonical h2 hA hm h4), h]

/-- `mapM` in `Except` of a function that succeeds on every element -/
theorem mapM_ok {α β : Type} (f : α → Except String β) (g : α → β) (l : List α)
    (h : ∀ x ∈ l, f x = .ok (g x)) : l.mapM f = .ok (l.map g) := by
  induction l with
  | nil => rfl
  | cons a l ih =>
    rw [List.mapM_cons, h a (by simp), ih (fun x hx => h x (by simp [hx]))]
    rfl

end NTV.IdealP
