import NTV.Proofs.Lemmas.PrimeStream
namespace NTV.Prime

theorem mrLoop_dvd (n q : Nat) (hq : 2 ≤ q) (hqn : q ∣ n) (hn : 2 ≤ n) :
    ∀ (c tmp : Nat), q ∣ tmp →
      (mrLoop n c tmp).1 ≠ some true ∧ ((mrLoop n c tmp).1 = none → (mrLoop n c tmp).2 ≠ 1) := by
  intro c
  induction c with
  | zero =>
    intro tmp hd
    simp only [mrLoop]
    refine ⟨by simp, fun _ h1 => ?_⟩
    subst h1
    have := Nat.le_of_dvd (by norm_num) hd
    omega
  | succ c ih =>
    intro tmp hd
    simp only [mrLoop]
    have hne : ¬ (tmp == n - 1) = true := by
      intro h
      have h1 : tmp = n - 1 := by simpa using h
      have h2 : q ∣ n - (n - 1) := Nat.dvd_sub hqn (h1 ▸ hd)
      have h3 : n - (n - 1) = 1 := by omega
      rw [h3] at h2
      have := Nat.le_of_dvd (by norm_num) h2
      omega
    simp only [hne, Bool.false_eq_true, ↓reduceIte]
    split
    · simp
    · have hd' : q ∣ tmp * tmp % n := (Nat.dvd_mod_iff hqn).mpr (Dvd.dvd.mul_left hd tmp)
      exact ih _ hd'

/-- every composite n > 2 has a base in [1, n) that makes a round fail: any proper prime divisor.
So the test is not vacuous on composites (the universal statement about primes is sharp). -/
theorem witness_exists (n q : Nat) (hn : 2 < n) (hq : q.Prime) (hqn : q ∣ n) (hlt : q < n) :
    1 ≤ q ∧ q < n ∧ mrRound n (splitTwos n (n - 1) 0).1 (splitTwos n (n - 1) 0).2 q = false := by
  refine ⟨by have := hq.two_le; omega, hlt, ?_⟩
  obtain ⟨hs, _⟩ := splitTwos_spec n (n - 1) 0
  set d := (splitTwos n (n - 1) 0).1
  set c := (splitTwos n (n - 1) 0).2
  have hd : 1 ≤ d := by
    by_contra h
    have : d = 0 := by omega
    rw [this] at hs; simp at hs; omega
  have hq2 := hq.two_le
  have hdvd : q ∣ q ^ d % n := (Nat.dvd_mod_iff hqn).mpr (dvd_pow_self q (by omega))
  unfold mrRound
  have h1 : ¬ (q ^ d % n == 1) = true := by
    intro h
    have h' : q ^ d % n = 1 := by simpa using h
    rw [h'] at hdvd
    have := Nat.le_of_dvd (by norm_num) hdvd
    omega
  simp only [h1, Bool.false_eq_true, ↓reduceIte]
  obtain ⟨l1, l2⟩ := mrLoop_dvd n q hq2 hqn (by omega) c _ hdvd
  generalize hres : mrLoop n c (q ^ d % n) = res at l1 l2
  obtain ⟨o, t⟩ := res
  cases o with
  | none => simpa using l2 rfl
  | some b =>
    cases b with
    | true => exact absurd rfl l1
    | false => rfl

end NTV.Prime
