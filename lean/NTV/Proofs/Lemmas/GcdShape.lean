import NTV.Proofs.Lemmas.SubresLoop
import NTV.Proofs.Lemmas.ContPP
open Polynomial
namespace NTV.Res
open NTV.PolyG

theorem gcdLoop_flag (fuel : Nat) : ∀ (f g : List Int) (a b : Int) (ok : Bool) (r : List Int),
    gcdLoop fuel f g a b ok = some (.ok (r, true)) → ok = true := by
  induction fuel with
  | zero => intro f g a b ok r h; simp [gcdLoop] at h
  | succ fuel ih =>
    intro f g a b ok r h
    simp only [gcdLoop] at h
    split at h
    · simp only [Option.some.injEq, Except.ok.injEq, Prod.mk.injEq] at h; exact h.2
    · split at h
      · simp only [Option.some.injEq, Except.ok.injEq, Prod.mk.injEq] at h; exact h.2
      · split at h
        · exact ih _ _ _ _ _ _ h
        · split at h
          · simp at h
          · have := ih _ _ _ _ _ _ h
            simp only [Bool.and_eq_true] at this
            exact this.1

/-- with all divisions exact the polynomial left by the gcd loop is canonical and non-zero -/
theorem gcdLoop_canon (fuel : Nat) : ∀ (f g : List Int) (a b : Int) (ok : Bool) (r : List Int),
    Canon f → Canon g → f ≠ [] →
    gcdLoop fuel f g a b ok = some (.ok (r, true)) → Canon r ∧ r ≠ [] := by
  induction fuel with
  | zero => intro f g a b ok r _ _ _ h; simp [gcdLoop] at h
  | succ fuel ih =>
    intro f g a b ok r hcf hcg hf h
    simp only [gcdLoop] at h
    split at h
    · simp only [Option.some.injEq, Except.ok.injEq, Prod.mk.injEq] at h
      obtain ⟨rfl, _⟩ := h; exact ⟨hcf, hf⟩
    · rename_i hge
      have hgne : g ≠ [] := by intro e; simp [e] at hge
      split at h
      · simp only [Option.some.injEq, Except.ok.injEq, Prod.mk.injEq] at h
        obtain ⟨rfl, _⟩ := h
        exact ⟨by intro _; simp, by simp⟩
      · rename_i hg0
        split at h
        · exact ih g f a b ok r hcg hcf hgne h
        · rename_i hlt
          split at h
          · simp at h
          · rename_i f' g' a' b' ok' hstep
            have hfl := gcdLoop_flag fuel _ _ _ _ _ _ h
            simp only [Bool.and_eq_true] at hfl
            obtain ⟨_, hok'⟩ := hfl
            subst hok'
            have hgl : 0 < g.length := List.length_pos_of_ne_nil hgne
            have hfl' : 0 < f.length := List.length_pos_of_ne_nil hf
            obtain ⟨hf'e, _, _, hcg', _⟩ := step_spec f g a b f' g' a' b' hf hgne hcg (by omega) hstep
            rw [hf'e] at h
            exact ih g g' a' b' _ r hcg hcg' hgne h

theorem not_all_zero (f : List Int) (hf : f ≠ []) (hc : Canon f) : f.all (· == 0) = false := by
  have hl := lc_ne_zero f hf hc
  have hmem : lc f ∈ f := by
    unfold lc; rw [List.getLastD_eq_getLast?, List.getLast?_eq_some_getLast hf]
    simp only [Option.getD_some]; exact List.getLast_mem hf
  by_contra h
  have h' : f.all (· == 0) = true := by simpa using h
  have := List.all_eq_true.mp h' _ hmem
  exact hl (by simpa using this)

theorem contPP_fst_ne_zero (f : List Int) (hf : f ≠ []) (hc : Canon f) : (contPP f).1 ≠ 0 := by
  intro e
  have := (contPP_spec f hf hc).1
  rw [e] at this
  simp only [map_zero, zero_mul] at this
  exact (natDegree_toPoly f hf hc).2.2 this.symm

theorem content_ok (f : List Int) (hf : f ≠ []) (hc : Canon f) : content f = .ok (contPP f).1 := by
  have he : f.isEmpty = false := by cases f <;> simp_all
  simp [content, he, not_all_zero f hf hc]

theorem polyDiv_content (f : List Int) (hf : f ≠ []) (hc : Canon f) :
    polyDiv f (contPP f).1 = .ok (contPP f).2 := by
  have he : f.isEmpty = false := by cases f <;> simp_all
  have h0 := contPP_fst_ne_zero f hf hc
  simp only [polyDiv, he, Bool.false_eq_true, ↓reduceIte, h0]
  simp [contPP, he]

theorem pp_ne_nil (f : List Int) (hf : f ≠ []) (hc : Canon f) : (contPP f).2 ≠ [] := by
  intro e
  have := (contPP_spec f hf hc).2.2.1
  rw [e] at this; simp [lc] at this

theorem toPoly_resPolyMul (f : List Int) (m : Int) : toPoly (polyMul f m) = C m * toPoly f := by
  unfold polyMul
  split
  · rename_i h; have : f = [] := by cases f <;> simp_all
    subst this; simp [toPoly]
  · rw [toPoly_fromRaw, toPoly_map_mul_right]

/-- C10 (shape of the result): for non-zero canonical f, g, when all divisions are exact the result is
`pp · d` with `d = gcd(cont f, cont g) > 0` and `pp` a primitive polynomial with positive leading
coefficient: hence the result has positive leading coefficient and content exactly d -/
theorem gcd_shape (f g r : List Int) (hf : f ≠ []) (hg : g ≠ []) (hcf : Canon f) (hcg : Canon g)
    (h : resultantSmartGcdE f g = some (.ok (r, true))) :
    ∃ pp : List Int, ∃ d : Int, d = (Int.gcd (contPP f).1 (contPP g).1 : Int) ∧ 0 < d ∧
      toPoly r = C d * toPoly pp ∧ 0 < lc pp ∧ Canon pp ∧
      (∀ e : Int, (∀ c ∈ pp, e ∣ c) → e ∣ 1) := by
  unfold resultantSmartGcdE at h
  have he : f.isEmpty = false := by cases f <;> simp_all
  simp only [he, Bool.false_eq_true, ↓reduceIte, bind, Except.bind, content_ok f hf hcf, content_ok g hg hcg,
    polyDiv_content f hf hcf, polyDiv_content g hg hcg, pure, Except.pure] at h
  cases hl : gcdLoop ((contPP f).2.length + (contPP g).2.length + 3) (contPP f).2 (contPP g).2 1 1 true with
  | none => rw [hl] at h; simp at h
  | some res =>
    rw [hl] at h
    cases res with
    | error e => simp at h
    | ok v =>
      obtain ⟨f2, ok⟩ := v
      simp only at h
      -- the loop result is canonical and non-zero once we know the flag
      have hsp1 := contPP_spec f hf hcf
      have hsp2 := contPP_spec g hg hcg
      by_cases hok : ok = true
      · subst hok
        obtain ⟨hc2, hne2⟩ := gcdLoop_canon _ _ _ _ _ _ f2 hsp1.2.2.2 hsp2.2.2.2 (pp_ne_nil f hf hcf) hl
        simp only [content_ok f2 hne2 hc2, polyDiv_content f2 hne2 hc2, Option.some.injEq, Except.ok.injEq,
          Prod.mk.injEq, and_true] at h
        subst h
        obtain ⟨s1, s2, s3, s4⟩ := contPP_spec f2 hne2 hc2
        refine ⟨(contPP f2).2, _, rfl, ?_, toPoly_resPolyMul _ _, s3, s4, s2⟩
        have h1 := contPP_fst_ne_zero f hf hcf
        have : Int.gcd (contPP f).1 (contPP g).1 ≠ 0 := by
          intro e; exact h1 (Int.gcd_eq_zero_iff.mp e).1
        omega
      · -- flag false cannot produce a final `true`
        exfalso
        have hf' : ok = false := by simpa using hok
        subst hf'
        revert h
        cases content f2 with
        | error e => simp
        | ok c =>
          simp only
          cases polyDiv f2 c with
          | error e => simp
          | ok q => simp

end NTV.Res
