import NTV.Proofs.Lemmas.FactorModPIrred
import NTV.Proofs.Lemmas.NoPanicLinear
/-! Panic-freedom of `factorize_mod_p` (src/poly_mod/factorize_mod_p.rs), part A: the deterministic stages
`squarefree` and `degree` are TOTAL on legal input (p prime, non-zero reduced input of length < 2⁶⁴,
`pusize = p` unless deg < p): no `usize` overflow, no division by zero, no fuel exhaustion. -/
open Polynomial
namespace NTV.PolyMod
open NTV.PolyG NTV.Hensel

theorem mulUsize_eq_ok {a b : Nat} (h : a * b < 2 ^ 64) : mulUsize a b = .ok (a * b) := by
  unfold mulUsize; rw [if_pos h]; rfl

section prime
variable (p : ℕ) [hp : Fact p.Prime]

/-- `poly_gcd` on good lists never runs out of fuel (the second argument may be zero) -/
theorem polyGcd_total_good (a b : Poly) (ha : Good p a) (hb : Good p b) : ∃ g, polyGcd a b (p : Int) = .ok g := by
  by_cases hbn : b = []
  · subst hbn
    unfold polyGcd
    have e1 : ∀ a : Poly, polyDivrem a [] (p : Int) = ([], a) := by
      intro a; simp [polyDivrem]
    have e2 : ∀ a : Poly, polyDivrem [] a (p : Int) = ([], []) := by
      intro a; simp [polyDivrem]
    show ∃ g, polyGcdAux (p : Int) (a.length + 0 + 2 + 1) a [] = .ok g
    simp only [polyGcdAux, e1]
    split
    · exact ⟨_, rfl⟩
    · simp only [e2, List.isEmpty_nil, ↓reduceIte]; exact ⟨_, rfl⟩
  · exact polyGcd_total p hp.out a b ha.1 hb.1 ha.2 hb.2 hbn

/-- degree of the image in (ZMod p)[X] -/
noncomputable abbrev nd (l : Poly) : Nat := (mp p l).natDegree

theorem nd_length {l : Poly} (h : GoodNZ p l) : l.length = nd p l + 1 := by
  have := (natDegree_mp p l h.1 h.2).1
  have hl := List.length_pos_of_ne_nil h.2
  unfold nd; omega

theorem degU_nd {l : Poly} (h : GoodNZ p l) : degU l = nd p l := degU_eq_natDegree p l h.1 h.2

theorem nd_mul {a b c : Poly} (ha : GoodNZ p a) (h : mp p a = mp p b * mp p c) : nd p a = nd p b + nd p c := by
  have h0 := GoodNZ.mp_ne_zero p ha
  have hb : mp p b ≠ 0 := by intro e; rw [e, zero_mul] at h; exact h0 h
  have hc : mp p c ≠ 0 := by intro e; rw [e, mul_zero] at h; exact h0 h
  unfold nd; rw [h, natDegree_mul hb hc]

/-! ### `squarefree` -/

/-- the inner loop of `squarefree` neither overflows nor runs out of fuel: the exponent `e·k` it pushes
is bounded by `e·((k+1)·deg v + deg t)`, a quantity that does not increase -/
theorem sqInner_total (e : Nat) : ∀ (fuel : Nat) (t v : Poly) (k : Nat) (result : Factors),
    GoodNZ p t → GoodNZ p v → e * ((k + 1) * nd p v + nd p t) < 2 ^ 64 →
    1 ≤ fuel → (degU v ≠ 0 → nd p t + 2 ≤ fuel) →
    ∃ r, sqInner (p : Int) e fuel t v k result = .ok r := by
  intro fuel
  induction fuel with
  | zero => intro t v k result _ _ _ h; omega
  | succ fuel ih =>
    intro t v k result ht hv hB hf1 hf2
    simp only [sqInner]
    split
    · split <;> exact ⟨_, rfl⟩
    · rename_i hv0
      obtain ⟨w, hg⟩ := polyGcd_total_good p t v ht.1 hv.1
      rw [hg, ok_bind']
      obtain ⟨g1, g2⟩ := gcd_out p ht.1 hv.1 (Or.inl ht.2) hg
      obtain ⟨ea, ga⟩ := divide_out p hv g2 g1.2.1
      obtain ⟨et, gt⟩ := divide_out p ht g2 g1.1
      have nv := nd_mul p hv ea
      have nt := nd_mul p ht et
      have hv1 : 1 ≤ nd p v := by rw [← degU_nd p hv]; omega
      have hBle : e * ((k + 1 + 1) * nd p w + nd p (polyDivrem t w p).1) ≤ e * ((k + 1) * nd p v + nd p t) := by
        apply Nat.mul_le_mul_left
        rw [nv, nt]
        have : (k + 1 + 1) * nd p w = (k + 1) * nd p w + nd p w := by ring
        rw [this, Nat.mul_add]
        omega
      have hf' : degU w ≠ 0 → nd p (polyDivrem t w p).1 + 2 ≤ fuel := by
        intro hw0
        have : 1 ≤ nd p w := by rw [← degU_nd p g2]; omega
        have := hf2 hv0
        omega
      have hfuel1 : 1 ≤ fuel := by have := hf2 hv0; omega
      split
      · rename_i haek
        have ha1 : 1 ≤ nd p (polyDivrem v w p).1 := by rw [← degU_nd p ga]; omega
        have hlt : e * (k + 1) < 2 ^ 64 := by
          refine lt_of_le_of_lt ?_ hB
          apply Nat.mul_le_mul_left
          have : (k + 1) * 1 ≤ (k + 1) * nd p v := Nat.mul_le_mul_left _ hv1
          omega
        rw [mulUsize_eq_ok hlt, ok_bind']
        simp only [pure, Except.pure, ok_bind']
        exact ih _ _ _ _ gt g2 (lt_of_le_of_lt hBle hB) hfuel1 hf'
      · simp only [pure, Except.pure, ok_bind']
        exact ih _ _ _ _ gt g2 (lt_of_le_of_lt hBle hB) hfuel1 hf'

/-- the outer loop of `squarefree` is total: `e · deg t₀` does not increase, the fuel outlasts the p-th
roots, and `pusize` is only read (and is then p ≠ 0) when deg t₀ ≥ p -/
theorem sqOuter_total (pusize : Nat) : ∀ (fuel : Nat) (t0 : Poly) (e : Nat) (result : Factors),
    GoodNZ p t0 → 1 ≤ e → (pusize = p ∨ t0.length ≤ p) → (∀ x ∈ result, Entry p x) →
    e * nd p t0 < 2 ^ 64 → nd p t0 + 1 ≤ fuel →
    ∃ r, sqOuter (p : Int) pusize fuel t0 e result = .ok r := by
  intro fuel
  induction fuel with
  | zero => intro t0 e result _ _ _ _ _ h; omega
  | succ fuel ih =>
    intro t0 e result ht0 he hpu hres hB hf
    simp only [sqOuter]
    split
    · exact ⟨_, rfl⟩
    · have hder : Good p (differentialMod t0 p) := by
        unfold differentialMod
        split
        · exact good_nil p hp.out.pos
        · exact good_polyMod p hp.out.pos _
      have hderm : mp p (differentialMod t0 p) = derivative (mp p t0) := by
        unfold differentialMod
        split
        · rename_i he; exact absurd (by cases t0 <;> simp_all) ht0.2
        · rw [mp_polyMod]; simp [mp, toPoly_differential, derivative_map]
      obtain ⟨t, hg⟩ := polyGcd_total_good p t0 _ ht0.1 hder
      rw [hg, ok_bind']
      obtain ⟨g1, g2⟩ := gcd_out p ht0.1 hder (Or.inl ht0.2) hg
      rw [hderm] at g1
      obtain ⟨ev, gv⟩ := divide_out p ht0 g2 g1.1
      have n0 := nd_mul p ht0 ev
      have hinv : SqInv p (mp p t) (mp p (polyDivrem t0 t p).1) :=
        sqInv_init p (GoodNZ.mp_ne_zero p ht0) g1 ev
      obtain ⟨⟨exit, r1⟩, hin⟩ := sqInner_total p e (t.length + (polyDivrem t0 t p).1.length + 2) t
        (polyDivrem t0 t p).1 0 result g2 gv
        (by rw [zero_add, one_mul, ← n0]; exact hB) (by omega)
        (by intro _; rw [nd_length p g2]; omega)
      rw [hin, ok_bind']
      obtain ⟨i1, _, i3, _⟩ := sqInner_spec p e he _ t _ 0 result exit r1 g2 gv hinv hres hin
      cases exit with
      | done => exact ⟨_, rfl⟩
      | root t' =>
        obtain ⟨j1, j2, j3, j4, _⟩ := i3 t' rfl
        simp only
        have hnd : nd p t' ≠ 0 := by rw [← degU_nd p j1]; exact j2
        have hge : p ≤ nd p t' := le_natDegree_of_derivative_eq_zero p j3 hnd
        have hle : nd p t' ≤ nd p t0 := natDegree_le_of_dvd (j4.trans g1.1) (GoodNZ.mp_ne_zero p ht0)
        have hpu' : pusize = p := by
          rcases hpu with h1 | h1
          · exact h1
          · exfalso
            rw [nd_length p ht0] at h1
            omega
        subst hpu'
        rw [if_neg hp.out.ne_zero]
        have hlt : e * pusize < 2 ^ 64 := by
          refine lt_of_le_of_lt ?_ hB
          exact Nat.mul_le_mul_left _ (hge.trans hle)
        rw [mulUsize_eq_ok hlt, ok_bind']
        have hroot : mp pusize (fromRaw ((List.range (degU t' / pusize + 1)).map (fun i => coefAt t' (pusize * i)))) ^ pusize
            = mp pusize t' := by
          rw [mp_root pusize t' j1]; exact (eq_contract_pow pusize j3).symm
        have hgood := good_root pusize t' j1
        have hnz : GoodNZ pusize (fromRaw ((List.range (degU t' / pusize + 1)).map (fun i => coefAt t' (pusize * i)))) := by
          apply goodNZ_of_mp_ne_zero pusize hgood
          intro e0
          rw [e0, zero_pow hp.out.ne_zero] at hroot
          exact GoodNZ.mp_ne_zero pusize j1 hroot.symm
        set r0 := fromRaw ((List.range (degU t' / pusize + 1)).map (fun i => coefAt t' (pusize * i))) with hr0
        have hdeg : nd pusize t' = pusize * nd pusize r0 := by
          unfold nd; rw [← hroot, natDegree_pow]
        have h2 := hp.out.two_le
        have hr1 : 1 ≤ nd pusize r0 := by
          by_contra hc
          have : nd pusize r0 = 0 := by omega
          rw [this, mul_zero] at hdeg
          exact hnd hdeg
        have hrlt : nd pusize r0 < nd pusize t' := by
          rw [hdeg]
          calc nd pusize r0 = 1 * nd pusize r0 := (one_mul _).symm
            _ < pusize * nd pusize r0 := Nat.mul_lt_mul_of_pos_right (by omega) (by omega)
        apply ih r0 (e * pusize) r1 hnz
          (Nat.one_le_iff_ne_zero.mpr (Nat.mul_ne_zero (by omega) hp.out.ne_zero)) (Or.inl rfl) i1
        · refine lt_of_le_of_lt ?_ hB
          rw [mul_assoc, ← hdeg]
          exact Nat.mul_le_mul_left _ hle
        · omega

/-- **`squarefree` is total** on a non-zero reduced input of degree < 2⁶⁴ -/
theorem squarefree_total (poly : Poly) (pusize : Nat) (hpoly : GoodNZ p poly)
    (hpu : pusize = p ∨ poly.length ≤ p) (hlen : poly.length ≤ 2 ^ 64) :
    ∃ fs, squarefree poly (p : Int) pusize = .ok fs := by
  unfold squarefree
  have hne : poly.isEmpty = false := by
    cases hq : poly with
    | nil => exact absurd hq hpoly.2
    | cons a l => rfl
  rw [hne]
  simp only [Bool.false_eq_true, ↓reduceIte]
  rw [polyMod_of_good p poly hpoly.1]
  have hl := nd_length p hpoly
  exact sqOuter_total p pusize _ poly 1 [] hpoly (le_refl 1) hpu (by simp) (by omega) (by omega)

/-! ### `degree` -/

theorem degreeLoop_total (L : Nat) : ∀ (fuel : Nat) (v w : Poly) (d : Nat) (result : Factors),
    GoodNZ p v → v.length ≤ L → 2 * d ≤ L → L + 2 ≤ fuel + d →
    ∃ ds, degreeLoop (p : Int) fuel v w d result = .ok ds := by
  intro fuel
  induction fuel with
  | zero => intro v w d result _ _ _ h; omega
  | succ fuel ih =>
    intro v w d result hv hL hd hf
    simp only [degreeLoop]
    split
    · rename_i hcond
      have hdu : degU v = v.length - 1 := by rw [degU_nd p hv, nd_length p hv]; omega
      obtain ⟨ad, hg⟩ := polyGcd_total_good p (polyModSub (polyModpow w p v p) [0, 1] p) v
        (good_polyModSub p hp.out.pos _ _) hv.1
      rw [hg, ok_bind']
      obtain ⟨g1, g2⟩ := gcd_out p (good_polyModSub p hp.out.pos _ _) hv.1 (Or.inr hv.2) hg
      split
      · obtain ⟨e1, e2⟩ := divide_out p hv g2 g1.2.1
        have hn := nd_mul p hv e1
        have hl1 := nd_length p hv
        have hl2 := nd_length p e2
        exact ih _ _ _ _ e2 (by omega) (by omega) (by omega)
      · exact ih _ _ _ _ hv hL (by omega) (by omega)
    · exact ⟨_, rfl⟩

/-- **`degree` is total** on a non-zero reduced input -/
theorem degree_total (poly : Poly) (hpoly : GoodNZ p poly) : ∃ ds, degree poly (p : Int) = .ok ds :=
  degreeLoop_total p poly.length _ poly [0, 1] 0 [] hpoly (le_refl _) (by omega) (by omega)

end prime
end NTV.PolyMod
