import NTV.Proofs.Lemmas.RabinMonierArith
import Mathlib.GroupTheory.SpecificGroups.Cyclic
/-! The Rabin–Monier bound inside `(ZMod n)ˣ`: for odd composite n with n − 1 = d·2^c (d odd), at
most (n − 1)/4 units are strong liars. -/
namespace NTV.RM
open ZMod

theorem LiarU.pow_eq_one {n : ℕ} {d c : ℕ} {u : (ZMod n)ˣ} (h : LiarU d c u) :
    u ^ (d * 2 ^ c) = 1 := by
  rcases h with h | ⟨i, hi, h⟩
  · rw [pow_mul, h, one_pow]
  · have : d * 2 ^ c = (d * 2 ^ i) * 2 * 2 ^ (c - (i + 1)) := by
      rw [mul_assoc, mul_assoc, ← pow_succ', ← pow_add]; congr 2; omega
    rw [this, pow_mul, pow_mul, h]; simp

theorem odd_dvd_gt_two {n m : ℕ} (hodd : Odd n) (hm : m ∣ n) (h1 : 1 < m) : 2 < m := by
  rcases Nat.lt_or_ge 2 m with h | h
  · exact h
  · have : m = 2 := by omega
    subst this
    exact absurd (even_iff_two_dvd.mpr hm) (Nat.not_even_iff_odd.mpr hodd)

theorem card_le_of_subset_subgroup {G : Type*} [Group G] [Finite G] (S : Finset G) (K : Subgroup G)
    (h : ∀ u ∈ S, u ∈ K) : S.card ≤ Nat.card K := by
  rw [← Set.ncard_coe_finset S, ← SetLike.coe_sort_coe, Nat.card_coe_set_eq]
  exact Set.ncard_le_ncard (fun u hu => h u (by simpa using hu)) (Set.toFinite _)

theorem card_units_le {n : ℕ} [NeZero n] (hn1 : 1 < n) : Nat.card (ZMod n)ˣ ≤ n - 1 := by
  rw [Nat.card_eq_fintype_card, ZMod.card_units_eq_totient]
  have := Nat.totient_lt n hn1
  omega

/-- prime-power case -/
theorem liarU_card_prime_pow (p α : ℕ) (hp : p.Prime) (hp2 : p ≠ 2) (hα : 2 ≤ α) (d c : ℕ)
    (hdc : p ^ α - 1 = d * 2 ^ c) (S : Finset (ZMod (p ^ α))ˣ) (hS : ∀ u ∈ S, LiarU d c u) :
    4 * S.card ≤ p ^ α - 1 := by
  classical
  have : NeZero (p ^ α) := ⟨pow_ne_zero _ hp.ne_zero⟩
  have hcyc := ZMod.isCyclic_units_of_prime_pow p hp hp2 α
  have hp1 := hp.one_lt
  have hp3 : 3 ≤ p := by have := hp.two_le; omega
  have hpow1 : 1 ≤ p ^ α := Nat.one_le_pow _ _ (by omega)
  have hcard : Fintype.card (ZMod (p ^ α))ˣ = p ^ (α - 1) * (p - 1) := by
    rw [ZMod.card_units_eq_totient, Nat.totient_prime_pow hp (by omega)]
  -- every liar satisfies u^(p-1) = 1
  have hcop : Nat.Coprime (p ^ (α - 1)) (p ^ α - 1) := by
    apply Nat.Coprime.pow_left
    rw [Nat.Prime.coprime_iff_not_dvd hp]
    intro h
    have h3 : p ∣ p ^ α := dvd_pow_self p (by omega)
    have := Nat.dvd_sub h3 h
    rw [Nat.sub_sub_self hpow1] at this
    exact hp1.ne' (Nat.dvd_one.mp this)
  have hg : Nat.gcd (p ^ α - 1) (p ^ (α - 1) * (p - 1)) ∣ p - 1 := by
    rw [Nat.Coprime.gcd_mul_left_cancel_right _ hcop]
    exact Nat.gcd_dvd_right _ _
  have hpm : ∀ u ∈ S, u ^ (p - 1) = 1 := by
    intro u hu
    have h1 : u ^ (p ^ α - 1) = 1 := by rw [hdc]; exact (hS u hu).pow_eq_one
    have h2 : u ^ (p ^ (α - 1) * (p - 1)) = 1 := by rw [← hcard]; exact pow_card_eq_one
    have h3 := pow_gcd_eq_one.mpr ⟨h1, h2⟩
    obtain ⟨k, hk⟩ := hg
    rw [hk, pow_mul, h3, one_pow]
  have hsub : S ⊆ Finset.univ.filter (fun u : (ZMod (p ^ α))ˣ => u ^ (p - 1) = 1) := by
    intro u hu; simp [hpm u hu]
  have hle : S.card ≤ p - 1 :=
    (Finset.card_le_card hsub).trans (IsCyclic.card_pow_eq_one_le (by omega))
  -- 4 (p - 1) ≤ p^2 - 1 ≤ p^α - 1
  have hsq : p ^ 2 ≤ p ^ α := Nat.pow_le_pow_right (by omega) hα
  have : 4 * (p - 1) + 1 ≤ p ^ 2 := by
    obtain ⟨k, rfl⟩ : ∃ k, p = k + 3 := ⟨p - 3, by omega⟩
    ring_nf; omega
  omega

/-- the Rabin–Monier bound for units -/
theorem liarU_card_le (n : ℕ) [NeZero n] (hodd : Odd n) (hn1 : 1 < n) (hcomp : ¬ n.Prime)
    (d c : ℕ) (hd : Odd d) (hc : 1 ≤ c) (hdc : n - 1 = d * 2 ^ c)
    (S : Finset (ZMod n)ˣ) (hS : ∀ u ∈ S, LiarU d c u) : 4 * S.card ≤ n - 1 := by
  rcases composite_cases n hn1 hcomp with ⟨p, α, hp, hα, rfl⟩ | hB | hC
  · have hp2 : p ≠ 2 := by
      rintro rfl
      exact absurd (Even.pow_of_ne_zero even_two (by omega)) (Nat.not_even_iff_odd.mpr hodd)
    exact liarU_card_prime_pow p α hp hp2 hα d c hdc S hS
  · obtain ⟨p, q, α, β, hp, hq, hpq, hα, hβ, hn⟩ := hB
    obtain ⟨t, a₀, h2t, ha₀, hL⟩ := exists_t (n := n) d c hd hc hdc
    have hd1 : p ^ α ∣ n := Dvd.intro _ hn.symm
    have hd2 : q ^ β ∣ n := Dvd.intro_left _ hn.symm
    have g1 : 2 < p ^ α := odd_dvd_gt_two hodd hd1 (Nat.one_lt_pow (by omega) hp.one_lt)
    have g2 : 2 < q ^ β := odd_dvd_gt_two hodd hd2 (Nat.one_lt_pow (by omega) hq.one_lt)
    have hp2 : p ≠ 2 := by
      rintro rfl
      exact absurd (even_iff_two_dvd.mpr (dvd_trans (dvd_pow_self 2 (by omega)) hd1))
        (Nat.not_even_iff_odd.mpr hodd)
    have hq2 : q ≠ 2 := by
      rintro rfl
      exact absurd (even_iff_two_dvd.mpr (dvd_trans (dvd_pow_self 2 (by omega)) hd2))
        (Nat.not_even_iff_odd.mpr hodd)
    have hcop : (p ^ α).Coprime (q ^ β) :=
      Nat.Coprime.pow _ _ ((Nat.coprime_primes hp hq).mpr (by omega))
    have hw : ∃ w : (ZMod n)ˣ, ¬ (w ∈ P hd1 t ∧ w ∈ P hd2 t) := by
      rcases two_primes_not_carmichael p q α β hp hq hp2 hq2 hpq hα hβ with h | h
      · rw [← hn] at h
        obtain ⟨w, hw⟩ := exists_not_mem_P_of_exponent hd1 t h2t h
        exact ⟨w, fun hh => hw hh.1⟩
      · rw [← hn] at h
        obtain ⟨w, hw⟩ := exists_not_mem_P_of_exponent hd2 t h2t h
        exact ⟨w, fun hh => hw hh.2⟩
    obtain ⟨w, hw⟩ := hw
    have key := quarter_of_split hn.symm hcop g1 g2 t a₀ ha₀ w hw
    have h1 := card_le_of_subset_subgroup S (P (dvd_refl n) t) (fun u hu => hL u (hS u hu))
    have h2 := card_units_le (n := n) hn1
    omega
  · obtain ⟨m₁, k₁, k₂, hn, hc1, hc2, l1, l2, l3⟩ := hC
    obtain ⟨t, a₀, h2t, ha₀, hL⟩ := exists_t (n := n) d c hd hc hdc
    have hd1 : m₁ ∣ n := Dvd.intro _ hn.symm
    have hd2 : k₁ * k₂ ∣ n := Dvd.intro_left _ hn.symm
    have hk1 : k₁ ∣ n := dvd_trans (Dvd.intro _ rfl) hd2
    have hk2 : k₂ ∣ n := dvd_trans (Dvd.intro_left _ rfl) hd2
    have g1 : 2 < m₁ := odd_dvd_gt_two hodd hd1 l1
    have gk1 : 2 < k₁ := odd_dvd_gt_two hodd hk1 l2
    have gk2 : 2 < k₂ := odd_dvd_gt_two hodd hk2 l3
    have g2 : 2 < k₁ * k₂ := by nlinarith
    obtain ⟨w, _, _, hw⟩ := split_strict hk1 hk2 hc2 gk1 gk2 t a₀ ha₀ hd2
    have key := quarter_of_split hn.symm hc1 g1 g2 t a₀ ha₀ w (fun hh => hw hh.2)
    have h1 := card_le_of_subset_subgroup S (P (dvd_refl n) t) (fun u hu => hL u (hS u hu))
    have h2 := card_units_le (n := n) hn1
    omega

end NTV.RM
