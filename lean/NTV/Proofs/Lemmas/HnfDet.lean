import NTV.Proofs.Lemmas.HnfCanon
import Mathlib.LinearAlgebra.Matrix.Block
namespace NTV.Hnf
open Matrix Finset

/-- a strictly increasing list of n naturals below n is 0, 1, …, n−1 -/
theorem pairwise_lt_eq_id (pv : List Nat) (n : Nat) (hlen : pv.length = n) (hinc : pv.Pairwise (· < ·))
    (hlt : ∀ p ∈ pv, p < n) : ∀ t (ht : t < pv.length), pv[t] = t := by
  have hmono : ∀ s t (hs : s < pv.length) (ht : t < pv.length), s < t → pv[s] < pv[t] :=
    fun s t hs ht hst => List.pairwise_iff_getElem.mp hinc s t hs ht hst
  have hge : ∀ t (ht : t < pv.length), t ≤ pv[t] := by
    intro t
    induction t with
    | zero => intro _; omega
    | succ t ih =>
      intro ht
      have := ih (by omega)
      have := hmono t (t + 1) (by omega) ht (by omega)
      omega
  have hle : ∀ d t (ht : t < pv.length), t + d + 1 = n → pv[t] ≤ t := by
    intro d
    induction d with
    | zero =>
      intro t ht htn
      have := hlt pv[t] (List.getElem_mem ht)
      omega
    | succ d ih =>
      intro t ht htn
      have h1 := ih (t + 1) (by omega) (by omega)
      have := hmono t (t + 1) ht (by omega) (by omega)
      omega
  intro t ht
  have := hge t ht
  have := hle (n - t - 1) t ht (by omega)
  omega

theorem foldl_mul_eq_prod (f : Nat → Int) (n : Nat) :
    (List.range n).foldl (fun p i => p * f i) 1 = ∏ i ∈ range n, f i := by
  induction n with
  | zero => simp
  | succ n ih => rw [List.range_succ, List.foldl_append, ih, Finset.prod_range_succ]; simp

/-- C02: for a square matrix of full rank the determinant reported for its normal form is the lattice
index |det A| -/
theorem determinant_eq_index (A : Mat) (n : Nat) (hr : Rect n n A) (hn : 0 < n)
    (H U : Mat) (hres : hnfWithU A = some (H, U, 0)) :
    determinant H = |(toM n n A).det| := by
  obtain ⟨W, pv, R⟩ := Result.of_spec A n n hr hn hn H U 0 hres
  have hHW : H = W := by rw [R.hH]; simp
  have hrH : Rect n n H := by rw [hHW]; exact R.rW
  have hpvlen : pv.length = n := by rw [R.lenPv]; omega
  have hpv := pairwise_lt_eq_id pv n hpvlen R.shape.incr R.shape.lt
  -- lower triangular with positive diagonal
  have hlow : ∀ i j : Fin n, i.val < j.val → toM n n H i j = 0 := by
    intro i j hij
    have hi : i.val < pv.length := by rw [hpvlen]; exact i.isLt
    have := R.shape.last i.val hi j.val (by rw [hpv i.val hi]; exact hij) j.isLt
    simpa [toM] using this
  have hdiag : ∀ i : Fin n, 0 < toM n n H i i := by
    intro i
    have hi : i.val < pv.length := by rw [hpvlen]; exact i.isLt
    have := R.shape.pos i.val hi
    rw [hpv i.val hi] at this
    simpa [toM] using this
  have hdetH : (toM n n H).det = ∏ i : Fin n, toM n n H i i := by
    apply det_of_lowerTriangular
    intro i j hij
    exact hlow i j hij
  have hmodel : determinant H = ∏ i : Fin n, toM n n H i i := by
    have hdim : dim H = deg H := by
      unfold dim deg
      cases hH : H with
      | nil => rw [hH] at hrH; have := hrH.1; simp at this; omega
      | cons r rs =>
        have h1 : (r :: rs).length = n := by rw [← hH]; exact hrH.1
        have h2 : r.length = n := hrH.2 r (by rw [hH]; simp)
        simp only; omega
    unfold determinant
    simp only [hdim, ne_eq, not_true_eq_false, ↓reduceIte]
    rw [foldl_mul_eq_prod (fun i => ent H i i) H.length, hrH.1,
      ← Fin.prod_univ_eq_prod_range (fun i => ent H i i) n]
    rfl
  have hpos : 0 < (toM n n H).det := by rw [hdetH]; exact Finset.prod_pos (fun i _ => hdiag i)
  -- det U * det A = det H with det U = ±1
  have hmul : (toM n n U).det * (toM n n A).det = (toM n n H).det := by
    rw [← Matrix.det_mul, R.ua, hHW]
  rw [hmodel, ← hdetH]
  rcases Int.isUnit_iff.mp R.det with hu | hu
  · rw [hu, one_mul] at hmul
    rw [hmul, abs_of_pos hpos]
  · rw [hu] at hmul
    have : (toM n n A).det = -(toM n n H).det := by linarith
    rw [this, abs_neg, abs_of_pos hpos]

end NTV.Hnf
