import NTV.Proofs.Lemmas.HnfProofs
import NTV.Proofs.Lemmas.FloorDivProofs
namespace NTV.Hnf

/-! ### entry-level effect of the row operations -/

theorem ent_subMulRow {n m : Nat} {a : Mat} (hr : Rect n m a) (j k : Nat) (hj : j < n) (hk : k < n)
    (q : Int) (r c : Nat) :
    ent (subMulRow a j k q) r c = if r = j then ent a j c - ent a k c * q else ent a r c := by
  have hj' : j < a.length := by rw [hr.1]; exact hj
  have hlen : (a.getD j []).length = (a.getD k []).length := by
    rw [hr.row_length j hj, hr.row_length k hk]
  unfold subMulRow
  rw [ent_modify]
  by_cases h : r = j
  · subst h
    simp only [hj', and_self, ↓reduceIte]
    rw [getD_rowSubMul _ _ _ _ hlen]; rfl
  · simp [h]

theorem ent_negRow (a : Mat) (k r c : Nat) (hk : k < a.length) :
    ent (negRow a k) r c = if r = k then - ent a k c else ent a r c := by
  unfold negRow
  rw [ent_modify]
  by_cases h : r = k
  · subst h
    simp only [hk, and_self, ↓reduceIte]
    unfold ent
    simp only [List.getD_eq_getElem?_getD, List.getElem?_map]
    cases (a[r]?.getD [])[c]? <;> simp
  · simp [h]

/-! ### folds of `subMul` over a list of distinct target rows -/

/-- Generic description of a fold that subtracts multiples of the fixed row `k` from the rows in `l`
(pairwise distinct, all different from `k`): untouched rows keep their entries, touched rows `j` become
`row j - q(j) * row k` where the multiplier was computed from the *original* row j. -/
theorem foldl_subMul_ent {n m : Nat} (k i : Nat) (hk : k < n) (b : Int) (l : List Nat)
    (hl : ∀ j ∈ l, j < n ∧ j ≠ k) (hnd : l.Nodup) (s : St) (hr : Rect n m s.a) :
    let s' := l.foldl (fun s j => s.subMul j k (floorDiv (ent s.a j i) b)) s
    Rect n m s'.a ∧ ∀ r c, ent s'.a r c =
      if r ∈ l then ent s.a r c - ent s.a k c * floorDiv (ent s.a r i) b else ent s.a r c := by
  induction l generalizing s with
  | nil => simp [hr]
  | cons j js ih =>
    simp only [List.foldl_cons]
    have hj := hl j (by simp)
    have hnd' := List.nodup_cons.mp hnd
    set s1 := s.subMul j k (floorDiv (ent s.a j i) b) with hs1
    have hr1 : Rect n m s1.a := hr.subMulRow j k hk _
    have e1 : ∀ r c, ent s1.a r c = if r = j then ent s.a j c - ent s.a k c * floorDiv (ent s.a j i) b else ent s.a r c :=
      fun r c => ent_subMulRow hr j k hj.1 hk _ r c
    obtain ⟨hr', h'⟩ := ih (fun x hx => hl x (by simp [hx])) hnd'.2 s1 hr1
    refine ⟨hr', ?_⟩
    intro r c
    rw [h' r c]
    by_cases hrj : r = j
    · subst hrj
      have : r ∉ js := hnd'.1
      simp only [this, ↓reduceIte, List.mem_cons, true_or]
      rw [e1]; simp
    · simp only [List.mem_cons, hrj, false_or]
      by_cases hrin : r ∈ js
      · simp only [hrin, ↓reduceIte]
        rw [e1 r c, e1 k c, e1 r i]
        have hkj : ¬ k = j := fun e => hj.2 e.symm
        simp [hrj, hkj]
      · simp only [hrin, ↓reduceIte]
        rw [e1]; simp [hrj]

theorem reduceAbove_ent {n m : Nat} (s : St) (hr : Rect n m s.a) (k i : Nat) (hk : k < n) :
    Rect n m (reduceAbove s k i).a ∧ ∀ r c, ent (reduceAbove s k i).a r c =
      if r < k then ent s.a r c - ent s.a k c * floorDiv (ent s.a r i) (ent s.a k i) else ent s.a r c := by
  unfold reduceAbove
  have := foldl_subMul_ent (n := n) (m := m) k i hk (ent s.a k i) (List.range k)
    (by intro j hj; simp at hj; omega) (List.nodup_range) s hr
  simp only at this ⊢
  refine ⟨this.1, ?_⟩
  intro r c
  rw [this.2 r c]; simp

theorem reduceBelow_ent {n m : Nat} (s : St) (hr : Rect n m s.a) (k i : Nat) (hk : k < n) :
    Rect n m (reduceBelow s k i n).a ∧ ∀ r c, ent (reduceBelow s k i n).a r c =
      if k < r ∧ r < n then ent s.a r c - ent s.a k c * floorDiv (ent s.a r i) (ent s.a k i) else ent s.a r c := by
  unfold reduceBelow
  have hmap : ∀ (l : List Nat) (s : St),
      l.foldl (fun s t => let j := k + 1 + t; s.subMul j k (floorDiv (ent s.a j i) (ent s.a k i))) s
        = l.foldl (fun s t => let j := k + 1 + t; s.subMul j k (floorDiv (ent s.a j i) (ent s.a k i))) s := fun _ _ => rfl
  have key : ∀ (b : Int) (l : List Nat) (s0 : St),
      l.foldl (fun s t => let j := k + 1 + t; s.subMul j k (floorDiv (ent s.a j i) b)) s0
        = (l.map (fun t => k + 1 + t)).foldl (fun s j => s.subMul j k (floorDiv (ent s.a j i) b)) s0 := by
    intro b l; induction l with
    | nil => intro s0; rfl
    | cons t ts ih => intro s0; simp only [List.foldl_cons, List.map_cons]; exact ih _
  simp only
  rw [key]
  have := foldl_subMul_ent (n := n) (m := m) k i hk (ent s.a k i) ((List.range (n - (k + 1))).map (fun t => k + 1 + t))
    (by intro j hj; simp at hj; obtain ⟨t, ht, rfl⟩ := hj; omega)
    (by apply List.Nodup.map _ List.nodup_range; intro a b h; simpa using h) s hr
  simp only at this
  refine ⟨this.1, ?_⟩
  intro r c
  rw [this.2 r c]
  have : (r ∈ (List.range (n - (k + 1))).map (fun t => k + 1 + t)) ↔ (k < r ∧ r < n) := by
    simp only [List.mem_map, List.mem_range]
    constructor
    · rintro ⟨t, ht, rfl⟩; omega
    · intro h; exact ⟨r - (k + 1), by omega, by omega⟩
  simp only [this]

end NTV.Hnf

namespace NTV.Hnf

theorem allZeroAbove_iff (a : Mat) (k i : Nat) : allZeroAbove a k i = true ↔ ∀ j < k, ent a j i = 0 := by
  simp [allZeroAbove]

/-- What one pass of the inner loop guarantees about the `a` component. -/
structure InnerPost (n m : Nat) (s s' : St) (k i : Nat) : Prop where
  rect : Rect n m s'.a
  below : ∀ r, k < r → ∀ c, ent s'.a r c = ent s.a r c
  zerocol : ∀ c, (∀ r ≤ k, ent s.a r c = 0) → ∀ r ≤ k, ent s'.a r c = 0

theorem InnerPost.refl {n m s k i} (hr : Rect n m s.a) : InnerPost n m s s k i :=
  ⟨hr, fun _ _ _ => rfl, fun _ h => h⟩

theorem InnerPost.trans {n m s1 s2 s3 k i} (h12 : InnerPost n m s1 s2 k i) (h23 : InnerPost n m s2 s3 k i) :
    InnerPost n m s1 s3 k i :=
  ⟨h23.rect, fun r hr c => by rw [h23.below r hr c, h12.below r hr c],
   fun c h => h23.zerocol c (h12.zerocol c h)⟩

theorem InnerPost.neg {n m s k i} (hr : Rect n m s.a) (hk : k < n) : InnerPost n m s (s.neg k) k i := by
  have hk' : k < s.a.length := by rw [hr.1]; exact hk
  refine ⟨hr.negRow k, ?_, ?_⟩
  · intro r hrk c
    show ent (negRow s.a k) r c = _
    rw [ent_negRow _ _ _ _ hk']; simp; intro h; omega
  · intro c h r hrk
    show ent (negRow s.a k) r c = 0
    rw [ent_negRow _ _ _ _ hk']
    split
    · rw [h k (le_refl k)]; simp
    · exact h r hrk

theorem InnerPost.swap {n m s k i} (hr : Rect n m s.a) (hk : k < n) (j0 : Nat) (hj0 : j0 ≤ k) :
    InnerPost n m s (s.swap j0 k) k i := by
  have hk' : k < s.a.length := by rw [hr.1]; exact hk
  have hj' : j0 < s.a.length := by omega
  refine ⟨hr.swapRows j0 k (by omega) hk, ?_, ?_⟩
  · intro r hrk c
    show ent (swapRows s.a j0 k) r c = _
    rw [ent_swapRows _ _ _ _ _ hj' hk']
    have h1 : ¬ r = k := by omega
    have h2 : ¬ r = j0 := by omega
    simp [h1, h2]
  · intro c h r hrk
    show ent (swapRows s.a j0 k) r c = 0
    rw [ent_swapRows _ _ _ _ _ hj' hk']
    split
    · exact h j0 hj0
    · split
      · exact h k (le_refl k)
      · exact h r hrk

theorem InnerPost.reduceAbove {n m s k i} (hr : Rect n m s.a) (hk : k < n) :
    InnerPost n m s (reduceAbove s k i) k i := by
  obtain ⟨hr', he⟩ := reduceAbove_ent s hr k i hk
  refine ⟨hr', ?_, ?_⟩
  · intro r hrk c
    rw [he]; have : ¬ r < k := by omega
    simp [this]
  · intro c h r hrk
    rw [he]
    split
    · rw [h r hrk, h k (le_refl k)]; simp
    · exact h r hrk

theorem inner_post {n m : Nat} (fuel : Nat) (s s' : St) (k i : Nat) (hk : k < n) (hr : Rect n m s.a)
    (hres : inner fuel s k i = some s') :
    InnerPost n m s s' k i ∧ (∀ r < k, ent s'.a r i = 0) ∧ 0 ≤ ent s'.a k i := by
  induction fuel generalizing s with
  | zero => simp [inner] at hres
  | succ f ih =>
    unfold inner at hres
    split at hres
    · rename_i hz
      rw [allZeroAbove_iff] at hz
      simp only [Option.some.injEq] at hres
      subst hres
      have hk' : k < s.a.length := by rw [hr.1]; exact hk
      split
      · rename_i hneg
        refine ⟨InnerPost.neg hr hk, ?_, ?_⟩
        · intro r hrk
          show ent (negRow s.a k) r i = 0
          rw [ent_negRow _ _ _ _ hk']
          have : ¬ r = k := by omega
          simp [this, hz r hrk]
        · show 0 ≤ ent (negRow s.a k) k i
          rw [ent_negRow _ _ _ _ hk']; simp; omega
      · rename_i hneg
        exact ⟨InnerPost.refl hr, hz, by omega⟩
    · have hp := pickPivot_le s.a k i
      have h1 : InnerPost n m s (s.swap (pickPivot s.a k i) k) k i := InnerPost.swap hr hk _ hp
      have h2 : InnerPost n m (s.swap (pickPivot s.a k i) k) (reduceAbove (s.swap (pickPivot s.a k i) k) k i) k i :=
        InnerPost.reduceAbove h1.rect hk
      obtain ⟨h3, hz, hpos⟩ := ih _ h2.rect hres
      exact ⟨(h1.trans h2).trans h3, hz, hpos⟩

end NTV.Hnf

namespace NTV.Hnf

def ZeroBefore (a : Mat) (hi c m : Nat) : Prop := ∀ r < hi, ∀ col, c ≤ col → col < m → ent a r col = 0

/-- Rows `lo .. n-1` are finished pivot rows whose pivot columns are `pv` (in row order). -/
structure BlockFrom (a : Mat) (n m lo c : Nat) (pv : List Nat) : Prop where
  len : pv.length = n - lo
  lo_le : lo ≤ n
  incr : pv.Pairwise (· < ·)
  ge : ∀ p ∈ pv, c ≤ p ∧ p < m
  piv : ∀ t (ht : t < pv.length), 0 < ent a (lo + t) pv[t] ∧
        (∀ col, pv[t] < col → col < m → ent a (lo + t) col = 0) ∧
        (∀ r', lo + t < r' → r' < n → 0 ≤ ent a r' pv[t] ∧ ent a r' pv[t] < ent a (lo + t) pv[t])

theorem BlockFrom.weaken {a n m lo c c' pv} (h : BlockFrom a n m lo c pv) (hc : c' ≤ c) :
    BlockFrom a n m lo c' pv :=
  ⟨h.len, h.lo_le, h.incr, fun p hp => ⟨by have := (h.ge p hp).1; omega, (h.ge p hp).2⟩, h.piv⟩

/-- A block only depends on rows `≥ lo` and columns `≥ c`. -/
theorem BlockFrom.congr {a a' n m lo c pv} (h : BlockFrom a n m lo c pv)
    (he : ∀ r, lo ≤ r → ∀ col, c ≤ col → ent a' r col = ent a r col) : BlockFrom a' n m lo c pv := by
  refine ⟨h.len, h.lo_le, h.incr, h.ge, ?_⟩
  intro t ht
  obtain ⟨h1, h2, h3⟩ := h.piv t ht
  have hp := h.ge pv[t] (List.getElem_mem ht)
  refine ⟨by rw [he _ (by omega) _ hp.1]; exact h1, ?_, ?_⟩
  · intro col hc hm; rw [he _ (by omega) _ (by omega)]; exact h2 col hc hm
  · intro r' hr' hn
    rw [he _ (by omega) _ hp.1, he _ (by omega) _ hp.1]; exact h3 r' hr' hn

/-- Effect of steps 2-5 on the shape invariant. -/
theorem stepCol_shape {n m : Nat} (s s' : St) (k k' i : Nat) (pv : List Nat)
    (hk : k < n) (him : i < m) (hr : Rect n m s.a)
    (hz : ZeroBefore s.a (k + 1) (i + 1) m) (hb : BlockFrom s.a n m (k + 1) (i + 1) pv)
    (hres : stepCol n s k i = some (s', k')) :
    ∃ pv', Rect n m s'.a ∧ ZeroBefore s'.a k' i m ∧ BlockFrom s'.a n m k' i pv' ∧ (k' = k ∨ k' = k + 1) := by
  unfold stepCol at hres
  split at hres
  · exact absurd hres (by simp)
  · rename_i s1 hin
    obtain ⟨hp, hz0, hpos⟩ := inner_post _ _ _ k i hk hr hin
    have hz1 : ZeroBefore s1.a (k + 1) (i + 1) m := by
      intro r hrk col hc hm
      exact hp.zerocol col (fun r' hr' => hz r' (by omega) col hc hm) r (by omega)
    have hb1 : BlockFrom s1.a n m (k + 1) (i + 1) pv :=
      hb.congr (fun r hrk col _ => hp.below r (by omega) col)
    simp only [Option.some.injEq] at hres
    by_cases hzero : ent s1.a k i = 0
    · simp only [hzero, beq_self_eq_true, ↓reduceIte, Prod.mk.injEq] at hres
      obtain ⟨rfl, rfl⟩ := hres
      refine ⟨pv, hp.rect, ?_, hb1.weaken (by omega), Or.inr rfl⟩
      intro r hrk col hc hm
      by_cases hcol : col = i
      · subst hcol
        by_cases hrk' : r = k
        · subst hrk'; exact hzero
        · exact hz0 r (by omega)
      · exact hz1 r hrk col (by omega) hm
    · have hz' : (ent s1.a k i == 0) = false := by simpa using hzero
      simp only [hz', Bool.false_eq_true, ↓reduceIte, Prod.mk.injEq] at hres
      obtain ⟨rfl, rfl⟩ := hres
      have hpos' : 0 < ent s1.a k i := by omega
      obtain ⟨hr2, he⟩ := reduceBelow_ent s1 hp.rect k i hk
      -- row k vanishes on columns > i
      have hkrow : ∀ col, i < col → col < m → ent s1.a k col = 0 :=
        fun col hc hm => hz1 k (by omega) col (by omega) hm
      refine ⟨i :: pv, hr2, ?_, ?_, Or.inl rfl⟩
      · intro r hrk col hc hm
        rw [he]
        have : ¬ (k < r ∧ r < n) := by omega
        simp only [this, ↓reduceIte]
        by_cases hcol : col = i
        · subst hcol; exact hz0 r hrk
        · exact hz1 r (by omega) col (by omega) hm
      · have hlen : (i :: pv).length = n - k := by simp [hb1.len]; omega
        refine ⟨hlen, by omega, ?_, ?_, ?_⟩
        · rw [List.pairwise_cons]
          exact ⟨fun p hp' => by have := (hb1.ge p hp').1; omega, hb1.incr⟩
        · intro p hp'
          rcases List.mem_cons.mp hp' with rfl | hp''
          · exact ⟨le_refl _, him⟩
          · have := hb1.ge p hp''; exact ⟨by omega, this.2⟩
        · intro t ht
          cases t with
          | zero =>
            simp only [List.getElem_cons_zero, Nat.add_zero]
            refine ⟨?_, ?_, ?_⟩
            · rw [he]; have : ¬ (k < k ∧ k < n) := by omega
              simp only [this, ↓reduceIte]; exact hpos'
            · intro col hc hm
              rw [he]; have : ¬ (k < k ∧ k < n) := by omega
              simp only [this, ↓reduceIte]; exact hkrow col hc hm
            · intro r' hr' hn
              rw [he r' i, he k i]
              have h1 : (k < r' ∧ r' < n) := ⟨hr', hn⟩
              have h2 : ¬ (k < k ∧ k < n) := by omega
              simp only [h1, h2, and_self, ↓reduceIte]
              have := floorDiv_rem_pos (ent s1.a r' i) (ent s1.a k i) hpos'
              constructor <;> nlinarith [this.1, this.2]
          | succ t =>
            have ht' : t < pv.length := by simpa using ht
            obtain ⟨h1, h2, h3⟩ := hb1.piv t ht'
            have hp' := hb1.ge pv[t] (List.getElem_mem ht')
            have hrow : ∀ r, k + 1 ≤ r → ∀ col, i + 1 ≤ col → col < m → ent (reduceBelow s1 k i n).a r col = ent s1.a r col := by
              intro r hr col hc hm
              rw [he]
              split
              · rw [hkrow col (by omega) hm]; simp
              · rfl
            simp only [List.getElem_cons_succ]
            have e : k + (t + 1) = k + 1 + t := by omega
            rw [e]
            refine ⟨by rw [hrow _ (by omega) _ hp'.1 hp'.2]; exact h1, ?_, ?_⟩
            · intro col hc hm; rw [hrow _ (by omega) _ (by omega) hm]; exact h2 col hc hm
            · intro r' hr' hn
              rw [hrow _ (by omega) _ hp'.1 hp'.2, hrow _ (by omega) _ hp'.1 hp'.2]
              exact h3 r' hr' hn

theorem outer_shape {n m : Nat} (c : Nat) (s s' : St) (k k' : Nat) (pv : List Nat)
    (hk : k < n) (hcm : c + 1 ≤ m) (hr : Rect n m s.a)
    (hz : ZeroBefore s.a (k + 1) (c + 1) m) (hb : BlockFrom s.a n m (k + 1) (c + 1) pv)
    (hres : outer n (c + 1) s k = some (s', k')) :
    ∃ pv', Rect n m s'.a ∧ ZeroBefore s'.a k' 0 m ∧ BlockFrom s'.a n m k' 0 pv' ∧ k' ≤ n := by
  induction c generalizing s k pv with
  | zero =>
    unfold outer at hres
    split at hres
    · exact absurd hres (by simp)
    · rename_i s2 k2 hstep
      obtain ⟨pv', hr2, hz2, hb2, hk2⟩ := stepCol_shape _ _ _ _ _ pv hk (by omega) hr hz hb hstep
      simp only [beq_self_eq_true, Bool.or_true, ↓reduceIte, Option.some.injEq, Prod.mk.injEq] at hres
      obtain ⟨rfl, rfl⟩ := hres
      exact ⟨pv', hr2, hz2, hb2, by omega⟩
  | succ c ih =>
    unfold outer at hres
    split at hres
    · exact absurd hres (by simp)
    · rename_i s2 k2 hstep
      obtain ⟨pv', hr2, hz2, hb2, hk2⟩ := stepCol_shape _ _ _ _ _ pv hk (by omega) hr hz hb hstep
      split at hres
      · rename_i hex
        simp only [Option.some.injEq, Prod.mk.injEq] at hres
        obtain ⟨rfl, rfl⟩ := hres
        simp only [Bool.or_eq_true, beq_iff_eq] at hex
        have hk0 : k2 = 0 := by omega
        subst hk0
        exact ⟨pv', hr2, fun r hr' => absurd hr' (by omega), hb2.weaken (by omega), by omega⟩
      · rename_i hne
        simp only [Bool.or_eq_true, beq_iff_eq, not_or] at hne
        have e : k2 - 1 + 1 = k2 := by omega
        exact ih _ _ pv' (by omega) (by omega) hr2 (by rw [e]; exact hz2) (by rw [e]; exact hb2) hres

end NTV.Hnf

namespace NTV.Hnf
open Matrix

/-- The normal form of the property statement, for a list of rows `H` with `m` columns:
`pv` lists the pivot column of each row. -/
structure IsHNF (H : Mat) (m : Nat) (pv : List Nat) : Prop where
  len : pv.length = H.length
  incr : pv.Pairwise (· < ·)
  lt : ∀ p ∈ pv, p < m
  pos : ∀ t (ht : t < pv.length), 0 < ent H t pv[t]
  last : ∀ t (ht : t < pv.length), ∀ col, pv[t] < col → col < m → ent H t col = 0
  below : ∀ t (ht : t < pv.length), ∀ t', t < t' → t' < H.length →
            0 ≤ ent H t' pv[t] ∧ ent H t' pv[t] < ent H t pv[t]

theorem ent_drop (W : Mat) (k t c : Nat) : ent (W.drop k) t c = ent W (k + t) c := by
  unfold ent; simp [List.getD_eq_getElem?_getD, List.getElem?_drop]

/-- C02/C03 core (prototype): shape of the result of the `hnf_with_u` model, for every rectangular
input with at least one row and one column. -/
theorem hnfWithU_spec (A : Mat) (n m : Nat) (hr : Rect n m A) (hn : 0 < n) (hm : 0 < m)
    (H U : Mat) (k : Nat) (hres : hnfWithU A = some (H, U, k)) :
    ∃ W pv, Rect n m W ∧ Rect n n U ∧ H = W.drop k ∧ k ≤ n ∧
      toM n n U * toM n m A = toM n m W ∧ IsUnit (toM n n U).det ∧
      (∀ r < k, ∀ c < m, ent W r c = 0) ∧ IsHNF H m pv := by
  unfold hnfWithU at hres
  cases A with
  | nil => simp [Rect] at hr; omega
  | cons r0 rs =>
    simp only at hres
    have hlen : (r0 :: rs).length = n := hr.1
    have hm' : r0.length = m := hr.2 r0 (by simp)
    rw [hlen, hm'] at hres
    split at hres
    · exact absurd hres (by simp)
    · rename_i s k' hout
      simp only [Option.some.injEq, Prod.mk.injEq] at hres
      obtain ⟨rfl, rfl, rfl⟩ := hres
      have h0 : Inv n m (toM n m (r0 :: rs)) ⟨r0 :: rs, idMat n⟩ :=
        ⟨hr, Rect_idMat n, by simp [toM_idMat], by simp [toM_idMat]⟩
      obtain ⟨hI, hk⟩ := outer_Inv m _ _ (n - 1) _ (by omega) h0 hout
      obtain ⟨c, rfl⟩ : ∃ c, m = c + 1 := ⟨m - 1, by omega⟩
      have e : n - 1 + 1 = n := by omega
      obtain ⟨pv, hr2, hz2, hb2, _⟩ := outer_shape (n := n) (m := c + 1) c ⟨r0 :: rs, idMat n⟩ s (n - 1) k' []
        (by omega) (le_refl _) hr
        (by intro r _ col hc hm; omega)
        (by rw [e]; exact ⟨by simp, le_refl n, List.Pairwise.nil, by simp, by simp⟩) hout
      refine ⟨s.a, pv, hI.ra, hI.ru, rfl, hk, hI.ua, hI.det, ?_, ?_⟩
      · intro r hrk col hc; exact hz2 r hrk col (Nat.zero_le _) hc
      · have hlenH : (s.a.drop k').length = n - k' := by simp [hI.ra.1]
        refine ⟨by rw [hlenH]; exact hb2.len, hb2.incr, fun p hp => (hb2.ge p hp).2, ?_, ?_, ?_⟩
        · intro t ht; rw [ent_drop]; exact (hb2.piv t ht).1
        · intro t ht col hc hcm; rw [ent_drop]; exact (hb2.piv t ht).2.1 col hc hcm
        · intro t ht t' htt' ht'
          rw [ent_drop, ent_drop]
          rw [hlenH] at ht'
          exact (hb2.piv t ht).2.2 (k' + t') (by omega) (by omega)

end NTV.Hnf
