import NTV.Model.Prime
import Mathlib.FieldTheory.Finite.Basic
import Mathlib.Data.ZMod.Basic
import Mathlib.Tactic
namespace NTV.Prime

theorem splitTwos_spec (fuel d c : Nat) :
    (splitTwos fuel d c).1 * 2 ^ (splitTwos fuel d c).2 = d * 2 ^ c ∧ c ≤ (splitTwos fuel d c).2 := by
  induction fuel generalizing d c with
  | zero => simp [splitTwos]
  | succ f ih =>
    unfold splitTwos
    split
    · rename_i h
      simp only [Bool.and_eq_true, beq_iff_eq, bne_iff_ne, ne_eq] at h
      obtain ⟨h1, h2⟩ := ih (d / 2) (c + 1)
      refine ⟨?_, by omega⟩
      rw [h1, pow_succ]
      have : d = 2 * (d / 2) := by omega
      calc d / 2 * (2 ^ c * 2) = (2 * (d / 2)) * 2 ^ c := by ring
        _ = d * 2 ^ c := by rw [← this]
    · simp

theorem cast_eq_of_lt (p a b : Nat) (ha : a < p) (hb : b < p) (h : (a : ZMod p) = (b : ZMod p)) : a = b := by
  rw [ZMod.natCast_eq_natCast_iff'] at h
  rwa [Nat.mod_eq_of_lt ha, Nat.mod_eq_of_lt hb] at h

/-- Loop invariant for a prime modulus: starting from tmp ≠ 1 with tmp^(2^c) = 1 in ZMod p,
the loop answers `some true` (the `aborted` exit), never "witness found". -/
theorem mrLoop_prime (p : Nat) [hp : Fact p.Prime] (hp2 : 2 < p) (c tmp : Nat) (hlt : tmp < p)
    (h1 : (tmp : ZMod p) ≠ 1) (hpow : (tmp : ZMod p) ^ (2 ^ c) = 1) :
    (mrLoop p c tmp).1 = some true := by
  induction c generalizing tmp with
  | zero => simp at hpow; exact absurd hpow h1
  | succ c ih =>
    unfold mrLoop
    by_cases hm : tmp = p - 1
    · simp [hm]
    · have hb : (tmp == p - 1) = false := by simpa using hm
      simp only [hb, Bool.false_eq_true, ↓reduceIte]
      have hsq : ((tmp * tmp % p : Nat) : ZMod p) = (tmp : ZMod p) ^ 2 := by
        rw [ZMod.natCast_mod]; push_cast; ring
      have hm1 : (tmp : ZMod p) ≠ -1 := by
        intro h
        apply hm
        apply cast_eq_of_lt p _ _ hlt (by omega)
        rw [h, Nat.cast_sub (by omega)]; simp
      have hne1 : ((tmp * tmp % p : Nat) : ZMod p) ≠ 1 := by
        rw [hsq]; intro h
        rcases sq_eq_one_iff.mp h with h | h
        · exact h1 h
        · exact hm1 h
      have hne1' : (tmp * tmp % p == 1) = false := by
        simp only [beq_eq_false_iff_ne, ne_eq]
        intro h; apply hne1; rw [h]; simp
      simp only [hne1', Bool.false_eq_true, ↓reduceIte]
      apply ih _ (Nat.mod_lt _ (by omega)) hne1
      rw [hsq, ← pow_mul, ← pow_succ']; exact hpow

/-- C13 (one-sidedness), model level: a prime is never rejected, whatever base is drawn. -/
theorem mrRound_prime (p : Nat) [hp : Fact p.Prime] (hp2 : 2 < p) (r : Nat) (hr1 : 1 ≤ r) (hr : r < p) :
    let dc := splitTwos p (p - 1) 0
    mrRound p dc.1 dc.2 r = true := by
  intro dc
  obtain ⟨hdc, _⟩ := splitTwos_spec p (p - 1) 0
  simp only [pow_zero, mul_one] at hdc
  unfold mrRound
  simp only
  by_cases h1 : r ^ dc.1 % p = 1
  · simp [h1]
  · have hb : (r ^ dc.1 % p == 1) = false := by simpa using h1
    simp only [hb, Bool.false_eq_true, ↓reduceIte]
    have hr0 : (r : ZMod p) ≠ 0 := by
      intro h
      have := (ZMod.natCast_eq_zero_iff r p).mp h
      exact absurd (Nat.le_of_dvd (by omega) this) (by omega)
    have hcast : ((r ^ dc.1 % p : Nat) : ZMod p) = (r : ZMod p) ^ dc.1 := by
      rw [ZMod.natCast_mod]; push_cast; rfl
    have key := mrLoop_prime p hp2 dc.2 (r ^ dc.1 % p) (Nat.mod_lt _ (by omega))
      (by intro h; apply h1; exact cast_eq_of_lt p _ _ (Nat.mod_lt _ (by omega)) (by omega) (by rw [h]; simp))
      (by rw [hcast, ← pow_mul, hdc]; exact ZMod.pow_card_sub_one_eq_one hr0)
    generalize mrLoop p dc.2 (r ^ dc.1 % p) = res at key
    obtain ⟨v, t⟩ := res
    simp only at key
    subst key
    rfl

end NTV.Prime

namespace NTV.Prime

/-- C13, one-sided error, top level: for a prime `n`, the model of `is_prime` answers `true`
for every list of bases drawn from `[1, n)` (any number of rounds, any history). -/
theorem isPrimeWith_prime (n : Nat) (hn : n.Prime) (bases : List Nat)
    (hb : ∀ r ∈ bases, 1 ≤ r ∧ r < n) : isPrimeWith (n : Int) bases = true := by
  unfold isPrimeWith
  have h2 := hn.two_le
  have h1 : ¬ ((n : Int) ≤ 1) := by omega
  simp only [h1, ↓reduceIte]
  by_cases hn2 : n = 2
  · subst hn2; simp
  · have hne : ((n : Int) == 2) = false := by simp; omega
    simp only [hne, Bool.false_eq_true, ↓reduceIte]
    have hodd : n % 2 = 1 := by
      rcases Nat.Prime.eq_two_or_odd hn with h | h
      · exact absurd h hn2
      · exact h
    have hmod : (((n : Int) % 2) == 0) = false := by simp; omega
    simp only [hmod, Bool.false_eq_true, ↓reduceIte, Int.toNat_natCast]
    have : Fact n.Prime := ⟨hn⟩
    simp only [List.all_eq_true]
    intro r hr
    obtain ⟨hr1, hr2⟩ := hb r hr
    exact mrRound_prime n (by omega) r hr1 hr2

theorem isPrimeWith_le_one (n : Int) (hn : n ≤ 1) (bases : List Nat) : isPrimeWith n bases = false := by
  unfold isPrimeWith; simp [hn]

theorem isPrimeWith_even (n : Int) (hn : 2 < n) (he : n % 2 = 0) (bases : List Nat) :
    isPrimeWith n bases = false := by
  unfold isPrimeWith
  have h1 : ¬ (n ≤ 1) := by omega
  have h2 : (n == 2) = false := by simp; omega
  simp [h1, h2, he]

end NTV.Prime
