import NTV.Proofs.Lemmas.EnumCheckCS
import Mathlib.LinearAlgebra.Matrix.SchurComplement
/-! Checker soundness for `NTV.Spec.Enum` (C20), part 4: Sylvester's criterion over ℚ (not in Mathlib):
a symmetric rational matrix is positive definite iff all its leading principal minors are positive. -/
open Matrix
namespace NTV.EnumCheck

variable {n : Nat}

/-- leading principal `k × k` block -/
def lead (M : Matrix (Fin n) (Fin n) ℚ) (k : Nat) (hk : k ≤ n) : Matrix (Fin k) (Fin k) ℚ :=
  M.submatrix (Fin.castLE hk) (Fin.castLE hk)

section step
variable (M : Matrix (Fin (n + 1)) (Fin (n + 1)) ℚ)

/-- top-left block -/
def blkA : Matrix (Fin n) (Fin n) ℚ := M.submatrix Fin.castSucc Fin.castSucc
/-- last column without the corner -/
def blkB : Fin n → ℚ := fun i => M (Fin.castSucc i) (Fin.last n)
/-- the corner -/
def blkD : ℚ := M (Fin.last n) (Fin.last n)

theorem blkA_symm (hs : M.IsSymm) : (blkA M).IsSymm := by
  ext i j; exact hs.apply _ _

/-- the form in block coordinates -/
theorem qf_blocks (hs : M.IsSymm) (x : Fin (n + 1) → ℚ) :
    qf M x = qf (blkA M) (fun i => x (Fin.castSucc i))
      + 2 * x (Fin.last n) * (blkB M ⬝ᵥ fun i => x (Fin.castSucc i))
      + blkD M * x (Fin.last n) ^ 2 := by
  have hsym : ∀ j : Fin n, M (Fin.last n) (Fin.castSucc j) = M (Fin.castSucc j) (Fin.last n) :=
    fun j => hs.apply _ _
  unfold qf dotProduct mulVec dotProduct blkA blkB blkD
  simp only [Fin.sum_univ_castSucc, submatrix_apply, hsym]
  have e1 : ∀ (a s b t : ℚ), a * (s + b * t) = a * s + t * (b * a) := fun a s b t => by ring
  simp only [e1, Finset.sum_add_distrib, ← Finset.mul_sum]
  ring

/-- completing the square: with `A w = b`, `xᵀMx = (y + t w)ᵀA(y + t w) + t² (d − b·w)` -/
theorem qf_complete (hs : M.IsSymm) (w : Fin n → ℚ) (hw : blkA M *ᵥ w = blkB M) (x : Fin (n + 1) → ℚ) :
    qf M x = qf (blkA M) ((fun i => x (Fin.castSucc i)) + x (Fin.last n) • w)
      + x (Fin.last n) ^ 2 * (blkD M - blkB M ⬝ᵥ w) := by
  rw [qf_blocks M hs x, qf_add_smul (blkA M) (blkA_symm M hs)]
  have e1 : qf (blkA M) w = blkB M ⬝ᵥ w := by unfold qf; rw [hw, dotProduct_comm]
  rw [e1, hw, dotProduct_comm (blkB M)]
  ring

/-- Schur complement formula for the determinant (last row/column split off) -/
theorem det_blocks (hs : M.IsSymm) (hA : (blkA M).det ≠ 0) :
    M.det = (blkA M).det * (blkD M - blkB M ⬝ᵥ ((blkA M)⁻¹ *ᵥ blkB M)) := by
  have : Invertible (blkA M) := invertibleOfIsUnitDet _ (Ne.isUnit hA)
  have h0 : ∀ k : Fin 1, (finSumFinEquiv (m := n) (n := 1)) (Sum.inr k) = Fin.last n := by
    intro k; ext; simp [finSumFinEquiv]
  have h1 : ∀ i : Fin n, (finSumFinEquiv (m := n) (n := 1)) (Sum.inl i) = Fin.castSucc i := by
    intro i; ext; simp [finSumFinEquiv]
  have key : M.submatrix (finSumFinEquiv (m := n) (n := 1)) finSumFinEquiv =
      fromBlocks (blkA M) (of fun i (_ : Fin 1) => blkB M i) (of fun (_ : Fin 1) j => blkB M j)
        (of fun (_ : Fin 1) (_ : Fin 1) => blkD M) := by
    ext i j
    rcases i with i | i <;> rcases j with j | j <;>
      simp only [submatrix_apply, fromBlocks_apply₁₁, fromBlocks_apply₁₂, fromBlocks_apply₂₁,
        fromBlocks_apply₂₂, of_apply, h0, h1, blkA, blkB, blkD]
    exact hs.apply _ _
  rw [← det_submatrix_equiv_self (finSumFinEquiv (m := n) (n := 1)) M, key, det_fromBlocks₁₁]
  congr 1
  rw [det_unique, dotProduct_mulVec, invOf_eq_nonsing_inv]
  simp only [Matrix.sub_apply, Matrix.mul_apply, of_apply, vecMul, dotProduct]

theorem posDef_restrict (hs : M.IsSymm) (hp : PosDefQ M) : PosDefQ (blkA M) := by
  intro y hy
  have hne : (Fin.snoc (α := fun _ => ℚ) y (0 : ℚ) : Fin (n + 1) → ℚ) ≠ 0 := by
    intro h
    apply hy
    funext i
    have := congrFun h (Fin.castSucc i)
    simpa using this
  have := hp _ hne
  rw [qf_blocks M hs] at this
  simpa using this

/-- the induction step of Sylvester's criterion -/
theorem posDef_step (hs : M.IsSymm) (hpA : PosDefQ (blkA M)) (hdA : 0 < (blkA M).det) :
    PosDefQ M ↔ 0 < M.det := by
  have hA : (blkA M).det ≠ 0 := ne_of_gt hdA
  set w : Fin n → ℚ := (blkA M)⁻¹ *ᵥ blkB M with hwdef
  have hw : blkA M *ᵥ w = blkB M := by
    rw [hwdef, mulVec_mulVec, mul_nonsing_inv _ (Ne.isUnit hA), one_mulVec]
  have hdet : M.det = (blkA M).det * (blkD M - blkB M ⬝ᵥ w) := det_blocks M hs hA
  rw [hdet, mul_pos_iff_of_pos_left hdA]
  constructor
  · intro hp
    have hne : (Fin.snoc (α := fun _ => ℚ) (-w) (1 : ℚ) : Fin (n + 1) → ℚ) ≠ 0 := by
      intro h
      have := congrFun h (Fin.last n)
      simp at this
    have h := hp _ hne
    rw [qf_complete M hs w hw] at h
    have e0 : ((fun i => (Fin.snoc (α := fun _ => ℚ) (-w) (1 : ℚ) : Fin (n + 1) → ℚ) (Fin.castSucc i))
        + (Fin.snoc (α := fun _ => ℚ) (-w) (1 : ℚ) : Fin (n + 1) → ℚ) (Fin.last n) • w) = 0 := by
      funext i; simp
    rw [e0] at h
    simpa [qf] using h
  · intro hsp x hx
    rw [qf_complete M hs w hw]
    by_cases ht : x (Fin.last n) = 0
    · have hy : (fun i => x (Fin.castSucc i)) ≠ 0 := by
        intro h
        apply hx
        funext i
        refine Fin.lastCases ?_ (fun j => ?_) i
        · simpa using ht
        · simpa using congrFun h j
      rw [ht]
      simpa using hpA _ hy
    · have h1 := qf_nonneg (blkA M) hpA ((fun i => x (Fin.castSucc i)) + x (Fin.last n) • w)
      have h2 : 0 < x (Fin.last n) ^ 2 * (blkD M - blkB M ⬝ᵥ w) := mul_pos (by positivity) hsp
      linarith

end step

theorem lead_blkA (M : Matrix (Fin (n + 1)) (Fin (n + 1)) ℚ) (k : Nat) (hk : k ≤ n) :
    lead (blkA M) k hk = lead M k (Nat.le_succ_of_le hk) := by
  ext i j; rfl

theorem lead_self (M : Matrix (Fin n) (Fin n) ℚ) : lead M n le_rfl = M := by
  ext i j; rfl

/-- **Sylvester's criterion** over ℚ: a symmetric matrix is positive definite iff all its leading
principal minors are positive -/
theorem sylvester : ∀ (n : Nat) (M : Matrix (Fin n) (Fin n) ℚ), M.IsSymm →
    (PosDefQ M ↔ ∀ (k : Nat) (hk : k ≤ n), 0 < (lead M k hk).det) := by
  intro n
  induction n with
  | zero =>
    intro M _
    constructor
    · intro _ k hk
      have : k = 0 := by omega
      subst this
      simp
    · intro _ y hy
      exact absurd (Subsingleton.elim y 0) hy
  | succ n ih =>
    intro M hs
    have ihA := ih (blkA M) (blkA_symm M hs)
    constructor
    · intro hp
      have hpA := posDef_restrict M hs hp
      have hmin := ihA.mp hpA
      have hdA : 0 < (blkA M).det := by
        have := hmin n le_rfl
        rwa [lead_self] at this
      intro k hk
      by_cases hkn : k ≤ n
      · have := hmin k hkn
        rwa [lead_blkA] at this
      · have : k = n + 1 := by omega
        subst this
        rw [lead_self]
        exact (posDef_step M hs hpA hdA).mp hp
    · intro hmin
      have hpA : PosDefQ (blkA M) := by
        apply ihA.mpr
        intro k hk
        rw [lead_blkA]
        exact hmin k _
      have hdA : 0 < (blkA M).det := by
        have := hmin n (Nat.le_succ n)
        rwa [← lead_blkA M n le_rfl, lead_self] at this
      apply (posDef_step M hs hpA hdA).mpr
      have := hmin (n + 1) le_rfl
      rwa [lead_self] at this

end NTV.EnumCheck
