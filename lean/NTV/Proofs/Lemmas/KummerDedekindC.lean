import NTV.Proofs.Lemmas.DecompProofsB
import NTV.Proofs.Lemmas.KummerDedekindB
/-! # Kummer–Dedekind, part C: the commutative ring `Rt T = (ℤⁿ, +, ⋆)` of a multiplication table that
satisfies `TableRing`, and the dictionary ideals of `Rt T` ↔ lattices closed under `⋆` (`IsOIdeal`);
the model's `mul` is the ideal product. -/
namespace NTV.KD
open NTV.IdealP NTV.Ord NTV.Hnf

/-- ℤⁿ with the product of the table -/
def Rt {t : Table} {n : Nat} (_T : TableRing t n) : Type := Fin n → ℤ

variable {t : Table} {n : Nat} (T : TableRing t n)

theorem star_zero_left (t : Table) (n : Nat) (y : Fin n → ℤ) : star t n 0 y = 0 := by
  have := star_smul_left t n 0 0 y
  simpa using this

theorem star_zero_right (t : Table) (n : Nat) (x : Fin n → ℤ) : star t n x 0 = 0 := by
  have := star_smul_right t n 0 x 0
  simpa using this

instance instAddCommGroupRt : AddCommGroup (Rt T) := (Pi.addCommGroup : AddCommGroup (Fin n → ℤ))

noncomputable instance instCommRingRt : CommRing (Rt T) :=
  { instAddCommGroupRt T with
    mul := fun x y => star t n x y
    one := e n ⟨0, T.pos⟩
    left_distrib := fun a b c => star_add_right t n a b c
    right_distrib := fun a b c => star_add_left t n a b c
    zero_mul := fun a => star_zero_left t n a
    mul_zero := fun a => star_zero_right t n a
    mul_assoc := fun a b c => T.star_assoc a b c
    one_mul := fun a => T.one_star a
    mul_one := fun a => T.star_one a
    mul_comm := fun a b => T.star_comm a b }

/-- the underlying vector -/
def toVec : Rt T ≃ₗ[ℤ] (Fin n → ℤ) where
  toFun x := x
  invFun x := x
  map_add' _ _ := rfl
  map_smul' c x := by
    funext i
    show (c • x) i = c • (x i)
    rfl
  left_inv _ := rfl
  right_inv _ := rfl

/-- a vector as an element of the ring -/
def ofVec (x : Fin n → ℤ) : Rt T := x

@[simp] theorem toVec_ofVec (x : Fin n → ℤ) : toVec T (ofVec T x) = x := rfl
@[simp] theorem ofVec_toVec (x : Rt T) : ofVec T (toVec T x) = x := rfl

theorem toVec_mul (x y : Rt T) : toVec T (x * y) = star t n (toVec T x) (toVec T y) := rfl
theorem toVec_one : toVec T (1 : Rt T) = e n ⟨0, T.pos⟩ := rfl
theorem ofVec_star (x y : Fin n → ℤ) : ofVec T (star t n x y) = ofVec T x * ofVec T y := rfl
theorem ofVec_add (x y : Fin n → ℤ) : ofVec T (x + y) = ofVec T x + ofVec T y := rfl
theorem ofVec_zero : ofVec T (0 : Fin n → ℤ) = 0 := rfl
theorem ofVec_injective : Function.Injective (ofVec T) := fun _ _ h => h

theorem ofVec_smul (c : ℤ) (x : Fin n → ℤ) : ofVec T (c • x) = c • ofVec T x :=
  ((toVec T).symm.map_smul c x)

theorem natCast_eq (p : ℕ) : ((p : Rt T)) = ofVec T ((p : ℤ) • e n ⟨0, T.pos⟩) := by
  rw [ofVec_smul]
  show (p : Rt T) = (p : ℤ) • (1 : Rt T)
  rw [natCast_zsmul, nsmul_eq_mul, mul_one]

/-- the lattice of an ideal of `Rt T` -/
noncomputable def latOf (J : Ideal (Rt T)) : Submodule ℤ (Fin n → ℤ) :=
  (J.restrictScalars ℤ).map (toVec T).toLinearMap

theorem mem_latOf (J : Ideal (Rt T)) (x : Fin n → ℤ) : x ∈ latOf T J ↔ ofVec T x ∈ J := by
  unfold latOf
  rw [Submodule.mem_map]
  constructor
  · rintro ⟨y, hy, rfl⟩; exact hy
  · intro h; exact ⟨ofVec T x, h, rfl⟩

theorem latOf_injective : Function.Injective (latOf T) := by
  intro I J h
  ext x
  have := congrArg (fun L => toVec T x ∈ L) h
  simp only [mem_latOf, ofVec_toVec, eq_iff_iff] at this
  exact this

theorem latOf_le_iff (I J : Ideal (Rt T)) : latOf T I ≤ latOf T J ↔ I ≤ J := by
  constructor
  · intro h x hx
    have := h ((mem_latOf T I (toVec T x)).mpr hx)
    exact (mem_latOf T J _).mp this
  · intro h x hx
    exact (mem_latOf T J x).mpr (h ((mem_latOf T I x).mp hx))

theorem latOf_top : latOf T ⊤ = ⊤ := by
  ext x; simp [mem_latOf]

theorem latOf_sup (I J : Ideal (Rt T)) : latOf T (I ⊔ J) = latOf T I ⊔ latOf T J := by
  ext x
  rw [mem_latOf, Submodule.mem_sup, Submodule.mem_sup]
  constructor
  · rintro ⟨a, ha, b, hb, hab⟩
    exact ⟨toVec T a, (mem_latOf T I _).mpr ha, toVec T b, (mem_latOf T J _).mpr hb, hab⟩
  · rintro ⟨a, ha, b, hb, hab⟩
    exact ⟨ofVec T a, (mem_latOf T I _).mp ha, ofVec T b, (mem_latOf T J _).mp hb, hab⟩

/-- a lattice closed under `a ⋆ ·` as an ideal of `Rt T` -/
def idealOfLat (L : Submodule ℤ (Fin n → ℤ)) (hL : ∀ a : Fin n → ℤ, ∀ x ∈ L, star t n a x ∈ L) : Ideal (Rt T) where
  carrier := {x | toVec T x ∈ L}
  add_mem' := fun ha hb => L.add_mem ha hb
  zero_mem' := L.zero_mem
  smul_mem' := fun a x hx => hL a x hx

theorem latOf_idealOfLat (L : Submodule ℤ (Fin n → ℤ)) (hL : ∀ a : Fin n → ℤ, ∀ x ∈ L, star t n a x ∈ L) :
    latOf T (idealOfLat T L hL) = L := by
  ext x
  rw [mem_latOf]
  rfl

/-- the ideal of `Rt T` carried by an ideal of the order given by generating rows -/
def idealOf (I : Mat) (oI : IsOIdeal t n I) : Ideal (Rt T) := idealOfLat T (Lat n I) oI

theorem latOf_idealOf (I : Mat) (oI : IsOIdeal t n I) : latOf T (idealOf T I oI) = Lat n I :=
  latOf_idealOfLat T _ oI

/-- the lattice of a product of ideals is the span of the products -/
theorem latOf_mul (I J : Ideal (Rt T)) :
    latOf T (I * J) = Submodule.map₂ (starB t n) (latOf T I) (latOf T J) := by
  apply le_antisymm
  · intro x hx
    rw [mem_latOf] at hx
    have : ∀ z ∈ I * J, toVec T z ∈ Submodule.map₂ (starB t n) (latOf T I) (latOf T J) := by
      intro z hz
      refine Submodule.mul_induction_on hz ?_ ?_
      · intro a ha b hb
        exact Submodule.apply_mem_map₂ (starB t n) ((mem_latOf T I _).mpr ha) ((mem_latOf T J _).mpr hb)
      · intro a b ha hb
        exact Submodule.add_mem _ ha hb
    exact this _ hx
  · rw [Submodule.map₂_le]
    intro a ha b hb
    rw [mem_latOf] at ha hb ⊢
    exact Ideal.mul_mem_mul ha hb

/-- `span {x}` is `x ⋆ ℤⁿ` -/
theorem latOf_span_singleton (x : Fin n → ℤ) :
    latOf T (Ideal.span {ofVec T x}) = LinearMap.range (starB t n x) := by
  ext y
  rw [mem_latOf, Ideal.mem_span_singleton', LinearMap.mem_range]
  constructor
  · rintro ⟨a, ha⟩
    refine ⟨toVec T a, ?_⟩
    rw [starB_apply, T.star_comm]
    exact ha
  · rintro ⟨a, rfl⟩
    refine ⟨ofVec T a, ?_⟩
    rw [starB_apply, T.star_comm]
    rfl

/-! ### the model's ideal operations -/

open NTV.Ideal (mul principal add)

/-- `P` is a value of the normal-form constructor on rows of width `n` (how every ideal arises) -/
def IsNF (n : Nat) (P : Mat) : Prop := ∃ X : Mat, Wid n X ∧ NTV.Ideal.hnfNew X = .ok P

theorem IsNF.wid {P : Mat} (h : IsNF n P) (hn : 0 < n) : Wid n P := by
  obtain ⟨X, hX, hP⟩ := h
  exact (ideal_hnfNew_spec hX hn hP).1

/-- two normal forms with the same lattice are equal -/
theorem IsNF.eq_of_lat_eq {P Z : Mat} (hP : IsNF n P) (hZ : IsNF n Z) (hn : 0 < n) (h : Lat n P = Lat n Z) :
    P = Z := by
  obtain ⟨X, hX, hXP⟩ := hP
  obtain ⟨Y, hY, hYZ⟩ := hZ
  have h1 := ideal_hnfNew_idem hX hn hXP
  have h2 := ideal_hnfNew_idem hY hn hYZ
  have hWP := (ideal_hnfNew_spec hX hn hXP).1
  have hWZ := (ideal_hnfNew_spec hY hn hYZ).1
  have := ideal_hnfNew_congr (hnfNew_canonical hWP hWZ hn h)
  rw [h1, h2] at this
  exact Except.ok.inj this

theorem isNF_of_mul {I J P : Mat} (ht : t.length = n) (hI : Wid n I) (hJ : Wid n J)
    (h : mul t I J = .ok P) : IsNF n P :=
  ⟨prodRows t I J, Wid_prodRows hI, by rw [← mul_eq ht hI hJ]; exact h⟩

theorem isNF_of_principal {x : List Int} {P : Mat} (ht : t.length = n) (hx : x.length = n)
    (h : principal t x = .ok P) : IsNF n P :=
  ⟨prinRows t n x, Wid_prinRows hx, by rw [← principal_eq ht hx]; exact h⟩

theorem isNF_of_add {I J P : Mat} (hI : Wid n I) (hJ : Wid n J) (h : add I J = .ok P) : IsNF n P :=
  ⟨I ++ J, hI.append hJ, h⟩

/-- the unit ideal `(1)` = `principal t (1, 0, …, 0)` -/
def unitIdeal (t : Table) : NTV.Ideal.M Mat := principal t (1 :: List.replicate (t.length - 1) 0)

/-- `I^e` by repeated multiplication from the unit ideal: `(1)`, `(1)·I`, `((1)·I)·I`, … -/
def powM (t : Table) (I : Mat) : Nat → NTV.Ideal.M Mat
  | 0 => unitIdeal t
  | k + 1 => do
    let J ← powM t I k
    mul t J I

/-- `∏ I_i^{e_i}` -/
def prodM (t : Table) : List (Mat × Nat) → NTV.Ideal.M Mat
  | [] => unitIdeal t
  | (I, e) :: rest => do
    let a ← powM t I e
    let b ← prodM t rest
    mul t a b

theorem unitIdeal_spec : ∃ U, unitIdeal t = .ok U ∧ IsNF n U ∧ Lat n U = latOf T ⊤ := by
  have hlen : ((1 : ℤ) :: List.replicate (n - 1) 0).length = n := by
    have := T.pos; simp; omega
  obtain ⟨U, h1, _, _, h4, _⟩ := principal_total T hlen
  refine ⟨U, by unfold unitIdeal; rw [T.len]; exact h1, isNF_of_principal T.len hlen h1, ?_⟩
  rw [h4, latOf_top, NTV.DecompP.vec_pelem n T.pos 1, eq_top_iff]
  intro y _
  exact ⟨y, by rw [starB_apply, one_smul, T.one_star]⟩

theorem mul_model {I J : Mat} {A B : Ideal (Rt T)} (hI : Wid n I) (hJ : Wid n J)
    (hA : Lat n I = latOf T A) (hB : Lat n J = latOf T B) :
    ∃ P, mul t I J = .ok P ∧ IsNF n P ∧ Lat n P = latOf T (A * B) := by
  obtain ⟨P, h1, _, _, h4⟩ := mul_total T.len T.pos hI hJ
  exact ⟨P, h1, isNF_of_mul T.len hI hJ h1, by rw [h4, hA, hB, latOf_mul]⟩

theorem powM_spec {I : Mat} {A : Ideal (Rt T)} (hI : Wid n I) (hA : Lat n I = latOf T A) (k : Nat) :
    ∃ P, powM t I k = .ok P ∧ IsNF n P ∧ Lat n P = latOf T (A ^ k) := by
  induction k with
  | zero =>
    obtain ⟨U, h1, h2, h3⟩ := unitIdeal_spec T
    exact ⟨U, h1, h2, by rw [h3, pow_zero, Ideal.one_eq_top]⟩
  | succ k ih =>
    obtain ⟨J, h1, h2, h3⟩ := ih
    obtain ⟨P, h4, h5, h6⟩ := mul_model T (h2.wid T.pos) hI h3 hA
    refine ⟨P, ?_, h5, by rw [h6, pow_succ]⟩
    simp only [powM, h1, bind, Except.bind]
    exact h4

theorem prodM_spec (l : List (Mat × Nat)) (A : Mat → Ideal (Rt T))
    (h : ∀ x ∈ l, Wid n x.1 ∧ Lat n x.1 = latOf T (A x.1)) :
    ∃ P, prodM t l = .ok P ∧ IsNF n P ∧ Lat n P = latOf T ((l.map (fun x => A x.1 ^ x.2)).prod) := by
  induction l with
  | nil =>
    obtain ⟨U, h1, h2, h3⟩ := unitIdeal_spec T
    exact ⟨U, h1, h2, by rw [h3]; simp⟩
  | cons x rest ih =>
    obtain ⟨b, hb1, hb2, hb3⟩ := ih (fun y hy => h y (by simp [hy]))
    obtain ⟨hxW, hxL⟩ := h x (by simp)
    obtain ⟨a, ha1, ha2, ha3⟩ := powM_spec T hxW hxL x.2
    obtain ⟨P, h4, h5, h6⟩ := mul_model T (ha2.wid T.pos) (hb2.wid T.pos) ha3 hb3
    refine ⟨P, ?_, h5, by rw [h6]; simp⟩
    obtain ⟨I, e⟩ := x
    simp only [prodM, ha1, hb1, bind, Except.bind]
    exact h4

end NTV.KD
