import Mathlib.RingTheory.Polynomial.Resultant.Basic
import Mathlib.LinearAlgebra.Matrix.Charpoly.Basic
import Mathlib.LinearAlgebra.Matrix.Charpoly.Coeff
import Mathlib.FieldTheory.SplittingField.Construction
/-! C14 (norm = resultant), matrix part: for a square matrix `M` over a field with characteristic
polynomial `χ` and any polynomial `G`, `det G(M) = Res(χ, G)`. -/
open Polynomial Matrix
namespace NTV.NormRes

variable {k : Type*} [Field k] {n : ℕ}

/-- `G ↦ det G(M)` as a monoid homomorphism -/
noncomputable def detAeval (M : Matrix (Fin n) (Fin n) k) : k[X] →* k :=
  (Matrix.detMonoidHom).comp (MonoidHomClass.toMonoidHom (aeval M : k[X] →ₐ[k] Matrix (Fin n) (Fin n) k))

theorem detAeval_apply (M : Matrix (Fin n) (Fin n) k) (G : k[X]) :
    detAeval M G = (aeval M G).det := rfl

theorem detAeval_C (M : Matrix (Fin n) (Fin n) k) (c : k) : detAeval M (C c) = c ^ n := by
  rw [detAeval_apply, aeval_C, Matrix.algebraMap_eq_diagonal, Matrix.det_diagonal]
  simp

theorem detAeval_X_sub_C (M : Matrix (Fin n) (Fin n) k) (b : k) :
    detAeval M (X - C b) = (-1) ^ n * M.charpoly.eval b := by
  rw [detAeval_apply, Matrix.eval_charpoly, map_sub, aeval_X, aeval_C]
  have : M - algebraMap k _ b = -(Matrix.scalar (Fin n) b - M) := by
    rw [neg_sub]; rfl
  rw [this, Matrix.det_neg]
  simp

/-- the split case -/
theorem det_aeval_of_splits (M : Matrix (Fin n) (Fin n) k) (G : k[X]) (hG : G.Splits) :
    (aeval M G).det = resultant M.charpoly G := by
  have hdeg : M.charpoly.natDegree = n := by
    rw [Matrix.charpoly_natDegree_eq_dim]; simp
  by_cases hG0 : G = 0
  · subst hG0
    rw [map_zero, resultant_zero_right, hdeg]
    by_cases hn : n = 0
    · subst hn; simp
    · have : Nonempty (Fin n) := Fin.pos_iff_nonempty.mp (Nat.pos_of_ne_zero hn)
      rw [Matrix.det_zero, zero_pow hn, zero_mul]
  rw [resultant_comm, hdeg, resultant_eq_prod_eval G M.charpoly n (le_of_eq hdeg) hG]
  rw [← detAeval_apply]
  conv_lhs => rw [hG.eq_prod_roots]
  rw [map_mul, detAeval_C, map_multiset_prod, Multiset.map_map]
  have : (detAeval M ∘ fun a => X - C a) = fun a => (-1) ^ n * M.charpoly.eval a := by
    funext a; exact detAeval_X_sub_C M a
  rw [this, Multiset.prod_map_mul, Multiset.map_const', Multiset.prod_replicate,
    ← hG.natDegree_eq_card_roots, ← pow_mul]
  ring

/-- `det G(M) = Res(χ_M, G)` (formal degrees `n` and `deg G`) -/
theorem det_aeval_eq_resultant (M : Matrix (Fin n) (Fin n) k) (G : k[X]) :
    (aeval M G).det = resultant M.charpoly G := by
  let L := G.SplittingField
  apply (algebraMap k L).injective
  have h := det_aeval_of_splits (M.map (algebraMap k L)) (G.map (algebraMap k L))
    (SplittingField.splits G)
  rw [Matrix.charpoly_map, natDegree_map, natDegree_map, resultant_map_map] at h
  rw [← h, RingHom.map_det]
  congr 1
  have := Polynomial.map_aeval_eq_aeval_map (R := k) (S := Matrix (Fin n) (Fin n) k)
    (T := L) (U := Matrix (Fin n) (Fin n) L) (φ := algebraMap k L)
    (ψ := (algebraMap k L).mapMatrix) (by ext x i j; by_cases hij : i = j <;> simp [Matrix.algebraMap_eq_diagonal, hij]) G M
  exact this

end NTV.NormRes
