import NTV.Proofs.Lemmas.KummerDedekindC
import NTV.Proofs.Lemmas.NormResFinal
import NTV.Proofs.Lemmas.IdealProofsD
/-! # Kummer–Dedekind, part D: the order of a basis matrix `B` with table `t` as the ring `Rt T`,
embedded in `ℚ[X]/(f)`; the element `ϑ` (the class of `x`) and the hypotheses `NTV.KD.Ctx` of the abstract
development, from `ℤ[θ] ⊆ O` (`Cm · B = 1` for an integer matrix `Cm`) and `p ∤ det Cm`. -/
namespace NTV.KD
open NTV.IdealP NTV.Ord NTV.Hnf Polynomial Matrix
open NTV.TableAbs (psi psi_add psi_zero psi_single psi_smul)
open NTV.Alg (modulus cls cls_eq_iff)
open NTV.RowOps (toM Rect ent)
open NTV.PolyG (toPoly coeff_toPoly Canon)

variable {f : List Int} {B : QMat} {n : Nat} {t : Table}

theorem mulVec_eq_star (t : Table) (n : Nat) (a b : Fin n → ℤ) :
    NTV.TableAbs.mulVec (tabT t n) a b = star t n a b := rfl

theorem cV_add (x y : Fin n → ℤ) : NTV.TableAbs.castV (x + y) = NTV.TableAbs.castV x + NTV.TableAbs.castV y := by
  funext i; simp [NTV.TableAbs.castV]

theorem cV_zero : NTV.TableAbs.castV (0 : Fin n → ℤ) = 0 := by
  funext i; simp [NTV.TableAbs.castV]

theorem cV_e (i : Fin n) : NTV.TableAbs.castV (e n i) = Pi.single i 1 := by
  funext j
  simp only [NTV.TableAbs.castV, e, Pi.single_apply]
  split <;> simp

/-- `x ↦ Σ_i x_i ω_i ∈ ℚ[X]/(f)` on integer vectors -/
noncomputable def psiZ (f : List Int) (B : QMat) (n : Nat) (x : Fin n → ℤ) : ℚ[X] ⧸ Ideal.span {modulus f} :=
  psi (qK f) (omegaK f B n) (NTV.TableAbs.castV x)

theorem psiZ_add (x y : Fin n → ℤ) : psiZ f B n (x + y) = psiZ f B n x + psiZ f B n y := by
  unfold psiZ; rw [cV_add, psi_add]

theorem psiZ_zero : psiZ f B n 0 = 0 := by
  unfold psiZ; rw [cV_zero, psi_zero]

theorem psiZ_e (i : Fin n) : psiZ f B n (e n i) = omegaK f B n i := by
  unfold psiZ; rw [cV_e, psi_single]

section withCtx
variable (S : Setup f B n) (ht : IsTable f B n t)
include S ht

theorem psiZ_star (x y : Fin n → ℤ) : psiZ f B n (star t n x y) = psiZ f B n x * psiZ f B n y := by
  unfold psiZ
  rw [(S.ctx t ht).mul_agrees, mulVec_eq_star]

theorem psiZ_injective : Function.Injective (psiZ f B n) := by
  intro x y h
  exact NTV.Ord.castV_inj x y ((S.ctx t ht).inj _ _ h)

omit ht in
theorem omega0_eq_one (h0 : B.getD 0 [] = 1 :: List.replicate (n - 1) 0) :
    omegaK f B n ⟨0, S.pos⟩ = 1 := by
  unfold omegaK
  show cls f (toPoly (B.getD 0 [])) = 1
  rw [h0, toPoly_unit_row]; simp

/-- the table of an order whose first basis vector is 1 makes ℤⁿ a commutative ring -/
theorem tableRing_of_isTable (h0 : B.getD 0 [] = 1 :: List.replicate (n - 1) 0) : TableRing t n := by
  have hinj := psiZ_injective S ht
  apply tableRing_of_star S.pos ht.1
  · intro r hr
    obtain ⟨i, hi, rfl⟩ := List.mem_iff_getElem.mp hr
    have hi' : i < n := by rw [← ht.1]; exact hi
    have h1 := ht.2.1 i hi'
    rw [List.getD_eq_getElem?_getD, List.getElem?_eq_getElem hi, Option.getD_some] at h1
    refine ⟨h1.1, ?_⟩
    intro s hs
    obtain ⟨j, hj, rfl⟩ := List.mem_iff_getElem.mp hs
    have hj' : j < n := by rw [← h1.1]; exact hj
    have h2 := h1.2 j hj'
    rwa [List.getD_eq_getElem?_getD, List.getElem?_eq_getElem hj, Option.getD_some] at h2
  · intro x y
    apply hinj
    rw [psiZ_star S ht, psiZ_star S ht, mul_comm]
  · intro x y z
    apply hinj
    rw [psiZ_star S ht, psiZ_star S ht, psiZ_star S ht, psiZ_star S ht, mul_assoc]
  · intro x
    apply hinj
    rw [psiZ_star S ht, psiZ_e, omega0_eq_one S h0, one_mul]

/-- the embedding of the order into `ℚ[X]/(f)` as a ring homomorphism -/
noncomputable def psiHom (T : TableRing t n) (h0 : B.getD 0 [] = 1 :: List.replicate (n - 1) 0) :
    Rt T →+* ℚ[X] ⧸ Ideal.span {modulus f} where
  toFun x := psiZ f B n (toVec T x)
  map_one' := by rw [toVec_one, psiZ_e]; exact omega0_eq_one S h0
  map_mul' x y := by rw [toVec_mul]; exact psiZ_star S ht _ _
  map_zero' := by rw [map_zero]; exact psiZ_zero
  map_add' x y := by rw [map_add]; exact psiZ_add _ _

theorem psiHom_apply (T : TableRing t n) (h0 : B.getD 0 [] = 1 :: List.replicate (n - 1) 0) (x : Rt T) :
    psiHom S ht T h0 x = psiZ f B n (toVec T x) := rfl

theorem psiHom_injective (T : TableRing t n) (h0 : B.getD 0 [] = 1 :: List.replicate (n - 1) 0) :
    Function.Injective (psiHom S ht T h0) := by
  intro x y h
  exact (toVec T).injective (psiZ_injective S ht h)

end withCtx

/-! ### coordinates of `h(θ)` for `h ∈ ℤ[X]` of degree `< n`, when `ℤ[θ] ⊆ O` -/

/-- the coordinate vector of `h(θ)` (`deg h < n`) in the basis ω, given the coordinates `Cm` of the powers of θ -/
def coordOf (Cm : Matrix (Fin n) (Fin n) ℤ) (h : ℤ[X]) : Fin n → ℤ := (fun c : Fin n => h.coeff c) ᵥ* Cm

theorem cV_vecMul (Cm : Matrix (Fin n) (Fin n) ℤ) (w : Fin n → ℤ) :
    NTV.TableAbs.castV (w ᵥ* Cm) = NTV.TableAbs.castV w ᵥ* Cm.map (Int.castRingHom ℚ) := by
  funext i
  simp only [NTV.TableAbs.castV, Matrix.vecMul, dotProduct, Matrix.map_apply, Int.cast_sum, Int.cast_mul, eq_intCast]

theorem psiZ_coordOf (hB : Rect n n B) (Cm : Matrix (Fin n) (Fin n) ℤ)
    (hC : Cm.map (Int.castRingHom ℚ) * toM n n B = 1) (h : ℤ[X]) (hd : h.natDegree < n) :
    psiZ f B n (coordOf Cm h) = cls f (h.map (Int.castRingHom ℚ)) := by
  unfold psiZ
  rw [psi_eq_cls]
  congr 1
  set l : List Rat := (List.range n).map (fun c => ((h.coeff c : ℤ) : ℚ)) with hl
  have hlp : toPoly l = h.map (Int.castRingHom ℚ) := by
    ext c
    rw [coeff_toPoly, coeff_map, hl]
    by_cases hc : c < n
    · simp [List.getD_eq_getElem?_getD, hc]
    · rw [coeff_eq_zero_of_natDegree_lt (by omega)]
      simp [List.getD_eq_getElem?_getD, hc]
  rw [← hlp]
  symm
  apply toPoly_comb hB _ l (by simp [hl])
  intro c hc
  have key : NTV.TableAbs.castV (coordOf Cm h) ᵥ* toM n n B = NTV.TableAbs.castV (fun c : Fin n => h.coeff c) := by
    unfold coordOf
    rw [cV_vecMul, Matrix.vecMul_vecMul, hC, Matrix.vecMul_one]
  have := congrFun key ⟨c, hc⟩
  simp only [Matrix.vecMul, dotProduct] at this
  rw [hl]
  simp only [List.getD_eq_getElem?_getD, List.getElem?_map, List.getElem?_range hc, Option.map_some,
    Option.getD_some]
  rw [show ((h.coeff c : ℤ) : ℚ) = NTV.TableAbs.castV (fun c : Fin n => h.coeff c) ⟨c, hc⟩ from rfl, ← this]
  rfl

theorem cls_map_mod (h : ℤ[X]) :
    cls f ((h %ₘ toPoly f).map (Int.castRingHom ℚ)) = cls f (h.map (Int.castRingHom ℚ)) := by
  rw [cls_eq_iff, NTV.Ord.modulus_eq_map]
  have e : h.map (Int.castRingHom ℚ) = (h %ₘ toPoly f).map (Int.castRingHom ℚ) +
      (toPoly f).map (Int.castRingHom ℚ) * (h /ₘ toPoly f).map (Int.castRingHom ℚ) := by
    conv_lhs => rw [← modByMonic_add_div h (toPoly f)]
    rw [Polynomial.map_add, Polynomial.map_mul]
  rw [e, sub_add_cancel_left]
  exact (dvd_mul_right _ _).neg_right

/-- for every `h ∈ ℤ[X]`: the coordinates of `h(θ)` are those of the remainder of `h` modulo `f` -/
theorem psiZ_coordOf_mod (hB : Rect n n B) (Cm : Matrix (Fin n) (Fin n) ℤ)
    (hC : Cm.map (Int.castRingHom ℚ) * toM n n B = 1) (hm : (toPoly f).Monic)
    (hdeg : (toPoly f).natDegree = n) (hn : 0 < n) (h : ℤ[X]) :
    psiZ f B n (coordOf Cm (h %ₘ toPoly f)) = cls f (h.map (Int.castRingHom ℚ)) := by
  have hne : toPoly f ≠ 1 := by
    intro e; rw [e, natDegree_one] at hdeg; omega
  have hlt : (h %ₘ toPoly f).natDegree < n := by
    have := natDegree_modByMonic_lt h hm hne
    rwa [hdeg] at this
  rw [psiZ_coordOf hB Cm hC _ hlt, cls_map_mod]

theorem coordOf_zero (Cm : Matrix (Fin n) (Fin n) ℤ) : coordOf Cm 0 = 0 := by
  unfold coordOf
  funext j
  simp [Matrix.vecMul, dotProduct]

theorem coordOf_X_pow (Cm : Matrix (Fin n) (Fin n) ℤ) (c : Fin n) : coordOf Cm (X ^ (c : ℕ)) = Cm c := by
  unfold coordOf
  have : (fun i : Fin n => (X ^ (c : ℕ) : ℤ[X]).coeff i) = Pi.single c 1 := by
    funext i
    rw [coeff_X_pow, Pi.single_apply]
    simp only [Fin.ext_iff]
  rw [this, Matrix.single_one_vecMul]
  rfl

section theta
variable (S : Setup f B n) (ht : IsTable f B n t) (T : TableRing t n)
  (h0 : B.getD 0 [] = 1 :: List.replicate (n - 1) 0)
  (Cm : Matrix (Fin n) (Fin n) ℤ) (hC : Cm.map (Int.castRingHom ℚ) * toM n n B = 1)
  (hm : (toPoly f).Monic) (hdeg : (toPoly f).natDegree = n)

/-- the class of `x`, as an element of the order -/
noncomputable def thetaOf (T : TableRing t n) (Cm : Matrix (Fin n) (Fin n) ℤ) (f : List Int) : Rt T :=
  ofVec T (coordOf Cm (X %ₘ toPoly f))

include S ht h0 hC hm hdeg

theorem psiHom_theta : psiHom S ht T h0 (thetaOf T Cm f) = cls f X := by
  rw [psiHom_apply]
  show psiZ f B n (coordOf Cm (X %ₘ toPoly f)) = _
  rw [psiZ_coordOf_mod S.rect Cm hC hm hdeg S.pos X, Polynomial.map_X]

theorem psiHom_aeval (h : ℤ[X]) :
    psiHom S ht T h0 (aeval (thetaOf T Cm f) h) = cls f (h.map (Int.castRingHom ℚ)) := by
  rw [aeval_def, Polynomial.hom_eval₂, psiHom_theta S ht T h0 Cm hC hm hdeg]
  have : h.map (Int.castRingHom ℚ) = h.eval₂ (C.comp (Int.castRingHom ℚ)) X := rfl
  rw [this, Polynomial.hom_eval₂]
  congr 1
  exact RingHom.ext_int _ _

/-- `h(ϑ)` has the coordinates of the remainder of `h` modulo `f` -/
theorem aeval_theta (h : ℤ[X]) :
    aeval (thetaOf T Cm f) h = ofVec T (coordOf Cm (h %ₘ toPoly f)) := by
  apply psiHom_injective S ht T h0
  rw [psiHom_aeval S ht T h0 Cm hC hm hdeg, psiHom_apply]
  exact (psiZ_coordOf_mod S.rect Cm hC hm hdeg S.pos h).symm

/-- **the hypotheses of the abstract development** -/
theorem kdCtx (p : ℕ) (hcop : IsCoprime Cm.det (p : ℤ)) :
    Ctx p (toVec T) (thetaOf T Cm f) (toPoly f) Cm where
  pos := S.pos
  monic := hm
  deg := hdeg
  root := by
    rw [aeval_theta S ht T h0 Cm hC hm hdeg, modByMonic_self hm, coordOf_zero]; rfl
  pow := by
    intro c
    have h1 : thetaOf T Cm f ^ (c : ℕ) = aeval (thetaOf T Cm f) (X ^ (c : ℕ) : ℤ[X]) := by
      rw [map_pow, aeval_X]
    rw [h1, aeval_theta S ht T h0 Cm hC hm hdeg]
    have h2 : (X ^ (c : ℕ) : ℤ[X]) %ₘ toPoly f = X ^ (c : ℕ) := by
      rw [modByMonic_eq_self_iff hm, degree_X_pow, degree_eq_natDegree hm.ne_zero, hdeg]
      exact_mod_cast c.isLt
    rw [h2, coordOf_X_pow]
    rfl
  cop := hcop

end theta

end NTV.KD
