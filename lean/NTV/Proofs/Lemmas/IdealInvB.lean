import NTV.Proofs.Lemmas.IdealInvA
import NTV.Proofs.Lemmas.IdealProofsC
import NTV.Proofs.Lemmas.IdealProofsD
import NTV.Proofs.Lemmas.InvDiffA
/-! # `Ideal::inv`, part B: the trace form of a table ring and the lattices met by `inv`.

`tau t n x = Σ_k x_k · Σ_l t[l][k][l]` is what `MultTable::trace` computes (the trace of the regular
representation, C14); `trForm t n v w = tau (v ⋆ w)` is the trace form, with Gram matrix `traceMatrix t n`.
`DualData t n d H` collects what is used of the output `(d, H)` of `get_inv_diff`: `L(H)` is the row lattice of an
integer matrix `S` with `S · Tr = d · 1`. -/
open Matrix
namespace NTV.IdealInv
open NTV.IdealP NTV.Hnf NTV.Ord Finset
open NTV.InvDiff (traceMatrix trEnt)

/-- the coefficients of the trace functional -/
def tauVec (t : Table) (n : Nat) : Fin n → ℤ := fun k => ∑ l : Fin n, tent t l.val k.val l.val

/-- the trace functional `MultTable::trace` -/
def tau (t : Table) (n : Nat) (x : Fin n → ℤ) : ℤ := x ⬝ᵥ tauVec t n

/-- the trace form `Tr(v · w)` -/
def trForm (t : Table) (n : Nat) (v w : Fin n → ℤ) : ℤ := tau t n (star t n v w)

theorem ttrace_eq_tau {t : Table} {n : Nat} {a : List Int} (ht : t.length = n) (ha : a.length = n) :
    ttrace t a = .ok (tau t n (vec n a)) := by
  rw [ttrace_eq t a ht (by omega)]
  congr 1
  simp only [tau, tauVec, dotProduct, Finset.mul_sum]
  rfl

theorem tau_add (t : Table) (n : Nat) (x y : Fin n → ℤ) : tau t n (x + y) = tau t n x + tau t n y := by
  simp [tau, add_dotProduct]

theorem tau_smul (t : Table) (n : Nat) (c : ℤ) (x : Fin n → ℤ) : tau t n (c • x) = c * tau t n x := by
  rw [tau, smul_dotProduct, smul_eq_mul]; rfl

/-- `tau` as a linear map -/
def tauL (t : Table) (n : Nat) : (Fin n → ℤ) →ₗ[ℤ] ℤ where
  toFun := tau t n
  map_add' := tau_add t n
  map_smul' := fun c x => by rw [tau_smul]; rfl

@[simp] theorem tauL_apply (t : Table) (n : Nat) (x : Fin n → ℤ) : tauL t n x = tau t n x := rfl

theorem traceMatrix_eq_trForm (t : Table) (n : Nat) (i j : Fin n) :
    traceMatrix t n i j = trForm t n (e n i) (e n j) := by
  simp only [traceMatrix, trEnt, trForm, tau, tauVec, dotProduct, star_e_e, Finset.mul_sum]

/-- the trace form through its Gram matrix -/
theorem trForm_eq_matrix (t : Table) (n : Nat) (v w : Fin n → ℤ) :
    trForm t n v w = (v ᵥ* traceMatrix t n) ⬝ᵥ w := by
  have h1 : trForm t n v w = ∑ i, v i * ∑ j, w j * traceMatrix t n i j := by
    unfold trForm
    rw [star_expand, ← tauL_apply, map_sum]
    refine Finset.sum_congr rfl (fun i _ => ?_)
    rw [map_smul, map_sum, smul_eq_mul]
    congr 1
    refine Finset.sum_congr rfl (fun j _ => ?_)
    rw [map_smul, smul_eq_mul, tauL_apply, traceMatrix_eq_trForm]
    rfl
  rw [h1]
  simp only [dotProduct, vecMul, Finset.mul_sum, Finset.sum_mul]
  rw [Finset.sum_comm]
  refine Finset.sum_congr rfl (fun j _ => Finset.sum_congr rfl (fun i _ => by ring))

theorem trForm_add_right (t : Table) (n : Nat) (v w w' : Fin n → ℤ) :
    trForm t n v (w + w') = trForm t n v w + trForm t n v w' := by
  simp only [trForm_eq_matrix, dotProduct_add]

theorem trForm_smul_right (t : Table) (n : Nat) (c : ℤ) (v w : Fin n → ℤ) :
    trForm t n v (c • w) = c * trForm t n v w := by
  simp only [trForm_eq_matrix, dotProduct_smul, smul_eq_mul]

theorem trForm_smul_left (t : Table) (n : Nat) (c : ℤ) (v w : Fin n → ℤ) :
    trForm t n (c • v) w = c * trForm t n v w := by
  unfold trForm
  rw [star_smul_left, tau_smul]

theorem trForm_zero_right (t : Table) (n : Nat) (v : Fin n → ℤ) : trForm t n v 0 = 0 := by
  simp [trForm_eq_matrix]

section ring
variable {t : Table} {n : Nat} (T : TableRing t n)
include T

theorem trForm_comm (v w : Fin n → ℤ) : trForm t n v w = trForm t n w v := by
  unfold trForm; rw [T.star_comm]

/-- `Tr((u·x)·h) = Tr(u·(x·h))` -/
theorem trForm_assoc (u x h : Fin n → ℤ) : trForm t n (star t n u x) h = trForm t n u (star t n x h) := by
  unfold trForm; rw [T.star_assoc]

end ring

/-- what is used of the inverse different `(d, H)` -/
structure DualData (t : Table) (n : Nat) (d : ℤ) (H : Mat) : Prop where
  dpos : 0 < d
  len : H.length = n
  wid : Wid n H
  ex : ∃ S : Matrix (Fin n) (Fin n) ℤ, S * traceMatrix t n = d • (1 : Matrix (Fin n) (Fin n) ℤ) ∧
    ∀ v, v ∈ Lat n H ↔ ∃ k : Fin n → ℤ, k ᵥ* S = v

theorem hnf_toM_eq_rowOps_toM (n m : Nat) (A : Mat) : NTV.Hnf.toM n m A = NTV.RowOps.toM n m A := rfl

/-- the output of `get_inv_diff` is such a pair -/
theorem dualData_of_getInvDiff {t : Table} {n : Nat} (hs : NTV.InvDiff.Shape t n) (hn : 0 < n) {d : ℤ} {H : Mat}
    (h : NTV.Ideal.getInvDiff t = .ok (d, H)) : DualData t n d H := by
  have hdet : (traceMatrix t n).det ≠ 0 := by
    intro h0
    rw [NTV.InvDiff.getInvDiff_singular t n hs h0] at h
    cases h
  obtain ⟨B, H', _, _, hBA, h1, hpos, hlen, hwid, _, hcast, hLat⟩ :=
    NTV.InvDiff.getInvDiff_nonsingular t n hs hn hdet
  rw [h1] at h
  cases h
  refine ⟨hpos, hlen, hwid, NTV.Hnf.toM n n (scaled B n), ?_, ?_⟩
  · apply Matrix.map_injective (Int.cast_injective (α := ℚ))
    have hmapmul : ∀ X Y : Matrix (Fin n) (Fin n) ℤ,
        (X * Y).map (Int.castRingHom ℚ) = X.map (Int.castRingHom ℚ) * Y.map (Int.castRingHom ℚ) :=
      fun X Y => Matrix.map_mul
    have := hmapmul (NTV.Hnf.toM n n (scaled B n)) (traceMatrix t n)
    rw [hcast, Matrix.smul_mul, hBA] at this
    show ((NTV.Hnf.toM n n (scaled B n)) * traceMatrix t n).map (Int.castRingHom ℚ) = _
    rw [this]
    ext i j
    simp only [Matrix.map_apply, Matrix.smul_apply, Matrix.one_apply, smul_eq_mul]
    split_ifs <;> simp
  · intro v
    rw [hLat, mem_Lat_iff (n := n) (scaled_rect B n).1]
    rfl

namespace DualData
variable {t : Table} {n : Nat} {d : ℤ} {H : Mat}

theorem det_trace_ne_zero (D : DualData t n d H) : (traceMatrix t n).det ≠ 0 := by
  obtain ⟨S, hS, _⟩ := D.ex
  intro h0
  have := congrArg Matrix.det hS
  rw [det_mul, h0, mul_zero, det_smul, det_one, mul_one] at this
  exact pow_ne_zero _ (ne_of_gt D.dpos) this.symm

/-- `L(H) = {h | d ∣ (h · Tr)_j}` -/
theorem mem_iff (D : DualData t n d H) (h : Fin n → ℤ) :
    h ∈ Lat n H ↔ ∀ j, d ∣ (h ᵥ* traceMatrix t n) j := by
  obtain ⟨S, hS, hH⟩ := D.ex
  rw [hH]
  exact rowspan_quotient_iff (traceMatrix t n) S d D.det_trace_ne_zero hS h

theorem smul_mem (D : DualData t n d H) (y : Fin n → ℤ) : d • y ∈ Lat n H := by
  rw [D.mem_iff]
  intro j
  rw [smul_vecMul]
  exact ⟨_, rfl⟩

end DualData

end NTV.IdealInv
