import NTV.Proofs.Lemmas.KummerDedekindD
import NTV.Proofs.Lemmas.DecompProofsA
import NTV.Proofs.Lemmas.DecompProofsC
/-! # Kummer–Dedekind, part E: the ideals returned by the closure of `decompose` are the ideals
`(p, g(ϑ))` of the ring `Rt T`; a successful run of `decompose` in the vocabulary of the abstract development. -/
namespace NTV.KD
open NTV.IdealP NTV.Ord NTV.Hnf NTV.DecompP Polynomial Matrix
open NTV.Alg (modulus cls cls_eq_iff)
open NTV.RowOps (toM Rect ent)
open NTV.PolyG (toPoly coeff_toPoly Canon lc degU)
open NTV.PolyMod (mp Good Factors factorizeModP)
open NTV.Ideal (primeAbove decompose wordOf)

variable {f : List Int} {B : QMat} {n : Nat} {t : Table}

section one
variable (S : Setup f B n) (ht : IsTable f B n t) (T : TableRing t n)
  (h0 : B.getD 0 [] = 1 :: List.replicate (n - 1) 0)
  (Cm : Matrix (Fin n) (Fin n) ℤ) (hC : Cm.map (Int.castRingHom ℚ) * toM n n B = 1)
  (hm : (toPoly f).Monic) (hdeg : (toPoly f).natDegree = n)
include S ht h0 hC hm hdeg

/-- an integer vector whose element of ℚ[x]/(f) is `g(θ)` is `g(ϑ)` -/
theorem ofVec_eq_aeval_of_elt (a : List Int) (G : ℤ[X])
    (h : cls f (toPoly (elt B a)) = cls f (G.map (Int.castRingHom ℚ))) :
    ofVec T (vec n a) = aeval (thetaOf T Cm f) G := by
  apply psiHom_injective S ht T h0
  rw [psiHom_aeval S ht T h0 Cm hC hm hdeg, ← h, psiHom_apply]
  unfold elt
  rw [S.cls_comb, vecQ_map_cast]
  rfl

theorem lat_primeAbove (p : ℕ) [hp : Fact p.Prime] (hcop : IsCoprime Cm.det (p : ℤ)) {g : List Int}
    (hgood : Good p g) (hgl : 2 ≤ g.length) (hlc : lc g = 1) (hdvd : mp p g ∣ mp p f)
    {m : Nat} {P : Mat} {m' : Nat} (h : primeAbove f B t (p : Int) g m = .ok (P, m')) :
    Lat n P = latOf T (Pof p (thetaOf T Cm f) (toPoly g)) ∧ IsNF n P := by
  have H := kdCtx S ht T h0 Cm hC hm hdeg p hcop
  have hf : degU f = n := by
    have : f.isEmpty = false := by
      cases hq : f with
      | nil => have := S.len; rw [hq] at this; simp at this
      | cons a l => rfl
    simp [degU, this, S.len]
  obtain ⟨elem, A, Z, h1, hlen, h2, h3, h4, _, wA, wZ, _, _, lA, lZ, lP, _, _⟩ :=
    primeAbove_lattice_core T hf h
  refine ⟨?_, isNF_of_add wA wZ h4⟩
  have hgne : g ≠ [] := by intro e; rw [e] at hgl; simp at hgl
  obtain ⟨r1, r2, r3⟩ := ratOf_canon g hgood.2
  have hZ : Lat n Z = latOf T (Ideal.span {(p : Rt T)}) := by
    rw [lZ, natCast_eq, latOf_span_singleton]
  have hA : Lat n A = latOf T (Ideal.span {ofVec T (vec n elem)}) := by
    rw [lA, latOf_span_singleton]
  rw [lP, hA, hZ, ← latOf_sup]
  congr 1
  have hspan : Pof p (thetaOf T Cm f) (toPoly g) =
      Ideal.span {aeval (thetaOf T Cm f) (toPoly g)} ⊔ Ideal.span {(p : Rt T)} := by
    unfold Pof
    rw [Ideal.span_insert, sup_comm]
  rw [hspan]
  by_cases hlt : degU (ratOf g) < n
  · -- deg g < n: `elem` is the coordinate vector of g(θ)
    unfold elemSpec at h1
    rw [hf, if_neg (by omega)] at h1
    obtain ⟨_, hsol⟩ := toZBasisInt_spec B n S.rect _ _ h1
    have hlen' : (ratOf g).length ≤ n := by
      unfold degU at hlt
      split at hlt
      · rename_i he; rw [List.isEmpty_iff.mp he]; simp
      · omega
    have helt : elt B elem = ratOf g := elt_of_solution B n S.rect (ratOf g) elem (NTV.PolyG.canon_fromRaw _) hlen' hsol
    have := ofVec_eq_aeval_of_elt S ht T h0 Cm hC hm hdeg elem (toPoly g) (by rw [helt, r3])
    rw [this]
  · -- deg g = n: g ≡ f modulo p, the zero vector is used, P = (p)
    unfold elemSpec at h1
    rw [hf, if_pos (by omega)] at h1
    cases h1
    have hz : ofVec T (vec n (List.replicate n (0 : Int))) = 0 := by
      have hv : vec n (List.replicate n (0 : Int)) = 0 := by
        funext k; simp [vec, List.getD_eq_getElem?_getD]
      rw [hv]; exact ofVec_zero T
    rw [hz]
    have hGmem : aeval (thetaOf T Cm f) (toPoly g) ∈ Ideal.span {(p : Rt T)} := by
      rw [H.aeval_mem_span_p_iff]
      have hgm : (mp p g).Monic := by
        have := (NTV.PolyMod.natDegree_mp p g hgood hgne).2.1
        rw [Monic, this, hlc]; simp
      have hfm : (mp p f).Monic := hm.map _
      have hgd : (mp p g).natDegree = g.length - 1 := (NTV.PolyMod.natDegree_mp p g hgood hgne).1
      have hfd : (mp p f).natDegree = n := by
        unfold mp; rw [hm.natDegree_map, hdeg]
      have hge : n ≤ g.length - 1 := by
        rw [r2] at hlt
        unfold degU at hlt
        have : g.isEmpty = false := by cases hq : g <;> simp_all
        rw [this] at hlt
        simp only [Bool.false_eq_true, if_false] at hlt
        omega
      have := eq_of_monic_of_dvd_of_natDegree_le hgm hfm hdvd (by rw [hfd, hgd]; exact hge)
      show mp p f ∣ mp p g
      rw [this]
    apply le_antisymm
    · apply sup_le
      · rw [Ideal.span_le, Set.singleton_subset_iff]; exact Ideal.zero_mem _
      · exact le_sup_right
    · apply sup_le
      · rw [Ideal.span_le, Set.singleton_subset_iff]; exact Ideal.mem_sup_right hGmem
      · exact le_sup_right

end one

/-! ### the order alone -/

section order
variable {Cm : Matrix (Fin n) (Fin n) ℤ}

theorem canon_of_monic (hmonic : lc f = 1) : Canon f := by
  intro hh
  rw [NTV.PolyG.getLast_eq_getD f hh, NTV.PolyG.lc_eq_getD f hh, hmonic]
  exact one_ne_zero

theorem det_ne_zero_of_inverse (hC : Cm.map (Int.castRingHom ℚ) * toM n n B = 1) : (toM n n B).det ≠ 0 := by
  intro h
  have := congrArg Matrix.det hC
  rw [Matrix.det_mul, h, mul_zero, Matrix.det_one] at this
  exact zero_ne_one this

/-- monic `f` of degree `n ≥ 1` and a basis matrix with an integral inverse satisfy the standing hypotheses of C14 -/
theorem setup_of (hn : 1 ≤ n) (hfl : f.length = n + 1) (hmonic : lc f = 1) (hB : Rect n n B)
    (hC : Cm.map (Int.castRingHom ℚ) * toM n n B = 1) : Setup f B n :=
  ⟨canon_of_monic hmonic, hfl, hn, hB, det_ne_zero_of_inverse hC⟩

/-- the table of an order containing ℤ[θ] whose first basis vector is 1 is a commutative ring on ℤⁿ -/
theorem tableRing_of (hn : 1 ≤ n) (hfl : f.length = n + 1) (hmonic : lc f = 1) (hB : Rect n n B)
    (hC : Cm.map (Int.castRingHom ℚ) * toM n n B = 1) (ht : IsTable f B n t)
    (h0 : B.getD 0 [] = 1 :: List.replicate (n - 1) 0) : TableRing t n :=
  tableRing_of_isTable (setup_of hn hfl hmonic hB hC) ht h0

end order

/-! ### a successful run of `decompose` -/

/-- the standing hypotheses of the Kummer–Dedekind theorems: `f` monic of degree `n ≥ 1`; `B` the `n × n` basis
matrix of an order containing ℤ[θ] (`Cm · B = 1` with `Cm` integral: row `c` of `Cm` holds the coordinates of
`θ^c`) whose first basis vector is 1; `t` its multiplication table; `p` prime; the run of `decompose` on the
draw stream `s` returned `res`. -/
structure Run (f : List Int) (n : Nat) (B : QMat) (t : Table) (Cm : Matrix (Fin n) (Fin n) ℤ) (p : Nat)
    (s : NTV.Draw.Stream) (res : List (Mat × Nat)) : Prop where
  hn : 1 ≤ n
  hfl : f.length = n + 1
  hmonic : lc f = 1
  hB : Rect n n B
  hC : Cm.map (Int.castRingHom ℚ) * toM n n B = 1
  ht : IsTable f B n t
  h0 : B.getD 0 [] = 1 :: List.replicate (n - 1) 0
  hp : p.Prime
  hlen : 2 ^ 64 ≤ p → f.length < 2 ^ 64
  ok : decompose f B t (p : Int) s = .ok res

namespace Run
variable {Cm : Matrix (Fin n) (Fin n) ℤ} {p : Nat} {s : NTV.Draw.Stream} {res : List (Mat × Nat)}

theorem ne_nil (R : Run f n B t Cm p s res) : f ≠ [] := by
  intro e; have := R.hfl; rw [e] at this; simp at this

theorem canon (R : Run f n B t Cm p s res) : Canon f := by
  intro hh
  rw [NTV.PolyG.getLast_eq_getD f hh, NTV.PolyG.lc_eq_getD f hh, R.hmonic]
  exact one_ne_zero

theorem monic (R : Run f n B t Cm p s res) : (toPoly f).Monic := by
  obtain ⟨_, d2, _⟩ := NTV.PolyG.natDegree_toPoly f R.ne_nil R.canon
  rw [Monic, d2, R.hmonic]

theorem natDegree (R : Run f n B t Cm p s res) : (toPoly f).natDegree = n := by
  obtain ⟨d1, _, _⟩ := NTV.PolyG.natDegree_toPoly f R.ne_nil R.canon
  rw [d1, R.hfl]; rfl

theorem det_ne_zero (R : Run f n B t Cm p s res) : (toM n n B).det ≠ 0 := by
  intro h
  have := congrArg Matrix.det R.hC
  rw [Matrix.det_mul, h, mul_zero, Matrix.det_one] at this
  exact zero_ne_one this

theorem setup (R : Run f n B t Cm p s res) : Setup f B n :=
  ⟨R.canon, R.hfl, R.hn, R.hB, R.det_ne_zero⟩

theorem tableRing (R : Run f n B t Cm p s res) : TableRing t n :=
  tableRing_of_isTable R.setup R.ht R.h0

/-- the index computed by the routine is `det Cm` -/
theorem index_eq (R : Run f n B t Cm p s res) : index B (identityQ n) = .ok Cm.det := by
  apply NTV.C15.index_is_det_of_change_of_basis B (identityQ n) n R.hB (identityQ_rect n) R.det_ne_zero Cm
  rw [identityQ_toM]
  exact R.hC.symm

theorem word (R : Run f n B t Cm p s res) : wordOf (p : Int) = p ∨ f.length ≤ p := by
  rcases Nat.lt_or_ge p (2 ^ 64) with h1 | h1
  · left
    have hc : (0 : Int) ≤ (p : Int) ∧ (p : Int) < 2 ^ 64 := ⟨by omega, by exact_mod_cast h1⟩
    unfold wordOf; rw [if_pos hc]; omega
  · right; have := R.hlen h1; omega

/-- **what a successful run went through**, in the vocabulary of C08: the modular factors `(g_i, e_i)`, the
returned pairs position by position, the index guard as coprimality, and the facts on the factors -/
theorem core (R : Run f n B t Cm p s res) [hp : Fact p.Prime] :
    ∃ fs : Factors, factorizeModP f (p : Int) (wordOf p) s = .ok fs ∧ res.length = fs.length ∧
      (∀ i (h1 : i < fs.length) (h2 : i < res.length),
        res[i].2 = fs[i].2 ∧ primeAbove f B t (p : Int) fs[i].1 fs[i].2 = .ok (res[i].1, res[i].2)) ∧
      IsCoprime Cm.det (p : ℤ) ∧
      (∀ x ∈ fs, NTV.PolyMod.Shape p x ∧ Irreducible (mp p x.1)) ∧ (fs.map Prod.fst).Nodup ∧
      mp p f = NTV.PolyMod.fprod p fs := by
  obtain ⟨z, idx, fs, _, hz, hidx, _, hmod, hfs, hmap⟩ := decompose_ok R.ok
  obtain ⟨hl, hpt⟩ := (mapM_ok_iff _ fs res).mp hmap
  have hz' := (NTV.C15.power_basis_discriminant f n R.hn R.hfl R.hmonic).1
  rw [hz'] at hz
  cases hz
  rw [R.index_eq] at hidx
  cases hidx
  have hnd : ¬ (p : ℤ) ∣ Cm.det := fun hd => hmod (Int.dvd_iff_tmod_eq_zero.mp hd)
  have hcop : IsCoprime Cm.det (p : ℤ) := by
    rw [Int.isCoprime_iff_gcd_eq_one]
    have h1 : Int.gcd Cm.det (p : ℤ) = Nat.gcd Cm.det.natAbs p := rfl
    rw [h1, Nat.gcd_comm]
    apply (Nat.Prime.coprime_iff_not_dvd hp.out).mpr
    intro hd
    exact hnd (Int.natCast_dvd.mpr hd)
  obtain ⟨c1, c2, _⟩ := NTV.PolyMod.factorizeModP_spec p f (wordOf p) s fs R.word hfs
  obtain ⟨d1, d2⟩ := NTV.PolyMod.factorizeModP_irreducible_nodup p f (wordOf p) s fs R.word hfs
  have hmm : (mp p f).Monic := R.monic.map _
  rw [hmm.leadingCoeff, map_one, one_mul] at c1
  refine ⟨fs, hfs, hl, fun i h1 h2 => ?_, hcop, fun x hx => ⟨c2 x hx, d1 x hx⟩, d2, c1⟩
  have hi := hpt i h1 h2
  have : (res[i].1, res[i].2) = res[i] := rfl
  rw [← this] at hi
  exact ⟨primeAbove_snd hi, hi⟩

/-- **the run in the vocabulary of the abstract development**: the hypotheses `Ctx` hold for the ring
`Rt T` of the table and the class `ϑ` of x; the i-th returned ideal is `(p, g_i(ϑ))`; the `ḡ_i` are monic
irreducible divisors of `f̄`, pairwise coprime, with `∏ ḡ_i^{e_i} = f̄`. -/
theorem kd (R : Run f n B t Cm p s res) [hp : Fact p.Prime] :
    ∃ fs : Factors, factorizeModP f (p : Int) (wordOf p) s = .ok fs ∧ ∃ hl : res.length = fs.length,
      (∀ i : Fin fs.length, (res[i.1]'(by rw [hl]; exact i.2)).2 = fs[i.1].2) ∧
      Ctx p (toVec R.tableRing) (thetaOf R.tableRing Cm f) (toPoly f) Cm ∧
      (∀ i : Fin fs.length, Lat n (res[i.1]'(by rw [hl]; exact i.2)).1 =
          latOf R.tableRing (Pof p (thetaOf R.tableRing Cm f) (toPoly fs[i.1].1)) ∧
        IsNF n (res[i.1]'(by rw [hl]; exact i.2)).1) ∧
      (∀ i : Fin fs.length, NTV.PolyMod.Shape p fs[i.1] ∧ (mp p fs[i.1].1).Monic ∧ Irreducible (mp p fs[i.1].1) ∧
        mp p fs[i.1].1 ∣ mp p f) ∧
      (∀ i j : Fin fs.length, i ≠ j → IsCoprime (mp p fs[i.1].1) (mp p fs[j.1].1)) ∧
      ∏ i : Fin fs.length, mp p fs[i.1].1 ^ fs[i.1].2 = mp p f := by
  obtain ⟨fs, hfs, hl, hpt, hcop, hsh, hnd, hprod⟩ := R.core
  have H := kdCtx R.setup R.ht R.tableRing R.h0 Cm R.hC R.monic R.natDegree p hcop
  have hprod' : ∏ i : Fin fs.length, mp p fs[i.1].1 ^ fs[i.1].2 = mp p f := by
    rw [hprod]
    unfold NTV.PolyMod.fprod
    exact Fin.prod_univ_fun_getElem fs (fun x => mp p x.1 ^ x.2)
  have hdvd : ∀ i : Fin fs.length, mp p fs[i.1].1 ∣ mp p f := by
    intro i
    rw [← hprod']
    have he : fs[i.1].2 ≠ 0 := by
      have := (hsh _ (List.getElem_mem i.2)).1.2.2.2
      omega
    exact (dvd_pow_self _ he).trans (Finset.dvd_prod_of_mem _ (Finset.mem_univ i))
  refine ⟨fs, hfs, hl, fun i => (hpt i.1 i.2 (by rw [hl]; exact i.2)).1, H, fun i => ?_, fun i => ?_, ?_, hprod'⟩
  · obtain ⟨sh, _⟩ := hsh _ (List.getElem_mem i.2)
    exact lat_primeAbove R.setup R.ht R.tableRing R.h0 Cm R.hC R.monic R.natDegree p hcop sh.1 sh.2.2.1 sh.2.1
      (hdvd i) (hpt i.1 i.2 (by rw [hl]; exact i.2)).2
  · obtain ⟨sh, hirr⟩ := hsh _ (List.getElem_mem i.2)
    exact ⟨sh, NTV.PolyMod.Shape.monic p sh, hirr, hdvd i⟩
  · intro i j hij
    obtain ⟨shi, hirri⟩ := hsh _ (List.getElem_mem i.2)
    obtain ⟨shj, hirrj⟩ := hsh _ (List.getElem_mem j.2)
    rw [hirri.coprime_iff_not_dvd]
    intro hd
    have hass := hirri.associated_of_dvd hirrj hd
    have heq := eq_of_monic_of_associated (NTV.PolyMod.Shape.monic p shi) (NTV.PolyMod.Shape.monic p shj) hass
    have h1 := NTV.PolyMod.mp_inj p _ _ shi.1 shj.1 heq
    have h2 : (fs.map Prod.fst)[i.1]'(by simp) = (fs.map Prod.fst)[j.1]'(by simp) := by
      simp only [List.getElem_map]; exact h1
    have := (List.Nodup.getElem_inj_iff hnd).mp h2
    exact hij (Fin.ext this)

end Run

end NTV.KD
