import NTV.Proofs.Lemmas.ZassenhausHensel
import NTV.Proofs.Lemmas.PolyZProofs3
/-! # Berlekamp–Zassenhaus, part 2: the recombination invariant (no model here)

`cnt P L h` = number of lifted factors `G ∈ L` whose reduction modulo `P` divides that of `h`.
`Inv P e A a L d`: the state of the recombination loop: `a ∣ A` is what is left, `L` are the lifted factors
that belong to it, and every non-unit divisor of `a` owns at least `d` of them.
* `Inv.init`  : the invariant holds at the start with `d = 1`;
* `Inv.step`  : an accepted candidate (a subset `T` of `d` lifted factors whose product is, modulo `P^e` and up
  to a constant, an exact divisor `pp` of `a`) is irreducible, and the invariant is kept;
* `Inv.next`  : if no divisor owns exactly `d` factors the invariant holds for `d + 1`;
* `Inv.exit`  : when `|L| < 2d` what is left is irreducible;
* `Inv.candidate`: for a true divisor `h`, `lc(h')·h ≡ lc(a)·∏ {G | ψG ∣ ψh}` and divides `lc(a)·a`. -/
open Polynomial
namespace NTV.Zas
open NTV.Hensel NTV.PolyMod

/-! ### counting -/

theorem countP_add_le {α : Type*} (p1 p2 p : α → Bool) : ∀ (L : List α),
    (∀ x ∈ L, (p1 x = true → p x = true) ∧ (p2 x = true → p x = true) ∧ ¬ (p1 x = true ∧ p2 x = true)) →
    L.countP p1 + L.countP p2 ≤ L.countP p
  | [], _ => by simp
  | x :: L, h => by
    have ih := countP_add_le p1 p2 p L (fun y hy => h y (List.mem_cons_of_mem _ hy))
    obtain ⟨h1, h2, h3⟩ := h x List.mem_cons_self
    simp only [List.countP_cons]
    cases hp1 : p1 x <;> cases hp2 : p2 x <;> cases hp : p x <;> simp_all <;> omega

theorem countP_eq_zero_of {α : Type*} (p : α → Bool) (L : List α) (h : ∀ x ∈ L, p x ≠ true) :
    L.countP p = 0 := by
  rw [List.countP_eq_zero]; exact h

open Classical in
/-- number of lifted factors whose reduction divides the reduction of `h` -/
noncomputable def cnt (P : ℕ) (L : List ℤ[X]) (h : ℤ[X]) : ℕ := L.countP (fun G => rd P G ∣ rd P h)

theorem cnt_le_length (P : ℕ) (L : List ℤ[X]) (h : ℤ[X]) : cnt P L h ≤ L.length := List.countP_le_length

theorem cnt_perm (P : ℕ) {L L' : List ℤ[X]} (hp : L.Perm L') (h : ℤ[X]) : cnt P L h = cnt P L' h :=
  hp.countP_eq _

theorem cnt_append (P : ℕ) (L L' : List ℤ[X]) (h : ℤ[X]) : cnt P (L ++ L') h = cnt P L h + cnt P L' h :=
  List.countP_append

open Classical in
theorem cnt_eq_zero (P : ℕ) (L : List ℤ[X]) (h : ℤ[X]) (hz : ∀ G ∈ L, ¬ rd P G ∣ rd P h) : cnt P L h = 0 := by
  apply countP_eq_zero_of
  intro G hG; simpa using hz G hG

open Classical in
theorem cnt_pos (P : ℕ) (L : List ℤ[X]) (h : ℤ[X]) (G : ℤ[X]) (hG : G ∈ L) (hd : rd P G ∣ rd P h) :
    1 ≤ cnt P L h := by
  unfold cnt
  exact List.countP_pos_iff.mpr ⟨G, hG, by simpa using hd⟩

open Classical in
theorem cnt_filter (P : ℕ) (L : List ℤ[X]) (h : ℤ[X]) :
    (L.filter (fun G => rd P G ∣ rd P h)).length = cnt P L h := by
  unfold cnt; rw [List.countP_eq_length_filter]

/-! ### consequences of `Lifted` -/
section lifted
variable {P e : ℕ} {a : ℤ[X]} {L : List ℤ[X]}

theorem Lifted.fact (H : Lifted P e a L) : Fact P.Prime := ⟨H.prime⟩

/-- the product congruence modulo P -/
theorem Lifted.prodP (H : Lifted P e a L) :
    rd P a = C (Int.castRingHom (ZMod P) a.leadingCoeff) * (L.map (rd P)).prod := by
  have h1 : PCong (P : ℤ) (C a.leadingCoeff * L.prod) a :=
    PCong.of_dvd (dvd_pow_self _ (by have := H.epos; omega)) H.prod
  have : rd P (C a.leadingCoeff * L.prod) = rd P a := (pcong_iff_map P _ _).mp h1
  rw [← this]
  simp only [rd, Polynomial.map_mul, Polynomial.map_C, Polynomial.map_list_prod]

theorem Lifted.dvd_a (H : Lifted P e a L) {G : ℤ[X]} (hG : G ∈ L) : rd P G ∣ rd P a := by
  rw [H.prodP]
  exact Dvd.dvd.mul_left (List.dvd_prod (List.mem_map_of_mem hG)) _

theorem Lifted.lc_ne (H : Lifted P e a L) : Int.castRingHom (ZMod P) a.leadingCoeff ≠ 0 := by
  have := H.fact
  rw [eq_intCast, Ne, ZMod.intCast_zmod_eq_zero_iff_dvd]
  exact H.lc

/-- a divisor with non-unit reduction owns a lifted factor -/
theorem Lifted.exists_factor (H : Lifted P e a L) {h : ℤ[X]} (hd : h ∣ a) (hnu : ¬ IsUnit (rd P h)) :
    ∃ G ∈ L, rd P G ∣ rd P h := by
  have := H.fact
  have ha0 : rd P a ≠ 0 := by
    rw [H.prodP]
    apply mul_ne_zero (by rw [Ne, C_eq_zero]; exact H.lc_ne)
    have : (L.map (rd P)).prod.Monic := by
      apply monic_list_prod'
      intro y hy
      obtain ⟨G, hG, rfl⟩ := List.mem_map.mp hy
      exact (H.monic G hG).map _
    exact this.ne_zero
  have hda : rd P h ∣ rd P a := Polynomial.map_dvd _ hd
  have hh0 : rd P h ≠ 0 := ne_zero_of_dvd_ne_zero ha0 hda
  obtain ⟨π, hπ, hπh⟩ := WfDvdMonoid.exists_irreducible_factor hnu hh0
  have hπa : π ∣ C (Int.castRingHom (ZMod P) a.leadingCoeff) * (L.map (rd P)).prod := by
    rw [← H.prodP]; exact hπh.trans hda
  have hπp : Prime π := hπ.prime
  rcases hπp.dvd_or_dvd hπa with h1 | h1
  · exfalso
    exact hπ.not_isUnit (isUnit_of_dvd_unit h1 (isUnit_C.mpr (IsUnit.mk0 _ H.lc_ne)))
  · obtain ⟨y, hy, hπy⟩ := hπp.dvd_prod_iff.mp h1
    obtain ⟨G, hG, rfl⟩ := List.mem_map.mp hy
    refine ⟨G, hG, ?_⟩
    exact ((hπ.associated_of_dvd (H.irr G hG) hπy).symm.dvd).trans hπh

/-- two factors of a divisor of `a` own disjoint sets of lifted factors -/
theorem Lifted.cnt_add (H : Lifted P e a L) {h1 h2 : ℤ[X]} (hd : h1 * h2 ∣ a) :
    cnt P L h1 + cnt P L h2 ≤ cnt P L (h1 * h2) := by
  classical
  unfold cnt
  apply countP_add_le
  intro G hG
  simp only [decide_eq_true_eq]
  refine ⟨fun h => ?_, fun h => ?_, fun ⟨a1, a2⟩ => ?_⟩
  · simp only [rd, Polynomial.map_mul]; exact Dvd.dvd.mul_right h _
  · simp only [rd, Polynomial.map_mul]; exact Dvd.dvd.mul_left h _
  · have hsq : Squarefree (rd P (h1 * h2)) := H.sqf.squarefree_of_dvd (Polynomial.map_dvd _ hd)
    exact not_dvd_both rfl hsq (H.irr G hG) a1 a2

/-- normalisation of the constant: if `c·M ≡ a` with `M` monic then `deg a = deg M` and `c ≡ lc a` -/
theorem normalise_const {P e : ℕ} (hP : P.Prime) (he : 1 ≤ e) {a M : ℤ[X]} {c : ℤ} (hM : M.Monic)
    (hlc : ¬ (P : ℤ) ∣ a.leadingCoeff) (h : PCong ((P : ℤ) ^ e) (C c * M) a) :
    a.natDegree = M.natDegree ∧ PCong ((P : ℤ) ^ e) (C a.leadingCoeff * M) a := by
  have _ : Fact (1 < P ^ e) := ⟨one_lt_pow' hP he⟩
  obtain ⟨u1, u2, u3⟩ := rd_lc hP he hlc
  have h1 := (pcong_pow_iff P e _ _).mp h
  have h2 : C (Int.castRingHom (ZMod (P ^ e)) c) * rd (P ^ e) M = rd (P ^ e) a := by
    rw [← h1]; simp only [rd, Polynomial.map_mul, Polynomial.map_C]
  have hMm : (rd (P ^ e) M).Monic := hM.map _
  have hc0 : Int.castRingHom (ZMod (P ^ e)) c ≠ 0 := by
    intro h0
    rw [h0, C_0, zero_mul] at h2
    rw [← h2, leadingCoeff_zero] at u3
    exact not_isUnit_zero u3
  have hlc' : (rd (P ^ e) a).leadingCoeff = Int.castRingHom (ZMod (P ^ e)) c := by
    rw [← h2, leadingCoeff_mul_monic hMm, leadingCoeff_C]
  have hdeg : (rd (P ^ e) a).natDegree = M.natDegree := by
    rw [← h2, natDegree_C_mul_of_mul_ne_zero (by rw [hMm.leadingCoeff, mul_one]; exact hc0),
      hM.natDegree_map]
  refine ⟨by rw [← u2, hdeg], ?_⟩
  rw [pcong_pow_iff, ← h2]
  simp only [rd, Polynomial.map_mul, Polynomial.map_C]
  rw [← u1, hlc']

theorem Lifted.natDegree_eq (H : Lifted P e a L) : a.natDegree = L.prod.natDegree :=
  (normalise_const H.prime H.epos (monic_list_prod' L H.monic) H.lc H.prod).1

end lifted

/-! ### the invariant -/

/-- the fixed data: `A` primitive (the polynomial handed to the recombination) -/
structure Inv (P e : ℕ) (A a : ℤ[X]) (L : List ℤ[X]) (d : ℕ) : Prop where
  prim : A.IsPrimitive
  dvd : a ∣ A
  lifted : Lifted P e a L
  nonunit : ¬ IsUnit a
  dpos : 1 ≤ d
  big : ∀ h, h ∣ a → ¬ IsUnit h → d ≤ cnt P L h

section inv
variable {P e : ℕ} {A a : ℤ[X]} {L : List ℤ[X]} {d : ℕ}

/-- a non-unit divisor of a primitive polynomial has a non-unit reduction modulo a prime not dividing the
leading coefficient -/
theorem rd_not_isUnit (hP : P.Prime) {A h : ℤ[X]} (hprim : A.IsPrimitive) (hd : h ∣ A)
    (hlc : ¬ (P : ℤ) ∣ A.leadingCoeff) (hnu : ¬ IsUnit h) : ¬ IsUnit (rd P h) := by
  have _ : Fact P.Prime := ⟨hP⟩
  have hdeg := NTV.PolyZ.Alg.natDegree_pos_of_dvd_primitive hprim hd hnu
  obtain ⟨k, hk⟩ := hd
  have hl := (lc_factor hk hlc).1
  have := (rd_lc_one hP hl).1
  intro hu
  have := natDegree_eq_zero_of_isUnit hu
  omega

/-- start of the loop -/
theorem Inv.init (hprim : A.IsPrimitive) (H : Lifted P e A L) (hnu : ¬ IsUnit A) : Inv P e A A L 1 := by
  refine ⟨hprim, dvd_refl _, H, hnu, le_refl _, ?_⟩
  intro h hd hnu'
  obtain ⟨G, hG, hGd⟩ := H.exists_factor hd (rd_not_isUnit H.prime hprim hd H.lc hnu')
  exact cnt_pos P L h G hG hGd

/-- no divisor owns exactly `d` factors: go on with `d + 1` -/
theorem Inv.next (I : Inv P e A a L d) (hno : ∀ h, h ∣ a → ¬ IsUnit h → cnt P L h ≠ d) :
    Inv P e A a L (d + 1) := by
  refine ⟨I.prim, I.dvd, I.lifted, I.nonunit, by omega, ?_⟩
  intro h hd hnu
  have := I.big h hd hnu
  have := hno h hd hnu
  omega

/-- fewer than `2d` lifted factors left: what is left is irreducible -/
theorem Inv.exit (I : Inv P e A a L d) (hlen : L.length < 2 * d) : Irreducible a := by
  rw [irreducible_iff]
  refine ⟨I.nonunit, ?_⟩
  intro h1 h2 hfac
  by_contra hcon
  rw [not_or] at hcon
  have c1 := I.big h1 ⟨h2, hfac⟩ hcon.1
  have c2 := I.big h2 ⟨h1, by rw [hfac]; ring⟩ hcon.2
  have c3 := I.lifted.cnt_add (h1 := h1) (h2 := h2) (by rw [hfac])
  have c4 := cnt_le_length P L (h1 * h2)
  omega

/-- the candidate that the enumeration meets for a true divisor `h` (with cofactor `h'`):
`D = lc(h')·h` is congruent to `lc(a)·∏ {G ∈ L | ψG ∣ ψh}` modulo `P^e` and divides `lc(a)·a` -/
theorem Lifted.candidate (H : Lifted P e a L) {h h' : ℤ[X]} (hfac : a = h * h') :
    (open Classical in
      PCong ((P : ℤ) ^ e) (C h'.leadingCoeff * h)
        (C a.leadingCoeff * (L.filter (fun G => rd P G ∣ rd P h)).prod)) ∧
    C h'.leadingCoeff * h ∣ C a.leadingCoeff * a := by
  classical
  constructor
  · have h1 := (hensel_subset H hfac).1
    have h2 := PCong.mul (PCong.refl ((P : ℤ) ^ e) (C h'.leadingCoeff)) h1
    refine h2.symm.trans ?_
    have : C h'.leadingCoeff * (C h.leadingCoeff * (L.filter (fun G => rd P G ∣ rd P h)).prod)
        = C a.leadingCoeff * (L.filter (fun G => rd P G ∣ rd P h)).prod := by
      rw [hfac, leadingCoeff_mul, C_mul]; ring
    rw [this]
    exact PCong.refl _ _
  · refine ⟨C h.leadingCoeff * h', ?_⟩
    rw [hfac, leadingCoeff_mul, C_mul]; ring

theorem isUnit_rd (m : ℕ) {F : ℤ[X]} (h : IsUnit F) : IsUnit (rd m F) :=
  h.map (mapRingHom (Int.castRingHom (ZMod m)))

/-- in `R[X]`, `C u * M` with `u` a unit and `M` monic can be cancelled on the left -/
theorem unit_monic_cancel {R : Type*} [CommRing R] {u : R} {M y z : R[X]} (hu : IsUnit u) (hM : M.Monic)
    (h : C u * M * y = C u * M * z) : y = z := by
  rw [mul_assoc, mul_assoc] at h
  exact hM.isRegular.left ((isUnit_C.mpr hu).mul_left_cancel h)

/-- the lifted factors left after an accepted candidate belong to the new cofactor -/
theorem Lifted.step (H : Lifted P e a L) {T T' : List ℤ[X]} (hperm : L.Perm (T ++ T'))
    {prod' pp a' : ℤ[X]} {c : ℤ} (hcong : PCong ((P : ℤ) ^ e) prod' (C a.leadingCoeff * T.prod))
    (hpp : prod' = C c * pp) (hfac : a = a' * pp) :
    Lifted P e a' T' ∧ ∀ G ∈ T, rd P G ∣ rd P pp := by
  have hF := H.fact
  have _ : Fact (1 < P ^ e) := ⟨one_lt_pow' H.prime H.epos⟩
  have memT : ∀ G ∈ T, G ∈ L := fun G hG => hperm.mem_iff.mpr (List.mem_append_left _ hG)
  have memT' : ∀ G ∈ T', G ∈ L := fun G hG => hperm.mem_iff.mpr (List.mem_append_right _ hG)
  have hmT : T.prod.Monic := monic_list_prod' T fun G hG => H.monic G (memT G hG)
  have hmT' : T'.prod.Monic := monic_list_prod' T' fun G hG => H.monic G (memT' G hG)
  obtain ⟨l1, l2⟩ := lc_factor hfac H.lc
  -- modulo P
  have hP1 : PCong (P : ℤ) prod' (C a.leadingCoeff * T.prod) :=
    PCong.of_dvd (dvd_pow_self _ (by have := H.epos; omega)) hcong
  have e1 : C (Int.castRingHom (ZMod P) c) * rd P pp
      = C (Int.castRingHom (ZMod P) a.leadingCoeff) * rd P T.prod := by
    have : rd P prod' = rd P (C a.leadingCoeff * T.prod) := (pcong_iff_map P _ _).mp hP1
    rw [hpp] at this
    simpa only [rd, Polynomial.map_mul, Polynomial.map_C] using this
  have hc0 : Int.castRingHom (ZMod P) c ≠ 0 := by
    intro h0
    rw [h0, C_0, zero_mul] at e1
    exact mul_ne_zero (by rw [Ne, C_eq_zero]; exact H.lc_ne) (hmT.map _).ne_zero e1.symm
  have hTpp : rd P T.prod ∣ rd P pp := by
    refine ⟨C ((Int.castRingHom (ZMod P) c)⁻¹ * Int.castRingHom (ZMod P) a.leadingCoeff), ?_⟩
    have h2 : rd P pp = C ((Int.castRingHom (ZMod P) c)⁻¹) * (C (Int.castRingHom (ZMod P) c) * rd P pp) := by
      rw [← mul_assoc, ← C_mul, inv_mul_cancel₀ hc0, C_1, one_mul]
    rw [h2, e1, C_mul]; ring
  have dvdT : ∀ G ∈ T, rd P G ∣ rd P pp := by
    intro G hG
    refine Dvd.dvd.trans ?_ hTpp
    simp only [rd, Polynomial.map_list_prod]
    exact List.dvd_prod (List.mem_map_of_mem hG)
  refine ⟨?_, dvdT⟩
  -- modulo P^e
  have hcP : ¬ (P : ℤ) ∣ c := by
    intro h; apply hc0; rw [eq_intCast, ZMod.intCast_zmod_eq_zero_iff_dvd]; exact h
  have hu := isUnit_cast H.prime e H.lc
  have x1 : rd (P ^ e) prod'
      = C (Int.castRingHom (ZMod (P ^ e)) a.leadingCoeff) * rd (P ^ e) T.prod := by
    have := (pcong_pow_iff P e _ _).mp hcong
    rw [this]; simp only [rd, Polynomial.map_mul, Polynomial.map_C]
  have x2 : rd (P ^ e) prod' = C (Int.castRingHom (ZMod (P ^ e)) c) * rd (P ^ e) pp := by
    rw [hpp]; simp only [rd, Polynomial.map_mul, Polynomial.map_C]
  have hLprod : L.prod = T.prod * T'.prod := by rw [hperm.prod_eq, List.prod_append]
  have x3 : rd (P ^ e) a
      = C (Int.castRingHom (ZMod (P ^ e)) a.leadingCoeff) * rd (P ^ e) T.prod * rd (P ^ e) T'.prod := by
    have := (pcong_pow_iff P e _ _).mp H.prod
    rw [← this, hLprod]; simp only [rd, Polynomial.map_mul, Polynomial.map_C]; ring
  have x4 : rd (P ^ e) a = rd (P ^ e) a' * rd (P ^ e) pp := by
    rw [hfac]; simp only [rd, Polynomial.map_mul]
  have x5 : rd (P ^ e) a' = C (Int.castRingHom (ZMod (P ^ e)) c) * rd (P ^ e) T'.prod := by
    apply unit_monic_cancel hu (hmT.map (Int.castRingHom (ZMod (P ^ e))))
    have y1 : C (Int.castRingHom (ZMod (P ^ e)) a.leadingCoeff) * Polynomial.map (Int.castRingHom (ZMod (P ^ e))) T.prod
        = C (Int.castRingHom (ZMod (P ^ e)) c) * rd (P ^ e) pp := by rw [← x2, x1]
    calc C (Int.castRingHom (ZMod (P ^ e)) a.leadingCoeff) * Polynomial.map (Int.castRingHom (ZMod (P ^ e))) T.prod
          * rd (P ^ e) a'
        = C (Int.castRingHom (ZMod (P ^ e)) c) * (rd (P ^ e) a' * rd (P ^ e) pp) := by rw [y1]; ring
      _ = C (Int.castRingHom (ZMod (P ^ e)) c) * rd (P ^ e) a := by rw [x4]
      _ = _ := by rw [x3]; ring
  have x6 : PCong ((P : ℤ) ^ e) (C c * T'.prod) a' := by
    rw [pcong_pow_iff, x5]; simp only [rd, Polynomial.map_mul, Polynomial.map_C]
  exact ⟨H.prime, H.epos, l1, H.sqf.squarefree_of_dvd (Polynomial.map_dvd _ ⟨pp, hfac⟩),
    fun G hG => H.monic G (memT' G hG), fun G hG => H.irr G (memT' G hG),
    (normalise_const H.prime H.epos hmT' l1 x6).2⟩

/-- **Z2, uniqueness of the subset.** If `a = h·h'` and the lifted list is split as `L ~ T ++ T'` with
`h ≡ lc(h)·∏ T (mod P^e)`, then `T` consists exactly of the lifted factors whose reduction divides that of
`h`: every `G ∈ T` divides `h` modulo `P` and no `G ∈ T'` does. -/
theorem Lifted.subset_unique (H : Lifted P e a L) {T T' : List ℤ[X]} (hperm : L.Perm (T ++ T'))
    {h h' : ℤ[X]} (hfac : a = h * h') (hc : PCong ((P : ℤ) ^ e) (C h.leadingCoeff * T.prod) h) :
    (∀ G ∈ T, rd P G ∣ rd P h) ∧ (∀ G ∈ T', ¬ rd P G ∣ rd P h) := by
  have hfac' : a = h' * h := by rw [hfac]; ring
  have hcong : PCong ((P : ℤ) ^ e) (C h'.leadingCoeff * h) (C a.leadingCoeff * T.prod) := by
    have := PCong.mul (PCong.refl ((P : ℤ) ^ e) (C h'.leadingCoeff)) hc
    refine this.symm.trans ?_
    have e1 : C h'.leadingCoeff * (C h.leadingCoeff * T.prod) = C a.leadingCoeff * T.prod := by
      rw [hfac, leadingCoeff_mul, C_mul]; ring
    rw [e1]; exact PCong.refl _ _
  obtain ⟨H', dvdT⟩ := H.step hperm hcong rfl hfac'
  refine ⟨dvdT, fun G hG hd => ?_⟩
  have memT' : G ∈ L := hperm.mem_iff.mpr (List.mem_append_right _ hG)
  exact not_dvd_both hfac' H.sqf (H.irr G memT') (H'.dvd_a hG) hd

/-- **Z3, the step.** An accepted candidate — a sub-list `T` of `d` lifted factors (`L ~ T ++ T'`), a
polynomial `prod' ≡ lc(a)·∏ T (mod P^e)` whose primitive part `pp` (`prod' = c·pp`) divides `a` exactly
(`a = a'·pp`) — is irreducible, and the invariant holds for the cofactor with the remaining factors. -/
theorem Inv.step (I : Inv P e A a L d) {T T' : List ℤ[X]} (hperm : L.Perm (T ++ T')) (hT : T.length = d)
    (hlen : 2 * d ≤ L.length) {prod' pp a' : ℤ[X]} {c : ℤ}
    (hcong : PCong ((P : ℤ) ^ e) prod' (C a.leadingCoeff * T.prod))
    (hpp : prod' = C c * pp) (hfac : a = a' * pp) :
    Irreducible pp ∧ Inv P e A a' T' d := by
  have H := I.lifted
  have hF := H.fact
  obtain ⟨H', dvdT⟩ := H.step hperm hcong hpp hfac
  have memT : ∀ G ∈ T, G ∈ L := fun G hG => hperm.mem_iff.mpr (List.mem_append_left _ hG)
  have memT' : ∀ G ∈ T', G ∈ L := fun G hG => hperm.mem_iff.mpr (List.mem_append_right _ hG)
  have hlenL : L.length = T.length + T'.length := by rw [hperm.length_eq, List.length_append]
  have hdpos := I.dpos
  -- lifted factors of T do not divide a', those of T' do not divide pp
  have sepT : ∀ G ∈ T, ¬ rd P G ∣ rd P a' := fun G hG hd =>
    not_dvd_both hfac H.sqf (H.irr G (memT G hG)) hd (dvdT G hG)
  have sepT' : ∀ G ∈ T', ¬ rd P G ∣ rd P pp := fun G hG hd =>
    not_dvd_both hfac H.sqf (H.irr G (memT' G hG)) (H'.dvd_a hG) hd
  have cntL : ∀ h, cnt P L h = cnt P T h + cnt P T' h := fun h => by
    rw [cnt_perm P hperm, cnt_append]
  constructor
  · rw [irreducible_iff]
    constructor
    · intro hu
      obtain ⟨G, hG⟩ := List.exists_mem_of_length_pos (l := T) (by omega)
      exact (H.irr G (memT G hG)).not_isUnit (isUnit_of_dvd_unit (dvdT G hG) (isUnit_rd P hu))
    · intro h1 h2 hf
      by_contra hcon
      rw [not_or] at hcon
      have hd12 : h1 * h2 ∣ a := ⟨a', by rw [hfac, hf]; ring⟩
      have c1 := I.big h1 (Dvd.dvd.trans ⟨h2, rfl⟩ hd12) hcon.1
      have c2 := I.big h2 (Dvd.dvd.trans ⟨h1, by ring⟩ hd12) hcon.2
      have c3 := H.cnt_add hd12
      have c4 : cnt P T' (h1 * h2) = 0 := cnt_eq_zero P T' _ (by rw [← hf]; exact sepT')
      have c5 := cnt_le_length P T (h1 * h2)
      have c6 := cntL (h1 * h2)
      omega
  · refine ⟨I.prim, Dvd.dvd.trans ⟨pp, hfac⟩ I.dvd, H', ?_, I.dpos, ?_⟩
    · intro hu
      obtain ⟨G, hG⟩ := List.exists_mem_of_length_pos (l := T') (by omega)
      exact (H.irr G (memT' G hG)).not_isUnit (isUnit_of_dvd_unit (H'.dvd_a hG) (isUnit_rd P hu))
    · intro h hd hnu
      have c1 := I.big h (Dvd.dvd.trans hd ⟨pp, hfac⟩) hnu
      have c2 : cnt P T h = 0 := cnt_eq_zero P T _ fun G hG hGd =>
        sepT G hG (hGd.trans (Polynomial.map_dvd _ hd))
      have := cntL h
      omega

end inv
end NTV.Zas
