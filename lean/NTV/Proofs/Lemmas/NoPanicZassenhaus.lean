import NTV.Proofs.Lemmas.ZassenhausMain
import NTV.Proofs.Lemmas.PolyZProofs4
import Mathlib.RingTheory.Polynomial.GaussLemma
/-! Panic-freedom of `factorize` (src/poly_z/mod.rs) on a canonical input of degree ≤ 25: whatever the draws
are, the model fails only with `inconclusive stream` / `inconclusive fuel`. The `expect`s of the exact
divisions, the `assert!(lifted.len() <= 25)`, the exponent assertion after `factorize_mod_p`, the
`prod.deg() + 1` overflow on a zero product, the `% 0` of the prime search and every panic of the stages
called (`resultant_gcd`, `factorize_mod_p`, `lift_factorization`) are unreachable. -/
open Polynomial
namespace NTV.Res
open NTV.PolyG NTV.Subres

theorem canon_resPolyMul (f : List Int) (m : Int) (hf : Canon f) : Canon (Res.polyMul f m) := by
  unfold Res.polyMul
  split
  · exact hf
  · exact canon_fromRaw _

theorem canon_resPolyDiv (f r : List Int) (d : Int) (hf : Canon f) (h : Res.polyDiv f d = .ok r) : Canon r := by
  unfold Res.polyDiv at h
  split at h
  · cases h; exact hf
  · split at h
    · cases h
    · cases h; exact canon_fromRaw _

/-- the value returned by `resultant_smart_gcd` is a canonical list -/
theorem gcd_result_canon (f g r : List Int) (hf : f ≠ []) (hg : g ≠ []) (hcf : Canon f) (hcg : Canon g)
    (h : resultantSmartGcdE f g = some (.ok (r, true))) : Canon r := by
  unfold resultantSmartGcdE at h
  have he : f.isEmpty = false := by cases f <;> simp_all
  simp only [he, Bool.false_eq_true, ↓reduceIte, bind, Except.bind, content_ok f hf hcf, content_ok g hg hcg,
    polyDiv_content f hf hcf, polyDiv_content g hg hcg, pure, Except.pure] at h
  cases hl : gcdLoop ((contPP f).2.length + (contPP g).2.length + 3) (contPP f).2 (contPP g).2 1 1 true with
  | none => rw [hl] at h; simp at h
  | some res =>
    rw [hl] at h
    cases res with
    | error e => simp at h
    | ok v =>
      obtain ⟨f2, ok2⟩ := v
      simp only at h
      have hsp1 := contPP_spec f hf hcf
      have hsp2 := contPP_spec g hg hcg
      by_cases hok : ok2 = true
      · subst hok
        obtain ⟨hc2, hne2⟩ := gcdLoop_canon _ _ _ _ _ _ f2 hsp1.2.2.2 hsp2.2.2.2 (pp_ne_nil f hf hcf) hl
        simp only [content_ok f2 hne2 hc2, polyDiv_content f2 hne2 hc2, Option.some.injEq, Except.ok.injEq,
          Prod.mk.injEq, and_true] at h
        rw [← h]
        exact canon_resPolyMul _ _ (contPP_spec f2 hne2 hc2).2.2.2
      · exfalso
        have hf' : ok2 = false := by simpa using hok
        subst hf'
        revert h
        cases content f2 with
        | error e => simp
        | ok c =>
          simp only
          cases Res.polyDiv f2 c with
          | error e => simp
          | ok q => simp

end NTV.Res

namespace NTV.PolyZ
open NTV.PolyG NTV.PolyMod NTV.Hensel NTV.Zas NTV.Res

/-- the two inconclusive outcomes -/
def Incon (e : String) : Prop := e = "inconclusive stream" ∨ e = "inconclusive fuel"

/-! ### loops whose only failure is the fuel -/

theorem polyGcdAux_error (p : Int) : ∀ (fuel : Nat) (a b : Poly) (e : String),
    polyGcdAux p fuel a b = .error e → e = "inconclusive fuel" := by
  intro fuel
  induction fuel with
  | zero => intro a b e h; simp only [polyGcdAux, Except.error.injEq] at h; exact h.symm
  | succ fuel ih =>
    intro a b e h
    simp only [polyGcdAux] at h
    split at h
    · cases h
    · exact ih _ _ _ h

theorem polyGcd_error (p : Int) (a b : Poly) (e : String) (h : polyGcd a b p = .error e) :
    e = "inconclusive fuel" := polyGcdAux_error p _ a b e h

theorem powerAbove_error (p bound : Int) : ∀ (fuel e0 : Nat) (pe0 : Int) (err : String),
    powerAbove p bound fuel e0 pe0 = .error err → err = "inconclusive fuel" := by
  intro fuel
  induction fuel with
  | zero =>
    intro e0 pe0 err h
    simp only [powerAbove, throw, throwThe, MonadExceptOf.throw, Except.error.injEq] at h
    exact h.symm
  | succ fuel ih =>
    intro e0 pe0 err h
    simp only [powerAbove] at h
    split at h
    · exact ih _ _ _ h
    · cases h

theorem multiplicity_error (factor : Poly) : ∀ (fuel : Nat) (a : Poly) (e : Nat) (err : String),
    multiplicity factor fuel a e = .error err → err = "inconclusive fuel" := by
  intro fuel
  induction fuel with
  | zero =>
    intro a e err h
    simp only [multiplicity, throw, throwThe, MonadExceptOf.throw, Except.error.injEq] at h
    exact h.symm
  | succ fuel ih =>
    intro a e err h
    simp only [multiplicity] at h
    split at h
    · exact ih _ _ _ h
    · cases h

theorem multiplicities_error : ∀ (fs : List Poly) (a : Poly) (res : List (Poly × Nat)) (err : String),
    multiplicities fs a res = .error err → err = "inconclusive fuel" := by
  intro fs
  induction fs with
  | nil => intro a res err h; cases h
  | cons f rest ih =>
    intro a res err h
    simp only [multiplicities, bind, Except.bind] at h
    split at h
    · rename_i e1 he1
      cases h
      exact multiplicity_error f _ _ _ _ he1
    · exact ih _ _ _ h

/-- the prime search never evaluates `x % 0` (the primes tried are below 2³¹: `as i32` does not wrap) -/
theorem primeSearch_error (a : List Int) (n : Nat) : ∀ (fuel state : Nat) (err : String),
    Nat.count Nat.Prime state + fuel ≤ 100000 →
    primeSearch a n fuel state = .error err → err = "inconclusive fuel" := by
  intro fuel
  induction fuel with
  | zero =>
    intro state err _ h
    simp only [primeSearch, throw, throwThe, MonadExceptOf.throw, Except.error.injEq] at h
    exact h.symm
  | succ fuel ih =>
    intro state err hinv h
    rw [primeSearch] at h
    split at h
    · simp only [throw, throwThe, MonadExceptOf.throw, Except.error.injEq] at h
      exact h.symm
    · rename_i now hnow
      obtain ⟨hprime, hle, hno⟩ := nextPrime_sound _ _ _ hnow
      have hc : Nat.count Nat.Prime now = Nat.count Nat.Prime state :=
        count_prime_eq_of_gap state now hle hno
      have hc1 : Nat.count Nat.Prime (now + 1) = Nat.count Nat.Prime state + 1 := by
        rw [Nat.count_succ, if_pos hprime, hc]
      have hlt : now < 2 ^ 31 := lt_of_count_lt now (by omega)
      have hrec : Nat.count Nat.Prime (now + 1) + fuel ≤ 100000 := by omega
      have hI : asI32 now = (now : Int) := asI32_of_lt now hlt
      simp only [hI] at h
      split at h
      · rename_i h0
        have := hprime.two_le
        omega
      · split at h
        · exact ih (now + 1) err hrec h
        · cases hg : NTV.PolyMod.polyGcd (NTV.PolyMod.polyMod a (now : Int))
              (NTV.PolyMod.differentialMod (NTV.PolyMod.polyMod a (now : Int)) (now : Int)) (now : Int) with
          | error e' =>
            rw [hg] at h
            simp only [bind, Except.bind, Except.error.injEq] at h
            subst h
            exact polyGcd_error _ _ _ _ hg
          | ok g =>
            rw [hg] at h
            simp only [bind, Except.bind] at h
            split at h
            · cases h
            · exact ih (now + 1) err hrec h

/-! ### the exponent assertion after `factorize_mod_p` -/

/-- a factorisation modulo P of a polynomial that is squarefree modulo P has all exponents 1 -/
theorem all_one_of_squarefree (P : ℕ) (a : List Int) (factors : Factors)
    (hsq : Squarefree (rd P (toPoly a)))
    (c1 : ∀ x ∈ factors, 1 ≤ x.2 ∧ Irreducible ((toPoly x.1).map (Int.castRingHom (ZMod P))))
    (c3 : PCong (P : Int) (C (lc (polyMod a P)) * factorProduct factors) (toPoly a)) :
    (factors.all fun fe => fe.2 == 1) = true := by
  rw [List.all_eq_true]
  intro x hx
  rw [beq_iff_eq]
  by_contra hne
  obtain ⟨h1, hirr⟩ := c1 x hx
  have h2 : 2 ≤ x.2 := by omega
  have hd1 : toPoly x.1 ^ 2 ∣ factorProduct factors := by
    refine (pow_dvd_pow _ h2).trans ?_
    unfold factorProduct
    exact List.dvd_prod (List.mem_map.mpr ⟨x, hx, rfl⟩)
  have hd2 : rd P (toPoly x.1 ^ 2) ∣ rd P (toPoly a) := by
    have := (pcong_iff_map P _ _).mp c3
    unfold rd
    rw [← this]
    exact Polynomial.map_dvd _ (hd1.trans (dvd_mul_left _ _))
  rw [rd, Polynomial.map_pow, pow_two] at hd2
  exact hirr.not_isUnit (hsq _ hd2)

/-! ### the recombination loop -/

theorem selBits_subset : ∀ (L : List Poly) (bits : Nat), ∀ x ∈ selBits L bits, x ∈ L := by
  intro L bits x hx
  exact (selBits_perm L bits).symm.subset (List.mem_append_left _ hx)

/-- the product of a subset is never the zero polynomial (no `prod.deg() + 1` overflow) -/
theorem subsetProd_ne_nil (pe lca : Int) (L : List Poly) (hmon : ∀ f ∈ L, (toPoly f).Monic)
    (hlca : ¬ pe ∣ lca) (bits : Nat) : subsetProd pe L bits (fromRaw [lca]) ≠ [] := by
  intro h0
  have hc := subsetProd_cong pe L bits (fromRaw [lca])
  rw [h0, toPoly_fromRaw_single] at hc
  have hM : (((selBits L bits).map toPoly).prod).Monic := by
    apply monic_list_prod'
    intro G hG
    obtain ⟨f, hf, rfl⟩ := List.mem_map.mp hG
    exact hmon f (selBits_subset L bits f hf)
  have := (pcong_iff pe _ _).mp hc (((selBits L bits).map toPoly).prod).natDegree
  simp only [toPoly, zero_sub, coeff_neg, coeff_C_mul] at this
  rw [show (((selBits L bits).map toPoly).prod).coeff (((selBits L bits).map toPoly).prod).natDegree = 1 from hM,
    mul_one, Int.dvd_neg] at this
  exact hlca this

/-- Gauss: if the candidate divides `lc(a)·a` then its primitive part divides the primitive `a`
(the `expect` of the second exact division cannot fail) -/
theorem pp_divExact_of_cand {a c : List Int} (lca : Int) (hlca : lca ≠ 0) (ha : a ≠ []) (hca : Canon a)
    (hcc : Canon c) (q : List Int) (hq : divExact (NTV.PolyMod.polyMul a lca) c = some q) :
    ∃ a', divExact a (contPP c).2 = some a' := by
  obtain ⟨hcne, hfac, _⟩ := divExact_sound _ _ q hq
  obtain ⟨s1, s2, _, s4⟩ := contPP_spec c hcne hcc
  have hppne := pp_ne_nil c hcne hcc
  have hprim : (toPoly (contPP c).2).IsPrimitive := isPrimitive_of_list _ s2
  rw [toPoly_polyMul] at hfac
  have hd : toPoly (contPP c).2 ∣ C lca * toPoly a := by
    rw [hfac, ← s1]
    exact ⟨toPoly q * C (contPP c).1, by ring⟩
  have hd2 : toPoly (contPP c).2 ∣ toPoly a := by
    rw [IsPrimitive.Int.dvd_iff_map_cast_dvd_map_cast _ _ hprim]
    have := Polynomial.map_dvd (Int.castRingHom ℚ) hd
    rw [Polynomial.map_mul, map_C] at this
    have hu : IsUnit (C ((Int.castRingHom ℚ) lca) : ℚ[X]) := by
      rw [isUnit_C]
      exact IsUnit.mk0 _ (by simpa using hlca)
    exact (hu.dvd_mul_left).mp this
  obtain ⟨k, hk⟩ := hd2
  obtain ⟨q', hq'⟩ := exists_list k
  exact divExact_complete a (contPP c).2 q' ha hppne hca s4 (by rw [hk, hq']; ring)

/-- the enumeration of the subsets never panics -/
theorem subsetLoop_ne_error (pe pe2 : Int) (a : List Int) (lca : Int) (L : List Poly) (d : Nat)
    (hne : ∀ bits, subsetProd pe L bits (fromRaw [lca]) ≠ [])
    (hdiv : ∀ bits q, divExact (NTV.PolyMod.polyMul a lca) (cand pe pe2 lca L bits) = some q →
      ∃ a', divExact a (contPP (cand pe pe2 lca L bits)).2 = some a') :
    ∀ (left b : Nat) (err : String), subsetLoop pe pe2 a lca L d left b ≠ .error err := by
  intro left
  induction left with
  | zero => intro b err h; simp [subsetLoop, pure, Except.pure] at h
  | succ left ih =>
    intro b err h
    simp only [subsetLoop] at h
    split at h
    · exact ih _ _ h
    · split at h
      · rename_i he
        apply hne b
        cases hq : subsetProd pe L b (fromRaw [lca]) with
        | nil => rfl
        | cons x xs => rw [hq] at he; simp at he
      · split at h
        · exact ih _ _ h
        · rename_i q hq
          obtain ⟨a', ha'⟩ := hdiv b q hq
          unfold cand symres at ha'
          simp only [bind, Except.bind, divExactExpect, ha', pure, Except.pure] at h
          cases h

section
variable {P e : ℕ} {pe pe2 : Int} {A : ℤ[X]}

/-- the number of lifted factors is at most the degree -/
theorem length_le_natDegree_prod (hP : P.Prime) : ∀ (L : List ℤ[X]), (∀ G ∈ L, G.Monic) →
    (∀ G ∈ L, Irreducible (rd P G)) → L.length ≤ L.prod.natDegree := by
  have _ : Fact P.Prime := ⟨hP⟩
  intro L
  induction L with
  | nil => intro _ _; simp
  | cons G rest ih =>
    intro hm hi
    have hG := hm G (by simp)
    have hr : rest.prod.Monic := monic_list_prod' rest (fun x hx => hm x (by simp [hx]))
    rw [List.prod_cons, hG.natDegree_mul hr, List.length_cons]
    have h1 : 1 ≤ G.natDegree := by
      have := (hi G (by simp)).natDegree_pos
      rwa [rd, hG.natDegree_map] at this
    have := ih (fun x hx => hm x (by simp [hx])) (fun x hx => hi x (by simp [hx]))
    omega

theorem _root_.NTV.Zas.Inv.length_le {a : ℤ[X]} {L : List ℤ[X]} {d : ℕ} (I : Inv P e A a L d) : L.length ≤ A.natDegree := by
  have h1 := length_le_natDegree_prod I.lifted.prime L I.lifted.monic I.lifted.irr
  have h2 := I.lifted.natDegree_eq
  have h3 := natDegree_le_of_dvd I.dvd I.prim.ne_zero
  omega

/-- `combine` never panics: `lifted.len() ≤ deg A ≤ 25`, the subset products are non-zero, the exact
divisions that are `expect`ed succeed -/
theorem combine_error (S : Setup P e pe pe2 A) (hA : A.natDegree ≤ 25) : ∀ (fuel : Nat) (a : List Int)
    (L : List Poly) (d : Nat) (result : List Poly) (err : String), a ≠ [] → Canon a →
    Inv P e A (toPoly a) (L.map toPoly) d →
    combine pe pe2 fuel a L d result = .error err → err = "inconclusive fuel" := by
  intro fuel
  induction fuel with
  | zero =>
    intro a L d result err _ _ _ h
    simp only [combine, throw, throwThe, MonadExceptOf.throw, Except.error.injEq] at h
    exact h.symm
  | succ fuel ih =>
    intro a L d result err ha hca I h
    have hlen25 : L.length ≤ 25 := by
      have := I.length_le
      rw [List.length_map] at this
      omega
    simp only [combine] at h
    split at h
    · rename_i hlen
      split at h
      · omega
      · simp only [bind, Except.bind] at h
        split at h
        · rename_i e1 hv
          exfalso
          obtain ⟨d1, d2, d3⟩ := natDegree_toPoly a ha hca
          obtain ⟨p1, p2, p3⟩ := S.pe_pos I.lifted.prime
          have hlca : coefAt a (degU a) = (toPoly a).leadingCoeff := coefAt_degU a ha hca
          have hlc0 : (toPoly a).leadingCoeff ≠ 0 := leadingCoeff_ne_zero.mpr d3
          have hnd : ¬ pe ∣ coefAt a (degU a) := by
            rw [hlca]
            obtain ⟨g, hg⟩ := I.dvd
            have hb := S.bound g 1 (toPoly a) (by rw [hg]; ring) 0
            simp only [mul_one, coeff_C_zero] at hb
            intro hdvd
            apply hlc0
            apply Int.eq_zero_of_abs_lt_dvd hdvd
            rw [abs_lt]
            constructor <;> omega
          refine subsetLoop_ne_error pe pe2 a _ L d ?_ ?_ _ _ _ hv
          · intro bits
            apply subsetProd_ne_nil pe _ L ?_ hnd
            intro f hf
            exact I.lifted.monic _ (List.mem_map_of_mem hf)
          · intro bits q hq
            exact pp_divExact_of_cand _ (by rw [hlca]; exact hlc0) ha hca (canon_symres _ _ _) q hq
        · rename_i v hv
          split at h
          · rename_i pp a1 l1
            obtain ⟨_, s2, s3, s4⟩ := step_some S ha hca I hlen (by omega) hv
            exact ih a1 l1 d _ err s2 s3 s4 h
          · exact ih a L (d + 1) result err ha hca (step_none S ha hca I (by omega) hv) h
    · cases h

end

/-! ### `get_factors_of_squarefree` -/

/-- **panic-freedom of `get_factors_of_squarefree`** on a canonical primitive polynomial of degree 1..25 -/
theorem getFactorsOfSquarefree_no_panic (a : List Int) (s : NTV.Draw.Stream) (err : String) (hca : Canon a)
    (hprim : (toPoly a).IsPrimitive) (hlen : 2 ≤ a.length) (h26 : a.length ≤ 26)
    (h : getFactorsOfSquarefree a s = .error err) : Incon err := by
  have ha : a ≠ [] := by rintro rfl; simp at hlen
  have he : a.isEmpty = false := by cases a <;> simp_all
  have hd : degU a ≠ 0 := by simp only [degU, he]; simp; omega
  obtain ⟨d1, d2, d3⟩ := natDegree_toPoly a ha hca
  unfold getFactorsOfSquarefree at h
  simp only [bind, Except.bind] at h
  split at h
  · rename_i hc
    simp [he, hd] at hc
  split at h
  · rename_i e1 hv1
    cases h
    exact Or.inr (primeSearch_error a (degU a) 100000 2 _ (by
      have : Nat.count Nat.Prime 2 = 0 := by decide
      omega) hv1)
  rename_i v1 hv1
  obtain ⟨p, pu⟩ := v1
  obtain ⟨hP, rfl, hP31, hlc, g, hg, hgd⟩ := primeSearch_top a (degU a) p pu hv1
  split at h
  · rename_i e2 hv2
    cases h
    exact Or.inr (powerAbove_error _ _ _ _ _ _ hv2)
  rename_i v2 hv2
  obtain ⟨e, pe⟩ := v2
  rw [coefAt_degU a ha hca] at hlc
  have hsq := squarefree_of_gcd_test pu hP a g hg hgd
  have hb := mignotte_for_coeffBound a ha hca hlen 1 (toPoly a) 1 (by ring) 0
  have hbpos : (1 : Int) ≤ coeffBound a (degU a) := by
    have := abs_nonneg ((C (1 : ℤ[X]).leadingCoeff * toPoly a).coeff 0)
    omega
  obtain ⟨_, p2, p3, p4⟩ := powerAbove_spec _ _ _ _ _ _ _ hv2
  have hepos : 1 ≤ e := p4 hbpos
  rw [one_mul, Nat.sub_zero] at p2
  have hnz : (toPoly a).map (Int.castRingHom (ZMod pu)) ≠ 0 := by
    intro h0
    have := congrArg (fun F => F.coeff (toPoly a).natDegree) h0
    simp only [coeff_map, coeff_zero, eq_intCast] at this
    rw [ZMod.intCast_zmod_eq_zero_iff_dvd] at this
    exact hlc this
  split at h
  · rename_i e3 hv3
    cases h
    exact Or.inl (NTV.C08.no_panic pu hP a pu s _ hnz (fun _ => rfl) (by omega) hv3)
  rename_i factors hfac
  obtain ⟨c1, c2, c3⟩ := NTV.C08.factorization_correct pu hP a pu s factors (fun _ => rfl)
    (fun h => by omega) hfac
  have hall : (factors.all fun fe => fe.2 == 1) = true :=
    all_one_of_squarefree pu a factors hsq (fun x hx => ⟨(c1 x hx).2.2.2.2.1, (c1 x hx).2.2.2.2.2⟩) c3
  split at h
  · rename_i hc
    simp [hall] at hc
  -- the Hensel stage is total
  have hlift : ∃ lifted, liftFactorization (pu : ℤ) e a (factors.map (·.1)) = .ok lifted := by
    set F := factors.map (·.1) with hF
    have hmem : ∀ f ∈ F, ∃ x ∈ factors, x.1 = f := fun f hf => by
      obtain ⟨x, hx, rfl⟩ := List.mem_map.mp hf; exact ⟨x, hx, rfl⟩
    have hmon : ∀ f ∈ F, lc f = 1 := fun f hf => by
      obtain ⟨x, hx, rfl⟩ := hmem f hf; exact (c1 x hx).1
    have hred : ∀ f ∈ F, Reduced (pu : ℤ) f := fun f hf => by
      obtain ⟨x, hx, rfl⟩ := hmem f hf; exact (c1 x hx).2.1
    have hgood : ∀ f ∈ F, Reduced (pu : ℤ) f ∧ Canon f := fun f hf => by
      obtain ⟨x, hx, rfl⟩ := hmem f hf; exact ⟨(c1 x hx).2.1, (c1 x hx).2.2.1⟩
    have hirr : ∀ f ∈ F, Irreducible ((toPoly f).map (Int.castRingHom (ZMod pu))) := fun f hf => by
      obtain ⟨x, hx, rfl⟩ := hmem f hf; exact (c1 x hx).2.2.2.2.2
    have hM : ((F.map toPoly).prod).Monic := by
      apply monic_list_prod'
      intro G hG
      obtain ⟨f, hf, rfl⟩ := List.mem_map.mp hG
      exact (monic_toPoly f (hmon f hf)).1
    have c3' := c3
    rw [factorProduct_all_one factors hall] at c3'
    obtain ⟨n1, n2⟩ := normalise_const hP (le_refl 1) hM hlc (by rw [pow_one]; exact c3')
    rw [pow_one, d2] at n2
    have hne : F ≠ [] := by
      intro h0
      rw [h0] at n1
      simp only [List.map_nil, List.prod_nil, natDegree_one] at n1
      omega
    have hcop := pairwise_coprime_of_nodup pu hP F c2 hmon hgood hirr
    rw [d2] at hlc
    obtain ⟨gs, g1, _⟩ := NTV.C11.lift_factorization_spec pu hP e hepos a hlc F hne hmon hred hcop n2.symm
    exact ⟨gs, g1⟩
  obtain ⟨lifted, hl⟩ := hlift
  split at h
  · rename_i e4 hv4
    rw [hl] at hv4
    cases hv4
  rename_i lifted' hl'
  have hL := lifted_of_run pu hP (by omega) e hepos a ha hca hlen hlc hsq s factors hfac hall lifted' hl'
  have S : Setup pu e pe (Int.tdiv pe 2) (toPoly a) :=
    ⟨p2, rfl, fun g h h' hfac j => mignotte_symmetric_range a ha hca hlen g h h' hfac j pe p3⟩
  have hnu : ¬ IsUnit (toPoly a) := by
    intro hu
    have := natDegree_eq_zero_of_isUnit hu
    omega
  exact Or.inr (combine_error S (by omega) _ a lifted' 1 [] err ha hca (Inv.init hprim hL hnu) h)

/-! ### `factorize` -/

/-- **panic-freedom of `factorize`** on a canonical input of degree ≤ 25 -/
theorem factorize_no_panic (a : List Int) (s : NTV.Draw.Stream) (err : String) (hca : Canon a)
    (h26 : a.length ≤ 26) (h : factorize a s = .error err) : Incon err := by
  unfold factorize at h
  split at h
  · cases h
  rename_i hemp
  have ha : a ≠ [] := by rintro rfl; simp at hemp
  simp only at h
  split at h
  · cases h
  rename_i hdeg
  have he : a.isEmpty = false := by cases a <;> simp_all
  have hlen : 2 ≤ a.length := by
    simp only [degU, he] at hdeg
    have := List.length_pos_of_ne_nil ha
    simp at hdeg; omega
  obtain ⟨p1, p2, p3, p4, _⟩ := pp_facts ha hca
  obtain ⟨_, _, s3, s4⟩ := contPP_spec a ha hca
  have hne := pp_ne_nil a ha hca
  set A := toPoly (contPP a).2 with hA
  have hder : toPoly (differential (contPP a).2) = derivative A := toPoly_differential _
  have hder0 : derivative A ≠ 0 := by
    intro h0
    have := Polynomial.derivative_eq_zero.mp h0
    omega
  have hdne : differential (contPP a).2 ≠ [] := by
    intro e; rw [e] at hder; simp only [toPoly] at hder; exact hder0 hder.symm
  obtain ⟨g, hres⟩ := resultantSmartGcd_total _ _ hne hdne s4 (canon_differential _)
  have hgcd : resultantGcd (contPP a).2 (differential (contPP a).2) = .ok g := by
    unfold resultantGcd; rw [hres]; rfl
  obtain ⟨g1, g2, _⟩ := NTV.C10.is_gcd_partial _ _ g hne hdne s4 (canon_differential _) hres
  rw [hder] at g2
  -- the squarefree part
  have hsq : ∃ sq, (if degU g ≠ 0 then divExactExpect (contPP a).2 g else pure (contPP a).2) = .ok sq ∧
      Canon sq ∧ toPoly sq ∣ A ∧ 2 ≤ sq.length ∧ sq.length ≤ 26 := by
    have hAlen : (contPP a).2.length = a.length := by
      have h1 := (natDegree_toPoly _ hne s4).1
      have h2 := List.length_pos_of_ne_nil hne
      rw [← hA] at h1
      omega
    by_cases hdg : degU g ≠ 0
    · rw [if_pos hdg]
      have hgne : g ≠ [] := by
        rintro rfl
        rw [show toPoly ([] : List Int) = 0 from rfl, zero_dvd_iff] at g1
        exact p2 g1
      obtain ⟨pp, d, _, hd, hshape, hlpp, hcpp, _⟩ :=
        NTV.C10.result_shape_partial _ _ g hne hdne s4 (canon_differential _) hres
      -- canonical form of g
      obtain ⟨k, hk⟩ := g1
      obtain ⟨q', hq'⟩ := exists_list k
      have hg0 : toPoly g ≠ 0 := by intro h0; rw [h0, zero_mul] at hk; exact p2 hk
      have hk0 : k ≠ 0 := by rintro rfl; rw [mul_zero] at hk; exact p2 hk
      have hgc : Canon g := gcd_result_canon _ _ g hne hdne s4 (canon_differential _) hres
      obtain ⟨sq, hsq⟩ := divExact_complete (contPP a).2 g q' hne hgne s4 hgc (by rw [hk, hq']; ring)
      obtain ⟨_, hfac, hsqc⟩ := divExact_sound _ _ sq hsq
      have hsqne := quot_ne_nil hne s4 hfac
      rw [← hA] at hfac
      have hs0 : toPoly sq ≠ 0 := by intro h0; rw [h0, zero_mul] at hfac; exact p2 hfac
      have hdegA : A.natDegree = (toPoly sq).natDegree + (toPoly g).natDegree := by
        rw [hfac]; exact natDegree_mul hs0 hg0
      have hgle : (toPoly g).natDegree ≤ (derivative A).natDegree := natDegree_le_of_dvd g2 hder0
      have hdlt : (derivative A).natDegree < A.natDegree := natDegree_derivative_lt (by omega)
      have hsl := (natDegree_toPoly sq hsqne hsqc).1
      have hsl0 := List.length_pos_of_ne_nil hsqne
      refine ⟨sq, ?_, hsqc, ⟨toPoly g, hfac⟩, by omega, by omega⟩
      unfold divExactExpect
      rw [hsq]
      rfl
    · rw [if_neg hdg]
      exact ⟨_, rfl, s4, dvd_refl _, by omega, by omega⟩
  obtain ⟨sq, hsqeq, hsqc, hsqd, hsql, hsql26⟩ := hsq
  have tail : (do
      let factors ← getFactorsOfSquarefree sq s
      let result ← multiplicities factors (contPP a).2 []
      pure ((contPP a).1, result) : M (Int × List (Poly × Nat))) = .error err → Incon err := by
    intro h'
    cases hgf : getFactorsOfSquarefree sq s with
    | error e1 =>
      rw [hgf, error_bind'] at h'
      cases h'
      exact getFactorsOfSquarefree_no_panic sq s _ hsqc (isPrimitive_of_dvd p1 hsqd) hsql hsql26 hgf
    | ok factors =>
      rw [hgf, ok_bind'] at h'
      cases hm : multiplicities factors (contPP a).2 [] with
      | error e2 =>
        rw [hm, error_bind'] at h'
        cases h'
        exact Or.inr (multiplicities_error _ _ _ _ hm)
      | ok r =>
        rw [hm, ok_bind'] at h'
        cases h'
  rw [hgcd, ok_bind'] at h
  by_cases hdg : degU g ≠ 0
  · rw [if_pos hdg] at h hsqeq
    rw [hsqeq, ok_bind'] at h
    exact tail h
  · rw [if_neg hdg] at h hsqeq
    rw [hsqeq, ok_bind'] at h
    exact tail h

end NTV.PolyZ
