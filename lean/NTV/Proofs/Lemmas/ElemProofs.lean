import NTV.Model.Elementary
import Mathlib.Tactic
import Mathlib.Data.Nat.Log
namespace NTV.Elem

theorem rootSearch_spec (n k : Nat) (f lo hi : Nat) (h1 : lo ^ k ≤ n) (h2 : n < hi ^ k)
    (hf : hi - lo ≤ 2 ^ f) :
    (rootSearch n k f lo hi) ^ k ≤ n ∧ n < (rootSearch n k f lo hi + 1) ^ k := by
  induction f generalizing lo hi with
  | zero =>
    simp only [rootSearch]
    refine ⟨h1, lt_of_lt_of_le h2 (Nat.pow_le_pow_left (by simp at hf; omega) k)⟩
  | succ f ih =>
    simp only [rootSearch]
    split
    · rename_i hsmall
      exact ⟨h1, lt_of_lt_of_le h2 (Nat.pow_le_pow_left (by omega) k)⟩
    · rename_i hbig
      have hpow : 2 ^ (f + 1) = 2 * 2 ^ f := by ring
      split
      · rename_i hmid
        exact ih _ _ hmid h2 (by omega)
      · rename_i hmid
        exact ih _ _ h1 (by omega) (by omega)

/-- `nth_root`: the floor k-th root, for every n and every k ≥ 1 -/
theorem nthRoot_spec (n k : Nat) (hk : 1 ≤ k) : (nthRoot n k) ^ k ≤ n ∧ n < (nthRoot n k + 1) ^ k := by
  unfold nthRoot
  split
  · rename_i h0; subst h0
    simp; omega
  · rename_i h0
    simp only
    apply rootSearch_spec
    · rw [zero_pow (by omega)]; omega
    · have hlt : n < 2 ^ (n.log2 + 1) := Nat.lt_log2_self
      refine lt_of_lt_of_le hlt ?_
      rw [← pow_mul]
      apply Nat.pow_le_pow_right (by norm_num)
      have := Nat.div_add_mod n.log2 k
      have hm : n.log2 % k < k := Nat.mod_lt _ (by omega)
      nlinarith
    · simp only [Nat.sub_zero]
      exact Nat.pow_le_pow_right (by norm_num) (by omega)

/-- floor roots are unique: if r^k = n then nthRoot n k = r -/
theorem nthRoot_of_pow (r k : Nat) (hk : 1 ≤ k) : nthRoot (r ^ k) k = r := by
  obtain ⟨h1, h2⟩ := nthRoot_spec (r ^ k) k hk
  have hk0 : k ≠ 0 := by omega
  have a : nthRoot (r ^ k) k ≤ r := (Nat.pow_le_pow_iff_left hk0).mp h1
  have b : r < nthRoot (r ^ k) k + 1 := (Nat.pow_lt_pow_iff_left hk0).mp h2
  omega

theorem isPerfectPower_iff (n k : Nat) (hk : 1 ≤ k) :
    (∃ x, isPerfectPower n k = some x ∧ x ^ k = n) ↔ ∃ r, r ^ k = n := by
  constructor
  · rintro ⟨x, _, hx⟩; exact ⟨x, hx⟩
  · rintro ⟨r, rfl⟩
    refine ⟨r, ?_, rfl⟩
    simp [isPerfectPower, nthRoot_of_pow r k hk]

theorem isPerfectPower_none (n k : Nat) (hk : 1 ≤ k) (h : isPerfectPower n k = none) : ¬ ∃ r, r ^ k = n := by
  intro hex
  obtain ⟨x, hx, _⟩ := (isPerfectPower_iff n k hk).mpr hex
  rw [h] at hx; exact absurd hx (by simp)

theorem isPerfectPower_some (n k x : Nat) (h : isPerfectPower n k = some x) : x ^ k = n := by
  unfold isPerfectPower at h
  simp only at h
  split at h
  · simp only [Option.some.injEq] at h; subst h; assumption
  · simp at h

theorem ppSearch_spec (n K : Nat) :
    (ppSearch n K).1 ^ (ppSearch n K).2 = n ∧ 1 ≤ (ppSearch n K).2 ∧
    ∀ k', (ppSearch n K).2 < k' → k' ≤ K → ¬ ∃ r, r ^ k' = n := by
  induction K using Nat.strong_induction_on with
  | _ K ih =>
    match K with
    | 0 => simp only [ppSearch, pow_one, le_refl, true_and]; intro k' h1 h2; omega
    | 1 => simp only [ppSearch, pow_one, le_refl, true_and]; intro k' h1 h2; omega
    | K + 2 =>
      simp only [ppSearch]
      split
      · rename_i b hb
        refine ⟨isPerfectPower_some _ _ _ hb, by simp, ?_⟩
        intro k' h1 h2; simp at h1; omega
      · rename_i hnone
        obtain ⟨i1, i2, i3⟩ := ih (K + 1) (by omega)
        refine ⟨i1, i2, ?_⟩
        intro k' h1 h2
        by_cases he : k' = K + 2
        · subst he; exact isPerfectPower_none _ _ (by omega) hnone
        · exact i3 k' h1 (by omega)

end NTV.Elem
