import NTV.Proofs.Lemmas.HenselBridge
import NTV.Proofs.Lemmas.HenselModel
import Mathlib.RingTheory.Nilpotent.Basic
import Mathlib.RingTheory.PrincipalIdealDomain
import Mathlib.Data.ZMod.Units
import Mathlib.Algebra.Polynomial.Monic
import Mathlib.Algebra.Squarefree.Basic
import Mathlib.Tactic
/-! # Berlekamp–Zassenhaus, part 1: uniqueness of Hensel lifts (no model here)

`ψ F` is the image of `F ∈ ℤ[X]` in `(ZMod P)[X]`, `φ F` its image in `(ZMod (P^e))[X]`.
* `isCoprime_lift`: coprime modulo `P` ⇒ comaximal modulo `P^e`;
* `monic_split_unique`: in `R[X]`, if `c·M·M' = h·h'` with `M, M'` monic, `M` comaximal with `h'` and `M'`
  with `h`, and the leading coefficients of `h, h'` units, then `h = lc(h)·M` and `h' = lc(h')·M'`;
* `hensel_subset` (**Z2**): for `a = h·h'` in `ℤ[X]`, `P ∤ lc a`, `a` squarefree modulo `P`, and monic
  `G₁..G_k` irreducible modulo `P` with `lc(a)·∏ Gᵢ ≡ a (mod P^e)`:
  `h ≡ lc(h)·∏_{ψGᵢ ∣ ψh} Gᵢ (mod P^e)`. -/
open Polynomial
namespace NTV.Zas
open NTV.Hensel NTV.PolyMod

/-- reduction of an integer polynomial modulo `m` -/
noncomputable abbrev rd (m : ℕ) (F : ℤ[X]) : (ZMod m)[X] := F.map (Int.castRingHom (ZMod m))

theorem pcong_pow_iff (P e : ℕ) (F G : ℤ[X]) : PCong ((P : ℤ) ^ e) F G ↔ rd (P ^ e) F = rd (P ^ e) G := by
  have := pcong_iff_map (P ^ e) F G
  rw [Nat.cast_pow] at this
  exact this

/-! ### coprime modulo P ⇒ comaximal modulo P^e -/

theorem isCoprime_lift (P e : ℕ) (F G : ℤ[X]) (h : IsCoprime (rd P F) (rd P G)) :
    IsCoprime (rd (P ^ e) F) (rd (P ^ e) G) := by
  obtain ⟨U, V, W, hW⟩ := (coprime_iff_map P F G).mpr h
  -- F U + G V = 1 + P W
  set κ : ZMod (P ^ e) := Int.castRingHom (ZMod (P ^ e)) (P : ℤ) with hκ
  have h1 : rd (P ^ e) F * rd (P ^ e) U + rd (P ^ e) G * rd (P ^ e) V
      = 1 - (- (C κ * rd (P ^ e) W)) := by
    have := congrArg (rd (P ^ e)) hW
    simp only [rd, Polynomial.map_sub, Polynomial.map_add, Polynomial.map_mul, Polynomial.map_one,
      Polynomial.map_C] at this ⊢
    linear_combination this
  have hnil : IsNilpotent (- (C κ * rd (P ^ e) W)) := by
    refine ⟨e, ?_⟩
    rw [neg_pow, mul_pow, ← C_pow]
    have : κ ^ e = 0 := by
      have h0 : (((P ^ e : ℕ) : ZMod (P ^ e))) = 0 := ZMod.natCast_self _
      rw [hκ, eq_intCast]
      push_cast at h0 ⊢
      exact h0
    rw [this]; simp
  obtain ⟨u, hu⟩ := hnil.isUnit_one_sub
  rw [← h1] at hu
  refine ⟨rd (P ^ e) U * ↑u⁻¹, rd (P ^ e) V * ↑u⁻¹, ?_⟩
  have : (rd (P ^ e) F * rd (P ^ e) U + rd (P ^ e) G * rd (P ^ e) V) * ↑u⁻¹ = 1 := by
    rw [← hu]; exact Units.mul_inv u
  linear_combination this

/-! ### the splitting is determined -/

theorem monic_split_unique {R : Type*} [CommRing R] [Nontrivial R] {M M' h h' : R[X]} {c : R}
    (hM : M.Monic) (hM' : M'.Monic) (hprod : C c * (M * M') = h * h')
    (hlc : IsUnit h.leadingCoeff) (hlc' : IsUnit h'.leadingCoeff)
    (hcop : IsCoprime M h') (hcop' : IsCoprime M' h) :
    h = C h.leadingCoeff * M ∧ h' = C h'.leadingCoeff * M' := by
  have hd : M ∣ h := by
    apply hcop.dvd_of_dvd_mul_right
    exact ⟨C c * M', by rw [← hprod]; ring⟩
  have hd' : M' ∣ h' := by
    apply hcop'.dvd_of_dvd_mul_right
    exact ⟨C c * M, by rw [mul_comm h' h, ← hprod]; ring⟩
  obtain ⟨k, hk⟩ := hd
  obtain ⟨k', hk'⟩ := hd'
  have hk0 : k ≠ 0 := by
    rintro rfl; rw [mul_zero] at hk; rw [hk, leadingCoeff_zero] at hlc; exact not_isUnit_zero hlc
  have hk0' : k' ≠ 0 := by
    rintro rfl; rw [mul_zero] at hk'; rw [hk', leadingCoeff_zero] at hlc'; exact not_isUnit_zero hlc'
  have d1 : h.natDegree = M.natDegree + k.natDegree := by rw [hk]; exact hM.natDegree_mul' hk0
  have d2 : h'.natDegree = M'.natDegree + k'.natDegree := by rw [hk']; exact hM'.natDegree_mul' hk0'
  have d3 : (h * h').natDegree = h.natDegree + h'.natDegree :=
    natDegree_mul' (hlc.mul hlc').ne_zero
  have d4 : (C c * (M * M')).natDegree ≤ M.natDegree + M'.natDegree := by
    refine (natDegree_C_mul_le _ _).trans ?_
    rw [hM.natDegree_mul hM']
  rw [hprod, d3] at d4
  have e1 : k.natDegree = 0 := by omega
  have e2 : k'.natDegree = 0 := by omega
  constructor
  · have := eq_C_of_natDegree_eq_zero e1
    have hl : h.leadingCoeff = k.coeff 0 := by
      rw [hk, leadingCoeff_monic_mul hM, this, leadingCoeff_C]; simp
    rw [hl, hk, this]; simp [mul_comm]
  · have := eq_C_of_natDegree_eq_zero e2
    have hl : h'.leadingCoeff = k'.coeff 0 := by
      rw [hk', leadingCoeff_monic_mul hM', this, leadingCoeff_C]; simp
    rw [hl, hk', this]; simp [mul_comm]


/-! ### units and degrees modulo P^e -/

theorem one_lt_pow' {P e : ℕ} (hP : P.Prime) (he : 1 ≤ e) : 1 < P ^ e :=
  Nat.one_lt_pow (by omega) hP.one_lt

theorem isUnit_cast {P : ℕ} (hP : P.Prime) (e : ℕ) {c : ℤ} (hc : ¬ (P : ℤ) ∣ c) :
    IsUnit (Int.castRingHom (ZMod (P ^ e)) c) := by
  rw [eq_intCast, ZMod.coe_int_isUnit_iff_isCoprime]
  push_cast
  apply IsCoprime.pow_left
  exact (Nat.prime_iff_prime_int.mp hP).irreducible.coprime_iff_not_dvd.mpr hc

theorem rd_lc {P : ℕ} (hP : P.Prime) {e : ℕ} (he : 1 ≤ e) {F : ℤ[X]} (hF : ¬ (P : ℤ) ∣ F.leadingCoeff) :
    (rd (P ^ e) F).leadingCoeff = Int.castRingHom (ZMod (P ^ e)) F.leadingCoeff ∧
    (rd (P ^ e) F).natDegree = F.natDegree ∧ IsUnit (rd (P ^ e) F).leadingCoeff := by
  have _ : Fact (1 < P ^ e) := ⟨one_lt_pow' hP he⟩
  have hu := isUnit_cast hP e hF
  have h1 := leadingCoeff_map_of_leadingCoeff_ne_zero (Int.castRingHom (ZMod (P ^ e))) hu.ne_zero
  exact ⟨h1, natDegree_map_of_leadingCoeff_ne_zero _ hu.ne_zero, by rw [rd, h1]; exact hu⟩

theorem rd_lc_one {P : ℕ} (hP : P.Prime) {F : ℤ[X]} (hF : ¬ (P : ℤ) ∣ F.leadingCoeff) :
    (rd P F).natDegree = F.natDegree ∧ rd P F ≠ 0 := by
  have := rd_lc hP (le_refl 1) hF
  rw [pow_one] at this
  refine ⟨this.2.1, ?_⟩
  intro h0
  have hf : Fact (1 < P) := ⟨hP.one_lt⟩
  rw [h0, leadingCoeff_zero] at this
  exact not_isUnit_zero this.2.2

theorem monic_list_prod' {R : Type*} [CommRing R] : ∀ (L : List R[X]), (∀ G ∈ L, G.Monic) → L.prod.Monic
  | [], _ => by simp
  | G :: L, h => by
    rw [List.prod_cons]
    exact (h G (by simp)).mul (monic_list_prod' L fun x hx => h x (by simp [hx]))

theorem isCoprime_list_prod_left' {R : Type*} [CommRing R] (x : R) :
    ∀ (L : List R), (∀ y ∈ L, IsCoprime y x) → IsCoprime L.prod x
  | [], _ => by simpa using isCoprime_one_left
  | y :: ys, h => by
    rw [List.prod_cons]
    exact IsCoprime.mul_left (h y List.mem_cons_self)
      (isCoprime_list_prod_left' x ys (fun z hz => h z (List.mem_cons_of_mem _ hz)))

theorem prod_filter_mul {R : Type*} [CommMonoid R] (p : R → Bool) : ∀ (L : List R),
    (L.filter p).prod * (L.filter (fun x => !p x)).prod = L.prod
  | [] => by simp
  | x :: L => by
    by_cases hx : p x
    · simp only [List.filter_cons, hx, ↓reduceIte, List.prod_cons, Bool.not_true, Bool.false_eq_true]
      rw [mul_assoc, prod_filter_mul p L]
    · simp only [List.filter_cons, hx, ↓reduceIte, List.prod_cons, Bool.not_false, Bool.false_eq_true]
      rw [mul_left_comm, prod_filter_mul p L]

/-! ### Z2: the lifted factors belonging to a true factor -/
section subset
variable {P : ℕ} {e : ℕ}

/-- the hypotheses on the lifted list relative to `a`: `P` prime, `e ≥ 1`, `P ∤ lc a`, `a` squarefree modulo
`P`, every `G ∈ L` monic with irreducible reduction, `lc(a)·∏ L ≡ a (mod P^e)` -/
structure Lifted (P e : ℕ) (a : ℤ[X]) (L : List ℤ[X]) : Prop where
  prime : P.Prime
  epos : 1 ≤ e
  lc : ¬ (P : ℤ) ∣ a.leadingCoeff
  sqf : Squarefree (rd P a)
  monic : ∀ G ∈ L, G.Monic
  irr : ∀ G ∈ L, Irreducible (rd P G)
  prod : PCong ((P : ℤ) ^ e) (C a.leadingCoeff * L.prod) a

theorem lc_factor {a h h' : ℤ[X]} (hfac : a = h * h') (hlc : ¬ (P : ℤ) ∣ a.leadingCoeff) :
    ¬ (P : ℤ) ∣ h.leadingCoeff ∧ ¬ (P : ℤ) ∣ h'.leadingCoeff := by
  rw [hfac, leadingCoeff_mul] at hlc
  exact ⟨fun h1 => hlc (Dvd.dvd.mul_right h1 _), fun h1 => hlc (Dvd.dvd.mul_left h1 _)⟩

/-- a polynomial with irreducible reduction cannot divide both cofactors of a polynomial that is squarefree
modulo P -/
theorem not_dvd_both {a h h' G : ℤ[X]} (hfac : a = h * h') (hsq : Squarefree (rd P a))
    (hG : Irreducible (rd P G)) (h1 : rd P G ∣ rd P h) (h2 : rd P G ∣ rd P h') : False := by
  have : rd P G * rd P G ∣ rd P a := by
    rw [hfac]; simp only [rd, Polynomial.map_mul]; exact mul_dvd_mul h1 h2
  exact hG.not_isUnit (hsq _ this)

open Classical in
/-- **Z2 (Hensel uniqueness).** If `a = h·h'` then `h ≡ lc(h)·∏ {G ∈ L | ψG ∣ ψh}` and
`h' ≡ lc(h')·∏ {G ∈ L | ψG ∤ ψh}` modulo `P^e`. -/
theorem hensel_subset {a : ℤ[X]} {L : List ℤ[X]} (H : Lifted P e a L) {h h' : ℤ[X]} (hfac : a = h * h') :
    PCong ((P : ℤ) ^ e) (C h.leadingCoeff * (L.filter (fun G => rd P G ∣ rd P h)).prod) h ∧
    PCong ((P : ℤ) ^ e) (C h'.leadingCoeff * (L.filter (fun G => !decide (rd P G ∣ rd P h))).prod) h' := by
  have _ : Fact P.Prime := ⟨H.prime⟩
  have _ : Fact (1 < P ^ e) := ⟨one_lt_pow' H.prime H.epos⟩
  set S := L.filter (fun G => rd P G ∣ rd P h) with hS
  set S' := L.filter (fun G => !decide (rd P G ∣ rd P h)) with hS'
  obtain ⟨l1, l2⟩ := lc_factor hfac H.lc
  have hSmem : ∀ G ∈ S, G ∈ L ∧ rd P G ∣ rd P h := by
    intro G hG; simpa [hS] using hG
  have hS'mem : ∀ G ∈ S', G ∈ L ∧ ¬ rd P G ∣ rd P h := by
    intro G hG; simpa [hS'] using hG
  have hmS : S.prod.Monic := monic_list_prod' S fun G hG => H.monic G (hSmem G hG).1
  have hmS' : S'.prod.Monic := monic_list_prod' S' fun G hG => H.monic G (hS'mem G hG).1
  have hLprod : S.prod * S'.prod = L.prod := prod_filter_mul _ L
  -- coprimality modulo P
  have c1 : IsCoprime (rd P S.prod) (rd P h') := by
    simp only [rd, Polynomial.map_list_prod]
    apply isCoprime_list_prod_left'
    intro y hy
    obtain ⟨G, hG, rfl⟩ := List.mem_map.mp hy
    obtain ⟨hGL, hGd⟩ := hSmem G hG
    exact (H.irr G hGL).coprime_iff_not_dvd.mpr fun hd => not_dvd_both hfac H.sqf (H.irr G hGL) hGd hd
  have c2 : IsCoprime (rd P S'.prod) (rd P h) := by
    simp only [rd, Polynomial.map_list_prod]
    apply isCoprime_list_prod_left'
    intro y hy
    obtain ⟨G, hG, rfl⟩ := List.mem_map.mp hy
    obtain ⟨hGL, hGd⟩ := hS'mem G hG
    exact (H.irr G hGL).coprime_iff_not_dvd.mpr hGd
  have c1' := isCoprime_lift P e _ _ c1
  have c2' := isCoprime_lift P e _ _ c2
  -- the product modulo P^e
  have hp := (pcong_pow_iff P e _ _).mp H.prod
  have hp' : C (Int.castRingHom (ZMod (P ^ e)) a.leadingCoeff) * (rd (P ^ e) S.prod * rd (P ^ e) S'.prod)
      = rd (P ^ e) h * rd (P ^ e) h' := by
    calc C (Int.castRingHom (ZMod (P ^ e)) a.leadingCoeff) * (rd (P ^ e) S.prod * rd (P ^ e) S'.prod)
        = rd (P ^ e) (C a.leadingCoeff * (S.prod * S'.prod)) := by
          simp only [rd, Polynomial.map_mul, Polynomial.map_C]
      _ = rd (P ^ e) a := by rw [hLprod]; exact hp
      _ = rd (P ^ e) h * rd (P ^ e) h' := by rw [hfac]; simp only [rd, Polynomial.map_mul]
  obtain ⟨u1, u2, u3⟩ := rd_lc H.prime H.epos l1
  obtain ⟨v1, v2, v3⟩ := rd_lc H.prime H.epos l2
  obtain ⟨r1, r2⟩ := monic_split_unique (hmS.map _) (hmS'.map _) hp' u3 v3 c1' c2'
  constructor
  · rw [pcong_pow_iff]; simp only [rd, Polynomial.map_mul, Polynomial.map_C]; rw [← u1]; exact r1.symm
  · rw [pcong_pow_iff]; simp only [rd, Polynomial.map_mul, Polynomial.map_C]; rw [← v1]; exact r2.symm

end subset

end NTV.Zas
