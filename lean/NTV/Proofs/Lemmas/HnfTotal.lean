import NTV.Proofs.Lemmas.HnfShape
namespace NTV.Hnf

theorem argmin_foldl (f : Nat → Nat) (c : Nat) (cs : List Nat) :
    let r := cs.foldl (fun best j => if f j < f best then j else best) c
    r ∈ c :: cs ∧ ∀ x ∈ c :: cs, f r ≤ f x := by
  induction cs generalizing c with
  | nil => simp
  | cons d ds ih =>
    simp only [List.foldl_cons]
    by_cases h : f d < f c
    · simp only [h, ↓reduceIte]
      obtain ⟨h1, h2⟩ := ih d
      refine ⟨by simp only [List.mem_cons] at h1 ⊢; tauto, ?_⟩
      intro x hx
      simp only [List.mem_cons] at hx
      rcases hx with rfl | rfl | hx
      · have := h2 d (by simp); omega
      · exact h2 x (by simp)
      · exact h2 x (by simp [hx])
    · simp only [h, ↓reduceIte]
      obtain ⟨h1, h2⟩ := ih c
      refine ⟨by simp only [List.mem_cons] at h1 ⊢; tauto, ?_⟩
      intro x hx
      simp only [List.mem_cons] at hx
      rcases hx with rfl | rfl | hx
      · exact h2 x (by simp)
      · have := h2 c (by simp); omega
      · exact h2 x (by simp [hx])

theorem pickPivot_spec (a : Mat) (k i : Nat) (hex : ∃ j ≤ k, ent a j i ≠ 0) :
    ent a (pickPivot a k i) i ≠ 0 ∧
    ∀ j ≤ k, ent a j i ≠ 0 → (ent a (pickPivot a k i) i).natAbs ≤ (ent a j i).natAbs := by
  unfold pickPivot
  generalize hc : (List.range (k + 1)).filter (fun j => ent a j i != 0) = cands
  have hmem : ∀ j, j ∈ cands ↔ (j ≤ k ∧ ent a j i ≠ 0) := by
    intro j; rw [← hc]; simp [List.mem_filter]
  cases cands with
  | nil =>
    obtain ⟨j, hj, hne⟩ := hex
    exact absurd ((hmem j).mpr ⟨hj, hne⟩) (by simp)
  | cons c cs =>
    simp only
    obtain ⟨h1, h2⟩ := argmin_foldl (fun j => (ent a j i).natAbs) c cs
    exact ⟨((hmem _).mp h1).2, fun j hj hne => h2 j ((hmem j).mpr ⟨hj, hne⟩)⟩

theorem sum_range_lt (f g : Nat → Nat) (k : Nat) (hle : ∀ r < k, f r ≤ g r) (hlt : ∃ r < k, f r < g r) :
    ((List.range k).map f).sum < ((List.range k).map g).sum := by
  induction k with
  | zero => obtain ⟨r, hr, _⟩ := hlt; omega
  | succ k ih =>
    simp only [List.range_succ, List.map_append, List.map_cons, List.map_nil, List.sum_append, List.sum_cons,
      List.sum_nil, Nat.add_zero]
    have hle' : ∀ r < k, f r ≤ g r := fun r hr => hle r (by omega)
    have hk := hle k (by omega)
    have hsum_le : ((List.range k).map f).sum ≤ ((List.range k).map g).sum := by
      clear ih hlt hk
      induction k with
      | zero => simp
      | succ k ih2 =>
        simp only [List.range_succ, List.map_append, List.map_cons, List.map_nil, List.sum_append, List.sum_cons,
          List.sum_nil, Nat.add_zero]
        have := ih2 (fun r hr => hle r (by omega)) (fun r hr => hle' r (by omega))
        have := hle' k (by omega)
        omega
    obtain ⟨r, hr, hlt'⟩ := hlt
    by_cases hrk : r = k
    · subst hrk; omega
    · have := ih hle' ⟨r, by omega, hlt'⟩; omega

theorem floorDiv_zero (b : Int) (hb : b ≠ 0) : floorDiv 0 b = 0 := by
  have h := floorDiv_rem_abs 0 b hb
  by_contra hq
  have h1 : 1 ≤ (floorDiv 0 b).natAbs := by omega
  have : b.natAbs ≤ (b * floorDiv 0 b).natAbs := by
    rw [Int.natAbs_mul]; exact Nat.le_mul_of_pos_right _ h1
  simp only [zero_sub, Int.natAbs_neg] at h
  omega

/-- One non-final pass of the inner loop strictly decreases Σ_{j<k} |a[j][i]|. -/
theorem inner_step_decreases {n m : Nat} (s : St) (hr : Rect n m s.a) (k i : Nat) (hk : k < n)
    (hnz : allZeroAbove s.a k i = false) :
    colAbsSum (reduceAbove (s.swap (pickPivot s.a k i) k) k i).a k i < colAbsSum s.a k i := by
  have hex : ∃ j < k, ent s.a j i ≠ 0 := by
    by_contra hcon
    simp only [not_exists, not_and, not_not] at hcon
    have := (allZeroAbove_iff s.a k i).mpr hcon
    rw [this] at hnz; exact absurd hnz (by simp)
  obtain ⟨jn, hjn, hjne⟩ := hex
  obtain ⟨hp1, hp2⟩ := pickPivot_spec s.a k i ⟨jn, by omega, hjne⟩
  have hp0 := pickPivot_le s.a k i
  set j0 := pickPivot s.a k i with hj0
  have hk' : k < s.a.length := by rw [hr.1]; exact hk
  have hj' : j0 < s.a.length := by omega
  have hsw : ∀ r c, ent (s.swap j0 k).a r c = if r = k then ent s.a j0 c else if r = j0 then ent s.a k c else ent s.a r c :=
    fun r c => ent_swapRows _ _ _ _ _ hj' hk'
  have hr1 : Rect n m (s.swap j0 k).a := hr.swapRows j0 k (by omega) hk
  obtain ⟨_, he⟩ := reduceAbove_ent (s.swap j0 k) hr1 k i hk
  set b := ent s.a j0 i with hb
  have hbk : ent (s.swap j0 k).a k i = b := by rw [hsw]; simp [hb]
  have hrem : ∀ y : Int, (y - b * floorDiv y b).natAbs < b.natAbs := fun y => floorDiv_rem_abs y b hp1
  -- value of the reduced entry in row r < k
  have hval : ∀ r < k, ent (reduceAbove (s.swap j0 k) k i).a r i
      = ent (s.swap j0 k).a r i - b * floorDiv (ent (s.swap j0 k).a r i) b := by
    intro r hrk; rw [he r i]; simp only [hrk, ↓reduceIte, hbk]
  unfold colAbsSum
  apply sum_range_lt
  · intro r hrk
    rw [hval r hrk]
    have hrne : ¬ r = k := by omega
    by_cases hrj : r = j0
    · have h1 := hrem (ent (s.swap j0 k).a r i)
      have h2 : (ent s.a r i).natAbs = b.natAbs := by rw [hrj]
      omega
    · have e : ent (s.swap j0 k).a r i = ent s.a r i := by rw [hsw]; simp [hrne, hrj]
      rw [e]
      by_cases hy : ent s.a r i = 0
      · rw [hy, floorDiv_zero b hp1]; simp
      · have h1 := hrem (ent s.a r i)
        have h2 := hp2 r (by omega) hy
        omega
  · by_cases hjk : j0 = k
    · refine ⟨jn, hjn, ?_⟩
      rw [hval jn hjn]
      have hne1 : ¬ jn = k := by omega
      have hne2 : ¬ jn = j0 := by omega
      have e : ent (s.swap j0 k).a jn i = ent s.a jn i := by rw [hsw]; simp [hne1, hne2]
      rw [e]
      have h1 := hrem (ent s.a jn i)
      have h2 := hp2 jn (by omega) hjne
      omega
    · have hlt : j0 < k := by omega
      refine ⟨j0, hlt, ?_⟩
      rw [hval j0 hlt]
      have h1 := hrem (ent (s.swap j0 k).a j0 i)
      have h2 : (ent s.a j0 i).natAbs = b.natAbs := rfl
      omega

theorem inner_total {n m : Nat} (fuel : Nat) (s : St) (hr : Rect n m s.a) (k i : Nat) (hk : k < n)
    (hf : colAbsSum s.a k i < fuel) : (inner fuel s k i).isSome := by
  induction fuel generalizing s with
  | zero => omega
  | succ f ih =>
    unfold inner
    split
    · simp
    · rename_i hnz
      have hnz' : allZeroAbove s.a k i = false := by simpa using hnz
      have hdec := inner_step_decreases s hr k i hk hnz'
      have hp0 := pickPivot_le s.a k i
      have hr1 : Rect n m (s.swap (pickPivot s.a k i) k).a := hr.swapRows _ k (by omega) hk
      exact ih _ (reduceAbove_ent _ hr1 k i hk).1 (by omega)

end NTV.Hnf

namespace NTV.Hnf

theorem stepCol_total {n m : Nat} (s : St) (hr : Rect n m s.a) (k i : Nat) (hk : k < n) :
    ∃ s' k', stepCol n s k i = some (s', k') := by
  unfold stepCol
  have h := inner_total (n := n) (m := m) (colAbsSum s.a k i + 1) s hr k i hk (by omega)
  obtain ⟨s1, hs1⟩ := Option.isSome_iff_exists.mp h
  rw [hs1]
  exact ⟨_, _, rfl⟩

theorem stepCol_rect {n m : Nat} (s s2 : St) (hr : Rect n m s.a) (k k2 i : Nat) (hk : k < n)
    (h : stepCol n s k i = some (s2, k2)) : Rect n m s2.a ∧ k2 ≤ k + 1 := by
  unfold stepCol at h
  split at h
  · exact absurd h (by simp)
  · rename_i s1 hin
    obtain ⟨hp, _, _⟩ := inner_post (n := n) (m := m) _ _ _ k i hk hr hin
    simp only [Option.some.injEq] at h
    split at h
    · simp only [Prod.mk.injEq] at h; obtain ⟨rfl, rfl⟩ := h; exact ⟨hp.rect, le_refl _⟩
    · simp only [Prod.mk.injEq] at h; obtain ⟨rfl, rfl⟩ := h
      exact ⟨(reduceBelow_ent s1 hp.rect k i hk).1, by omega⟩

theorem outer_total {n m : Nat} (c : Nat) (s : St) (hr : Rect n m s.a) (k : Nat) (hk : k < n) :
    ∃ s' k', outer n c s k = some (s', k') := by
  induction c generalizing s k with
  | zero => exact ⟨s, k, rfl⟩
  | succ c ih =>
    unfold outer
    obtain ⟨s2, k2, h2⟩ := stepCol_total (m := m) s hr k c hk
    rw [h2]
    simp only
    obtain ⟨hr2, hk2⟩ := stepCol_rect s s2 hr k k2 c hk h2
    split
    · exact ⟨_, _, rfl⟩
    · rename_i hne
      simp only [Bool.or_eq_true, beq_iff_eq, not_or] at hne
      exact ih s2 hr2 (k2 - 1) (by omega)

/-- Termination of the model of `hnf_with_u`: the fuel never runs out. -/
theorem hnfWithU_total (A : Mat) (n m : Nat) (hr : Rect n m A) : (hnfWithU A).isSome := by
  unfold hnfWithU
  cases A with
  | nil => simp
  | cons r0 rs =>
    simp only
    have hlen : (r0 :: rs).length = n := hr.1
    have hm' : r0.length = m := hr.2 r0 (by simp)
    rw [hlen, hm']
    obtain ⟨s', k', h⟩ := outer_total (n := n) (m := m) m ⟨r0 :: rs, idMat n⟩ hr (n - 1)
      (by have : 0 < n := by rw [← hlen]; simp
          omega)
    rw [h]; simp

end NTV.Hnf
